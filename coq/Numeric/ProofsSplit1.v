(* Numeric engine — C07, range splitting (splitInt64Range, precision step 4).
   Part 1: bit operations as arithmetic, one round of [split_loop] in units of 2^shift,
   and the post-condition of [split_range] for ALL int64 bounds:
   termination within 16 rounds, exact cover, pairwise disjointness, alignment, span bounds.
   Part 2 (enumeration, candidate terms, numeric_range_correct) is Numeric/ProofsSplit.v. *)
From Coq Require Import ZArith Lia ZifyBool List Bool.
From Verif Require Import Common.Bytes Numeric.Model.
Import ListNotations.
Local Open Scope Z_scope.

(* ---------- wrap64 ---------- *)
Lemma wrap64_eq x k : - 2^63 <= x - k * 2^64 < 2^63 -> wrap64 x = x - k * 2^64.
Proof.
  intros H. unfold wrap64, two64, two63. set (y := x - k * 2^64) in *.
  assert (E : x mod 2^64 = y mod 2^64).
  { replace x with (y + k * 2^64) by (unfold y; ring). apply Z_mod_plus_full. }
  rewrite E. clearbody y. clear E.
  destruct (Z_lt_le_dec y 0) as [Hn|Hp].
  - replace (y mod 2^64) with (y + 2^64).
    + destruct (y + 2^64 <? 2^63) eqn:E; lia.
    + apply Z.mod_unique with (q := -1); lia.
  - rewrite Z.mod_small by lia. destruct (y <? 2^63) eqn:E; lia.
Qed.

Lemma wrap64_id x : - 2^63 <= x < 2^63 -> wrap64 x = x.
Proof. intros H. rewrite (wrap64_eq x 0); lia. Qed.

(* ---------- bit operations as arithmetic ---------- *)
Lemma testbit_15p s n : 0 <= s -> 0 <= n ->
  Z.testbit (15 * 2^s) n = (s <=? n) && (n <? s + 4).
Proof.
  intros Hs Hn. change 15 with (Z.ones 4). rewrite <- Z.shiftl_mul_pow2 by lia.
  rewrite Z.shiftl_spec by lia. rewrite Z.testbit_ones by lia. lia.
Qed.

Lemma land_15p x s : 0 <= s -> Z.land x (15 * 2^s) = ((x / 2^s) mod 16) * 2^s.
Proof.
  intros Hs.
  assert (E : ((x / 2^s) mod 16) * 2^s = Z.shiftl (Z.land (Z.shiftr x s) (Z.ones 4)) s).
  { rewrite Z.shiftl_mul_pow2, Z.land_ones, Z.shiftr_div_pow2 by lia. reflexivity. }
  rewrite E. clear E. apply Z.bits_inj'. intros n Hn.
  rewrite Z.land_spec, testbit_15p by lia. rewrite Z.shiftl_spec by lia.
  destruct (Z_lt_le_dec n s) as [H|H].
  - rewrite (Z.testbit_neg_r _ (n - s)) by lia.
    replace (s <=? n) with false by lia. cbn. apply andb_false_r.
  - rewrite Z.land_spec, Z.shiftr_spec, Z.testbit_ones by lia.
    replace (n - s + s) with n by ring. f_equal. lia.
Qed.

Lemma add_land_ldiff x m : Z.ldiff x m + Z.land x m = x.
Proof.
  assert (H : Z.land (Z.ldiff x m) (Z.land x m) = 0).
  { apply Z.bits_inj'. intros n Hn. rewrite !Z.land_spec, Z.ldiff_spec, Z.bits_0.
    destruct (Z.testbit x n), (Z.testbit m n); reflexivity. }
  rewrite (Z.add_nocarry_lxor _ _ H), (Z.lxor_lor _ _ H). apply Z.lor_ldiff_and.
Qed.

Lemma ldiff_sub x m : Z.ldiff x m = x - Z.land x m.
Proof. pose proof (add_land_ldiff x m). lia. Qed.

Lemma lor_add x m : Z.lor x m = x + m - Z.land x m.
Proof.
  assert (H : Z.land x (Z.ldiff m x) = 0).
  { apply Z.bits_inj'. intros n Hn. rewrite !Z.land_spec, Z.ldiff_spec, Z.bits_0.
    destruct (Z.testbit x n), (Z.testbit m n); reflexivity. }
  assert (E : Z.lor x m = Z.lor x (Z.ldiff m x)).
  { apply Z.bits_inj'. intros n Hn. rewrite !Z.lor_spec, Z.ldiff_spec.
    destruct (Z.testbit x n), (Z.testbit m n); reflexivity. }
  rewrite E, <- (Z.lxor_lor _ _ H), <- (Z.add_nocarry_lxor _ _ H).
  rewrite ldiff_sub, (Z.land_comm m x). ring.
Qed.

Lemma ldiff_15p x s : 0 <= s -> Z.ldiff x (15 * 2^s) = x - ((x / 2^s) mod 16) * 2^s.
Proof. intros. rewrite ldiff_sub, land_15p by lia. reflexivity. Qed.

Lemma lor_15p x s : 0 <= s -> Z.lor x (15 * 2^s) = x + (15 - (x / 2^s) mod 16) * 2^s.
Proof. intros. rewrite lor_add, land_15p by lia. ring. Qed.

Lemma lor_ones x s : 0 <= s -> Z.lor x (2^s - 1) = x + (2^s - 1 - x mod 2^s).
Proof.
  intros. replace (2^s - 1) with (Z.ones s) by (rewrite Z.ones_equiv; lia).
  rewrite lor_add, Z.land_ones by lia. rewrite Z.ones_equiv. lia.
Qed.

Lemma lor_ones_mul c s : 0 <= s -> Z.lor (c * 2^s) (2^s - 1) = c * 2^s + 2^s - 1.
Proof. intros. rewrite lor_ones by lia. rewrite Z_mod_mult. lia. Qed.

Lemma ldiff_le x m : 0 <= m -> Z.ldiff x m <= x.
Proof. intros. rewrite ldiff_sub. assert (0 <= Z.land x m) by (apply Z.land_nonneg; lia). lia. Qed.

(* ---------- one round of split_loop, in units of p = 2^shift ---------- *)

Definition mkv (s lo hi : Z) : vrange := {| vr_shift := s; vr_lo := lo; vr_hi := hi |}.

Section Level.
  Variable s : Z.
  Hypothesis Hs : 0 <= s <= 56.
  Let p := 2 ^ s.
  Let T := 2 ^ (59 - s).

  Lemma p_pos : 0 < p.
  Proof. unfold p. apply Z.pow_pos_nonneg; lia. Qed.
  Lemma T_pos : 0 < T.
  Proof. unfold T. apply Z.pow_pos_nonneg; lia. Qed.
  Lemma Tp63 : 16 * T * p = 2 ^ 63.
  Proof.
    unfold T, p. change 16 with (2^4). rewrite <- !Z.pow_add_r by lia. f_equal. lia.
  Qed.
  Lemma p16 : 2 ^ (s + 4) = 16 * p.
  Proof. unfold p. rewrite Z.pow_add_r by lia. change (2^4) with 16. ring. Qed.
  Lemma p_le : 32 * p <= 2 ^ 61.
  Proof.
    unfold p. change 32 with (2^5). rewrite <- Z.pow_add_r by lia.
    apply Z.pow_le_mono_r; lia.
  Qed.

  Lemma diff_eq : wrap64 (2 ^ (s + 4)) = 16 * p.
  Proof. rewrite p16. pose proof p_le. pose proof p_pos. apply wrap64_id. lia. Qed.
  Lemma mask_eq : wrap64 ((2 ^ 4 - 1) * 2 ^ s) = 15 * p.
  Proof. change (2^4 - 1) with 15. fold p. pose proof p_le. pose proof p_pos. apply wrap64_id. lia. Qed.

  Lemma land_mul c : Z.land (c * p) (15 * p) = (c mod 16) * p.
  Proof. unfold p. rewrite land_15p by lia. rewrite Z_div_mult by (apply Z.lt_gt, p_pos). reflexivity. Qed.
  Lemma ldiff_mul c : Z.ldiff (c * p) (15 * p) = (c - c mod 16) * p.
  Proof. rewrite ldiff_sub, land_mul. ring. Qed.
  Lemma lor_mul c : Z.lor (c * p) (15 * p) = (c + 15 - c mod 16) * p.
  Proof. rewrite lor_add, land_mul. ring. Qed.

  Lemma lor_ones_p c : Z.lor (c * p) (p - 1) = c * p + p - 1.
  Proof. unfold p. apply lor_ones_mul. lia. Qed.

  Variables a b : Z.
  Hypothesis Hab : - (16 * T) <= a /\ a <= b /\ b < 16 * T.

  Let hasL := negb (a mod 16 =? 0).
  Let hasU := negb (b mod 16 =? 15).
  Let a' := if hasL then a / 16 + 1 else a / 16.
  Let b' := if hasU then b / 16 - 1 else b / 16.
  Let nMin := if hasL then Z.ldiff (wrap64 (a * p + 16 * p)) (15 * p) else Z.ldiff (a * p) (15 * p).
  Let nMax := if hasU then Z.ldiff (wrap64 (b * p - 16 * p)) (15 * p) else Z.ldiff (b * p) (15 * p).

  Lemma next_min_spec :
    (a' < T -> nMin = a' * (16 * p)) /\ (T <= a' -> nMin < a * p).
  Proof.
    pose proof p_pos as Hp. pose proof T_pos as HT. pose proof Tp63 as H63. pose proof p_le as Hple.
    pose proof (Z.div_mod a 16 ltac:(lia)) as Ha. pose proof (Z.mod_pos_bound a 16 ltac:(lia)) as Hr.
    unfold nMin, a', hasL. destruct (a mod 16 =? 0) eqn:E; cbn [negb].
    - split; [intros _|intros; lia]. rewrite ldiff_mul. nia.
    - destruct (Z_lt_le_dec (a / 16 + 1) T) as [Hlt|Hge]; (split; [intros| intros; try lia]); try lia.
      + replace (a * p + 16 * p) with ((a + 16) * p) by ring.
        rewrite wrap64_id by nia. rewrite ldiff_mul.
        replace ((a + 16) mod 16) with (a mod 16).
        2:{ replace (a + 16) with (a + 1 * 16) by ring. rewrite Z_mod_plus_full. reflexivity. }
        nia.
      + rewrite (wrap64_eq _ 1) by nia.
        pose proof (ldiff_le (a * p + 16 * p - 1 * 2 ^ 64) (15 * p) ltac:(lia)). 
        change (2^64) with (2 * 2^63) in *. nia.
  Qed.

  Lemma next_max_spec :
    (- T <= b' -> nMax = b' * (16 * p)) /\ (b' < - T -> b * p < nMax).
  Proof.
    pose proof p_pos as Hp. pose proof T_pos as HT. pose proof Tp63 as H63. pose proof p_le as Hple.
    pose proof (Z.div_mod b 16 ltac:(lia)) as Hb. pose proof (Z.mod_pos_bound b 16 ltac:(lia)) as Hr.
    unfold nMax, b', hasU. destruct (b mod 16 =? 15) eqn:E; cbn [negb].
    - split; [intros _|intros; lia]. rewrite ldiff_mul. nia.
    - destruct (Z_lt_le_dec (b / 16 - 1) (- T)) as [Hlt|Hge]; (split; [intros| intros; try lia]); try lia.
      + rewrite (wrap64_eq _ (-1)) by nia.
        set (z := b * p - 16 * p - -1 * 2 ^ 64). fold z.
        unfold p. rewrite ldiff_15p by lia. fold p.
        pose proof (Z.mod_pos_bound (z / p) 16 ltac:(lia)) as Hm.
        assert (z - 15 * p > b * p) by (unfold z; change (2^64) with (2 * 2^63); nia).
        nia.
      + replace (b * p - 16 * p) with ((b - 16) * p) by ring.
        rewrite wrap64_id by nia. rewrite ldiff_mul.
        replace ((b - 16) mod 16) with (b mod 16).
        2:{ replace (b - 16) with (b + (-1) * 16) by ring. rewrite Z_mod_plus_full. reflexivity. }
        nia.
  Qed.

  Lemma ltb_mul_p x y : (x * p <? y * p) = (x <? y).
  Proof. pose proof p_pos. destruct (x <? y) eqn:E; [apply Z.ltb_lt|apply Z.ltb_ge]; nia. Qed.

  Lemma split_step f :
    split_loop (S f) (a * p) (b * p) s 4 =
    if (b' <? a') || (T <=? a') || (b' <? - T) then Some [mkv s (a * p) (b * p + p - 1)]
    else match split_loop f (a' * (16 * p)) (b' * (16 * p)) (s + 4) 4 with
         | Some rest =>
             Some ((if hasL then [mkv s (a * p) (a' * (16 * p) - 1)] else []) ++
                   (if hasU then [mkv s ((b' + 1) * (16 * p)) (b * p + p - 1)] else []) ++ rest)
         | None => None
         end.
  Proof.
    pose proof p_pos as Hp. pose proof T_pos as HT.
    pose proof next_min_spec as [Hmin1 Hmin2]. pose proof next_max_spec as [Hmax1 Hmax2].
    cbn [split_loop]. rewrite diff_eq, mask_eq. fold p.
    rewrite !land_mul.
    replace (a mod 16 * p =? 0) with (a mod 16 =? 0).
    2:{ pose proof (Z.mod_pos_bound a 16 ltac:(lia)). destruct (a mod 16 =? 0) eqn:E; symmetry; [apply Z.eqb_eq|apply Z.eqb_neq]; nia. }
    replace (b mod 16 * p =? 15 * p) with (b mod 16 =? 15).
    2:{ destruct (b mod 16 =? 15) eqn:E; symmetry; [apply Z.eqb_eq|apply Z.eqb_neq]; nia. }
    fold hasL hasU nMin nMax.
    replace (64 <=? s + 4) with false by lia. cbn [orb].
    unfold new_range. fold p.
    destruct (T <=? a') eqn:EL.
    { rewrite (proj2 (Z.ltb_lt nMin (a * p))) by (apply Hmin2; lia).
      rewrite !orb_true_r. cbn [orb]. rewrite lor_ones_p. reflexivity. }
    destruct (b' <? - T) eqn:EU.
    { rewrite (proj2 (Z.ltb_lt (b * p) nMax)) by (apply Hmax2; lia).
      rewrite !orb_true_r. cbn [orb]. rewrite lor_ones_p. reflexivity. }
    rewrite Hmin1, Hmax1 by lia.
    replace (b' * (16 * p) <? a' * (16 * p)) with (b' <? a').
    2:{ replace (b' * (16 * p)) with ((16 * b') * p) by ring. replace (a' * (16 * p)) with ((16 * a') * p) by ring.
        rewrite ltb_mul_p. lia. }
    assert (Ha' : a <= 16 * a').
    { pose proof (Z.div_mod a 16 ltac:(lia)). pose proof (Z.mod_pos_bound a 16 ltac:(lia)).
      unfold a', hasL. destruct (a mod 16 =? 0) eqn:Ea; cbn [negb]; lia. }
    assert (Hb' : 16 * b' <= b).
    { pose proof (Z.div_mod b 16 ltac:(lia)). pose proof (Z.mod_pos_bound b 16 ltac:(lia)).
      unfold b'. destruct hasU; lia. }
    replace (a' * (16 * p) <? a * p) with false.
    2:{ symmetry. apply Z.ltb_ge. nia. }
    replace (b * p <? b' * (16 * p)) with false.
    2:{ symmetry. apply Z.ltb_ge. nia. }
    rewrite !orb_false_r.
    destruct (b' <? a') eqn:E; cbn [orb].
    { rewrite lor_ones_p. reflexivity. }
    destruct (split_loop f (a' * (16 * p)) (b' * (16 * p)) (s + 4) 4) as [rest|]; [|reflexivity].
    f_equal. f_equal; [|f_equal].
    - unfold a', hasL. destruct (a mod 16 =? 0) eqn:Ea; cbn [negb]; [reflexivity|].
      rewrite lor_mul. f_equal. unfold mkv. f_equal.
      rewrite lor_ones_p.
      pose proof (Z.div_mod a 16 ltac:(lia)). nia.
    - unfold b', hasU. destruct (b mod 16 =? 15) eqn:Eb; cbn [negb]; [reflexivity|].
      rewrite ldiff_mul. f_equal. unfold mkv. f_equal.
      + pose proof (Z.div_mod b 16 ltac:(lia)). nia.
      + apply lor_ones_p.
  Qed.
End Level.

(* ---------- well-formed value ranges ---------- *)

Definition vr_count (v : vrange) : Z := (vr_hi v - vr_lo v + 1) / 2 ^ vr_shift v.

Definition vr_wf (v : vrange) : Prop :=
  0 <= vr_shift v <= 63 /\
  vr_lo v mod 2 ^ vr_shift v = 0 /\ (vr_hi v + 1) mod 2 ^ vr_shift v = 0 /\
  min_int64 <= vr_lo v /\ vr_lo v <= vr_hi v /\ vr_hi v <= max_int64.

Definition vr_disj (v w : vrange) : Prop := vr_hi v < vr_lo w \/ vr_hi w < vr_lo v.

Definition sum_count (l : list vrange) : Z := fold_right (fun v acc => vr_count v + acc) 0 l.

Lemma sum_count_app l1 l2 : sum_count (l1 ++ l2) = sum_count l1 + sum_count l2.
Proof. unfold sum_count. induction l1 as [|v l1 IH]; cbn [fold_right app]; lia. Qed.

Lemma pow63_split s : 0 <= s <= 63 -> 2 ^ (63 - s) * 2 ^ s = 2 ^ 63.
Proof. intros. rewrite <- Z.pow_add_r by lia. f_equal. lia. Qed.

Lemma mkv_wf s c d : 0 <= s <= 63 -> - 2 ^ (63 - s) <= c -> c <= d -> d < 2 ^ (63 - s) ->
  vr_wf (mkv s (c * 2 ^ s) (d * 2 ^ s + 2 ^ s - 1)) /\
  vr_count (mkv s (c * 2 ^ s) (d * 2 ^ s + 2 ^ s - 1)) = d - c + 1.
Proof.
  intros Hs Hc Hcd Hd. pose proof (pow63_split s Hs) as H63.
  assert (Hp : 0 < 2 ^ s) by (apply Z.pow_pos_nonneg; lia).
  set (p := 2 ^ s) in *. set (T := 2 ^ (63 - s)) in *.
  unfold vr_wf, vr_count, mkv; cbn [vr_shift vr_lo vr_hi]. fold p.
  repeat split; try lia.
  - apply Z_mod_mult.
  - replace (d * p + p - 1 + 1) with ((d + 1) * p) by ring. apply Z_mod_mult.
  - unfold min_int64, two63. nia.
  - nia.
  - unfold max_int64, two63. nia.
  - replace (d * p + p - 1 - c * p + 1) with ((d - c + 1) * p) by ring. apply Z_div_mult. lia.
Qed.

(* ---------- the post-condition of split_loop started at level k ---------- *)

Definition vr_in (k L H : Z) (v : vrange) : Prop :=
  vr_wf v /\ (exists j, k <= j <= 15 /\ vr_shift v = 4 * j) /\
  L <= vr_lo v /\ vr_hi v <= H /\ vr_count v <= 30.

Definition split_post (k L H : Z) (vrs : list vrange) : Prop :=
  Forall (vr_in k L H) vrs /\
  (forall x, L <= x <= H -> exists v, In v vrs /\ vr_lo v <= x <= vr_hi v) /\
  ForallOrdPairs vr_disj vrs /\
  sum_count vrs <= 14 + (if L =? min_int64 then 1 else 15 * (15 - k))
                      + (if H =? max_int64 then 1 else 15 * (15 - k)) /\
  Z.of_nat (length vrs) <= 2 * (15 - k) + 1 /\
  (exists init last, vrs = init ++ [last] /\ Forall (fun v => vr_count v <= 15) init).

Lemma vr_in_weaken k L H k' L' H' v :
  k' <= k -> L' <= L -> H <= H' -> vr_in k L H v -> vr_in k' L' H' v.
Proof.
  intros Hk HL HH (Hwf & (j & Hj & Hsj) & Hlo & Hhi & Hc).
  repeat split; try lia; try apply Hwf. exists j; split; lia.
Qed.

(* an optional partial range at level k covering exactly [lo, hi] *)
Definition partial (k lo hi : Z) (l : list vrange) : Prop :=
  (l = [] /\ hi = lo - 1) \/
  (exists v, l = [v] /\ vr_wf v /\ vr_shift v = 4 * k /\ vr_lo v = lo /\ vr_hi v = hi /\ vr_count v <= 15).

Lemma split_post_single k L H v :
  0 <= k <= 15 -> vr_wf v -> vr_shift v = 4 * k -> vr_lo v = L -> vr_hi v = H ->
  vr_count v <= 30 ->
  vr_count v <= 14 + (if L =? min_int64 then 1 else 15 * (15 - k))
                   + (if H =? max_int64 then 1 else 15 * (15 - k)) ->
  split_post k L H [v].
Proof.
  intros Hk Hwf Hs Hlo Hhi Hc Hc15. unfold split_post. repeat split.
  - constructor; [|constructor]. repeat split; try lia; try apply Hwf. exists k; lia.
  - intros x Hx. exists v. split; [left; reflexivity|lia].
  - constructor; constructor.
  - cbn [sum_count fold_right]. lia.
  - cbn [length]. lia.
  - exists [], v. split; [reflexivity|constructor].
Qed.

Lemma partial_count k lo hi l : partial k lo hi l -> Forall (fun v => vr_count v <= 15) l.
Proof.
  intros [[-> _]|(v & -> & _ & _ & _ & _ & Hc)]; [constructor|].
  constructor; [exact Hc|constructor].
Qed.

Lemma split_post_combine k L H L' H' l u rest :
  0 <= k < 15 -> L <= L' -> L' <= H' -> H' <= H ->
  partial k L (L' - 1) l -> partial k (H' + 1) H u ->
  (L = min_int64 -> l = []) -> (H = max_int64 -> u = []) ->
  split_post (k + 1) L' H' rest ->
  split_post k L H (l ++ u ++ rest).
Proof.
  intros Hk HLL HLH HHH Hl Hu HLmin HHmax (Hall & Hcov & Hdis & Hsum & Hlen & (init & last & Hinit & Hinit15)).
  assert (Hlast : exists init' last', l ++ u ++ rest = init' ++ [last'] /\
                                      Forall (fun v => vr_count v <= 15) init').
  { exists (l ++ u ++ init), last. split.
    - rewrite Hinit, <- !app_assoc. reflexivity.
    - apply Forall_app. split; [eapply partial_count; exact Hl|].
      apply Forall_app. split; [eapply partial_count; exact Hu|exact Hinit15]. }
  clear Hinit.
  assert (Hrest : Forall (vr_in k L H) rest).
  { eapply Forall_impl; [|exact Hall]. intros v. apply vr_in_weaken; lia. }
  assert (Hbnd : forall w, In w rest -> L' <= vr_lo w /\ vr_hi w <= H').
  { intros w Hw. rewrite Forall_forall in Hall. destruct (Hall w Hw) as (_ & _ & ? & ? & _). lia. }
  unfold split_post.
  assert (HLne : l <> [] -> L <> min_int64) by (intros Hne E; apply Hne, HLmin, E).
  assert (HHne : u <> [] -> H <> max_int64) by (intros Hne E; apply Hne, HHmax, E).
  clear HLmin HHmax.
  destruct Hl as [[-> HeL]|(vl & -> & Hwl & Hsl & Hlol & Hhil & Hcl)];
  destruct Hu as [[-> HeU]|(vu & -> & Hwu & Hsu & Hlou & Hhiu & Hcu)]; cbn [app] in Hlast |- *;
  try (specialize (HLne ltac:(discriminate)); pose proof Hwl as (_ & _ & _ & Hminl & Hlhl & Hmaxl));
  try (specialize (HHne ltac:(discriminate)); pose proof Hwu as (_ & _ & _ & Hminu & Hlhu & Hmaxu)).
  - (* no partial ranges *)
    repeat split; try assumption; try lia.
    + intros x Hx. apply Hcov. lia.
    + destruct (L =? min_int64) eqn:?; destruct (H =? max_int64) eqn:?;
      destruct (L' =? min_int64) eqn:?; destruct (H' =? max_int64) eqn:?; lia.
  - assert (Hvu : vr_in k L H vu).
    { repeat split; try lia; try apply Hwu. exists k; lia. }
    repeat split.
    + constructor; assumption.
    + intros x Hx. destruct (Z_le_gt_dec x H') as [Hle|Hgt].
      * destruct (Hcov x ltac:(lia)) as (v & Hv & Hxv). exists v. split; [right; exact Hv|exact Hxv].
      * exists vu. split; [left; reflexivity|lia].
    + constructor; [|exact Hdis]. apply Forall_forall. intros w Hw. destruct (Hbnd w Hw). right. lia.
    + cbn [sum_count fold_right]. fold (sum_count rest).
      destruct (L =? min_int64) eqn:?; destruct (H =? max_int64) eqn:?;
      destruct (L' =? min_int64) eqn:?; destruct (H' =? max_int64) eqn:?; lia.
    + cbn [length]. lia.
    + exact Hlast.
  - assert (Hvl : vr_in k L H vl).
    { repeat split; try lia; try apply Hwl. exists k; lia. }
    repeat split.
    + constructor; assumption.
    + intros x Hx. destruct (Z_lt_le_dec x L') as [Hlt|Hge].
      * exists vl. split; [left; reflexivity|lia].
      * destruct (Hcov x ltac:(lia)) as (v & Hv & Hxv). exists v. split; [right; exact Hv|exact Hxv].
    + constructor; [|exact Hdis]. apply Forall_forall. intros w Hw. destruct (Hbnd w Hw). left. lia.
    + cbn [sum_count fold_right]. fold (sum_count rest).
      destruct (L =? min_int64) eqn:?; destruct (H =? max_int64) eqn:?;
      destruct (L' =? min_int64) eqn:?; destruct (H' =? max_int64) eqn:?; lia.
    + cbn [length]. lia.
    + exact Hlast.
  - assert (Hvl : vr_in k L H vl).
    { repeat split; try lia; try apply Hwl. exists k; lia. }
    assert (Hvu : vr_in k L H vu).
    { repeat split; try lia; try apply Hwu. exists k; lia. }
    repeat split.
    + constructor; [assumption|constructor; assumption].
    + intros x Hx. destruct (Z_lt_le_dec x L') as [Hlt|Hge].
      * exists vl. split; [left; reflexivity|lia].
      * destruct (Z_le_gt_dec x H') as [Hle|Hgt].
        -- destruct (Hcov x ltac:(lia)) as (v & Hv & Hxv). exists v. split; [right; right; exact Hv|exact Hxv].
        -- exists vu. split; [right; left; reflexivity|lia].
    + constructor.
      * constructor; [left; lia|]. apply Forall_forall. intros w Hw. destruct (Hbnd w Hw). left. lia.
      * constructor; [|exact Hdis]. apply Forall_forall. intros w Hw. destruct (Hbnd w Hw). right. lia.
    + cbn [sum_count fold_right]. fold (sum_count rest).
      destruct (L =? min_int64) eqn:?; destruct (H =? max_int64) eqn:?;
      destruct (L' =? min_int64) eqn:?; destruct (H' =? max_int64) eqn:?; lia.
    + cbn [length]. lia.
    + exact Hlast.
Qed.

Lemma split_loop_stop f minB maxB shift step : 64 <= shift + step ->
  split_loop (S f) minB maxB shift step = Some [new_range minB maxB shift].
Proof. intros H. cbn [split_loop]. replace (64 <=? shift + step) with true by lia. reflexivity. Qed.

Lemma split_loop_post n : forall k a b f,
  k = 15 - Z.of_nat n -> (n <= 15)%nat -> (n < f)%nat ->
  - 2 ^ (63 - 4 * k) <= a -> a <= b -> b < 2 ^ (63 - 4 * k) ->
  exists vrs, split_loop f (a * 2 ^ (4 * k)) (b * 2 ^ (4 * k)) (4 * k) 4 = Some vrs /\
              split_post k (a * 2 ^ (4 * k)) (b * 2 ^ (4 * k) + 2 ^ (4 * k) - 1) vrs.
Proof.
  induction n as [|n IH]; intros k a b f Hk Hn Hf Ha Hab Hb.
  - destruct f as [|f]; [lia|]. assert (Hk15 : k = 15) by lia. clear Hk. subst k.
    change (4 * 15) with 60 in *. change (63 - 60) with 3 in *.
    rewrite split_loop_stop by lia. eexists; split; [reflexivity|].
    unfold new_range. rewrite lor_ones_mul by lia.
    destruct (mkv_wf 60 a b ltac:(lia) Ha Hab Hb) as [Hwf Hc].
    apply split_post_single; try reflexivity; try assumption; try lia.
    + fold (mkv 60 (a * 2^60) (b * 2^60 + 2^60 - 1)). rewrite Hc. change (2^3) with 8 in *. lia.
    + fold (mkv 60 (a * 2^60) (b * 2^60 + 2^60 - 1)). rewrite Hc. change (2^3) with 8 in *.
      unfold min_int64, max_int64, two63.
      destruct (a * 2 ^ 60 =? - 2 ^ 63) eqn:E1; destruct (b * 2 ^ 60 + 2 ^ 60 - 1 =? 2 ^ 63 - 1) eqn:E2; lia.
  - destruct f as [|f]; [lia|].
    assert (Hk14 : 0 <= k <= 14) by lia.
    set (s := 4 * k) in *. assert (Hs : 0 <= s <= 56) by lia.
    assert (HT : 2 ^ (63 - s) = 16 * 2 ^ (59 - s)).
    { replace (63 - s) with (4 + (59 - s)) by lia. rewrite Z.pow_add_r by lia. reflexivity. }
    assert (Hp16 : 16 * 2 ^ s = 2 ^ (4 * (k + 1))).
    { replace (4 * (k + 1)) with (4 + s) by lia. rewrite Z.pow_add_r by lia. reflexivity. }
    assert (HT' : 2 ^ (59 - s) = 2 ^ (63 - 4 * (k + 1))) by (f_equal; lia).
    assert (Hppos : 0 < 2 ^ s) by (apply Z.pow_pos_nonneg; lia).
    assert (HTpos : 0 < 2 ^ (59 - s)) by (apply Z.pow_pos_nonneg; lia).
    rewrite split_step by lia.
    pose proof (Z.div_mod a 16 ltac:(lia)) as Hda. pose proof (Z.mod_pos_bound a 16 ltac:(lia)) as Hra.
    pose proof (Z.div_mod b 16 ltac:(lia)) as Hdb. pose proof (Z.mod_pos_bound b 16 ltac:(lia)) as Hrb.
    set (hasL := negb (a mod 16 =? 0)). set (hasU := negb (b mod 16 =? 15)).
    set (a' := if hasL then a / 16 + 1 else a / 16).
    set (b' := if hasU then b / 16 - 1 else b / 16).
    set (p := 2 ^ s) in *. set (T := 2 ^ (59 - s)) in *.
    assert (HhasL : hasL = negb (a mod 16 =? 0)) by reflexivity.
    assert (HhasU : hasU = negb (b mod 16 =? 15)) by reflexivity.
    assert (Ha'def : a' = if hasL then a / 16 + 1 else a / 16) by reflexivity.
    assert (Hb'def : b' = if hasU then b / 16 - 1 else b / 16) by reflexivity.
    clearbody hasL hasU a' b'.
    assert (H63 : 16 * T * p = 2 ^ 63) by (rewrite <- (pow63_split s) by lia; rewrite HT; reflexivity).
    assert (HT8 : 8 <= T).
    { unfold T. change 8 with (2 ^ 3). apply Z.pow_le_mono_r; lia. }
    assert (HLm : (a * p =? min_int64) = (a =? - (16 * T))).
    { unfold min_int64, two63. rewrite <- H63.
      destruct (a =? - (16 * T)) eqn:E; [apply Z.eqb_eq|apply Z.eqb_neq]; nia. }
    assert (HHm : (b * p + p - 1 =? max_int64) = (b =? 16 * T - 1)).
    { unfold max_int64, two63. rewrite <- H63.
      destruct (b =? 16 * T - 1) eqn:E; [apply Z.eqb_eq|apply Z.eqb_neq]; nia. }
    assert (Ha'1 : a <= 16 * a' <= a + 15) by (rewrite Ha'def, HhasL; destruct (a mod 16 =? 0) eqn:E; cbn [negb]; lia).
    assert (Hb'1 : b - 15 <= 16 * b' + 15 <= b) by (rewrite Hb'def, HhasU; destruct (b mod 16 =? 15) eqn:E; cbn [negb]; lia).
    destruct ((b' <? a') || (T <=? a') || (b' <? - T)) eqn:Hstop.
    + eexists; split; [reflexivity|].
      destruct (mkv_wf s a b ltac:(lia) ltac:(lia) Hab ltac:(lia)) as [Hwf Hc]. fold p in Hwf, Hc.
      apply split_post_single; try reflexivity; try assumption; try lia.
      rewrite Hc, HLm, HHm.
      destruct (a =? - (16 * T)) eqn:E1; destruct (b =? 16 * T - 1) eqn:E2; lia.
    + assert (Hcont : a' <= b' /\ a' < T /\ - T <= b') by lia. clear Hstop.
      assert (IH1 : - 2 ^ (63 - 4 * (k + 1)) <= a') by (rewrite <- HT'; lia).
      assert (IH2 : b' < 2 ^ (63 - 4 * (k + 1))) by (rewrite <- HT'; lia).
      assert (IH0 : k + 1 = 15 - Z.of_nat n) by lia.
      destruct (IH (k + 1) a' b' f IH0 ltac:(lia) ltac:(lia) IH1 ltac:(lia) IH2) as (rest & Hrest & Hpost).
      rewrite <- Hp16 in Hrest, Hpost.
      replace (4 * (k + 1)) with (s + 4) in Hrest by lia.
      replace (a' * (16 * p)) with (a' * (16 * p)) by reflexivity.
      rewrite Hrest. eexists; split; [reflexivity|].
      assert (G1 : a * p <= a' * (16 * p)) by nia.
      assert (G2 : a' * (16 * p) <= b' * (16 * p) + 16 * p - 1) by nia.
      assert (G3 : b' * (16 * p) + 16 * p - 1 <= b * p + p - 1) by nia.
      apply (split_post_combine k _ _ (a' * (16 * p)) (b' * (16 * p) + 16 * p - 1)); [lia|exact G1|exact G2|exact G3| | | | |exact Hpost].
      3:{ intros E. apply Z.eqb_eq in E. rewrite HLm in E.
          assert (Hm : a mod 16 = 0).
          { replace a with ((- T) * 16) by lia. apply Z_mod_mult. }
          rewrite HhasL, Hm. reflexivity. }
      3:{ intros E. apply Z.eqb_eq in E. rewrite HHm in E.
          assert (Hm : b mod 16 = 15).
          { symmetry. apply Z.mod_unique with (q := T - 1); lia. }
          rewrite HhasU, Hm. reflexivity. }
      * rewrite HhasL in Ha'def |- *. destruct (a mod 16 =? 0) eqn:E; cbn [negb] in Ha'def |- *.
        -- left. split; [reflexivity|]. nia.
        -- right. eexists; split; [reflexivity|].
           destruct (mkv_wf s a (16 * a' - 1) ltac:(lia) ltac:(lia) ltac:(lia) ltac:(lia)) as [Hwf Hc].
           fold p in Hwf, Hc.
           replace ((16 * a' - 1) * p + p - 1) with (a' * (16 * p) - 1) in Hwf, Hc by ring.
           repeat split; try apply Hwf. rewrite Hc. lia.
      * rewrite HhasU in Hb'def |- *. destruct (b mod 16 =? 15) eqn:E; cbn [negb] in Hb'def |- *.
        -- left. split; [reflexivity|]. nia.
        -- right. eexists; split; [reflexivity|].
           destruct (mkv_wf s (16 * (b' + 1)) b ltac:(lia) ltac:(lia) ltac:(lia) ltac:(lia)) as [Hwf Hc].
           fold p in Hwf, Hc.
           replace (16 * (b' + 1) * p) with ((b' + 1) * (16 * p)) in Hwf, Hc by ring.
           repeat split; try apply Hwf.
           ++ cbn [mkv vr_lo]. ring.
           ++ rewrite Hc. lia.
Qed.

(* ---------- public statements about split_range (precision step 4) ---------- *)

Lemma in_int64_bounds x : in_int64 x = true <-> - 2 ^ 63 <= x < 2 ^ 63.
Proof. unfold in_int64, min_int64, max_int64, two63. lia. Qed.

Lemma split_range_post lo hi : in_int64 lo = true -> in_int64 hi = true -> lo <= hi ->
  exists vrs, split_range lo hi 4 = Some vrs /\ split_post 0 lo hi vrs.
Proof.
  intros Hlo Hhi Hle. apply in_int64_bounds in Hlo, Hhi.
  unfold split_range. replace (hi <? lo) with false by lia.
  destruct (split_loop_post 15 0 lo hi 65%nat) as (vrs & Hvrs & Hpost);
    try (change (63 - 4 * 0) with 63); try lia.
  change (4 * 0) with 0 in *. change (2 ^ 0) with 1 in *. rewrite !Z.mul_1_r in *.
  replace (hi + 1 - 1) with hi in Hpost by lia.
  exists vrs. split; assumption.
Qed.

(* 1. the fuel never runs out; 16 rounds are enough *)
Theorem split_fuel_ok lo hi : in_int64 lo = true -> in_int64 hi = true -> lo <= hi ->
  exists vrs, split_range lo hi 4 = Some vrs.
Proof. intros H1 H2 H3. destruct (split_range_post lo hi H1 H2 H3) as (vrs & H & _). eauto. Qed.

Theorem split_rounds_le_16 lo hi : in_int64 lo = true -> in_int64 hi = true -> lo <= hi ->
  exists vrs, split_loop 16 lo hi 0 4 = Some vrs.
Proof.
  intros Hlo Hhi Hle. apply in_int64_bounds in Hlo, Hhi.
  destruct (split_loop_post 15 0 lo hi 16%nat) as (vrs & Hvrs & _);
    try (change (63 - 4 * 0) with 63); try lia.
  change (4 * 0) with 0 in *. change (2 ^ 0) with 1 in *. rewrite !Z.mul_1_r in *. eauto.
Qed.

Lemma split_range_total lo hi : in_int64 lo = true -> in_int64 hi = true ->
  exists vrs, split_range lo hi 4 = Some vrs.
Proof.
  intros H1 H2. destruct (Z_lt_le_dec hi lo) as [H|H].
  - exists []. unfold split_range. replace (hi <? lo) with true by lia. reflexivity.
  - apply split_fuel_ok; assumption.
Qed.

Lemma split_range_cases lo hi vrs : in_int64 lo = true -> in_int64 hi = true ->
  split_range lo hi 4 = Some vrs ->
  (hi < lo /\ vrs = []) \/ (lo <= hi /\ split_post 0 lo hi vrs).
Proof.
  intros H1 H2 Hs. destruct (Z_lt_le_dec hi lo) as [H|H].
  - left. split; [exact H|]. unfold split_range in Hs. replace (hi <? lo) with true in Hs by lia. congruence.
  - right. split; [exact H|]. destruct (split_range_post lo hi H1 H2 H) as (vrs' & Hs' & Hp). congruence.
Qed.

(* 2. the emitted value intervals cover exactly [lo, hi] ... *)
Theorem split_cover lo hi vrs : in_int64 lo = true -> in_int64 hi = true ->
  split_range lo hi 4 = Some vrs ->
  forall x, lo <= x <= hi <-> exists vr, In vr vrs /\ vr_lo vr <= x <= vr_hi vr.
Proof.
  intros H1 H2 Hs x. destruct (split_range_cases lo hi vrs H1 H2 Hs) as [[Hlt ->]|[Hle Hp]].
  - split; [lia|]. intros (vr & [] & _).
  - destruct Hp as (Hall & Hcov & _). split; [apply Hcov|].
    intros (vr & Hin & Hx). rewrite Forall_forall in Hall.
    destruct (Hall vr Hin) as (_ & _ & ? & ? & _). lia.
Qed.

(* ... the intervals at distinct list positions are pairwise disjoint ... *)
Lemma FOP_nth {A} (R : A -> A -> Prop) l : ForallOrdPairs R l ->
  forall i j x y, (i < j)%nat -> nth_error l i = Some x -> nth_error l j = Some y -> R x y.
Proof.
  induction 1 as [|a l Ha Hl IH]; intros i j x y Hij Hi Hj.
  - destruct i; discriminate.
  - destruct j as [|j]; [lia|]. cbn [nth_error] in Hj. destruct i as [|i]; cbn [nth_error] in Hi.
    + injection Hi as <-. rewrite Forall_forall in Ha. apply Ha. eapply nth_error_In; exact Hj.
    + eapply IH; [|exact Hi|exact Hj]. lia.
Qed.

Theorem split_disjoint lo hi vrs : in_int64 lo = true -> in_int64 hi = true ->
  split_range lo hi 4 = Some vrs ->
  forall i j vi vj, i <> j -> nth_error vrs i = Some vi -> nth_error vrs j = Some vj ->
    vr_hi vi < vr_lo vj \/ vr_hi vj < vr_lo vi.
Proof.
  intros H1 H2 Hs i j vi vj Hij Hi Hj.
  destruct (split_range_cases lo hi vrs H1 H2 Hs) as [[Hlt ->]|[Hle Hp]].
  - destruct i; discriminate.
  - destruct Hp as (_ & _ & Hdis & _).
    destruct (Nat.lt_total i j) as [Hlt|[Heq|Hgt]]; [|contradiction|].
    + exact (FOP_nth _ _ Hdis i j vi vj Hlt Hi Hj).
    + destruct (FOP_nth _ _ Hdis j i vj vi Hgt Hj Hi) as [H|H]; [right|left]; exact H.
Qed.

(* ... and every range is aligned to its shift, inside [lo, hi], and spans at most 30 prefixes *)
Theorem split_ranges_wf lo hi vrs : in_int64 lo = true -> in_int64 hi = true ->
  split_range lo hi 4 = Some vrs ->
  forall vr, In vr vrs ->
    (exists k, 0 <= k <= 15 /\ vr_shift vr = 4 * k) /\
    vr_lo vr mod 2 ^ vr_shift vr = 0 /\ (vr_hi vr + 1) mod 2 ^ vr_shift vr = 0 /\
    Z.lor (vr_hi vr) (2 ^ vr_shift vr - 1) = vr_hi vr /\
    lo <= vr_lo vr /\ vr_lo vr <= vr_hi vr /\ vr_hi vr <= hi /\
    1 <= vr_count vr <= 30.
Proof.
  intros H1 H2 Hs vr Hin.
  destruct (split_range_cases lo hi vrs H1 H2 Hs) as [[Hlt ->]|[Hle Hp]]; [destruct Hin|].
  destruct Hp as (Hall & _). rewrite Forall_forall in Hall.
  destruct (Hall vr Hin) as (Hwf & (j & Hj & Hsj) & Hlo & Hhi & Hc).
  destruct Hwf as (Hs63 & Hm1 & Hm2 & Hmin & Hlh & Hmax).
  assert (Hp : 0 < 2 ^ vr_shift vr) by (apply Z.pow_pos_nonneg; lia).
  repeat split; try assumption; try lia.
  - exists j. split; lia.
  - rewrite lor_ones by lia.
    pose proof (Z.div_mod (vr_hi vr + 1) (2 ^ vr_shift vr) ltac:(lia)) as Hd. rewrite Hm2 in Hd.
    set (p := 2 ^ vr_shift vr) in *. set (q := (vr_hi vr + 1) / p) in *.
    assert (Hm : vr_hi vr mod p = p - 1).
    { symmetry. apply Z.mod_unique with (q := q - 1); lia. }
    lia.
  - unfold vr_count. set (p := 2 ^ vr_shift vr) in *.
    apply Z.div_le_lower_bound; [lia|].
    pose proof (Z.div_mod (vr_hi vr + 1) p ltac:(lia)) as Hd. rewrite Hm2 in Hd.
    pose proof (Z.div_mod (vr_lo vr) p ltac:(lia)) as Hd2. rewrite Hm1 in Hd2.
    assert ((vr_lo vr) / p < (vr_hi vr + 1) / p) by nia. nia.
Qed.

(* 3a. the partial (lower/upper) ranges span at most 15 prefixes; only the last range of the
   list — the one emitted when the recursion stops — may span up to 30. *)
Theorem range_span lo hi vrs : in_int64 lo = true -> in_int64 hi = true -> lo <= hi ->
  split_range lo hi 4 = Some vrs ->
  exists init last, vrs = init ++ [last] /\
    Forall (fun v => vr_count v <= 15) init /\ vr_count last <= 30 /\
    sum_count vrs <= 464 /\ (length vrs <= 31)%nat.
Proof.
  intros H1 H2 Hle Hs.
  destruct (split_range_cases lo hi vrs H1 H2 Hs) as [[Hlt ->]|[_ Hp]]; [lia|].
  destruct Hp as (Hall & _ & _ & Hsum & Hlen & (init & last & -> & H15)).
  exists init, last. split; [reflexivity|]. split; [exact H15|]. split; [|split].
  - rewrite Forall_forall in Hall. destruct (Hall last) as (_ & _ & _ & _ & Hc); [|exact Hc].
    apply in_or_app. right. left. reflexivity.
  - destruct (lo =? min_int64), (hi =? max_int64); lia.
  - lia.
Qed.

Example split_example :
  split_range (-1) 16 4 = Some [mkv 0 (-1) (-1); mkv 0 16 16; mkv 4 0 15].
Proof. vm_compute. reflexivity. Qed.
Example split_hyps_example : in_int64 (-1) = true /\ in_int64 16 = true /\ -1 <= 16.
Proof. repeat split; [vm_compute; discriminate]. Qed.
