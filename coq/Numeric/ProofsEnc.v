(* Numeric engine — the encoding half of C07: Float64ToInt64 / Int64ToFloat64 are bit-exact
   inverses and order-preserving (except the pair {+0,-0}); the prefix coding is valid, decodes to
   the value with its low [shift] bits cleared, and shift-0 terms sort byte-lexicographically as
   the numbers.  All statements are over every 64-bit input (no size bounds). *)
From Coq Require Import ZArith Lia ZifyBool List Bool.
From Verif Require Import Common.Bytes Numeric.Model.
Import ListNotations.
Local Open Scope Z_scope.

(* ---------- constants ---------- *)
Lemma two63_val : two63 = 9223372036854775808. Proof. reflexivity. Qed.
Lemma two64_val : two64 = 18446744073709551616. Proof. reflexivity. Qed.
Lemma max_int64_val : max_int64 = 9223372036854775807. Proof. reflexivity. Qed.
Lemma min_int64_val : min_int64 = -9223372036854775808. Proof. reflexivity. Qed.

Lemma in_u64_iff b : in_u64 b = true <-> 0 <= b < 18446744073709551616.
Proof. unfold in_u64. rewrite two64_val. lia. Qed.
Lemma in_int64_iff i : in_int64 i = true <-> -9223372036854775808 <= i <= 9223372036854775807.
Proof. unfold in_int64. rewrite min_int64_val, max_int64_val. lia. Qed.

(* ---------- bit-level facts ---------- *)

(* flipping the low n bits of a non-negative n-bit number *)
Lemma lxor_ones_low n m : 0 <= n -> 0 <= m < 2 ^ n -> Z.lxor m (Z.ones n) = Z.ones n - m.
Proof.
  intros Hn Hm.
  assert (E : Z.ones n - m = Z.land (Z.lnot m) (Z.ones n)).
  { rewrite Z.land_ones by assumption. rewrite Z.ones_equiv.
    apply Z.mod_unique with (q := -1); [left|]; unfold Z.lnot; lia. }
  rewrite E. apply Z.bits_inj'. intros k Hk.
  rewrite Z.lxor_spec, Z.land_spec, Z.lnot_spec by assumption.
  destruct (Z.ltb_spec k n) as [Hlt|Hge].
  - rewrite Z.ones_spec_low by lia. destruct (Z.testbit m k); reflexivity.
  - rewrite Z.ones_spec_high by lia.
    replace (Z.testbit m k) with false; [reflexivity|].
    symmetry. destruct (Z.eq_dec m 0) as [->|Hm0]; [apply Z.bits_0|].
    apply Z.bits_above_log2; [lia|].
    apply Z.lt_le_trans with n; [|assumption]. apply Z.log2_lt_pow2; lia.
Qed.

(* the key fact for Float64ToInt64: on negatives, [^ 0x7fff...] is  s |-> -s - 1 - 2^63 *)
Lemma lxor_max_int64_neg s : - two63 <= s < 0 -> Z.lxor s max_int64 = - s - 1 - two63.
Proof.
  intros Hs.
  assert (Hm : max_int64 = Z.ones 63) by reflexivity.
  rewrite Hm.
  assert (E : Z.lnot (Z.lxor s (Z.ones 63)) = Z.ones 63 - Z.lnot s).
  { rewrite Z.lnot_lxor_l. apply lxor_ones_low; [lia|].
    unfold Z.lnot. rewrite two63_val in Hs. change (2 ^ 63) with 9223372036854775808. lia. }
  apply (f_equal Z.lnot) in E. rewrite Z.lnot_involutive in E. rewrite E.
  unfold Z.lnot. rewrite two63_val. change (Z.ones 63) with 9223372036854775807. lia.
Qed.

Lemma land_pow2_small n w : 0 <= n -> 0 <= w < 2 ^ n -> Z.land w (2 ^ n) = 0.
Proof.
  intros Hn Hw. apply Z.bits_inj'. intros k Hk.
  rewrite Z.land_spec, Z.bits_0, Z.pow2_bits_eqb by assumption.
  destruct (Z.eqb_spec n k) as [->|]; [|apply andb_false_r].
  rewrite andb_true_r.
  destruct (Z.eq_dec w 0) as [->|Hw0]; [apply Z.bits_0|].
  apply Z.bits_above_log2; [lia|]. apply Z.log2_lt_pow2; lia.
Qed.

(* [^ 0x8000...] on a uint64 toggles bit 63 *)
Lemma lxor_two63 v : 0 <= v < two64 ->
  Z.lxor v two63 = if v <? two63 then v + two63 else v - two63.
Proof.
  intros Hv. rewrite two64_val in Hv.
  assert (V63 : 2 ^ 63 = 9223372036854775808) by reflexivity.
  change two63 with (2 ^ 63).
  destruct (Z.ltb_spec v (2 ^ 63)) as [Hlt|Hge].
  - rewrite <- Z.add_nocarry_lxor; [reflexivity|].
    apply land_pow2_small; lia.
  - set (w := v - 2 ^ 63).
    assert (Hw : Z.land w (2 ^ 63) = 0) by (apply land_pow2_small; lia).
    replace v with (Z.lxor w (2 ^ 63)) at 1.
    + rewrite Z.lxor_assoc, Z.lxor_nilpotent, Z.lxor_0_r. reflexivity.
    + rewrite <- Z.add_nocarry_lxor by exact Hw. lia.
Qed.

(* ---------- wrap64 / u64 ---------- *)
Section Wrap.
Local Ltac Zify.zify_post_hook ::= Z.div_mod_to_equations.
Local Ltac wrap_tac :=
  unfold wrap64, u64; rewrite ?two63_val, ?two64_val; cbv zeta;
  repeat match goal with |- context [if ?c then _ else _] => destruct c eqn:? end; lia.

Lemma wrap64_range x : - 9223372036854775808 <= wrap64 x < 9223372036854775808.
Proof. wrap_tac. Qed.

Lemma wrap64_small x : - 9223372036854775808 <= x < 9223372036854775808 -> wrap64 x = x.
Proof. intros H. wrap_tac. Qed.

Lemma wrap64_u64 b : 0 <= b < 18446744073709551616 ->
  wrap64 b = if b <? 9223372036854775808 then b else b - 18446744073709551616.
Proof. intros H. wrap_tac. Qed.

Lemma u64_int64 x : - 9223372036854775808 <= x < 9223372036854775808 ->
  u64 x = if x <? 0 then x + 18446744073709551616 else x.
Proof. intros H. wrap_tac. Qed.

Lemma u64_range x : 0 <= u64 x < 18446744073709551616.
Proof. wrap_tac. Qed.

Lemma wrap64_mod_two64 x : wrap64 x mod two64 = x mod two64.
Proof. wrap_tac. Qed.

Lemma u64_wrap64 x : u64 (wrap64 x) = u64 x.
Proof. apply wrap64_mod_two64. Qed.

Lemma wrap64_mul128_add y b : 0 <= b < 128 ->
  wrap64 (y * 128) mod 128 = 0 /\ wrap64 (y * 128) + b = wrap64 (y * 128 + b).
Proof. intros H. wrap_tac. Qed.
End Wrap.

Lemma wrap64_congr a b : a mod two64 = b mod two64 -> wrap64 a = wrap64 b.
Proof. intros H. unfold wrap64. rewrite H. reflexivity. Qed.

Lemma wrap64_mul_l a b : wrap64 (wrap64 a * b) = wrap64 (a * b).
Proof.
  apply wrap64_congr.
  rewrite <- Z.mul_mod_idemp_l by (rewrite two64_val; lia).
  rewrite wrap64_mod_two64.
  apply Z.mul_mod_idemp_l. rewrite two64_val; lia.
Qed.

(* ---------- 1/2: f2i and i2f in closed form, ranges, inverses ---------- *)

Lemma f2i_closed b : in_u64 b = true ->
  f2i b = if b <? two63 then b else two63 - 1 - b.
Proof.
  intros Hb. apply in_u64_iff in Hb. unfold f2i.
  rewrite (wrap64_u64 b Hb). rewrite two63_val.
  destruct (Z.ltb_spec b 9223372036854775808) as [Hlt|Hge].
  - destruct (Z.ltb_spec b 0); [lia|reflexivity].
  - destruct (Z.ltb_spec (b - 18446744073709551616) 0); [|lia].
    rewrite lxor_max_int64_neg; rewrite two63_val; lia.
Qed.

Lemma i2f_closed i : in_int64 i = true ->
  i2f i = if i <? 0 then two63 - 1 - i else i.
Proof.
  intros Hi. apply in_int64_iff in Hi. unfold i2f.
  destruct (Z.ltb_spec i 0) as [Hneg|Hpos].
  - rewrite lxor_max_int64_neg by (rewrite two63_val; lia).
    rewrite two63_val. rewrite u64_int64 by lia.
    destruct (Z.ltb_spec (- i - 1 - 9223372036854775808) 0); lia.
  - rewrite u64_int64 by lia. destruct (Z.ltb_spec i 0); lia.
Qed.

Theorem f2i_range b : in_u64 b = true -> in_int64 (f2i b) = true.
Proof.
  intros Hb. rewrite (f2i_closed b Hb). apply in_u64_iff in Hb. apply in_int64_iff.
  rewrite two63_val. destruct (Z.ltb_spec b 9223372036854775808); lia.
Qed.

Theorem i2f_range i : in_int64 i = true -> in_u64 (i2f i) = true.
Proof.
  intros Hi. rewrite (i2f_closed i Hi). apply in_int64_iff in Hi. apply in_u64_iff.
  rewrite two63_val. destruct (Z.ltb_spec i 0); lia.
Qed.

Theorem i2f_f2i b : in_u64 b = true -> i2f (f2i b) = b.
Proof.
  intros Hb. rewrite (i2f_closed _ (f2i_range b Hb)), (f2i_closed b Hb).
  apply in_u64_iff in Hb. rewrite two63_val.
  destruct (Z.ltb_spec b 9223372036854775808).
  - destruct (Z.ltb_spec b 0); lia.
  - destruct (Z.ltb_spec (9223372036854775808 - 1 - b) 0); lia.
Qed.

Theorem f2i_i2f i : in_int64 i = true -> f2i (i2f i) = i.
Proof.
  intros Hi. rewrite (f2i_closed _ (i2f_range i Hi)), (i2f_closed i Hi).
  apply in_int64_iff in Hi. rewrite two63_val.
  destruct (Z.ltb_spec i 0).
  - destruct (Z.ltb_spec (9223372036854775808 - 1 - i) 9223372036854775808); lia.
  - destruct (Z.ltb_spec i 9223372036854775808); lia.
Qed.

(* hypotheses are satisfiable on non-trivial values: 2^63 + 1 is the smallest negative
   subnormal, -2 its image *)
Example f2i_range_ex : in_u64 (two63 + 1) = true /\ f2i (two63 + 1) = -2 /\ in_int64 (-2) = true
                       /\ i2f (-2) = two63 + 1.
Proof. vm_compute. repeat split. Qed.

(* ---------- 3: order ---------- *)

Lemma f_sign_mag b : in_u64 b = true ->
  (f_sign b = false /\ f_mag b = b /\ b < two63) \/
  (f_sign b = true /\ f_mag b = b - two63 /\ two63 <= b).
Proof.
  intros Hb. apply in_u64_iff in Hb. unfold f_sign, f_mag. rewrite two63_val.
  destruct (Z.leb_spec 9223372036854775808 b); [right|left]; repeat split; try lia.
  - symmetry. apply Z.mod_unique with (q := 1); lia.
  - apply Z.mod_small. lia.
Qed.

(* Exactly the pair {+0, -0} is out of order; NaN patterns need not be excluded because
   [f_compare] is plain sign-magnitude comparison on them. *)
Theorem f2i_order_exact a b : in_u64 a = true -> in_u64 b = true ->
  ((f2i a ?= f2i b) = f_compare a b <-> ~ ((a = 0 /\ b = two63) \/ (a = two63 /\ b = 0))).
Proof.
  intros Ha Hb. rewrite (f2i_closed a Ha), (f2i_closed b Hb). unfold f_compare.
  destruct (f_sign_mag a Ha) as [(Sa & Ma & La)|(Sa & Ma & La)];
  destruct (f_sign_mag b Hb) as [(Sb & Mb & Lb)|(Sb & Mb & Lb)];
  rewrite Sa, Sb, Ma, Mb; apply in_u64_iff in Ha, Hb; rewrite two63_val in *.
  - destruct (Z.ltb_spec a 9223372036854775808); [|lia].
    destruct (Z.ltb_spec b 9223372036854775808); [|lia]. split; [lia|reflexivity].
  - destruct (Z.ltb_spec a 9223372036854775808); [|lia].
    destruct (Z.ltb_spec b 9223372036854775808); [lia|].
    destruct (Z.eqb_spec a 0); destruct (Z.eqb_spec (b - 9223372036854775808) 0); cbn [andb];
      split; intros HH; try lia; try (apply Z.compare_gt_iff; lia).
    exfalso. apply Z.compare_eq in HH. lia.
  - destruct (Z.ltb_spec a 9223372036854775808); [lia|].
    destruct (Z.ltb_spec b 9223372036854775808); [|lia].
    destruct (Z.eqb_spec (a - 9223372036854775808) 0); destruct (Z.eqb_spec b 0); cbn [andb];
      split; intros HH; try lia; try (apply Z.compare_lt_iff; lia).
    exfalso. apply Z.compare_eq in HH. lia.
  - destruct (Z.ltb_spec a 9223372036854775808); [lia|].
    destruct (Z.ltb_spec b 9223372036854775808); [lia|]. split; [lia|intros _].
    destruct (Z.compare_spec (b - 9223372036854775808) (a - 9223372036854775808));
      [apply Z.compare_eq_iff|apply Z.compare_lt_iff|apply Z.compare_gt_iff]; lia.
Qed.

Theorem f2i_order a b :
  in_u64 a = true -> in_u64 b = true -> is_nan a = false -> is_nan b = false ->
  is_neg_zero a = false -> is_neg_zero b = false ->
  (f2i a ?= f2i b) = f_compare a b.
Proof.
  intros Ha Hb _ _ Za Zb. apply f2i_order_exact; try assumption.
  unfold is_neg_zero in *. lia.
Qed.

Theorem f2i_neg_zero : f2i two63 = -1 /\ f2i 0 = 0 /\ f2i two63 = f2i 0 - 1
  /\ f_compare two63 0 = Eq /\ (f2i two63 ?= f2i 0) = Lt.
Proof. vm_compute. repeat split. Qed.

(* a negative subnormal against a positive normal number *)
Example f2i_order_ex :
  let a := two63 + 5 in let b := 1023 * 2 ^ 52 in
  in_u64 a = true /\ in_u64 b = true /\ is_nan a = false /\ is_nan b = false /\
  is_neg_zero a = false /\ is_neg_zero b = false /\ f_compare a b = Lt.
Proof. vm_compute. repeat split. Qed.

(* ---------- big-endian digit lists ---------- *)

Definition digits_lt (base : Z) (l : list Z) : Prop := Forall (fun d => 0 <= d < base) l.

Lemma be_value_acc base l acc :
  fold_left (fun a b => a * base + b) l acc
  = acc * base ^ Z.of_nat (length l) + be_value base l.
Proof.
  unfold be_value. revert acc. induction l as [|d l IH]; intros acc.
  - cbn. lia.
  - cbn [fold_left length]. rewrite IH, (IH (0 * base + d)).
    rewrite Nat2Z.inj_succ, Z.pow_succ_r by lia. ring.
Qed.

Lemma be_value_cons base d l :
  be_value base (d :: l) = d * base ^ Z.of_nat (length l) + be_value base l.
Proof. unfold be_value at 1. cbn [fold_left]. rewrite be_value_acc. ring. Qed.

Lemma be_value_snoc base l d : be_value base (l ++ [d]) = be_value base l * base + d.
Proof. unfold be_value. rewrite fold_left_app. reflexivity. Qed.

Lemma be_value_bound base l : 0 < base -> digits_lt base l ->
  0 <= be_value base l < base ^ Z.of_nat (length l).
Proof.
  intros Hb H. induction H as [|d l Hd Hl IH].
  - cbn. lia.
  - rewrite be_value_cons. cbn [length]. rewrite Nat2Z.inj_succ, Z.pow_succ_r by lia.
    set (P := base ^ Z.of_nat (length l)) in *. nia.
Qed.

(* lexicographic order of equally long digit strings = numeric order of their values *)
Lemma bcompare_be_value base l1 l2 : 0 < base ->
  digits_lt base l1 -> digits_lt base l2 -> length l1 = length l2 ->
  bcompare l1 l2 = (be_value base l1 ?= be_value base l2).
Proof.
  intros Hb H1. revert l2. induction H1 as [|d1 l1 Hd1 Hl1 IH]; intros l2 H2 Hlen.
  - destruct l2; [reflexivity|discriminate].
  - destruct l2 as [|d2 l2]; [discriminate|]. inversion H2 as [|? ? Hd2 Hl2]; subst.
    cbn [length] in Hlen. injection Hlen as Hlen.
    cbn [bcompare]. rewrite !be_value_cons, <- Hlen.
    pose proof (be_value_bound base l1 Hb Hl1) as B1.
    pose proof (be_value_bound base l2 Hb Hl2) as B2. rewrite <- Hlen in B2.
    set (P := base ^ Z.of_nat (length l1)) in *.
    destruct (Z.compare_spec d1 d2) as [->|Hlt|Hgt].
    + rewrite (IH l2 Hl2 Hlen). symmetry. apply Z.add_compare_mono_l.
    + symmetry. apply Z.compare_lt_iff. nia.
    + symmetry. apply Z.compare_gt_iff. nia.
Qed.

(* ---------- groups7 ---------- *)

Lemma groups7_length n v : length (groups7 n v) = n.
Proof.
  revert v. induction n as [|n IH]; intros v; [reflexivity|].
  cbn [groups7]. rewrite app_length, IH. cbn. lia.
Qed.

Lemma groups7_digits n v : digits_lt 128 (groups7 n v).
Proof.
  revert v. induction n as [|n IH]; intros v; [constructor|].
  cbn [groups7]. apply Forall_app. split; [apply IH|]. constructor; [|constructor].
  change 127 with (Z.ones 7). rewrite Z.land_ones by lia.
  change (2 ^ 7) with 128. apply Z.mod_pos_bound. lia.
Qed.

Lemma groups7_value n v : be_value 128 (groups7 n v) = v mod 128 ^ Z.of_nat n.
Proof.
  revert v. induction n as [|n IH]; intros v.
  - cbn. symmetry. apply Z.mod_1_r.
  - cbn [groups7]. rewrite be_value_snoc, IH.
    change 127 with (Z.ones 7). rewrite Z.land_ones, Z.shiftr_div_pow2 by lia.
    change (2 ^ 7) with 128.
    rewrite Nat2Z.inj_succ, Z.pow_succ_r by lia.
    rewrite Z.rem_mul_r by lia. ring.
Qed.

(* ---------- the sortable image of an int64 ---------- *)

Lemma sortable_int64 x : in_int64 x = true -> Z.lxor (u64 x) two63 = x + two63.
Proof.
  intros Hx. apply in_int64_iff in Hx.
  rewrite lxor_two63 by (rewrite two64_val; apply u64_range).
  rewrite u64_int64 by lia. rewrite two63_val.
  destruct (Z.ltb_spec x 0);
    match goal with |- context [if ?c then _ else _] => destruct c eqn:? end; lia.
Qed.

Lemma sortable_range x : 0 <= Z.lxor (u64 x) two63 < two64.
Proof.
  pose proof (u64_range x) as H.
  rewrite lxor_two63 by (rewrite two64_val; exact H). rewrite two63_val, two64_val.
  destruct (Z.ltb_spec (u64 x) 9223372036854775808); lia.
Qed.

Lemma nchars_bounds s : 0 <= s <= 63 -> 64 - s <= 7 * nchars s /\ 1 <= nchars s <= 10.
Proof.
  intros Hs. unfold nchars.
  pose proof (Z.div_mod (63 - s) 7 ltac:(lia)) as D.
  pose proof (Z.mod_pos_bound (63 - s) 7 ltac:(lia)) as M. lia.
Qed.

Lemma encode_some x s t : encode x s = Some t ->
  0 <= s <= 63 /\
  t = (shift_start + s) :: groups7 (Z.to_nat (nchars s)) (Z.shiftr (Z.lxor (u64 x) two63) s).
Proof.
  unfold encode. destruct (Z.ltb_spec s 0); destruct (Z.ltb_spec 63 s); cbn [orb];
    intros HH; try discriminate. injection HH as <-. split; [lia|reflexivity].
Qed.

Lemma encode_total x s : 0 <= s <= 63 -> exists t, encode x s = Some t.
Proof.
  intros Hs. unfold encode.
  destruct (Z.ltb_spec s 0); [lia|]. destruct (Z.ltb_spec 63 s); [lia|]. cbn [orb]. eauto.
Qed.

(* the tail of a term is the base-128 numeral of the shifted sortable value *)
Lemma encode_tail_value_u x s t : encode x s = Some t ->
  be_value 128 (tl t) = Z.lxor (u64 x) two63 / 2 ^ s.
Proof.
  intros H. apply encode_some in H as [Hs ->]. cbn [tl].
  rewrite groups7_value, Z.shiftr_div_pow2 by lia.
  destruct (nchars_bounds s Hs) as [Hn1 Hn2].
  rewrite Z2Nat.id by lia.
  apply Z.mod_small.
  pose proof (sortable_range x) as R. set (v := Z.lxor (u64 x) two63) in *.
  split; [apply Z.div_pos; lia|].
  apply Z.div_lt_upper_bound; [lia|].
  change 128 with (2 ^ 7). rewrite <- Z.pow_mul_r, <- Z.pow_add_r by lia.
  apply Z.lt_le_trans with (2 ^ 64); [exact (proj2 R)|].
  apply Z.pow_le_mono_r; lia.
Qed.

Lemma encode_tail_value x s t : in_int64 x = true -> encode x s = Some t ->
  be_value 128 (tl t) = (x + two63) / 2 ^ s.
Proof. intros Hx H. rewrite (encode_tail_value_u x s t H), sortable_int64 by exact Hx. reflexivity. Qed.

(* ---------- 4: validity and order ---------- *)

Theorem encode_valid x s t : encode x s = Some t ->
  0 <= s <= 63 /\
  valid_term t = Some s /\
  Z.of_nat (length t) = nchars s + 1 /\
  hd 0 t = shift_start + s /\
  Forall (fun b => 0 <= b < 128) (tl t) /\
  valid_bytes t = true.
Proof.
  intros H. apply encode_some in H as [Hs ->].
  destruct (nchars_bounds s Hs) as [Hn1 Hn2].
  assert (Hlen : Z.of_nat (length ((shift_start + s)
            :: groups7 (Z.to_nat (nchars s)) (Z.shiftr (Z.lxor (u64 x) two63) s))) = nchars s + 1).
  { cbn [length]. rewrite groups7_length. lia. }
  split; [exact Hs|]. split; [|split; [exact Hlen|split; [reflexivity|split]]].
  - unfold valid_term. unfold shift_start in *.
    destruct (Z.ltb_spec (32 + s) 32); [lia|]. destruct (Z.ltb_spec (32 + 63) (32 + s)); [lia|].
    cbn [orb]. replace (32 + s - 32) with s by lia. rewrite Hlen, Z.eqb_refl. reflexivity.
  - apply groups7_digits.
  - unfold valid_bytes. cbn [forallb]. apply andb_true_iff. split.
    + unfold is_byte, shift_start. lia.
    + apply forallb_forall. intros b Hb.
      pose proof (groups7_digits (Z.to_nat (nchars s)) (Z.shiftr (Z.lxor (u64 x) two63) s)) as D.
      unfold digits_lt in D. rewrite Forall_forall in D. specialize (D b Hb). unfold is_byte. lia.
Qed.

Example encode_valid_ex : encode (-5) 60 = Some [92; 7] /\ valid_term [92; 7] = Some 60.
Proof. vm_compute. split; reflexivity. Qed.

(* general form: at any shift, terms of equal shift are ordered like the shifted values *)
Theorem encode_order_shift x y s tx ty :
  in_int64 x = true -> in_int64 y = true ->
  encode x s = Some tx -> encode y s = Some ty ->
  bcompare tx ty = (Z.shiftr x s ?= Z.shiftr y s).
Proof.
  intros Hx Hy Ex Ey.
  pose proof (encode_tail_value x s tx Hx Ex) as Vx.
  pose proof (encode_tail_value y s ty Hy Ey) as Vy.
  apply encode_some in Ex as [Hs ->]. apply encode_some in Ey as [_ ->].
  cbn [tl] in Vx, Vy. cbn [bcompare]. rewrite Z.compare_refl.
  rewrite (bcompare_be_value 128) by
    (try lia; try apply groups7_digits; rewrite !groups7_length; reflexivity).
  rewrite Vx, Vy, !Z.shiftr_div_pow2 by lia.
  assert (E : forall z, (z + two63) / 2 ^ s = z / 2 ^ s + 2 ^ (63 - s)).
  { intros z. change two63 with (2 ^ 63). replace 63 with ((63 - s) + s) at 1 by lia.
    rewrite Z.pow_add_r by lia. apply Z.div_add. lia. }
  rewrite !E. rewrite !(Z.add_comm _ (2 ^ (63 - s))). apply Z.add_compare_mono_l.
Qed.

Theorem encode_order x y tx ty :
  in_int64 x = true -> in_int64 y = true ->
  encode x 0 = Some tx -> encode y 0 = Some ty ->
  bcompare tx ty = (x ?= y).
Proof.
  intros Hx Hy Ex Ey. rewrite (encode_order_shift x y 0 tx ty Hx Hy Ex Ey).
  rewrite !Z.shiftr_0_r. reflexivity.
Qed.

Example encode_order_ex :
  in_int64 (-5) = true /\ in_int64 3 = true /\
  encode (-5) 0 = Some [32; 0; 127; 127; 127; 127; 127; 127; 127; 127; 123] /\
  encode 3 0 = Some [32; 1; 0; 0; 0; 0; 0; 0; 0; 0; 3].
Proof. vm_compute. repeat split. Qed.

(* ---------- 5: decode after encode ---------- *)

Lemma lor_add_low7 a b : a mod 128 = 0 -> 0 <= b < 128 -> Z.lor a b = a + b.
Proof.
  intros Ha Hb.
  assert (L : Z.land a b = 0).
  { apply Z.bits_inj'. intros k Hk. rewrite Z.land_spec, Z.bits_0.
    destruct (Z.ltb_spec k 7) as [Hlt|Hge].
    - replace a with (a / 128 * 2 ^ 7).
      + rewrite Z.mul_pow2_bits_low by lia. reflexivity.
      + change (2 ^ 7) with 128. pose proof (Z.div_mod a 128 ltac:(lia)). lia.
    - replace b with (b mod 2 ^ 7) by (apply Z.mod_small; change (2 ^ 7) with 128; lia).
      rewrite Z.mod_pow2_bits_high by lia. apply andb_false_r. }
  rewrite <- Z.lxor_lor by exact L. symmetry. apply Z.add_nocarry_lxor. exact L.
Qed.

(* the int64 accumulator of PrefixCoded.Int64 is the wrapped base-128 value *)
Lemma decode_fold l v0 : digits_lt 128 l ->
  fold_left (fun acc b => Z.lor (wrap64 (acc * 128)) b) l (wrap64 v0)
  = wrap64 (fold_left (fun acc b => acc * 128 + b) l v0).
Proof.
  intros H. revert v0. induction H as [|d l Hd Hl IH]; intros v0; [reflexivity|].
  cbn [fold_left]. rewrite <- IH. f_equal.
  destruct (wrap64_mul128_add (wrap64 v0) d Hd) as [M A].
  rewrite lor_add_low7 by assumption. rewrite A.
  apply wrap64_congr.
  rewrite <- Z.add_mod_idemp_l, <- (Z.add_mod_idemp_l (v0 * 128)) by (rewrite two64_val; lia).
  f_equal. f_equal.
  rewrite <- Z.mul_mod_idemp_l, wrap64_mod_two64, Z.mul_mod_idemp_l by (rewrite two64_val; lia).
  reflexivity.
Qed.

Lemma clear_low_bits x s : 0 <= s <= 63 ->
  (x + two63) / 2 ^ s * 2 ^ s = Z.shiftl (Z.shiftr x s) s + two63.
Proof.
  intros Hs. rewrite Z.shiftl_mul_pow2, Z.shiftr_div_pow2 by lia.
  assert (E : two63 = 2 ^ (63 - s) * 2 ^ s).
  { rewrite <- Z.pow_add_r by lia. replace (63 - s + s) with 63 by lia. reflexivity. }
  rewrite E. rewrite Z.div_add by lia. ring.
Qed.

Theorem decode_encode x s t : in_int64 x = true -> 0 <= s < 63 ->
  encode x s = Some t -> decode t = Some (Z.shiftl (Z.shiftr x s) s).
Proof.
  intros Hx Hs E.
  pose proof (encode_tail_value x s t Hx E) as V.
  destruct (encode_valid x s t E) as (_ & _ & _ & Hhd & Hdig & _).
  unfold decode, term_shift.
  destruct t as [|b0 tail]; [apply encode_some in E as [_ E]; discriminate|].
  cbn [hd] in Hhd. cbn [tl] in *. subst b0.
  replace (shift_start + s - shift_start) with s by lia.
  rewrite (Z.mod_small s 256) by lia. cbv zeta.
  destruct (Z.ltb_spec s 63); [|lia]. f_equal.
  change 0 with (wrap64 0) at 1. rewrite (decode_fold tail 0 Hdig).
  fold (be_value 128 tail). rewrite V.
  rewrite wrap64_mul_l, u64_wrap64, clear_low_bits by lia.
  (* y = x with its low s bits cleared, still an int64 *)
  set (y := Z.shiftl (Z.shiftr x s) s).
  assert (Hy : in_int64 y = true).
  { apply in_int64_iff. apply in_int64_iff in Hx. subst y.
    rewrite Z.shiftl_mul_pow2, Z.shiftr_div_pow2 by lia.
    assert (P : 0 < 2 ^ s) by (apply Z.pow_pos_nonneg; lia).
    pose proof (Z.div_mod x (2 ^ s) ltac:(lia)) as D.
    pose proof (Z.mod_pos_bound x (2 ^ s) P) as M.
    split; [|lia].
    (* -2^63 is a multiple of 2^s *)
    assert (Q : -9223372036854775808 = - 2 ^ (63 - s) * 2 ^ s).
    { rewrite Z.mul_opp_l, <- Z.pow_add_r by lia. replace (63 - s + s) with 63 by lia. reflexivity. }
    rewrite Q. apply Z.mul_le_mono_nonneg_r; [lia|].
    apply Z.div_le_lower_bound; [lia|]. rewrite Z.mul_comm, <- Q. lia. }
  apply in_int64_iff in Hy.
  unfold u64. rewrite Z.mod_small by (rewrite two63_val, two64_val; lia).
  rewrite lxor_two63 by (rewrite two63_val, two64_val; lia).
  rewrite two63_val. destruct (Z.ltb_spec (y + 9223372036854775808) 9223372036854775808).
  - replace (y + 9223372036854775808 + 9223372036854775808) with (y + 1 * two64)
      by (rewrite two64_val; lia).
    rewrite (wrap64_congr _ y) by (apply Z.mod_add; rewrite two64_val; lia).
    apply wrap64_small. lia.
  - rewrite wrap64_small by lia. lia.
Qed.

Theorem decode_encode_mod x s t : in_int64 x = true -> 0 <= s < 63 ->
  encode x s = Some t -> decode t = Some (x - x mod 2 ^ s).
Proof.
  intros Hx Hs E. rewrite (decode_encode x s t Hx Hs E). f_equal.
  rewrite Z.shiftl_mul_pow2, Z.shiftr_div_pow2 by lia.
  pose proof (Z.div_mod x (2 ^ s) ltac:(lia)). lia.
Qed.

(* the Go quirk: a shift-63 term is valid but PrefixCoded.Int64 rejects it *)
Theorem decode_shift63 x t : encode x 63 = Some t -> decode t = None /\ valid_term t = Some 63.
Proof.
  intros E. split; [|apply (encode_valid x 63 t E)].
  apply encode_some in E as [_ ->]. reflexivity.
Qed.

Example decode_encode_ex :
  in_int64 (-1234567) = true /\ encode (-1234567) 8 = Some [40; 63; 127; 127; 127; 127; 127; 90; 41]
  /\ decode [40; 63; 127; 127; 127; 127; 127; 90; 41] = Some (-1234688).
Proof. vm_compute. repeat split. Qed.

(* ---------- 6: shift-0 terms of float values sort as the numbers ---------- *)

Theorem numeric_sort_correct a b ta tb :
  in_u64 a = true -> in_u64 b = true -> is_nan a = false -> is_nan b = false ->
  is_neg_zero a = false -> is_neg_zero b = false ->
  encode (f2i a) 0 = Some ta -> encode (f2i b) 0 = Some tb ->
  bcompare ta tb = f_compare a b.
Proof.
  intros Ha Hb Na Nb Za Zb Ea Eb.
  rewrite (encode_order (f2i a) (f2i b) ta tb (f2i_range a Ha) (f2i_range b Hb) Ea Eb).
  apply f2i_order; assumption.
Qed.

(* the one exception, stated: the terms of -0 and +0 differ and sort -0 first *)
Theorem numeric_sort_neg_zero :
  exists tn tp, encode (f2i two63) 0 = Some tn /\ encode (f2i 0) 0 = Some tp /\
                bcompare tn tp = Lt /\ f_compare two63 0 = Eq.
Proof. eexists _, _. vm_compute. repeat split. Qed.

Example numeric_sort_correct_ex :
  let a := two63 + 5 in let b := 1023 * 2 ^ 52 in
  in_u64 a = true /\ in_u64 b = true /\ is_nan a = false /\ is_nan b = false /\
  is_neg_zero a = false /\ is_neg_zero b = false /\
  encode (f2i a) 0 = Some [32; 0; 127; 127; 127; 127; 127; 127; 127; 127; 122] /\
  encode (f2i b) 0 = Some [32; 1; 63; 120; 0; 0; 0; 0; 0; 0; 0].
Proof. vm_compute. repeat split. Qed.
