(* Upsidedown index engine (C01) — executable model of the row store (definitions only; proofs in
   Kv/UpsidedownProofs*.v).

   Transcribed from /repo/index/upsidedown:
     row.go          the row kinds and what identifies a row ('b' back index, 't' term frequency,
                     's' stored, 'd' dictionary, 'i' internal), BackIndexRow.AllTermKeys / AllStoredKeys
     analysis.go     analyze: the rows of one document, in the order they are emitted (stored rows,
                     term-frequency rows field by field, the back-index row last)
     upsidedown.go   Batch, Update / UpdateWithAnalysis, Delete, SetInternal, DeleteInternal,
                     mergeOldAndNew, deleteSingle, backIndexRowForDoc, batchRows (dictionary deltas,
                     Set / Set / Delete / Merge order of the KV batch), docCount bookkeeping
     row_merge.go    the dictionary merge operator: its counter arithmetic is Kv.Adapter.udc_step
                     (AdapterProofs.merge_counter_spec ties that to FullMerge on the encoded rows)
     index_reader.go Document, DocCount, GetInternal; reader.go DocIDReaderAll

   Abstractions (trusted, exercised by the correspondence tie T2, harness cmd/c01udc):
   - analysis is not modelled: a document is what the real analysis produced for it — per indexed
     field its (term, frequency) list, and its stored entries (field, array positions, value);
     norms and term vectors (the rest of a term-frequency row's value) are left out;
   - doc ids, terms, stored values, internal keys and values are opaque tokens (Z) compared by
     equality; a field is its index; the byte encodings of keys and values (row.go KeyTo/ValueTo,
     protobuf for the back-index value) are not modelled, a row key is the tuple that the encoding
     is made from, and a back-index value is its list of entries;
   - the KV store is a finite map applied atomically per batch (the adapters are C15's subject);
   - field rows ('f') and the version row ('v') are left out (they belong to the field cache).
   Machine arithmetic is explicit: docCount is a uint64, a dictionary delta is an int64 handed to
   the merge operator as uint64(delta), the operator saturates at 0 (udc_step). *)
From Coq Require Import ZArith List Bool.
From Verif Require Import Common.Bytes Kv.Adapter.
Import ListNotations.
Local Open Scope Z_scope.

(* ------------------------------------------------------------------ documents *)

Record udoc := mkDoc {
  d_terms : list (Z * list (Z * Z));     (* per indexed field: field index, its (term, frequency) list *)
  d_stored : list (Z * list Z * Z)       (* stored entries: field index, array positions, value *)
}.

(* ------------------------------------------------------------------ rows *)

Inductive rowkey :=
| KBack (id : Z)                                  (* 'b' id *)
| KDict (field term : Z)                          (* 'd' field term *)
| KInternal (key : Z)                             (* 'i' key *)
| KStored (id field : Z) (pos : list Z)           (* 's' id 0xff field arraypositions *)
| KTerm (field term id : Z).                      (* 't' field term 0xff id *)

Inductive rowval :=
| VBack (terms : list (Z * list Z)) (stored : list (Z * list Z))
      (* BackIndexRowValue: termsEntries (field, terms), storedEntries (field, array positions) *)
| VTerm (freq : Z)
| VStored (value : Z)                             (* type byte and value bytes, as one token *)
| VDict (count : Z)
| VInternal (value : Z).

Definition row := (rowkey * rowval)%type.

Definition kind (k : rowkey) : Z :=
  match k with KBack _ => 0 | KDict _ _ => 1 | KInternal _ => 2 | KStored _ _ _ => 3 | KTerm _ _ _ => 4 end.

Definition cmp_then (c d : comparison) : comparison := match c with Eq => d | _ => c end.

(* a total order on row keys: by kind (the order of the key prefixes b < d < i < s < t), then by
   the components in the order they are laid out in the key *)
Definition rowkey_compare (a b : rowkey) : comparison :=
  match a, b with
  | KBack i, KBack j => i ?= j
  | KDict f t, KDict f' t' => cmp_then (f ?= f') (t ?= t')
  | KInternal k, KInternal k' => k ?= k'
  | KStored i f p, KStored i' f' p' => cmp_then (i ?= i') (cmp_then (f ?= f') (bcompare p p'))
  | KTerm f t i, KTerm f' t' i' => cmp_then (f ?= f') (cmp_then (t ?= t') (i ?= i'))
  | _, _ => kind a ?= kind b
  end.

Definition rowkey_eqb (a b : rowkey) : bool :=
  match rowkey_compare a b with Eq => true | _ => false end.

(* the store's rows: an association list kept in key order without duplicate keys *)
Definition rows := list row.

Fixpoint rget (m : rows) (k : rowkey) : option rowval :=
  match m with
  | [] => None
  | (k', v) :: m' => if rowkey_eqb k k' then Some v else rget m' k
  end.

Definition rdel (k : rowkey) (m : rows) : rows :=
  filter (fun e => negb (rowkey_eqb k (fst e))) m.

Fixpoint rins (k : rowkey) (v : rowval) (m : rows) : rows :=
  match m with
  | [] => [(k, v)]
  | (k', v') :: m' =>
      match rowkey_compare k k' with
      | Gt => (k', v') :: rins k v m'
      | _ => (k, v) :: m
      end
  end.

Definition rset (k : rowkey) (v : rowval) (m : rows) : rows := rins k v (rdel k m).

Record ustore := mkStore {
  u_rows : rows;
  u_count : Z                            (* UpsideDownCouch.docCount (uint64) *)
}.

Definition udc_empty : ustore := mkStore [] 0.

(* ------------------------------------------------------------------ analysis result rows *)

Definition doc_stored_rows (id : Z) (d : udoc) : list row :=
  map (fun e => (KStored id (fst (fst e)) (snd (fst e)), VStored (snd e))) (d_stored d).

Definition doc_term_rows (id : Z) (d : udoc) : list row :=
  flat_map (fun ft => map (fun tf => (KTerm (fst ft) (fst tf) id, VTerm (snd tf))) (snd ft)) (d_terms d).

Definition doc_back_val (d : udoc) : rowval :=
  VBack (map (fun ft => (fst ft, map fst (snd ft))) (d_terms d)) (map fst (d_stored d)).

(* analyze: stored rows as the fields are visited, then indexField per field, then the back index row *)
Definition doc_rows (id : Z) (d : udoc) : list row :=
  doc_stored_rows id d ++ doc_term_rows id d ++ [(KBack id, doc_back_val d)].

(* ------------------------------------------------------------------ back index *)

(* backIndexRowForDoc: Get('b' id), parsed; nil when absent *)
Definition back_index_row (m : rows) (id : Z) : option (list (Z * list Z) * list (Z * list Z)) :=
  match rget m (KBack id) with
  | Some (VBack terms stored) => Some (terms, stored)
  | _ => None
  end.

(* BackIndexRow.AllTermKeys / AllStoredKeys *)
Definition back_term_keys (id : Z) (terms : list (Z * list Z)) : list rowkey :=
  flat_map (fun ft => map (fun t => KTerm (fst ft) t id) (snd ft)) terms.
Definition back_stored_keys (id : Z) (stored : list (Z * list Z)) : list rowkey :=
  map (fun e => KStored id (fst e) (snd e)) stored.

(* Go's map[string]struct{} used as a set of keys *)
Definition kmem (k : rowkey) (l : list rowkey) : bool := existsb (rowkey_eqb k) l.
Definition kadd (l : list rowkey) (k : rowkey) : list rowkey := if kmem k l then l else l ++ [k].
Definition kset_of (l : list rowkey) : list rowkey := fold_left kadd l [].
Definition kremove (k : rowkey) (l : list rowkey) : list rowkey :=
  filter (fun k' => negb (rowkey_eqb k k')) l.

(* mergeOldAndNew, the loop over the new rows: a term-frequency / stored row whose key is among
   the existing keys becomes an update and the key is struck off; otherwise it is an add; any
   other row (the back index row) is an update *)
Record mon := mkMon {
  m_add : list row;
  m_upd : list row;
  m_ext : list rowkey;                   (* existingTermKeys *)
  m_exs : list rowkey                    (* existingStoredKeys *)
}.

Definition mon_step (st : mon) (r : row) : mon :=
  match fst r with
  | KTerm _ _ _ =>
      if kmem (fst r) (m_ext st)
      then mkMon (m_add st) (m_upd st ++ [r]) (kremove (fst r) (m_ext st)) (m_exs st)
      else mkMon (m_add st ++ [r]) (m_upd st) (m_ext st) (m_exs st)
  | KStored _ _ _ =>
      if kmem (fst r) (m_exs st)
      then mkMon (m_add st) (m_upd st ++ [r]) (m_ext st) (kremove (fst r) (m_exs st))
      else mkMon (m_add st ++ [r]) (m_upd st) (m_ext st) (m_exs st)
  | _ => mkMon (m_add st) (m_upd st ++ [r]) (m_ext st) (m_exs st)
  end.

(* mergeOldAndNew: (addRows, updateRows, deleteRows); the rows still in the existing sets after
   the loop are deleted *)
Definition merge_old_new (id : Z) (back : option (list (Z * list Z) * list (Z * list Z)))
    (rs : list row) : list row * list row * list rowkey :=
  match back with
  | None => (rs, [], [])
  | Some (terms, stored) =>
      let st := fold_left mon_step rs
                  (mkMon [] [] (kset_of (back_term_keys id terms)) (kset_of (back_stored_keys id stored))) in
      (m_add st, m_upd st, m_ext st ++ m_exs st)
  end.

(* deleteSingle: every term row and stored row the back index lists, and the back index row *)
Definition delete_single (id : Z) (terms : list (Z * list Z)) (stored : list (Z * list Z)) : list rowkey :=
  back_term_keys id terms ++ back_stored_keys id stored ++ [KBack id].

(* ------------------------------------------------------------------ batchRows *)

Record plan := mkPlan {
  p_add : list row;                      (* addRowsAll, flattened *)
  p_upd : list row;                      (* updateRowsAll *)
  p_del : list rowkey;                   (* deleteRowsAll (only the keys matter) *)
  p_added : Z;                           (* docsAdded *)
  p_deleted : Z                          (* docsDeleted *)
}.

(* dictionaryDeltas: map dictionary key -> int64 delta; kept here as the exact sum, converted
   to the int64 it wraps to when it is handed to the merge operator ([delta_operand]) *)
Fixpoint delta_bump (f t d : Z) (m : list (Z * Z * Z)) : list (Z * Z * Z) :=
  match m with
  | [] => [(f, t, d)]
  | (f', t', x) :: m' =>
      if (f =? f') && (t =? t') then (f', t', x + d) :: m' else (f', t', x) :: delta_bump f t d m'
  end.

Definition deltas_of_adds (rs : list row) (m : list (Z * Z * Z)) : list (Z * Z * Z) :=
  fold_left (fun m r => match fst r with KTerm f t _ => delta_bump f t 1 m | _ => m end) rs m.
Definition deltas_of_dels (ks : list rowkey) (m : list (Z * Z * Z)) : list (Z * Z * Z) :=
  fold_left (fun m k => match k with KTerm f t _ => delta_bump f t (-1) m | _ => m end) ks m.

(* int64 accumulation wraps; uint64(delta) little-endian, read back as int64 by the operator *)
Definition delta_operand (d : Z) : Z := to_i64 (d mod two64).

Definition dict_count (m : rows) (f t : Z) : Z :=
  match rget m (KDict f t) with Some (VDict c) => c | _ => 0 end.

Definition apply_sets (rs : list row) (m : rows) : rows :=
  fold_left (fun m r => rset (fst r) (snd r) m) rs m.
Definition apply_dels (ks : list rowkey) (m : rows) : rows :=
  fold_left (fun m k => rdel k m) ks m.
(* wb.Merge(dictRowKey, delta): FullMerge over the existing count (absent or empty value: 0) *)
Definition apply_merges (ds : list (Z * Z * Z)) (m : rows) : rows :=
  fold_left (fun m e => rset (KDict (fst (fst e)) (snd (fst e)))
                             (VDict (udc_step (dict_count m (fst (fst e)) (snd (fst e))) (delta_operand (snd e)))) m)
            ds m.

(* batchRows: +1 per added term-frequency row, -1 per deleted one; the KV batch is
   Set(adds), Set(updates), Delete(deletes), Merge(dictionary deltas) *)
Definition batch_rows (p : plan) (m : rows) : rows :=
  let ds := deltas_of_dels (p_del p) (deltas_of_adds (p_add p) []) in
  apply_merges ds (apply_dels (p_del p) (apply_sets (p_upd p) (apply_sets (p_add p) m))).

(* ------------------------------------------------------------------ Batch *)

(* internal ops of a batch: a nil value deletes the row, anything else sets it *)
Definition plan_internal (iops : list (Z * option Z)) : plan :=
  mkPlan []
         (flat_map (fun o => match snd o with Some v => [(KInternal (fst o), VInternal v)] | None => [] end) iops)
         (flat_map (fun o => match snd o with None => [KInternal (fst o)] | Some _ => [] end) iops)
         0 0.

(* what one document operation contributes, given the back index row read for it:
   (addRows, updateRows, deleteRows, docsAdded, docsDeleted) *)
Definition op_plan (m : rows) (op : Z * option udoc) : plan :=
  let id := fst op in
  match snd op, back_index_row m id with
  | None, Some (terms, stored) => mkPlan [] [] (delete_single id terms stored) 0 1
  | None, None => mkPlan [] [] [] 0 0                       (* delete of an absent id: nothing *)
  | Some d, back =>
      let '(a, u, dl) := merge_old_new id back (doc_rows id d) in
      mkPlan a u dl (match back with None => 1 | Some _ => 0 end) 0
  end.

Definition plan_app (p q : plan) : plan :=
  mkPlan (p_add p ++ p_add q) (p_upd p ++ p_upd q) (p_del p ++ p_del q)
         (p_added p + p_added q) (p_deleted p + p_deleted q).

(* UpsideDownCouch.Batch: the back index rows are read through a reader opened before anything is
   written (so against [u_rows s]); ops: batch.IndexOps (distinct ids; None = delete),
   iops: batch.InternalOps (distinct keys).  docCount += docsAdded; docCount -= docsDeleted
   (uint64; the two counters are kept exact here and reduced with the sums) *)
Definition udc_batch (s : ustore) (ops : list (Z * option udoc)) (iops : list (Z * option Z)) : ustore :=
  let p := fold_left (fun p op => plan_app p (op_plan (u_rows s) op)) ops (plan_internal iops) in
  mkStore (batch_rows p (u_rows s))
          (((u_count s + p_added p) mod two64 - p_deleted p) mod two64).

(* ------------------------------------------------------------------ single operations *)

(* Update / UpdateWithAnalysis *)
Definition udc_update (s : ustore) (id : Z) (d : udoc) : ustore :=
  let back := back_index_row (u_rows s) id in
  let '(a, u, dl) := merge_old_new id back (doc_rows id d) in
  mkStore (batch_rows (mkPlan a u dl 0 0) (u_rows s))
          (match back with None => (u_count s + 1) mod two64 | Some _ => u_count s end).

(* Delete *)
Definition udc_delete (s : ustore) (id : Z) : ustore :=
  match back_index_row (u_rows s) id with
  | None => s
  | Some (terms, stored) =>
      mkStore (batch_rows (mkPlan [] [] (delete_single id terms stored) 0 0) (u_rows s))
              ((u_count s - 1) mod two64)
  end.

(* SetInternal / DeleteInternal: one Set / Delete on the KV store *)
Definition udc_set_internal (s : ustore) (k v : Z) : ustore :=
  mkStore (rset (KInternal k) (VInternal v) (u_rows s)) (u_count s).
Definition udc_delete_internal (s : ustore) (k : Z) : ustore :=
  mkStore (rdel (KInternal k) (u_rows s)) (u_count s).

(* ------------------------------------------------------------------ readers *)

(* IndexReader.Document: nil without a back index row; otherwise every row under the prefix
   's' id 0xff, in key order *)
Definition udc_document (s : ustore) (id : Z) : option (list (Z * list Z * Z)) :=
  match back_index_row (u_rows s) id with
  | None => None
  | Some _ =>
      Some (flat_map (fun e => match e with
                               | (KStored i f p, VStored v) => if i =? id then [(f, p, v)] else []
                               | _ => []
                               end) (u_rows s))
  end.

(* DocIDReaderAll (what match-all iterates): the ids of the back index rows in key order *)
Definition udc_doc_ids (s : ustore) : list Z :=
  flat_map (fun e => match fst e with KBack id => [id] | _ => [] end) (u_rows s).

Definition udc_doc_count (s : ustore) : Z := u_count s.

Definition udc_get_internal (s : ustore) (k : Z) : option Z :=
  match rget (u_rows s) (KInternal k) with Some (VInternal v) => Some v | _ => None end.

(* ------------------------------------------------------------------ the SPEC side *)

(* what a document says about one (field, term) / one stored position, written independently of
   the row construction above *)
Fixpoint assoc_z {A} (k : Z) (l : list (Z * A)) : list A :=
  match l with
  | [] => []
  | (k', v) :: l' => if k =? k' then v :: assoc_z k l' else assoc_z k l'
  end.

(* frequency of term t in field f *)
Definition term_freq (d : udoc) (f t : Z) : option Z :=
  hd_error (flat_map (assoc_z t) (assoc_z f (d_terms d))).
Definition has_term (d : udoc) (f t : Z) : bool :=
  match term_freq d f t with Some _ => true | None => false end.
Definition stored_val (d : udoc) (f : Z) (p : list Z) : option Z :=
  hd_error (flat_map (fun e => if (fst (fst e) =? f) && beqb (snd (fst e)) p then [snd e] else []) (d_stored d)).

(* the analysis never emits the same (field, term) or the same stored (field, positions) twice
   for one document (analyze collates the fields by index and the terms of a field in a map) *)
Definition term_pairs (d : udoc) : list (Z * Z) :=
  flat_map (fun ft => map (fun tf => (fst ft, fst tf)) (snd ft)) (d_terms d).
Definition stored_keys (d : udoc) : list (Z * list Z) := map fst (d_stored d).

Definition pair_eqb (a b : Z * Z) : bool := (fst a =? fst b) && (snd a =? snd b).
Definition spos_eqb (a b : Z * list Z) : bool := (fst a =? fst b) && beqb (snd a) (snd b).
Fixpoint nodupb {A} (eqb : A -> A -> bool) (l : list A) : bool :=
  match l with [] => true | x :: l' => negb (existsb (eqb x) l') && nodupb eqb l' end.

Definition wf_doc (d : udoc) : bool :=
  nodupb pair_eqb (term_pairs d) && nodupb spos_eqb (stored_keys d).

(* a history: per batch the document operations (id, Some version | None = delete) and the
   internal operations; [docof id v] is what the analysis produced for version v of id *)
Definition hstep := (list (Z * option Z) * list (Z * option Z))%type.

Definition udc_ops (docof : Z -> Z -> udoc) (b : list (Z * option Z)) : list (Z * option udoc) :=
  map (fun o => (fst o, option_map (docof (fst o)) (snd o))) b.

Definition udc_run (docof : Z -> Z -> udoc) (h : list hstep) : ustore :=
  fold_left (fun s st => udc_batch s (udc_ops docof (fst st)) (snd st)) h udc_empty.
