(* Upsidedown row store (C01) — proofs, part 2: the rows of a document, mergeOldAndNew,
   deleteSingle, what one document operation contributes to a batch, and how the contributions
   of a batch are put together. *)
From Coq Require Import ZArith List Bool Lia Permutation.
From Verif Require Import Common.Bytes Kv.Adapter Kv.Upsidedown Kv.UpsidedownProofs1.
Import ListNotations.
Local Open Scope Z_scope.

(* ------------------------------------------------------------------ small list facts *)

Lemma NoDup_map_injective {A B} (f : A -> B) (l : list A) :
  (forall x y, In x l -> In y l -> f x = f y -> x = y) -> NoDup l -> NoDup (map f l).
Proof.
  induction l as [|x l IH]; intros Hinj H; [constructor|].
  inversion H as [|? ? Hn Hd]; subst. cbn. constructor.
  - rewrite in_map_iff. intros [y [Hy Hin]]. apply Hn.
    rewrite (Hinj x y); [exact Hin|left; reflexivity|right; exact Hin|symmetry; exact Hy].
  - apply IH; [|exact Hd]. intros a b Ha Hb. apply Hinj; right; assumption.
Qed.

Lemma NoDup_map_filter' {A B} (g : A -> B) (p : A -> bool) (l : list A) :
  NoDup (map g l) -> NoDup (map g (filter p l)).
Proof.
  induction l as [|x l IH]; cbn; intro H; [constructor|].
  inversion H as [|? ? Hn Hd]; subst. destruct (p x); cbn; [|apply IH; exact Hd].
  constructor; [|apply IH; exact Hd]. intro Hin. apply Hn.
  rewrite in_map_iff in *. destruct Hin as [y [Hy Hin]]. exists y. split; [exact Hy|].
  apply filter_In in Hin. tauto.
Qed.

Lemma NoDup_app3 {A} (a b : list A) :
  NoDup a -> NoDup b -> (forall x, In x a -> ~ In x b) -> NoDup (a ++ b).
Proof.
  induction a as [|x a IH]; cbn; intros Ha Hb Hd; [exact Hb|].
  inversion Ha as [|? ? Hn Hd']; subst. constructor.
  - rewrite in_app_iff. intros [H|H]; [tauto|]. apply (Hd x); [left; reflexivity|exact H].
  - apply IH; [exact Hd'|exact Hb|]. intros y Hy. apply Hd. right. exact Hy.
Qed.

Lemma NoDup_app_left {A} (a b : list A) : NoDup (a ++ b) -> NoDup a.
Proof.
  induction a as [|x a IH]; cbn; intro H; [constructor|].
  inversion H as [|? ? Hn Hd]; subst. constructor; [|apply IH; exact Hd].
  intro Hin. apply Hn. apply in_or_app. left. exact Hin.
Qed.

Lemma NoDup_app_right {A} (a b : list A) : NoDup (a ++ b) -> NoDup b.
Proof.
  induction a as [|x a IH]; cbn; intro H; [exact H|].
  inversion H; subst. apply IH. assumption.
Qed.

Lemma nodupb_NoDup {A} (eqb : A -> A -> bool) (l : list A) :
  (forall x y, eqb x y = true <-> x = y) -> nodupb eqb l = true -> NoDup l.
Proof.
  intro Heq. induction l as [|x l IH]; cbn; intro H; [constructor|].
  apply andb_true_iff in H as [H1 H2]. constructor; [|apply IH; exact H2].
  intro Hin. apply negb_true_iff in H1.
  assert (existsb (eqb x) l = true); [|congruence].
  apply existsb_exists. exists x. split; [exact Hin|]. apply Heq. reflexivity.
Qed.

Lemma pair_eqb_eq a b : pair_eqb a b = true <-> a = b.
Proof.
  destruct a, b. unfold pair_eqb. cbn. rewrite andb_true_iff, !Z.eqb_eq.
  split; [intros [-> ->]; reflexivity|intro H; inversion H; tauto].
Qed.

Lemma spos_eqb_eq a b : spos_eqb a b = true <-> a = b.
Proof.
  destruct a, b. unfold spos_eqb. cbn. rewrite andb_true_iff, Z.eqb_eq, beqb_eq.
  split; [intros [-> ->]; reflexivity|intro H; inversion H; tauto].
Qed.

(* ------------------------------------------------------------------ the rows of a document *)

Definition is_term (k : rowkey) : bool := match k with KTerm _ _ _ => true | _ => false end.
Definition is_stored (k : rowkey) : bool := match k with KStored _ _ _ => true | _ => false end.

(* the back index entries a document is recorded with *)
Definition bt (d : udoc) : list (Z * list Z) := map (fun ft => (fst ft, map fst (snd ft))) (d_terms d).
Definition bs (d : udoc) : list (Z * list Z) := map fst (d_stored d).

Definition TK (id : Z) (d : udoc) : list rowkey := map (fun p => KTerm (fst p) (snd p) id) (term_pairs d).
Definition SK (id : Z) (d : udoc) : list rowkey := map (fun e => KStored id (fst e) (snd e)) (stored_keys d).

Lemma doc_back_val_eq d : doc_back_val d = VBack (bt d) (bs d).
Proof. reflexivity. Qed.

Lemma doc_term_rows_keys id d : map fst (doc_term_rows id d) = TK id d.
Proof.
  unfold doc_term_rows, TK, term_pairs. induction (d_terms d) as [|[f ts] l IH]; cbn; [reflexivity|].
  rewrite !map_app, IH. f_equal. rewrite !map_map. reflexivity.
Qed.

Lemma doc_stored_rows_keys id d : map fst (doc_stored_rows id d) = SK id d.
Proof. unfold doc_stored_rows, SK, stored_keys. rewrite !map_map. reflexivity. Qed.

Lemma back_term_keys_doc id d : back_term_keys id (bt d) = TK id d.
Proof.
  unfold back_term_keys, bt, TK, term_pairs. induction (d_terms d) as [|[f ts] l IH]; cbn; [reflexivity|].
  rewrite map_app, IH. f_equal. rewrite !map_map. reflexivity.
Qed.

Lemma back_stored_keys_doc id d : back_stored_keys id (bs d) = SK id d.
Proof. unfold back_stored_keys, bs, SK, stored_keys. reflexivity. Qed.

Lemma doc_rows_keys id d : map fst (doc_rows id d) = SK id d ++ TK id d ++ [KBack id].
Proof.
  unfold doc_rows. rewrite !map_app, doc_stored_rows_keys, doc_term_rows_keys. reflexivity.
Qed.

Lemma TK_is_term id d k : In k (TK id d) -> is_term k = true /\ owner k = Some id.
Proof. unfold TK. rewrite in_map_iff. intros [p [<- _]]. split; reflexivity. Qed.

Lemma SK_is_stored id d k : In k (SK id d) -> is_stored k = true /\ owner k = Some id.
Proof. unfold SK. rewrite in_map_iff. intros [p [<- _]]. split; reflexivity. Qed.

Lemma doc_rows_owner id d k : In k (map fst (doc_rows id d)) -> owner k = Some id.
Proof.
  rewrite doc_rows_keys, !in_app_iff. intros [H|[H|[<-|[]]]].
  - apply SK_is_stored in H. tauto.
  - apply TK_is_term in H. tauto.
  - reflexivity.
Qed.

Lemma wf_doc_NoDup id d : wf_doc d = true -> NoDup (map fst (doc_rows id d)).
Proof.
  unfold wf_doc. intro H. apply andb_true_iff in H as [H1 H2].
  apply (nodupb_NoDup _ _ pair_eqb_eq) in H1. apply (nodupb_NoDup _ _ spos_eqb_eq) in H2.
  rewrite doc_rows_keys. apply NoDup_app3; [| apply NoDup_app3 |].
  - unfold SK. apply NoDup_map_injective; [|exact H2].
    intros [f p] [f' p'] _ _ He. cbn in He. inversion He. reflexivity.
  - unfold TK. apply NoDup_map_injective; [|exact H1].
    intros [f t] [f' t'] _ _ He. cbn in He. inversion He. reflexivity.
  - constructor; [intros []|constructor].
  - intros x Hx [<-|[]]. apply TK_is_term in Hx. cbn in Hx. destruct Hx; discriminate.
  - intros x Hx. rewrite in_app_iff. intros [Hy|[<-|[]]].
    + apply SK_is_stored in Hx. apply TK_is_term in Hy. destruct x; cbn in *; destruct Hx, Hy; discriminate.
    + apply SK_is_stored in Hx. cbn in Hx. destruct Hx; discriminate.
Qed.

Lemma wf_doc_NoDup_TK id d : wf_doc d = true -> NoDup (TK id d).
Proof.
  intro H. apply (wf_doc_NoDup id) in H. rewrite doc_rows_keys in H.
  apply NoDup_app_right in H. apply NoDup_app_left in H. exact H.
Qed.

Lemma wf_doc_NoDup_SK id d : wf_doc d = true -> NoDup (SK id d).
Proof.
  intro H. apply (wf_doc_NoDup id) in H. rewrite doc_rows_keys in H.
  apply NoDup_app_left in H. exact H.
Qed.

(* has_term and the term keys *)
Lemma assoc_z_In {A} k (v : A) l : In v (assoc_z k l) <-> In (k, v) l.
Proof.
  induction l as [|[k' v'] l IH]; cbn; [tauto|].
  destruct (k =? k') eqn:E.
  - apply Z.eqb_eq in E. subst. cbn. rewrite IH. split; [intros [->|H]; auto|].
    intros [H|H]; [inversion H; auto|auto].
  - apply Z.eqb_neq in E. rewrite IH. split; [auto|]. intros [H|H]; [inversion H; congruence|exact H].
Qed.

Lemma term_freq_In d f t fr :
  In fr (flat_map (assoc_z t) (assoc_z f (d_terms d))) <->
  In (KTerm f t 0, VTerm fr) (doc_term_rows 0 d).
Proof.
  unfold doc_term_rows. rewrite !in_flat_map. split.
  - intros [ts [H1 H2]]. apply assoc_z_In in H1. apply assoc_z_In in H2.
    exists (f, ts). split; [exact H1|]. cbn. rewrite in_map_iff. exists (t, fr). split; [reflexivity|exact H2].
  - intros [[f' ts] [H1 H2]]. cbn in H2. rewrite in_map_iff in H2. destruct H2 as [[t' fr'] [He H2]].
    cbn in He. inversion He; subst. exists ts. split; apply assoc_z_In; assumption.
Qed.

Lemma doc_term_rows_id id id' d f t fr :
  In (KTerm f t id, VTerm fr) (doc_term_rows id d) -> In (KTerm f t id', VTerm fr) (doc_term_rows id' d).
Proof.
  unfold doc_term_rows. rewrite !in_flat_map. intros [ft [H1 H2]]. exists ft. split; [exact H1|].
  rewrite in_map_iff in *. destruct H2 as [tf [He H2]]. exists tf. split; [|exact H2].
  inversion He. reflexivity.
Qed.

Lemma has_term_TK id d f t : has_term d f t = true <-> In (KTerm f t id) (TK id d).
Proof.
  unfold has_term, term_freq. rewrite <- doc_term_rows_keys. split.
  - destruct (flat_map (assoc_z t) (assoc_z f (d_terms d))) as [|fr l] eqn:E; cbn; [discriminate|].
    intros _. assert (H : In fr (flat_map (assoc_z t) (assoc_z f (d_terms d)))) by (rewrite E; left; reflexivity).
    apply term_freq_In in H. apply (doc_term_rows_id 0 id) in H.
    change (KTerm f t id) with (fst (KTerm f t id, VTerm fr)). apply in_map. exact H.
  - rewrite in_map_iff. intros [[k v] [He H]]. cbn in He. subst k.
    assert (exists fr, v = VTerm fr) as [fr ->].
    { unfold doc_term_rows in H. rewrite in_flat_map in H. destruct H as [ft [_ H]].
      rewrite in_map_iff in H. destruct H as [tf [He _]]. inversion He. eauto. }
    apply (doc_term_rows_id id 0) in H. apply term_freq_In in H.
    destruct (flat_map (assoc_z t) (assoc_z f (d_terms d))); [destruct H|reflexivity].
Qed.

(* the value each key of a document's rows is given (used to read the invariant back) *)
Lemma alast_back id d : alast (KBack id) (doc_rows id d) = Some (doc_back_val d).
Proof.
  unfold doc_rows. rewrite app_assoc, alast_app. cbn [alast]. rewrite rowkey_eqb_refl. reflexivity.
Qed.

Lemma alast_term id d f t :
  wf_doc d = true -> alast (KTerm f t id) (doc_rows id d) = option_map VTerm (term_freq d f t).
Proof.
  intro Hwf. unfold term_freq.
  destruct (flat_map (assoc_z t) (assoc_z f (d_terms d))) as [|fr l] eqn:E; cbn.
  - apply alast_None. rewrite doc_rows_keys, !in_app_iff. intros [H|[H|[H|[]]]]; try discriminate.
    + apply SK_is_stored in H. cbn in H. destruct H; discriminate.
    + apply (has_term_TK id) in H. unfold has_term, term_freq in H. rewrite E in H. discriminate.
  - apply alast_NoDup; [apply wf_doc_NoDup; exact Hwf|].
    assert (H : In fr (flat_map (assoc_z t) (assoc_z f (d_terms d)))) by (rewrite E; left; reflexivity).
    apply term_freq_In in H. apply (doc_term_rows_id 0 id) in H.
    unfold doc_rows. rewrite !in_app_iff. right. left. exact H.
Qed.

Lemma alast_stored id d f p :
  wf_doc d = true -> alast (KStored id f p) (doc_rows id d) = option_map VStored (stored_val d f p).
Proof.
  intro Hwf. unfold stored_val.
  destruct (flat_map (fun e => if (fst (fst e) =? f) && beqb (snd (fst e)) p then [snd e] else []) (d_stored d))
    as [|v l] eqn:E; cbn.
  - apply alast_None. rewrite doc_rows_keys, !in_app_iff. intros [H|[H|[H|[]]]]; try discriminate.
    + unfold SK, stored_keys in H. rewrite map_map, in_map_iff in H. destruct H as [[[f' p'] v] [He H]].
      cbn in He. inversion He; subst f' p'.
      assert (Hin : In v (flat_map (fun e => if (fst (fst e) =? f) && beqb (snd (fst e)) p then [snd e] else []) (d_stored d))).
      { apply in_flat_map. exists (f, p, v). split; [exact H|]. cbn. rewrite Z.eqb_refl.
        rewrite (proj2 (beqb_eq p p) eq_refl). left. reflexivity. }
      rewrite E in Hin. destruct Hin.
    + apply TK_is_term in H. cbn in H. destruct H; discriminate.
  - apply alast_NoDup; [apply wf_doc_NoDup; exact Hwf|].
    assert (H : In v (flat_map (fun e => if (fst (fst e) =? f) && beqb (snd (fst e)) p then [snd e] else []) (d_stored d)))
      by (rewrite E; left; reflexivity).
    apply in_flat_map in H. destruct H as [[[f' p'] v'] [H1 H2]]. cbn in H2.
    destruct ((f' =? f) && beqb p' p) eqn:E2; [|destruct H2].
    apply andb_true_iff in E2 as [E3 E4]. apply Z.eqb_eq in E3. apply beqb_eq in E4. subst f' p'.
    destruct H2 as [->|[]].
    unfold doc_rows. rewrite !in_app_iff. left. unfold doc_stored_rows. rewrite in_map_iff.
    exists (f, p, v). split; [reflexivity|exact H1].
Qed.

(* ------------------------------------------------------------------ key sets *)

Lemma kadd_In l k x : In x (kadd l k) <-> x = k \/ In x l.
Proof.
  unfold kadd. destruct (kmem k l) eqn:E.
  - apply kmem_In in E. split; [auto|]. intros [->|H]; assumption.
  - rewrite in_app_iff. cbn. intuition.
Qed.

Lemma kadd_NoDup l k : NoDup l -> NoDup (kadd l k).
Proof.
  unfold kadd. intro H. destruct (kmem k l) eqn:E; [exact H|].
  apply kmem_false in E. apply NoDup_app3; [exact H|constructor; [intros []|constructor]|].
  intros x Hx [<-|[]]. tauto.
Qed.

Lemma kset_of_In l x : In x (kset_of l) <-> In x l.
Proof.
  unfold kset_of.
  assert (G : forall acc, In x (fold_left kadd l acc) <-> In x l \/ In x acc).
  { induction l as [|k l IH]; intro acc; cbn; [tauto|]. rewrite IH, kadd_In. intuition. }
  rewrite G. cbn. tauto.
Qed.

Lemma kset_of_NoDup l : NoDup (kset_of l).
Proof.
  unfold kset_of.
  assert (G : forall acc, NoDup acc -> NoDup (fold_left kadd l acc)).
  { induction l as [|k l IH]; intros acc H; cbn; [exact H|]. apply IH. apply kadd_NoDup. exact H. }
  apply G. constructor.
Qed.

Lemma kremove_In k l x : In x (kremove k l) <-> x <> k /\ In x l.
Proof.
  unfold kremove. rewrite filter_In, negb_true_iff, rowkey_eqb_neq. intuition congruence.
Qed.

Lemma kremove_NoDup k l : NoDup l -> NoDup (kremove k l).
Proof. unfold kremove. apply NoDup_filter. Qed.

Lemma kmem_kremove_other k k0 l : k <> k0 -> kmem k (kremove k0 l) = kmem k l.
Proof.
  intro Hne. destruct (kmem k l) eqn:E.
  - apply kmem_In. apply kremove_In. apply kmem_In in E. tauto.
  - apply kmem_false. apply kmem_false in E. rewrite kremove_In. tauto.
Qed.

(* ------------------------------------------------------------------ mergeOldAndNew *)

Definition mon_run (rs : list row) (st : mon) : mon := fold_left mon_step rs st.

(* every new row ends up either added or updated *)
Lemma mon_sets rs : forall st r,
  In r (m_add (mon_run rs st) ++ m_upd (mon_run rs st)) <-> In r (m_add st ++ m_upd st) \/ In r rs.
Proof.
  unfold mon_run. induction rs as [|r0 rs IH]; intros st r; cbn [fold_left]; [cbn; tauto|].
  rewrite IH. cbn [In]. unfold mon_step.
  destruct (fst r0); try (cbn [m_add m_upd]; rewrite !in_app_iff; cbn [In]; tauto);
    match goal with |- context [if ?c then _ else _] => destruct c end;
    cbn [m_add m_upd]; rewrite !in_app_iff; cbn [In]; tauto.
Qed.

(* an existing term key survives exactly when no new row has it *)
Ltac mon_other k :=
  split; [intros [?H1 ?H2]; split; [assumption|]; intros [?H3 [?H4|?H4]]; [subst k; discriminate|tauto]
         |intros [?H1 ?H2]; split; [assumption|tauto]].

Lemma mon_ext rs : forall st k,
  In k (m_ext (mon_run rs st)) <-> In k (m_ext st) /\ ~ (is_term k = true /\ In k (map fst rs)).
Proof.
  unfold mon_run. induction rs as [|[k0 v0] rs IH]; intros st k; cbn [fold_left map In]; [tauto|].
  rewrite IH. unfold mon_step. cbn [fst].
  destruct k0 as [i0|f0 t0|kk0|i0 f0 p0|f0 t0 i0]; cbn [m_ext].
  - mon_other k.
  - mon_other k.
  - mon_other k.
  - destruct (kmem (KStored i0 f0 p0) (m_exs st)); cbn [m_ext]; mon_other k.
  - destruct (kmem (KTerm f0 t0 i0) (m_ext st)) eqn:E; cbn [m_ext].
    + rewrite kremove_In. split.
      * intros [[H1 H2] H3]. split; [exact H2|]. intros [H4 [H5|H5]]; [congruence|tauto].
      * intros [H1 H2]. split; [split; [|exact H1]|tauto].
        intro; subst k. apply H2. split; [reflexivity|left; reflexivity].
    + apply kmem_false in E. split.
      * intros [H1 H2]. split; [exact H1|]. intros [H3 [H4|H4]]; [subst k; tauto|tauto].
      * intros [H1 H2]. split; [exact H1|tauto].
Qed.

Lemma mon_exs rs : forall st k,
  In k (m_exs (mon_run rs st)) <-> In k (m_exs st) /\ ~ (is_stored k = true /\ In k (map fst rs)).
Proof.
  unfold mon_run. induction rs as [|[k0 v0] rs IH]; intros st k; cbn [fold_left map In]; [tauto|].
  rewrite IH. unfold mon_step. cbn [fst].
  destruct k0 as [i0|f0 t0|kk0|i0 f0 p0|f0 t0 i0]; cbn [m_exs].
  - mon_other k.
  - mon_other k.
  - mon_other k.
  - destruct (kmem (KStored i0 f0 p0) (m_exs st)) eqn:E; cbn [m_exs].
    + rewrite kremove_In. split.
      * intros [[H1 H2] H3]. split; [exact H2|]. intros [H4 [H5|H5]]; [congruence|tauto].
      * intros [H1 H2]. split; [split; [|exact H1]|tauto].
        intro; subst k. apply H2. split; [reflexivity|left; reflexivity].
    + apply kmem_false in E. split.
      * intros [H1 H2]. split; [exact H1|]. intros [H3 [H4|H4]]; [subst k; tauto|tauto].
      * intros [H1 H2]. split; [exact H1|tauto].
  - destruct (kmem (KTerm f0 t0 i0) (m_ext st)); cbn [m_exs]; mon_other k.
Qed.

Lemma mon_ext_NoDup rs : forall st, NoDup (m_ext st) -> NoDup (m_ext (mon_run rs st)).
Proof.
  unfold mon_run. induction rs as [|[k0 v0] rs IH]; intros st H; cbn [fold_left]; [exact H|].
  apply IH. unfold mon_step. cbn [fst].
  destruct k0 as [i0|f0 t0|kk0|i0 f0 p0|f0 t0 i0]; cbn [m_ext]; try exact H;
    match goal with |- context [if ?c then _ else _] => destruct c end; cbn [m_ext]; try exact H.
  apply kremove_NoDup. exact H.
Qed.

Lemma mon_exs_NoDup rs : forall st, NoDup (m_exs st) -> NoDup (m_exs (mon_run rs st)).
Proof.
  unfold mon_run. induction rs as [|[k0 v0] rs IH]; intros st H; cbn [fold_left]; [exact H|].
  apply IH. unfold mon_step. cbn [fst].
  destruct k0 as [i0|f0 t0|kk0|i0 f0 p0|f0 t0 i0]; cbn [m_exs]; try exact H;
    match goal with |- context [if ?c then _ else _] => destruct c end; cbn [m_exs]; try exact H.
  apply kremove_NoDup. exact H.
Qed.

(* which rows are adds: those whose key is not among the existing keys (the new rows have
   distinct keys, so striking a key off never affects a later row) *)
Definition is_add (ext exs : list rowkey) (r : row) : bool :=
  match fst r with
  | KTerm _ _ _ => negb (kmem (fst r) ext)
  | KStored _ _ _ => negb (kmem (fst r) exs)
  | _ => false
  end.

Lemma mon_add rs : forall st,
  NoDup (map fst rs) ->
  m_add (mon_run rs st) = m_add st ++ filter (is_add (m_ext st) (m_exs st)) rs.
Proof.
  unfold mon_run. induction rs as [|[k0 v0] rs IH]; intros st Hnd; cbn [fold_left filter]; [rewrite app_nil_r; reflexivity|].
  cbn in Hnd. inversion Hnd as [|? ? Hn Hd]; subst.
  rewrite IH by exact Hd.
  assert (Hext : forall ext' exs',
            (forall k, k <> k0 -> kmem k ext' = kmem k (m_ext st)) ->
            (forall k, k <> k0 -> kmem k exs' = kmem k (m_exs st)) ->
            filter (is_add ext' exs') rs = filter (is_add (m_ext st) (m_exs st)) rs).
  { intros ext' exs' H1 H2. apply filter_ext_in. intros [k v] Hin.
    assert (k <> k0) by (intro; subst; apply Hn; change k0 with (fst (k0, v)); apply in_map; exact Hin).
    unfold is_add. cbn [fst]. destruct k; try reflexivity; [rewrite H2|rewrite H1]; auto. }
  unfold mon_step. cbn [fst].
  destruct k0 as [i0|f0 t0|kk0|i0 f0 p0|f0 t0 i0]; cbn [m_add m_ext m_exs is_add fst]; try reflexivity.
  - destruct (kmem (KStored i0 f0 p0) (m_exs st)) eqn:E; cbn [m_add m_ext m_exs negb].
    + rewrite (Hext _ _ (fun _ _ => eq_refl) (fun k Hk => kmem_kremove_other k _ _ Hk)). reflexivity.
    + rewrite <- app_assoc. reflexivity.
  - destruct (kmem (KTerm f0 t0 i0) (m_ext st)) eqn:E; cbn [m_add m_ext m_exs negb].
    + rewrite (Hext _ _ (fun k Hk => kmem_kremove_other k _ _ Hk) (fun _ _ => eq_refl)). reflexivity.
    + rewrite <- app_assoc. reflexivity.
Qed.

(* ------------------------------------------------------------------ one document operation *)

Definition hasZ (od : option udoc) (f t : Z) : Z :=
  match od with Some d => if has_term d f t then 1 else 0 | None => 0 end.

Definition back_of (od : option udoc) : option (list (Z * list Z) * list (Z * list Z)) :=
  option_map (fun d => (bt d, bs d)) od.

Lemma delete_single_keys id d k :
  In k (delete_single id (bt d) (bs d)) <-> In k (map fst (doc_rows id d)).
Proof.
  unfold delete_single. rewrite back_term_keys_doc, back_stored_keys_doc, doc_rows_keys, !in_app_iff. tauto.
Qed.

(* a delete *)
Lemma op_plan_delete m id old :
  back_index_row m id = back_of old ->
  op_plan m (id, None) =
    match old with
    | Some d0 => mkPlan [] [] (delete_single id (bt d0) (bs d0)) 0 1
    | None => mkPlan [] [] [] 0 0
    end.
Proof. intro H. unfold op_plan. cbn [fst snd]. rewrite H. destruct old; reflexivity. Qed.

(* an index of document d over the old version (if any) *)
Definition index_mon (id : Z) (d0 d : udoc) : mon :=
  mon_run (doc_rows id d) (mkMon [] [] (kset_of (back_term_keys id (bt d0))) (kset_of (back_stored_keys id (bs d0)))).

Lemma op_plan_index m id d old :
  back_index_row m id = back_of old ->
  op_plan m (id, Some d) =
    match old with
    | Some d0 => let st := index_mon id d0 d in mkPlan (m_add st) (m_upd st) (m_ext st ++ m_exs st) 0 0
    | None => mkPlan (doc_rows id d) [] [] 1 0
    end.
Proof. intro H. unfold op_plan. cbn [fst snd]. rewrite H. destruct old; reflexivity. Qed.

Definition the_plan (id : Z) (old new : option udoc) : plan :=
  match new, old with
  | None, Some d0 => mkPlan [] [] (delete_single id (bt d0) (bs d0)) 0 1
  | None, None => mkPlan [] [] [] 0 0
  | Some d, Some d0 => let st := index_mon id d0 d in mkPlan (m_add st) (m_upd st) (m_ext st ++ m_exs st) 0 0
  | Some d, None => mkPlan (doc_rows id d) [] [] 1 0
  end.

Lemma op_plan_the_plan m id old new :
  back_index_row m id = back_of old -> op_plan m (id, new) = the_plan id old new.
Proof.
  intro H. destruct new as [d|]; [rewrite (op_plan_index m id d old H)|rewrite (op_plan_delete m id old H)];
    destruct old; reflexivity.
Qed.

(* the rows set by the operation: exactly the rows of the new version *)
Lemma the_plan_sets id old new r :
  In r (p_add (the_plan id old new) ++ p_upd (the_plan id old new)) <->
  match new with Some d => In r (doc_rows id d) | None => False end.
Proof.
  destruct new as [d|], old as [d0|]; cbn [the_plan p_add p_upd]; try (cbn; tauto).
  - unfold index_mon. rewrite mon_sets. cbn. tauto.
  - rewrite app_nil_r. tauto.
Qed.

(* the keys deleted by the operation: the keys of the old version that the new one does not have *)
Lemma the_plan_dels id old new k :
  In k (p_del (the_plan id old new)) <->
  match old with
  | Some d0 => In k (map fst (doc_rows id d0)) /\
               match new with
               | Some d => k <> KBack id /\ ~ In k (map fst (doc_rows id d))
               | None => True
               end
  | None => False
  end.
Proof.
  destruct new as [d|], old as [d0|]; cbn [the_plan p_del]; try (cbn; tauto).
  - unfold index_mon. rewrite in_app_iff, mon_ext, mon_exs. cbn [m_ext m_exs].
    rewrite !kset_of_In, back_term_keys_doc, back_stored_keys_doc, (doc_rows_keys id d0), !in_app_iff.
    split.
    + intros [[H1 H2]|[H1 H2]].
      * pose proof (TK_is_term _ _ _ H1) as [Ht _]. split; [tauto|]. split; [intro; subst; discriminate|tauto].
      * pose proof (SK_is_stored _ _ _ H1) as [Hs _]. split; [tauto|]. split; [intro; subst; discriminate|tauto].
    + intros [[H1|[H1|[H1|[]]]] [H2 H3]]; [right|left|congruence]; tauto.
  - rewrite delete_single_keys. tauto.
Qed.

Lemma the_plan_owner id old new :
  (forall r, In r (p_add (the_plan id old new) ++ p_upd (the_plan id old new)) -> owner (fst r) = Some id) /\
  (forall k, In k (p_del (the_plan id old new)) -> owner k = Some id).
Proof.
  split.
  - intros r H. apply the_plan_sets in H. destruct new as [d|]; [|destruct H].
    apply (doc_rows_owner id d). apply in_map. exact H.
  - intros k H. apply the_plan_dels in H. destruct old as [d0|]; [|destruct H].
    apply (doc_rows_owner id d0). tauto.
Qed.

(* the dictionary contribution of the operation for (f, t): +1 when the new version has the
   term and the old one had not, -1 the other way round *)
Lemma the_plan_cnt id old new f t :
  match old with Some d0 => wf_doc d0 = true | None => True end ->
  match new with Some d => wf_doc d = true | None => True end ->
  cntT f t (map fst (p_add (the_plan id old new))) - cntT f t (p_del (the_plan id old new)) =
  hasZ new f t - hasZ old f t.
Proof.
  intros Hw0 Hw.
  assert (Honly : forall d ks, (forall k, In k ks -> In k (map fst (doc_rows id d))) ->
            forall k, In k ks -> is_ft f t k = true -> k = KTerm f t id).
  { intros d ks Hsub k Hk Hf. apply Hsub in Hk. apply doc_rows_owner in Hk.
    destruct k; cbn in Hf; try discriminate. apply ft_eqb_eq in Hf. inversion Hf; subst.
    cbn in Hk. inversion Hk. reflexivity. }
  assert (HinTK : forall d, In (KTerm f t id) (map fst (doc_rows id d)) <-> has_term d f t = true).
  { intro d. rewrite (has_term_TK id), doc_rows_keys, !in_app_iff. split; [|tauto].
    intros [H|[H|[H|[]]]]; [|exact H|discriminate]. apply SK_is_stored in H. cbn in H. destruct H; discriminate. }
  destruct new as [d|], old as [d0|]; cbn [the_plan p_add p_del hasZ map].
  - (* re-index *)
    set (st := index_mon id d0 d).
    assert (Hadd : m_add st = filter (is_add (kset_of (back_term_keys id (bt d0))) (kset_of (back_stored_keys id (bs d0)))) (doc_rows id d)).
    { unfold st, index_mon. rewrite mon_add by (apply wf_doc_NoDup; exact Hw). reflexivity. }
    rewrite cntT_app.
    assert (Hs : cntT f t (m_exs st) = 0).
    { apply cntT_zero. intros k Hk. unfold st, index_mon in Hk. apply mon_exs in Hk. destruct Hk as [Hk _].
      cbn in Hk. rewrite kset_of_In in Hk. rewrite back_stored_keys_doc in Hk. apply SK_is_stored in Hk.
      destruct k; cbn in *; destruct Hk; try discriminate; reflexivity. }
    rewrite Hs.
    rewrite (cntT_single f t id (map fst (m_add st))).
    2:{ rewrite Hadd. apply NoDup_map_filter'. apply wf_doc_NoDup. exact Hw. }
    2:{ apply (Honly d). intros k Hk. rewrite Hadd in Hk. rewrite in_map_iff in *.
        destruct Hk as [r [He Hr]]. exists r. split; [exact He|]. apply filter_In in Hr. tauto. }
    rewrite (cntT_single f t id (m_ext st)).
    2:{ unfold st, index_mon. apply mon_ext_NoDup. cbn. apply kset_of_NoDup. }
    2:{ apply (Honly d0). intros k Hk. unfold st, index_mon in Hk. apply mon_ext in Hk. destruct Hk as [Hk _].
        cbn in Hk. rewrite kset_of_In in Hk. rewrite back_term_keys_doc in Hk.
        rewrite doc_rows_keys, !in_app_iff. tauto. }
    (* membership of KTerm f t id in the adds / in the surviving existing keys *)
    assert (HA : kmem (KTerm f t id) (map fst (m_add st)) = has_term d f t && negb (has_term d0 f t)).
    { apply eq_true_iff_eq. rewrite kmem_In, andb_true_iff, negb_true_iff, <- not_true_iff_false, <- !HinTK.
      rewrite Hadd. rewrite in_map_iff. split.
      - intros [[k v] [He Hr]]. cbn in He. subst k. apply filter_In in Hr. destruct Hr as [Hr Ha].
        split; [change (KTerm f t id) with (fst (KTerm f t id, v)); apply in_map; exact Hr|].
        unfold is_add in Ha. cbn [fst] in Ha. apply negb_true_iff, kmem_false in Ha.
        rewrite kset_of_In, back_term_keys_doc in Ha. intro H. apply Ha.
        rewrite doc_rows_keys, !in_app_iff in H. destruct H as [H|[H|[H|[]]]]; [|exact H|discriminate].
        apply SK_is_stored in H. cbn in H. destruct H; discriminate.
      - intros [H1 H2]. rewrite in_map_iff in H1. destruct H1 as [[k v] [He Hr]]. cbn in He. subst k.
        exists (KTerm f t id, v). split; [reflexivity|]. apply filter_In. split; [exact Hr|].
        unfold is_add. cbn [fst]. apply negb_true_iff, kmem_false.
        rewrite kset_of_In, back_term_keys_doc. intro H. apply H2. rewrite doc_rows_keys, !in_app_iff. tauto. }
    assert (HD : kmem (KTerm f t id) (m_ext st) = has_term d0 f t && negb (has_term d f t)).
    { apply eq_true_iff_eq. rewrite kmem_In, andb_true_iff, negb_true_iff, <- not_true_iff_false, <- !HinTK.
      unfold st, index_mon. rewrite mon_ext. cbn [m_ext]. rewrite kset_of_In, back_term_keys_doc.
      rewrite (doc_rows_keys id d0), !in_app_iff. split.
      - intros [H1 H2]. split; [tauto|]. intro H. apply H2. split; [reflexivity|exact H].
      - intros [[H1|[H1|[H1|[]]]] H2]; try discriminate.
        + apply SK_is_stored in H1. cbn in H1. destruct H1; discriminate.
        + split; [exact H1|tauto]. }
    rewrite HA, HD. destruct (has_term d f t), (has_term d0 f t); reflexivity.
  - (* first index *)
    rewrite cntT_nil.
    rewrite (cntT_single f t id (map fst (doc_rows id d))).
    2:{ apply wf_doc_NoDup. exact Hw. }
    2:{ apply (Honly d). auto. }
    destruct (has_term d f t) eqn:E.
    + apply HinTK, kmem_In in E. rewrite E. reflexivity.
    + destruct (kmem (KTerm f t id) (map fst (doc_rows id d))) eqn:E2; [|reflexivity].
      apply kmem_In, HinTK in E2. congruence.
  - (* delete of a live document *)
    rewrite cntT_nil.
    assert (Hperm : cntT f t (delete_single id (bt d0) (bs d0)) = cntT f t (map fst (doc_rows id d0))).
    { unfold delete_single. rewrite back_term_keys_doc, back_stored_keys_doc, doc_rows_keys, !cntT_app. lia. }
    rewrite Hperm.
    rewrite (cntT_single f t id (map fst (doc_rows id d0))).
    2:{ apply wf_doc_NoDup. exact Hw0. }
    2:{ apply (Honly d0). auto. }
    destruct (has_term d0 f t) eqn:E.
    + apply HinTK, kmem_In in E. rewrite E. reflexivity.
    + destruct (kmem (KTerm f t id) (map fst (doc_rows id d0))) eqn:E2; [|reflexivity].
      apply kmem_In, HinTK in E2. congruence.
  - rewrite !cntT_nil. reflexivity.
Qed.

(* ------------------------------------------------------------------ the plan of a batch *)

Definition batch_plan (m : rows) (ops : list (Z * option udoc)) (iops : list (Z * option Z)) : plan :=
  fold_left (fun p op => plan_app p (op_plan m op)) ops (plan_internal iops).

Lemma batch_plan_fold m ops : forall p0,
  let p := fold_left (fun p op => plan_app p (op_plan m op)) ops p0 in
  p_add p = p_add p0 ++ flat_map (fun op => p_add (op_plan m op)) ops /\
  p_upd p = p_upd p0 ++ flat_map (fun op => p_upd (op_plan m op)) ops /\
  p_del p = p_del p0 ++ flat_map (fun op => p_del (op_plan m op)) ops /\
  p_added p = p_added p0 + fold_right (fun op a => p_added (op_plan m op) + a) 0 ops /\
  p_deleted p = p_deleted p0 + fold_right (fun op a => p_deleted (op_plan m op) + a) 0 ops.
Proof.
  induction ops as [|op ops IH]; intro p0; cbn [fold_left flat_map fold_right].
  - rewrite !app_nil_r. repeat split; lia.
  - destruct (IH (plan_app p0 (op_plan m op))) as [H1 [H2 [H3 [H4 H5]]]].
    cbn zeta in *. rewrite H1, H2, H3, H4, H5. cbn [plan_app p_add p_upd p_del p_added p_deleted].
    rewrite <- !app_assoc. repeat split; lia.
Qed.
