(* Upsidedown row store (C01) — the refinement theorem and what it gives the readers.
   The development is split for parallel builds:
     UpsidedownProofs1  row keys, the row map, the Set / Delete / Merge phases of a KV batch,
                        dictionary delta maps, finite sums over ids
     UpsidedownProofs2  the rows of a document, mergeOldAndNew, deleteSingle, the contribution
                        of one document operation (rows set, keys deleted, dictionary delta)
     UpsidedownProofs3  the row-store invariant [Inv] and its preservation by [udc_batch]
     this file          udc_refines_replay, the reader corollaries (Document, doc-id reader,
                        DocCount, GetInternal), single operations = singleton batches, Examples *)
From Coq Require Import ZArith List Bool Lia Permutation.
From Verif Require Import Common.Bytes Scorch.Model Scorch.ProofsCore1 Scorch.ProofsCore4 Kv.Adapter Kv.Upsidedown.
From Verif Require Export Kv.UpsidedownProofs1 Kv.UpsidedownProofs2 Kv.UpsidedownProofs3.
Import ListNotations.
Local Open Scope Z_scope.

(* ------------------------------------------------------------------ the invariant holds *)

Lemma udc_run_snoc docof h st :
  udc_run docof (h ++ [st]) = udc_batch (udc_run docof h) (udc_ops docof (fst st)) (snd st).
Proof. unfold udc_run. rewrite fold_left_app. reflexivity. Qed.

Theorem udc_invariant : forall docof h,
  Forall step_ok h -> docs_ok docof h -> hist_small h -> Inv docof h (udc_run docof h).
Proof.
  intros docof h. induction h as [|[b iops] h IH] using rev_ind; intros Hst Hwf Hsm.
  - apply Inv_empty.
  - rewrite udc_run_snoc. cbn [fst snd].
    apply Forall_app in Hst. destruct Hst as [Hst1 Hst2]. inversion Hst2 as [|? ? [Hb Hi] _]; subst.
    cbn [fst snd] in Hb, Hi. apply nodupZ_NoDup in Hb. apply nodupZ_NoDup in Hi.
    apply Inv_step; try assumption.
    apply IH; [exact Hst1| |].
    + intros id v H. apply Hwf. unfold hist_ids in *. rewrite flat_map_app. apply in_or_app. left. exact H.
    + unfold hist_small, hist_ids in *. rewrite flat_map_app, app_length, Nat2Z.inj_add in Hsm.
      assert (G : forall a b c : Z, 0 <= b -> a + b < c -> a < c) by (intros; lia).
      eapply G; [|exact Hsm]. apply Nat2Z.is_nonneg.
Qed.

(* ------------------------------------------------------------------ udc_refines_replay *)

(* has the latest version of id the term (f, t)? *)
Definition live_has (docof : Z -> Z -> udoc) (live : Z -> option Z) (f t id : Z) : bool :=
  match live id with Some v => has_term (docof id v) f t | None => false end.

Lemma sumZ_ones l : sumZ (fun _ => 1) l = Z.of_nat (length l).
Proof. induction l as [|x l IH]; [reflexivity|]. rewrite sumZ_cons, IH. cbn [length]. lia. Qed.

(* For every history of batches (distinct ids per batch, distinct internal keys per batch; for raw
   operation lists take Scorch.Model.collapse, see [collapse_step_ok]) run from the empty store,
   with [docof id v] the (well-formed) analysis result of version v of id, and fewer than 2^63
   document operations in all (docCount and the dictionary counts are 64-bit counters):
   (a) the back index rows are exactly those of the live ids of [replay], each listing the
       entries of the LATEST version;
   (b) a term-frequency row exists exactly when the latest version of a live id has that
       (field, term), with its frequency; same for stored rows including the array positions;
   (c) every dictionary count is the number of live ids whose latest version has the term;
   (d) docCount is the number of live ids;
   (e) the internal rows hold the latest values;
   and the row keys are distinct. *)
Theorem udc_refines_replay : forall (docof : Z -> Z -> udoc) (h : list hstep),
  Forall step_ok h -> docs_ok docof h -> hist_small h ->
  let s := udc_run docof h in
  let live := replay (map fst h) in
  (forall id, rget (u_rows s) (KBack id) = option_map (fun v => doc_back_val (docof id v)) (live id))
  /\ (forall f t id, rget (u_rows s) (KTerm f t id) =
        match live id with Some v => option_map VTerm (term_freq (docof id v) f t) | None => None end)
  /\ (forall id f p, rget (u_rows s) (KStored id f p) =
        match live id with Some v => option_map VStored (stored_val (docof id v) f p) | None => None end)
  /\ (forall l, NoDup l -> (forall d, In d l <-> live d <> None) ->
        (forall f t, dict_count (u_rows s) f t = Z.of_nat (length (filter (live_has docof live f t) l)))
        /\ u_count s = Z.of_nat (length l))
  /\ (forall key, rget (u_rows s) (KInternal key) = option_map VInternal (spec_internal (flat_map snd h) key))
  /\ NoDup (map fst (u_rows s)).
Proof.
  intros docof h Hst Hwf Hsm s live.
  pose proof (udc_invariant docof h Hst Hwf Hsm) as HI. fold s in HI.
  assert (Hwfl : forall id v, live id = Some v -> wf_doc (docof id v) = true).
  { intros id v H. apply Hwf. apply (inv_src docof h s HI). exact H. }
  repeat split.
  - intro id. rewrite (inv_rows docof h s HI (KBack id) id eq_refl). fold live. unfold live_doc.
    destruct (live id); cbn; [apply alast_back|reflexivity].
  - intros f t id. rewrite (inv_rows docof h s HI (KTerm f t id) id eq_refl). fold live. unfold live_doc.
    destruct (live id) as [v|] eqn:E; cbn; [|reflexivity]. apply alast_term. apply Hwfl. exact E.
  - intros id f p. rewrite (inv_rows docof h s HI (KStored id f p) id eq_refl). fold live. unfold live_doc.
    destruct (live id) as [v|] eqn:E; cbn; [|reflexivity]. apply alast_stored. apply Hwfl. exact E.
  - intros f t. rewrite (inv_dict docof h s HI l f t H) by (intros d Hd; apply H0; exact Hd). fold live.
    rewrite <- sumZ_filter. apply sumZ_ext. intros x _. unfold ind, live_doc, hasZ, live_has.
    destruct (live x); reflexivity.
  - rewrite (inv_count docof h s HI l H) by (intros d Hd; apply H0; exact Hd). fold live.
    rewrite <- sumZ_ones. apply sumZ_ext. intros x Hx. unfold alive. apply H0 in Hx.
    destruct (live x); [reflexivity|congruence].
  - apply (inv_int docof h s HI).
  - apply (inv_nodup docof h s HI).
Qed.

(* the live ids can be listed (so (c) and (d) are not vacuous) *)
Theorem udc_live_ids_exist : forall (docof : Z -> Z -> udoc) (h : list hstep),
  Forall step_ok h -> docs_ok docof h -> hist_small h ->
  exists l, NoDup l /\ (forall d, In d l <-> replay (map fst h) d <> None).
Proof.
  intros docof h Hst Hwf Hsm.
  pose proof (udc_invariant docof h Hst Hwf Hsm) as HI.
  set (live := replay (map fst h)).
  exists (filter (fun d => match live d with Some _ => true | None => false end)
                 (nodup Z.eq_dec (map fst (hist_ids h)))).
  split; [apply NoDup_filter, NoDup_nodup|].
  intro d. rewrite filter_In, nodup_In. split.
  - intros [_ H]. destruct (live d); [discriminate|discriminate].
  - intro H. destruct (live d) as [v|] eqn:E; [|congruence]. split; [|reflexivity].
    change d with (fst (d, Some v)). apply in_map. apply (inv_src docof h _ HI). exact E.
Qed.

(* raw operation lists: collapsing them (what bleve.Batch's maps do) gives admissible steps *)
Lemma collapse_step_ok : forall (raw : list (list (Z * option Z) * list (Z * option Z))),
  Forall step_ok (map (fun st => (collapse (fst st), collapse (snd st))) raw).
Proof.
  intro raw. apply Forall_forall. intros st Hin. rewrite in_map_iff in Hin.
  destruct Hin as [[ops iops] [<- _]]. split; cbn [fst snd]; apply batch_collapse.
Qed.

(* ------------------------------------------------------------------ what the readers return *)

Lemma back_ids_In (m : rows) id :
  In id (flat_map (fun e : row => match fst e with KBack i => [i] | _ => [] end) m) <->
  In (KBack id) (map fst m).
Proof.
  induction m as [|[k v] m IH]; cbn [flat_map map fst In]; [tauto|].
  rewrite in_app_iff, IH. destruct k; cbn; try (intuition discriminate).
  split; [intros [[->|[]]|H]; auto|]. intros [H|H]; [inversion H; auto|auto].
Qed.

Lemma back_ids_NoDup (m : rows) :
  NoDup (map fst m) -> NoDup (flat_map (fun e : row => match fst e with KBack i => [i] | _ => [] end) m).
Proof.
  induction m as [|[k v] m IH]; cbn [flat_map map fst]; intro H; [constructor|].
  inversion H as [|? ? Hn Hd]; subst. destruct k; cbn [app]; try (apply IH; exact Hd).
  constructor; [|apply IH; exact Hd]. rewrite back_ids_In. exact Hn.
Qed.

(* DocIDReaderAll / match-all: each live id exactly once *)
Theorem udc_doc_ids_spec : forall (docof : Z -> Z -> udoc) (h : list hstep),
  Forall step_ok h -> docs_ok docof h -> hist_small h ->
  NoDup (udc_doc_ids (udc_run docof h))
  /\ (forall id, In id (udc_doc_ids (udc_run docof h)) <-> replay (map fst h) id <> None).
Proof.
  intros docof h Hst Hwf Hsm.
  destruct (udc_refines_replay docof h Hst Hwf Hsm) as [Ha [_ [_ [_ [_ Hnd]]]]].
  unfold udc_doc_ids. split; [apply back_ids_NoDup; exact Hnd|].
  intro id. rewrite back_ids_In. specialize (Ha id).
  destruct (replay (map fst h) id) as [v|] eqn:E; cbn in Ha.
  - split; [intros _; discriminate|]. intros _.
    destruct (in_dec rowkey_eq_dec (KBack id) (map fst (u_rows (udc_run docof h)))) as [H|H]; [exact H|].
    apply rget_None in H. congruence.
  - split; [|congruence]. intro H. apply rget_None in Ha. tauto.
Qed.

Lemma stored_val_In d f p x :
  wf_doc d = true -> (stored_val d f p = Some x <-> In (f, p, x) (d_stored d)).
Proof.
  intro Hwf. pose proof (alast_stored 0 d f p Hwf) as Ha. split.
  - intro H. rewrite H in Ha. cbn in Ha. apply alast_Some_In in Ha.
    unfold doc_rows in Ha. rewrite !in_app_iff in Ha. destruct Ha as [Ha|[Ha|[Ha|[]]]].
    + unfold doc_stored_rows in Ha. rewrite in_map_iff in Ha. destruct Ha as [[[f' p'] x'] [He Ha]].
      cbn in He. inversion He; subst. exact Ha.
    + exfalso. assert (Hk := in_map fst _ _ Ha). rewrite doc_term_rows_keys in Hk.
      apply TK_is_term in Hk. cbn in Hk. destruct Hk; discriminate.
    + discriminate.
  - intro H. assert (Hin : In (KStored 0 f p, VStored x) (doc_rows 0 d)).
    { unfold doc_rows. rewrite !in_app_iff. left. unfold doc_stored_rows. rewrite in_map_iff.
      exists (f, p, x). split; [reflexivity|exact H]. }
    rewrite (alast_NoDup _ _ _ (wf_doc_NoDup 0 d Hwf) Hin) in Ha.
    destruct (stored_val d f p); cbn in Ha; congruence.
Qed.

Lemma stored_of_In (m : rows) id f p x :
  In (f, p, x) (flat_map (fun e : row => match e with
                                         | (KStored i f p, VStored v) => if i =? id then [(f, p, v)] else []
                                         | _ => []
                                         end) m) <->
  In (KStored id f p, VStored x) m.
Proof.
  induction m as [|[k v] m IH]; cbn [flat_map In]; [tauto|].
  rewrite in_app_iff, IH.
  destruct k as [i0|f0 t0|kk0|i0 f0 p0|f0 t0 i0]; try (cbn; intuition congruence).
  destruct v; try (cbn; intuition congruence).
  destruct (i0 =? id) eqn:E.
  - apply Z.eqb_eq in E. subst i0. cbn. split.
    + intros [[H|[]]|H]; [inversion H; auto|auto].
    + intros [H|H]; [inversion H; auto|auto].
  - apply Z.eqb_neq in E. cbn. split; [intros [[]|H]; auto|].
    intros [H|H]; [inversion H; congruence|auto].
Qed.

Lemma stored_of_NoDup (m : rows) id :
  NoDup (map fst m) ->
  NoDup (map fst (flat_map (fun e : row => match e with
                                         | (KStored i f p, VStored v) => if i =? id then [(f, p, v)] else []
                                         | _ => []
                                         end) m)).
Proof.
  induction m as [|[k v] m IH]; cbn [flat_map map fst]; intro H; [constructor|].
  inversion H as [|? ? Hn Hd]; subst. specialize (IH Hd).
  destruct k as [i0|f0 t0|kk0|i0 f0 p0|f0 t0 i0]; try exact IH.
  destruct v; try exact IH. destruct (i0 =? id) eqn:E; [|exact IH].
  apply Z.eqb_eq in E. subst i0. cbn. constructor; [|exact IH].
  rewrite in_map_iff. intros [[[f' p'] x] [He Hin]]. cbn in He. inversion He; subst f' p'.
  apply stored_of_In in Hin. apply Hn. change (KStored id f0 p0) with (fst (KStored id f0 p0, VStored x)).
  apply in_map. exact Hin.
Qed.

(* IndexReader.Document: nil for an id that is not live; otherwise exactly the stored entries of
   the latest version, each (field, array positions) once *)
Theorem udc_document_spec : forall (docof : Z -> Z -> udoc) (h : list hstep) id,
  Forall step_ok h -> docs_ok docof h -> hist_small h ->
  match replay (map fst h) id with
  | None => udc_document (udc_run docof h) id = None
  | Some v => exists l, udc_document (udc_run docof h) id = Some l
                        /\ NoDup (map fst l)
                        /\ (forall f p x, In (f, p, x) l <-> In (f, p, x) (d_stored (docof id v)))
  end.
Proof.
  intros docof h id Hst Hwf Hsm.
  destruct (udc_refines_replay docof h Hst Hwf Hsm) as [Ha [_ [Hs [_ [_ Hnd]]]]].
  pose proof (udc_invariant docof h Hst Hwf Hsm) as HI.
  unfold udc_document, back_index_row. rewrite Ha.
  destruct (replay (map fst h) id) as [v|] eqn:E; cbn [option_map]; [|reflexivity].
  rewrite doc_back_val_eq. eexists. split; [reflexivity|]. split; [apply stored_of_NoDup; exact Hnd|].
  intros f p x. rewrite stored_of_In. rewrite <- (rget_In _ _ _ Hnd). rewrite Hs, E.
  assert (Hw : wf_doc (docof id v) = true) by (apply Hwf; apply (inv_src docof h _ HI); exact E).
  rewrite <- (stored_val_In _ _ _ _ Hw). destruct (stored_val (docof id v) f p); cbn; split; intro H; congruence.
Qed.

(* DocCount *)
Theorem udc_doc_count_spec : forall (docof : Z -> Z -> udoc) (h : list hstep) l,
  Forall step_ok h -> docs_ok docof h -> hist_small h ->
  NoDup l -> (forall d, In d l <-> replay (map fst h) d <> None) ->
  udc_doc_count (udc_run docof h) = Z.of_nat (length l).
Proof.
  intros docof h l Hst Hwf Hsm Hl Hiff.
  destruct (udc_refines_replay docof h Hst Hwf Hsm) as [_ [_ [_ [Hc _]]]].
  apply (Hc l Hl Hiff).
Qed.

(* GetInternal *)
Theorem udc_get_internal_spec : forall (docof : Z -> Z -> udoc) (h : list hstep) key,
  Forall step_ok h -> docs_ok docof h -> hist_small h ->
  udc_get_internal (udc_run docof h) key = spec_internal (flat_map snd h) key.
Proof.
  intros docof h key Hst Hwf Hsm.
  destruct (udc_refines_replay docof h Hst Hwf Hsm) as [_ [_ [_ [_ [Hi _]]]]].
  unfold udc_get_internal. rewrite Hi. destruct (spec_internal (flat_map snd h) key); reflexivity.
Qed.

(* ------------------------------------------------------------------ single operations *)

(* Index / Delete / SetInternal / DeleteInternal outside a batch do what a one-operation batch
   does (so the theorems above cover histories that mix both) *)
Theorem udc_single_ops : forall s,
  0 <= u_count s < two64 ->
  (forall id d, udc_update s id d = udc_batch s [(id, Some d)] [])
  /\ (forall id, udc_delete s id = udc_batch s [(id, None)] [])
  /\ (forall k v, udc_set_internal s k v = udc_batch s [] [(k, Some v)])
  /\ (forall k, udc_delete_internal s k = udc_batch s [] [(k, None)]).
Proof.
  intros [m c] Hc. cbn [u_count] in Hc.
  assert (Hm : (c + 0) mod two64 = c) by (rewrite Z.add_0_r; apply Z.mod_small; exact Hc).
  assert (Hm2 : (c - 0) mod two64 = c) by (rewrite Z.sub_0_r; apply Z.mod_small; exact Hc).
  repeat split.
  - intros id d. unfold udc_update, udc_batch. cbn [fold_left u_rows u_count plan_internal flat_map].
    unfold op_plan. cbn [fst snd].
    destruct (merge_old_new id (back_index_row m id) (doc_rows id d)) as [[a u] dl].
    cbn [plan_app p_add p_upd p_del p_added p_deleted app].
    f_equal. destruct (back_index_row m id); cbn [plan_internal p_added p_deleted Z.add].
    + rewrite Hm, Hm2. reflexivity.
    + rewrite Z.sub_0_r, Z.mod_mod by (unfold two64; lia). reflexivity.
  - intro id. unfold udc_delete, udc_batch. cbn [fold_left u_rows u_count plan_internal flat_map].
    unfold op_plan. cbn [fst snd].
    destruct (back_index_row m id) as [[terms stored]|];
      cbn [plan_app p_add p_upd p_del p_added p_deleted app plan_internal Z.add].
    + f_equal. rewrite Hm. reflexivity.
    + rewrite Hm, Hm2. reflexivity.
  - intros k v. unfold udc_set_internal, udc_batch.
    cbn [fold_left u_rows u_count plan_internal flat_map snd fst app p_added p_deleted].
    rewrite Hm, Hm2. reflexivity.
  - intro k. unfold udc_delete_internal, udc_batch.
    cbn [fold_left u_rows u_count plan_internal flat_map snd fst app p_added p_deleted].
    rewrite Hm, Hm2. reflexivity.
Qed.

(* ------------------------------------------------------------------ Examples *)

(* a document universe: version v of id d has field 1 terms {v mod 3 (freq 1), 10 (freq 2)},
   field 2 term d, a scalar stored field and a stored array of (v mod 3) elements *)
Definition ex_docof (d v : Z) : udoc :=
  mkDoc [(1, [(v mod 3, 1); (10, 2)]); (2, [(d, 1)])]
        ((0, [], 100 + v) ::
         match v mod 3 with
         | 0 => []
         | 1 => [(4, [0], 200 + v)]
         | _ => [(4, [0], 200 + v); (4, [1], 300 + v)]
         end).

(* create 1,2 | re-index 1 with a shorter array, delete 2, delete absent 7 | empty batch |
   re-create 2, set and delete internal keys *)
Definition ex_hist : list hstep :=
  [ ([(1, Some 2); (2, Some 1)], [(0, Some 5)]);
    ([(1, Some 3); (2, None); (7, None)], [(1, Some 6)]);
    ([], []);
    ([(2, Some 5)], [(0, None); (1, Some 9)]) ].

Example ex_hyps : Forall step_ok ex_hist /\ docs_ok ex_docof ex_hist /\ hist_small ex_hist.
Proof.
  split; [|split].
  - repeat constructor.
  - intros id v H. cbn in H.
    repeat (destruct H as [H|H]; [inversion H; subst; reflexivity|]). destruct H.
  - reflexivity.
Qed.

(* the theorem's hypotheses hold of ex_hist, and this is the store it speaks about: the shrunken
   array of id 1 left no surplus element, id 2 was re-created, stale dictionary rows count 0 *)
Example ex_store :
  udc_document (udc_run ex_docof ex_hist) 1 = Some [(0, [], 103)]
  /\ udc_document (udc_run ex_docof ex_hist) 2 = Some [(0, [], 105); (4, [0], 205); (4, [1], 305)]
  /\ udc_doc_ids (udc_run ex_docof ex_hist) = [1; 2]
  /\ udc_doc_count (udc_run ex_docof ex_hist) = 2
  /\ dict_count (u_rows (udc_run ex_docof ex_hist)) 1 10 = 2
  /\ dict_count (u_rows (udc_run ex_docof ex_hist)) 1 1 = 0
  /\ rget (u_rows (udc_run ex_docof ex_hist)) (KDict 1 1) = Some (VDict 0)
  /\ udc_get_internal (udc_run ex_docof ex_hist) 0 = None
  /\ udc_get_internal (udc_run ex_docof ex_hist) 1 = Some 9
  /\ map (replay (map fst ex_hist)) [1; 2; 7] = [Some 3; Some 5; None].
Proof. vm_compute. repeat split. Qed.

Example ex_single_ops :
  0 <= u_count (udc_run ex_docof ex_hist) < two64
  /\ udc_delete (udc_update (udc_run ex_docof ex_hist) 3 (ex_docof 3 4)) 1
     = udc_batch (udc_batch (udc_run ex_docof ex_hist) [(3, Some (ex_docof 3 4))] []) [(1, None)] [].
Proof. vm_compute. repeat split; congruence. Qed.
