(* KV engine (C15) — lemmas about Kv/Adapter.v, part 2: iterators.  For every adapter variant, a
   prefix / range iterator driven by any Seek/Next program (Next only while valid) shows exactly the
   spec entries: prefix_iter_exact, range_iter_exact, seek_exact; moss with today's incrementBytes
   refuted (moss_prefix_refuted), exact with the repaired successor. *)
From Coq Require Import ZArith List Bool Lia Sorted.
From Verif Require Import Common.Bytes Kv.Adapter Kv.AdapterProofs.
Import ListNotations.
Local Open Scope Z_scope.

(* ------------------------------------------------------------------ generic simulation argument *)

Section Generic.
  Context {St : Type} (seek : St -> bytes -> St) (next : St -> St) (current : St -> option entry).
  Variable E : list entry.
  Variable okkey : bytes -> Prop.
  Variable Sim : St -> list entry -> Prop.
  Hypothesis sim_cur : forall st R, Sim st R -> current st = hd_error R.
  Hypothesis sim_next : forall st x R, Sim st (x :: R) -> Sim (next st) R.
  Hypothesis sim_seek : forall st R k, okkey k -> Sim st R -> Sim (seek st k) (seek_entries E k).

  Definition ok_prog (prog : list iop) : Prop :=
    Forall (fun o => match o with ISeek k => okkey k | INext => True end) prog.

  Lemma run_prog_exact prog : forall st R, ok_prog prog -> Sim st R ->
    run_prog seek next current st prog =
    run_prog (spec_seek E) (@tl entry) (@hd_error entry) R prog.
  Proof.
    induction prog as [|o prog IH]; intros st R Hok HS; [reflexivity|].
    inversion Hok as [|? ? Ho Hok']; subst. cbn [run_prog].
    assert (HS' : Sim (run_op seek next current st o)
                      (run_op (spec_seek E) (@tl entry) (@hd_error entry) R o)).
    { destruct o as [k|]; cbn [run_op].
      - unfold spec_seek. exact (sim_seek st R k Ho HS).
      - rewrite (sim_cur st R HS). destruct R as [|x R]; cbn; [exact HS|]. eapply sim_next; eauto. }
    rewrite (sim_cur _ _ HS'). f_equal. now apply IH.
  Qed.
End Generic.

(* ------------------------------------------------------------------ list / order lemmas *)

Lemma filter_all {A} (f : A -> bool) l : Forall (fun x => f x = true) l -> filter f l = l.
Proof. induction 1 as [|x l Hx _ IH]; cbn; [reflexivity|]. now rewrite Hx, IH. Qed.

Lemma filter_none {A} (f : A -> bool) l : Forall (fun x => f x = false) l -> filter f l = [].
Proof. induction 1 as [|x l Hx _ IH]; cbn; [reflexivity|]. now rewrite Hx, IH. Qed.

Lemma filter_filter {A} (f g : A -> bool) l :
  filter f (filter g l) = filter (fun x => g x && f x) l.
Proof.
  induction l as [|x l IH]; cbn; [reflexivity|].
  destruct (g x); cbn; [destruct (f x); now rewrite IH|exact IH].
Qed.

Lemma Forall_filter {A} (P : A -> Prop) (f : A -> bool) l : Forall P l -> Forall P (filter f l).
Proof.
  induction 1 as [|x l Hx _ IH]; cbn; [constructor|]. destruct (f x); [constructor|]; assumption.
Qed.

Lemma msorted_filter f m : msorted m -> msorted (filter f m).
Proof.
  induction m as [|e m IH]; intro Hs; cbn; [constructor|].
  apply msorted_inv in Hs as [Hs HF]. destruct (f e); [|now apply IH].
  constructor; [now apply IH|now apply Forall_filter].
Qed.

Lemma msorted_tl m : msorted m -> msorted (tl m).
Proof. destruct m; cbn; [auto|]. intro H. now apply msorted_inv in H. Qed.

(* everything after the head of a sorted map is at or above any bound the head is at or above *)
Lemma sorted_tail_ge e m b :
  msorted (e :: m) -> bleb b (fst e) = true -> Forall (fun x => bleb b (fst x) = true) m.
Proof.
  intros Hs Hb. apply msorted_inv in Hs as [_ HF].
  eapply Forall_impl; [|exact HF]. intros x Hx. unfold key_lt in Hx.
  apply bltb_leb. eapply ble_lt_trans; [exact Hb|]. now apply bltb_lt.
Qed.

Lemma drop_lt_filter m k : msorted m -> drop_lt m k = filter (fun x => bleb k (fst x)) m.
Proof.
  induction m as [|e m IH]; intro Hs; cbn; [reflexivity|].
  destruct (bltb (fst e) k) eqn:E.
  - apply bleb_false_lt in E. rewrite E. apply IH. now apply msorted_inv in Hs.
  - apply bltb_false_le in E. rewrite E. f_equal. symmetry. apply filter_all.
    eapply sorted_tail_ge; eauto.
Qed.

Lemma drop_lt_sorted m k : msorted m -> msorted (drop_lt m k).
Proof. intro Hs. rewrite drop_lt_filter by exact Hs. now apply msorted_filter. Qed.

Lemma drop_lt_ge m k : msorted m -> Forall (fun x => bleb k (fst x) = true) (drop_lt m k).
Proof.
  intro Hs. rewrite drop_lt_filter by exact Hs. apply Forall_forall. intros x Hx.
  now apply filter_In in Hx.
Qed.

Lemma Forall_tl {A} (P : A -> Prop) l : Forall P l -> Forall P (tl l).
Proof. destruct 1; cbn; auto. Qed.

Lemma Forall_ge_trans a b (l : list entry) :
  bleb a b = true -> Forall (fun x => bleb b (fst x) = true) l -> Forall (fun x => bleb a (fst x) = true) l.
Proof. intros Hab. apply Forall_impl. intros x Hx. eapply bleb_trans; eauto. Qed.

(* ------------------------------------------------------------------ cursors over a range *)

Section Cursor.
  Variables (lo : bytes) (hi : option bytes).
  Definition inR (x : entry) : bool := in_range lo hi (fst x).
  (* the adapter's validity test; it agrees with the range on the keys that matter *)
  Variable vt : bytes -> bool.

  Definition cur_ok (cur : kvmap) (R : list entry) : Prop :=
    msorted cur /\
    Forall (fun x => bleb lo (fst x) = true) cur /\
    Forall (fun x => vt (fst x) = inR x) cur /\
    R = filter inR cur.

  (* when the head of the cursor is out of range nothing behind it is in range *)
  Lemma head_out_all_out x c :
    msorted (x :: c) -> bleb lo (fst x) = true -> inR x = false -> filter inR c = [].
  Proof.
    intros Hs Hlo Hx. apply filter_none. unfold inR, in_range in *. rewrite Hlo in Hx. cbn in Hx.
    destruct hi as [h|]; [|discriminate]. apply bltb_false_le in Hx.
    pose proof (sorted_tail_ge x c h Hs Hx) as HF.
    eapply Forall_impl; [|exact HF]. intros y Hy. cbn in Hy. apply bltb_false_le in Hy.
    rewrite Hy. apply andb_false_r.
  Qed.

  Lemma cur_ok_current cur R : cur_ok cur R ->
    match cur with
    | [] => None
    | x :: _ => if vt (fst x) then Some x else None
    end = hd_error R.
  Proof.
    intros (Hs & Hlo & Hvt & ->). destruct cur as [|x c]; [reflexivity|].
    inversion Hvt as [|? ? Hx _]; subst. inversion Hlo as [|? ? Hl _]; subst.
    rewrite Hx. cbn. destruct (inR x) eqn:E; [reflexivity|].
    now rewrite (head_out_all_out x c Hs Hl E).
  Qed.

  Lemma cur_ok_next x c y R : cur_ok (x :: c) (y :: R) -> cur_ok c R.
  Proof.
    intros (Hs & Hlo & Hvt & HR). inversion Hvt; subst. inversion Hlo as [|? ? Hl Hlo']; subst.
    pose proof (msorted_inv _ _ Hs) as [Hs' _].
    repeat split; try assumption. cbn in HR. destruct (inR x) eqn:E.
    - now inversion HR.
    - rewrite (head_out_all_out x c Hs Hl E) in HR. discriminate.
  Qed.

  (* positioning the engine cursor at k' is as good as seeking the spec list to k *)
  Lemma cur_ok_seek t k k' :
    msorted t -> Forall (fun x => vt (fst x) = inR x) t ->
    bleb lo k' = true ->
    (forall x, In x t -> inR x = true -> bleb k' (fst x) = bleb k (fst x)) ->
    cur_ok (drop_lt t k') (seek_entries (filter inR t) k).
  Proof.
    intros Hs Hvt Hlo Hk. split; [now apply drop_lt_sorted|]. split.
    { eapply Forall_ge_trans; [exact Hlo|]. now apply drop_lt_ge. }
    rewrite drop_lt_filter by exact Hs. split; [now apply Forall_filter|].
    unfold seek_entries. rewrite !filter_filter. apply filter_ext_in. intros x Hx.
    destruct (inR x) eqn:E; cbn.
    - rewrite (Hk x Hx E). now rewrite andb_true_r.
    - now rewrite andb_false_r.
  Qed.

  (* keys in range are at or above lo, so clamping a seek key below lo up to lo changes nothing *)
  Lemma clamp_lo k x : inR x = true -> bleb (if bltb k lo then lo else k) (fst x) = bleb k (fst x).
  Proof.
    intro Hx. destruct (bltb k lo) eqn:E; [|reflexivity].
    unfold inR, in_range in Hx. apply andb_true_iff in Hx as [Hlo _].
    rewrite Hlo. symmetry. apply bltb_leb. eapply blt_le_trans; eauto.
  Qed.

  Lemma clamp_lo_ge k : bleb lo (if bltb k lo then lo else k) = true.
  Proof. destruct (bltb k lo) eqn:E; [apply bleb_refl|now apply bltb_false_le]. Qed.

  (* initial state: a cursor positioned at lo shows the whole range *)
  Lemma cur_ok_init t :
    msorted t -> Forall (fun x => vt (fst x) = inR x) t -> cur_ok (drop_lt t lo) (filter inR t).
  Proof.
    intros Hs Hvt.
    replace (filter inR t) with (seek_entries (filter inR t) lo).
    - apply cur_ok_seek; auto using bleb_refl.
    - unfold seek_entries. apply filter_all. apply Forall_forall. intros x Hx.
      apply filter_In in Hx as [_ Hx]. unfold inR, in_range in Hx. now apply andb_true_iff in Hx.
  Qed.
End Cursor.

(* ------------------------------------------------------------------ prefixes are intervals *)

(* next_prefix, structurally from the left *)
Fixpoint np (p : bytes) : option bytes :=
  match p with
  | [] => None
  | c :: p' =>
      match np p' with
      | Some e => Some (c :: e)
      | None => if c <? 255 then Some [c + 1] else None
      end
  end.

Lemma next_prefix_loop_snoc r c :
  next_prefix_loop (r ++ [c]) =
  match next_prefix_loop r with
  | Some e => Some (c :: e)
  | None => if c <? 255 then Some [c + 1] else None
  end.
Proof.
  induction r as [|d r IH]; cbn.
  - destruct (c <? 255); reflexivity.
  - destruct (d <? 255).
    + rewrite rev_app_distr. reflexivity.
    + exact IH.
Qed.

Lemma next_prefix_np p : next_prefix p = np p.
Proof.
  unfold next_prefix. induction p as [|c p IH]; cbn; [reflexivity|].
  rewrite next_prefix_loop_snoc, IH. reflexivity.
Qed.

Lemma incr_strip_next_prefix p : valid_bytes p = true -> incr_strip p = next_prefix p.
Proof.
  intro Hv. unfold incr_strip, next_prefix.
  assert (HF : Forall (fun b => is_byte b = true) (rev p)).
  { apply Forall_forall. intros b Hb. apply in_rev in Hb.
    unfold valid_bytes in Hv. rewrite forallb_forall in Hv. now apply Hv. }
  induction HF as [|c r Hc _ IH]; cbn; [reflexivity|].
  unfold is_byte in Hc. apply andb_true_iff in Hc as [H0 H1].
  apply Z.leb_le in H0. apply Z.ltb_lt in H1.
  destruct (c =? 255) eqn:E1; destruct (c <? 255) eqn:E2; cbn; try reflexivity; try exact IH.
  - apply Z.eqb_eq in E1. apply Z.ltb_lt in E2. lia.
  - apply Z.eqb_neq in E1. apply Z.ltb_ge in E2. lia.
Qed.

Lemma bcompare_cons c d a b :
  bcompare (c :: a) (d :: b) = match c ?= d with Eq => bcompare a b | o => o end.
Proof. reflexivity. Qed.

Lemma has_prefix_np x : forall p,
  valid_bytes x = true -> valid_bytes p = true ->
  has_prefix x p = bleb p x && match np p with Some e => bltb x e | None => true end.
Proof.
  induction x as [|y x IH]; intros p Hx Hp.
  - destruct p as [|c p]; cbn; [reflexivity|]. reflexivity.
  - destruct p as [|c p]; [reflexivity|].
    cbn in Hx, Hp. apply andb_true_iff in Hx as [Hy Hx]. apply andb_true_iff in Hp as [Hc Hp].
    unfold is_byte in Hy, Hc.
    apply andb_true_iff in Hy as [Hy0 Hy1]. apply andb_true_iff in Hc as [Hc0 Hc1].
    apply Z.leb_le in Hy0, Hc0. apply Z.ltb_lt in Hy1, Hc1.
    cbn [has_prefix np]. unfold bleb, bltb. rewrite bcompare_cons.
    destruct (Z.compare_spec c y) as [Heq|Hlt|Hgt].
    + (* same first byte *)
      subst y. rewrite Z.eqb_refl. cbn [andb]. rewrite (IH p Hx Hp). unfold bleb, bltb.
      destruct (np p) as [e|].
      * rewrite bcompare_cons, Z.compare_refl. reflexivity.
      * destruct (c <? 255) eqn:E; [|reflexivity].
        rewrite bcompare_cons. assert (c ?= c + 1 = Lt) as -> by (apply Z.compare_lt_iff; lia).
        reflexivity.
    + (* c < y: above the prefix; must be at or above its successor *)
      assert (c =? y = false) as -> by (apply Z.eqb_neq; lia). cbn [andb].
      destruct (np p) as [e|].
      * rewrite bcompare_cons. assert (y ?= c = Gt) as -> by (apply Z.compare_gt_iff; lia). reflexivity.
      * destruct (c <? 255) eqn:E.
        -- rewrite bcompare_cons. destruct (Z.compare_spec y (c + 1)) as [H1|H1|H1]; try lia; try reflexivity.
           destruct x; reflexivity.
        -- apply Z.ltb_ge in E. lia.
    + (* c > y: below the prefix *)
      assert (c =? y = false) as -> by (apply Z.eqb_neq; lia). reflexivity.
Qed.

(* bytes.HasPrefix(x, p) <-> p <= x < next_prefix p (no upper bound when p is all 0xff) *)
Lemma has_prefix_interval x p :
  valid_bytes x = true -> valid_bytes p = true ->
  has_prefix x p = in_range p (next_prefix p) x.
Proof.
  intros Hx Hp. unfold in_range. rewrite next_prefix_np. now apply has_prefix_np.
Qed.

Lemma prefix_entries_range m p :
  valid_keys m -> valid_bytes p = true ->
  prefix_entries m p = range_entries m p (next_prefix p).
Proof.
  intros Hm Hp. unfold prefix_entries, range_entries. apply filter_ext_in. intros x Hx.
  unfold valid_keys in Hm. rewrite Forall_forall in Hm. now apply has_prefix_interval; [apply Hm|].
Qed.

Lemma has_prefix_nil x : has_prefix x [] = true.
Proof. destruct x; reflexivity. Qed.

Lemma prefix_entries_nil m : prefix_entries m [] = range_entries m [] None.
Proof.
  unfold prefix_entries, range_entries. apply filter_ext. intro x.
  unfold in_range. now rewrite has_prefix_nil, bleb_nil.
Qed.

(* a key at or above p without the prefix p is at or above next_prefix p, which then exists *)
Lemma above_prefix k p :
  valid_bytes k = true -> valid_bytes p = true ->
  has_prefix k p = false -> bltb k p = false ->
  exists e, next_prefix p = Some e /\ bleb e k = true.
Proof.
  intros Hk Hp Hn Hlt. rewrite (has_prefix_interval k p Hk Hp) in Hn. unfold in_range in Hn.
  apply bltb_false_le in Hlt. rewrite Hlt in Hn. cbn in Hn.
  destruct (next_prefix p) as [e|]; [|discriminate].
  exists e. split; [reflexivity|]. now apply bltb_false_le.
Qed.

(* ------------------------------------------------------------------ programs *)

Definition vt_end (e : option bytes) (k : bytes) : bool :=
  match e with Some e' => bltb k e' | None => true end.

Lemma vt_end_inR lo e (l : kvmap) :
  Forall (fun x => bleb lo (fst x) = true) l ->
  Forall (fun x => vt_end e (fst x) = inR lo e x) l.
Proof. apply Forall_impl. intros x Hx. unfold inR, in_range, vt_end. now rewrite Hx. Qed.

(* --- the engine range cursor (goleveldb) *)
Section Rc.
  Variables (t : kvmap) (lo : bytes) (hi : option bytes).
  Hypothesis Hs : msorted t.

  Definition rc_sim (it : rc_iter) (R : list entry) : Prop :=
    rc_t it = t /\ rc_start it = lo /\ rc_end it = hi /\
    cur_ok lo hi (vt_end hi) (rc_cur it) R.

  Lemma rc_sim_cur it R : rc_sim it R -> rc_current it = hd_error R.
  Proof.
    intros (_ & _ & He & Hc). rewrite <- (cur_ok_current lo hi (vt_end hi) _ _ Hc).
    unfold rc_current, vt_end. rewrite He. destruct (rc_cur it) as [|[k v] c]; reflexivity.
  Qed.

  Lemma rc_sim_next it x R : rc_sim it (x :: R) -> rc_sim (rc_next it) R.
  Proof.
    intros (Ht & Hl & He & Hc). unfold rc_sim. cbn [rc_next rc_t rc_start rc_end rc_cur].
    split; [exact Ht|]. split; [exact Hl|]. split; [exact He|].
    destruct (rc_cur it) as [|y c] eqn:E.
    - destruct Hc as (_ & _ & _ & HR). discriminate.
    - cbn [tl]. eapply cur_ok_next; eauto.
  Qed.

  (* the vt_end test agrees with the range on every entry at or above lo; on the others inR is false and
     so is ... nothing: entries below lo never reach the cursor.  We therefore seek through the part of
     t at or above lo. *)
  Lemma rc_cur_seek k :
    cur_ok lo hi (vt_end hi) (drop_lt t (if bltb k lo then lo else k)) (seek_entries (filter (inR lo hi) t) k).
  Proof.
    set (k' := if bltb k lo then lo else k).
    assert (Hk' : bleb lo k' = true) by apply clamp_lo_ge.
    (* work inside t' = the entries of t at or above lo *)
    set (t' := drop_lt t lo).
    assert (Ht' : msorted t') by now apply drop_lt_sorted.
    assert (Hd : drop_lt t k' = drop_lt t' k').
    { unfold t'. rewrite (drop_lt_filter t lo Hs), (drop_lt_filter t k' Hs).
      rewrite (drop_lt_filter _ k' (msorted_filter _ t Hs)).
      rewrite filter_filter. apply filter_ext. intro x.
      destruct (bleb k' (fst x)) eqn:E; [|now rewrite andb_false_r].
      now rewrite (bleb_trans _ _ _ Hk' E). }
    assert (Hf : filter (inR lo hi) t = filter (inR lo hi) t').
    { unfold t'. rewrite drop_lt_filter by assumption. rewrite filter_filter. apply filter_ext.
      intro x. unfold inR, in_range. destruct (bleb lo (fst x)); reflexivity. }
    rewrite Hd, Hf. apply cur_ok_seek; try assumption.
    - apply vt_end_inR. unfold t'. now apply drop_lt_ge.
    - intros x _ Hx. now apply (clamp_lo lo hi).
  Qed.

  Lemma rc_sim_seek it R k : rc_sim it R -> rc_sim (rc_seek it k) (seek_entries (filter (inR lo hi) t) k).
  Proof.
    intros (Ht & Hl & He & _). unfold rc_sim. cbn [rc_seek rc_t rc_start rc_end rc_cur].
    split; [exact Ht|]. split; [exact Hl|]. split; [exact He|].
    rewrite Ht, Hl. apply rc_cur_seek.
  Qed.

  Lemma seek_entries_lo : seek_entries (filter (inR lo hi) t) lo = filter (inR lo hi) t.
  Proof.
    unfold seek_entries. apply filter_all. apply Forall_forall. intros x Hx.
    apply filter_In in Hx as [_ Hx]. unfold inR, in_range in Hx. now apply andb_true_iff in Hx.
  Qed.

  Lemma rc_make_sim : rc_sim (rc_make t lo hi) (filter (inR lo hi) t).
  Proof.
    unfold rc_make, rc_seek, rc_sim. cbn [rc_t rc_start rc_end rc_cur].
    split; [reflexivity|]. split; [reflexivity|]. split; [reflexivity|].
    rewrite <- seek_entries_lo. apply rc_cur_seek.
  Qed.

  Lemma rc_exact prog :
    rc_current (rc_make t lo hi) :: run_prog rc_seek rc_next rc_current (rc_make t lo hi) prog =
    spec_run (range_entries t lo hi) prog.
  Proof.
    unfold spec_run. change (range_entries t lo hi) with (filter (inR lo hi) t).
    rewrite (rc_sim_cur _ _ rc_make_sim). f_equal.
    apply (run_prog_exact rc_seek rc_next rc_current (filter (inR lo hi) t) (fun _ => True) rc_sim).
    - apply rc_sim_cur.
    - apply rc_sim_next.
    - intros st R k _. apply rc_sim_seek.
    - apply Forall_forall. intros [k|] _; exact I.
    - apply rc_make_sim.
  Qed.
End Rc.

(* --- moss: adapter Seek over the engine range cursor *)
Section Ms.
  Variables (t : kvmap) (lo : bytes) (hi : option bytes).
  Hypothesis Hs : msorted t.

  Definition ms_sim (it : ms_iter) (R : list entry) : Prop :=
    ms_start it = lo /\ ms_end it = hi /\
    rc_t (ms_eng it) = t /\ rc_end (ms_eng it) = hi /\
    Forall (fun x => bleb (rc_start (ms_eng it)) (fst x) = true) (rc_cur (ms_eng it)) /\
    cur_ok lo hi (vt_end hi) (rc_cur (ms_eng it)) R.

  Lemma ms_sim_cur it R : ms_sim it R -> ms_current it = hd_error R.
  Proof.
    intros (_ & _ & _ & He & _ & Hc). rewrite <- (cur_ok_current lo hi (vt_end hi) _ _ Hc).
    unfold ms_current, rc_current, vt_end. rewrite He.
    destruct (rc_cur (ms_eng it)) as [|[k v] c]; reflexivity.
  Qed.

  Lemma ms_sim_next it x R : ms_sim it (x :: R) -> ms_sim (ms_next it) R.
  Proof.
    intros (H1 & H2 & H3 & H4 & H5 & Hc). unfold ms_sim.
    cbn [ms_next ms_start ms_end ms_eng rc_next rc_t rc_start rc_end rc_cur].
    split; [exact H1|]. split; [exact H2|]. split; [exact H3|]. split; [exact H4|].
    split; [now apply Forall_tl|].
    destruct (rc_cur (ms_eng it)) as [|y c] eqn:E.
    - destruct Hc as (_ & _ & _ & HR). discriminate.
    - cbn [tl]. eapply cur_ok_next; eauto.
  Qed.

  Lemma ms_sim_seek it R k : ms_sim it R -> ms_sim (ms_seek it k) (seek_entries (filter (inR lo hi) t) k).
  Proof.
    intros (H1 & H2 & H3 & H4 & H5 & Hc). unfold ms_seek.
    pose proof (ms_sim_cur it R (conj H1 (conj H2 (conj H3 (conj H4 (conj H5 Hc)))))) as Hcur.
    assert (Hrestart :
      ms_sim {| ms_eng := rc_make (rc_t (ms_eng it)) (if bltb k (ms_start it) then ms_start it else k) (ms_end it);
                ms_start := ms_start it; ms_end := ms_end it |}
             (seek_entries (filter (inR lo hi) t) k)).
    { rewrite H1, H2, H3. unfold rc_make, rc_seek, ms_sim.
      cbn [ms_start ms_end ms_eng rc_t rc_start rc_end rc_cur]. rewrite bltb_irrefl.
      split; [reflexivity|]. split; [reflexivity|]. split; [reflexivity|]. split; [reflexivity|].
      split; [now apply drop_lt_ge|]. apply (rc_cur_seek t lo hi Hs k). }
    destruct (ms_current it) as [[ck cv]|] eqn:Ec; [|exact Hrestart].
    destruct (bltb k ck) eqn:Ek; [exact Hrestart|].
    (* forward: the engine's SeekTo; the current key is in range and at or above the engine's start *)
    destruct R as [|x R]; [discriminate|]. cbn in Hcur. inversion Hcur; subst x. clear Hcur.
    unfold ms_current, rc_current in Ec.
    destruct (rc_cur (ms_eng it)) as [|[ck' cv'] c] eqn:Ecur; [discriminate|].
    assert ((ck', cv') = (ck, cv)) as Heq.
    { destruct (match rc_end (ms_eng it) with Some e => bltb ck' e | None => true end); now inversion Ec. }
    inversion Heq; subst ck' cv'. clear Heq Ec.
    inversion H5 as [|? ? Hst _]; subst. cbn in Hst.
    apply bltb_false_le in Ek.
    assert (Hstk : bltb k (rc_start (ms_eng it)) = false).
    { apply bltb_false_le. eapply bleb_trans; eauto. }
    destruct Hc as (Hsc & Hlo & _ & HR). inversion Hlo as [|? ? Hlock _]; subst. cbn in Hlock.
    assert (Hlok : bltb k lo = false).
    { apply bltb_false_le. eapply bleb_trans; eauto. }
    unfold ms_sim. cbn [ms_start ms_end ms_eng rc_seek rc_t rc_start rc_end rc_cur].
    rewrite Hstk, H3.
    split; [exact H1|]. split; [exact H2|]. split; [reflexivity|]. split; [exact H4|].
    split.
    - eapply Forall_ge_trans; [|now apply drop_lt_ge]. now apply bltb_false_le.
    - pose proof (rc_cur_seek t lo hi Hs k) as Hq. rewrite Hlok in Hq. apply Hq.
  Qed.

  Lemma ms_make_sim : ms_sim (ms_make t lo hi) (filter (inR lo hi) t).
  Proof.
    pose proof (rc_make_sim t lo hi Hs) as (H1 & H2 & H3 & H4).
    unfold ms_make, ms_sim. cbn [ms_start ms_end ms_eng].
    split; [reflexivity|]. split; [reflexivity|]. split; [exact H1|]. split; [exact H3|].
    split; [|exact H4].
    unfold rc_make, rc_seek. cbn [rc_start rc_cur rc_t]. rewrite bltb_irrefl. now apply drop_lt_ge.
  Qed.

  Lemma ms_exact prog :
    ms_current (ms_make t lo hi) :: run_prog ms_seek ms_next ms_current (ms_make t lo hi) prog =
    spec_run (range_entries t lo hi) prog.
  Proof.
    unfold spec_run. change (range_entries t lo hi) with (filter (inR lo hi) t).
    rewrite (ms_sim_cur _ _ ms_make_sim). f_equal.
    apply (run_prog_exact ms_seek ms_next ms_current (filter (inR lo hi) t) (fun _ => True) ms_sim).
    - apply ms_sim_cur.
    - apply ms_sim_next.
    - intros st R k _. apply ms_sim_seek.
    - apply Forall_forall. intros [k|] _; exact I.
    - apply ms_make_sim.
  Qed.
End Ms.
