(* KV engine (C15) — executable model of the KV store adapters under /repo/index/upsidedown/store
   (definitions only).

   Abstraction level.  The engines themselves (bbolt, goleveldb, gtreap, moss) are NOT modelled:
   each is an ordered map ([kvmap]: association list sorted strictly by key under bytes.Compare)
   with the cursor primitives the adapters call.  What IS transcribed is the adapter code:
     - store API    : EmulatedBatch / EmulatedMerge (upsidedown_store_api batch.go, merge.go),
                      store.MultiGet's intent (multiget.go)
     - boltdb       : writer.go ExecuteBatch, reader.go, iterator.go (Seek clamping, updateValid)
     - gtreap       : writer.go ExecuteBatch, reader.go, iterator.go (Seek clamping with the
                      "next prefix" loop, restart, Current)
     - goleveldb    : writer.go ExecuteBatch (merged value Put appended to the native batch),
                      reader.go (util.BytesPrefix range / explicit range over an engine range cursor)
     - moss         : writer.go ExecuteBatch (native merge ops appended), reader.go PrefixIterator
                      ([start, incrementBytes(start)) over an engine range cursor), incrementBytes,
                      iterator.go Seek (restart through the snapshot on a backward Seek)
     - metrics      : pure delegation to the wrapped store (modelled as the wrapped store)
     - upsidedown   : row_merge.go upsideDownMerge.FullMerge / PartialMerge (+ encoding/binary
                      Uvarint / PutUvarint / LittleEndian.Uint64 which it calls)
   The spec (prefix_entries, range_entries, seek_entries, spec_val) is written independently. *)
From Coq Require Import ZArith List Bool Sorted.
From Verif Require Import Common.Bytes.
Import ListNotations.
Local Open Scope Z_scope.

(* ------------------------------------------------------------------ the ordered map *)

Definition entry := (bytes * bytes)%type.
Definition kvmap := list entry.

Definition key_lt (a b : entry) : Prop := bcompare (fst a) (fst b) = Lt.
(* sorted strictly by key: in particular no duplicate keys *)
Definition msorted (m : kvmap) : Prop := StronglySorted key_lt m.
Definition valid_keys (m : kvmap) : Prop := Forall (fun e => valid_bytes (fst e) = true) m.

Fixpoint m_get (m : kvmap) (k : bytes) : option bytes :=
  match m with
  | [] => None
  | (k', v) :: m' =>
      match bcompare k k' with
      | Eq => Some v
      | Lt => None
      | Gt => m_get m' k
      end
  end.

Fixpoint m_set (m : kvmap) (k v : bytes) : kvmap :=
  match m with
  | [] => [(k, v)]
  | (k', v') :: m' =>
      match bcompare k k' with
      | Eq => (k, v) :: m'
      | Lt => (k, v) :: m
      | Gt => (k', v') :: m_set m' k v
      end
  end.

Fixpoint m_del (m : kvmap) (k : bytes) : kvmap :=
  match m with
  | [] => []
  | (k', v') :: m' =>
      match bcompare k k' with
      | Eq => m'
      | Lt => m
      | Gt => (k', v') :: m_del m' k
      end
  end.

(* bytes.HasPrefix(k, p) *)
Fixpoint has_prefix (k p : bytes) : bool :=
  match p with
  | [] => true
  | x :: p' =>
      match k with
      | [] => false
      | y :: k' => (x =? y) && has_prefix k' p'
      end
  end.

(* a nil []byte behaves as the empty string in bytes.Compare / bytes.HasPrefix *)
Definition ob (o : option bytes) : bytes := match o with Some b => b | None => [] end.

(* ------------------------------------------------------------------ merge operators *)

(* store.MergeOperator: FullMerge(key, existing (nil = absent), operands) -> (value, ok);
   PartialMerge(key, left, right) -> (value, ok).  [None] = not ok. *)
Record merge_op := {
  mo_full : bytes -> option bytes -> list bytes -> option bytes;
  mo_partial : bytes -> bytes -> bytes -> option bytes
}.

(* the harness' own operators (defined identically in harness/cmd/c15/main.go):
   "cat": FullMerge appends the operands to the existing value; PartialMerge concatenates.
   "catnp": same FullMerge; PartialMerge always refuses (nil,false). *)
Definition cat_full (_ : bytes) (ex : option bytes) (ops : list bytes) : option bytes :=
  Some (ob ex ++ concat ops).
Definition mo_cat : merge_op :=
  {| mo_full := cat_full; mo_partial := fun _ l r => Some (l ++ r) |}.
Definition mo_catnp : merge_op :=
  {| mo_full := cat_full; mo_partial := fun _ _ _ => None |}.

(* --- upsidedown's dictionary operator (index/upsidedown/row_merge.go) *)

Definition two64 : Z := 18446744073709551616.
Definition two63 : Z := 9223372036854775808.

(* binary.LittleEndian.Uint64(b): needs len b >= 8 (Go panics otherwise: None) *)
Definition le_u64 (b : bytes) : option Z :=
  match b with
  | b0 :: b1 :: b2 :: b3 :: b4 :: b5 :: b6 :: b7 :: _ =>
      Some (b0 + 256 * (b1 + 256 * (b2 + 256 * (b3 + 256 * (b4 + 256 * (b5 + 256 * (b6 + 256 * b7)))))))
  | _ => None
  end.
(* int64(u) *)
Definition to_i64 (u : Z) : Z := if u <? two63 then u else u - two64.
(* binary.LittleEndian.PutUint64 into a fresh 8-byte slice *)
Definition put_le_u64 (u : Z) : bytes :=
  [u mod 256; (u / 256) mod 256; (u / 65536) mod 256; (u / 16777216) mod 256;
   (u / 4294967296) mod 256; (u / 1099511627776) mod 256; (u / 281474976710656) mod 256;
   (u / 72057594037927936) mod 256].

(* binary.Uvarint(buf) -> (value, nread); nread = 0: buffer too small, < 0: overflow.
   Loop variables i (index), x (accumulator), s (shift). *)
Fixpoint uvarint_go (buf : bytes) (i x s : Z) : Z * Z :=
  match buf with
  | [] => (0, 0)
  | b :: buf' =>
      if i =? 10 then (0, - (i + 1))
      else if b <? 128 then
        if (i =? 9) && (1 <? b) then (0, - (i + 1))
        else (Z.lor x ((Z.shiftl b s) mod two64), i + 1)
      else uvarint_go buf' (i + 1) (Z.lor x ((Z.shiftl (Z.land b 127) s) mod two64)) (s + 7)
  end.
Definition uvarint (buf : bytes) : Z * Z := uvarint_go buf 0 0 0.

(* binary.PutUvarint; a uint64 needs at most 10 bytes (fuel) *)
Fixpoint put_uvarint_go (fuel : nat) (x : Z) : option bytes :=
  match fuel with
  | O => None
  | S f =>
      if 128 <=? x then option_map (cons (Z.lor (x mod 256) 128)) (put_uvarint_go f (Z.shiftr x 7))
      else Some [x]
  end.
Definition put_uvarint (x : Z) : option bytes := put_uvarint_go 10 x.

(* one operand of FullMerge: next := int64(LE(operand)); saturating subtract / wrapping add *)
Definition udc_step (count next : Z) : Z :=
  if (next <? 0) && (count <? - next) then 0
  else if next <? 0 then count - (- next)
  else (count + next) mod two64.

Fixpoint udc_fold (count : Z) (operands : list bytes) : option Z :=
  match operands with
  | [] => Some count
  | o :: rest =>
      match le_u64 o with
      | None => None                       (* Go: slice bounds panic *)
      | Some u => udc_fold (udc_step count (to_i64 u)) rest
      end
  end.

(* upsideDownMerge.FullMerge: NewDictionaryRowK(key) reads key[1:3] (len key < 3 panics: None);
   a non-empty existing value is parsed with Uvarint (nread <= 0: failure); result dr.Value() *)
Definition udc_full (key : bytes) (existing : option bytes) (operands : list bytes) : option bytes :=
  if Z.of_nat (length key) <? 3 then None
  else
    let start :=
      match existing with
      | Some (b :: e) => let '(c, n) := uvarint (b :: e) in if n <=? 0 then None else Some c
      | _ => Some 0
      end in
    match start with
    | None => None
    | Some c =>
        match udc_fold c operands with
        | None => None
        | Some c' => put_uvarint c'
        end
    end.

(* upsideDownMerge.PartialMerge: int64 addition (wraps), re-encoded little-endian *)
Definition udc_partial (_ : bytes) (l r : bytes) : option bytes :=
  match le_u64 l, le_u64 r with
  | Some a, Some b => Some (put_le_u64 ((a + b) mod two64))
  | _, _ => None
  end.

Definition mo_udc : merge_op := {| mo_full := udc_full; mo_partial := udc_partial |}.

(* ------------------------------------------------------------------ batches *)

Inductive bop :=
| BSet (k v : bytes)
| BDel (k : bytes)
| BMerge (k v : bytes).

(* EmulatedMerge.Merge, operand list of one key: try PartialMerge(last, val); ok: replace the last
   operand, else append *)
Fixpoint em_push (mo : merge_op) (k : bytes) (ops : list bytes) (v : bytes) : list bytes :=
  match ops with
  | [] => [v]
  | o :: ops' =>
      match ops' with
      | [] => match mo_partial mo k o v with Some mv => [mv] | None => [o; v] end
      | _ :: _ => o :: em_push mo k ops' v
      end
  end.

(* EmulatedMerge.Merges : map[string][][]byte — as an association list in first-use order (Go's
   map iteration order is arbitrary; the keys are distinct, see em_add_keys_nodup) *)
Definition merges := list (bytes * list bytes).
Fixpoint em_add (mo : merge_op) (ms : merges) (k v : bytes) : merges :=
  match ms with
  | [] => [(k, [v])]
  | (k', ops) :: ms' =>
      if beqb k k' then (k', em_push mo k ops v) :: ms'
      else (k', ops) :: em_add mo ms' k v
  end.

(* EmulatedBatch: Ops (ordered; V = nil means delete) and Merger; goleveldb's and moss' Batch keep
   the same two parts (native batch in call order + EmulatedMerge) *)
Definition sdop := (bytes * option bytes)%type.
Fixpoint batch_split (mo : merge_op) (ops : list bop) (acc_o : list sdop) (acc_m : merges)
  : list sdop * merges :=
  match ops with
  | [] => (rev acc_o, acc_m)
  | BSet k v :: r => batch_split mo r ((k, Some v) :: acc_o) acc_m
  | BDel k :: r => batch_split mo r ((k, None) :: acc_o) acc_m
  | BMerge k v :: r => batch_split mo r acc_o (em_add mo acc_m k v)
  end.

Definition apply_sd (m : kvmap) (o : sdop) : kvmap :=
  match snd o with
  | Some v => m_set m (fst o) v
  | None => m_del m (fst o)
  end.
Definition apply_ops (m : kvmap) (os : list sdop) : kvmap := fold_left apply_sd os m.

(* the merges loop of boltdb/gtreap ExecuteBatch: existing value read from the transaction /
   treap being built, FullMerge, Put *)
Fixpoint apply_merges (mo : merge_op) (ms : merges) (m : kvmap) : option kvmap :=
  match ms with
  | [] => Some m
  | (k, operands) :: ms' =>
      match mo_full mo k (m_get m k) operands with
      | None => None                       (* "merge operator returned failure" *)
      | Some mv => apply_merges mo ms' (m_set m k mv)
      end
  end.

(* the merges loop of goleveldb ExecuteBatch: existing value read from the db (pre-batch state),
   merged value appended to the native batch as a Put *)
Fixpoint merged_puts (mo : merge_op) (ms : merges) (m : kvmap) : option (list sdop) :=
  match ms with
  | [] => Some []
  | (k, operands) :: ms' =>
      match mo_full mo k (m_get m k) operands with
      | None => None
      | Some mv => option_map (cons (k, Some mv)) (merged_puts mo ms' m)
      end
  end.

(* moss ExecuteBatch: every operand appended to the native batch as a merge op; an engine that
   applies its batch in order resolves them as FullMerge over the value the earlier ops left.
   (moss itself requires the keys of one batch to be unique, see AdapterCorr.) *)
Definition native_merges := apply_merges.

(* what happens to a key that is both merged and set/deleted in one batch *)
Inductive policy :=
| MergeFirst     (* boltdb, gtreap: merges (over the pre-batch value) first, then the ops *)
| MergeLast      (* goleveldb: ops, then the value merged over the PRE-batch value is Put *)
| MergeNative.   (* moss: ops, then native merge operands over the value the ops left *)

(* ExecuteBatch.  None = the merge operator failed (error returned; not modelled further). *)
Definition exec_batch (pol : policy) (mo : merge_op) (m : kvmap) (ops : list bop) : option kvmap :=
  let '(os, ms) := batch_split mo ops [] [] in
  match pol with
  | MergeFirst =>
      match apply_merges mo ms m with
      | Some m1 => Some (apply_ops m1 os)
      | None => None
      end
  | MergeLast =>
      match merged_puts mo ms m with
      | Some puts => Some (apply_ops m (os ++ puts))
      | None => None
      end
  | MergeNative => native_merges mo ms (apply_ops m os)
  end.

Fixpoint exec_batches (pol : policy) (mo : merge_op) (m : kvmap) (bs : list (list bop)) : option kvmap :=
  match bs with
  | [] => Some m
  | b :: bs' =>
      match exec_batch pol mo m b with
      | Some m' => exec_batches pol mo m' bs'
      | None => None
      end
  end.

(* --- SPEC of one batch, per key, independent of the code above.
   operands of k: the Merge calls on k in order, neighbours combined by PartialMerge when it
   accepts; last set/delete on k; the three policies. *)
Definition k_operands (mo : merge_op) (ops : list bop) (k : bytes) : list bytes :=
  fold_left (fun acc o => match o with
                          | BMerge k' v => if beqb k' k then em_push mo k acc v else acc
                          | _ => acc
                          end) ops [].
Definition k_last_sd (ops : list bop) (k : bytes) : option (option bytes) :=
  fold_left (fun acc o => match o with
                          | BSet k' v => if beqb k' k then Some (Some v) else acc
                          | BDel k' => if beqb k' k then Some None else acc
                          | BMerge _ _ => acc
                          end) ops None.

Definition spec_val (pol : policy) (mo : merge_op) (pre : option bytes) (ops : list bop) (k : bytes)
  : option bytes :=
  let operands := k_operands mo ops k in
  let sd := k_last_sd ops k in
  let merged (base : option bytes) :=
    match operands with [] => base | _ :: _ => mo_full mo k base operands end in
  let after_sd := match sd with Some r => r | None => pre end in
  match pol with
  | MergeFirst => match sd with Some r => r | None => merged pre end
  | MergeLast => match operands with [] => after_sd | _ :: _ => merged pre end
  | MergeNative => merged after_sd
  end.

(* the abstract map as a function, batches applied in sequence *)
Definition spec_batches (pol : policy) (mo : merge_op) (f : bytes -> option bytes)
  (bs : list (list bop)) : bytes -> option bytes :=
  fold_left (fun f b k => spec_val pol mo (f k) b k) bs f.

(* ------------------------------------------------------------------ readers *)

(* Reader.Get; store.MultiGet (its intent: one Get per key, in order) *)
Definition multi_get (m : kvmap) (ks : list bytes) : list (option bytes) := map (m_get m) ks.

(* the store with its open readers: a reader is the map at the time it was opened *)
Record sstate := { st_map : kvmap; st_readers : list (Z * kvmap) }.
Inductive sop :=
| OpBatch (ops : list bop)
| OpOpen (rid : Z)
| OpClose (rid : Z)
(* configurations with a persisting lower level (moss over a registry store / mossStore, lower.go):
   OpSync = the engine's background persister has handed everything written so far down to the
   lower-level store (llStore.update, in chunks of mossLowerLevelMaxBatchSize) and dropped its
   in-memory segments; OpReopen = the store is closed and opened again over the same lower-level
   store.  Neither is an operation of the map: the contents stay, a reopen leaves no reader. *)
| OpSync
| OpReopen.

Fixpoint reader_lookup (rs : list (Z * kvmap)) (rid : Z) : option kvmap :=
  match rs with
  | [] => None
  | (r, m) :: rs' => if r =? rid then Some m else reader_lookup rs' rid
  end.
Fixpoint reader_remove (rs : list (Z * kvmap)) (rid : Z) : list (Z * kvmap) :=
  match rs with
  | [] => []
  | (r, m) :: rs' => if r =? rid then reader_remove rs' rid else (r, m) :: reader_remove rs' rid
  end.
Definition reader_view (st : sstate) (rid : Z) : option kvmap := reader_lookup (st_readers st) rid.

Definition store_step (pol : policy) (mo : merge_op) (st : sstate) (o : sop) : option sstate :=
  match o with
  | OpBatch ops =>
      match exec_batch pol mo (st_map st) ops with
      | Some m' => Some {| st_map := m'; st_readers := st_readers st |}
      | None => None
      end
  | OpOpen rid => Some {| st_map := st_map st; st_readers := (rid, st_map st) :: st_readers st |}
  | OpClose rid => Some {| st_map := st_map st; st_readers := reader_remove (st_readers st) rid |}
  | OpSync => Some st
  | OpReopen => Some {| st_map := st_map st; st_readers := [] |}
  end.

(* the batches of an operation sequence, in order *)
Fixpoint batches_of (os : list sop) : list (list bop) :=
  match os with
  | [] => []
  | OpBatch ops :: os' => ops :: batches_of os'
  | _ :: os' => batches_of os'
  end.

Fixpoint store_run (pol : policy) (mo : merge_op) (st : sstate) (os : list sop) : option sstate :=
  match os with
  | [] => Some st
  | o :: os' =>
      match store_step pol mo st o with
      | Some st' => store_run pol mo st' os'
      | None => None
      end
  end.

(* ------------------------------------------------------------------ iterators *)

(* engine cursor primitive shared by all four engines: position on the first entry >= k
   (bolt Cursor.Seek, gtreap VisitAscend(pivot), leveldb/moss iterator seek) *)
Fixpoint drop_lt (m : kvmap) (k : bytes) : kvmap :=
  match m with
  | [] => []
  | e :: m' => if bltb (fst e) k then drop_lt m' k else m
  end.

(* --- prefix successor functions, scanning from the last byte as the Go loops do
   ([r] = the not yet visited part of the input, reversed). *)

(* gtreap iterator.go Seek / goleveldb util.BytesPrefix:
     for i := len(p)-1; i >= 0; i-- { c := p[i]; if c < 0xff { end = p[:i+1]; end[i] = c+1; break } }
   None = the result stays nil *)
Fixpoint next_prefix_loop (r : bytes) : option bytes :=
  match r with
  | [] => None
  | c :: r' => if c <? 255 then Some (rev r' ++ [c + 1]) else next_prefix_loop r'
  end.
Definition next_prefix (p : bytes) : option bytes := next_prefix_loop (rev p).

(* moss reader.go incrementBytes AS IT IS TODAY:
     rv := copy(in); for i := len(rv)-1; i >= 0; i-- { rv[i] = rv[i] + 1; if rv[i] != 0 { return rv } }; return nil
   [done] = the already incremented (wrapped to 0) tail *)
Fixpoint incr_carry_loop (r : bytes) (done : bytes) : option bytes :=
  match r with
  | [] => None
  | c :: r' =>
      let c' := (c + 1) mod 256 in
      if c' =? 0 then incr_carry_loop r' (c' :: done) else Some (rev r' ++ c' :: done)
  end.
Definition incr_carry (p : bytes) : option bytes := incr_carry_loop (rev p) [].

(* the repaired incrementBytes (notes/trial-fixes.diff):
     for i := len(in)-1; i >= 0; i-- { if in[i] != 0xff { rv := in[:i+1]; rv[i]++; return rv } }; return nil *)
Fixpoint incr_strip_loop (r : bytes) : option bytes :=
  match r with
  | [] => None
  | c :: r' => if negb (c =? 255) then Some (rev r' ++ [c + 1]) else incr_strip_loop r'
  end.
Definition incr_strip (p : bytes) : option bytes := incr_strip_loop (rev p).

Inductive iop := ISeek (k : bytes) | INext.

(* --- gtreap iterator.go *)
Record gt_iter := {
  gt_t : kvmap;                (* the treap snapshot *)
  gt_cur : kvmap;              (* curr = head (currOk = non-empty); the rest is still in nextCh *)
  gt_prefix : option bytes;
  gt_start : option bytes;
  gt_end : option bytes
}.
(* restart(&Item{k}) followed by its Next(): VisitAscend from the pivot *)
Definition gt_restart (it : gt_iter) (k : bytes) : gt_iter :=
  {| gt_t := gt_t it; gt_cur := drop_lt (gt_t it) k;
     gt_prefix := gt_prefix it; gt_start := gt_start it; gt_end := gt_end it |}.
Definition gt_seek (it : gt_iter) (k : bytes) : gt_iter :=
  let k1 := match gt_start it with
            | Some s => if bltb k s then s else k
            | None => k
            end in
  let k2 := match gt_prefix it with
            | Some p =>
                if negb (has_prefix k1 p) then
                  if bltb k1 p then p else ob (next_prefix p)
                else k1
            | None => k1
            end in
  gt_restart it k2.
Definition gt_next (it : gt_iter) : gt_iter :=
  {| gt_t := gt_t it; gt_cur := tl (gt_cur it);
     gt_prefix := gt_prefix it; gt_start := gt_start it; gt_end := gt_end it |}.
Definition gt_current (it : gt_iter) : option entry :=
  match gt_cur it with
  | [] => None
  | (k, v) :: _ =>
      if match gt_prefix it with Some p => negb (has_prefix k p) | None => false end then None
      else if match gt_end it with Some e => negb (bltb k e) | None => false end then None
      else Some (k, v)
  end.
Definition gt_prefix_iterator (t : kvmap) (p : option bytes) : gt_iter :=
  gt_restart {| gt_t := t; gt_cur := []; gt_prefix := p; gt_start := None; gt_end := None |} (ob p).
Definition gt_range_iterator (t : kvmap) (s e : option bytes) : gt_iter :=
  gt_restart {| gt_t := t; gt_cur := []; gt_prefix := None; gt_start := s; gt_end := e |} (ob s).

(* --- boltdb iterator.go *)
Record bo_iter := {
  bo_t : kvmap;
  bo_cursor : kvmap;           (* bolt cursor: head = element under the cursor *)
  bo_kv : option entry;        (* i.key, i.val (key = nil: None) *)
  bo_valid : bool;
  bo_prefix : option bytes;
  bo_start : option bytes;
  bo_end : option bytes
}.
Definition bo_update_valid (it : bo_iter) (cursor : kvmap) : bo_iter :=
  let kv := hd_error cursor in
  let valid :=
    match kv with
    | None => false
    | Some (k, _) =>
        match bo_prefix it with
        | Some p => has_prefix k p
        | None => match bo_end it with Some e => bltb k e | None => true end
        end
    end in
  {| bo_t := bo_t it; bo_cursor := cursor; bo_kv := kv; bo_valid := valid;
     bo_prefix := bo_prefix it; bo_start := bo_start it; bo_end := bo_end it |}.
Definition bo_seek (it : bo_iter) (k : bytes) : bo_iter :=
  let k1 := match bo_start it with
            | Some s => if bltb k s then s else k
            | None => k
            end in
  match bo_prefix it with
  | Some p =>
      if negb (has_prefix k1 p) then
        if bltb k1 p then bo_update_valid it (drop_lt (bo_t it) p)
        else (* i.valid = false; return — cursor, key and val are left as they were *)
          {| bo_t := bo_t it; bo_cursor := bo_cursor it; bo_kv := bo_kv it; bo_valid := false;
             bo_prefix := bo_prefix it; bo_start := bo_start it; bo_end := bo_end it |}
      else bo_update_valid it (drop_lt (bo_t it) k1)
  | None => bo_update_valid it (drop_lt (bo_t it) k1)
  end.
Definition bo_next (it : bo_iter) : bo_iter := bo_update_valid it (tl (bo_cursor it)).
(* Current() = (key, val, valid); projected: the pair only when valid *)
Definition bo_current (it : bo_iter) : option entry := if bo_valid it then bo_kv it else None.
Definition bo_prefix_iterator (t : kvmap) (p : option bytes) : bo_iter :=
  bo_seek {| bo_t := t; bo_cursor := t; bo_kv := None; bo_valid := false;
             bo_prefix := p; bo_start := None; bo_end := None |} (ob p).
Definition bo_range_iterator (t : kvmap) (s e : option bytes) : bo_iter :=
  bo_seek {| bo_t := t; bo_cursor := t; bo_kv := None; bo_valid := false;
             bo_prefix := None; bo_start := s; bo_end := e |} (ob s).

(* --- engine range cursor [start, end) used by the goleveldb and moss adapters (goleveldb's Iterator
   only forwards Seek/Next/Key/Value/Valid to it): Seek clamps to start, valid while the key is below
   end (None = no limit). *)
Record rc_iter := {
  rc_t : kvmap;
  rc_cur : kvmap;
  rc_start : bytes;
  rc_end : option bytes
}.
Definition rc_seek (it : rc_iter) (k : bytes) : rc_iter :=
  let k1 := if bltb k (rc_start it) then rc_start it else k in
  {| rc_t := rc_t it; rc_cur := drop_lt (rc_t it) k1; rc_start := rc_start it; rc_end := rc_end it |}.
Definition rc_next (it : rc_iter) : rc_iter :=
  {| rc_t := rc_t it; rc_cur := tl (rc_cur it); rc_start := rc_start it; rc_end := rc_end it |}.
Definition rc_current (it : rc_iter) : option entry :=
  match rc_cur it with
  | [] => None
  | (k, v) :: _ => if match rc_end it with Some e => bltb k e | None => true end then Some (k, v) else None
  end.
Definition rc_make (t : kvmap) (s : bytes) (e : option bytes) : rc_iter :=
  rc_seek {| rc_t := t; rc_cur := t; rc_start := s; rc_end := e |} s.

(* goleveldb reader.go: PrefixIterator = NewIterator(util.BytesPrefix(prefix)) + First();
   RangeIterator = NewIterator(&util.Range{Start, Limit}) + First() *)
Definition ldb_prefix_iterator (t : kvmap) (p : option bytes) : rc_iter :=
  rc_make t (ob p) (next_prefix (ob p)).
Definition ldb_range_iterator (t : kvmap) (s e : option bytes) : rc_iter := rc_make t (ob s) e.

(* --- moss iterator.go (as of /repo 470bc61) over the engine range cursor.
   reader.go: PrefixIterator = StartIterator(k, incrementBytes(k)), RangeIterator = StartIterator(start, end),
   both remembering start/end in the adapter's Iterator.  The successor function is a parameter:
   [incr_carry] (today's incrementBytes) or [incr_strip] (repaired), selected by a T1 fact.
   Seek: when the iterator is exhausted (x.err != nil) or the target is before the current key, a NEW
   engine iterator is started at max(target, x.start) with x.end; otherwise the engine's SeekTo. *)
Record ms_iter := {
  ms_eng : rc_iter;            (* x.iter over x.ss *)
  ms_start : bytes;            (* x.start *)
  ms_end : option bytes        (* x.end *)
}.
Definition ms_current (it : ms_iter) : option entry := rc_current (ms_eng it).
Definition ms_next (it : ms_iter) : ms_iter :=
  {| ms_eng := rc_next (ms_eng it); ms_start := ms_start it; ms_end := ms_end it |}.
Definition ms_seek (it : ms_iter) (k : bytes) : ms_iter :=
  let restart := match ms_current it with
                 | None => true                   (* x.err != nil *)
                 | Some (ck, _) => bltb k ck      (* bytes.Compare(seekToKey, x.k) < 0 *)
                 end in
  if restart then
    let s := if bltb k (ms_start it) then ms_start it else k in
    {| ms_eng := rc_make (rc_t (ms_eng it)) s (ms_end it); ms_start := ms_start it; ms_end := ms_end it |}
  else
    {| ms_eng := rc_seek (ms_eng it) k; ms_start := ms_start it; ms_end := ms_end it |}.
Definition ms_make (t : kvmap) (s : bytes) (e : option bytes) : ms_iter :=
  {| ms_eng := rc_make t s e; ms_start := s; ms_end := e |}.
Definition moss_prefix_iterator (succ : bytes -> option bytes) (t : kvmap) (p : option bytes) : ms_iter :=
  ms_make t (ob p) (succ (ob p)).
Definition moss_range_iterator (t : kvmap) (s e : option bytes) : ms_iter := ms_make t (ob s) e.

(* --- one interface over the variants *)
Inductive variant :=
| VGtreap
| VBolt
| VLdb
| VMoss (succ : bytes -> option bytes).

Inductive iter := IGt (i : gt_iter) | IBo (i : bo_iter) | IRc (i : rc_iter) | IMs (i : ms_iter).

Definition it_seek (it : iter) (k : bytes) : iter :=
  match it with
  | IGt i => IGt (gt_seek i k) | IBo i => IBo (bo_seek i k) | IRc i => IRc (rc_seek i k) | IMs i => IMs (ms_seek i k)
  end.
Definition it_next (it : iter) : iter :=
  match it with
  | IGt i => IGt (gt_next i) | IBo i => IBo (bo_next i) | IRc i => IRc (rc_next i) | IMs i => IMs (ms_next i)
  end.
Definition it_current (it : iter) : option entry :=
  match it with
  | IGt i => gt_current i | IBo i => bo_current i | IRc i => rc_current i | IMs i => ms_current i
  end.

Definition prefix_iterator (v : variant) (t : kvmap) (p : option bytes) : iter :=
  match v with
  | VGtreap => IGt (gt_prefix_iterator t p)
  | VBolt => IBo (bo_prefix_iterator t p)
  | VLdb => IRc (ldb_prefix_iterator t p)
  | VMoss succ => IMs (moss_prefix_iterator succ t p)
  end.
Definition range_iterator (v : variant) (t : kvmap) (s e : option bytes) : iter :=
  match v with
  | VGtreap => IGt (gt_range_iterator t s e)
  | VBolt => IBo (bo_range_iterator t s e)
  | VLdb => IRc (ldb_range_iterator t s e)
  | VMoss _ => IMs (moss_range_iterator t s e)
  end.

(* Driving an iterator with a program under the usual discipline `for it.Valid() { ..; it.Next() }`:
   Next is issued only while the iterator is valid (an INext on an invalid iterator is skipped).
   Result: Current() after each operation. *)
Section Run.
  Context {St : Type} (seek : St -> bytes -> St) (next : St -> St) (current : St -> option entry).
  Definition run_op (st : St) (o : iop) : St :=
    match o with
    | ISeek k => seek st k
    | INext => match current st with Some _ => next st | None => st end
    end.
  Fixpoint run_prog (st : St) (prog : list iop) : list (option entry) :=
    match prog with
    | [] => []
    | o :: prog' => let st' := run_op st o in current st' :: run_prog st' prog'
    end.
  (* without the discipline: Next always forwarded *)
  Definition run_op_unguarded (st : St) (o : iop) : St :=
    match o with ISeek k => seek st k | INext => next st end.
  Fixpoint run_prog_unguarded (st : St) (prog : list iop) : list (option entry) :=
    match prog with
    | [] => []
    | o :: prog' => let st' := run_op_unguarded st o in current st' :: run_prog_unguarded st' prog'
    end.
End Run.

(* observation list: Current() right after construction, then after every operation *)
Definition iter_run (it : iter) (prog : list iop) : list (option entry) :=
  it_current it :: run_prog it_seek it_next it_current it prog.

(* ------------------------------------------------------------------ SPEC of iteration *)

Definition in_range (s : bytes) (e : option bytes) (k : bytes) : bool :=
  bleb s k && match e with Some e' => bltb k e' | None => true end.

(* entries of m whose key has prefix p / lies in [s, e) (None = unbounded), in m's (byte) order *)
Definition prefix_entries (m : kvmap) (p : bytes) : list entry :=
  filter (fun x => has_prefix (fst x) p) m.
Definition range_entries (m : kvmap) (s : bytes) (e : option bytes) : list entry :=
  filter (fun x => in_range s e (fst x)) m.
(* Seek k: drop the entries below k *)
Definition seek_entries (l : list entry) (k : bytes) : list entry :=
  filter (fun x => bleb k (fst x)) l.

(* the spec iterator over an entry list E: the state is what is left to visit *)
Definition spec_seek (E : list entry) (_ : list entry) (k : bytes) : list entry := seek_entries E k.
Definition spec_run (E : list entry) (prog : list iop) : list (option entry) :=
  hd_error E :: run_prog (spec_seek E) (@tl entry) (@hd_error entry) E prog.

(* ------------------------------------------------------------------ hypotheses of the theorems *)

(* byte strings really are byte strings (every element 0..255) *)
Definition valid_prog (prog : list iop) : Prop :=
  Forall (fun o => match o with ISeek k => valid_bytes k = true | INext => True end) prog.
Definition valid_opt (o : option bytes) : Prop := valid_bytes (ob o) = true.

(* the moss variant is exact when its successor function is a correct prefix successor *)
Definition variant_repaired (v : variant) : Prop :=
  match v with
  | VMoss succ => forall p, valid_bytes p = true -> succ p = next_prefix p
  | _ => True
  end.

(* SPEC of upsidedown's counter merge: one operand adds a signed delta, never below zero, modulo 2^64;
   an operand is the little-endian two's complement encoding of the delta *)
Definition counter_add (c d : Z) : Z := (Z.max 0 (c + d)) mod two64.
Definition i64_bytes (d : Z) : bytes := put_le_u64 (d mod two64).

