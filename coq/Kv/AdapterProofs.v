(* KV engine (C15) — lemmas about Kv/Adapter.v, part 1: byte order toolkit, the ordered map,
   batches (batch_atomic_refines), reader isolation, the upsidedown merge operator. *)
From Coq Require Import ZArith List Bool Lia Sorted.
From Verif Require Import Common.Bytes Kv.Adapter.
Import ListNotations.
Local Open Scope Z_scope.

(* ------------------------------------------------------------------ byte order toolkit *)

Lemma bcompare_gt_lt a b : bcompare a b = Gt <-> bcompare b a = Lt.
Proof.
  rewrite (bcompare_antisym b a). destruct (bcompare b a); cbn; split; congruence.
Qed.

Lemma bltb_lt a b : bltb a b = true <-> bcompare a b = Lt.
Proof. unfold bltb. destruct (bcompare a b); split; congruence. Qed.

Lemma bleb_le a b : bleb a b = true <-> bcompare a b <> Gt.
Proof. unfold bleb. destruct (bcompare a b); split; congruence. Qed.

Lemma bltb_false_le a b : bltb a b = false <-> bleb b a = true.
Proof.
  unfold bltb, bleb. rewrite (bcompare_antisym a b). destruct (bcompare a b); cbn; split; congruence.
Qed.

Lemma bleb_false_lt a b : bleb a b = false <-> bltb b a = true.
Proof.
  unfold bltb, bleb. rewrite (bcompare_antisym a b). destruct (bcompare a b); cbn; split; congruence.
Qed.

Lemma bleb_refl a : bleb a a = true.
Proof. unfold bleb. now rewrite bcompare_refl. Qed.

Lemma bltb_irrefl a : bltb a a = false.
Proof. unfold bltb. now rewrite bcompare_refl. Qed.

Lemma bltb_trans a b c : bltb a b = true -> bltb b c = true -> bltb a c = true.
Proof. rewrite !bltb_lt. apply bcompare_trans_lt. Qed.

Lemma bltb_leb a b : bltb a b = true -> bleb a b = true.
Proof. unfold bltb, bleb. destruct (bcompare a b); congruence. Qed.

Lemma bleb_cases a b : bleb a b = true -> a = b \/ bltb a b = true.
Proof.
  unfold bleb, bltb. destruct (bcompare a b) eqn:E; intro H; try discriminate.
  - left. now apply bcompare_eq.
  - now right.
Qed.

Lemma ble_lt_trans a b c : bleb a b = true -> bltb b c = true -> bltb a c = true.
Proof.
  intros H1 H2. destruct (bleb_cases _ _ H1) as [->|H]; [exact H2|]. eapply bltb_trans; eauto.
Qed.

Lemma blt_le_trans a b c : bltb a b = true -> bleb b c = true -> bltb a c = true.
Proof.
  intros H1 H2. destruct (bleb_cases _ _ H2) as [<-|H]; [exact H1|]. eapply bltb_trans; eauto.
Qed.

Lemma bleb_trans a b c : bleb a b = true -> bleb b c = true -> bleb a c = true.
Proof.
  intros H1 H2. destruct (bleb_cases _ _ H1) as [->|H]; [exact H2|].
  apply bltb_leb. eapply blt_le_trans; eauto.
Qed.

Lemma bleb_nil a : bleb [] a = true.
Proof. destruct a; reflexivity. Qed.

Lemma bltb_nil a : bltb a [] = false.
Proof. destruct a; reflexivity. Qed.

Lemma beqb_refl a : beqb a a = true.
Proof. now apply beqb_eq. Qed.

Lemma beqb_false_neq a b : beqb a b = false <-> a <> b.
Proof.
  split.
  - intros H E. apply beqb_eq in E. congruence.
  - intros H. destruct (beqb a b) eqn:E; [|reflexivity]. apply beqb_eq in E. contradiction.
Qed.

Lemma bcompare_beqb a b : beqb a b = match bcompare a b with Eq => true | _ => false end.
Proof.
  destruct (bcompare a b) eqn:E.
  - apply bcompare_eq in E. subst. apply beqb_refl.
  - apply beqb_false_neq. intros ->. rewrite bcompare_refl in E. discriminate.
  - apply beqb_false_neq. intros ->. rewrite bcompare_refl in E. discriminate.
Qed.

(* ------------------------------------------------------------------ the ordered map *)

Lemma msorted_inv e m : msorted (e :: m) -> msorted m /\ Forall (key_lt e) m.
Proof. intro H. inversion H; subst. split; assumption. Qed.

Lemma msorted_cons e m : msorted m -> Forall (key_lt e) m -> msorted (e :: m).
Proof. intros. constructor; assumption. Qed.

Lemma Forall_key_lt_trans (a b : entry) m :
  key_lt a b -> Forall (key_lt b) m -> Forall (key_lt a) m.
Proof.
  intros Hab H. induction H as [|x m Hx _ IH]; constructor; [|exact IH].
  unfold key_lt in *. eapply bcompare_trans_lt; eauto.
Qed.

(* a key below the head of a sorted map is not in it *)
Lemma m_get_below k e m : msorted (e :: m) -> bcompare k (fst e) = Lt -> m_get (e :: m) k = None.
Proof. intros _ H. destruct e as [k' v]. cbn in *. now rewrite H. Qed.

Lemma m_get_Forall_lt k v0 m :
  Forall (key_lt (k, v0)) m -> msorted m -> m_get m k = None.
Proof.
  intros HF _. destruct m as [|[k' v'] m]; [reflexivity|].
  inversion HF; subst. unfold key_lt in H1. cbn in *. now rewrite H1.
Qed.

Lemma m_set_Forall e m k v :
  Forall (key_lt e) m -> bcompare (fst e) k = Lt -> Forall (key_lt e) (m_set m k v).
Proof.
  intros HF Hk. induction m as [|[k' v'] m IH]; cbn.
  - constructor; [exact Hk|constructor].
  - inversion HF; subst. destruct (bcompare k k') eqn:E.
    + constructor; [exact Hk|assumption].
    + constructor; [exact Hk|]. constructor; assumption.
    + constructor; [assumption|]. apply IH. assumption.
Qed.

Lemma m_set_sorted m k v : msorted m -> msorted (m_set m k v).
Proof.
  induction m as [|[k' v'] m IH]; intro Hs; cbn.
  - constructor; constructor.
  - apply msorted_inv in Hs as [Hs HF]. destruct (bcompare k k') eqn:E.
    + apply bcompare_eq in E. subst k'. constructor; [exact Hs|].
      clear -HF. induction HF; constructor; auto.
    + constructor; [constructor; assumption|].
      constructor; [exact E|]. eapply Forall_key_lt_trans; [|exact HF]. exact E.
    + constructor; [apply IH; exact Hs|]. apply m_set_Forall; [exact HF|].
      cbn. now apply bcompare_gt_lt.
Qed.

Lemma m_del_Forall e m k : Forall (key_lt e) m -> Forall (key_lt e) (m_del m k).
Proof.
  intros HF. induction m as [|[k' v'] m IH]; cbn; [constructor|].
  inversion HF; subst. destruct (bcompare k k'); [assumption|assumption|].
  constructor; [assumption|]. now apply IH.
Qed.

Lemma m_del_sorted m k : msorted m -> msorted (m_del m k).
Proof.
  induction m as [|[k' v'] m IH]; intro Hs; cbn; [constructor|].
  apply msorted_inv in Hs as [Hs HF]. destruct (bcompare k k') eqn:E.
  - exact Hs.
  - constructor; assumption.
  - constructor; [now apply IH|]. now apply m_del_Forall.
Qed.

Lemma m_get_set m k v k' :
  msorted m -> m_get (m_set m k v) k' = if beqb k k' then Some v else m_get m k'.
Proof.
  induction m as [|[k0 v0] m IH]; intro Hs; cbn.
  - rewrite (bcompare_beqb k k'), (bcompare_antisym k k'). destruct (bcompare k k'); reflexivity.
  - apply msorted_inv in Hs as [Hs HF].
    destruct (bcompare k k0) eqn:E; cbn.
    + apply bcompare_eq in E. subst k0.
      rewrite (bcompare_beqb k k'), (bcompare_antisym k k'). destruct (bcompare k k'); reflexivity.
    + rewrite (bcompare_beqb k k'), (bcompare_antisym k k').
      destruct (bcompare k k') eqn:E2; cbn; try reflexivity.
      (* k' < k < k0 *)
      apply bcompare_gt_lt in E2. rewrite (bcompare_antisym k k') in E2.
      assert (bcompare k' k0 = Lt) as ->; [|reflexivity].
      eapply bcompare_trans_lt; [|exact E].
      destruct (bcompare k k') eqn:E3; cbn in E2; try discriminate.
      now apply bcompare_gt_lt.
    + destruct (bcompare k' k0) eqn:E2.
      * apply bcompare_eq in E2. subst k0.
        assert (beqb k k' = false) as ->; [|reflexivity].
        apply beqb_false_neq. intros ->. rewrite bcompare_refl in E. discriminate.
      * assert (beqb k k' = false) as ->; [|reflexivity].
        apply beqb_false_neq. intros ->. congruence.
      * now apply IH.
Qed.

Lemma m_get_del m k k' :
  msorted m -> m_get (m_del m k) k' = if beqb k k' then None else m_get m k'.
Proof.
  induction m as [|[k0 v0] m IH]; intro Hs; cbn.
  - destruct (beqb k k'); reflexivity.
  - apply msorted_inv in Hs as [Hs HF].
    destruct (bcompare k k0) eqn:E; cbn.
    + apply bcompare_eq in E. subst k0.
      rewrite (bcompare_beqb k k'), (bcompare_antisym k k').
      destruct (bcompare k k') eqn:E2; cbn; try reflexivity.
      * apply bcompare_eq in E2. subst k'. eapply m_get_Forall_lt; eauto.
      * (* k' < k: below every key of m *)
        destruct m as [|[k1 v1] m]; [reflexivity|]. cbn.
        inversion HF; subst. unfold key_lt in H1. cbn in H1.
        assert (bcompare k' k1 = Lt) as ->; [|reflexivity].
        eapply bcompare_trans_lt; [|exact H1]. now apply bcompare_gt_lt.
    + destruct (beqb k k') eqn:E2; [|reflexivity].
      apply beqb_eq in E2. subst k'. now rewrite E.
    + destruct (bcompare k' k0) eqn:E2.
      * apply bcompare_eq in E2. subst k0.
        assert (beqb k k' = false) as ->; [|reflexivity].
        apply beqb_false_neq. intros ->. rewrite bcompare_refl in E. discriminate.
      * assert (beqb k k' = false) as ->; [|reflexivity].
        apply beqb_false_neq. intros ->. congruence.
      * now apply IH.
Qed.

(* two sorted maps with the same contents are the same list: "the store EQUALS the ordered map" *)
Lemma msorted_ext m1 m2 :
  msorted m1 -> msorted m2 -> (forall k, m_get m1 k = m_get m2 k) -> m1 = m2.
Proof.
  revert m2. induction m1 as [|[k1 v1] m1 IH]; intros m2 Hs1 Hs2 Hext.
  - destruct m2 as [|[k2 v2] m2]; [reflexivity|].
    specialize (Hext k2). cbn in Hext. rewrite bcompare_refl in Hext. discriminate.
  - destruct m2 as [|[k2 v2] m2].
    + specialize (Hext k1). cbn in Hext. rewrite bcompare_refl in Hext. discriminate.
    + pose proof (Hext k1) as H1. pose proof (Hext k2) as H2. cbn in H1, H2.
      rewrite bcompare_refl in H1, H2.
      destruct (bcompare k1 k2) eqn:E.
      * apply bcompare_eq in E. subst k2. inversion H1; subst v2. f_equal.
        apply msorted_inv in Hs1 as [Hs1 HF1]. apply msorted_inv in Hs2 as [Hs2 HF2].
        apply IH; try assumption. intro k. specialize (Hext k). cbn in Hext.
        destruct (bcompare k k1) eqn:E2; try assumption.
        -- apply bcompare_eq in E2. subst k.
           rewrite (m_get_Forall_lt k1 v1 m1), (m_get_Forall_lt k1 v1 m2); auto.
        -- (* k < k1: below both tails *)
           assert (forall m v, Forall (key_lt (k1, v)) m -> m_get m k = None) as Hb.
           { intros m v HF. destruct m as [|[k3 v3] m]; [reflexivity|]. cbn.
             inversion HF; subst. unfold key_lt in H3. cbn in H3.
             now rewrite (bcompare_trans_lt _ _ _ E2 H3). }
           now rewrite (Hb m1 v1 HF1), (Hb m2 v1 HF2).
      * discriminate.
      * rewrite (bcompare_antisym k1 k2), E in H2. cbn in H2. discriminate.
Qed.

Lemma msorted_NoDup_keys m : msorted m -> NoDup (map fst m).
Proof.
  induction m as [|e m IH]; intro Hs; cbn; [constructor|].
  apply msorted_inv in Hs as [Hs HF]. constructor; [|now apply IH].
  intro Hin. apply in_map_iff in Hin as [x [Hx Hin]].
  rewrite Forall_forall in HF. specialize (HF x Hin). unfold key_lt in HF.
  rewrite Hx, bcompare_refl in HF. discriminate.
Qed.

(* ------------------------------------------------------------------ batches *)

(* the emulated merge table *)
Fixpoint ms_lookup (ms : merges) (k : bytes) : option (list bytes) :=
  match ms with
  | [] => None
  | (k', l) :: ms' => if beqb k k' then Some l else ms_lookup ms' k
  end.
Definition ms_ops (ms : merges) (k : bytes) : list bytes :=
  match ms_lookup ms k with Some l => l | None => [] end.
Definition ms_wf (ms : merges) : Prop :=
  NoDup (map fst ms) /\ Forall (fun e => snd e <> []) ms.

Lemma em_push_nonempty mo k l v : em_push mo k l v <> [].
Proof.
  induction l as [|o l IH]; cbn; [discriminate|].
  destruct l; [destruct (mo_partial mo k o v); discriminate|discriminate].
Qed.

Lemma ms_lookup_not_in ms k : ~ In k (map fst ms) -> ms_lookup ms k = None.
Proof.
  induction ms as [|[k' l] ms IH]; cbn; intro H; [reflexivity|].
  destruct (beqb k k') eqn:E.
  - apply beqb_eq in E. subst. exfalso. apply H. now left.
  - apply IH. intro. apply H. now right.
Qed.

Lemma em_add_keys mo ms k v x :
  In x (map fst (em_add mo ms k v)) <-> x = k \/ In x (map fst ms).
Proof.
  induction ms as [|[k' l] ms IH]; cbn.
  - intuition.
  - destruct (beqb k k') eqn:E; cbn.
    + apply beqb_eq in E. subst. intuition.
    + rewrite IH. intuition.
Qed.

Lemma em_add_wf mo ms k v : ms_wf ms -> ms_wf (em_add mo ms k v).
Proof.
  intros [Hnd Hne]. induction ms as [|[k' l] ms IH]; cbn.
  - split; [constructor; [intros []|constructor]|]. constructor; [discriminate|constructor].
  - inversion Hnd as [|? ? Hnin Hnd']; subst. inversion Hne as [|? ? Hne0 Hne']; subst.
    destruct (beqb k k') eqn:E; cbn.
    + split; [constructor; assumption|]. constructor; [apply em_push_nonempty|assumption].
    + destruct (IH Hnd' Hne') as [IH1 IH2]. split.
      * constructor; [|exact IH1]. intro Hin. apply em_add_keys in Hin. cbn in Hin.
        destruct Hin as [->|Hin]; [|contradiction].
        rewrite beqb_refl in E. discriminate.
      * constructor; assumption.
Qed.

Lemma em_add_lookup mo ms k v k' :
  ms_lookup (em_add mo ms k v) k' =
  if beqb k' k then Some (em_push mo k (ms_ops ms k) v) else ms_lookup ms k'.
Proof.
  unfold ms_ops. induction ms as [|[k0 l] ms IH]; cbn.
  - destruct (beqb k' k); reflexivity.
  - destruct (beqb k k0) eqn:E; cbn.
    + apply beqb_eq in E. subst k0. destruct (beqb k' k); reflexivity.
    + rewrite IH. destruct (beqb k' k) eqn:E2; [|reflexivity].
      apply beqb_eq in E2. subst k'. now rewrite E.
Qed.

(* what batch_split accumulates *)
Definition sd_of (o : bop) : list sdop :=
  match o with BSet k v => [(k, Some v)] | BDel k => [(k, None)] | BMerge _ _ => [] end.
Definition ms_step (mo : merge_op) (ms : merges) (o : bop) : merges :=
  match o with BMerge k v => em_add mo ms k v | _ => ms end.

Lemma batch_split_spec mo ops acc_o acc_m :
  batch_split mo ops acc_o acc_m =
  (rev acc_o ++ flat_map sd_of ops, fold_left (ms_step mo) ops acc_m).
Proof.
  revert acc_o acc_m. induction ops as [|o ops IH]; intros; cbn.
  - now rewrite app_nil_r.
  - destruct o; rewrite IH; cbn; try rewrite <- app_assoc; reflexivity.
Qed.

Lemma fold_ms_wf mo ops ms : ms_wf ms -> ms_wf (fold_left (ms_step mo) ops ms).
Proof.
  revert ms. induction ops as [|o ops IH]; intros ms H; cbn; [exact H|].
  apply IH. destruct o; cbn; try exact H. now apply em_add_wf.
Qed.

Definition kop_step (mo : merge_op) (k : bytes) (acc : list bytes) (o : bop) : list bytes :=
  match o with
  | BMerge k' v => if beqb k' k then em_push mo k acc v else acc
  | _ => acc
  end.

Lemma fold_ms_ops mo ops ms k :
  ms_ops (fold_left (ms_step mo) ops ms) k = fold_left (kop_step mo k) ops (ms_ops ms k).
Proof.
  revert ms. induction ops as [|o ops IH]; intros ms; cbn; [reflexivity|].
  rewrite IH. f_equal. destruct o; cbn; try reflexivity.
  unfold ms_ops at 1. rewrite em_add_lookup.
  destruct (beqb k k0) eqn:E.
  - apply beqb_eq in E. subst k0. now rewrite beqb_refl.
  - assert (beqb k0 k = false) as ->; [|reflexivity].
    apply beqb_false_neq. intros ->. rewrite beqb_refl in E. discriminate.
Qed.

Lemma batch_merges_ops mo ops k :
  ms_ops (fold_left (ms_step mo) ops []) k = k_operands mo ops k.
Proof. rewrite fold_ms_ops. reflexivity. Qed.

Lemma ms_wf_nil : ms_wf [].
Proof. split; constructor. Qed.

Lemma ms_lookup_ops ms k : ms_wf ms ->
  ms_lookup ms k = match ms_ops ms k with [] => None | l => Some l end.
Proof.
  intros [_ Hne]. unfold ms_ops. induction ms as [|[k' l] ms IH]; cbn; [reflexivity|].
  inversion Hne as [|? ? Hne0 Hne']; subst. destruct (beqb k k').
  - cbn in Hne0. destruct l; [contradiction|reflexivity].
  - now apply IH.
Qed.

(* last set/delete on k in an ops list *)
Definition sd_last (os : list sdop) (k : bytes) (init : option (option bytes)) : option (option bytes) :=
  fold_left (fun acc (o : sdop) => if beqb (fst o) k then Some (snd o) else acc) os init.

Lemma k_last_sd_flat ops k init :
  fold_left (fun acc o => match o with
                          | BSet k' v => if beqb k' k then Some (Some v) else acc
                          | BDel k' => if beqb k' k then Some None else acc
                          | BMerge _ _ => acc
                          end) ops init
  = sd_last (flat_map sd_of ops) k init.
Proof.
  revert init. induction ops as [|o ops IH]; intros; cbn; [reflexivity|].
  destruct o; cbn; rewrite IH; reflexivity.
Qed.

Lemma apply_ops_sorted os m : msorted m -> msorted (apply_ops m os).
Proof.
  revert m. induction os as [|[k [v|]] os IH]; intros m Hs; cbn; [exact Hs| |].
  - apply IH. unfold apply_sd; cbn. now apply m_set_sorted.
  - apply IH. unfold apply_sd; cbn. now apply m_del_sorted.
Qed.

Lemma apply_ops_get os m k : msorted m ->
  m_get (apply_ops m os) k =
  match sd_last os k None with Some r => r | None => m_get m k end.
Proof.
  assert (G : forall os m, msorted m ->
    m_get (apply_ops m os) k = match sd_last os k None with Some r => r | None => m_get m k end).
  { clear os m. induction os as [|[k0 ov] os IH] using rev_ind; intros m Hs.
    - reflexivity.
    - unfold apply_ops, sd_last in *. rewrite !fold_left_app. cbn.
      fold (apply_ops m os). pose proof (apply_ops_sorted os m Hs) as Hs'.
      unfold apply_sd; cbn. destruct ov as [v|].
      + rewrite m_get_set by exact Hs'. destruct (beqb k0 k); [reflexivity|]. now apply IH.
      + rewrite m_get_del by exact Hs'. destruct (beqb k0 k); [reflexivity|]. now apply IH. }
  apply G.
Qed.

Lemma sd_last_app os1 os2 k init :
  sd_last (os1 ++ os2) k init = sd_last os2 k (sd_last os1 k init).
Proof. unfold sd_last. now rewrite fold_left_app. Qed.

(* the merges loop of boltdb / gtreap (and, over the post-ops map, moss' native merges) *)
Lemma apply_merges_spec mo ms : forall m m1,
  ms_wf ms -> msorted m -> apply_merges mo ms m = Some m1 ->
  msorted m1 /\
  forall k, m_get m1 k = match ms_lookup ms k with
                         | Some l => mo_full mo k (m_get m k) l
                         | None => m_get m k
                         end.
Proof.
  induction ms as [|[k0 l0] ms IH]; intros m m1 [Hnd Hne] Hs H; cbn in H.
  - inversion H; subst. split; [exact Hs|reflexivity].
  - destruct (mo_full mo k0 (m_get m k0) l0) as [mv|] eqn:Ef; [|discriminate].
    inversion Hnd as [|? ? Hnin Hnd']; subst. inversion Hne as [|? ? Hne0 Hne']; subst.
    destruct (IH (m_set m k0 mv) m1) as [Hs1 Hget]; try assumption.
    { split; assumption. }
    { now apply m_set_sorted. }
    split; [exact Hs1|]. intro k. rewrite Hget. cbn.
    destruct (beqb k k0) eqn:E.
    + apply beqb_eq in E. subst k0. rewrite (ms_lookup_not_in ms k Hnin).
      rewrite m_get_set by exact Hs. now rewrite beqb_refl.
    + rewrite !m_get_set by exact Hs.
      assert (beqb k0 k = false) as ->.
      { apply beqb_false_neq. intros ->. rewrite beqb_refl in E. discriminate. }
      reflexivity.
Qed.

Lemma sd_last_cons o os k init :
  sd_last (o :: os) k init = sd_last os k (if beqb (fst o) k then Some (snd o) else init).
Proof. reflexivity. Qed.

(* the merges loop of goleveldb: Puts of the values merged over the pre-batch map *)
Lemma merged_puts_spec mo ms m : forall puts,
  ms_wf ms -> merged_puts mo ms m = Some puts ->
  forall k init, sd_last puts k init =
    match ms_lookup ms k with
    | Some l => Some (mo_full mo k (m_get m k) l)
    | None => init
    end.
Proof.
  induction ms as [|[k0 l0] ms IH]; intros puts [Hnd Hne] H k init; cbn in H.
  - inversion H; subst. reflexivity.
  - destruct (mo_full mo k0 (m_get m k0) l0) as [mv|] eqn:Ef; [|discriminate].
    destruct (merged_puts mo ms m) as [puts'|] eqn:Ep; [|discriminate].
    inversion H; subst. inversion Hnd as [|? ? Hnin Hnd']; subst.
    inversion Hne as [|? ? Hne0 Hne']; subst. rewrite sd_last_cons.
    rewrite (IH puts' (conj Hnd' Hne') eq_refl). cbn.
    destruct (beqb k k0) eqn:E.
    + apply beqb_eq in E. subst k0. rewrite (ms_lookup_not_in ms k Hnin).
      rewrite beqb_refl. now rewrite Ef.
    + assert (beqb k0 k = false) as ->.
      { apply beqb_false_neq. intros ->. rewrite beqb_refl in E. discriminate. }
      reflexivity.
Qed.

(* ExecuteBatch refines the per-key spec, for the three policies *)
Lemma exec_batch_refines pol mo m ops m' :
  msorted m -> exec_batch pol mo m ops = Some m' ->
  msorted m' /\ forall k, m_get m' k = spec_val pol mo (m_get m k) ops k.
Proof.
  intros Hs H. unfold exec_batch in H. rewrite batch_split_spec in H. cbn [rev app] in H.
  set (os := flat_map sd_of ops) in *.
  set (ms := fold_left (ms_step mo) ops []) in *.
  assert (Hwf : ms_wf ms) by (apply fold_ms_wf, ms_wf_nil).
  assert (Hops : forall k, ms_ops ms k = k_operands mo ops k) by (intro; apply batch_merges_ops).
  assert (Hsd : forall k, k_last_sd ops k = sd_last os k None) by (intro; apply k_last_sd_flat).
  destruct pol.
  - (* MergeFirst *)
    destruct (apply_merges mo ms m) as [m1|] eqn:Em; [|discriminate]. inversion H; subst m'.
    destruct (apply_merges_spec mo ms m m1 Hwf Hs Em) as [Hs1 Hg].
    split; [now apply apply_ops_sorted|]. intro k.
    rewrite apply_ops_get by exact Hs1. unfold spec_val. rewrite Hsd.
    destruct (sd_last os k None) as [r|]; [reflexivity|].
    rewrite Hg, (ms_lookup_ops ms k Hwf), Hops. destruct (k_operands mo ops k); reflexivity.
  - (* MergeLast *)
    destruct (merged_puts mo ms m) as [puts|] eqn:Ep; [|discriminate]. inversion H; subst m'.
    split; [now apply apply_ops_sorted|]. intro k.
    rewrite apply_ops_get by exact Hs. rewrite sd_last_app.
    rewrite (merged_puts_spec mo ms m puts Hwf Ep). unfold spec_val. rewrite Hsd.
    rewrite (ms_lookup_ops ms k Hwf), Hops. destruct (k_operands mo ops k); reflexivity.
  - (* MergeNative *)
    unfold native_merges in H.
    pose proof (apply_ops_sorted os m Hs) as Hs2.
    destruct (apply_merges_spec mo ms (apply_ops m os) m' Hwf Hs2 H) as [Hs1 Hg].
    split; [exact Hs1|]. intro k. rewrite Hg. rewrite apply_ops_get by exact Hs.
    unfold spec_val. rewrite Hsd. rewrite (ms_lookup_ops ms k Hwf), Hops.
    destruct (k_operands mo ops k); reflexivity.
Qed.

(* batch_atomic_refines: any sequence of batches leaves the store a sorted, duplicate-free map whose
   contents are the sequential, per-batch-atomic application of the spec — for every policy. *)
Lemma batch_atomic_refines pol mo bs : forall m m',
  msorted m -> exec_batches pol mo m bs = Some m' ->
  msorted m' /\ NoDup (map fst m') /\
  forall k, m_get m' k = spec_batches pol mo (m_get m) bs k.
Proof.
  induction bs as [|b bs IH]; intros m m' Hs H; cbn in H.
  - inversion H; subst. split; [exact Hs|]. split; [now apply msorted_NoDup_keys|reflexivity].
  - destruct (exec_batch pol mo m b) as [m1|] eqn:Eb; [|discriminate].
    destruct (exec_batch_refines pol mo m b m1 Hs Eb) as [Hs1 Hg1].
    destruct (IH m1 m' Hs1 H) as [Hs' [Hnd Hg]].
    split; [exact Hs'|]. split; [exact Hnd|]. intro k. rewrite Hg. unfold spec_batches. cbn.
    (* the spec only looks at the function's values *)
    assert (Hext : forall bs f g, (forall k, f k = g k) ->
              forall k, fold_left (fun f b k => spec_val pol mo (f k) b k) bs f k =
                        fold_left (fun f b k => spec_val pol mo (f k) b k) bs g k).
    { clear. induction bs as [|b bs IH]; intros f g Hfg k; cbn; [apply Hfg|].
      apply IH. intro k'. now rewrite Hfg. }
    apply Hext. exact Hg1.
Qed.

(* the hypotheses are satisfiable on a non-trivial value, for each policy *)
Example batch_atomic_refines_ex :
  let bs := [[BSet [97] [65]; BSet [97; 255] []; BMerge [98] [109]];
             [BMerge [97] [110]; BSet [97] [66]; BDel [97; 255]; BSet [97; 255] [1]; BMerge [98] [111]]] in
  exec_batches MergeFirst mo_cat [] bs = Some [([97], [66]); ([97; 255], [1]); ([98], [109; 111])] /\
  exec_batches MergeLast mo_cat [] bs = Some [([97], [65; 110]); ([97; 255], [1]); ([98], [109; 111])] /\
  exec_batches MergeNative mo_cat [] bs = Some [([97], [66; 110]); ([97; 255], [1]); ([98], [109; 111])].
Proof. vm_compute. repeat split. Qed.

(* ------------------------------------------------------------------ reader isolation *)

Lemma reader_lookup_remove rs rid rid' :
  rid <> rid' -> reader_lookup (reader_remove rs rid') rid = reader_lookup rs rid.
Proof.
  intro Hne. induction rs as [|[r m] rs IH]; cbn; [reflexivity|].
  destruct (r =? rid') eqn:E1; cbn.
  - apply Z.eqb_eq in E1. subst r. destruct (rid' =? rid) eqn:E2; [|exact IH].
    apply Z.eqb_eq in E2. congruence.
  - rewrite IH. reflexivity.
Qed.

(* frame property: whatever the store does afterwards — batches, other readers opened or closed —
   an open reader keeps the map it was created on; its answers (get, multi_get, iterators) are
   functions of that map alone (by construction: they take the snapshot as their only argument). *)
Lemma reader_isolated pol mo os : forall st st' rid snap,
  reader_view st rid = Some snap ->
  Forall (fun o => o <> OpOpen rid /\ o <> OpClose rid /\ o <> OpReopen) os ->
  store_run pol mo st os = Some st' ->
  reader_view st' rid = Some snap.
Proof.
  induction os as [|o os IH]; intros st st' rid snap Hv HF H; cbn in H.
  - inversion H; subst. exact Hv.
  - inversion HF as [|? ? [Hno [Hnc Hnr]] HF']; subst.
    destruct (store_step pol mo st o) as [st1|] eqn:Es; [|discriminate].
    apply (IH st1 st' rid snap); try assumption.
    destruct o as [ops|r|r| |]; cbn in Es; [| | |inversion Es; subst; exact Hv|contradiction].
    + destruct (exec_batch pol mo (st_map st) ops); [|discriminate]. inversion Es; subst. exact Hv.
    + inversion Es; subst. unfold reader_view in *. cbn.
      destruct (r =? rid) eqn:E; [|exact Hv]. apply Z.eqb_eq in E. subst. contradiction.
    + inversion Es; subst. unfold reader_view in *. cbn.
      rewrite reader_lookup_remove; [exact Hv|]. intros ->. contradiction.
Qed.

(* whatever is interleaved with the batches — readers opened and closed, the lower level catching up
   (OpSync), the store closed and reopened over its lower level (OpReopen) — the store's map is the
   batches applied one after the other, nothing else *)
Lemma store_map_is_batches pol mo os : forall st st',
  store_run pol mo st os = Some st' ->
  exec_batches pol mo (st_map st) (batches_of os) = Some (st_map st').
Proof.
  induction os as [|o os IH]; intros st st' H; cbn in H.
  - inversion H; subst. reflexivity.
  - destruct (store_step pol mo st o) as [st1|] eqn:Es; [|discriminate].
    specialize (IH st1 st' H).
    destruct o as [ops|r|r| |]; cbn in Es |- *.
    + destruct (exec_batch pol mo (st_map st) ops) as [m1|]; [|discriminate].
      inversion Es; subst. exact IH.
    + inversion Es; subst. exact IH.
    + inversion Es; subst. exact IH.
    + inversion Es; subst. exact IH.
    + inversion Es; subst. exact IH.
Qed.

(* in particular a reader opened after a flush / a reopen sees the batches applied so far *)
Lemma reader_after_persist pol mo os st st1 st2 rid :
  store_run pol mo st os = Some st1 ->
  store_step pol mo st1 (OpOpen rid) = Some st2 ->
  exists m, exec_batches pol mo (st_map st) (batches_of os) = Some m /\ reader_view st2 rid = Some m.
Proof.
  intros H1 H2. exists (st_map st1). split.
  - exact (store_map_is_batches pol mo os st st1 H1).
  - cbn in H2. inversion H2; subst. unfold reader_view. cbn. now rewrite Z.eqb_refl.
Qed.

Example persist_ex :
  exists st', store_run MergeFirst mo_cat {| st_map := []; st_readers := [] |}
                [OpBatch [BSet [97] [65]; BSet [98] [66]]; OpOpen 1; OpBatch [BDel [97]]; OpSync; OpOpen 2; OpClose 1; OpClose 2; OpReopen; OpOpen 3]
              = Some st' /\ reader_view st' 3 = Some [([98], [66])] /\ reader_view st' 1 = None.
Proof. eexists. vm_compute. repeat split. Qed.

(* a reader opened now sees exactly the current map *)
Lemma reader_open_sees_current pol mo st rid st' :
  store_step pol mo st (OpOpen rid) = Some st' -> reader_view st' rid = Some (st_map st).
Proof. cbn. intro H. inversion H; subst. unfold reader_view. cbn. now rewrite Z.eqb_refl. Qed.

Example reader_isolated_ex :
  exists st', store_run MergeFirst mo_cat {| st_map := []; st_readers := [] |}
                [OpBatch [BSet [97] [65]]; OpOpen 1; OpBatch [BDel [97]; BSet [98] []]; OpOpen 2; OpClose 2]
              = Some st' /\ reader_view st' 1 = Some [([97], [65])] /\ st_map st' = [([98], [])].
Proof. eexists. vm_compute. repeat split. Qed.

(* ------------------------------------------------------------------ upsidedown's merge operator *)

Lemma udc_step_spec c d :
  0 <= c < two64 -> - two63 <= d < two63 -> udc_step c d = counter_add c d.
Proof.
  intros Hc Hd. unfold udc_step, counter_add, two64, two63 in *.
  destruct (d <? 0) eqn:E1; cbn [andb].
  - apply Z.ltb_lt in E1. destruct (c <? - d) eqn:E2.
    + apply Z.ltb_lt in E2. rewrite Z.max_l by lia. reflexivity.
    + apply Z.ltb_ge in E2. rewrite Z.max_r by lia. rewrite Z.mod_small by lia. lia.
  - apply Z.ltb_ge in E1. rewrite Z.max_r by lia. reflexivity.
Qed.

Lemma counter_add_range c d : 0 <= counter_add c d < two64.
Proof. unfold counter_add. apply Z.mod_pos_bound. reflexivity. Qed.

Lemma le_u64_put u : 0 <= u < two64 -> le_u64 (put_le_u64 u) = Some u.
Proof.
  intros Hu. unfold put_le_u64, le_u64, two64 in *. f_equal.
  replace (u / 65536) with (u / 256 / 256) by (rewrite Z.div_div by lia; reflexivity).
  replace (u / 16777216) with (u / 256 / 256 / 256) by (rewrite !Z.div_div by lia; reflexivity).
  replace (u / 4294967296) with (u / 256 / 256 / 256 / 256) by (rewrite !Z.div_div by lia; reflexivity).
  replace (u / 1099511627776) with (u / 256 / 256 / 256 / 256 / 256) by (rewrite !Z.div_div by lia; reflexivity).
  replace (u / 281474976710656) with (u / 256 / 256 / 256 / 256 / 256 / 256) by (rewrite !Z.div_div by lia; reflexivity).
  replace (u / 72057594037927936) with (u / 256 / 256 / 256 / 256 / 256 / 256 / 256) by (rewrite !Z.div_div by lia; reflexivity).
  set (u1 := u / 256). set (u2 := u1 / 256). set (u3 := u2 / 256). set (u4 := u3 / 256).
  set (u5 := u4 / 256). set (u6 := u5 / 256). set (u7 := u6 / 256).
  pose proof (Z.div_mod u 256 ltac:(lia)) as E0. fold u1 in E0.
  pose proof (Z.div_mod u1 256 ltac:(lia)) as E1. fold u2 in E1.
  pose proof (Z.div_mod u2 256 ltac:(lia)) as E2. fold u3 in E2.
  pose proof (Z.div_mod u3 256 ltac:(lia)) as E3. fold u4 in E3.
  pose proof (Z.div_mod u4 256 ltac:(lia)) as E4. fold u5 in E4.
  pose proof (Z.div_mod u5 256 ltac:(lia)) as E5. fold u6 in E5.
  pose proof (Z.div_mod u6 256 ltac:(lia)) as E6. fold u7 in E6.
  assert (E7 : u7 mod 256 = u7).
  { apply Z.mod_small. unfold u7, u6, u5, u4, u3, u2, u1. rewrite !Z.div_div by lia.
    split; [apply Z.div_pos; lia|apply Z.div_lt_upper_bound; lia]. }
  lia.
Qed.

Lemma to_i64_mod d : - two63 <= d < two63 -> to_i64 (d mod two64) = d.
Proof.
  intros Hd. unfold to_i64, two63, two64 in *.
  destruct (Z_lt_le_dec d 0).
  - replace (d mod 18446744073709551616) with (d + 18446744073709551616).
    + destruct (d + 18446744073709551616 <? 9223372036854775808) eqn:E.
      * apply Z.ltb_lt in E. lia.
      * lia.
    + symmetry. rewrite <- (Z.mod_add d 1) by lia. apply Z.mod_small. lia.
  - rewrite Z.mod_small by lia. destruct (d <? 9223372036854775808) eqn:E; [reflexivity|].
    apply Z.ltb_ge in E. lia.
Qed.

Lemma udc_fold_spec ds : forall c,
  0 <= c < two64 -> Forall (fun d => - two63 <= d < two63) ds ->
  udc_fold c (map i64_bytes ds) = Some (fold_left counter_add ds c).
Proof.
  induction ds as [|d ds IH]; intros c Hc HF; cbn [map udc_fold fold_left]; [reflexivity|].
  inversion HF as [|? ? Hd HF']; subst. unfold i64_bytes at 1.
  rewrite le_u64_put by (apply Z.mod_pos_bound; reflexivity).
  rewrite to_i64_mod by assumption. rewrite udc_step_spec by assumption.
  apply IH; [apply counter_add_range|assumption].
Qed.

(* merge_counter_spec: FullMerge of upsidedown's dictionary operator on a dictionary-row key, an existing
   value that decodes (Uvarint) to the count c — or no / an empty existing value, c = 0 — and operands that
   are little-endian int64 deltas, returns the Uvarint encoding of the count after adding the deltas in
   order, saturating at 0 and wrapping modulo 2^64. *)
Lemma merge_counter_spec key existing c ds :
  3 <= Z.of_nat (length key) ->
  match existing with
  | Some (b :: e) => exists n, uvarint (b :: e) = (c, n) /\ 0 < n
  | _ => c = 0
  end ->
  0 <= c < two64 ->
  Forall (fun d => - two63 <= d < two63) ds ->
  udc_full key existing (map i64_bytes ds) = put_uvarint (fold_left counter_add ds c).
Proof.
  intros Hk Hex Hc HF. unfold udc_full.
  destruct (Z.of_nat (length key) <? 3) eqn:E; [apply Z.ltb_lt in E; lia|].
  destruct existing as [[|b e]|].
  - subst c. rewrite udc_fold_spec by assumption. reflexivity.
  - destruct Hex as [n [-> Hn]]. destruct (n <=? 0) eqn:E2; [apply Z.leb_le in E2; lia|].
    rewrite udc_fold_spec by assumption. reflexivity.
  - subst c. rewrite udc_fold_spec by assumption. reflexivity.
Qed.

Example merge_counter_spec_ex :
  (* count 300 (Uvarint ac 02), deltas +1, -500 (saturates at 0), +2  ->  2 *)
  udc_full [100; 0; 0; 97] (Some [172; 2]) (map i64_bytes [1; -500; 2]) = Some [2] /\
  uvarint [172; 2] = (300, 2) /\
  (* PartialMerge adds with wrap-around: -1 + 1 = 0 *)
  udc_partial [100; 0; 0] (i64_bytes (-1)) (i64_bytes 1) = Some (i64_bytes 0).
Proof. vm_compute. repeat split. Qed.

(* Uvarint after PutUvarint, checked on boundary values (the general round trip is Go's
   encoding/binary contract and is exercised by the CMopFull cases) *)
Example uvarint_roundtrip_ex :
  forallb (fun c => match put_uvarint c with
                    | Some b => let '(c', n) := uvarint b in (c' =? c) && (n =? Z.of_nat (length b))
                    | None => false
                    end)
          [0; 1; 127; 128; 255; 300; 16383; 16384; 2097151; 2097152; 4294967296;
           9223372036854775807; 9223372036854775808; 18446744073709551614; 18446744073709551615] = true.
Proof. vm_compute. reflexivity. Qed.
