(* Upsidedown row store (C01) — proofs, part 3: the row-store invariant and its preservation by
   UpsideDownCouch.Batch ([udc_batch]). *)
From Coq Require Import ZArith List Bool Lia Permutation.
From Verif Require Import Common.Bytes Scorch.Model Scorch.ProofsCore1 Kv.Adapter Kv.AdapterProofs
  Kv.Upsidedown Kv.UpsidedownProofs1 Kv.UpsidedownProofs2.
Import ListNotations.
Local Open Scope Z_scope.

(* ------------------------------------------------------------------ batch_rows, key by key *)

Lemma batch_rows_get p m k :
  is_dict k = false ->
  rget (batch_rows p m) k =
    if kmem k (p_del p) then None
    else match alast k (p_add p ++ p_upd p) with Some v => Some v | None => rget m k end.
Proof.
  intro Hk. unfold batch_rows. rewrite apply_merges_get_other by exact Hk.
  rewrite apply_dels_get, apply_sets_app, apply_sets_get. reflexivity.
Qed.

Lemma batch_rows_NoDup p m : NoDup (map fst m) -> NoDup (map fst (batch_rows p m)).
Proof.
  intro H. unfold batch_rows. apply apply_merges_NoDup, apply_dels_NoDup, apply_sets_NoDup, apply_sets_NoDup. exact H.
Qed.

Lemma batch_rows_dict p m f t :
  (forall k, In k (map fst (p_add p ++ p_upd p)) -> is_dict k = false) ->
  (forall k, In k (p_del p) -> is_dict k = false) ->
  dict_count (batch_rows p m) f t =
    udc_step (dict_count m f t) (delta_operand (cntT f t (map fst (p_add p)) - cntT f t (p_del p))) \/
  (cntT f t (map fst (p_add p)) - cntT f t (p_del p) = 0 /\ dict_count (batch_rows p m) f t = dict_count m f t).
Proof.
  intros Hs Hd. unfold batch_rows.
  set (ds := deltas_of_dels (p_del p) (deltas_of_adds (p_add p) [])).
  assert (Hnd : NoDup (map fst ds)).
  { apply deltas_of_dels_NoDup, deltas_of_adds_NoDup. constructor. }
  assert (Hv : dval f t ds = cntT f t (map fst (p_add p)) - cntT f t (p_del p)).
  { unfold ds. rewrite dval_dels, dval_adds. reflexivity. }
  assert (Hbase : dict_count (apply_dels (p_del p) (apply_sets (p_upd p) (apply_sets (p_add p) m))) f t = dict_count m f t).
  { unfold dict_count. rewrite apply_dels_get, apply_sets_app, apply_sets_get.
    destruct (kmem (KDict f t) (p_del p)) eqn:E.
    - apply kmem_In, Hd in E. discriminate.
    - destruct (alast (KDict f t) (p_add p ++ p_upd p)) eqn:E2; [|reflexivity].
      apply alast_Some_In in E2. apply (in_map fst) in E2. apply Hs in E2. discriminate. }
  rewrite apply_merges_count by exact Hnd. rewrite Hbase.
  unfold dval in Hv. destruct (dlookup f t ds) as [d|]; [left; rewrite Hv; reflexivity|right].
  split; [symmetry; exact Hv|reflexivity].
Qed.

(* ------------------------------------------------------------------ list bookkeeping *)

Lemma flat_map_map {A B C} (f : A -> B) (g : B -> list C) (l : list A) :
  flat_map g (map f l) = flat_map (fun x => g (f x)) l.
Proof. induction l as [|x l IH]; cbn; [reflexivity|]. rewrite IH. reflexivity. Qed.

Lemma cntT_flat_map {A} f t (g : A -> list rowkey) (l : list A) :
  cntT f t (flat_map g l) = fold_right (fun x a => cntT f t (g x) + a) 0 l.
Proof.
  induction l as [|x l IH]; [reflexivity|]. cbn [flat_map fold_right]. rewrite cntT_app, IH. reflexivity.
Qed.

Lemma map_flat_map {A B C} (f : B -> C) (g : A -> list B) (l : list A) :
  map f (flat_map g l) = flat_map (fun x => map f (g x)) l.
Proof. induction l as [|x l IH]; cbn; [reflexivity|]. rewrite map_app, IH. reflexivity. Qed.

Lemma fold_right_add_map {A B} (G : A -> B) (F : B -> Z) (l : list A) :
  fold_right (fun P a => F P + a) 0 (map G l) = fold_right (fun o a => F (G o) + a) 0 l.
Proof. induction l as [|x l IH]; cbn; [reflexivity|]. rewrite IH. reflexivity. Qed.

Lemma fold_right_add_ext {A} (g g' : A -> Z) (l : list A) :
  (forall x, In x l -> g x = g' x) ->
  fold_right (fun x a => g x + a) 0 l = fold_right (fun x a => g' x + a) 0 l.
Proof.
  induction l as [|x l IH]; intro H; [reflexivity|]. cbn. rewrite (H x) by (left; reflexivity).
  rewrite IH; [reflexivity|]. intros; apply H; right; assumption.
Qed.

Lemma fold_right_add_sub {A} (g g' : A -> Z) (l : list A) :
  fold_right (fun x a => g x + a) 0 l - fold_right (fun x a => g' x + a) 0 l =
  fold_right (fun x a => (g x - g' x) + a) 0 l.
Proof. induction l as [|x l IH]; cbn; [reflexivity|]. rewrite <- IH. lia. Qed.

Lemma alast_same_bindings k S R :
  (forall v, In (k, v) S <-> In (k, v) R) -> NoDup (map fst R) -> alast k S = alast k R.
Proof.
  intros Hiff Hnd. destruct (alast k R) as [v|] eqn:E.
  - apply alast_Some_In in E. apply alast_func; [apply Hiff; exact E|].
    intros v' Hv'. apply Hiff in Hv'.
    pose proof (alast_NoDup k v R Hnd E) as H1. pose proof (alast_NoDup k v' R Hnd Hv') as H2. congruence.
  - apply alast_None. intro Hin. rewrite in_map_iff in Hin. destruct Hin as [[k' v] [He Hin]]. cbn in He. subst k'.
    apply Hiff in Hin. apply alast_None in E. apply E. change k with (fst (k, v)). apply in_map. exact Hin.
Qed.

(* spec_apply_ops over operations with distinct keys: the (single) op on a key decides *)
Lemma spec_apply_ops_nodup ops : forall m k,
  NoDup (map fst ops) ->
  spec_apply_ops ops m k = match assoc_first k ops with Some ov => ov | None => m k end.
Proof.
  unfold spec_apply_ops. induction ops as [|[k0 ov0] ops IH]; intros m k Hnd; cbn [fold_left assoc_first]; [reflexivity|].
  cbn in Hnd. inversion Hnd as [|? ? Hn Hd]; subst. rewrite IH by exact Hd. cbn [fst snd].
  destruct (k0 =? k) eqn:E; [|reflexivity].
  apply Z.eqb_eq in E. subst k0. apply assoc_first_None in Hn. rewrite Hn. reflexivity.
Qed.

Lemma spec_apply_ops_app a b m k :
  spec_apply_ops (a ++ b) m k = spec_apply_ops b (spec_apply_ops a m) k.
Proof. unfold spec_apply_ops. rewrite fold_left_app. reflexivity. Qed.

(* ------------------------------------------------------------------ the invariant *)

Section Refine.
Variable docof : Z -> Z -> udoc.

Definition live_doc (live : Z -> option Z) (id : Z) : option udoc := option_map (docof id) (live id).
Definition ind (live : Z -> option Z) (f t : Z) (id : Z) : Z := hasZ (live_doc live id) f t.
Definition alive (live : Z -> option Z) (id : Z) : Z := match live id with Some _ => 1 | None => 0 end.

Definition hist_ids (h : list hstep) : list (Z * option Z) := flat_map fst h.

Record Inv (h : list hstep) (s : ustore) : Prop := mkInv {
  inv_rows : forall k id, owner k = Some id ->
     rget (u_rows s) k = match live_doc (replay (map fst h)) id with
                         | Some d => alast k (doc_rows id d)
                         | None => None
                         end;
  inv_int : forall key,
     rget (u_rows s) (KInternal key) = option_map VInternal (spec_internal (flat_map snd h) key);
  inv_dict : forall U f t, NoDup U -> (forall d, replay (map fst h) d <> None -> In d U) ->
     dict_count (u_rows s) f t = sumZ (ind (replay (map fst h)) f t) U;
  inv_count : forall U, NoDup U -> (forall d, replay (map fst h) d <> None -> In d U) ->
     u_count s = sumZ (alive (replay (map fst h))) U;
  inv_nodup : NoDup (map fst (u_rows s));
  inv_src : forall id v, replay (map fst h) id = Some v -> In (id, Some v) (hist_ids h)
}.

Definition docs_ok (h : list hstep) : Prop :=
  forall id v, In (id, Some v) (hist_ids h) -> wf_doc (docof id v) = true.
Definition step_ok (st : hstep) : Prop :=
  nodupZ (map fst (fst st)) = true /\ nodupZ (map fst (snd st)) = true.
Definition hist_small (h : list hstep) : Prop := Z.of_nat (length (hist_ids h)) < two63.

Lemma Inv_empty : Inv [] udc_empty.
Proof.
  constructor; cbn; try reflexivity.
  - intros U f t _ _. unfold dict_count. cbn. rewrite (sumZ_ext _ (fun _ => 0)); [rewrite sumZ_zero; reflexivity|reflexivity].
  - intros U _ _. rewrite (sumZ_ext _ (fun _ => 0)); [rewrite sumZ_zero; reflexivity|reflexivity].
  - constructor.
  - discriminate.
Qed.

(* bound: a sum of at most one per live id is at most the number of document ops so far *)
Lemma live_sum_bound h (live : Z -> option Z) g U :
  (forall id v, live id = Some v -> In (id, Some v) (hist_ids h)) ->
  NoDup U -> (forall x, 0 <= g x <= alive live x) ->
  0 <= sumZ g U <= Z.of_nat (length (hist_ids h)).
Proof.
  intros Hsrc HU Hg. split.
  - pose proof (sumZ_bounds g U 0 1) as H. destruct H as [H _]; [|lia].
    intros x _. specialize (Hg x). unfold alive in Hg. destruct (live x); lia.
  - set (p := fun x => match live x with Some _ => true | None => false end).
    assert (H1 : sumZ g U <= sumZ (fun x => if p x then 1 else 0) U).
    { clear HU. induction U as [|x U IH]; [rewrite !sumZ_nil; lia|]. rewrite !sumZ_cons.
      specialize (Hg x). unfold alive in Hg. unfold p at 1. destruct (live x); lia. }
    rewrite sumZ_filter in H1.
    assert (H2 : (length (filter p U) <= length (map fst (hist_ids h)))%nat).
    { apply NoDup_incl_length; [apply NoDup_filter; exact HU|].
      intros x Hx. apply filter_In in Hx. destruct Hx as [_ Hx]. unfold p in Hx.
      destruct (live x) as [v|] eqn:E; [|discriminate].
      change x with (fst (x, Some v)). apply in_map. apply Hsrc. exact E. }
    rewrite map_length in H2. lia.
Qed.

(* ------------------------------------------------------------------ one batch *)

Section Step.
Variables (h : list hstep) (s : ustore) (b iops : list (Z * option Z)).
Hypothesis HI : Inv h s.
Hypothesis Hb : NoDup (map fst b).
Hypothesis Hi : NoDup (map fst iops).
Hypothesis Hwf : docs_ok (h ++ [(b, iops)]).
Hypothesis Hsmall : hist_small (h ++ [(b, iops)]).

Let live := replay (map fst h).
Let live' := spec_apply_batch b live.
Let m := u_rows s.

(* the contribution of one operation of the batch *)
Let G (o : Z * option Z) : plan :=
  the_plan (fst o) (live_doc live (fst o)) (option_map (docof (fst o)) (snd o)).
Let PL := map G b.
Let p := batch_plan m (udc_ops docof b) iops.

Lemma hist_ids_snoc : hist_ids (h ++ [(b, iops)]) = hist_ids h ++ b.
Proof. unfold hist_ids. rewrite flat_map_app. cbn. rewrite app_nil_r. reflexivity. Qed.

Lemma replay_snoc : replay (map fst (h ++ [(b, iops)])) = live'.
Proof. unfold replay. rewrite map_app, fold_left_app. reflexivity. Qed.

Lemma live'_in id ov : In (id, ov) b -> live' id = ov.
Proof.
  intro H. unfold live', spec_apply_batch. rewrite (assoc_first_In_nodup id ov b Hb H). reflexivity.
Qed.

Lemma live'_out id : ~ In id (map fst b) -> live' id = live id.
Proof.
  intro H. unfold live', spec_apply_batch. apply assoc_first_None in H. rewrite H. reflexivity.
Qed.

Lemma back_row id : back_index_row m id = back_of (live_doc live id).
Proof.
  unfold back_index_row, m. rewrite (inv_rows h s HI (KBack id) id eq_refl). fold live.
  destruct (live_doc live id) as [d|]; [|reflexivity]. rewrite alast_back. reflexivity.
Qed.

Lemma wf_live id d : live_doc live id = Some d -> wf_doc d = true.
Proof.
  unfold live_doc. destruct (live id) as [v|] eqn:E; [|discriminate]. cbn. intro H. inversion H; subst.
  apply Hwf. rewrite hist_ids_snoc. apply in_or_app. left. apply (inv_src h s HI). exact E.
Qed.

Lemma wf_new id v : In (id, Some v) b -> wf_doc (docof id v) = true.
Proof. intro H. apply Hwf. rewrite hist_ids_snoc. apply in_or_app. right. exact H. Qed.

Lemma plans_eq : map (op_plan m) (udc_ops docof b) = PL.
Proof.
  unfold PL, udc_ops. rewrite map_map. apply map_ext. intros [id ov]. cbn [fst snd].
  unfold G. cbn [fst snd]. apply op_plan_the_plan. apply back_row.
Qed.

Lemma p_parts :
  p_add p = flat_map p_add PL /\
  p_upd p = p_upd (plan_internal iops) ++ flat_map p_upd PL /\
  p_del p = p_del (plan_internal iops) ++ flat_map p_del PL /\
  p_added p = fold_right (fun P a => p_added P + a) 0 PL /\
  p_deleted p = fold_right (fun P a => p_deleted P + a) 0 PL.
Proof.
  destruct (batch_plan_fold m (udc_ops docof b) (plan_internal iops)) as [H1 [H2 [H3 [H4 H5]]]].
  cbn zeta in *. fold (batch_plan m (udc_ops docof b) iops) in *. fold p in H1, H2, H3, H4, H5.
  rewrite <- plans_eq. rewrite !flat_map_map.
  rewrite H1, H2, H3, H4, H5. cbn [plan_internal p_add p_added p_deleted app].
  repeat split; try reflexivity.
  - clear. induction (udc_ops docof b) as [|x l IH]; cbn; [reflexivity|]. rewrite <- IH. lia.
  - clear. induction (udc_ops docof b) as [|x l IH]; cbn; [reflexivity|]. rewrite <- IH. lia.
Qed.

(* internal rows of the plan *)
Lemma internal_sets r :
  In r (p_upd (plan_internal iops)) <-> exists key w, r = (KInternal key, VInternal w) /\ In (key, Some w) iops.
Proof.
  cbn [plan_internal p_upd]. rewrite in_flat_map. split.
  - intros [[key [w|]] [H1 H2]]; cbn in H2; [|destruct H2]. destruct H2 as [<-|[]]. eauto.
  - intros [key [w [-> H]]]. exists (key, Some w). split; [exact H|]. left. reflexivity.
Qed.

Lemma internal_dels k :
  In k (p_del (plan_internal iops)) <-> exists key, k = KInternal key /\ In (key, None) iops.
Proof.
  cbn [plan_internal p_del]. rewrite in_flat_map. split.
  - intros [[key [w|]] [H1 H2]]; cbn in H2; [destruct H2|]. destruct H2 as [<-|[]]. eauto.
  - intros [key [-> H]]. exists (key, None). split; [exact H|]. left. reflexivity.
Qed.

(* membership in the plan, by owner *)
Lemma sets_of_owner k v id :
  owner k = Some id ->
  (In (k, v) (p_add p ++ p_upd p) <->
   exists ov, In (id, ov) b /\ In (k, v) (p_add (G (id, ov)) ++ p_upd (G (id, ov)))).
Proof.
  intro Ho. destruct p_parts as [H1 [H2 _]]. rewrite H1, H2, !in_app_iff, !in_flat_map. split.
  - intros [[P [HP Hin]]|[Hin|[P [HP Hin]]]].
    + unfold PL in HP. rewrite in_map_iff in HP. destruct HP as [[id' ov] [<- Ho']].
      assert (id' = id).
      { destruct (the_plan_owner id' (live_doc live id') (option_map (docof id') ov)) as [Hs _].
        specialize (Hs (k, v)). unfold G in Hin. cbn [fst snd] in *. rewrite in_app_iff in Hs.
        specialize (Hs (or_introl Hin)). cbn in Hs. congruence. }
      subst id'. exists ov. split; [exact Ho'|]. apply in_or_app. left. exact Hin.
    + apply internal_sets in Hin. destruct Hin as [key [w [He _]]]. inversion He; subst. discriminate.
    + unfold PL in HP. rewrite in_map_iff in HP. destruct HP as [[id' ov] [<- Ho']].
      assert (id' = id).
      { destruct (the_plan_owner id' (live_doc live id') (option_map (docof id') ov)) as [Hs _].
        specialize (Hs (k, v)). unfold G in Hin. cbn [fst snd] in *. rewrite in_app_iff in Hs.
        specialize (Hs (or_intror Hin)). cbn in Hs. congruence. }
      subst id'. exists ov. split; [exact Ho'|]. apply in_or_app. right. exact Hin.
  - intros [ov [Hin Hr]]. apply in_app_or in Hr. destruct Hr as [Hr|Hr].
    + left. exists (G (id, ov)). split; [|exact Hr]. unfold PL. apply in_map. exact Hin.
    + right. right. exists (G (id, ov)). split; [|exact Hr]. unfold PL. apply in_map. exact Hin.
Qed.

Lemma dels_of_owner k id :
  owner k = Some id ->
  (In k (p_del p) <-> exists ov, In (id, ov) b /\ In k (p_del (G (id, ov)))).
Proof.
  intro Ho. destruct p_parts as [_ [_ [H3 _]]]. rewrite H3, in_app_iff, in_flat_map. split.
  - intros [Hin|[P [HP Hin]]].
    + apply internal_dels in Hin. destruct Hin as [key [-> _]]. discriminate.
    + unfold PL in HP. rewrite in_map_iff in HP. destruct HP as [[id' ov] [<- Ho']].
      assert (id' = id).
      { destruct (the_plan_owner id' (live_doc live id') (option_map (docof id') ov)) as [_ Hd].
        specialize (Hd k). unfold G in Hin. cbn [fst snd] in *. specialize (Hd Hin). congruence. }
      subst id'. exists ov. split; [exact Ho'|exact Hin].
  - intros [ov [Hin Hr]]. right. exists (G (id, ov)). split; [|exact Hr]. unfold PL. apply in_map. exact Hin.
Qed.

Lemma plan_keys_not_dict :
  (forall k, In k (map fst (p_add p ++ p_upd p)) -> is_dict k = false) /\
  (forall k, In k (p_del p) -> is_dict k = false).
Proof.
  destruct p_parts as [H1 [H2 [H3 _]]]. split.
  - intros k Hk. rewrite in_map_iff in Hk. destruct Hk as [[k' v] [He Hin]]. cbn in He. subst k'.
    rewrite H1, H2, !in_app_iff, !in_flat_map in Hin.
    assert (Hpl : forall P, In P PL -> In (k, v) (p_add P ++ p_upd P) -> is_dict k = false).
    { intros P HP Hr. unfold PL in HP. rewrite in_map_iff in HP. destruct HP as [[id' ov] [<- _]].
      destruct (the_plan_owner id' (live_doc live id') (option_map (docof id') ov)) as [Hs _].
      specialize (Hs (k, v) Hr). cbn in Hs. destruct k; try discriminate; reflexivity. }
    destruct Hin as [[P [HP Hin]]|[Hin|[P [HP Hin]]]].
    + apply (Hpl P HP). apply in_or_app. left. exact Hin.
    + apply internal_sets in Hin. destruct Hin as [key [w [He _]]]. inversion He. reflexivity.
    + apply (Hpl P HP). apply in_or_app. right. exact Hin.
  - intros k Hk. rewrite H3, in_app_iff, in_flat_map in Hk. destruct Hk as [Hin|[P [HP Hin]]].
    + apply internal_dels in Hin. destruct Hin as [key [-> _]]. reflexivity.
    + unfold PL in HP. rewrite in_map_iff in HP. destruct HP as [[id' ov] [<- _]].
      destruct (the_plan_owner id' (live_doc live id') (option_map (docof id') ov)) as [_ Hd].
      specialize (Hd k Hin). destruct k; try discriminate; reflexivity.
Qed.

(* ---- document rows ---- *)

Lemma step_rows k id :
  owner k = Some id ->
  rget (batch_rows p m) k = match live_doc live' id with
                            | Some d => alast k (doc_rows id d)
                            | None => None
                            end.
Proof.
  intro Ho.
  assert (Hnd : is_dict k = false) by (destruct k; try discriminate; reflexivity).
  rewrite batch_rows_get by exact Hnd.
  pose proof (inv_rows h s HI k id Ho) as Hold. fold live m in Hold.
  destruct (in_dec Z.eq_dec id (map fst b)) as [Hin|Hout].
  - (* the batch has an operation on id *)
    rewrite in_map_iff in Hin. destruct Hin as [[id' ov] [He Hin]]. cbn in He. subst id'.
    assert (Huniq : forall ov', In (id, ov') b -> ov' = ov).
    { intros ov' H'. pose proof (assoc_first_In_nodup id ov b Hb Hin). pose proof (assoc_first_In_nodup id ov' b Hb H'). congruence. }
    unfold live_doc at 1. rewrite (live'_in id ov Hin).
    set (old := live_doc live id) in *. set (new := option_map (docof id) ov).
    assert (HG : G (id, ov) = the_plan id old new) by reflexivity.
    (* deletes *)
    assert (Hdel : In k (p_del p) <-> In k (p_del (the_plan id old new))).
    { rewrite (dels_of_owner k id Ho). split.
      - intros [ov' [H1 H2]]. rewrite (Huniq ov' H1) in H2. exact H2.
      - intro H. exists ov. split; [exact Hin|exact H]. }
    (* sets *)
    set (R := match new with Some d => doc_rows id d | None => [] end).
    assert (HR : NoDup (map fst R)).
    { unfold R, new. destruct ov as [v|]; cbn; [|constructor]. apply wf_doc_NoDup. apply wf_new. exact Hin. }
    assert (Hset : alast k (p_add p ++ p_upd p) = alast k R).
    { apply alast_same_bindings; [|exact HR]. intro v. rewrite (sets_of_owner k v id Ho). split.
      - intros [ov' [H1 H2]]. rewrite (Huniq ov' H1), HG in H2. apply the_plan_sets in H2.
        unfold R. destruct new; [exact H2|destruct H2].
      - intro H. exists ov. split; [exact Hin|]. rewrite HG. apply the_plan_sets.
        unfold R in H. destruct new; [exact H|destruct H]. }
    rewrite Hset.
    pose proof (the_plan_dels id old new k) as Hd.
    destruct (kmem k (p_del p)) eqn:Ek.
    + (* deleted: the new version does not have the key *)
      apply kmem_In, Hdel, Hd in Ek. unfold R.
      destruct old as [d0|]; [|destruct Ek]. destruct Ek as [_ Ek].
      destruct new as [d|]; [|reflexivity]. cbn. symmetry. apply alast_None. tauto.
    + assert (Hnd' : ~ In k (p_del (the_plan id old new))).
      { intro H. apply Hdel, kmem_In in H. congruence. }
      unfold R in *. destruct new as [d|] eqn:En; cbn [option_map].
      * destruct (alast k (doc_rows id d)) as [v|] eqn:E; [reflexivity|].
        rewrite Hold. destruct old as [d0|]; [|reflexivity].
        apply alast_None. intro H0. apply Hnd'. apply Hd. split; [exact H0|].
        apply alast_None in E. split; [|exact E]. intro; subst k. apply E.
        rewrite doc_rows_keys, !in_app_iff. right. right. left. reflexivity.
      * cbn [alast]. rewrite Hold. destruct old as [d0|]; [|reflexivity].
        apply alast_None. intro H0. apply Hnd'. apply Hd. tauto.
  - (* untouched id *)
    unfold live_doc at 1. rewrite (live'_out id Hout). fold (live_doc live id).
    assert (Hd : kmem k (p_del p) = false).
    { apply kmem_false. rewrite (dels_of_owner k id Ho). intros [ov [H _]].
      apply Hout. change id with (fst (id, ov)). apply in_map. exact H. }
    assert (Hs : alast k (p_add p ++ p_upd p) = None).
    { apply alast_None. rewrite in_map_iff. intros [[k' v] [He H]]. cbn in He. subst k'.
      apply (sets_of_owner k v id Ho) in H. destruct H as [ov [H _]].
      apply Hout. change id with (fst (id, ov)). apply in_map. exact H. }
    rewrite Hd, Hs. exact Hold.
Qed.

(* ---- internal rows ---- *)

Lemma step_internal key :
  rget (batch_rows p m) (KInternal key) =
  option_map VInternal (spec_internal (flat_map snd (h ++ [(b, iops)])) key).
Proof.
  rewrite batch_rows_get by reflexivity.
  rewrite flat_map_app. cbn [flat_map snd]. rewrite app_nil_r.
  unfold spec_internal. rewrite spec_apply_ops_app, (spec_apply_ops_nodup iops _ key Hi).
  pose proof (inv_int h s HI key) as Hold. unfold spec_internal in Hold. fold m in Hold.
  destruct p_parts as [H1 [H2 [H3 _]]].
  assert (Hnoown : forall P, In P PL ->
            (forall v, ~ In (KInternal key, v) (p_add P ++ p_upd P)) /\ ~ In (KInternal key) (p_del P)).
  { intros P HP. unfold PL in HP. rewrite in_map_iff in HP. destruct HP as [[id' ov] [<- _]].
    destruct (the_plan_owner id' (live_doc live id') (option_map (docof id') ov)) as [Hs Hd]. split.
    - intros v H. specialize (Hs _ H). discriminate.
    - intro H. specialize (Hd _ H). discriminate. }
  assert (Hdel : In (KInternal key) (p_del p) <-> In (key, None) iops).
  { rewrite H3, in_app_iff, in_flat_map. split.
    - intros [H|[P [HP H]]]; [|exfalso; apply (proj2 (Hnoown P HP)); exact H].
      apply internal_dels in H. destruct H as [key' [He H]]. inversion He; subst. exact H.
    - intro H. left. apply internal_dels. eauto. }
  assert (Hset : forall v, In (KInternal key, v) (p_add p ++ p_upd p) <-> exists w, v = VInternal w /\ In (key, Some w) iops).
  { intro v. rewrite H1, H2, !in_app_iff, !in_flat_map. split.
    - intros [[P [HP H]]|[H|[P [HP H]]]].
      + exfalso. apply (proj1 (Hnoown P HP) v). apply in_or_app. left. exact H.
      + apply internal_sets in H. destruct H as [key' [w [He H]]]. inversion He; subst. eauto.
      + exfalso. apply (proj1 (Hnoown P HP) v). apply in_or_app. right. exact H.
    - intros [w [-> H]]. right. left. apply internal_sets. eauto. }
  destruct (assoc_first key iops) as [[w|]|] eqn:E.
  - apply assoc_first_Some_In in E.
    assert (Hd : kmem (KInternal key) (p_del p) = false).
    { apply kmem_false. rewrite Hdel. intro H.
      pose proof (assoc_first_In_nodup key None iops Hi H). pose proof (assoc_first_In_nodup key (Some w) iops Hi E). congruence. }
    rewrite Hd. rewrite (alast_func (KInternal key) (VInternal w)); [reflexivity| |].
    + apply Hset. eauto.
    + intros v' Hv'. apply Hset in Hv'. destruct Hv' as [w' [-> H]].
      pose proof (assoc_first_In_nodup key (Some w') iops Hi H). pose proof (assoc_first_In_nodup key (Some w) iops Hi E). congruence.
  - apply assoc_first_Some_In in E.
    assert (Hd : kmem (KInternal key) (p_del p) = true) by (apply kmem_In, Hdel; exact E).
    rewrite Hd. reflexivity.
  - apply assoc_first_None in E.
    assert (Hd : kmem (KInternal key) (p_del p) = false).
    { apply kmem_false. rewrite Hdel. intro H. apply E. change key with (fst (key, @None Z)). apply in_map. exact H. }
    assert (Hs : alast (KInternal key) (p_add p ++ p_upd p) = None).
    { apply alast_None. rewrite in_map_iff. intros [[k' v] [He H]]. cbn in He. subst k'.
      apply Hset in H. destruct H as [w [_ H]]. apply E. change key with (fst (key, Some w)). apply in_map. exact H. }
    rewrite Hd, Hs. exact Hold.
Qed.

(* ---- counting ---- *)

Lemma live'_src id v : live' id = Some v -> In (id, Some v) (hist_ids h ++ b).
Proof.
  intro H. apply in_or_app. destruct (in_dec Z.eq_dec id (map fst b)) as [Hin|Hout].
  - right. rewrite in_map_iff in Hin. destruct Hin as [[id' ov] [He Hin]]. cbn in He. subst id'.
    rewrite (live'_in id ov Hin) in H. subst ov. exact Hin.
  - left. rewrite (live'_out id Hout) in H. apply (inv_src h s HI). exact H.
Qed.

(* a cover of the live ids after the batch, extended by the ids of the batch, covers the live
   ids before it *)
Definition cover (U : list Z) : list Z := nodup Z.eq_dec (U ++ map fst b).

Lemma cover_props U :
  (forall d, live' d <> None -> In d U) ->
  NoDup (cover U) /\ incl U (cover U) /\ incl (map fst b) (cover U) /\
  (forall d, live d <> None -> In d (cover U)) /\
  (forall d, In d (cover U) -> ~ In d U -> live' d = None).
Proof.
  intro HU. unfold cover. repeat split.
  - apply NoDup_nodup.
  - intros x Hx. apply nodup_In. apply in_or_app. left. exact Hx.
  - intros x Hx. apply nodup_In. apply in_or_app. right. exact Hx.
  - intros d Hd. apply nodup_In. apply in_or_app.
    destruct (in_dec Z.eq_dec d (map fst b)) as [Hin|Hout]; [right; exact Hin|left].
    apply HU. rewrite (live'_out d Hout). exact Hd.
  - intros d _ Hn. destruct (live' d) eqn:E; [|reflexivity]. exfalso. apply Hn. apply HU. congruence.
Qed.

(* the generic counting step: a counter that moves by the sum over the batch of (g' - g) *)
Lemma count_step (g g' : Z -> Z) U :
  NoDup U -> (forall d, live' d <> None -> In d U) ->
  (forall x, ~ In x (map fst b) -> g' x = g x) ->
  (forall x, live' x = None -> g' x = 0) ->
  sumZ g (cover U) + sumZ (fun x => g' x - g x) (map fst b) = sumZ g' U.
Proof.
  intros HU Hcov Hsame Hzero.
  destruct (cover_props U Hcov) as [C1 [C2 [C3 [C4 C5]]]].
  rewrite <- (sumZ_change g g' (cover U) (map fst b) C1 Hb C3) by (intros x _ Hx; apply Hsame; exact Hx).
  apply sumZ_superset; [exact C1|exact HU|exact C2|].
  intros x Hx Hn. apply Hzero. apply C5; assumption.
Qed.

Lemma ind_range lv f t x : 0 <= ind lv f t x <= alive lv x.
Proof.
  unfold ind, alive, live_doc, hasZ. destruct (lv x); cbn; [destruct (has_term _ f t); lia|lia].
Qed.

Lemma batch_len : Z.of_nat (length (hist_ids h)) + Z.of_nat (length b) < two63.
Proof. unfold hist_small in Hsmall. rewrite hist_ids_snoc, app_length in Hsmall. lia. Qed.

Lemma step_dict U f t :
  NoDup U -> (forall d, live' d <> None -> In d U) ->
  dict_count (batch_rows p m) f t = sumZ (ind live' f t) U.
Proof.
  intros HU Hcov.
  destruct (cover_props U Hcov) as [C1 [C2 [C3 [C4 C5]]]].
  pose proof (inv_dict h s HI (cover U) f t C1 C4) as Hold. fold live m in Hold.
  (* the net delta of the batch *)
  set (D := cntT f t (map fst (p_add p)) - cntT f t (p_del p)).
  assert (HD : D = sumZ (fun x => ind live' f t x - ind live f t x) (map fst b)).
  { unfold D. destruct p_parts as [H1 [_ [H3 _]]]. rewrite H1, H3, cntT_app.
    rewrite (cntT_zero f t (p_del (plan_internal iops))).
    2:{ intros k Hk. apply internal_dels in Hk. destruct Hk as [key [-> _]]. reflexivity. }
    rewrite map_flat_map, !cntT_flat_map. unfold PL. rewrite sumZ_map_fst.
    rewrite Z.add_0_l.
    rewrite (fold_right_add_map G (fun P => cntT f t (map fst (p_add P)))).
    rewrite (fold_right_add_map G (fun P => cntT f t (p_del P))).
    rewrite fold_right_add_sub. apply fold_right_add_ext. intros [id ov] Hin. cbn [fst].
    unfold G. cbn [fst snd]. rewrite the_plan_cnt.
    - unfold ind, live_doc. rewrite (live'_in id ov Hin). reflexivity.
    - destruct (live_doc live id) eqn:E; [|exact I]. apply (wf_live id). exact E.
    - destruct ov as [v|]; cbn; [|exact I]. apply wf_new. exact Hin. }
  assert (Hnew : dict_count m f t + D = sumZ (ind live' f t) U).
  { rewrite Hold, HD. apply count_step; [exact HU|exact Hcov| |].
    - intros x Hx. unfold ind, live_doc. rewrite (live'_out x Hx). reflexivity.
    - intros x Hx. unfold ind, live_doc. rewrite Hx. reflexivity. }
  (* ranges *)
  pose proof batch_len as Hlen.
  assert (Hc : 0 <= dict_count m f t <= Z.of_nat (length (hist_ids h))).
  { rewrite Hold. apply (live_sum_bound h live); [apply (inv_src h s HI)|exact C1|apply ind_range]. }
  assert (Hc' : 0 <= dict_count m f t + D <= Z.of_nat (length (hist_ids h ++ b))).
  { rewrite Hnew. rewrite <- hist_ids_snoc.
    apply (live_sum_bound (h ++ [(b, iops)]) live'); [|exact HU|apply ind_range].
    intros id v Hv. rewrite hist_ids_snoc. apply live'_src. exact Hv. }
  rewrite app_length, Nat2Z.inj_add in Hc'.
  assert (HDr : - Z.of_nat (length b) <= D <= Z.of_nat (length b)).
  { rewrite HD. pose proof (sumZ_bounds (fun x => ind live' f t x - ind live f t x) (map fst b) (-1) 1) as Hbd.
    rewrite map_length in Hbd. destruct Hbd as [L R]; [|lia].
    intros x _. pose proof (ind_range live' f t x). pose proof (ind_range live f t x).
    unfold alive in *. destruct (live' x), (live x); lia. }
  destruct plan_keys_not_dict as [K1 K2].
  destruct (batch_rows_dict p m f t K1 K2) as [Hst|[Hz Hst]]; fold D in Hst |- *.
  - rewrite Hst. unfold delta_operand. rewrite to_i64_mod by (unfold two63 in *; lia).
    rewrite udc_step_spec by (unfold two63, two64 in *; lia).
    unfold counter_add. rewrite Z.max_r by lia. rewrite Z.mod_small by (unfold two63, two64 in *; lia). exact Hnew.
  - fold D in Hz. rewrite Hst. rewrite <- Hnew, Hz. lia.
Qed.

Lemma plan_counts id old new :
  p_added (the_plan id old new) - p_deleted (the_plan id old new) =
  (match new with Some _ => 1 | None => 0 end) - (match old with Some _ => 1 | None => 0 end).
Proof. destruct new, old; reflexivity. Qed.

Lemma plan_counts_range id old new :
  0 <= p_added (the_plan id old new) <= 1 /\ 0 <= p_deleted (the_plan id old new) <= 1.
Proof. destruct new, old; cbn; lia. Qed.

Lemma step_count U :
  NoDup U -> (forall d, live' d <> None -> In d U) ->
  ((u_count s + p_added p) mod two64 - p_deleted p) mod two64 = sumZ (alive live') U.
Proof.
  intros HU Hcov.
  destruct (cover_props U Hcov) as [C1 [C2 [C3 [C4 C5]]]].
  pose proof (inv_count h s HI (cover U) C1 C4) as Hold. fold live in Hold.
  destruct p_parts as [_ [_ [_ [H4 H5]]]].
  assert (HD : p_added p - p_deleted p = sumZ (fun x => alive live' x - alive live x) (map fst b)).
  { rewrite H4, H5. unfold PL. rewrite sumZ_map_fst.
    rewrite (fold_right_add_map G p_added), (fold_right_add_map G p_deleted).
    rewrite fold_right_add_sub. apply fold_right_add_ext. intros [id ov] Hin. cbn [fst].
    unfold G. cbn [fst snd]. rewrite plan_counts. unfold alive. rewrite (live'_in id ov Hin).
    unfold live_doc. destruct ov, (live id); reflexivity. }
  assert (Hnew : u_count s + (p_added p - p_deleted p) = sumZ (alive live') U).
  { rewrite Hold, HD. apply count_step; [exact HU|exact Hcov| |].
    - intros x Hx. unfold alive. rewrite (live'_out x Hx). reflexivity.
    - intros x Hx. unfold alive. rewrite Hx. reflexivity. }
  assert (Hr : 0 <= sumZ (alive live') U <= Z.of_nat (length (hist_ids (h ++ [(b, iops)])))).
  { apply (live_sum_bound (h ++ [(b, iops)]) live'); [|exact HU|].
    - intros id v Hv. rewrite hist_ids_snoc. apply live'_src. exact Hv.
    - intro x. unfold alive. destruct (live' x); lia. }
  unfold hist_small in Hsmall.
  rewrite Zminus_mod_idemp_l.
  replace (u_count s + p_added p - p_deleted p) with (u_count s + (p_added p - p_deleted p)) by lia.
  rewrite Hnew. apply Z.mod_small. unfold two63, two64 in *. lia.
Qed.

(* ---- the step ---- *)

Lemma Inv_step : Inv (h ++ [(b, iops)]) (udc_batch s (udc_ops docof b) iops).
Proof.
  unfold udc_batch. fold m. fold (batch_plan m (udc_ops docof b) iops). fold p.
  constructor; cbn [u_rows u_count]; rewrite ?replay_snoc.
  - apply step_rows.
  - apply step_internal.
  - intros U f t HU Hc. apply step_dict; assumption.
  - intros U HU Hc. apply step_count; assumption.
  - apply batch_rows_NoDup. apply (inv_nodup h s HI).
  - intros id v Hv. rewrite hist_ids_snoc. apply live'_src. exact Hv.
Qed.

End Step.
End Refine.
