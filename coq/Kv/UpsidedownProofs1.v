(* Upsidedown row store (C01) — proofs, part 1: row keys, the row map (rget / rset / rdel), the
   three phases of a KV batch (sets, deletes, dictionary merges), dictionary delta maps, and the
   finite sums used to count live documents. *)
From Coq Require Import ZArith List Bool Lia Permutation.
From Verif Require Import Common.Bytes Kv.Adapter Kv.Upsidedown.
Import ListNotations.
Local Open Scope Z_scope.

(* ------------------------------------------------------------------ row keys *)

Lemma cmp_then_Eq c d : cmp_then c d = Eq <-> c = Eq /\ d = Eq.
Proof. destruct c; cbn; intuition discriminate. Qed.

Lemma rowkey_compare_eq a b : rowkey_compare a b = Eq <-> a = b.
Proof.
  destruct a, b; cbn; try (split; intro H; discriminate);
    repeat rewrite cmp_then_Eq; repeat rewrite Z.compare_eq_iff; try rewrite bcompare_eq;
    split; intro H; try (inversion H; subst; auto; fail); try (intuition congruence).
Qed.

Lemma rowkey_eqb_eq a b : rowkey_eqb a b = true <-> a = b.
Proof.
  unfold rowkey_eqb. rewrite <- rowkey_compare_eq. destruct (rowkey_compare a b); intuition discriminate.
Qed.

Lemma rowkey_eqb_refl a : rowkey_eqb a a = true.
Proof. apply rowkey_eqb_eq. reflexivity. Qed.

Lemma rowkey_eqb_neq a b : rowkey_eqb a b = false <-> a <> b.
Proof.
  rewrite <- rowkey_eqb_eq. destruct (rowkey_eqb a b); intuition discriminate.
Qed.

Lemma rowkey_eq_dec (a b : rowkey) : {a = b} + {a <> b}.
Proof.
  destruct (rowkey_eqb a b) eqn:E; [left; apply rowkey_eqb_eq; exact E|right; apply rowkey_eqb_neq; exact E].
Qed.

Lemma rowkey_eqb_sym a b : rowkey_eqb a b = rowkey_eqb b a.
Proof.
  destruct (rowkey_eqb a b) eqn:E.
  - apply rowkey_eqb_eq in E. subst. symmetry. apply rowkey_eqb_refl.
  - apply rowkey_eqb_neq in E. symmetry. apply rowkey_eqb_neq. congruence.
Qed.

Lemma kmem_In k l : kmem k l = true <-> In k l.
Proof.
  unfold kmem. rewrite existsb_exists. split.
  - intros [x [Hin He]]. apply rowkey_eqb_eq in He. subst. exact Hin.
  - intro H. exists k. split; [exact H|apply rowkey_eqb_refl].
Qed.

Lemma kmem_false k l : kmem k l = false <-> ~ In k l.
Proof. rewrite <- kmem_In. destruct (kmem k l); intuition discriminate. Qed.

(* the document a key belongs to *)
Definition owner (k : rowkey) : option Z :=
  match k with
  | KBack id => Some id
  | KStored id _ _ => Some id
  | KTerm _ _ id => Some id
  | _ => None
  end.
Definition is_dict (k : rowkey) : bool := match k with KDict _ _ => true | _ => false end.

(* ------------------------------------------------------------------ the row map *)

Lemma rdel_cons k k' v m :
  rdel k ((k', v) :: m) = if rowkey_eqb k k' then rdel k m else (k', v) :: rdel k m.
Proof. unfold rdel. cbn. destruct (rowkey_eqb k k'); reflexivity. Qed.
Arguments rdel : simpl never.

Lemma rget_rdel_same k m : rget (rdel k m) k = None.
Proof.
  induction m as [|[k' v] m IH]; [reflexivity|]. rewrite rdel_cons.
  destruct (rowkey_eqb k k') eqn:E; cbn; [exact IH|]. rewrite E. exact IH.
Qed.

Lemma rget_rdel_other k k' m : k' <> k -> rget (rdel k m) k' = rget m k'.
Proof.
  intro Hne. induction m as [|[k2 v] m IH]; [reflexivity|]. rewrite rdel_cons. cbn.
  destruct (rowkey_eqb k k2) eqn:E; cbn.
  - apply rowkey_eqb_eq in E. subst k2.
    destruct (rowkey_eqb k' k) eqn:E2; [apply rowkey_eqb_eq in E2; congruence|exact IH].
  - rewrite IH. reflexivity.
Qed.

Lemma rget_rins_same k v m : rget (rins k v m) k = Some v.
Proof.
  induction m as [|[k' v'] m IH]; cbn; [rewrite rowkey_eqb_refl; reflexivity|].
  destruct (rowkey_compare k k') eqn:E; cbn; try (rewrite rowkey_eqb_refl; reflexivity).
  unfold rowkey_eqb at 1. rewrite E. exact IH.
Qed.

Lemma rget_rins_other k v k' m : k' <> k -> rget (rins k v m) k' = rget m k'.
Proof.
  intro Hne. induction m as [|[k2 v2] m IH]; cbn.
  - destruct (rowkey_eqb k' k) eqn:E; [apply rowkey_eqb_eq in E; congruence|reflexivity].
  - destruct (rowkey_compare k k2) eqn:E; cbn.
    + destruct (rowkey_eqb k' k) eqn:E2; [apply rowkey_eqb_eq in E2; congruence|reflexivity].
    + destruct (rowkey_eqb k' k) eqn:E2; [apply rowkey_eqb_eq in E2; congruence|reflexivity].
    + rewrite IH. reflexivity.
Qed.

Lemma rget_rset_same k v m : rget (rset k v m) k = Some v.
Proof. apply rget_rins_same. Qed.

Lemma rget_rset_other k v k' m : k' <> k -> rget (rset k v m) k' = rget m k'.
Proof. intro H. unfold rset. rewrite rget_rins_other by exact H. apply rget_rdel_other. exact H. Qed.

Lemma rdel_keys k m x : In x (map fst (rdel k m)) <-> x <> k /\ In x (map fst m).
Proof.
  induction m as [|[k' v] m IH]; [cbn; tauto|]. rewrite rdel_cons.
  destruct (rowkey_eqb k k') eqn:E; cbn.
  - apply rowkey_eqb_eq in E. subst k'. rewrite IH. intuition congruence.
  - apply rowkey_eqb_neq in E. rewrite IH. intuition congruence.
Qed.

Lemma rins_keys k v m x : In x (map fst (rins k v m)) <-> x = k \/ In x (map fst m).
Proof.
  induction m as [|[k' v'] m IH]; cbn; [intuition|].
  destruct (rowkey_compare k k'); cbn; try rewrite IH; intuition.
Qed.

Lemma rdel_NoDup k m : NoDup (map fst m) -> NoDup (map fst (rdel k m)).
Proof.
  induction m as [|[k' v] m IH]; intro H; [constructor|]. rewrite rdel_cons.
  cbn in H. inversion H as [|? ? Hn Hd]; subst.
  destruct (rowkey_eqb k k'); cbn; [apply IH; exact Hd|].
  constructor; [|apply IH; exact Hd]. rewrite rdel_keys. tauto.
Qed.

Lemma rins_NoDup k v m : NoDup (map fst m) -> ~ In k (map fst m) -> NoDup (map fst (rins k v m)).
Proof.
  induction m as [|[k' v'] m IH]; cbn; intros H Hn; [constructor; [tauto|constructor]|].
  inversion H as [|? ? Hn' Hd]; subst.
  destruct (rowkey_compare k k'); cbn.
  - constructor; [cbn; tauto|exact H].
  - constructor; [cbn; tauto|exact H].
  - constructor; [rewrite rins_keys; intuition|apply IH; tauto].
Qed.

Lemma rset_NoDup k v m : NoDup (map fst m) -> NoDup (map fst (rset k v m)).
Proof.
  intro H. unfold rset. apply rins_NoDup; [apply rdel_NoDup; exact H|].
  rewrite rdel_keys. tauto.
Qed.

Lemma rget_None m k : rget m k = None <-> ~ In k (map fst m).
Proof.
  induction m as [|[k' v] m IH]; cbn; [tauto|].
  destruct (rowkey_eqb k k') eqn:E.
  - apply rowkey_eqb_eq in E. subst. split; [discriminate|tauto].
  - apply rowkey_eqb_neq in E. rewrite IH. intuition congruence.
Qed.

Lemma rget_In m k v : NoDup (map fst m) -> (rget m k = Some v <-> In (k, v) m).
Proof.
  induction m as [|[k' v'] m IH]; cbn; intro H; [split; [discriminate|tauto]|].
  inversion H as [|? ? Hn Hd]; subst.
  destruct (rowkey_eqb k k') eqn:E.
  - apply rowkey_eqb_eq in E. subst k'. split.
    + intro H1. inversion H1; subst. left. reflexivity.
    + intros [H1|H1]; [inversion H1; reflexivity|].
      exfalso. apply Hn. change k with (fst (k, v)). apply in_map. exact H1.
  - apply rowkey_eqb_neq in E. rewrite IH by exact Hd. split; [tauto|].
    intros [H1|H1]; [inversion H1; congruence|exact H1].
Qed.

(* ------------------------------------------------------------------ Set phase *)

(* the value the LAST binding of k in a row list gives it *)
Fixpoint alast (k : rowkey) (rs : list row) : option rowval :=
  match rs with
  | [] => None
  | (k', v) :: rs' =>
      match alast k rs' with
      | Some v' => Some v'
      | None => if rowkey_eqb k k' then Some v else None
      end
  end.

Lemma alast_app k a b :
  alast k (a ++ b) = match alast k b with Some v => Some v | None => alast k a end.
Proof.
  induction a as [|[k' v] a IH]; cbn; [destruct (alast k b); reflexivity|].
  rewrite IH. destruct (alast k b); [reflexivity|]. reflexivity.
Qed.

Lemma alast_None k rs : alast k rs = None <-> ~ In k (map fst rs).
Proof.
  induction rs as [|[k' v] rs IH]; cbn; [tauto|].
  destruct (alast k rs) eqn:E.
  - split; [discriminate|]. intro H. exfalso.
    assert (Hn : ~ In k (map fst rs)) by tauto. apply IH in Hn. discriminate.
  - destruct (rowkey_eqb k k') eqn:E2.
    + apply rowkey_eqb_eq in E2. subst. split; [discriminate|tauto].
    + apply rowkey_eqb_neq in E2. split; [|reflexivity]. intros _ [H|H]; [congruence|].
      apply IH in H; [exact H|reflexivity].
Qed.

Lemma alast_Some_In k v rs : alast k rs = Some v -> In (k, v) rs.
Proof.
  induction rs as [|[k' v'] rs IH]; cbn; [discriminate|].
  destruct (alast k rs) eqn:E.
  - intro H. inversion H; subst. right. apply IH. reflexivity.
  - destruct (rowkey_eqb k k') eqn:E2; [|discriminate].
    apply rowkey_eqb_eq in E2. subst. intro H. inversion H. left. reflexivity.
Qed.

Lemma alast_func k v rs :
  In (k, v) rs -> (forall v', In (k, v') rs -> v' = v) -> alast k rs = Some v.
Proof.
  intros Hin Hf. destruct (alast k rs) eqn:E.
  - apply alast_Some_In in E. f_equal. apply Hf. exact E.
  - apply alast_None in E. exfalso. apply E. change k with (fst (k, v)). apply in_map. exact Hin.
Qed.

Lemma alast_NoDup k v rs : NoDup (map fst rs) -> In (k, v) rs -> alast k rs = Some v.
Proof.
  intros Hnd Hin. apply alast_func; [exact Hin|].
  induction rs as [|[k' v0] rs IH]; [destruct Hin|].
  cbn in Hnd. inversion Hnd as [|? ? Hn Hd]; subst.
  intros v' H'. destruct Hin as [H1|H1], H' as [H2|H2].
  - congruence.
  - inversion H1; subst. exfalso. apply Hn. change k with (fst (k, v')). apply in_map. exact H2.
  - inversion H2; subst. exfalso. apply Hn. change k with (fst (k, v)). apply in_map. exact H1.
  - apply IH; assumption.
Qed.

Lemma apply_sets_get rs : forall m k,
  rget (apply_sets rs m) k = match alast k rs with Some v => Some v | None => rget m k end.
Proof.
  unfold apply_sets. induction rs as [|[k' v] rs IH]; intros m k; cbn; [reflexivity|].
  rewrite IH. destruct (alast k rs); [reflexivity|].
  destruct (rowkey_eqb k k') eqn:E.
  - apply rowkey_eqb_eq in E. subst. apply rget_rset_same.
  - apply rowkey_eqb_neq in E. apply rget_rset_other. exact E.
Qed.

Lemma apply_sets_app a b m : apply_sets b (apply_sets a m) = apply_sets (a ++ b) m.
Proof. unfold apply_sets. rewrite fold_left_app. reflexivity. Qed.

Lemma apply_sets_NoDup rs : forall m, NoDup (map fst m) -> NoDup (map fst (apply_sets rs m)).
Proof.
  unfold apply_sets. induction rs as [|[k v] rs IH]; intros m H; cbn; [exact H|].
  apply IH. apply rset_NoDup. exact H.
Qed.

(* ------------------------------------------------------------------ Delete phase *)

Lemma apply_dels_get ks : forall m k,
  rget (apply_dels ks m) k = if kmem k ks then None else rget m k.
Proof.
  unfold apply_dels. induction ks as [|k' ks IH]; intros m k; cbn; [reflexivity|].
  rewrite IH. fold (kmem k ks). destruct (kmem k ks); [rewrite orb_true_r; reflexivity|]. rewrite orb_false_r.
  destruct (rowkey_eqb k k') eqn:E.
  - apply rowkey_eqb_eq in E. subst. apply rget_rdel_same.
  - apply rowkey_eqb_neq in E. apply rget_rdel_other. exact E.
Qed.

Lemma apply_dels_NoDup ks : forall m, NoDup (map fst m) -> NoDup (map fst (apply_dels ks m)).
Proof.
  unfold apply_dels. induction ks as [|k ks IH]; intros m H; cbn; [exact H|].
  apply IH. apply rdel_NoDup. exact H.
Qed.

(* ------------------------------------------------------------------ dictionary deltas *)

Fixpoint dlookup (f t : Z) (m : list (Z * Z * Z)) : option Z :=
  match m with
  | [] => None
  | (f', t', x) :: m' => if (f =? f') && (t =? t') then Some x else dlookup f t m'
  end.
Definition dval (f t : Z) (m : list (Z * Z * Z)) : Z :=
  match dlookup f t m with Some x => x | None => 0 end.

Lemma ft_eqb_eq f t f' t' : (f =? f') && (t =? t') = true <-> (f, t) = (f', t').
Proof.
  rewrite andb_true_iff, !Z.eqb_eq. split; [intros [-> ->]; reflexivity|intro H; inversion H; tauto].
Qed.

Lemma ft_eqb_neq f t f' t' : (f =? f') && (t =? t') = false <-> (f, t) <> (f', t').
Proof. rewrite <- ft_eqb_eq. destruct ((f =? f') && (t =? t')); intuition discriminate. Qed.

Lemma dlookup_None f t m : dlookup f t m = None <-> ~ In (f, t) (map fst m).
Proof.
  induction m as [|[[f' t'] x] m IH]; cbn; [tauto|].
  destruct ((f =? f') && (t =? t')) eqn:E.
  - apply ft_eqb_eq in E. split; [discriminate|]. intro H. exfalso. apply H. left. congruence.
  - apply ft_eqb_neq in E. rewrite IH. intuition congruence.
Qed.

Lemma delta_bump_keys f t d m x :
  In x (map fst (delta_bump f t d m)) <-> x = (f, t) \/ In x (map fst m).
Proof.
  induction m as [|[[f' t'] y] m IH]; cbn; [intuition|].
  destruct ((f =? f') && (t =? t')) eqn:E; cbn.
  - apply ft_eqb_eq in E. intuition congruence.
  - rewrite IH. intuition.
Qed.

Lemma delta_bump_NoDup f t d m : NoDup (map fst m) -> NoDup (map fst (delta_bump f t d m)).
Proof.
  induction m as [|[[f' t'] y] m IH]; cbn; intro H; [constructor; [tauto|constructor]|].
  inversion H as [|? ? Hn Hd]; subst.
  destruct ((f =? f') && (t =? t')) eqn:E; cbn.
  - constructor; assumption.
  - apply ft_eqb_neq in E. constructor; [|apply IH; exact Hd].
    rewrite delta_bump_keys. intros [H1|H1]; [congruence|tauto].
Qed.

Lemma dval_bump f t d m f' t' :
  dval f' t' (delta_bump f t d m) = dval f' t' m + (if (f' =? f) && (t' =? t) then d else 0).
Proof.
  unfold dval. induction m as [|[[f2 t2] y] m IH]; cbn.
  - destruct ((f' =? f) && (t' =? t)); lia.
  - destruct ((f =? f2) && (t =? t2)) eqn:E; cbn.
    + apply ft_eqb_eq in E. inversion E; subst f2 t2.
      destruct ((f' =? f) && (t' =? t)); lia.
    + destruct ((f' =? f2) && (t' =? t2)) eqn:E2.
      * apply ft_eqb_eq in E2. inversion E2; subst f2 t2.
        assert (E3 : (f' =? f) && (t' =? t) = false).
        { apply ft_eqb_neq. apply ft_eqb_neq in E. congruence. }
        rewrite E3. lia.
      * exact IH.
Qed.

(* number of keys KTerm f t _ in a key list *)
Definition is_ft (f t : Z) (k : rowkey) : bool :=
  match k with KTerm f' t' _ => (f =? f') && (t =? t') | _ => false end.
Definition cntT (f t : Z) (ks : list rowkey) : Z :=
  fold_right (fun k a => (if is_ft f t k then 1 else 0) + a) 0 ks.

Lemma cntT_cons f t k ks : cntT f t (k :: ks) = (if is_ft f t k then 1 else 0) + cntT f t ks.
Proof. reflexivity. Qed.
Lemma cntT_nil f t : cntT f t [] = 0.
Proof. reflexivity. Qed.
Arguments cntT : simpl never.

Lemma cntT_app f t a b : cntT f t (a ++ b) = cntT f t a + cntT f t b.
Proof.
  induction a as [|k a IH]; [reflexivity|]. cbn [app]. rewrite !cntT_cons, IH. lia.
Qed.

Lemma cntT_range f t ks : 0 <= cntT f t ks <= Z.of_nat (length ks).
Proof.
  induction ks as [|k ks IH]; [rewrite cntT_nil; cbn; lia|]. rewrite cntT_cons. cbn [length].
  destruct (is_ft f t k); lia.
Qed.

Lemma cntT_zero f t ks : (forall k, In k ks -> is_ft f t k = false) -> cntT f t ks = 0.
Proof.
  induction ks as [|k ks IH]; intro H; [reflexivity|]. rewrite cntT_cons.
  rewrite (H k) by (left; reflexivity). rewrite IH; [reflexivity|]. intros; apply H; right; assumption.
Qed.

(* a duplicate-free key list holds KTerm f t id at most once *)
Lemma cntT_single f t id ks :
  NoDup ks -> (forall k, In k ks -> is_ft f t k = true -> k = KTerm f t id) ->
  cntT f t ks = if kmem (KTerm f t id) ks then 1 else 0.
Proof.
  induction ks as [|k ks IH]; intros Hnd H; [reflexivity|].
  inversion Hnd as [|? ? Hn Hd]; subst. rewrite cntT_cons.
  rewrite IH; [|exact Hd|intros k0 Hk0 Hf; apply H; [right; exact Hk0|exact Hf]].
  cbn [kmem existsb]. fold (kmem (KTerm f t id) ks).
  destruct (is_ft f t k) eqn:E.
  - pose proof (H k (or_introl eq_refl) E) as Hk. subst k. rewrite rowkey_eqb_refl. cbn.
    apply kmem_false in Hn. rewrite Hn. reflexivity.
  - destruct (rowkey_eqb (KTerm f t id) k) eqn:E2; [|reflexivity].
    apply rowkey_eqb_eq in E2. subst k. cbn in E. rewrite !Z.eqb_refl in E. discriminate.
Qed.

Lemma deltas_of_adds_NoDup rs : forall m, NoDup (map fst m) -> NoDup (map fst (deltas_of_adds rs m)).
Proof.
  unfold deltas_of_adds. induction rs as [|[k v] rs IH]; intros m H; cbn; [exact H|].
  apply IH. destruct k; try exact H. apply delta_bump_NoDup. exact H.
Qed.

Lemma deltas_of_dels_NoDup ks : forall m, NoDup (map fst m) -> NoDup (map fst (deltas_of_dels ks m)).
Proof.
  unfold deltas_of_dels. induction ks as [|k ks IH]; intros m H; cbn; [exact H|].
  apply IH. destruct k; try exact H. apply delta_bump_NoDup. exact H.
Qed.

Lemma dval_adds f t rs : forall m,
  dval f t (deltas_of_adds rs m) = dval f t m + cntT f t (map fst rs).
Proof.
  unfold deltas_of_adds. induction rs as [|[k v] rs IH]; intros m; cbn [fold_left map]; [rewrite cntT_nil; lia|].
  rewrite cntT_cons. rewrite IH. cbn [fst].
  destruct k; cbn [is_ft]; try lia. rewrite dval_bump. lia.
Qed.

Lemma dval_dels f t ks : forall m,
  dval f t (deltas_of_dels ks m) = dval f t m - cntT f t ks.
Proof.
  unfold deltas_of_dels. induction ks as [|k ks IH]; intros m; cbn [fold_left]; [rewrite cntT_nil; lia|].
  rewrite cntT_cons. rewrite IH.
  destruct k; cbn [is_ft]; try lia. rewrite dval_bump. destruct ((f =? field) && (t =? term)); lia.
Qed.

(* ------------------------------------------------------------------ Merge phase *)

Lemma dict_count_rset_other k v m f t :
  k <> KDict f t -> dict_count (rset k v m) f t = dict_count m f t.
Proof. intro H. unfold dict_count. rewrite rget_rset_other by congruence. reflexivity. Qed.

Lemma apply_merges_get_other ds : forall m k,
  is_dict k = false -> rget (apply_merges ds m) k = rget m k.
Proof.
  unfold apply_merges. induction ds as [|[[f t] d] ds IH]; intros m k Hk; cbn; [reflexivity|].
  rewrite IH by exact Hk. apply rget_rset_other. intro; subst; discriminate.
Qed.

Lemma apply_merges_NoDup ds : forall m, NoDup (map fst m) -> NoDup (map fst (apply_merges ds m)).
Proof.
  unfold apply_merges. induction ds as [|e ds IH]; intros m H; cbn; [exact H|].
  apply IH. apply rset_NoDup. exact H.
Qed.

Lemma apply_merges_count ds : forall m f t,
  NoDup (map fst ds) ->
  dict_count (apply_merges ds m) f t =
    match dlookup f t ds with
    | Some d => udc_step (dict_count m f t) (delta_operand d)
    | None => dict_count m f t
    end.
Proof.
  unfold apply_merges. induction ds as [|[[f' t'] d] ds IH]; intros m f t Hnd; cbn [fold_left dlookup]; [reflexivity|].
  cbn in Hnd. inversion Hnd as [|? ? Hn Hd]; subst. cbn [fst snd].
  rewrite IH by exact Hd.
  destruct ((f =? f') && (t =? t')) eqn:E.
  - apply ft_eqb_eq in E. inversion E; subst f' t'.
    apply dlookup_None in Hn. rewrite Hn.
    unfold dict_count at 1. rewrite rget_rset_same. reflexivity.
  - apply ft_eqb_neq in E.
    rewrite dict_count_rset_other by congruence. reflexivity.
Qed.

(* ------------------------------------------------------------------ finite sums over ids *)

Definition sumZ (g : Z -> Z) (l : list Z) : Z := fold_right (fun x a => g x + a) 0 l.

Lemma sumZ_cons g x l : sumZ g (x :: l) = g x + sumZ g l.
Proof. reflexivity. Qed.
Lemma sumZ_nil g : sumZ g [] = 0.
Proof. reflexivity. Qed.
Arguments sumZ : simpl never.

Lemma sumZ_ext g g' l : (forall x, In x l -> g x = g' x) -> sumZ g l = sumZ g' l.
Proof.
  induction l as [|x l IH]; intro H; [reflexivity|]. rewrite !sumZ_cons.
  rewrite (H x) by (left; reflexivity). rewrite IH; [reflexivity|]. intros; apply H; right; assumption.
Qed.

Lemma sumZ_zero l : sumZ (fun _ => 0) l = 0.
Proof. induction l as [|x l IH]; [reflexivity|]. rewrite sumZ_cons, IH. reflexivity. Qed.

Lemma sumZ_remove g x l :
  NoDup l -> In x l -> sumZ g l = g x + sumZ g (remove Z.eq_dec x l).
Proof.
  induction l as [|y l IH]; intros Hnd Hin; [destruct Hin|].
  inversion Hnd as [|? ? Hn Hd]; subst. cbn [remove]. rewrite sumZ_cons.
  destruct (Z.eq_dec x y) as [->|Hne].
  - rewrite notin_remove by exact Hn. reflexivity.
  - destruct Hin as [H|H]; [congruence|]. rewrite sumZ_cons.
    rewrite (IH Hd H). lia.
Qed.

Lemma NoDup_remove_Z x l : NoDup l -> NoDup (remove Z.eq_dec x l).
Proof.
  induction l as [|y l IH]; cbn; intro H; [constructor|].
  inversion H as [|? ? Hn Hd]; subst. destruct (Z.eq_dec x y); [apply IH; exact Hd|].
  constructor; [|apply IH; exact Hd]. intro Hin. apply in_remove in Hin. tauto.
Qed.

(* changing g on a duplicate-free set B of points changes the sum by the sum of the changes *)
Lemma sumZ_change g g' : forall U B,
  NoDup U -> NoDup B -> incl B U -> (forall x, In x U -> ~ In x B -> g' x = g x) ->
  sumZ g' U = sumZ g U + sumZ (fun x => g' x - g x) B.
Proof.
  induction U as [|x U IH]; intros B HU HB Hincl Hsame.
  - destruct B as [|b B]; [reflexivity|]. exfalso. apply (Hincl b). left. reflexivity.
  - inversion HU as [|? ? Hn Hd]; subst. rewrite !sumZ_cons.
    destruct (in_dec Z.eq_dec x B) as [Hin|Hnin].
    + rewrite (sumZ_remove (fun y => g' y - g y) x B HB Hin).
      rewrite (IH (remove Z.eq_dec x B) Hd (NoDup_remove_Z x B HB)).
      * lia.
      * intros y Hy. apply in_remove in Hy. destruct Hy as [Hy Hne].
        destruct (Hincl y Hy) as [H|H]; [congruence|exact H].
      * intros y HyU Hy. apply Hsame; [right; exact HyU|].
        intro H. apply Hy. apply in_in_remove; [|exact H]. intro; subst. tauto.
    + rewrite (Hsame x (or_introl eq_refl) Hnin). rewrite (IH B Hd HB).
      * lia.
      * intros y Hy. destruct (Hincl y Hy) as [H|H]; [subst; tauto|exact H].
      * intros y HyU Hy. apply Hsame; [right; exact HyU|exact Hy].
Qed.

(* a sum only sees the points where g is not 0 *)
Lemma sumZ_superset g U l :
  NoDup U -> NoDup l -> incl l U -> (forall x, In x U -> ~ In x l -> g x = 0) ->
  sumZ g U = sumZ g l.
Proof.
  intros HU Hl Hincl Hz.
  rewrite (sumZ_change (fun _ => 0) g U l HU Hl Hincl Hz). rewrite sumZ_zero.
  cbn. apply sumZ_ext. intros; lia.
Qed.

Lemma sumZ_bounds g l lo hi :
  (forall x, In x l -> lo <= g x <= hi) ->
  lo * Z.of_nat (length l) <= sumZ g l <= hi * Z.of_nat (length l).
Proof.
  induction l as [|x l IH]; intro H; [rewrite sumZ_nil; cbn; lia|].
  rewrite sumZ_cons. cbn [length].
  specialize (IH (fun y Hy => H y (or_intror Hy))). specialize (H x (or_introl eq_refl)). lia.
Qed.

Lemma sumZ_filter (p : Z -> bool) l :
  sumZ (fun x => if p x then 1 else 0) l = Z.of_nat (length (filter p l)).
Proof.
  induction l as [|x l IH]; [reflexivity|]. rewrite sumZ_cons. cbn [filter]. rewrite IH.
  destruct (p x); cbn [length]; lia.
Qed.

Lemma sumZ_map_fst {A} (g : Z -> Z) (l : list (Z * A)) :
  sumZ g (map fst l) = fold_right (fun o a => g (fst o) + a) 0 l.
Proof. induction l as [|o l IH]; [reflexivity|]. cbn [map]. rewrite sumZ_cons. cbn. f_equal. exact IH. Qed.
