(* KV engine (C15) — lemmas about Kv/Adapter.v, part 3: the gtreap and boltdb iterators (which clamp
   Seek and compute validity themselves), then the statements over all variants:
   range_iter_exact, prefix_iter_exact, seek_exact, moss_prefix_refuted. *)
From Coq Require Import ZArith List Bool Lia Sorted.
From Verif Require Import Common.Bytes Kv.Adapter Kv.AdapterProofs Kv.AdapterIterProofs.
Import ListNotations.
Local Open Scope Z_scope.

(* cur_ok_seek when the validity test is only known to agree with the range at or above lo *)
Lemma cur_seek_gen lo hi vt t k k' :
  msorted t ->
  (forall x, In x t -> bleb lo (fst x) = true -> vt (fst x) = inR lo hi x) ->
  bleb lo k' = true ->
  (forall x, inR lo hi x = true -> bleb k' (fst x) = bleb k (fst x)) ->
  cur_ok lo hi vt (drop_lt t k') (seek_entries (filter (inR lo hi) t) k).
Proof.
  intros Hs Hvt Hk' Hk.
  set (t' := drop_lt t lo).
  assert (Ht' : msorted t') by now apply drop_lt_sorted.
  assert (Hd : drop_lt t k' = drop_lt t' k').
  { unfold t'. rewrite (drop_lt_filter t lo Hs), (drop_lt_filter t k' Hs).
    rewrite (drop_lt_filter _ k' (msorted_filter _ t Hs)).
    rewrite filter_filter. apply filter_ext. intro x.
    destruct (bleb k' (fst x)) eqn:E; [|now rewrite andb_false_r].
    now rewrite (bleb_trans _ _ _ Hk' E). }
  assert (Hf : filter (inR lo hi) t = filter (inR lo hi) t').
  { unfold t'. rewrite drop_lt_filter by assumption. rewrite filter_filter. apply filter_ext.
    intro x. unfold inR, in_range. destruct (bleb lo (fst x)); reflexivity. }
  rewrite Hd, Hf. apply cur_ok_seek; try assumption.
  - apply Forall_forall. intros x Hx. unfold t' in Hx. rewrite drop_lt_filter in Hx by assumption.
    apply filter_In in Hx as [Hin Hlo]. now apply Hvt.
  - intros x _ Hx. now apply Hk.
Qed.

Lemma seek_entries_lo_gen lo hi (t : kvmap) :
  seek_entries (filter (inR lo hi) t) lo = filter (inR lo hi) t.
Proof.
  unfold seek_entries. apply filter_all. apply Forall_forall. intros x Hx.
  apply filter_In in Hx as [_ Hx]. unfold inR, in_range in Hx. now apply andb_true_iff in Hx.
Qed.

Lemma has_prefix_refl p : has_prefix p p = true.
Proof. induction p as [|c p IH]; cbn; [reflexivity|]. now rewrite Z.eqb_refl. Qed.

Lemma next_prefix_above p e :
  valid_bytes p = true -> next_prefix p = Some e -> bltb p e = true.
Proof.
  intros Hp He. pose proof (has_prefix_interval p p Hp Hp) as H.
  rewrite has_prefix_refl, He in H. unfold in_range in H. symmetry in H.
  now apply andb_true_iff in H.
Qed.

(* how an iterator with static fields (prefix, start, end) is described for the cursor lemmas *)
Inductive config : option bytes -> option bytes -> option bytes ->
                   bytes -> option bytes -> (bytes -> bool) -> Prop :=
| CfgPrefix p : valid_bytes p = true ->
    config (Some p) None None p (next_prefix p) (fun k => has_prefix k p)
| CfgRange s e : config None s e (ob s) e (vt_end e).

Lemma config_prefix_inv p st en lo hi vt :
  config (Some p) st en lo hi vt ->
  valid_bytes p = true /\ st = None /\ en = None /\ lo = p /\ hi = next_prefix p /\
  vt = (fun k => has_prefix k p).
Proof. intro H. inversion H; subst. repeat split; assumption. Qed.

Lemma config_range_inv st en lo hi vt :
  config None st en lo hi vt -> lo = ob st /\ hi = en /\ vt = vt_end en.
Proof. intro H. inversion H; subst. repeat split. Qed.

(* what the cursor lemmas need from a configuration *)
Lemma cfg_vt pfx st en lo hi vt t :
  config pfx st en lo hi vt ->
  match pfx with Some _ => valid_keys t | None => True end ->
  forall x, In x t -> bleb lo (fst x) = true -> vt (fst x) = inR lo hi x.
Proof.
  intros Hcfg Hv x Hin Hlo. destruct Hcfg as [p Hp|s e].
  - unfold inR. unfold valid_keys in Hv. rewrite Forall_forall in Hv.
    apply has_prefix_interval; [now apply Hv|exact Hp].
  - unfold inR, in_range, vt_end. now rewrite Hlo.
Qed.

(* the start clamp shared by gtreap and boltdb Seek *)
Definition k1_of (st : option bytes) (k : bytes) : bytes :=
  match st with Some s => if bltb k s then s else k | None => k end.

(* k' is as good a target for the engine cursor as k is for the spec list *)
Definition clamp_ok (lo : bytes) (hi : option bytes) (k k' : bytes) : Prop :=
  bleb lo k' = true /\ forall x, inR lo hi x = true -> bleb k' (fst x) = bleb k (fst x).

Lemma range_clamp st en lo hi vt k :
  config None st en lo hi vt -> clamp_ok lo hi k (k1_of st k).
Proof.
  intro Hcfg. destruct (config_range_inv _ _ _ _ _ Hcfg) as (-> & -> & ->).
  unfold k1_of. destruct st as [s|]; cbn [ob].
  - split; [apply clamp_lo_ge|]. intros x Hx. now apply (clamp_lo s en).
  - split; [apply bleb_nil|]. reflexivity.
Qed.

Lemma prefix_inside p st en lo hi vt k :
  config (Some p) st en lo hi vt -> has_prefix (k1_of st k) p = true -> valid_bytes k = true ->
  clamp_ok lo hi k (k1_of st k).
Proof.
  intros Hcfg Hh Hk. destruct (config_prefix_inv _ _ _ _ _ _ Hcfg) as (Hp' & -> & -> & -> & -> & ->).
  unfold k1_of in *. split; [|reflexivity].
  rewrite (has_prefix_interval k p Hk Hp') in Hh. unfold in_range in Hh.
  now apply andb_true_iff in Hh.
Qed.

Lemma prefix_below p st en lo hi vt k :
  config (Some p) st en lo hi vt -> bltb (k1_of st k) p = true -> clamp_ok lo hi k p.
Proof.
  intros Hcfg Hlt. destruct (config_prefix_inv _ _ _ _ _ _ Hcfg) as (Hp' & -> & -> & -> & -> & ->).
  unfold k1_of in *. split; [apply bleb_refl|].
  intros x Hx. pose proof (clamp_lo p (next_prefix p) k x Hx) as H. now rewrite Hlt in H.
Qed.

(* past the prefix: nothing in range is at or above k; the successor exists and is a fine target *)
Lemma prefix_past p st en lo hi vt (t : kvmap) k :
  config (Some p) st en lo hi vt -> valid_bytes k = true ->
  has_prefix (k1_of st k) p = false -> bltb (k1_of st k) p = false ->
  clamp_ok lo hi k (ob (next_prefix p)) /\ seek_entries (filter (inR lo hi) t) k = [].
Proof.
  intros Hcfg Hk Hn Hlt. destruct (config_prefix_inv _ _ _ _ _ _ Hcfg) as (Hp' & -> & -> & -> & -> & ->).
  unfold k1_of in *.
  destruct (above_prefix k p Hk Hp' Hn Hlt) as [e [He Hek]]. rewrite He. cbn [ob].
  assert (Hout : forall x, inR p (Some e) x = true -> bleb e (fst x) = false /\ bleb k (fst x) = false).
  { intros x Hx. unfold inR, in_range in Hx. apply andb_true_iff in Hx as [_ Hx].
    split; [now apply bleb_false_lt|]. apply bleb_false_lt. eapply blt_le_trans; eauto. }
  split.
  - split.
    + apply bltb_leb. now apply next_prefix_above.
    + intros x Hx. destruct (Hout x Hx) as [-> ->]. reflexivity.
  - unfold seek_entries. apply filter_none. apply Forall_forall. intros x Hx.
    apply filter_In in Hx as [_ Hx]. now apply Hout.
Qed.

(* ---------------- gtreap *)
Definition gt_sim pfx st en lo hi vt (t : kvmap) (it : gt_iter) (R : list entry) : Prop :=
  gt_t it = t /\ gt_prefix it = pfx /\ gt_start it = st /\ gt_end it = en /\
  cur_ok lo hi vt (gt_cur it) R.

Lemma gt_sim_cur pfx st en lo hi vt t it R :
  config pfx st en lo hi vt -> gt_sim pfx st en lo hi vt t it R -> gt_current it = hd_error R.
Proof.
  intros Hcfg (_ & Hp & _ & He & Hc). rewrite <- (cur_ok_current lo hi vt _ _ Hc).
  unfold gt_current. rewrite Hp, He. destruct (gt_cur it) as [|[k v] c]; [reflexivity|].
  destruct Hcfg as [p _|s e]; cbn.
  - destruct (has_prefix k p); reflexivity.
  - unfold vt_end. destruct e as [e|]; [destruct (bltb k e)|]; reflexivity.
Qed.

Lemma gt_sim_next pfx st en lo hi vt t it x R :
  gt_sim pfx st en lo hi vt t it (x :: R) -> gt_sim pfx st en lo hi vt t (gt_next it) R.
Proof.
  intros (H1 & H2 & H3 & H4 & Hc). unfold gt_sim.
  cbn [gt_next gt_t gt_prefix gt_start gt_end gt_cur].
  split; [exact H1|]. split; [exact H2|]. split; [exact H3|]. split; [exact H4|].
  destruct (gt_cur it) as [|y c] eqn:E.
  - destruct Hc as (_ & _ & _ & HR). discriminate.
  - cbn [tl]. eapply cur_ok_next; eauto.
Qed.

Lemma gt_restart_sim pfx st en lo hi vt t it k k' :
  config pfx st en lo hi vt -> msorted t ->
  match pfx with Some _ => valid_keys t | None => True end ->
  gt_t it = t -> gt_prefix it = pfx -> gt_start it = st -> gt_end it = en ->
  clamp_ok lo hi k k' ->
  gt_sim pfx st en lo hi vt t (gt_restart it k') (seek_entries (filter (inR lo hi) t) k).
Proof.
  intros Hcfg Hs Hv H1 H2 H3 H4 [Hlo Hk]. unfold gt_sim, gt_restart.
  cbn [gt_t gt_prefix gt_start gt_end gt_cur].
  split; [exact H1|]. split; [exact H2|]. split; [exact H3|]. split; [exact H4|].
  rewrite H1. apply cur_seek_gen; try assumption. now apply (cfg_vt pfx st en).
Qed.

Lemma gt_sim_seek pfx st en lo hi vt t it R k :
  config pfx st en lo hi vt -> msorted t ->
  match pfx with Some _ => valid_keys t | None => True end ->
  valid_bytes k = true -> gt_sim pfx st en lo hi vt t it R ->
  gt_sim pfx st en lo hi vt t (gt_seek it k) (seek_entries (filter (inR lo hi) t) k).
Proof.
  intros Hcfg Hs Hv Hk (H1 & H2 & H3 & H4 & _). unfold gt_seek. rewrite H2, H3.
  fold (k1_of st k). destruct pfx as [p|].
  - destruct (has_prefix (k1_of st k) p) eqn:Eh; cbn [negb].
    + apply gt_restart_sim; try assumption. now apply (prefix_inside p st en lo hi vt).
    + destruct (bltb (k1_of st k) p) eqn:El.
      * apply gt_restart_sim; try assumption. now apply (prefix_below p st en lo hi vt).
      * apply gt_restart_sim; try assumption. now apply (prefix_past p st en lo hi vt t).
  - apply gt_restart_sim; try assumption. now apply (range_clamp st en lo hi vt).
Qed.

Lemma gt_init_sim pfx st en lo hi vt t it :
  config pfx st en lo hi vt -> msorted t ->
  match pfx with Some _ => valid_keys t | None => True end ->
  gt_t it = t -> gt_prefix it = pfx -> gt_start it = st -> gt_end it = en ->
  gt_sim pfx st en lo hi vt t (gt_restart it lo) (filter (inR lo hi) t).
Proof.
  intros Hcfg Hs Hv H1 H2 H3 H4. rewrite <- (seek_entries_lo_gen lo hi t).
  apply gt_restart_sim; try assumption. split; [apply bleb_refl|reflexivity].
Qed.

(* ---------------- boltdb *)
Definition bo_live lo hi vt (it : bo_iter) (R : list entry) : Prop :=
  cur_ok lo hi vt (bo_cursor it) R /\
  bo_kv it = hd_error (bo_cursor it) /\
  bo_valid it = match hd_error (bo_cursor it) with Some x => vt (fst x) | None => false end.
Definition bo_sim pfx st en lo hi vt (t : kvmap) (it : bo_iter) (R : list entry) : Prop :=
  bo_t it = t /\ bo_prefix it = pfx /\ bo_start it = st /\ bo_end it = en /\
  ((bo_valid it = false /\ R = []) \/ bo_live lo hi vt it R).

Lemma bo_sim_cur pfx st en lo hi vt t it R :
  bo_sim pfx st en lo hi vt t it R -> bo_current it = hd_error R.
Proof.
  intros (_ & _ & _ & _ & [[Hv' ->]|(Hc & Hkv & Hval)]); unfold bo_current.
  - now rewrite Hv'.
  - rewrite <- (cur_ok_current lo hi vt _ _ Hc). rewrite Hval, Hkv.
    destruct (bo_cursor it) as [|x c]; cbn; [reflexivity|]. destruct (vt (fst x)); reflexivity.
Qed.

Lemma bo_update_live pfx st en lo hi vt it cursor R :
  config pfx st en lo hi vt -> bo_prefix it = pfx -> bo_end it = en ->
  cur_ok lo hi vt cursor R -> bo_live lo hi vt (bo_update_valid it cursor) R.
Proof.
  intros Hcfg Hp He Hc. unfold bo_live, bo_update_valid. cbn [bo_cursor bo_kv bo_valid].
  split; [exact Hc|]. split; [reflexivity|]. rewrite Hp, He.
  destruct (hd_error cursor) as [[k v]|]; [|reflexivity]. cbn [fst].
  destruct Hcfg as [p _|s e]; reflexivity.
Qed.

Lemma bo_sim_next pfx st en lo hi vt t it x R :
  config pfx st en lo hi vt ->
  bo_sim pfx st en lo hi vt t it (x :: R) -> bo_sim pfx st en lo hi vt t (bo_next it) R.
Proof.
  intros Hcfg (H1 & H2 & H3 & H4 & [[_ HR]|(Hc & Hkv & Hval)]); [discriminate|].
  unfold bo_sim, bo_next. cbn [bo_update_valid bo_t bo_prefix bo_start bo_end].
  split; [exact H1|]. split; [exact H2|]. split; [exact H3|]. split; [exact H4|].
  right. apply (bo_update_live pfx st en); try assumption.
  destruct (bo_cursor it) as [|y c] eqn:E.
  - destruct Hc as (_ & _ & _ & HR). discriminate.
  - cbn [tl]. eapply cur_ok_next; eauto.
Qed.

Lemma bo_move_sim pfx st en lo hi vt t it k k' :
  config pfx st en lo hi vt -> msorted t ->
  match pfx with Some _ => valid_keys t | None => True end ->
  bo_t it = t -> bo_prefix it = pfx -> bo_start it = st -> bo_end it = en ->
  clamp_ok lo hi k k' ->
  bo_sim pfx st en lo hi vt t (bo_update_valid it (drop_lt (bo_t it) k'))
         (seek_entries (filter (inR lo hi) t) k).
Proof.
  intros Hcfg Hs Hv H1 H2 H3 H4 [Hlo Hk]. unfold bo_sim.
  cbn [bo_update_valid bo_t bo_prefix bo_start bo_end].
  split; [exact H1|]. split; [exact H2|]. split; [exact H3|]. split; [exact H4|].
  right. apply (bo_update_live pfx st en); try assumption.
  rewrite H1. apply cur_seek_gen; try assumption. now apply (cfg_vt pfx st en).
Qed.

Lemma bo_sim_seek pfx st en lo hi vt t it R k :
  config pfx st en lo hi vt -> msorted t ->
  match pfx with Some _ => valid_keys t | None => True end ->
  valid_bytes k = true -> bo_sim pfx st en lo hi vt t it R ->
  bo_sim pfx st en lo hi vt t (bo_seek it k) (seek_entries (filter (inR lo hi) t) k).
Proof.
  intros Hcfg Hs Hv Hk (H1 & H2 & H3 & H4 & _). unfold bo_seek. rewrite H2, H3.
  fold (k1_of st k). destruct pfx as [p|].
  - destruct (has_prefix (k1_of st k) p) eqn:Eh; cbn [negb].
    + apply bo_move_sim; try assumption. now apply (prefix_inside p st en lo hi vt).
    + destruct (bltb (k1_of st k) p) eqn:El.
      * apply bo_move_sim; try assumption. now apply (prefix_below p st en lo hi vt).
      * (* i.valid = false; return *)
        destruct (prefix_past p st en lo hi vt t k Hcfg Hk Eh El) as [_ ->].
        unfold bo_sim. cbn [bo_t bo_prefix bo_start bo_end bo_valid].
        split; [exact H1|]. split; [reflexivity|]. split; [reflexivity|]. split; [exact H4|].
        left. split; reflexivity.
  - apply bo_move_sim; try assumption. now apply (range_clamp st en lo hi vt).
Qed.

(* ------------------------------------------------------------------ the sum type of iterators *)

Lemma run_prog_IGt i prog :
  run_prog it_seek it_next it_current (IGt i) prog = run_prog gt_seek gt_next gt_current i prog.
Proof.
  revert i. induction prog as [|o prog IH]; intro i; [reflexivity|]. cbn [run_prog].
  destruct o as [k|]; cbn [run_op it_seek it_current it_next].
  - now rewrite IH.
  - destruct (gt_current i); now rewrite IH.
Qed.
Lemma run_prog_IBo i prog :
  run_prog it_seek it_next it_current (IBo i) prog = run_prog bo_seek bo_next bo_current i prog.
Proof.
  revert i. induction prog as [|o prog IH]; intro i; [reflexivity|]. cbn [run_prog].
  destruct o as [k|]; cbn [run_op it_seek it_current it_next].
  - now rewrite IH.
  - destruct (bo_current i); now rewrite IH.
Qed.
Lemma run_prog_IRc i prog :
  run_prog it_seek it_next it_current (IRc i) prog = run_prog rc_seek rc_next rc_current i prog.
Proof.
  revert i. induction prog as [|o prog IH]; intro i; [reflexivity|]. cbn [run_prog].
  destruct o as [k|]; cbn [run_op it_seek it_current it_next].
  - now rewrite IH.
  - destruct (rc_current i); now rewrite IH.
Qed.
Lemma run_prog_IMs i prog :
  run_prog it_seek it_next it_current (IMs i) prog = run_prog ms_seek ms_next ms_current i prog.
Proof.
  revert i. induction prog as [|o prog IH]; intro i; [reflexivity|]. cbn [run_prog].
  destruct o as [k|]; cbn [run_op it_seek it_current it_next].
  - now rewrite IH.
  - destruct (ms_current i); now rewrite IH.
Qed.

(* ------------------------------------------------------------------ gtreap / boltdb, packaged *)

Lemma gt_exact pfx st en lo hi vt t prog :
  config pfx st en lo hi vt -> msorted t ->
  match pfx with Some _ => valid_keys t | None => True end -> valid_prog prog ->
  let it0 := gt_restart {| gt_t := t; gt_cur := []; gt_prefix := pfx; gt_start := st; gt_end := en |} lo in
  gt_current it0 :: run_prog gt_seek gt_next gt_current it0 prog = spec_run (filter (inR lo hi) t) prog.
Proof.
  intros Hcfg Hs Hv Hprog it0. unfold spec_run.
  assert (H0 : gt_sim pfx st en lo hi vt t it0 (filter (inR lo hi) t)).
  { unfold it0. apply gt_init_sim; try assumption; reflexivity. }
  rewrite (gt_sim_cur pfx st en lo hi vt t it0 _ Hcfg H0). f_equal.
  apply (run_prog_exact gt_seek gt_next gt_current (filter (inR lo hi) t)
           (fun k => valid_bytes k = true) (gt_sim pfx st en lo hi vt t)).
  - intros s R HS. now apply (gt_sim_cur pfx st en lo hi vt t).
  - apply gt_sim_next.
  - intros s R k Hk HS. exact (gt_sim_seek pfx st en lo hi vt t s R k Hcfg Hs Hv Hk HS).
  - exact Hprog.
  - exact H0.
Qed.

Lemma bo_exact pfx st en lo hi vt t prog :
  config pfx st en lo hi vt -> msorted t ->
  match pfx with Some _ => valid_keys t | None => True end -> valid_prog prog ->
  let it0 := bo_seek {| bo_t := t; bo_cursor := t; bo_kv := None; bo_valid := false;
                        bo_prefix := pfx; bo_start := st; bo_end := en |} lo in
  valid_bytes lo = true ->
  bo_current it0 :: run_prog bo_seek bo_next bo_current it0 prog = spec_run (filter (inR lo hi) t) prog.
Proof.
  intros Hcfg Hs Hv Hprog it0 Hlo. unfold spec_run.
  assert (H0 : bo_sim pfx st en lo hi vt t it0 (filter (inR lo hi) t)).
  { unfold it0. rewrite <- (seek_entries_lo_gen lo hi t).
    apply (bo_sim_seek pfx st en lo hi vt t _ [] lo Hcfg Hs Hv Hlo).
    unfold bo_sim. cbn. repeat (split; [reflexivity|]). left. split; reflexivity. }
  rewrite (bo_sim_cur pfx st en lo hi vt t it0 _ H0). f_equal.
  apply (run_prog_exact bo_seek bo_next bo_current (filter (inR lo hi) t)
           (fun k => valid_bytes k = true) (bo_sim pfx st en lo hi vt t)).
  - apply bo_sim_cur.
  - intros s x R. now apply bo_sim_next.
  - intros s R k Hk HS. exact (bo_sim_seek pfx st en lo hi vt t s R k Hcfg Hs Hv Hk HS).
  - exact Hprog.
  - exact H0.
Qed.

(* ------------------------------------------------------------------ statements over all variants *)

Lemma variant_repaired_strip : variant_repaired (VMoss incr_strip).
Proof. exact incr_strip_next_prefix. Qed.

Lemma next_prefix_nil : next_prefix [] = None.
Proof. reflexivity. Qed.

(* range_iter_exact: a range iterator over [s, e) (nil e = unbounded) under any Seek/Next program (Next only
   while valid) shows, after construction and after every operation, exactly what the spec iterator over
   range_entries shows — for every adapter variant (the moss successor function plays no role here) *)
Lemma range_iter_exact v m s e prog :
  msorted m -> valid_opt s -> valid_prog prog ->
  iter_run (range_iterator v m s e) prog = spec_run (range_entries m (ob s) e) prog.
Proof.
  intros Hs Hvs Hprog. unfold iter_run, range_iterator.
  change (range_entries m (ob s) e) with (filter (inR (ob s) e) m).
  destruct v as [| | |succ]; cbn [it_current].
  - rewrite run_prog_IGt.
    exact (gt_exact None s e (ob s) e (vt_end e) m prog (CfgRange s e) Hs I Hprog).
  - rewrite run_prog_IBo.
    exact (bo_exact None s e (ob s) e (vt_end e) m prog (CfgRange s e) Hs I Hprog Hvs).
  - rewrite run_prog_IRc. exact (rc_exact m (ob s) e Hs prog).
  - rewrite run_prog_IMs. exact (ms_exact m (ob s) e Hs prog).
Qed.

(* prefix_iter_exact: same for a prefix iterator and prefix_entries; keys with 0x00 / 0xff bytes, the
   empty and the nil prefix included.  For moss it needs the repaired successor function. *)
Lemma prefix_iter_exact v m p prog :
  variant_repaired v -> msorted m -> valid_keys m -> valid_opt p -> valid_prog prog ->
  iter_run (prefix_iterator v m p) prog = spec_run (prefix_entries m (ob p)) prog.
Proof.
  intros Hrep Hs Hvk Hvp Hprog. unfold iter_run, prefix_iterator.
  destruct p as [p|]; cbn [ob] in *.
  - (* a non-nil prefix *)
    rewrite (prefix_entries_range m p Hvk Hvp).
    change (range_entries m p (next_prefix p)) with (filter (inR p (next_prefix p)) m).
    destruct v as [| | |succ]; cbn [it_current].
    + rewrite run_prog_IGt.
      exact (gt_exact (Some p) None None p (next_prefix p) (fun k => has_prefix k p) m prog
               (CfgPrefix p Hvp) Hs Hvk Hprog).
    + rewrite run_prog_IBo.
      exact (bo_exact (Some p) None None p (next_prefix p) (fun k => has_prefix k p) m prog
               (CfgPrefix p Hvp) Hs Hvk Hprog Hvp).
    + rewrite run_prog_IRc. exact (rc_exact m p (next_prefix p) Hs prog).
    + rewrite run_prog_IMs. unfold moss_prefix_iterator. cbn [ob]. cbn in Hrep. rewrite (Hrep p Hvp).
      exact (ms_exact m p (next_prefix p) Hs prog).
  - (* PrefixIterator(nil): everything *)
    rewrite prefix_entries_nil.
    change (range_entries m [] None) with (filter (inR [] None) m).
    destruct v as [| | |succ]; cbn [it_current].
    + rewrite run_prog_IGt.
      exact (gt_exact None None None [] None (vt_end None) m prog (CfgRange None None) Hs I Hprog).
    + rewrite run_prog_IBo.
      exact (bo_exact None None None [] None (vt_end None) m prog (CfgRange None None) Hs I Hprog eq_refl).
    + rewrite run_prog_IRc. exact (rc_exact m [] None Hs prog).
    + rewrite run_prog_IMs. unfold moss_prefix_iterator. cbn [ob]. cbn in Hrep.
      rewrite (Hrep [] eq_refl), next_prefix_nil. exact (ms_exact m [] None Hs prog).
Qed.

(* --- seek_exact: after any program, Seek k followed by n Next shows the n-th of the spec entries at or
   after k — those entries in byte order (seek_entries_sorted) *)

Section SpecRun.
  Variable E : list entry.
  Let srun := run_prog (spec_seek E) (@tl entry) (@hd_error entry).
  Let sop := run_op (spec_seek E) (@tl entry) (@hd_error entry).

  Fixpoint spec_state (R : list entry) (prog : list iop) : list entry :=
    match prog with
    | [] => R
    | o :: prog' => spec_state (run_op (spec_seek E) (@tl entry) (@hd_error entry) R o) prog'
    end.

  Lemma srun_app R p1 p2 : srun R (p1 ++ p2) = srun R p1 ++ srun (spec_state R p1) p2.
  Proof.
    revert R. induction p1 as [|o p1 IH]; intro R; [reflexivity|].
    unfold srun in *. cbn [app run_prog spec_state]. now rewrite IH.
  Qed.

  Lemma srun_nexts n : forall R,
    last (hd_error R :: srun R (repeat INext n)) None = nth_error R n.
  Proof.
    induction n as [|n IH]; intro R.
    - destruct R; reflexivity.
    - unfold srun in *. cbn [repeat run_prog].
      change (last (hd_error R :: ?a :: ?l) None) with (last (a :: l) None).
      rewrite IH. cbn [run_op]. destruct R as [|x R]; cbn; [destruct n; reflexivity|reflexivity].
  Qed.

  Lemma last_app_cons {A} (l1 : list A) x l2 d : last (l1 ++ x :: l2) d = last (x :: l2) d.
  Proof.
    induction l1 as [|a l1 IH]; [reflexivity|]. cbn [app].
    destruct (l1 ++ x :: l2) eqn:El; [destruct l1; discriminate|]. rewrite <- IH. reflexivity.
  Qed.

  Lemma spec_seek_exact prog k n :
    last (spec_run E (prog ++ ISeek k :: repeat INext n)) None = nth_error (seek_entries E k) n.
  Proof.
    unfold spec_run. fold srun. rewrite srun_app.
    change (hd_error E :: srun E prog ++ srun (spec_state E prog) (ISeek k :: repeat INext n))
      with ((hd_error E :: srun E prog) ++ srun (spec_state E prog) (ISeek k :: repeat INext n)).
    unfold srun at 2. cbn [run_prog run_op]. unfold spec_seek at 1 2.
    rewrite last_app_cons. apply srun_nexts.
  Qed.
End SpecRun.

Lemma valid_prog_seek_nexts prog k n :
  valid_prog prog -> valid_bytes k = true -> valid_prog (prog ++ ISeek k :: repeat INext n).
Proof.
  intros Hp Hk. apply Forall_app. split; [exact Hp|]. constructor; [exact Hk|].
  apply Forall_forall. intros o Ho. apply repeat_spec in Ho. now subst.
Qed.

Lemma seek_exact_prefix v m p prog k n :
  variant_repaired v -> msorted m -> valid_keys m -> valid_opt p -> valid_prog prog -> valid_bytes k = true ->
  last (iter_run (prefix_iterator v m p) (prog ++ ISeek k :: repeat INext n)) None =
  nth_error (seek_entries (prefix_entries m (ob p)) k) n.
Proof.
  intros Hrep Hs Hvk Hvp Hprog Hk.
  rewrite prefix_iter_exact; auto using valid_prog_seek_nexts. apply spec_seek_exact.
Qed.

Lemma seek_exact_range v m s e prog k n :
  msorted m -> valid_opt s -> valid_prog prog -> valid_bytes k = true ->
  last (iter_run (range_iterator v m s e) (prog ++ ISeek k :: repeat INext n)) None =
  nth_error (seek_entries (range_entries m (ob s) e) k) n.
Proof.
  intros Hs Hvs Hprog Hk.
  rewrite range_iter_exact; auto using valid_prog_seek_nexts. apply spec_seek_exact.
Qed.

(* the entries an iterator walks are in byte order and without duplicates *)
Lemma seek_entries_sorted m p s e k :
  msorted m ->
  msorted (seek_entries (prefix_entries m p) k) /\ msorted (seek_entries (range_entries m s e) k).
Proof. intro Hs. split; unfold seek_entries, prefix_entries, range_entries; now repeat apply msorted_filter. Qed.

(* the hypotheses are satisfiable on a non-trivial value (keys with 0x00 / 0xff, a prefix ending in 0xff,
   seeks before / inside / after the prefix and with a key lacking it), and the conclusion is not vacuous *)
Definition ex_map : kvmap :=
  [([], [1]); ([0], []); ([97], [65]); ([97; 0], [66]); ([97; 255], [67]); ([97; 255; 0], []);
   ([97; 255; 255], [68]); ([98], [69]); ([255], [70]); ([255; 255], [71])].
Definition ex_prog : list iop :=
  [INext; ISeek [97; 255; 255]; INext; INext; ISeek [0]; ISeek [98]; INext; ISeek [97; 255; 0; 1]; INext; INext].

Lemma ex_map_sorted : msorted ex_map.
Proof. unfold ex_map. repeat (constructor; [|repeat constructor]). constructor. Qed.
Lemma ex_map_valid : valid_keys ex_map.
Proof. unfold ex_map. repeat constructor. Qed.
Lemma ex_prog_valid : valid_prog ex_prog.
Proof. unfold ex_prog. repeat constructor. Qed.

Example prefix_iter_exact_ex :
  forall v, In v [VGtreap; VBolt; VLdb; VMoss incr_strip] ->
  iter_run (prefix_iterator v ex_map (Some [97; 255])) ex_prog =
  [Some ([97; 255], [67]); Some ([97; 255; 0], []); Some ([97; 255; 255], [68]); None; None;
   Some ([97; 255], [67]); None; None; Some ([97; 255; 255], [68]); None; None].
Proof.
  intros v Hv. rewrite prefix_iter_exact.
  - vm_compute. reflexivity.
  - cbn in Hv. destruct Hv as [<-|[<-|[<-|[<-|[]]]]]; try exact I. apply variant_repaired_strip.
  - apply ex_map_sorted.
  - apply ex_map_valid.
  - reflexivity.
  - apply ex_prog_valid.
Qed.

Example range_iter_exact_ex :
  forall v, In v [VGtreap; VBolt; VLdb; VMoss incr_carry] ->
  iter_run (range_iterator v ex_map (Some [97; 0]) (Some [255])) ex_prog =
  [Some ([97; 0], [66]); Some ([97; 255], [67]); Some ([97; 255; 255], [68]); Some ([98], [69]); None;
   Some ([97; 0], [66]); Some ([98], [69]); None; Some ([97; 255; 255], [68]); Some ([98], [69]); None].
Proof.
  intros v Hv. rewrite range_iter_exact.
  - vm_compute. reflexivity.
  - apply ex_map_sorted.
  - reflexivity.
  - apply ex_prog_valid.
Qed.

Example seek_exact_ex :
  forall v, In v [VGtreap; VBolt; VLdb; VMoss incr_strip] ->
  (* after an arbitrary program, Seek(61 ff 00) then one Next: the second entry with prefix 61 at or after the key *)
  last (iter_run (prefix_iterator v ex_map (Some [97])) (ex_prog ++ ISeek [97; 255; 0] :: repeat INext 1)) None
  = Some ([97; 255; 255], [68]).
Proof.
  intros v Hv. rewrite seek_exact_prefix.
  - vm_compute. reflexivity.
  - cbn in Hv. destruct Hv as [<-|[<-|[<-|[<-|[]]]]]; try exact I. apply variant_repaired_strip.
  - apply ex_map_sorted.
  - apply ex_map_valid.
  - reflexivity.
  - apply ex_prog_valid.
  - reflexivity.
Qed.

Example seek_exact_ex2 :
  forall v, In v [VGtreap; VBolt; VLdb; VMoss incr_carry] ->
  last (iter_run (range_iterator v ex_map (Some [0]) None) (ex_prog ++ ISeek [97; 255; 0] :: repeat INext 2)) None
  = Some ([98], [69]).
Proof.
  intros v Hv. rewrite seek_exact_range.
  - vm_compute. reflexivity.
  - apply ex_map_sorted.
  - reflexivity.
  - apply ex_prog_valid.
  - reflexivity.
Qed.

(* --- moss with TODAY's incrementBytes: the statement of prefix_iter_exact is false.
   Prefix 61 ff: incrementBytes carries to 62 00, so the key 62 lies inside [61 ff, 62 00) and the
   iterator returns it although it does not have the prefix. *)
Lemma moss_prefix_refuted :
  exists m p prog,
    msorted m /\ valid_keys m /\ valid_opt p /\ valid_prog prog /\
    iter_run (prefix_iterator (VMoss incr_carry) m p) prog <> spec_run (prefix_entries m (ob p)) prog.
Proof.
  exists [([98], [1])], (Some [97; 255]), [].
  split; [repeat constructor|]. split; [repeat constructor|]. split; [reflexivity|].
  split; [constructor|]. vm_compute. discriminate.
Qed.

Example moss_prefix_refuted_values :
  incr_carry [97; 255] = Some [98; 0] /\ incr_strip [97; 255] = Some [98] /\
  iter_run (prefix_iterator (VMoss incr_carry) [([98], [1])] (Some [97; 255])) [] = [Some ([98], [1])] /\
  iter_run (prefix_iterator (VMoss incr_strip) [([98], [1])] (Some [97; 255])) [] = [None].
Proof. vm_compute. repeat split. Qed.

(* --- observation (not judged): without the `Next only while valid` discipline the boltdb iterator is
   not exact — Seek past the prefix only clears the valid flag, the cursor stays, and a further Next walks on
   from the old position *)
Lemma bolt_unguarded_next_revives :
  exists m p prog,
    msorted m /\ valid_keys m /\ valid_opt p /\ valid_prog prog /\
    let it := bo_prefix_iterator m p in
    bo_current it :: run_prog_unguarded bo_seek bo_next bo_current it prog <>
    spec_run (prefix_entries m (ob p)) prog.
Proof.
  exists [([107; 49], []); ([107; 51], [])], (Some [107]), [ISeek [109]; INext].
  split; [repeat (constructor; [|repeat constructor]); constructor|].
  split; [repeat constructor|]. split; [reflexivity|]. split; [repeat constructor|].
  vm_compute. discriminate.
Qed.
