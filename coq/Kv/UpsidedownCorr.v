(* Upsidedown row store (C01) — correspondence cases.
   CUdc: one operation history run on the real upsidedown index over several KV stores.  After
   every step the harness dumps ALL rows of the real index (IndexReader.DumpAll) and DocCount();
   [check] replays the history through the model ([udc_batch] for a Batch call, [udc_update] /
   [udc_delete] / [udc_set_internal] / [udc_delete_internal] for single calls) and compares the
   whole row store after every step.

   What the harness canonicalises (renamings of what the engine returned, no expectation):
   - byte strings (terms, stored values) are interned to tokens, injectively per case;
   - a field is named by a fixed number per field NAME (the engine's own field rows translate
     its field indexes, which depend on the order in which analysis first saw the fields);
   - the entries inside a back index row and the rows of a dump are sorted (Go map iteration and
     key byte order are not the model's order); the model keeps its rows in [rowkey_compare] order;
   - stores whose dumps are identical are listed together on one dump.
   Numbers are primitive integers in the cases files (cheap to parse) and converted here. *)
From Coq Require Import ZArith List Bool Uint63.
From Verif Require Import Common.Bytes Scorch.Model Kv.Adapter Kv.Upsidedown.
Import ListNotations.
Local Open Scope Z_scope.

Definition zi (i : int) : Z := Uint63.to_Z i.

(* Up to four numbers below 10^4 are written as ONE decimal literal aaaabbbbccccdddd (coqc spends
   its time elaborating literals, vm_compute next to nothing unpacking them); the harness clamps
   anything larger to 9999, a value no component has in these histories. *)
Definition part (n : Z) (i : Z) : Z := (n / 10 ^ (4 * i)) mod 10000.

Inductive cte := TE (field : int) (terms : list int).          (* back index terms entry *)
Inductive cse := SE (field : int) (pos : list int).            (* back index stored entry *)

(* what the real analysis produced for one (id, version): taken from the rows of a scratch index
   into which that version alone was indexed *)
Inductive cdf := DF (field : int) (tfs : list int).            (* indexed field: each term, freq packed *)
Inductive cds := DS (n : int) (pos : list int).                (* stored entry: field, value packed; positions *)
Record cdoc := mkCDoc {
  cd_terms : list cdf;
  cd_stored : list cds
}.

Definition doc_of (d : cdoc) : udoc :=
  mkDoc (map (fun e => match e with DF f tfs => (zi f, map (fun n => let z := zi n in (part z 1, part z 0)) tfs) end) (cd_terms d))
        (map (fun e => match e with DS n p => let z := zi n in (part z 1, map zi p, part z 0) end) (cd_stored d)).

Inductive cdv := DV (id ver : int) (d : cdoc).                 (* analysis result of one indexed version *)

Inductive crow :=
| RB (id : int) (terms : list cte) (stored : list cse)         (* back index row *)
| RBv (id ver : int)                    (* back index row whose entries are, verbatim, those of the analysed version (id, ver) *)
| RD (n : int)                          (* dictionary row:  field, term, count *)
| RI (n : int)                          (* internal row:    key, value *)
| RS (n : int) (pos : list int)         (* stored row:      id, field, value; array positions *)
| RT (n : int).                         (* term freq row:   field, term, id, freq *)

Definition doctab := list (Z * Z * udoc).

Fixpoint doc_lookup (tab : doctab) (id ver : Z) : option udoc :=
  match tab with
  | [] => None
  | (i, v, d) :: tab' => if (i =? id) && (v =? ver) then Some d else doc_lookup tab' id ver
  end.

Definition row_of (tab : doctab) (r : crow) : row :=
  match r with
  | RB id terms stored =>
      (KBack (zi id), VBack (map (fun e => match e with TE f ts => (zi f, map zi ts) end) terms)
                            (map (fun e => match e with SE f p => (zi f, map zi p) end) stored))
  | RBv id ver =>
      (KBack (zi id), match doc_lookup tab (zi id) (zi ver) with
                      | Some d => doc_back_val d
                      | None => VInternal (-1)          (* no such version: matches nothing *)
                      end)
  | RD n => let z := zi n in (KDict (part z 2) (part z 1), VDict (part z 0))
  | RI n => let z := zi n in (KInternal (part z 1), VInternal (part z 0))
  | RS n p => let z := zi n in (KStored (part z 2) (part z 1) (map zi p), VStored (part z 0))
  | RT n => let z := zi n in (KTerm (part z 3) (part z 2) (part z 1), VTerm (part z 0))
  end.

Inductive cop :=
| OIndex (id ver : int)
| ODelete (id : int)
| OSetInt (key value : int)
| ODelInt (key : int).

(* A dump is either written out in full, or (to keep the cases files small) as the difference to
   the FIRST dump of the previous step: the rows that disappeared and the rows that are new or
   changed; [dm_nrows] is the number of rows of the whole dump either way. *)
Record cdump := mkDump {
  dm_stores : list int;                  (* which KV stores produced exactly this dump *)
  dm_full : bool;
  dm_gone : list crow;                   (* delta only: rows of the previous dump that are gone (keys matter) *)
  dm_rows : list crow;                   (* full: every row; delta: the new and the changed rows *)
  dm_nrows : int;
  dm_count : int                         (* DocCount() *)
}.

Record cstep := mkStep {
  st_single : bool;                      (* ops issued one by one (Index/Delete/SetInternal/DeleteInternal) instead of one Batch *)
  st_ops : list cop;                     (* in call order *)
  st_dumps : list cdump
}.

Inductive case :=
| CUdc (docs : list cdv) (steps : list cstep).

Definition doc_ops (ops : list cop) : list (Z * option Z) :=
  flat_map (fun o => match o with
                     | OIndex id v => [(zi id, Some (zi v))]
                     | ODelete id => [(zi id, None)]
                     | _ => []
                     end) ops.
Definition int_ops (ops : list cop) : list (Z * option Z) :=
  flat_map (fun o => match o with
                     | OSetInt k v => [(zi k, Some (zi v))]
                     | ODelInt k => [(zi k, None)]
                     | _ => []
                     end) ops.

(* the engine-level batch of a bleve.Batch: last op per id / per key (Scorch.Model.collapse) *)
Fixpoint resolve (tab : doctab) (b : list (Z * option Z)) : option (list (Z * option udoc)) :=
  match b with
  | [] => Some []
  | (id, None) :: b' => option_map (cons (id, None)) (resolve tab b')
  | (id, Some v) :: b' =>
      match doc_lookup tab id v, resolve tab b' with
      | Some d, Some r => Some ((id, Some d) :: r)
      | _, _ => None
      end
  end.

Definition apply_single (tab : doctab) (os : option ustore) (o : cop) : option ustore :=
  match os with
  | None => None
  | Some s =>
      match o with
      | OIndex id v => option_map (udc_update s (zi id)) (doc_lookup tab (zi id) (zi v))
      | ODelete id => Some (udc_delete s (zi id))
      | OSetInt k v => Some (udc_set_internal s (zi k) (zi v))
      | ODelInt k => Some (udc_delete_internal s (zi k))
      end
  end.

Definition apply_step (tab : doctab) (s : ustore) (st : cstep) : option ustore :=
  if st_single st then fold_left (apply_single tab) (st_ops st) (Some s)
  else option_map (fun ops => udc_batch s ops (collapse (int_ops (st_ops st))))
                  (resolve tab (collapse (doc_ops (st_ops st)))).

Definition entry_eqb (a b : Z * list Z) : bool := (fst a =? fst b) && list_eqb Z.eqb (snd a) (snd b).

Definition rowval_eqb (a b : rowval) : bool :=
  match a, b with
  | VBack t s, VBack t' s' => list_eqb entry_eqb t t' && list_eqb entry_eqb s s'
  | VTerm x, VTerm y => x =? y
  | VStored x, VStored y => x =? y
  | VDict x, VDict y => x =? y
  | VInternal x, VInternal y => x =? y
  | _, _ => false
  end.

Definition row_eqb (a b : row) : bool := rowkey_eqb (fst a) (fst b) && rowval_eqb (snd a) (snd b).

(* the rows the real index held, given the rows [prev] of the first dump of the previous step *)
Definition dump_rows (tab : doctab) (prev : rows) (d : cdump) : rows :=
  if dm_full d then map (row_of tab) (dm_rows d)
  else apply_sets (map (row_of tab) (dm_rows d)) (apply_dels (map (fun r => fst (row_of tab r)) (dm_gone d)) prev).

Definition dump_ok (tab : doctab) (s : ustore) (prev : rows) (d : cdump) : bool :=
  let r := dump_rows tab prev d in
  list_eqb row_eqb (u_rows s) r && (Z.of_nat (length r) =? zi (dm_nrows d)) && (u_count s =? zi (dm_count d)).

Definition next_prev (tab : doctab) (prev : rows) (ds : list cdump) : rows :=
  match ds with d :: _ => dump_rows tab prev d | [] => prev end.

Fixpoint check_steps (tab : doctab) (s : ustore) (prev : rows) (steps : list cstep) : bool :=
  match steps with
  | [] => true
  | st :: rest =>
      match apply_step tab s st with
      | None => false                    (* an indexed version without its analysis result *)
      | Some s' => forallb (dump_ok tab s' prev) (st_dumps st) &&
                   check_steps tab s' (next_prev tab prev (st_dumps st)) rest
      end
  end.

Definition tab_of (docs : list cdv) : doctab :=
  map (fun e => match e with DV id ver d => (zi id, zi ver, doc_of d) end) docs.

Definition check (c : case) : bool :=
  match c with
  | CUdc docs steps =>
      let tab := tab_of docs in
      forallb (fun e => wf_doc (snd e)) tab && check_steps tab udc_empty [] steps
  end.

(* what the model expected.  First, per step: docCount, and per dump of the step which stores
   produced it, whether it agrees, the rows only the real index has and the rows only the model
   has (None from the step on at which an analysis result is missing); then the model's whole
   row store after every step. *)
Definition rows_diff (a b : rows) : rows :=
  filter (fun r => negb (existsb (row_eqb r) b)) a.

Fixpoint explain_steps (tab : doctab) (s : ustore) (prev : rows) (steps : list cstep)
  : list (option (Z * list (list Z * bool * rows * rows))) * list rows :=
  match steps with
  | [] => ([], [])
  | st :: rest =>
      match apply_step tab s st with
      | None => ([None], [])
      | Some s' =>
          let '(v, r) := explain_steps tab s' (next_prev tab prev (st_dumps st)) rest in
          (Some (u_count s',
                 map (fun d => (map zi (dm_stores d), dump_ok tab s' prev d,
                                rows_diff (dump_rows tab prev d) (u_rows s'),      (* only in the real index *)
                                rows_diff (u_rows s') (dump_rows tab prev d)))     (* only in the model *)
                     (st_dumps st)) :: v,
           u_rows s' :: r)
      end
  end.

Definition explain (c : case) :=
  match c with
  | CUdc docs steps =>
      let tab := tab_of docs in
      (map (fun e => wf_doc (snd e)) tab, explain_steps tab udc_empty [] steps)
  end.
