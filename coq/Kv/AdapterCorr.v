(* KV engine (C15) — correspondence cases: an operation sequence run against a real store through
   registry.KVStoreConstructorByName with everything the implementation returned; [check] replays
   it on the model of that store (Kv/Adapter.v) and compares every observation with the model AND
   with the spec (get / multi-get on the reader's snapshot, prefix_entries / range_entries /
   seek_entries for iterators). *)
From Coq Require Import ZArith List Bool.
From Verif Require Import Common.Bytes Kv.Adapter Extracted.Extracted.
Import ListNotations.
Local Open Scope Z_scope.

(* one iterator observation: Current() projected to the pair when ok; (Key(), Value()) when Valid() *)
Definition iobs := (option entry * option entry)%type.

Inductive rd :=
| RGet (k : bytes) (r : option bytes)                       (* nil result = None *)
| RMGet (ks : list bytes) (r : list (option bytes))
| RPrefix (p : option bytes) (prog : list iop) (obs : list iobs)   (* obs: after construction, then after each op *)
| RRange (s e : option bytes) (prog : list iop) (obs : list iobs).

Inductive step :=
| SBatch (ops : list bop) (ok : bool)       (* NewBatch, ops in call order, ExecuteBatch returned nil? *)
| SOpen (rid : Z)                           (* store.Reader() *)
| SRead (rid : Z) (r : rd)
| SClose (rid : Z)
(* persisting configurations (CSeqCfg): the harness waited until moss' persister reported no dirty
   segment (everything is in the lower-level store, later fresh readers read from there) *)
| SSync
(* all readers closed, the store closed and opened again with the same configuration over the same
   lower-level store (boltdb / goleveldb / mossStore files) *)
| SReopen.

Inductive case :=
(* store: 0 gtreap, 1 boltdb, 2 goleveldb, 3 moss, 4 metrics over gtreap;
   mo: 0 cat, 1 catnp, 2 upsidedown's mergeOperator *)
| CSeq (store mo : Z) (steps : list step)
(* the same for a non-default store configuration: moss (store = 3) over a lower-level store
   ll: 0 gtreap, 1 boltdb, 2 goleveldb (registry stores, llStore in moss/lower.go), 3 mossStore,
   with mossLowerLevelMaxBatchSize = maxbatch (0 = unset).  The configuration is recorded for the
   replay files only: the statement is the same ordered map for every configuration. *)
| CSeqCfg (store mo : Z) (ll maxbatch : Z) (steps : list step)
(* direct calls of upsidedown's operator (obtained from a store constructor it was passed to) *)
| CMopFull (key : bytes) (existing : option bytes) (operands : list bytes) (impl : option bytes)
| CMopPartial (key l r : bytes) (impl : option bytes).

Definition mo_of (c : Z) : merge_op :=
  if c =? 0 then mo_cat else if c =? 1 then mo_catnp else mo_udc.

Definition policy_of_code (c : Z) : policy :=
  if c =? 1 then MergeLast else if c =? 2 then MergeNative else MergeFirst.

(* T1: today's or the repaired incrementBytes, by the fingerprint read off moss/reader.go *)
Definition moss_succ : bytes -> option bytes :=
  if XKv.moss_increment_variant =? 1 then incr_strip else incr_carry.

Definition policy_of_store (s : Z) : policy :=
  policy_of_code
    (if s =? 1 then XKv.batch_policy_boltdb
     else if s =? 2 then XKv.batch_policy_goleveldb
     else if s =? 3 then XKv.batch_policy_moss
     else XKv.batch_policy_gtreap).          (* 0 and 4 (metrics delegates to gtreap) *)

Definition variant_of_store (s : Z) : variant :=
  if s =? 1 then VBolt else if s =? 2 then VLdb else if s =? 3 then VMoss moss_succ else VGtreap.

Definition entry_eqb (a b : entry) : bool := beqb (fst a) (fst b) && beqb (snd a) (snd b).
Definition oentry_eqb := option_eqb entry_eqb.
Definition obytes_eqb := option_eqb beqb.

(* the implementation's two views of each position must both equal the expected one *)
Definition obs_match (expected : list (option entry)) (obs : list iobs) : bool :=
  list_eqb oentry_eqb expected (map fst obs) && list_eqb oentry_eqb expected (map snd obs).

Definition model_read (v : variant) (snap : kvmap) (r : rd) : list (option entry) :=
  match r with
  | RPrefix p prog _ => iter_run (prefix_iterator v snap p) prog
  | RRange s e prog _ => iter_run (range_iterator v snap s e) prog
  | _ => []
  end.
Definition spec_read (snap : kvmap) (r : rd) : list (option entry) :=
  match r with
  | RPrefix p prog _ => spec_run (prefix_entries snap (ob p)) prog
  | RRange s e prog _ => spec_run (range_entries snap (ob s) e) prog
  | _ => []
  end.

(* [with_spec = false]: implementation against the transcribed adapter model only (used to confirm
   that a model variant reproduces a defect); [check] always uses [true] *)
Definition check_read (with_spec : bool) (v : variant) (snap : kvmap) (r : rd) : bool :=
  match r with
  | RGet k res => obytes_eqb (m_get snap k) res
  | RMGet ks res => list_eqb obytes_eqb (multi_get snap ks) res
  | RPrefix _ _ obs | RRange _ _ _ obs =>
      obs_match (model_read v snap r) obs && (negb with_spec || obs_match (spec_read snap r) obs)
  end.

Definition sop_of (s : step) : option sop :=
  match s with
  | SBatch ops _ => Some (OpBatch ops)
  | SOpen rid => Some (OpOpen rid)
  | SClose rid => Some (OpClose rid)
  | SSync => Some OpSync
  | SReopen => Some OpReopen
  | SRead _ _ => None
  end.

Fixpoint check_steps (ws : bool) (pol : policy) (mo : merge_op) (v : variant) (st : sstate) (steps : list step) : bool :=
  match steps with
  | [] => true
  | s :: rest =>
      match s with
      | SRead rid r =>
          match reader_view st rid with
          | Some snap => check_read ws v snap r && check_steps ws pol mo v st rest
          | None => false
          end
      | SBatch ops ok =>
          match store_step pol mo st (OpBatch ops) with
          | Some st' => ok && check_steps ws pol mo v st' rest
          | None => false
          end
      | SOpen rid =>
          match store_step pol mo st (OpOpen rid) with
          | Some st' => check_steps ws pol mo v st' rest
          | None => false
          end
      | SClose rid =>
          match store_step pol mo st (OpClose rid) with
          | Some st' => check_steps ws pol mo v st' rest
          | None => false
          end
      | SSync =>
          match store_step pol mo st OpSync with
          | Some st' => check_steps ws pol mo v st' rest
          | None => false
          end
      | SReopen =>
          match store_step pol mo st OpReopen with
          | Some st' => check_steps ws pol mo v st' rest
          | None => false
          end
      end
  end.

Definition init_state : sstate := {| st_map := []; st_readers := [] |}.

Definition check_gen (ws : bool) (c : case) : bool :=
  match c with
  | CSeq store mo steps | CSeqCfg store mo _ _ steps =>
      check_steps ws (policy_of_store store) (mo_of mo) (variant_of_store store) init_state steps
  | CMopFull key ex operands impl => obytes_eqb (udc_full key ex operands) impl
  | CMopPartial key l r impl => obytes_eqb (udc_partial key l r) impl
  end.
Definition check : case -> bool := check_gen true.
Definition check_model_only : case -> bool := check_gen false.

(* what the model / spec expected, for replay files *)
Inductive expl :=
| EGet (o : option bytes)
| EMGet (l : list (option bytes))
| EIter (model spec : list (option entry))
| EMap (m : kvmap)                 (* store contents after a batch *)
| EFail                            (* model could not follow the step *)
| EMop (o : option bytes).

Fixpoint explain_steps (pol : policy) (mo : merge_op) (v : variant) (st : sstate) (steps : list step) : list expl :=
  match steps with
  | [] => []
  | s :: rest =>
      match s with
      | SRead rid r =>
          match reader_view st rid with
          | Some snap =>
              (match r with
               | RGet k _ => EGet (m_get snap k)
               | RMGet ks _ => EMGet (multi_get snap ks)
               | _ => EIter (model_read v snap r) (spec_read snap r)
               end) :: explain_steps pol mo v st rest
          | None => [EFail]
          end
      | _ =>
          match sop_of s with
          | Some o =>
              match store_step pol mo st o with
              | Some st' =>
                  match s with
                  | SBatch _ _ => EMap (st_map st') :: explain_steps pol mo v st' rest
                  | _ => explain_steps pol mo v st' rest
                  end
              | None => [EFail]
              end
          | None => [EFail]
          end
      end
  end.

Definition explain (c : case) : list expl :=
  match c with
  | CSeq store mo steps | CSeqCfg store mo _ _ steps =>
      explain_steps (policy_of_store store) (mo_of mo) (variant_of_store store) init_state steps
  | CMopFull key ex operands _ => [EMop (udc_full key ex operands)]
  | CMopPartial key l r _ => [EMop (udc_partial key l r)]
  end.
