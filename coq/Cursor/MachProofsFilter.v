(* Cursor engine — FilteringSearcher (with the filter closure of BooleanQuery.Searcher) is a
   cursor over  child ∩ filter  whenever its two children are cursors. *)
From Coq Require Import ZArith List Bool Lia.
From Verif Require Import Cursor.Cursor Cursor.Machines Cursor.MachProofsBase.
Import ListNotations.
Local Open Scope Z_scope.

Lemma memb_head_ge d h tl : asc_from h tl -> d <= h -> memb d (h :: tl) = (h =? d).
Proof.
  intros A Hd. destruct (h =? d) eqn:E.
  - apply Z.eqb_eq in E. subst. apply memb_In. left. reflexivity.
  - apply Z.eqb_neq in E. apply memb_false. intros [H|H]; [congruence|].
    pose proof (asc_from_In _ _ _ A H). lia.
Qed.

Lemma dropwhile_nil_notin d l : ascending l -> dropwhile_lt d l = [] -> memb d l = false.
Proof.
  intros A H. apply memb_false. intro Hin.
  pose proof (proj2 (dropwhile_lt_In d l d A) (conj Hin (Z.le_refl d))) as H2. rewrite H in H2. destruct H2.
Qed.

Lemma memb_dropwhile d l : ascending l -> memb d (dropwhile_lt d l) = memb d l.
Proof.
  intro A. destruct (memb d l) eqn:E.
  - apply memb_In. apply dropwhile_lt_In; [exact A|]. apply memb_In in E. split; [exact E|lia].
  - apply memb_false. apply memb_false in E. intro H. apply dropwhile_lt_In in H; [tauto|exact A].
Qed.

Lemma inter_dropwhile t a b : ascending a -> dropwhile_lt t (inter a b) = inter (dropwhile_lt t a) b.
Proof.
  intro A. apply ascending_ext.
  - apply dropwhile_lt_ascending. apply inter_ascending. exact A.
  - apply inter_ascending. apply dropwhile_lt_ascending. exact A.
  - intro x. rewrite dropwhile_lt_In by (apply inter_ascending; exact A).
    rewrite !inter_In. rewrite dropwhile_lt_In by exact A. tauto.
Qed.

Section Filter.
  Variable C : Type.
  Variable cnext : nat -> C -> step_res C.
  Variable cadv : nat -> C -> Z -> step_res C.
  Variable R : C -> list Z -> Prop.
  Hypothesis Hasc : asc_ok C R.
  Hypothesis Hnext : next_ok C cnext R.
  Hypothesis Hadv : adv_ok C cadv R.

  (* the filter closure's view: [ef] = filter ids not yet passed *)
  Definition FiltOk (st : filt_st C) (ef : list Z) : Prop :=
    if fl_finit st then
      match fl_ref st with
      | Some x => exists pf, R (fl_filter st) pf /\ asc_from x pf /\ ef = x :: pf
      | None => ef = []
      end
    else R (fl_filter st) ef.

  Definition RFilt (st : filt_st C) (p : list Z) : Prop :=
    exists pc ef, R (fl_child st) pc /\ FiltOk st ef /\ p = inter pc ef.

  Lemma FiltOk_asc st ef : FiltOk st ef -> ascending ef.
  Proof.
    unfold FiltOk. destruct (fl_finit st).
    - destruct (fl_ref st); [intros [pf [H1 [H2 ->]]]; exact H2|intros ->; exact I].
    - apply Hasc.
  Qed.

  Lemma RFilt_asc : asc_ok _ RFilt.
  Proof. intros st p [pc [ef [H1 [H2 ->]]]]. apply inter_ascending. eapply Hasc; eauto. Qed.

  (* filterFunc(d): answers "d is in the filter" and moves the filter cursor to d *)
  Lemma accept_ok st ef d :
    FiltOk st ef ->
    exists st', fl_child st' = fl_child st /\ FiltOk st' (dropwhile_lt d ef) /\
                Ev (fun f => filt_accept C (cnext f) (cadv f) st d) (memb d ef, st').
  Proof.
    intro H. pose proof (FiltOk_asc _ _ H) as Aef.
    (* first bring the closure to its initialised form *)
    assert (exists st1, fl_child st1 = fl_child st /\ fl_finit st1 = true /\ FiltOk st1 ef /\
              Ev (fun f => if fl_finit st then Some st
                           else match cnext f (fl_filter st) with
                                | Some (r, f') => Some {| fl_child := fl_child st; fl_filter := f'; fl_finit := true; fl_ref := r |}
                                | None => None end) st1) as [st1 [Hc1 [Hi1 [Hok1 Hev1]]]].
    { unfold FiltOk in H. destruct (fl_finit st) eqn:Ei.
      - exists st. repeat split; auto. unfold FiltOk. rewrite Ei. exact H. apply Ev_const.
      - destruct (Hnext _ _ H) as [k' [Hk' Hev]].
        exists {| fl_child := fl_child st; fl_filter := k'; fl_finit := true; fl_ref := fst (spec_next ef) |}.
        repeat split.
        + unfold FiltOk; cbn. destruct ef as [|x pf]; cbn in *; [reflexivity|]. exists pf. auto.
        + destruct Hev as [N HN]. exists N. intros f Hf. rewrite (HN f Hf). reflexivity. }
    (* then the initialised closure *)
    pose (G := fun (f : nat) (s1 : filt_st C) =>
                 match fl_ref s1 with
                 | None => Some (false, s1)
                 | Some rf =>
                     if rf <? d then
                       match cadv f (fl_filter s1) d with
                       | None => None
                       | Some (r, f') =>
                           let st2 := {| fl_child := fl_child s1; fl_filter := f'; fl_finit := true; fl_ref := r |} in
                           match r with None => Some (false, st2) | Some rf' => Some (rf' =? d, st2) end
                       end
                     else Some (rf =? d, s1)
                 end).
    assert (exists st', fl_child st' = fl_child st1 /\ FiltOk st' (dropwhile_lt d ef) /\
              Ev (fun f => G f st1) (memb d ef, st')) as [st' [Hc' [Hok' Hev']]].
    { unfold G. unfold FiltOk in Hok1. rewrite Hi1 in Hok1. destruct (fl_ref st1) as [rf|] eqn:Er.
      - destruct Hok1 as [pf [Hpf [Apf ->]]].
        destruct (rf <? d) eqn:E.
        + apply Z.ltb_lt in E.
          destruct (Hadv _ _ d Hpf) as [k' [Hk' Hev]]. unfold spec_advance in *.
          assert (dropwhile_lt d (rf :: pf) = dropwhile_lt d pf) as Edw
              by (cbn; rewrite (proj2 (Z.ltb_lt rf d) E); reflexivity).
          rewrite Edw.
          pose proof (dropwhile_lt_ascending d pf (asc_from_ascending _ _ Apf)) as Adw.
          exists {| fl_child := fl_child st1; fl_filter := k'; fl_finit := true; fl_ref := fst (uncons (dropwhile_lt d pf)) |}.
          split; [reflexivity|]. split.
          * unfold FiltOk; cbn. destruct (dropwhile_lt d pf) as [|x pf'] eqn:Ed; cbn in *; [reflexivity|].
            exists pf'. auto.
          * destruct Hev as [N HN]. exists N. intros f Hf. rewrite (HN f Hf).
            rewrite <- (memb_dropwhile d (rf :: pf)) by exact Aef. rewrite Edw.
            destruct (dropwhile_lt d pf) as [|x pf'] eqn:Ed; cbn [uncons fst snd].
            -- reflexivity.
            -- rewrite memb_head_ge; [reflexivity|exact Adw|eapply dropwhile_lt_hd; exact Ed].
        + apply Z.ltb_ge in E. exists st1. split; [reflexivity|]. split.
          * cbn. rewrite (proj2 (Z.ltb_ge rf d) E). unfold FiltOk. rewrite Hi1, Er. exists pf. auto.
          * rewrite memb_head_ge by assumption. apply Ev_const.
      - subst ef. exists st1. split; [reflexivity|]. split.
        + cbn. unfold FiltOk. rewrite Hi1, Er. reflexivity.
        + apply Ev_const. }
    exists st'. split; [congruence|]. split; [exact Hok'|].
    eapply Ev_ext; [|exact (Ev_bind _ G _ _ Hev1 Hev')].
    intro f. unfold G, filt_accept. cbn. destruct (fl_finit st); [reflexivity|].
    destruct (cnext f (fl_filter st)) as [[r f']|]; reflexivity.
  Qed.

  (* the loop of Next, entered with the child's latest result [cur] *)
  Lemma filt_loop_none st ef :
    R (fl_child st) [] -> FiltOk st ef ->
    RFilt st [] /\ Ev2 (fun g f => filt_loop C (cnext g) (cadv g) f st None) (None, st).
  Proof.
    intros Hc Hf. split.
    - exists [], ef. auto.
    - eapply Ev2_step0; [|apply Ev2_const]. reflexivity.
  Qed.

  Lemma filt_loop_ok : forall n pc st ef d,
    (length pc <= n)%nat ->
    R (fl_child st) pc -> FiltOk st ef -> asc_from d pc ->
    let total := inter (d :: pc) ef in
    exists st', RFilt st' (snd (uncons total)) /\
                Ev2 (fun g f => filt_loop C (cnext g) (cadv g) f st (Some d)) (fst (uncons total), st').
  Proof.
    induction n as [|n IH]; intros pc st ef d Hlen Hc Hf Hcur total;
      destruct (accept_ok st ef d Hf) as [st1 [Hc1 [Hf1 Hev1]]];
      pose proof (FiltOk_asc _ _ Hf) as Aef;
      pose proof (asc_from_ascending _ _ Hcur) as Apc;
      (assert (inter pc (dropwhile_lt d ef) = inter pc ef) as Einter by
        (apply ascending_ext; try (apply inter_ascending; exact Apc);
         intro x; rewrite !inter_In, dropwhile_lt_In by exact Aef; split; [tauto|];
         intros [H1 H2]; repeat split; auto; pose proof (asc_from_In _ _ _ Hcur H1); lia));
      (assert (forall g f, filt_loop C (cnext g) (cadv g) (S f) st (Some d) =
                 match filt_accept C (cnext g) (cadv g) st d with
                 | Some x => (fun g f x => match x with
                                 | (true, st1) => Some (Some d, st1)
                                 | (false, st1) =>
                                     match cnext g (fl_child st1) with
                                     | None => None
                                     | Some (r, c') => filt_loop C (cnext g) (cadv g) f (set_child C st1 c') r
                                     end end) g f x
                 | None => None end) as Eunf
        by (intros g f; cbn [filt_loop]; destruct (filt_accept C (cnext g) (cadv g) st d) as [[[|] ?]|]; reflexivity));
      subst total; cbn [inter filter]; fold (inter pc ef);
      destruct (memb d ef) eqn:Em.
    - (* n = 0, accepted *)
      exists st1. split.
      + cbn [uncons snd]. exists pc, (dropwhile_lt d ef). rewrite Hc1. repeat split; auto.
      + cbn [uncons fst]. eapply Ev2_step; [exact Eunf|exact Hev1|]. apply Ev2_const.
    - (* n = 0, rejected: the child is exhausted *)
      destruct pc; [|cbn in Hlen; lia].
      destruct (Hnext _ _ Hc) as [k' [Hk' Hevn]]. cbn in Hk', Hevn.
      assert (R (fl_child (set_child C st1 k')) []) as Hc2 by exact Hk'.
      assert (FiltOk (set_child C st1 k') (dropwhile_lt d ef)) as Hf2 by exact Hf1.
      destruct (filt_loop_none _ _ Hc2 Hf2) as [HR Hev2].
      exists (set_child C st1 k'). split; [exact HR|].
      eapply Ev2_step; [exact Eunf|exact Hev1|]. cbn beta iota.
      rewrite Hc1.
      exact (Ev2_bind_pair _ (fun g f r c' => filt_loop C (cnext g) (cadv g) f (set_child C st1 c') r) _ _ _ Hevn Hev2).
    - (* accepted *)
      exists st1. split.
      + cbn [uncons snd]. exists pc, (dropwhile_lt d ef). rewrite Hc1. repeat split; auto.
      + cbn [uncons fst]. eapply Ev2_step; [exact Eunf|exact Hev1|]. apply Ev2_const.
    - (* rejected: continue with the child's next match *)
      destruct (Hnext _ _ Hc) as [k' [Hk' Hevn]].
      destruct pc as [|x pc'].
      + cbn in Hk', Hevn.
        assert (R (fl_child (set_child C st1 k')) []) as Hc2 by exact Hk'.
        assert (FiltOk (set_child C st1 k') (dropwhile_lt d ef)) as Hf2 by exact Hf1.
        destruct (filt_loop_none _ _ Hc2 Hf2) as [HR Hev2].
        exists (set_child C st1 k'). split; [exact HR|].
        eapply Ev2_step; [exact Eunf|exact Hev1|]. cbn beta iota.
        rewrite Hc1.
        exact (Ev2_bind_pair _ (fun g f r c' => filt_loop C (cnext g) (cadv g) f (set_child C st1 c') r) _ _ _ Hevn Hev2).
      + cbn in Hk', Hevn. destruct Hcur as [Hdx Ax].
        assert (R (fl_child (set_child C st1 k')) pc') as Hc2 by exact Hk'.
        assert (FiltOk (set_child C st1 k') (dropwhile_lt d ef)) as Hf2 by exact Hf1.
        assert (length pc' <= n)%nat as Hlen' by (cbn in Hlen; lia).
        destruct (IH pc' _ _ x Hlen' Hc2 Hf2 Ax) as [st' [HR Hev2]].
        assert (inter (x :: pc') (dropwhile_lt d ef) = inter (x :: pc') ef) as E2 by exact Einter.
        rewrite E2 in HR, Hev2.
        exists st'. split; [exact HR|].
        eapply Ev2_step; [exact Eunf|exact Hev1|]. cbn beta iota.
        rewrite Hc1.
        exact (Ev2_bind_pair _ (fun g f r c' => filt_loop C (cnext g) (cadv g) f (set_child C st1 c') r) _ _ _ Hevn Hev2).
  Qed.

  (* entering the loop with whatever the child returned *)
  Lemma filt_enter pc st ef :
    R (fl_child st) pc -> FiltOk st ef -> ascending pc ->
    let total := inter pc ef in
    forall k', R k' (snd (uncons pc)) ->
    exists st', RFilt st' (snd (uncons total)) /\
                Ev2 (fun g f => filt_loop C (cnext g) (cadv g) f (set_child C st k') (fst (uncons pc))) (fst (uncons total), st').
  Proof.
    intros Hc Hf Apc total k' Hk'. destruct pc as [|x pc']; cbn in *.
    - assert (R (fl_child (set_child C st k')) []) as Hc2 by exact Hk'.
      destruct (filt_loop_none (set_child C st k') ef Hc2 Hf) as [HR Hev]. eauto.
    - assert (R (fl_child (set_child C st k')) pc') as Hc2 by exact Hk'.
      exact (filt_loop_ok (length pc') pc' (set_child C st k') ef x (le_n _) Hc2 Hf Apc).
  Qed.

  Theorem filter_cursor :
    cursor_ok (filt_st C) (fun f => filt_next C (cnext f) (cadv f) f)
              (fun f => filt_adv C (cnext f) (cadv f) f) RFilt.
  Proof.
    split; [exact RFilt_asc|]. split.
    - intros st p [pc [ef [Hc [Hf ->]]]].
      pose proof (Hasc _ _ Hc) as Apc.
      destruct (Hnext _ _ Hc) as [k' [Hk' Hevn]].
      destruct (filt_enter pc st ef Hc Hf Apc k' Hk') as [st' [HR Hev]].
      exists st'. split; [exact HR|]. unfold spec_next.
      apply Ev2_diag with (F := fun g f => filt_next C (cnext g) (cadv g) f st).
      unfold filt_next.
      exact (Ev2_bind_pair _ (fun g f r c' => filt_loop C (cnext g) (cadv g) f (set_child C st c') r) _ _ _ Hevn Hev).
    - intros st p t [pc [ef [Hc [Hf ->]]]].
      pose proof (Hasc _ _ Hc) as Apc.
      destruct (Hadv _ _ t Hc) as [k' [Hk' Heva]]. unfold spec_advance in *.
      pose proof (dropwhile_lt_ascending t pc Apc) as Adw.
      assert (R (fl_child (set_child C st k')) (snd (uncons (dropwhile_lt t pc)))) as Hc2 by exact Hk'.
      rewrite (inter_dropwhile t pc ef Apc).
      (* the loop is entered on a state whose child is already k'; phrase it through a state
         whose child still has pending (dropwhile t pc) *)
      destruct (dropwhile_lt t pc) as [|x pc'] eqn:Ed; cbn [uncons fst snd] in *.
      + destruct (filt_loop_none (set_child C st k') ef Hc2 Hf) as [HR Hev].
        exists (set_child C st k'). split; [exact HR|].
        apply Ev2_diag with (F := fun g f => filt_adv C (cnext g) (cadv g) f st t). unfold filt_adv.
        exact (Ev2_bind_pair _ (fun g f r c' => filt_loop C (cnext g) (cadv g) f (set_child C st c') r) _ _ _ Heva Hev).
      + destruct (filt_loop_ok (length pc') pc' (set_child C st k') ef x (le_n _) Hc2 Hf Adw) as [st' [HR Hev]].
        exists st'. split; [exact HR|].
        apply Ev2_diag with (F := fun g f => filt_adv C (cnext g) (cadv g) f st t). unfold filt_adv.
        exact (Ev2_bind_pair _ (fun g f r c' => filt_loop C (cnext g) (cadv g) f (set_child C st c') r) _ _ _ Heva Hev).
  Qed.
End Filter.
