(* Cursor engine — correspondence cases for C08: what real searchers returned on Next/Advance
   programs, checked against the machines of Cursor/Machines.v and the spec of Cursor/Cursor.v.

   Every list of ids in a case was produced by the implementation (Next-only enumeration of a
   fresh searcher); the harness never computes an expected result.  *)
From Coq Require Import ZArith List Bool.
From Verif Require Import Common.Bytes Cursor.Cursor Cursor.Machines Cursor.MachReaders.
Import ListNotations.
Local Open Scope Z_scope.

Definition res_eqb : res -> res -> bool := option_eqb Z.eqb.
Definition trace_eqb : list res -> list res -> bool := list_eqb res_eqb.
Definition otrace_eqb (m : option (list res)) (impl : list res) : bool :=
  match m with Some rs => trace_eqb rs impl | None => false end.

Inductive case :=
(* a compound searcher whose construction is modelled: tree shape + the posting list of every
   leaf + a forward program run on a fresh searcher for the whole query.
   [enum] is the Next-only enumeration of another fresh searcher for the whole query. *)
| CTree (t : stree) (enum : list Z) (prog : list call) (impl : list res)
(* scorch TermSearcher over an IndexSnapshotTermFieldReader: per-segment local postings (live
   docs only) and segment offsets; the program may contain backward targets (reader restart) *)
| CTfr (segs : list (list Z)) (offs : list Z) (prog : list call) (impl : list res)
(* scorch doc-id / match-all searcher over an IndexSnapshotDocIDReader *)
| CDid (segs : list (list Z)) (offs : list Z) (prog : list call) (impl : list res)
(* score "none" term-only conjunction (conj = true) / disjunction replaced by an unadorned
   term-field reader: for every leaf term its per-segment local postings *)
| CUna (isconj : bool) (leaves : list (list (list Z))) (offs : list Z) (prog : list call) (impl : list res)
(* any other searcher: Next-only enumeration [enum] of a fresh searcher, forward program on
   another fresh searcher: contract checking on the real trace *)
| CContract (enum : list Z) (prog : list call) (impl : list res)
(* an index whose internal ids are byte strings ordered bytewise (upsidedown: the internal id
   IS the external id; ids of different lengths, ids that are prefixes of each other, ids with
   0x00 / high bytes): [keys] lists every byte string the case talks about (document ids and
   Advance targets that fall between them) and every number inside [c] is an index into it.
   The table has to be strictly ascending under [bcompare] (= Go's bytes.Compare), so that the
   order of the indexes is the order of the ids (keys_ascb_order).  Each entry is written as ONE
   number ([key_num]: the bytes in base 256 under a leading 1, so that leading 0x00 bytes and
   the length survive; a table of byte lists costs more to parse than the whole case to check). *)
| CKeyed (keys : list Z) (c : case).

(* the guard flag of every Boolean node is not something the harness chooses: it is the T1 fact
   XCursor.boolean_should_guard, tied to this literal by Extracted/Obligations_C08.v (ob_corr_guard);
   this file does not import Extracted.v itself because case shards are evaluated while other
   checks may be regenerating it *)
Definition should_guard : bool := true.

Fixpoint with_guard (g : bool) (t : stree) : stree :=
  match t with
  | Leaf l => Leaf l
  | Conj ts => Conj (map (with_guard g) ts)
  | DisjS m ts => DisjS m (map (with_guard g) ts)
  | DisjH m ts => DisjH m (map (with_guard g) ts)
  | Bool _ a b c =>
      Bool g (match a with Some x => Some (with_guard g x) | None => None end)
             (match b with Some x => Some (with_guard g x) | None => None end)
             (match c with Some x => Some (with_guard g x) | None => None end)
  | Filter c f => Filter (with_guard g c) (with_guard g f)
  end.

(* leaves handed over by the harness must be strictly ascending (they are enumerations of real
   searchers, so this is itself part of the property) *)
Fixpoint leaves_ok (t : stree) : bool :=
  match t with
  | Leaf l => ascendingb l
  | Conj ts => forallb leaves_ok ts
  | DisjS _ ts => forallb leaves_ok ts
  | DisjH _ ts => forallb leaves_ok ts
  | Bool _ a b c =>
      (match a with Some x => leaves_ok x | None => true end) &&
      (match b with Some x => leaves_ok x | None => true end) &&
      (match c with Some x => leaves_ok x | None => true end)
  | Filter c f => leaves_ok c && leaves_ok f
  end.

(* how the optimiser sees a term's postings in one segment (zapx uses the 1-hit encoding for
   single-document postings; which shape is chosen does not change the result:
   unadorned_conj_eq / unadorned_disj_eq) *)
Definition shape_of (l : list Z) : seg_it :=
  match l with [] => ItEmpty | [d] => It1Hit d | _ => ItBM l end.

(* transpose leaves x segments -> segments x leaves *)
Definition seg_column (n : nat) (leaves : list (list (list Z))) : list (list Z) :=
  map (fun segs => nth n segs []) leaves.
Definition una_segments (isconj : bool) (leaves : list (list (list Z))) (nseg : nat) : list (list Z) :=
  map (fun j => una_elems ((if isconj then una_and else una_or) (map shape_of (seg_column j leaves))))
      (seq 0 nseg).

(* the snapshot layout the reader theorem ([tfr_cursor]) assumes: offsets start at 0 and do not
   decrease, every local doc number is >= 0 and below the next segment's offset, postings ascend *)
Fixpoint wf_segsb (segs : list (list Z)) (offs : list Z) : bool :=
  match segs, offs with
  | [], [] => true
  | l :: segs', o :: offs' =>
      ascendingb l &&
      forallb (fun x => (0 <=? x) && match offs' with o' :: _ => x + o <? o' | [] => true end) l &&
      (match offs' with o' :: _ => o <=? o' | [] => true end) &&
      wf_segsb segs' offs'
  | _, _ => false
  end.
Definition snapshot_ok (segs : list (list Z)) (offs : list Z) : bool :=
  wf_segsb segs offs && match offs with o :: _ => o =? 0 | [] => true end.
Definition nonneg_targets (prog : list call) : bool :=
  forallb (fun c => match c with Advance t => 0 <=? t | Next => true end) prog.

Definition model_tree (t : stree) (prog : list call) : option (list res) :=
  let t' := with_guard should_guard t in
  run (default_fuel t') (build t') prog.

(* the key table of a CKeyed case: how the harness writes one key, and how it is read back *)
Definition key_num (bs : bytes) : Z := fold_left (fun a b => a * 256 + b) bs 1.
Fixpoint key_bytes_fuel (fuel : nat) (z : Z) (acc : bytes) : option bytes :=
  match fuel with
  | O => None
  | S f =>
      if z <=? 0 then None
      else if z =? 1 then Some acc
      else key_bytes_fuel f (z / 256) (z mod 256 :: acc)
  end.
Definition key_bytes (z : Z) : option bytes := key_bytes_fuel 64 z [].
Fixpoint decode_keys (ks : list Z) : option (list bytes) :=
  match ks with
  | [] => Some []
  | k :: ks' =>
      match key_bytes k, decode_keys ks' with
      | Some b, Some bs => Some (b :: bs)
      | _, _ => None
      end
  end.

Fixpoint keys_ascb (ks : list bytes) : bool :=
  match ks with
  | a :: ((b :: _) as tl) => bltb a b && keys_ascb tl
  | _ => true
  end.
Definition table_ok (tbl : list bytes) : bool := forallb valid_bytes tbl && keys_ascb tbl.
Definition keys_ok (ks : list Z) : bool :=
  match decode_keys ks with Some tbl => table_ok tbl | None => false end.

(* every Advance target and every returned id of a case *)
Definition call_ids (prog : list call) : list Z :=
  flat_map (fun c => match c with Advance t => [t] | Next => [] end) prog.
Fixpoint case_ids (c : case) : list Z :=
  match c with
  | CTree _ enum prog impl => enum ++ call_ids prog ++ somes impl
  | CTfr _ _ prog impl => call_ids prog ++ somes impl
  | CDid _ _ prog impl => call_ids prog ++ somes impl
  | CUna _ _ _ prog impl => call_ids prog ++ somes impl
  | CContract enum prog impl => enum ++ call_ids prog ++ somes impl
  | CKeyed _ c' => case_ids c'
  end.
Definition ids_in_table (n : nat) (c : case) : bool :=
  forallb (fun x => (0 <=? x) && (x <? Z.of_nat n)) (case_ids c).

Fixpoint check (c : case) : bool :=
  match c with
  | CTree t enum prog impl =>
      leaves_ok t &&
      (* the searcher's own Next-only enumeration is the set expression of its leaves *)
      list_eqb Z.eqb (denote t) enum &&
      forward (denote t) prog &&
      (* implementation = machine, step by step *)
      otrace_eqb (model_tree t prog) impl &&
      (* implementation = spec: the property itself on this input *)
      trace_eqb (run_spec (denote t) prog) impl
  | CTfr segs offs prog impl =>
      let L := tfr_global segs offs in
      ascendingb L && snapshot_ok segs offs && nonneg_targets prog &&
      otrace_eqb (tfr_run (tfr_init false segs offs) prog) impl &&
      (if forward L prog then trace_eqb (run_spec L prog) impl else true)
  | CDid segs offs prog impl =>
      let L := tfr_global segs offs in
      ascendingb L && snapshot_ok segs offs && forward L prog &&
      otrace_eqb (did_run (did_init segs offs) prog) impl &&
      trace_eqb (run_spec L prog) impl
  | CUna isconj leaves offs prog impl =>
      let segs := una_segments isconj leaves (length offs) in
      let L := tfr_global segs offs in
      let globals := map (fun l => tfr_global l offs) leaves in
      forallb ascendingb globals && forallb (fun l => snapshot_ok l offs) leaves && snapshot_ok segs offs &&
      nonneg_targets prog &&
      list_eqb Z.eqb L (if isconj then inter_all globals else at_least 1 globals) &&
      otrace_eqb (tfr_run (tfr_init true segs offs) prog) impl &&
      (if forward L prog then trace_eqb (run_spec L prog) impl else true)
  | CContract enum prog impl =>
      ascendingb enum && forward enum prog &&
      check_cursor_trace prog impl &&
      trace_eqb (run_spec enum prog) impl
  | CKeyed keys c' =>
      keys_ok keys && ids_in_table (length keys) c' && check c'
  end.

(* what the model expected, for replay files *)
Inductive expl :=
| ETree (denotation : list Z) (machine : option (list res)) (spec : list res) (is_forward : bool)
| EReader (global : list Z) (machine : option (list res)) (spec : list res) (is_forward : bool)
| EContract (spec : list res) (trace_ok : bool)
| EKeyed (table_ok : bool) (ids_ok : bool) (inner : expl).

Fixpoint explain (c : case) : expl :=
  match c with
  | CTree t _ prog _ =>
      ETree (denote t) (model_tree t prog) (run_spec (denote t) prog) (forward (denote t) prog)
  | CTfr segs offs prog _ =>
      let L := tfr_global segs offs in
      EReader L (tfr_run (tfr_init false segs offs) prog) (run_spec L prog) (forward L prog)
  | CDid segs offs prog _ =>
      let L := tfr_global segs offs in
      EReader L (did_run (did_init segs offs) prog) (run_spec L prog) (forward L prog)
  | CUna isconj leaves offs prog _ =>
      let segs := una_segments isconj leaves (length offs) in
      let L := tfr_global segs offs in
      EReader L (tfr_run (tfr_init true segs offs) prog) (run_spec L prog) (forward L prog)
  | CContract enum prog impl => EContract (run_spec enum prog) (check_cursor_trace prog impl)
  | CKeyed keys c' => EKeyed (keys_ok keys) (ids_in_table (length keys) c') (explain c')
  end.
