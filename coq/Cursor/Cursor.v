(* Cursor engine — the Searcher contract (C08).

   search.Searcher (/repo/search/search.go) is a cursor over internal document ids:
     Next(ctx)          -> next match or nil
     Advance(ctx, ID)   -> first match with id >= ID or nil
   Ids are modelled as Z (scorch: the global doc number decoded from the 8-byte big-endian
   IndexInternalID; upsidedown: the harness maps the byte-string ids to their rank, which is
   monotone for bytes.Compare).

   SPEC.  [cursor over a strictly ascending list L]: the state is the pending suffix;
     next        = head / tail
     advance t   = drop-while (< t), then head / tail.
   This is a TOTAL reference behaviour: it also says what happens on a backward target (nothing
   is re-visited: the call behaves like Next), which is exactly what the compound searchers of
   /repo/search/searcher do ("compound searchers do not re-seek").  Leaf readers DO re-seek on a
   backward target (scorch restarts the term-field reader, upsidedown seeks the KV iterator);
   that is why the contract of the property only speaks about forward programs, see [forward].

   Also here: the contract CHECKER used on traces of searchers that have no machine model. *)
From Coq Require Import ZArith List Bool Lia.
Import ListNotations.
Local Open Scope Z_scope.

Inductive call := Next | Advance (t : Z).
Definition res := option Z.

Fixpoint dropwhile_lt (t : Z) (l : list Z) : list Z :=
  match l with
  | [] => []
  | x :: l' => if x <? t then dropwhile_lt t l' else l
  end.

Definition uncons (l : list Z) : res * list Z :=
  match l with [] => (None, []) | x :: l' => (Some x, l') end.

Definition hd_res (l : list Z) : res := match l with [] => None | x :: _ => Some x end.

Definition spec_next (p : list Z) : res * list Z := uncons p.
Definition spec_advance (t : Z) (p : list Z) : res * list Z := uncons (dropwhile_lt t p).
Definition spec_step (p : list Z) (c : call) : res * list Z :=
  match c with Next => spec_next p | Advance t => spec_advance t p end.

Fixpoint run_spec (L : list Z) (prog : list call) : list res :=
  match prog with
  | [] => []
  | c :: prog' => let '(r, p') := spec_step L c in r :: run_spec p' prog'
  end.

(* the pending suffix after a program *)
Fixpoint pending_after (L : list Z) (prog : list call) : list Z :=
  match prog with
  | [] => L
  | c :: prog' => pending_after (snd (spec_step L c)) prog'
  end.

(* strictly ascending lists *)
Fixpoint asc_from (lo : Z) (l : list Z) : Prop :=
  match l with [] => True | x :: l' => lo < x /\ asc_from x l' end.
Definition ascending (l : list Z) : Prop :=
  match l with [] => True | x :: l' => asc_from x l' end.

Fixpoint asc_fromb (lo : Z) (l : list Z) : bool :=
  match l with [] => true | x :: l' => (lo <? x) && asc_fromb x l' end.
Definition ascendingb (l : list Z) : bool :=
  match l with [] => true | x :: l' => asc_fromb x l' end.

(* the returned ids of a result trace *)
Fixpoint somes (rs : list res) : list Z :=
  match rs with
  | [] => []
  | Some x :: rs' => x :: somes rs'
  | None :: rs' => somes rs'
  end.

(* ---------- forward programs (the quantifier of C08) ----------
   [forward L prog]: every Advance target is greater than the last id returned so far (the very
   first call, and any call before something was returned, is unrestricted in that respect) and
   not smaller than an earlier Advance target ("backward or repeated targets are outside the
   contract").  Whether a program is forward depends on what was returned, hence on L. *)
Definition lt_opt (o : option Z) (t : Z) : bool := match o with None => true | Some l => l <? t end.
Definition le_opt (o : option Z) (t : Z) : bool := match o with None => true | Some l => l <=? t end.

Fixpoint forward_from (last wm : option Z) (p : list Z) (prog : list call) : bool :=
  match prog with
  | [] => true
  | Next :: prog' =>
      let '(r, p') := spec_next p in
      forward_from (match r with Some x => Some x | None => last end) wm p' prog'
  | Advance t :: prog' =>
      let '(r, p') := spec_advance t p in
      lt_opt last t && le_opt wm t &&
      forward_from (match r with Some x => Some x | None => last end) (Some t) p' prog'
  end.
Definition forward (L : list Z) (prog : list call) : bool := forward_from None None L prog.

(* the weaker reading: only "target > last returned id" (no monotonicity of targets) *)
Fixpoint forward_weak_from (last : option Z) (p : list Z) (prog : list call) : bool :=
  match prog with
  | [] => true
  | c :: prog' =>
      let '(r, p') := spec_step p c in
      match c with Next => true | Advance t => lt_opt last t end &&
      forward_weak_from (match r with Some x => Some x | None => last end) p' prog'
  end.

(* ---------- contract checker for unmodelled searchers ----------
   [check_cursor_trace prog rs]: the results are strictly increasing, an Advance result is not
   smaller than its target, nothing is returned after a nil. *)
Fixpoint check_from (last : option Z) (done : bool) (prog : list call) (rs : list res) : bool :=
  match prog, rs with
  | [], [] => true
  | c :: prog', r :: rs' =>
      match r with
      | None => check_from last true prog' rs'
      | Some x =>
          negb done && lt_opt last x &&
          match c with Advance t => t <=? x | Next => true end &&
          check_from (Some x) false prog' rs'
      end
  | _, _ => false
  end.
Definition check_cursor_trace (prog : list call) (rs : list res) : bool :=
  check_from None false prog rs.

(* ================================================================== *)
(* Lemmas about the spec                                               *)
(* ================================================================== *)

Lemma asc_from_weaken lo lo' l : lo' <= lo -> asc_from lo l -> asc_from lo' l.
Proof. destruct l as [|x l]; cbn; [tauto|]. intros H [H1 H2]; split; [lia|exact H2]. Qed.

Lemma asc_from_ascending lo l : asc_from lo l -> ascending l.
Proof. destruct l as [|x l]; cbn; tauto. Qed.

Lemma asc_from_Forall lo l : asc_from lo l -> Forall (fun x => lo < x) l.
Proof.
  revert lo; induction l as [|x l IH]; intros lo H; constructor.
  - exact (proj1 H).
  - destruct H as [H1 H2]. apply IH. eapply asc_from_weaken; [|exact H2]. lia.
Qed.

Lemma asc_from_In lo l x : asc_from lo l -> In x l -> lo < x.
Proof. intros H Hin. apply asc_from_Forall in H. rewrite Forall_forall in H. auto. Qed.

Lemma asc_from_intro lo l : ascending l -> Forall (fun x => lo < x) l -> asc_from lo l.
Proof.
  destruct l as [|x l]; cbn; [tauto|]. intros H F. inversion F; subst. tauto.
Qed.

Lemma ascending_tl l : ascending l -> ascending (tl l).
Proof. destruct l as [|x l]; cbn; [tauto|]. apply asc_from_ascending. Qed.

Lemma ascending_cons x l : ascending (x :: l) <-> asc_from x l.
Proof. reflexivity. Qed.

Lemma asc_fromb_spec lo l : asc_fromb lo l = true <-> asc_from lo l.
Proof.
  revert lo; induction l as [|x l IH]; intros lo; cbn; [tauto|].
  rewrite andb_true_iff, Z.ltb_lt, IH. tauto.
Qed.

Lemma ascendingb_spec l : ascendingb l = true <-> ascending l.
Proof. destruct l; cbn; [tauto|apply asc_fromb_spec]. Qed.

Lemma ascending_NoDup l : ascending l -> NoDup l.
Proof.
  induction l as [|x l IH]; intros H; constructor.
  - intro Hin. cbn in H. pose proof (asc_from_In _ _ _ H Hin). lia.
  - apply IH. eapply asc_from_ascending. exact H.
Qed.

(* an ascending list is determined by its members *)
Lemma ascending_ext l1 l2 :
  ascending l1 -> ascending l2 -> (forall x, In x l1 <-> In x l2) -> l1 = l2.
Proof.
  revert l2; induction l1 as [|x l1 IH]; intros l2 A1 A2 E.
  - destruct l2 as [|y l2]; [reflexivity|]. exfalso. apply (proj2 (E y)). left; reflexivity.
  - destruct l2 as [|y l2]; [exfalso; apply (proj1 (E x)); left; reflexivity|].
    cbn in A1, A2.
    assert (x = y) as ->.
    { destruct (proj1 (E x) (or_introl eq_refl)) as [Hy|Hy]; [congruence|].
      destruct (proj2 (E y) (or_introl eq_refl)) as [Hx|Hx]; [congruence|].
      pose proof (asc_from_In _ _ _ A2 Hy). pose proof (asc_from_In _ _ _ A1 Hx). lia. }
    f_equal. apply IH; try (eapply asc_from_ascending; eassumption).
    intro z. split; intro Hz.
    + destruct (proj1 (E z) (or_intror Hz)) as [Hy|Hy]; [|exact Hy].
      subst z. pose proof (asc_from_In _ _ _ A1 Hz). lia.
    + destruct (proj2 (E z) (or_intror Hz)) as [Hy|Hy]; [|exact Hy].
      subst z. pose proof (asc_from_In _ _ _ A2 Hz). lia.
Qed.

Lemma dropwhile_lt_asc_from lo t l : asc_from lo l -> asc_from lo (dropwhile_lt t l).
Proof.
  revert lo; induction l as [|x l IH]; intros lo H; cbn; [exact I|].
  destruct (x <? t); [|exact H]. destruct H as [H1 H2]. apply IH.
  eapply asc_from_weaken; [|exact H2]. lia.
Qed.

Lemma dropwhile_lt_ascending t l : ascending l -> ascending (dropwhile_lt t l).
Proof.
  destruct l as [|x l]; cbn; [tauto|]. intro H. destruct (x <? t); [|exact H].
  eapply asc_from_ascending. apply dropwhile_lt_asc_from. exact H.
Qed.

Lemma dropwhile_lt_In t l x : ascending l -> (In x (dropwhile_lt t l) <-> In x l /\ t <= x).
Proof.
  induction l as [|y l IH]; intro A; cbn; [tauto|].
  destruct (y <? t) eqn:E.
  - apply Z.ltb_lt in E. rewrite IH by (eapply asc_from_ascending; exact A).
    split; [tauto|]. intros [[->|H] H2]; [lia|tauto].
  - apply Z.ltb_ge in E. cbn. split; [|tauto].
    intros [->|H]; [split; [tauto|lia]|]. split; [tauto|].
    cbn in A. pose proof (asc_from_In _ _ _ A H). lia.
Qed.

Lemma dropwhile_lt_hd t l x l' : dropwhile_lt t l = x :: l' -> t <= x.
Proof.
  induction l as [|y l IH]; cbn; [discriminate|].
  destruct (y <? t) eqn:E; [exact IH|]. intro H; inversion H; subst. apply Z.ltb_ge in E. exact E.
Qed.

Lemma dropwhile_lt_split t l : exists pre, l = pre ++ dropwhile_lt t l /\ Forall (fun x => x < t) pre.
Proof.
  induction l as [|y l [pre [H1 H2]]]; cbn; [exists []; split; [reflexivity|constructor]|].
  destruct (y <? t) eqn:E.
  - exists (y :: pre); split; [cbn; congruence|constructor; [apply Z.ltb_lt; exact E|exact H2]].
  - exists []; split; [reflexivity|constructor].
Qed.

Lemma dropwhile_lt_idem t l : dropwhile_lt t (dropwhile_lt t l) = dropwhile_lt t l.
Proof.
  induction l as [|y l IH]; cbn; [reflexivity|]. destruct (y <? t) eqn:E; [exact IH|].
  cbn. rewrite E. reflexivity.
Qed.

Lemma dropwhile_lt_noop t l : Forall (fun x => t <= x) l -> dropwhile_lt t l = l.
Proof.
  destruct l as [|y l]; cbn; [reflexivity|]. intro F. inversion F; subst.
  destruct (y <? t) eqn:E; [apply Z.ltb_lt in E; lia|reflexivity].
Qed.

Lemma tl_In l x : ascending l -> (In x (tl l) <-> In x l /\ match l with [] => False | y :: _ => y < x end).
Proof.
  destruct l as [|y l]; cbn; [tauto|]. intro A. split.
  - intro H. split; [tauto|]. eapply asc_from_In; eassumption.
  - intros [[->|H] H2]; [lia|exact H].
Qed.

(* the head of an ascending list is its least member *)
Lemma hd_least l x : ascending l -> In x l -> match l with [] => False | y :: _ => y <= x end.
Proof.
  destruct l as [|y l]; cbn; [tauto|]. intros A [->|H]; [lia|].
  pose proof (asc_from_In _ _ _ A H). lia.
Qed.

Lemma ascending_hd_char l m :
  ascending l -> In m l -> (forall x, In x l -> m <= x) -> exists l', l = m :: l'.
Proof.
  destruct l as [|y l]; cbn; [tauto|]. intros A Hin Hmin. exists l. f_equal.
  destruct Hin as [->|Hin]; [reflexivity|].
  pose proof (asc_from_In _ _ _ A Hin). pose proof (Hmin y (or_introl eq_refl)). lia.
Qed.

Lemma spec_step_ascending p c : ascending p -> ascending (snd (spec_step p c)).
Proof.
  intro A. destruct c as [|t]; cbn; unfold spec_next, spec_advance.
  - destruct p; cbn; [exact I|]. eapply asc_from_ascending; exact A.
  - pose proof (dropwhile_lt_ascending t p A) as A'. destruct (dropwhile_lt t p); cbn; [exact I|].
    eapply asc_from_ascending; exact A'.
Qed.

Lemma run_spec_length L prog : length (run_spec L prog) = length prog.
Proof.
  revert L; induction prog as [|c prog IH]; intro L; cbn; [reflexivity|].
  destruct (spec_step L c). cbn. f_equal. apply IH.
Qed.

Lemma run_spec_nil prog : run_spec [] prog = map (fun _ => None) prog.
Proof. induction prog as [|[|t] prog IH]; cbn; f_equal; exact IH. Qed.

(* ---------- exhausted stays exhausted (spec level) ---------- *)
Lemma spec_step_None p c : fst (spec_step p c) = None -> snd (spec_step p c) = [].
Proof.
  destruct c as [|t]; cbn; unfold spec_next, spec_advance.
  - destruct p; cbn; [reflexivity|discriminate].
  - destruct (dropwhile_lt t p); cbn; [reflexivity|discriminate].
Qed.

Lemma spec_exhausted_stays L prog1 c prog2 :
  fst (spec_step (pending_after L prog1) c) = None ->
  run_spec L (prog1 ++ c :: prog2) =
  run_spec L prog1 ++ None :: map (fun _ => None) prog2.
Proof.
  revert L; induction prog1 as [|d prog1 IH]; intros L H; cbn in *.
  - destruct (spec_step L c) as [r p'] eqn:E. cbn in H. subst r.
    pose proof (spec_step_None L c) as Hn. rewrite E in Hn. cbn in Hn. rewrite Hn by reflexivity.
    rewrite run_spec_nil. reflexivity.
  - destruct (spec_step L d) as [r p'] eqn:E. cbn in *. f_equal. apply IH. exact H.
Qed.

(* ---------- results are strictly increasing, a subsequence of L ---------- *)
Fixpoint subseq (a b : list Z) : Prop :=
  match a, b with
  | [], _ => True
  | _ :: _, [] => False
  | x :: a', y :: b' => (x = y /\ subseq a' b') \/ subseq a b'
  end.

Lemma subseq_nil_r a : subseq a [] -> a = [].
Proof. destruct a; cbn; [reflexivity|tauto]. Qed.

Lemma subseq_cons_r a y b : subseq a b -> subseq a (y :: b).
Proof. destruct a; cbn; [tauto|]. intro H. right. exact H. Qed.

Lemma subseq_app_l pre a b : subseq a b -> subseq a (pre ++ b).
Proof. induction pre as [|y pre IH]; cbn; intro H; [exact H|]. apply subseq_cons_r. auto. Qed.

Lemma run_spec_subseq L prog : subseq (somes (run_spec L prog)) L.
Proof.
  revert L; induction prog as [|c prog IH]; intro L; cbn; [destruct L; exact I|].
  destruct (spec_step L c) as [r p'] eqn:E.
  destruct c as [|t]; cbn in E; unfold spec_next, spec_advance in E.
  - destruct L as [|x L]; cbn in E; inversion E; subst.
    + exact (IH []).
    + cbn. left. split; [reflexivity|apply IH].
  - destruct (dropwhile_lt_split t L) as [pre [Hs _]].
    destruct (dropwhile_lt t L) as [|x L'] eqn:ED; cbn in E; inversion E; subst r p'; cbn.
    + pose proof (IH []) as IH0. apply subseq_nil_r in IH0. rewrite IH0. destruct L; exact I.
    + rewrite Hs. apply subseq_app_l. cbn. left. split; [reflexivity|apply IH].
Qed.

Lemma subseq_asc_from lo a b : asc_from lo b -> subseq a b -> asc_from lo a.
Proof.
  revert lo a; induction b as [|y b IH]; intros lo a A S.
  - apply subseq_nil_r in S. subst. exact I.
  - destruct a as [|x a]; [exact I|]. cbn in S. destruct A as [A1 A2]. destruct S as [[-> S]|S].
    + split; [exact A1|]. apply IH; assumption.
    + apply IH; [|exact S]. eapply asc_from_weaken; [|exact A2]. lia.
Qed.

Lemma subseq_ascending a b : ascending b -> subseq a b -> ascending a.
Proof.
  intros A S. destruct b as [|y b]; [apply subseq_nil_r in S; subst; exact I|].
  destruct a as [|x a]; [exact I|].
  assert (asc_from (y - 1) (y :: b)) as A' by (cbn; split; [lia|exact A]).
  eapply asc_from_ascending. eapply subseq_asc_from; eassumption.
Qed.

Lemma run_spec_ascending L prog : ascending L -> ascending (somes (run_spec L prog)).
Proof. intro A. eapply subseq_ascending; [exact A|apply run_spec_subseq]. Qed.

(* ---------- what Advance returns ---------- *)
(* the result of [Advance t] in pending state p is the least member of p that is >= t;
   for a forward call (t greater than everything already returned) "member of p" is
   "match not yet passed". *)
Lemma spec_advance_least p t :
  ascending p ->
  match fst (spec_advance t p) with
  | Some x => In x p /\ t <= x /\ forall y, In y p -> t <= y -> x <= y
  | None => forall y, In y p -> y < t
  end.
Proof.
  intro A. unfold spec_advance.
  pose proof (dropwhile_lt_ascending t p A) as A'.
  pose proof (fun x => dropwhile_lt_In t p x A) as HI.
  destruct (dropwhile_lt t p) as [|x l] eqn:E; cbn.
  - intros y Hy. destruct (Z_lt_ge_dec y t) as [H|H]; [exact H|].
    exfalso. apply (proj2 (HI y)). split; [exact Hy|lia].
  - destruct (proj1 (HI x) (or_introl eq_refl)) as [H1 H2]. repeat split; try assumption.
    intros y Hy Hty. pose proof (proj2 (HI y) (conj Hy Hty)) as Hin.
    pose proof (hd_least (x :: l) y A' Hin). exact H.
Qed.

Lemma spec_next_least p :
  ascending p ->
  match fst (spec_next p) with
  | Some x => In x p /\ forall y, In y p -> x <= y
  | None => p = []
  end.
Proof.
  intro A. destruct p as [|x p]; cbn; [reflexivity|]. split; [tauto|].
  intros y [->|H]; [lia|]. pose proof (asc_from_In _ _ _ A H). lia.
Qed.

(* after a step every pending id is greater than the returned one, and the ids dropped were
   smaller than the target or the returned id itself: no match at/after the target is lost *)
Lemma spec_step_pending p c x :
  ascending p ->
  (In x (snd (spec_step p c)) <->
   In x p /\ match c with Next => True | Advance t => t <= x end /\
   match fst (spec_step p c) with Some r => r < x | None => False end).
Proof.
  intro A. destruct c as [|t]; cbn; unfold spec_next, spec_advance.
  - destruct p as [|y p]; cbn; [tauto|]. split.
    + intro H. repeat split; [tauto|]. eapply asc_from_In; eassumption.
    + intros [[->|H] [_ H2]]; [lia|exact H].
  - pose proof (dropwhile_lt_ascending t p A) as A'.
    pose proof (fun x => dropwhile_lt_In t p x A) as HI.
    destruct (dropwhile_lt t p) as [|y l] eqn:E; cbn; [tauto|]. split.
    + intro H. destruct (proj1 (HI x) (or_intror H)) as [H1 H2]. repeat split; try assumption.
      eapply asc_from_In; eassumption.
    + intros [H1 [H2 H3]]. destruct (proj2 (HI x) (conj H1 H2)) as [->|H]; [lia|exact H].
Qed.

Lemma advance_first_call_spec L t prog :
  ascending L ->
  match run_spec L (Advance t :: prog) with
  | Some x :: _ => In x L /\ t <= x /\ forall y, In y L -> t <= y -> x <= y
  | None :: _ => forall y, In y L -> y < t
  | [] => False
  end.
Proof.
  intro A. cbn. pose proof (spec_advance_least L t A) as H. unfold spec_advance in *.
  destruct (uncons (dropwhile_lt t L)) as [r p']. cbn in H. destruct r; exact H.
Qed.

Lemma advance_past_end_spec p t :
  (forall y, In y p -> y < t) -> spec_advance t p = (None, []).
Proof.
  intro H. unfold spec_advance. induction p as [|y p IH]; cbn; [reflexivity|].
  pose proof (H y (or_introl eq_refl)) as Hy. apply Z.ltb_lt in Hy. rewrite Hy.
  apply IH. intros z Hz. apply H. right. exact Hz.
Qed.

(* ---------- the checker is sound and complete w.r.t. the spec ---------- *)
Lemma check_from_sound prog : forall rs last done,
  check_from last done prog rs = true ->
  (forall l, last = Some l -> asc_from l (somes rs)) /\
  ascending (somes rs) /\
  (done = true -> somes rs = []) /\
  run_spec (somes rs) prog = rs.
Proof.
  induction prog as [|c prog IH]; intros [|r rs] last done H; cbn in H; try discriminate.
  - cbn. repeat split; intros; exact I.
  - destruct r as [x|].
    + apply andb_true_iff in H as [H Hc]. apply andb_true_iff in H as [H Ht].
      apply andb_true_iff in H as [Hd Hl].
      destruct (IH _ _ _ Hc) as [I1 [I2 [I3 I4]]].
      pose proof (I1 x eq_refl) as Ax. cbn [somes].
      split; [|split; [|split]].
      * intros l ->. cbn in Hl. apply Z.ltb_lt in Hl. cbn. tauto.
      * exact Ax.
      * intros ->. discriminate.
      * destruct c as [|t]; cbn; unfold spec_next, spec_advance; cbn.
        -- f_equal. exact I4.
        -- apply Z.leb_le in Ht. destruct (x <? t) eqn:E; [apply Z.ltb_lt in E; lia|].
           cbn. f_equal. exact I4.
    + destruct (IH _ _ _ H) as [I1 [I2 [I3 I4]]]. cbn [somes].
      specialize (I3 eq_refl). split; [|split; [|split]].
      * intros l Hl. rewrite I3. exact I.
      * exact I2.
      * intros _. exact I3.
      * rewrite I3 in *. destruct c as [|t]; cbn; unfold spec_next, spec_advance; cbn; f_equal; exact I4.
Qed.

Lemma check_from_complete prog : forall L last done,
  (forall l, last = Some l -> asc_from l L) -> ascending L -> (done = true -> L = []) ->
  check_from last done prog (run_spec L prog) = true.
Proof.
  induction prog as [|c prog IH]; intros L last done Hl A Hd; cbn; [reflexivity|].
  destruct (spec_step L c) as [r p'] eqn:E.
  pose proof (spec_step_ascending L c A) as A'. rewrite E in A'. cbn in A'.
  destruct r as [x|].
  - assert (In x L /\ asc_from x p' /\ match c with Advance t => t <= x | Next => True end) as [Hin [Ax Ht]].
    { destruct c as [|t]; cbn in E; unfold spec_next, spec_advance in E.
      - destruct L as [|y L]; cbn in E; inversion E; subst. cbn. tauto.
      - pose proof (dropwhile_lt_ascending t L A) as A2.
        pose proof (dropwhile_lt_In t L x A) as HI.
        destruct (dropwhile_lt t L) as [|y l] eqn:ED; cbn in E; inversion E; subst.
        destruct (proj1 HI (or_introl eq_refl)). cbn in A2. tauto. }
    assert (done = false) as ->.
    { destruct done; [|reflexivity]. rewrite (Hd eq_refl) in Hin. destruct Hin. }
    cbn. rewrite IH; try assumption.
    + rewrite andb_true_r. apply andb_true_iff; split.
      * destruct last as [l|]; cbn; [|reflexivity]. apply Z.ltb_lt. eapply asc_from_In; [apply Hl; reflexivity|exact Hin].
      * destruct c; [reflexivity|apply Z.leb_le; exact Ht].
    + intros l Hl'. inversion Hl'; subst. exact Ax.
    + discriminate.
  - pose proof (spec_step_None L c) as Hn. rewrite E in Hn. cbn in Hn. specialize (Hn eq_refl). subst p'.
    apply IH; intros; try exact I; reflexivity.
Qed.

Theorem check_cursor_trace_sound prog rs :
  check_cursor_trace prog rs = true <-> exists L, ascending L /\ run_spec L prog = rs.
Proof.
  split.
  - intro H. apply check_from_sound in H. exists (somes rs). tauto.
  - intros [L [A <-]]. apply check_from_complete; try assumption; discriminate.
Qed.

(* the three facts a passing trace guarantees, stated directly *)
Lemma check_from_adv prog : forall rs last done,
  check_from last done prog rs = true ->
  forall i t x, nth_error prog i = Some (Advance t) -> nth_error rs i = Some (Some x) -> t <= x.
Proof.
  induction prog as [|c prog IH]; intros [|r rs] last done H i t x Hp Hr; cbn in H; try discriminate;
    destruct i as [|i]; cbn in Hp, Hr; try discriminate.
  - inversion Hp; inversion Hr; subst.
    apply andb_true_iff in H as [H Hc]. apply andb_true_iff in H as [H Ht]. apply Z.leb_le. exact Ht.
  - destruct r.
    + apply andb_true_iff in H as [H Hc]. eapply IH; eassumption.
    + eapply IH; eassumption.
Qed.

Lemma check_from_done prog : forall rs last,
  check_from last true prog rs = true ->
  forall j, (j < length rs)%nat -> nth_error rs j = Some None.
Proof.
  induction prog as [|c prog IH]; intros [|r rs] last H j Hj; cbn in *; try discriminate; try lia.
  destruct r; [discriminate|]. destruct j; [reflexivity|]. cbn. eapply IH; [exact H|lia].
Qed.

Lemma check_from_exh prog : forall rs last done,
  check_from last done prog rs = true ->
  forall i j, nth_error rs i = Some None -> (i <= j)%nat -> (j < length rs)%nat ->
  nth_error rs j = Some None.
Proof.
  induction prog as [|c prog IH]; intros [|r rs] last done H i j Hi Hij Hj; cbn in H; try discriminate;
    destruct i as [|i]; cbn in Hi; try discriminate.
  - inversion Hi; subst. destruct j; [reflexivity|]. cbn. eapply check_from_done; [exact H|cbn in Hj; lia].
  - destruct j; [lia|]. cbn in Hj |- *. destruct r.
    + apply andb_true_iff in H as [H Hc]. eapply IH; try eassumption; lia.
    + eapply IH; try eassumption; lia.
Qed.

Theorem check_cursor_trace_facts prog rs :
  check_cursor_trace prog rs = true ->
  ascending (somes rs) /\
  (forall i t x, nth_error prog i = Some (Advance t) -> nth_error rs i = Some (Some x) -> t <= x) /\
  (forall i j, nth_error rs i = Some None -> (i <= j)%nat -> (j < length rs)%nat -> nth_error rs j = Some None).
Proof.
  intro H. split; [apply check_from_sound in H; tauto|]. split.
  - eapply check_from_adv; exact H.
  - eapply check_from_exh; exact H.
Qed.
