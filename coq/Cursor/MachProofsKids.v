(* Cursor engine — lemmas shared by the conjunction and disjunction proofs: a child together
   with its current match ("kid") and the list it still stands for. *)
From Coq Require Import ZArith List Bool Lia.
From Verif Require Import Cursor.Cursor Cursor.Machines Cursor.MachProofsBase.
Import ListNotations.
Local Open Scope Z_scope.

Lemma dropwhile_lt_length t l : (length (dropwhile_lt t l) <= length l)%nat.
Proof. induction l as [|x l IH]; cbn; [lia|]. destruct (x <? t); cbn; lia. Qed.

Lemma dropwhile_lt_length_lt t x l : x < t -> (length (dropwhile_lt t (x :: l)) < length (x :: l))%nat.
Proof. intro H. cbn. rewrite (proj2 (Z.ltb_lt x t) H). pose proof (dropwhile_lt_length t l). lia. Qed.

Lemma dropwhile_lt_head_ge t x l : t <= x -> dropwhile_lt t (x :: l) = x :: l.
Proof. intro H. cbn. rewrite (proj2 (Z.ltb_ge x t) H). reflexivity. Qed.

Fixpoint tot (es : list (list Z)) : nat :=
  match es with [] => O | e :: es' => (length e + tot es')%nat end.

Lemma tot_replace_le i e es e0 :
  nth_error es i = Some e0 -> (length e <= length e0)%nat -> (tot (replace_nth i e es) <= tot es)%nat.
Proof.
  revert i; induction es as [|a es IH]; intros [|i] Hn Hl; cbn in *; try discriminate.
  - inversion Hn; subst. lia.
  - specialize (IH i Hn Hl). lia.
Qed.

Lemma tot_replace_lt i e es e0 :
  nth_error es i = Some e0 -> (length e < length e0)%nat -> (tot (replace_nth i e es) < tot es)%nat.
Proof.
  revert i; induction es as [|a es IH]; intros [|i] Hn Hl; cbn in *; try discriminate.
  - inversion Hn; subst. lia.
  - specialize (IH i Hn Hl). lia.
Qed.

Section Kids.
  Variable C : Type.
  Variable cnext : nat -> C -> step_res C.
  Variable cadv : nat -> C -> Z -> step_res C.
  Variable R : C -> list Z -> Prop.
  Hypothesis Hasc : asc_ok C R.
  Hypothesis Hnext : next_ok C cnext R.
  Hypothesis Hadv : adv_ok C cadv R.

  (* [e] = the ids child k still stands for: its current match followed by its pending list *)
  Definition KidOk (k : kid C) (e : list Z) : Prop :=
    match snd k with
    | Some x => exists pk, R (fst k) pk /\ asc_from x pk /\ e = x :: pk
    | None => R (fst k) [] /\ e = []
    end.

  Lemma KidOk_asc k e : KidOk k e -> ascending e.
  Proof.
    unfold KidOk. destruct (snd k); [intros [pk [_ [A ->]]]; exact A|intros [_ ->]; exact I].
  Qed.

  Lemma KidOk_hd k e : KidOk k e -> hd_res e = snd k.
  Proof.
    unfold KidOk. destruct (snd k); [intros [pk [_ [_ ->]]]; reflexivity|intros [_ ->]; reflexivity].
  Qed.

  (* a fresh result (r, k') of a child whose pending list was pk *)
  Lemma KidOk_fresh k' pk : ascending pk -> R k' (snd (uncons pk)) -> KidOk (k', fst (uncons pk)) pk.
  Proof.
    intros A H. destruct pk as [|x pk']; cbn in *; unfold KidOk; cbn; [auto|]. exists pk'. auto.
  Qed.

  Lemma init1_ok k c pk : R k pk -> exists k', KidOk k' pk /\ Ev (fun g => next1 C (cnext g) (k, c)) k'.
  Proof.
    intro H. destruct (Hnext _ _ H) as [k' [Hk' Hev]]. unfold spec_next in *.
    exists (k', fst (uncons pk)). split; [apply KidOk_fresh; [eapply Hasc; eauto|exact Hk']|].
    destruct Hev as [N HN]. exists N. intros g Hg. unfold next1. cbn. rewrite (HN g Hg). reflexivity.
  Qed.

  Lemma next1_ok k e : KidOk k e -> exists k', KidOk k' (tl e) /\ Ev (fun g => next1 C (cnext g) k) k'.
  Proof.
    destruct k as [s c]. unfold KidOk; cbn. destruct c as [x|].
    - intros [pk [H [A ->]]]. cbn. apply init1_ok. exact H.
    - intros [H ->]. cbn. apply (init1_ok s None []). exact H.
  Qed.

  Lemma adv1_ok t k e :
    KidOk k e -> (match snd k with Some x => x < t | None => True end) ->
    exists k', KidOk k' (dropwhile_lt t e) /\ Ev (fun g => adv1 C (cadv g) t k) k'.
  Proof.
    destruct k as [s c]. unfold KidOk; cbn. destruct c as [x|].
    - intros [pk [H [A ->]]] Hx. destruct (Hadv _ _ t H) as [k' [Hk' Hev]]. unfold spec_advance in *.
      assert (dropwhile_lt t (x :: pk) = dropwhile_lt t pk) as -> by (cbn; rewrite (proj2 (Z.ltb_lt x t) Hx); reflexivity).
      exists (k', fst (uncons (dropwhile_lt t pk))). split.
      + apply KidOk_fresh; [apply dropwhile_lt_ascending; eapply asc_from_ascending; exact A|exact Hk'].
      + destruct Hev as [N HN]. exists N. intros g Hg. unfold adv1. cbn. rewrite (HN g Hg). reflexivity.
    - intros [H ->] _. destruct (Hadv _ _ t H) as [k' [Hk' Hev]]. cbn in *.
      exists (k', None). split; [unfold KidOk; cbn; auto|].
      destruct Hev as [N HN]. exists N. intros g Hg. unfold adv1. cbn. rewrite (HN g Hg). reflexivity.
  Qed.

  Lemma next_all_ok kids es :
    Forall2 KidOk kids es ->
    exists kids', Forall2 KidOk kids' (map (@tl Z) es) /\ Ev (fun g => next_all C (cnext g) kids) kids'.
  Proof.
    induction 1 as [|k e kids es Hk F [kids' [F' Hev']]]; cbn.
    - exists []. split; [constructor|apply Ev_const].
    - destruct (next1_ok _ _ Hk) as [k' [Hk' Hev]].
      exists (k' :: kids'). split; [constructor; assumption|].
      eapply Ev_ext; [|eapply (Ev_bind _ (fun g k' => match next_all C (cnext g) kids with Some rest' => Some (k' :: rest') | None => None end) _ _ Hev);
                       eapply (Ev_bind _ (fun _ rest' => Some (k' :: rest')) _ _ Hev'); apply Ev_const].
      intro g. cbn. destruct (next1 C (cnext g) k); reflexivity.
  Qed.

  Lemma init_all_ok kids ps :
    Forall2 (fun k p => R (fst k) p) kids ps ->
    exists kids', Forall2 KidOk kids' ps /\ Ev (fun g => next_all C (cnext g) kids) kids'.
  Proof.
    induction 1 as [|k e kids es Hk F [kids' [F' Hev']]]; cbn.
    - exists []. split; [constructor|apply Ev_const].
    - destruct k as [s c]. destruct (init1_ok s c _ Hk) as [k' [Hk' Hev]].
      exists (k' :: kids'). split; [constructor; assumption|].
      eapply Ev_ext; [|eapply (Ev_bind _ (fun g k' => match next_all C (cnext g) kids with Some rest' => Some (k' :: rest') | None => None end) _ _ Hev);
                       eapply (Ev_bind _ (fun _ rest' => Some (k' :: rest')) _ _ Hev'); apply Ev_const].
      intro g. cbn. destruct (next1 C (cnext g) (s, c)); reflexivity.
  Qed.

  Lemma adv_lagging_ok t kids es :
    Forall2 KidOk kids es ->
    exists kids', Forall2 KidOk kids' (map (dropwhile_lt t) es) /\ Ev (fun g => adv_lagging C (cadv g) t kids) kids'.
  Proof.
    induction 1 as [|k e kids es Hk F [kids' [F' Hev']]]; cbn.
    - exists []. split; [constructor|apply Ev_const].
    - assert (exists k', KidOk k' (dropwhile_lt t e) /\
                Ev (fun g => match snd k with
                             | Some c => if t <=? c then Some k else adv1 C (cadv g) t k
                             | None => adv1 C (cadv g) t k end) k') as [k' [Hk' Hev]].
      { destruct (snd k) as [c|] eqn:Ec.
        - destruct (t <=? c) eqn:E.
          + apply Z.leb_le in E. exists k. split; [|apply Ev_const].
            unfold KidOk in Hk |- *. rewrite Ec in *. destruct Hk as [pk [H1 [H2 ->]]].
            rewrite dropwhile_lt_head_ge by exact E. eauto.
          + apply Z.leb_gt in E. apply adv1_ok; [exact Hk|rewrite Ec; exact E].
        - apply adv1_ok; [exact Hk|rewrite Ec; exact I]. }
      exists (k' :: kids'). split; [constructor; assumption|].
      eapply Ev_ext; [|eapply (Ev_bind _ (fun g k' => match adv_lagging C (cadv g) t kids with Some rest' => Some (k' :: rest') | None => None end) _ _ Hev);
                       eapply (Ev_bind _ (fun _ rest' => Some (k' :: rest')) _ _ Hev'); apply Ev_const].
      intro g. cbn. destruct (snd k) as [c|]; [destruct (t <=? c)|]; try reflexivity;
        destruct (adv1 C (cadv g) t k); reflexivity.
  Qed.

  Lemma upd_adv1_ok t i kids es k e :
    Forall2 KidOk kids es -> nth_error kids i = Some k -> nth_error es i = Some e ->
    (match snd k with Some x => x < t | None => True end) ->
    exists k', KidOk k' (dropwhile_lt t e) /\
               Forall2 KidOk (replace_nth i k' kids) (replace_nth i (dropwhile_lt t e) es) /\
               Ev (fun g => upd_nth i (adv1 C (cadv g) t) kids) (replace_nth i k' kids).
  Proof.
    intros F Hk He Hlt.
    destruct (Forall2_nth_l _ _ _ _ _ F Hk) as [e' [He' Hok]]. rewrite He in He'. inversion He'; subst e'.
    destruct (adv1_ok t k e Hok Hlt) as [k' [Hk' Hev]].
    exists k'. split; [exact Hk'|]. split; [apply Forall2_replace; assumption|].
    destruct Hev as [N HN]. exists N. intros g Hg. eapply upd_nth_Some; [exact Hk|apply HN; exact Hg].
  Qed.

  Lemma upd_next1_ok i kids es k e :
    Forall2 KidOk kids es -> nth_error kids i = Some k -> nth_error es i = Some e ->
    exists k', KidOk k' (tl e) /\
               Forall2 KidOk (replace_nth i k' kids) (replace_nth i (tl e) es) /\
               Ev (fun g => upd_nth i (next1 C (cnext g)) kids) (replace_nth i k' kids).
  Proof.
    intros F Hk He.
    destruct (Forall2_nth_l _ _ _ _ _ F Hk) as [e' [He' Hok]]. rewrite He in He'. inversion He'; subst e'.
    destruct (next1_ok k e Hok) as [k' [Hk' Hev]].
    exists k'. split; [exact Hk'|]. split; [apply Forall2_replace; assumption|].
    destruct Hev as [N HN]. exists N. intros g Hg. eapply upd_nth_Some; [exact Hk|apply HN; exact Hg].
  Qed.
End Kids.
