(* Cursor engine — the scorch readers and the unadorned bitmap replacements as state machines
   (DEFINITIONS ONLY; lemmas are in Cursor/MachProofsTfr.v):
     index/scorch/snapshot_index_tfr.go   IndexSnapshotTermFieldReader Next / Advance (restart on a
                                          backward target; ResetIterator for the unadorned reader)
     index/scorch/snapshot_index.go       segmentIndexAndLocalDocNumFromGlobal (sort.Search abstracted to a scan)
     index/scorch/snapshot_index_doc.go   IndexSnapshotDocIDReader Next / Advance
     index/scorch/optimize.go             Finish of OptimizeTFRConjunctionUnadorned / ...DisjunctionUnadorned
     index/scorch/unadorned.go            the 1-hit iterator
   A segment's postings iterator is a cursor over the segment's local doc numbers (deleted docs
   are excluded by the iterator's except-bitmap: zapx, not modelled). *)
From Coq Require Import ZArith List Bool Lia.
From Verif Require Import Cursor.Cursor Cursor.Machines.
Import ListNotations.
Local Open Scope Z_scope.

(* ================================================================== *)
(* scorch readers                                                       *)
(* ================================================================== *)

(* segmentIndexAndLocalDocNumFromGlobal: sort.Search(len(offsets), offsets[x] > docNum) - 1.
   [search_gt] is the sort.Search part (first index whose offset exceeds docNum; offsets are
   non-decreasing); with an empty offsets slice the -1 would index offsets[-1] (the reader's
   Advance returns early when the snapshot has no segment). *)
Fixpoint search_gt (offs : list Z) (id : Z) : nat :=
  match offs with
  | [] => O
  | o :: rest => if id <? o then O else S (search_gt rest id)
  end.
Definition seg_index_local (offs : list Z) (id : Z) : option (nat * Z) :=
  match search_gt offs id with
  | O => None                                       (* offsets[-1]: panic *)
  | S i => match nth_error offs i with Some o => Some (i, id - o) | None => None end
  end.

(* IndexSnapshotTermFieldReader.  The per-segment postings iterators are cursors over the
   segment's local doc numbers (deleted docs excluded by the iterator's except-bitmap); [tf_orig]
   is what a restart re-creates. [tf_curr] = currID, meaningful iff currPosting != nil. *)
Record tfr_st := { tf_orig : list (list Z); tf_offs : list Z; tf_iters : list (list Z);
                   tf_seg : nat; tf_curr : res; tf_unadorned : bool }.

(* for i.segmentOffset < len(i.iterators) { next = iterators[segmentOffset].Next(); ... } *)
Fixpoint tfr_next_loop (fuel : nat) (st : tfr_st) : step_res tfr_st :=
  match fuel with
  | O => None
  | S f =>
      match nth_error (tf_iters st) (tf_seg st), nth_error (tf_offs st) (tf_seg st) with
      | Some it, Some off =>
          match it with
          | x :: it' =>
              match upd_nth (tf_seg st) (fun _ => Some it') (tf_iters st) with
              | Some iters' =>
                  Some (Some (x + off),
                        {| tf_orig := tf_orig st; tf_offs := tf_offs st; tf_iters := iters';
                           tf_seg := tf_seg st; tf_curr := Some (x + off); tf_unadorned := tf_unadorned st |})
              | None => None
              end
          | [] =>
              tfr_next_loop f {| tf_orig := tf_orig st; tf_offs := tf_offs st; tf_iters := tf_iters st;
                                 tf_seg := S (tf_seg st); tf_curr := tf_curr st;
                                 tf_unadorned := tf_unadorned st |}
          end
      | _, _ => Some (None, st)
      end
  end.

Definition tfr_next (st : tfr_st) : step_res tfr_st :=
  tfr_next_loop (S (length (tf_iters st))) st.

Definition tfr_adv (st : tfr_st) (t : Z) : step_res tfr_st :=
  (* restart on a backward (or repeated) target *)
  let st0 :=
    match tf_curr st with
    | Some c =>
        if t <=? c then
          if tf_unadorned st then
            (* ResetIterator on every iterator; currPosting / currID / segmentOffset keep their values *)
            {| tf_orig := tf_orig st; tf_offs := tf_offs st; tf_iters := tf_orig st;
               tf_seg := tf_seg st; tf_curr := tf_curr st; tf_unadorned := true |}
          else
            (* *i = *(snapshot.TermFieldReader(...)): a fresh reader *)
            {| tf_orig := tf_orig st; tf_offs := tf_offs st; tf_iters := tf_orig st;
               tf_seg := O; tf_curr := None; tf_unadorned := false |}
        else st
    | None => st
    end in
  match tf_offs st0 with
  | [] => Some (None, st0)                           (* if len(i.snapshot.segment) == 0 { return nil, nil } *)
  | _ :: _ =>
  match seg_index_local (tf_offs st0) t with
  | None => None                                   (* offsets[-1]: not reachable, offsets[0] = 0 <= ID *)
  | Some (si, ldoc) =>
      match nth_error (tf_iters st0) si, nth_error (tf_offs st0) si with
      | Some it, Some off =>
          match dropwhile_lt ldoc it with
          | x :: it' =>
              match upd_nth si (fun _ => Some it') (tf_iters st0) with
              | Some iters' =>
                  Some (Some (x + off),
                        {| tf_orig := tf_orig st0; tf_offs := tf_offs st0; tf_iters := iters';
                           tf_seg := si; tf_curr := Some (x + off); tf_unadorned := tf_unadorned st0 |})
              | None => None
              end
          | [] =>
              match upd_nth si (fun _ => Some []) (tf_iters st0) with
              | Some iters' =>
                  tfr_next {| tf_orig := tf_orig st0; tf_offs := tf_offs st0; tf_iters := iters';
                              tf_seg := si; tf_curr := tf_curr st0; tf_unadorned := tf_unadorned st0 |}
              | None => None
              end
          end
      | _, _ => None
      end
  end
  end.

Definition tfr_init (unadorned : bool) (segs : list (list Z)) (offs : list Z) : tfr_st :=
  {| tf_orig := segs; tf_offs := offs; tf_iters := segs; tf_seg := O; tf_curr := None;
     tf_unadorned := unadorned |}.

Definition tfr_step (st : tfr_st) (c : call) : step_res tfr_st :=
  match c with Next => tfr_next st | Advance t => tfr_adv st t end.

Fixpoint tfr_run (st : tfr_st) (prog : list call) : option (list res) :=
  match prog with
  | [] => Some []
  | c :: prog' =>
      match tfr_step st c with
      | None => None
      | Some (r, st') => match tfr_run st' prog' with Some rs => Some (r :: rs) | None => None end
      end
  end.

(* the global posting list of a reader: segment lists shifted by their offsets *)
Fixpoint tfr_global (segs : list (list Z)) (offs : list Z) : list Z :=
  match segs, offs with
  | l :: segs', o :: offs' => map (fun x => x + o) l ++ tfr_global segs' offs'
  | _, _ => []
  end.

(* IndexSnapshotDocIDReader (doc-id and match-all searchers): per-segment roaring iterators *)
Record did_st := { di_offs : list Z; di_iters : list (list Z); di_seg : nat }.

Fixpoint did_next_loop (fuel : nat) (st : did_st) : step_res did_st :=
  match fuel with
  | O => None
  | S f =>
      match nth_error (di_iters st) (di_seg st), nth_error (di_offs st) (di_seg st) with
      | Some it, Some off =>
          match it with
          | [] => did_next_loop f {| di_offs := di_offs st; di_iters := di_iters st; di_seg := S (di_seg st) |}
          | x :: it' =>
              match upd_nth (di_seg st) (fun _ => Some it') (di_iters st) with
              | Some iters' => Some (Some (x + off), {| di_offs := di_offs st; di_iters := iters'; di_seg := di_seg st |})
              | None => None
              end
          end
      | _, _ => Some (None, st)
      end
  end.
Definition did_next (st : did_st) : step_res did_st :=
  did_next_loop (S (length (di_iters st))) st.

(* next := Next(); if nil return nil; for next < ID { next = Next(); if nil break }; return next *)
Fixpoint did_adv_loop (fuel : nat) (st : did_st) (cur : res) (t : Z) : step_res did_st :=
  match fuel with
  | O => None
  | S f =>
      match cur with
      | None => Some (None, st)
      | Some x =>
          if x <? t then
            match did_next st with
            | Some (r, st') => did_adv_loop f st' r t
            | None => None
            end
          else Some (Some x, st)
      end
  end.
Definition did_adv (fuel : nat) (st : did_st) (t : Z) : step_res did_st :=
  match did_next st with
  | Some (r, st') => did_adv_loop fuel st' r t
  | None => None
  end.

Definition did_init (segs : list (list Z)) (offs : list Z) : did_st :=
  {| di_offs := offs; di_iters := segs; di_seg := O |}.
Definition did_size (st : did_st) : nat :=
  S (fold_right (fun l a => S (length l) + a)%nat O (di_iters st)).

Fixpoint did_run (st : did_st) (prog : list call) : option (list res) :=
  match prog with
  | [] => Some []
  | c :: prog' =>
      match (match c with Next => did_next st | Advance t => did_adv (did_size st) st t end) with
      | None => None
      | Some (r, st') => match did_run st' prog' with Some rs => Some (r :: rs) | None => None end
      end
  end.

(* ================================================================== *)
(* unadorned AND / OR (index/scorch/optimize.go)                        *)
(* ================================================================== *)

(* what a term's postings iterator in one segment looks like to the optimiser *)
Inductive seg_it :=
| ItEmpty                 (* *emptyPostingsIterator *)
| It1Hit (d : Z)          (* DocNum1Hit() = (d, true) *)
| ItNilBM                 (* optimizable, not 1-hit, ActualBitmap() == nil *)
| ItBM (l : list Z).      (* ActualBitmap() = l (deleted docs already removed) *)

Definition it_elems (it : seg_it) : list Z :=
  match it with ItEmpty => [] | It1Hit d => [d] | ItNilBM => [] | ItBM l => l end.

(* the iterator put in oTFR.iterators[i] *)
Inductive una_it := UEmpty | U1Hit (d : Z) | UBM (l : list Z).
Definition una_elems (u : una_it) : list Z :=
  match u with UEmpty => [] | U1Hit d => [d] | UBM l => l end.

(* the scan "for _, tfr := range o.tfrs" of the conjunction; None = "continue OUTER" with the
   empty iterator *)
Fixpoint una_and_scan (its : list seg_it) (hit : option Z) (bms : list (list Z))
  : option (option Z * list (list Z)) :=
  match its with
  | [] => Some (hit, bms)
  | ItEmpty :: _ => None
  | It1Hit d :: rest =>
      match hit with
      | Some d0 => if d0 =? d then una_and_scan rest (Some d) bms else None
      | None => una_and_scan rest (Some d) bms
      end
  | ItNilBM :: _ => None
  | ItBM l :: rest => una_and_scan rest hit (bms ++ [l])
  end.

Definition una_and (its : list seg_it) : una_it :=
  match una_and_scan its None [] with
  | None => UEmpty
  | Some (Some d, bms) => if forallb (memb d) bms then U1Hit d else UEmpty
  | Some (None, []) => UEmpty
  | Some (None, [l]) => UBM l
  | Some (None, l0 :: l1 :: rest) => UBM (fold_left inter rest (inter l0 l1))
  end.

Fixpoint una_or_scan (its : list seg_it) (nums : list Z) (bms : list (list Z)) : list Z * list (list Z) :=
  match its with
  | [] => (nums, bms)
  | It1Hit d :: rest => una_or_scan rest (nums ++ [d]) bms
  | ItBM l :: rest => una_or_scan rest nums (bms ++ [l])
  | _ :: rest => una_or_scan rest nums bms
  end.

Definition una_or (its : list seg_it) : una_it :=
  let '(nums, bms) := una_or_scan its [] [] in
  match bms with
  | [] =>
      match nums with
      | [] => UEmpty
      | [d] => U1Hit d
      | _ => UBM (fold_right insert_asc [] nums)          (* roaring.New(); bm.AddMany(docNums) *)
      end
  | _ => UBM (fold_right insert_asc (union_all bms) nums)  (* Or / HeapOr / Clone, then AddMany *)
  end.

(* unadornedPostingsIterator1Hit.nextDocNumAtOrAfter; state = docNum, None = docNum1HitFinished *)
Definition hit1_at_or_after (st : option Z) (at_or_after : Z) : res * option Z :=
  match st with
  | None => (None, None)
  | Some d => if d <? at_or_after then (None, None) else (Some d, None)
  end.
