(* Cursor engine — ConjunctionSearcher is a cursor over the intersection of its children. *)
From Coq Require Import ZArith List Bool Lia.
From Verif Require Import Cursor.Cursor Cursor.Machines Cursor.MachProofsBase Cursor.MachProofsKids.
Import ListNotations.
Local Open Scope Z_scope.

Fixpoint mapfirst {A} (n : nat) (f : A -> A) (l : list A) : list A :=
  match n, l with
  | O, _ => l
  | S n', x :: l' => f x :: mapfirst n' f l'
  | S _, [] => []
  end.

Lemma mapfirst_length {A} n (f : A -> A) l : length (mapfirst n f l) = length l.
Proof. revert l; induction n as [|n IH]; intros [|x l]; cbn; auto. Qed.

Lemma mapfirst_nth_ge {A} n (f : A -> A) l j : (n <= j)%nat -> nth_error (mapfirst n f l) j = nth_error l j.
Proof.
  revert l j; induction n as [|n IH]; intros [|x l] j H; cbn; auto.
  destruct j as [|j]; [lia|]. cbn. apply IH. lia.
Qed.

Lemma Forall_mapfirst {A} (P Q : A -> Prop) n f l :
  (forall e, P e -> Q (f e)) -> (forall e, P e -> Q e) -> Forall P l -> Forall Q (mapfirst n f l).
Proof.
  intros H1 H2. revert l; induction n as [|n IH]; intros l F; cbn.
  - eapply Forall_impl; [exact H2|exact F].
  - destruct l as [|x l]; [constructor|]. inversion F; subst. constructor; auto.
Qed.

Lemma Forall_mapfirst_inv {A} (P Q : A -> Prop) n f l :
  (forall e, P (f e) -> Q e) -> (forall e, P e -> Q e) -> Forall P (mapfirst n f l) -> Forall Q l.
Proof.
  intros H1 H2. revert l; induction n as [|n IH]; intros l F; cbn in F.
  - eapply Forall_impl; [exact H2|exact F].
  - destruct l as [|x l]; [constructor|]. inversion F; subst. constructor; auto.
Qed.

Lemma tot_mapfirst_le n t es : (tot (mapfirst n (dropwhile_lt t) es) <= tot es)%nat.
Proof.
  revert es; induction n as [|n IH]; intros [|e es]; cbn; try lia.
  specialize (IH es). pose proof (dropwhile_lt_length t e). lia.
Qed.

Lemma Forall_replace_nth {A} (P : A -> Prop) i y l : Forall P l -> P y -> Forall P (replace_nth i y l).
Proof.
  intro F. revert i. induction F as [|x l Hx F IH]; intros [|i] Hy; cbn; constructor; auto.
Qed.

Lemma Forall_replace_nth_inv {A} (P Q : A -> Prop) i x y l :
  nth_error l i = Some x -> (P y -> Q x) -> (forall e, P e -> Q e) -> Forall P (replace_nth i y l) -> Forall Q l.
Proof.
  revert i. induction l as [|a l IH]; intros [|i] Hn Hy Himp F; cbn in *; try discriminate.
  - inversion Hn; subst. inversion F; subst. constructor; [auto|]. eapply Forall_impl; eauto.
  - inversion F; subst. constructor; [auto|]. eapply IH; eauto.
Qed.

Lemma Forall_nth {A} (P : A -> Prop) l i x : Forall P l -> nth_error l i = Some x -> P x.
Proof. intros F H. rewrite Forall_forall in F. apply F. eapply nth_error_In; eauto. Qed.

Lemma inter_all_ext es es' :
  Forall ascending es -> Forall ascending es' -> (es = [] <-> es' = []) ->
  (forall x, Forall (In x) es <-> Forall (In x) es') -> inter_all es = inter_all es'.
Proof.
  intros A A' Hnil H. apply ascending_ext; try (apply inter_all_ascending; assumption).
  intro x. rewrite !inter_all_In. rewrite H. split; intros [H1 H2]; (split; [|exact H2]); intro E; apply H1; apply Hnil; exact E.
Qed.

Lemma inter_all_nil_member es i : nth_error es i = Some [] -> inter_all es = [].
Proof.
  intro H. apply empty_char. intros x Hx. apply inter_all_In in Hx as [_ F].
  exact (Forall_nth _ _ _ _ F H).
Qed.

Lemma dropwhile_lt_incl t l x : In x (dropwhile_lt t l) -> In x l.
Proof.
  destruct (dropwhile_lt_split t l) as [pre [E _]]. intro H. rewrite E. apply in_or_app. right. exact H.
Qed.

Lemma dropwhile_lt_keep t l x : In x l -> t <= x -> In x (dropwhile_lt t l).
Proof.
  induction l as [|y l IH]; cbn; [tauto|]. intros [->|H] Ht.
  - rewrite (proj2 (Z.ltb_ge x t) Ht). left. reflexivity.
  - destruct (y <? t); [auto|right; exact H].
Qed.

Lemma Forall_nth_intro {A} (P : A -> Prop) l : (forall j x, nth_error l j = Some x -> P x) -> Forall P l.
Proof.
  intro H. apply Forall_forall. intros x Hx. apply In_nth_error in Hx as [j Hj]. eauto.
Qed.

Lemma uncons_hd_tl l : uncons l = (hd_res l, tl l).
Proof. destruct l; reflexivity. Qed.

Lemma Ev2_map {A B} (F : nat -> nat -> option A) (h : A -> B) a :
  Ev2 F a -> Ev2 (fun g f => match F g f with Some x => Some (h x) | None => None end) (h a).
Proof. intros [N H]. exists N. intros g f Hg Hf. rewrite H by assumption. reflexivity. Qed.

Lemma replace_nth_nil_iff {A} i (y : A) l : l = [] <-> replace_nth i y l = [].
Proof. destruct l, i; cbn; split; congruence. Qed.

Lemma inter_all_map_dropwhile t es :
  Forall ascending es -> inter_all (map (dropwhile_lt t) es) = dropwhile_lt t (inter_all es).
Proof.
  intro A. apply ascending_ext.
  - apply inter_all_ascending. apply Forall_map. eapply Forall_impl; [|exact A]. intros; apply dropwhile_lt_ascending; assumption.
  - apply dropwhile_lt_ascending. apply inter_all_ascending. exact A.
  - intro x. rewrite dropwhile_lt_In by (apply inter_all_ascending; exact A). rewrite !inter_all_In.
    rewrite Forall_map. split.
    + intros [H1 H2]. assert (es <> []) as Hne by (intro E; subst; apply H1; reflexivity).
      split; [split; [exact Hne|]|].
      * eapply Forall_impl; [|exact H2]. intros e He. eapply dropwhile_lt_incl; exact He.
      * destruct es as [|e es]; [congruence|]. inversion H2; subst. inversion A; subst.
        apply (dropwhile_lt_In t e x) in H3; tauto.
    + intros [[H1 H2] H3]. split; [destruct es; cbn; congruence|].
      eapply Forall_impl; [|exact H2]. intros e He. apply dropwhile_lt_keep; assumption.
Qed.

Section Conj.
  Variable C : Type.
  Variable cnext : nat -> C -> step_res C.
  Variable cadv : nat -> C -> Z -> step_res C.
  Variable R : C -> list Z -> Prop.
  Hypothesis Hasc : asc_ok C R.
  Hypothesis Hnext : next_ok C cnext R.
  Hypothesis Hadv : adv_ok C cadv R.

  Notation KidOk := (KidOk C R).

  Definition RConj (st : conj_st C) (p : list Z) : Prop :=
    (cj_kids st = [] \/ (cj_max st < length (cj_kids st))%nat) /\
    exists es, p = inter_all es /\
      if cj_init st then Forall2 KidOk (cj_kids st) es
      else Forall2 (fun k e => R (fst k) e) (cj_kids st) es.

  Lemma Forall2_KidOk_asc kids es : Forall2 KidOk kids es -> Forall ascending es.
  Proof. induction 1; constructor; auto. eapply KidOk_asc; eauto. Qed.

  Lemma RConj_asc : asc_ok _ RConj.
  Proof.
    intros st p [_ [es [-> H]]]. apply inter_all_ascending. destruct (cj_init st).
    - eapply Forall2_KidOk_asc; eauto.
    - clear -H Hasc. induction H; constructor; auto. eapply Hasc; eauto.
  Qed.

  (* unfolding equations of the two loops *)
  Lemma conj_outer_S cn ca f kids mx :
    conj_outer C cn ca (S f) kids mx =
    match nth_error kids mx with
    | Some (_, Some maxID) => conj_inner C cn ca f kids mx maxID 0
    | _ => Some (None, kids, mx)
    end.
  Proof. reflexivity. Qed.

  Lemma conj_inner_S cn ca f kids mx maxID i :
    conj_inner C cn ca (S f) kids mx maxID i =
    match nth_error kids i with
    | None => match next_all C cn kids with Some kids' => Some (Some maxID, kids', mx) | None => None end
    | Some (_, None) => Some (None, kids, mx)
    | Some (_, Some ci) =>
        if (i =? mx)%nat then conj_inner C cn ca f kids mx maxID (S i)
        else if maxID =? ci then conj_inner C cn ca f kids mx maxID (S i)
        else if maxID <? ci then
          match adv_prefix C ca i ci kids with
          | Some kids' => conj_outer C cn ca f kids' i
          | None => None
          end
        else
          match upd_nth i (adv1 C ca maxID) kids with
          | Some kids' => conj_inner C cn ca f kids' mx maxID i
          | None => None
          end
    end.
  Proof. reflexivity. Qed.

  Lemma adv_prefix_ok : forall n t kids es,
    Forall2 KidOk kids es ->
    (forall j k, (j < n)%nat -> nth_error kids j = Some k -> exists x, snd k = Some x /\ x < t) ->
    exists kids', Forall2 KidOk kids' (mapfirst n (dropwhile_lt t) es) /\
                  (forall j, (n <= j)%nat -> nth_error kids' j = nth_error kids j) /\
                  ((0 < n)%nat -> kids <> [] -> (tot (mapfirst n (dropwhile_lt t) es) < tot es)%nat) /\
                  Ev (fun g => adv_prefix C (cadv g) n t kids) kids'.
  Proof.
    induction n as [|n IH]; intros t kids es F Hlt.
    - exists kids. cbn. repeat split; auto; try lia. destruct kids; apply Ev_const.
    - destruct F as [|k e kids es Hk F].
      + exists []. cbn. repeat split; auto; try constructor; try congruence. apply Ev_const.
      + destruct (Hlt O k ltac:(lia) eq_refl) as [x [Hx Hxt]].
        destruct (adv1_ok C cadv R Hadv t k e Hk) as [k' [Hk' Hev]]; [rewrite Hx; exact Hxt|].
        destruct (IH t kids es F) as [kids' [F' [Hge [_ Hev']]]].
        { intros j kj Hj Hn. apply (Hlt (S j) kj); [lia|exact Hn]. }
        exists (k' :: kids'). cbn [mapfirst]. split; [constructor; assumption|]. split; [|split].
        * intros [|j] Hj; [lia|]. cbn. apply Hge. lia.
        * intros _ _. cbn [tot].
          pose proof (tot_mapfirst_le n t es).
          assert (length (dropwhile_lt t e) < length e)%nat.
          { unfold MachProofsKids.KidOk in Hk. rewrite Hx in Hk. destruct Hk as [pk [_ [_ ->]]].
            apply dropwhile_lt_length_lt. exact Hxt. }
          lia.
        * eapply Ev_ext; [|eapply (Ev_bind _ (fun g k' => match adv_prefix C (cadv g) n t kids with Some rest' => Some (k' :: rest') | None => None end) _ _ Hev);
                           eapply (Ev_bind _ (fun _ rest' => Some (k' :: rest')) _ _ Hev'); apply Ev_const].
          intro g. cbn. destruct (adv1 C (cadv g) t k); reflexivity.
  Qed.

  Definition mu (n tt i mx : nat) : nat :=
    ((2 * n + 3) * tt + (n - i) + (if ((i =? 0) && negb (mx =? 0))%nat then n + 1 else 0))%nat.

  (* every member of the intersection is at least the current match of any child *)
  Lemma inter_ge_curr kids es j kj c x :
    Forall2 KidOk kids es -> nth_error kids j = Some (kj, Some c) -> Forall (In x) es -> c <= x.
  Proof.
    intros F Hn Hall. destruct (Forall2_nth_l _ _ _ _ _ F Hn) as [e [He Hok]].
    unfold MachProofsKids.KidOk in Hok. cbn in Hok. destruct Hok as [pk [_ [A ->]]].
    pose proof (Forall_nth _ _ _ _ Hall He) as [->|Hin]; [lia|].
    pose proof (asc_from_In _ _ _ A Hin). lia.
  Qed.

  Lemma conj_inner_ok : forall M kids es mx maxID i km,
    (mu (length kids) (tot es) i mx < M)%nat ->
    Forall2 KidOk kids es ->
    nth_error kids mx = Some (km, Some maxID) ->
    (forall j, (j < i)%nat -> (j < length kids)%nat -> exists kj, nth_error kids j = Some (kj, Some maxID)) ->
    exists kids' es' mx',
      Forall2 KidOk kids' es' /\ (mx' < length kids')%nat /\ inter_all es' = tl (inter_all es) /\
      Ev2 (fun g f => conj_inner C (cnext g) (cadv g) f kids mx maxID i) (hd_res (inter_all es), kids', mx').
  Proof.
    induction M as [|M IH]; intros kids es mx maxID i km Hmu F Hmx Hpre; [lia|].
    pose proof (Forall2_KidOk_asc _ _ F) as Aes.
    pose proof (Forall2_length' _ _ _ F) as Hlen.
    assert (mx < length kids)%nat as Hmxlt by (apply nth_error_Some; congruence).
    destruct (nth_error kids i) as [[ki [ci|]]|] eqn:Hi.
    - (* a current match at i *)
      destruct (Forall2_nth_l _ _ _ _ _ F Hi) as [ei [Hei Hoki]].
      assert (i < length kids)%nat as Hilt by (apply nth_error_Some; congruence).
      destruct ((i =? mx)%nat) eqn:Eimx; [|destruct (maxID =? ci) eqn:Eeq; [|destruct (maxID <? ci) eqn:Elt]].
      + (* i = maxIDIdx *)
        apply Nat.eqb_eq in Eimx. subst i.
        destruct (IH kids es mx maxID (S mx) km) as [kids' [es' [mx' [F' [Hmx' [Hint Hev]]]]]]; auto.
        { unfold mu in *. destruct mx; cbn in *; lia. }
        { intros j Hj Hjl. destruct (Nat.eq_dec j mx) as [->|Hne]; [eauto|]. apply Hpre; lia. }
        exists kids', es', mx'. repeat split; auto.
        eapply Ev2_step0; [|exact Hev]. intros g f. rewrite conj_inner_S, Hi, Nat.eqb_refl. reflexivity.
      + (* equal to maxID *)
        apply Z.eqb_eq in Eeq. subst ci.
        destruct (IH kids es mx maxID (S i) km) as [kids' [es' [mx' [F' [Hmx' [Hint Hev]]]]]]; auto.
        { unfold mu in *. destruct i; cbn in *; destruct (mx =? 0)%nat; cbn in *; lia. }
        { intros j Hj Hjl. destruct (Nat.eq_dec j i) as [->|Hne]; [eauto|]. apply Hpre; lia. }
        exists kids', es', mx'. repeat split; auto.
        eapply Ev2_step0; [|exact Hev]. intros g f. rewrite conj_inner_S, Hi, Eimx, Z.eqb_refl. reflexivity.
      + (* new maximum at i *)
        apply Z.ltb_lt in Elt.
        destruct (adv_prefix_ok i ci kids es F) as [kids1 [F1 [Hge [Htot Hev1]]]].
        { intros j k Hj Hn. destruct (Hpre j Hj ltac:(lia)) as [kj Hkj]. rewrite Hkj in Hn. inversion Hn; subst.
          exists maxID. split; [reflexivity|exact Elt]. }
        set (es1 := mapfirst i (dropwhile_lt ci) es) in *.
        assert (nth_error kids1 i = Some (ki, Some ci)) as Hi1 by (rewrite Hge by lia; exact Hi).
        assert (length kids1 = length kids) as Hlen1.
        { rewrite (Forall2_length' _ _ _ F1). unfold es1. rewrite mapfirst_length. auto. }
        assert (inter_all es1 = inter_all es) as Hint1.
        { apply inter_all_ext; [eapply Forall2_KidOk_asc; eauto|exact Aes| |].
          - unfold es1. destruct es, i; cbn; split; congruence.
          - intro x. split; intro Hall.
            + eapply Forall_mapfirst_inv with (P := In x); [| |exact Hall]; [|tauto].
              intros e He. eapply dropwhile_lt_incl; exact He.
            + pose proof (inter_ge_curr kids es i ki ci x F Hi Hall) as Hge'.
              eapply Forall_mapfirst with (P := In x); [| |exact Hall]; [|tauto].
              intros e He. apply dropwhile_lt_keep; assumption. }
        assert (i <> mx) as Hne by (apply Nat.eqb_neq; exact Eimx).
        destruct (IH kids1 es1 i ci O ki) as [kids' [es' [mx' [F' [Hmx' [Hint Hev]]]]]]; auto.
        { rewrite Hlen1. unfold mu in *. destruct i as [|i'].
          - unfold es1; cbn [mapfirst]. destruct mx as [|mx']; [congruence|]. cbn in *. lia.
          - assert (tot es1 < tot es)%nat as Hlt' by (apply Htot; [lia|intro E; subst kids; cbn in Hilt; lia]).
            cbn [Nat.eqb andb negb] in *. nia. }
        { intros j Hj. lia. }
        exists kids', es', mx'. rewrite Hint1 in *. repeat split; auto.
        eapply Ev2_step with (Ch := fun g => adv_prefix C (cadv g) i ci kids)
                             (G := fun g f kids' => conj_outer C (cnext g) (cadv g) f kids' i);
          [|exact Hev1|].
        * intros g f. rewrite conj_inner_S, Hi, Eimx, Eeq, (proj2 (Z.ltb_lt maxID ci) Elt). reflexivity.
        * eapply Ev2_step0; [|exact Hev]. intros g f. rewrite conj_outer_S, Hi1. reflexivity.
      + (* maxID > currs[i]: advance child i *)
        apply Z.ltb_ge in Elt. apply Z.eqb_neq in Eeq. assert (ci < maxID) as Hci by lia.
        assert (i <> mx) as Hne by (apply Nat.eqb_neq; exact Eimx).
        destruct (upd_adv1_ok C cadv R Hadv maxID i kids es (ki, Some ci) ei F Hi Hei Hci) as [k' [Hk' [F1 Hev1]]].
        set (kids1 := replace_nth i k' kids) in *. set (es1 := replace_nth i (dropwhile_lt maxID ei) es) in *.
        assert (inter_all es1 = inter_all es) as Hint1.
        { apply inter_all_ext; [eapply Forall2_KidOk_asc; eauto|exact Aes|unfold es1; symmetry; apply replace_nth_nil_iff|].
          intro x. split; intro Hall.
          - eapply Forall_replace_nth_inv with (P := In x); [exact Hei| |tauto|exact Hall].
            intro He. eapply dropwhile_lt_incl; exact He.
          - pose proof (inter_ge_curr kids es mx km maxID x F Hmx Hall) as Hge'.
            apply Forall_replace_nth; [exact Hall|]. apply dropwhile_lt_keep; [|exact Hge'].
            exact (Forall_nth _ _ _ _ Hall Hei). }
        assert (tot es1 < tot es)%nat as Hlt'.
        { eapply tot_replace_lt; [exact Hei|]. unfold MachProofsKids.KidOk in Hoki. cbn in Hoki.
          destruct Hoki as [pk [_ [_ ->]]]. apply dropwhile_lt_length_lt. exact Hci. }
        assert (length kids1 = length kids) as Hlen1 by (unfold kids1; apply replace_nth_length).
        destruct (IH kids1 es1 mx maxID i km) as [kids' [es' [mx' [F' [Hmx' [Hint Hev]]]]]]; auto.
        { rewrite Hlen1. unfold mu in *. nia. }
        { unfold kids1. rewrite nth_error_replace_neq by exact Hne. exact Hmx. }
        { intros j Hj Hjl. unfold kids1. rewrite nth_error_replace_neq by lia. apply Hpre; [exact Hj|]. rewrite <- Hlen1. exact Hjl. }
        exists kids', es', mx'. rewrite Hint1 in *. repeat split; auto.
        eapply Ev2_step with (Ch := fun g => upd_nth i (adv1 C (cadv g) maxID) kids)
                             (G := fun g f kids' => conj_inner C (cnext g) (cadv g) f kids' mx maxID i);
          [|exact Hev1|exact Hev].
        intros g f. rewrite conj_inner_S, Hi, Eimx, (proj2 (Z.eqb_neq maxID ci) Eeq), (proj2 (Z.ltb_ge maxID ci) Elt). reflexivity.
    - (* currs[i] == nil: return nil *)
      destruct (Forall2_nth_l _ _ _ _ _ F Hi) as [ei [Hei Hoki]].
      unfold MachProofsKids.KidOk in Hoki. cbn in Hoki. destruct Hoki as [_ ->].
      pose proof (inter_all_nil_member es i Hei) as Hnil.
      exists kids, es, mx. rewrite Hnil. repeat split; auto.
      eapply Ev2_step0; [|apply Ev2_const]. intros g f. rewrite conj_inner_S, Hi. reflexivity.
    - (* i = len: every child is at maxID *)
      apply nth_error_None in Hi.
      assert (forall j e, nth_error es j = Some e -> hd_res e = Some maxID) as Hhd.
      { intros j e He. destruct (Forall2_nth_r _ _ _ _ _ F He) as [kj [Hkj Hok]].
        assert (j < length kids)%nat as Hj by (apply nth_error_Some; congruence).
        destruct (Hpre j ltac:(lia) Hj) as [kj' Hkj']. rewrite Hkj' in Hkj. inversion Hkj; subst kj.
        rewrite (KidOk_hd C R _ _ Hok). reflexivity. }
      destruct (next_all_ok C cnext R Hasc Hnext kids es F) as [kids' [F' Hev']].
      pose proof (Forall2_KidOk_asc _ _ F') as Aes'.
      assert (es <> []) as Hne by (intro E; subst es; cbn in Hlen; lia).
      assert (inter_all es = maxID :: inter_all (map (@tl Z) es)) as Hsplit.
      { apply hd_tl_char; try (apply inter_all_ascending; assumption).
        - apply inter_all_In. split; [exact Hne|]. apply Forall_nth_intro. intros j e He.
          specialize (Hhd j e He). destruct e; cbn in Hhd; inversion Hhd; subst. left. reflexivity.
        - intros x Hx. apply inter_all_In in Hx as [_ Hall]. exact (inter_ge_curr kids es mx km maxID x F Hmx Hall).
        - intro x. rewrite !inter_all_In. rewrite Forall_map. split.
          + intros [_ Hall]. split; [split; [exact Hne|]|].
            * eapply Forall_impl; [|exact Hall]. intros e He. destruct e; cbn in He; [destruct He|right; exact He].
            * destruct es as [|e es]; [congruence|]. inversion Hall; subst. inversion Aes; subst.
              specialize (Hhd O e eq_refl). destruct e as [|y e]; cbn in Hhd; inversion Hhd; subst.
              cbn in H1. eapply asc_from_In; eassumption.
          + intros [[_ Hall] Hlt]. split; [destruct es; cbn; congruence|].
            apply Forall_nth_intro. intros j e He. pose proof (Forall_nth _ _ _ _ Hall He) as Hin.
            specialize (Hhd j e He). destruct e as [|y e]; cbn in Hhd; inversion Hhd; subst.
            cbn. destruct Hin as [->|Hin]; [lia|exact Hin]. }
      exists kids', (map (@tl Z) es), mx. rewrite Hsplit. cbn [hd_res tl]. repeat split; auto.
      + rewrite (Forall2_length' _ _ _ F'), map_length, <- Hlen. exact Hmxlt.
      + eapply Ev2_step with (Ch := fun g => next_all C (cnext g) kids)
                             (G := fun g f kids' => Some (Some maxID, kids', mx)); [|exact Hev'|apply Ev2_const].
        intros g f. rewrite conj_inner_S. rewrite (proj2 (nth_error_None kids i) Hi). reflexivity.
  Qed.

  Lemma conj_outer_ok kids es mx :
    Forall2 KidOk kids es -> (kids = [] \/ (mx < length kids)%nat) ->
    exists kids' es' mx',
      Forall2 KidOk kids' es' /\ (kids' = [] \/ (mx' < length kids')%nat) /\ inter_all es' = tl (inter_all es) /\
      Ev2 (fun g f => conj_outer C (cnext g) (cadv g) f kids mx) (hd_res (inter_all es), kids', mx').
  Proof.
    intros F Hr. destruct (nth_error kids mx) as [[km [maxID|]]|] eqn:Hmx.
    - destruct (conj_inner_ok (S (mu (length kids) (tot es) 0 mx)) kids es mx maxID O km) as
          [kids' [es' [mx' [F' [Hmx' [Hint Hev]]]]]]; auto.
      { intros j Hj. lia. }
      exists kids', es', mx'. repeat split; auto.
      eapply Ev2_step0; [|exact Hev]. intros g f. rewrite conj_outer_S, Hmx. reflexivity.
    - destruct (Forall2_nth_l _ _ _ _ _ F Hmx) as [e [He Hok]].
      unfold MachProofsKids.KidOk in Hok. cbn in Hok. destruct Hok as [_ ->].
      rewrite (inter_all_nil_member es mx He).
      exists kids, es, mx. rewrite (inter_all_nil_member es mx He). repeat split; auto.
      eapply Ev2_step0; [|apply Ev2_const]. intros g f. rewrite conj_outer_S, Hmx. reflexivity.
    - apply nth_error_None in Hmx. destruct Hr as [->|Hr]; [|lia]. inversion F; subst.
      exists [], [], mx. cbn. repeat split; auto.
      eapply Ev2_step0; [|apply Ev2_const]. intros g f. rewrite conj_outer_S. destruct mx; reflexivity.
  Qed.

  (* initSearchers *)
  Lemma conj_init_ok st p :
    RConj st p ->
    exists kids es, p = inter_all es /\ Forall2 KidOk kids es /\
                    (kids = [] \/ (cj_max st < length kids)%nat) /\
                    Ev (fun g => conj_init C (cnext g) st) kids.
  Proof.
    intros [Hr [es [-> H]]]. unfold conj_init. destruct (cj_init st).
    - exists (cj_kids st), es. repeat split; auto. apply Ev_const.
    - destruct (init_all_ok C cnext R Hasc Hnext _ _ H) as [kids' [F' Hev]].
      exists kids', es. repeat split; auto.
      rewrite (Forall2_length' _ _ _ F'), <- (Forall2_length' _ _ _ H).
      destruct Hr as [E|Hr]; [|right; exact Hr]. left. rewrite E in H. inversion H; subst. inversion F'; reflexivity.
  Qed.

  Theorem conj_cursor :
    cursor_ok (conj_st C) (fun f => conj_next C (cnext f) (cadv f) f)
              (fun f => conj_adv C (cnext f) (cadv f) f) RConj.
  Proof.
    split; [exact RConj_asc|]. split.
    - intros st p H. destruct (conj_init_ok st p H) as [kids [es [-> [F [Hr Hev0]]]]].
      destruct (conj_outer_ok kids es (cj_max st) F Hr) as [kids' [es' [mx' [F' [Hr' [Hint Hev]]]]]].
      exists {| cj_kids := kids'; cj_max := mx'; cj_init := true |}.
      unfold spec_next. rewrite uncons_hd_tl. cbn [fst snd]. split.
      + split; [exact Hr'|]. exists es'. cbn. split; [symmetry; exact Hint|exact F'].
      + apply Ev2_diag with (F := fun g f => conj_next C (cnext g) (cadv g) f st). unfold conj_next.
        eapply Ev2_bind with (F := fun g => conj_init C (cnext g) st)
          (G := fun g f kids => match conj_outer C (cnext g) (cadv g) f kids (cj_max st) with
                                | Some (r, kids', mx') => Some (r, {| cj_kids := kids'; cj_max := mx'; cj_init := true |})
                                | None => None end); [exact Hev0|].
        apply (Ev2_map _ (fun x => let '(r, kids', mx') := x in (r, {| cj_kids := kids'; cj_max := mx'; cj_init := true |}))) in Hev.
        eapply Ev2_ext; [|exact Hev]. intros g f. cbn.
        destruct (conj_outer C (cnext g) (cadv g) f kids (cj_max st)) as [[[r k'] m']|]; reflexivity.
    - intros st p t H. destruct (conj_init_ok st p H) as [kids [es [-> [F [Hr Hev0]]]]].
      pose proof (Forall2_KidOk_asc _ _ F) as Aes.
      destruct (adv_lagging_ok C cadv R Hadv t kids es F) as [kids1 [F1 Hev1]].
      assert (kids1 = [] \/ (cj_max st < length kids1)%nat) as Hr1.
      { rewrite (Forall2_length' _ _ _ F1), map_length, <- (Forall2_length' _ _ _ F).
        destruct Hr as [E|Hr]; [|right; exact Hr]. left. subst kids. inversion F; subst. inversion F1; reflexivity. }
      destruct (conj_outer_ok kids1 _ (cj_max st) F1 Hr1) as [kids' [es' [mx' [F' [Hr' [Hint Hev]]]]]].
      rewrite (inter_all_map_dropwhile t es Aes) in Hint, Hev.
      exists {| cj_kids := kids'; cj_max := mx'; cj_init := true |}.
      unfold spec_advance. rewrite uncons_hd_tl. cbn [fst snd]. split.
      + split; [exact Hr'|]. exists es'. cbn. split; [symmetry; exact Hint|exact F'].
      + apply Ev2_diag with (F := fun g f => conj_adv C (cnext g) (cadv g) f st t). unfold conj_adv.
        eapply Ev2_bind with (F := fun g => conj_init C (cnext g) st)
          (G := fun g f kids => match adv_lagging C (cadv g) t kids with
                                | None => None
                                | Some kids1 =>
                                    match conj_outer C (cnext g) (cadv g) f kids1 (cj_max st) with
                                    | Some (r, kids', mx') => Some (r, {| cj_kids := kids'; cj_max := mx'; cj_init := true |})
                                    | None => None end end); [exact Hev0|].
        eapply Ev2_ext; [|eapply Ev2_bind with (F := fun g => adv_lagging C (cadv g) t kids)
          (G := fun g f kids1 => match conj_outer C (cnext g) (cadv g) f kids1 (cj_max st) with
                                 | Some (r, kids', mx') => Some (r, {| cj_kids := kids'; cj_max := mx'; cj_init := true |})
                                 | None => None end); [exact Hev1|]].
        * intros g f. cbn. destruct (adv_lagging C (cadv g) t kids); reflexivity.
        * apply (Ev2_map _ (fun x => let '(r, kids', mx') := x in (r, {| cj_kids := kids'; cj_max := mx'; cj_init := true |}))) in Hev.
          eapply Ev2_ext; [|exact Hev]. intros g f. cbn.
          destruct (conj_outer C (cnext g) (cadv g) f kids1 (cj_max st)) as [[[r k'] m']|]; reflexivity.
  Qed.
End Conj.
