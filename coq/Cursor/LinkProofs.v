(* Cursor engine — proofs about the LINK (Cursor/Link.v): the searcher tree that bleve's Searcher()
   methods build for a compound query denotes exactly the documented meaning [sem] of the query,
   is well formed, and therefore — by C08's program_subsequence — the built machine enumerates
   exactly [sem tr c q], for every option setting. *)
From Coq Require Import ZArith List Bool Sorted Lia.
From Verif Require Import Common.Bytes Numeric.Model Cursor.Sem Cursor.SemProofsStr Cursor.SemProofs.
From Verif Require Import Cursor.Cursor Cursor.Machines Cursor.MachProofsBase Cursor.MachProofsTree
  Cursor.MachProofsProps Cursor.Link.
Import ListNotations.
Local Open Scope Z_scope.

(* ---------------------------------------------------------------- arithmetic of int(min) *)

Lemma go_int_half_nonneg m : 0 <= m -> go_int_half m = floor_min m.
Proof. intro H. unfold go_int_half, floor_min. apply Z.quot_div_nonneg; lia. Qed.

Lemma go_int_half_neg m : m < 0 -> go_int_half m <= 0 /\ floor_min m < 0.
Proof.
  intro H. unfold go_int_half, floor_min. split.
  - apply Z.quot_le_upper_bound; lia.
  - apply Z.div_lt_upper_bound; lia.
Qed.

(* in a disjunction the two roundings cannot be told apart *)
Lemma max1_go_int_half m : Z.max 1 (go_int_half m) = Z.max 1 (floor_min m).
Proof.
  destruct (Z_lt_le_dec m 0) as [H|H].
  - destruct (go_int_half_neg m H). lia.
  - rewrite go_int_half_nonneg by exact H. reflexivity.
Qed.

Lemma go_int_half_le1 m : m <= 3 -> go_int_half m <= 1.
Proof.
  intro H. destruct (Z_lt_le_dec m 0) as [H0|H0].
  - destruct (go_int_half_neg m H0). lia.
  - rewrite go_int_half_nonneg by exact H0. unfold floor_min. apply Z.lt_succ_r. apply Z.div_lt_upper_bound; lia.
Qed.

Lemma floor_min_le1 m : m <= 3 -> floor_min m <= 1.
Proof. intro H. unfold floor_min. apply Z.lt_succ_r. apply Z.div_lt_upper_bound; lia. Qed.

(* Min() <= 0 (what BooleanSearcher tests) iff the documented minimum floor(min) is <= 0: both
   say min < 1, for negative minima too (int() truncates towards zero, floor rounds down) *)
Lemma go_int_half_le0 m : go_int_half m <= 0 <-> floor_min m <= 0.
Proof.
  destruct (Z_lt_le_dec m 0) as [H0|H0].
  - pose proof (go_int_half_neg m H0). lia.
  - rewrite go_int_half_nonneg by exact H0. reflexivity.
Qed.

(* ---------------------------------------------------------------- lists *)

Lemma list_eq_nil_dec {A} (l : list A) : {l = []} + {l <> []}.
Proof. destruct l; [left; reflexivity|right; discriminate]. Qed.

Lemma sorted_ascending l : StronglySorted Z.lt l -> ascending l.
Proof.
  induction 1 as [|x l Hs IH Hf]; [exact I|]. cbn. apply asc_from_intro; assumption.
Qed.

Lemma sequence_Forall2 {A B} (f : A -> option B) ks ts :
  sequence (map f ks) = Some ts -> Forall2 (fun k t => f k = Some t) ks ts.
Proof.
  revert ts; induction ks as [|k ks IH]; intros ts H; cbn in H.
  - inversion H; constructor.
  - destruct (f k) as [t|] eqn:E; [|discriminate].
    destruct (sequence (map f ks)) as [r|]; [|discriminate]. inversion H; subst.
    constructor; auto.
Qed.

Lemma sequence_Some {A B} (f : A -> option B) ks :
  Forall (fun k => exists t, f k = Some t) ks -> exists ts, sequence (map f ks) = Some ts.
Proof.
  induction 1 as [|k ks [t Ht] _ [ts IH]]; cbn; [eauto|]. rewrite Ht, IH. eauto.
Qed.

Lemma wf_conj ts : wf (Conj ts) <-> Forall wf ts.
Proof.
  cbn. induction ts as [|t ts IH]; [split; constructor|]. rewrite IH. split.
  - intros [H1 H2]; constructor; assumption.
  - intro H; inversion H; subst; split; assumption.
Qed.
Lemma wf_disjS m ts : wf (DisjS m ts) <-> Forall wf ts.
Proof. exact (wf_conj ts). Qed.
Lemma wf_disjH m ts : wf (DisjH m ts) <-> Forall wf ts.
Proof. exact (wf_conj ts). Qed.

Lemma count_in_countb x ls : count_in x ls = countb (memZ x) ls.
Proof. reflexivity. Qed.

Lemma count_in_pos x ls : 1 <= count_in x ls -> Exists (In x) ls.
Proof.
  intro H. apply Z.leb_le in H. rewrite count_in_countb, countb_pos in H.
  apply existsb_exists in H as (l & Hl & Hm). apply Exists_exists. exists l. split; [exact Hl|].
  apply memZ_In. exact Hm.
Qed.

Lemma at_least_max m m' ls : Z.max 1 m = Z.max 1 m' -> at_least m ls = at_least m' ls.
Proof. intro H. unfold at_least. rewrite H. reflexivity. Qed.

(* a one-child disjunction with min <= 1 is its child *)
Lemma at_least_single m L : m <= 1 -> ascending L -> at_least m [L] = L.
Proof.
  intros Hm A. apply ascending_ext; [apply at_least_ascending|exact A|].
  intro x. rewrite at_least_In. unfold count_in. cbn [filter]. split.
  - intros [H _]. inversion H as [? ? H1|? ? H1]; subst; [exact H1|inversion H1].
  - intro H. split; [left; exact H|]. apply memb_In in H. rewrite H. cbn. lia.
Qed.

(* The "conjunction" push-down of NewConjunctionSearcher (OptimizeTFRConjunction.Finish) is not
   part of [tree_of]: it narrows the bitmaps inside some term leaves of a conjunction to a set B
   that still contains every id common to all children (B = the AND of the bitmap-backed
   children) and leaves the other leaves alone.  Whatever B is, the conjunction's set expression
   is unchanged — so [Conj] over the original leaves denotes what the pushed-down searcher
   enumerates. *)
Lemma conj_pushdown_invariant (B : Z -> Prop) ls ls' :
  Forall ascending ls -> Forall ascending ls' ->
  (forall x, Forall (In x) ls -> B x) ->
  Forall2 (fun l' l => l' = l \/ forall x, In x l' <-> In x l /\ B x) ls' ls ->
  inter_all ls' = inter_all ls.
Proof.
  intros A A' HB H2. apply ascending_ext; [apply inter_all_ascending; exact A'|apply inter_all_ascending; exact A|].
  intro x. rewrite !inter_all_In. split; intros [Hne Hall].
  - split; [intro E; subst ls; inversion H2; subst; congruence|].
    clear Hne HB A A'. induction H2 as [|l' l ls' ls H _ IH]; [constructor|].
    inversion Hall; subst. constructor; [|auto].
    destruct H as [->|H]; [assumption|]. apply H. assumption.
  - split; [intro E; subst ls'; inversion H2; subst; congruence|].
    specialize (HB x Hall). clear Hne A A'. induction H2 as [|l' l ls' ls H _ IH]; [constructor|].
    inversion Hall; subst. constructor; [|auto].
    destruct H as [->|H]; [assumption|]. apply H. split; assumption.
Qed.

(* ---------------------------------------------------------------- induction over queries *)

Section QueryInd.
  Variable P : query -> Prop.
  Hypothesis Hleaf : forall q, is_compound q = false -> P q.
  Hypothesis Hconj : forall ks, Forall P ks -> P (QConj ks).
  Hypothesis Hdisj : forall m ks, Forall P ks -> P (QDisj m ks).
  Hypothesis Hbool : forall must should m mustnot filter,
    Forall P must -> Forall P should -> Forall P mustnot ->
    (forall fq, filter = Some fq -> P fq) -> P (QBool must should m mustnot filter).

  Fixpoint query_ind' (q : query) : P q.
  Proof.
    destruct q; try (apply Hleaf; reflexivity).
    - apply Hconj. induction ks as [|k ks IH]; constructor; [apply query_ind'|exact IH].
    - apply Hdisj. induction ks as [|k ks IH]; constructor; [apply query_ind'|exact IH].
    - apply Hbool.
      + induction must as [|k ks IH]; constructor; [apply query_ind'|exact IH].
      + induction should as [|k ks IH]; constructor; [apply query_ind'|exact IH].
      + induction mustnot as [|k ks IH]; constructor; [apply query_ind'|exact IH].
      + destruct filter as [fq0|]; intros fq E; [|discriminate].
        injection E as <-. apply query_ind'.
  Qed.
End QueryInd.

(* ---------------------------------------------------------------- the set operations of [denote] on [sem] *)

Section Link.
  Variable tr : bool.
  Notation sem := (sem tr).
  Notation matches := (matches tr).
  Notation tree_of := (tree_of tr).

  Variable c : corpus.
  Hypothesis Hwf : corpus_wf c.

  Lemma sem_ascending q : ascending (sem c q).
  Proof. apply sorted_ascending. apply sem_sorted. exact Hwf. Qed.

  Lemma ids_ascending : ascending (ids c).
  Proof. apply sorted_ascending. exact Hwf. Qed.

  Lemma sems_ascending ks : Forall ascending (map (sem c) ks).
  Proof. apply Forall_forall. intros l Hl. apply in_map_iff in Hl as (k & <- & _). apply sem_ascending. Qed.

  (* a list of ids is the answer to Q as soon as it is ascending, inside the corpus, and right
     on every document of the corpus *)
  Lemma by_docs L Q : ascending L -> (forall x, In x L -> In x (ids c)) ->
    (forall d, In d c -> (In (d_num d) L <-> matches d Q = true)) -> L = sem c Q.
  Proof.
    intros A Hsub Hd. apply ascending_ext; [exact A|apply sem_ascending|].
    intro x. rewrite sem_in. split.
    - intro Hx. pose proof (Hsub x Hx) as Hi. apply in_map_iff in Hi as (d & <- & Hdc).
      exists d. repeat split; auto. apply Hd; auto.
    - intros (d & Hdc & <- & Hm). apply Hd; auto.
  Qed.

  Lemma In_sem_doc d q : In d c -> (In (d_num d) (sem c q) <-> matches d q = true).
  Proof. intro Hd. apply sem_local; assumption. Qed.

  (* conjunction searcher = the conjunction query *)
  Lemma inter_all_sem ks : ks <> [] -> inter_all (map (sem c) ks) = sem c (QConj ks).
  Proof.
    intro Hne. apply ascending_ext; [apply inter_all_ascending, sems_ascending|apply sem_ascending|].
    intro x. rewrite inter_all_In, sem_conj_in by exact Hwf. rewrite Forall_forall. split.
    - intros [_ H]. split; [exact Hne|]. split.
      + destruct ks as [|k ks']; [congruence|]. eapply sem_subset_corpus. apply H. left; reflexivity.
      + intros k Hk. apply H. apply in_map; exact Hk.
    - intros (_ & _ & H). split; [destruct ks; [congruence|discriminate]|].
      intros l Hl. apply in_map_iff in Hl as (k & <- & Hk). auto.
  Qed.

  (* disjunction searcher with Min() = m = the disjunction query, whenever max 1 m is the
     documented threshold *)
  Lemma at_least_sem m min2 ks : Z.max 1 m = Z.max 1 (floor_min min2) ->
    at_least m (map (sem c) ks) = sem c (QDisj min2 ks).
  Proof.
    intro Hm. apply ascending_ext; [apply at_least_ascending|apply sem_ascending|].
    intro x. rewrite at_least_In, sem_disj_count, filter_In, Z.leb_le by exact Hwf.
    rewrite count_in_countb, Hm. split.
    - intros [He Hc]. split; [|exact Hc]. apply Exists_exists in He as (l & Hl & Hx).
      apply in_map_iff in Hl as (k & <- & _). eapply sem_subset_corpus; eauto.
    - intros [_ Hc]. split; [|exact Hc]. apply count_in_pos. rewrite count_in_countb. lia.
  Qed.

  (* ---------------------------------------------------------------- the invariant of the construction *)

  (* what is proved of the tree t built for query q under options o: it is well formed, denotes
     the meaning of q, and — if its searcher offers itself to an optimiser — the reader it
     hands over enumerates that same set *)
  Definition good (o : options) (q : query) (t : stree) : Prop :=
    wf t /\ denote t = sem c q /\ (optimizable o q = true -> tfr_of t = denote t).

  Definition goods (o : options) (ks : list query) (ts : list stree) : Prop :=
    Forall2 (good o) ks ts.

  Lemma goods_denote o ks ts : goods o ks ts -> map denote ts = map (sem c) ks.
  Proof. induction 1 as [|k t ks ts (_ & H & _) _ IH]; cbn; [reflexivity|]. rewrite H, IH. reflexivity. Qed.

  Lemma goods_wf o ks ts : goods o ks ts -> Forall wf ts.
  Proof. induction 1 as [|k t ks ts (H & _) _ IH]; constructor; assumption. Qed.

  Lemma goods_tfr o ks ts : goods o ks ts -> all_true (map (optimizable o) ks) = true ->
    map tfr_of ts = map denote ts.
  Proof.
    induction 1 as [|k t ks ts (_ & _ & H) _ IH]; cbn; [reflexivity|].
    intro Ha. apply andb_true_iff in Ha as [H1 H2]. rewrite (H H1), (IH H2). reflexivity.
  Qed.

  Lemma goods_nil o ks : goods o ks [] -> ks = [].
  Proof. inversion 1; reflexivity. Qed.

  Lemma goods_length o ks ts : goods o ks ts -> length ks = length ts.
  Proof. induction 1; cbn; congruence. Qed.

  Lemma conj_tree_cons o bs ts : ts <> [] ->
    conj_tree o bs ts = if conj_una o bs then Leaf (inter_all (map tfr_of ts)) else Conj ts.
  Proof. destruct ts; [congruence|reflexivity]. Qed.

  Lemma disj_tree_cons o min2 bs ts : ts <> [] ->
    disj_tree o min2 bs ts =
    if disj_una o min2 bs then Some (term_with_min (go_int_half min2) (at_least 1 (map tfr_of ts)))
    else if too_many o (length ts) then None
    else if (heap_takeover o <? length ts)%nat then Some (DisjH (go_int_half min2) ts)
    else Some (DisjS (go_int_half min2) ts).
  Proof. destruct ts; [congruence|reflexivity]. Qed.

  Lemma goods_nonempty o ks ts : goods o ks ts -> ts <> [] -> ks <> [].
  Proof. intros G H E. subst ks. inversion G. subst. congruence. Qed.

  (* NewConjunctionSearcher *)
  Lemma conj_tree_good o ks ts : goods o ks ts ->
    good o (QConj ks) (conj_tree o (map (optimizable o) ks) ts).
  Proof.
    intro G. pose proof (goods_denote _ _ _ G) as Hd. pose proof (goods_wf _ _ _ G) as Hw.
    unfold good. change (optimizable o (QConj ks)) with (conj_una o (map (optimizable o) ks)).
    destruct (list_eq_nil_dec ts) as [->|Hts].
    - apply goods_nil in G. subst ks. cbn. rewrite sem_conj_nil. repeat split; auto.
    - pose proof (goods_nonempty _ _ _ G Hts) as Hne.
      rewrite (conj_tree_cons _ _ _ Hts).
      destruct (conj_una o (map (optimizable o) ks)) eqn:Eu.
      + assert (all_true (map (optimizable o) ks) = true) as Ha.
        { unfold conj_una in Eu. apply andb_true_iff in Eu as [_ Eu]. exact Eu. }
        rewrite (goods_tfr _ _ _ G Ha), Hd. cbn [wf denote tfr_of].
        rewrite (inter_all_sem ks Hne). repeat split; auto. apply sem_ascending.
      + cbn [denote]. rewrite Hd, (inter_all_sem ks Hne).
        split; [apply wf_conj; exact Hw|]. split; [reflexivity|discriminate].
  Qed.

  (* newDisjunctionSearcher *)
  Lemma disj_tree_good o min2 ks ts t : goods o ks ts -> single_min_ok min2 ks = true ->
    disj_tree o min2 (map (optimizable o) ks) ts = Some t ->
    good o (QDisj min2 ks) t /\ (ks <> [] -> min_of t = go_int_half min2).
  Proof.
    intros G Hs Ht. pose proof (goods_denote _ _ _ G) as Hd. pose proof (goods_wf _ _ _ G) as Hw.
    unfold good. change (optimizable o (QDisj min2 ks)) with (disj_opt o min2 (map (optimizable o) ks)).
    destruct (list_eq_nil_dec ts) as [->|Hts].
    - apply goods_nil in G. subst ks. cbn in Ht. inversion Ht; subst t. cbn.
      rewrite sem_disj_nil. repeat split; auto. congruence.
    - rewrite (disj_tree_cons _ _ _ _ Hts) in Ht.
      destruct (disj_una o min2 (map (optimizable o) ks)) eqn:Eu.
      + (* the unadorned replacement *)
        injection Ht as <-.
        unfold disj_una in Eu. apply andb_true_iff in Eu as [Eu Ha]. apply andb_true_iff in Eu as [_ Em].
        apply Z.leb_le in Em.
        rewrite (goods_tfr _ _ _ G Ha), Hd. unfold term_with_min. cbn [wf denote tfr_of min_of map].
        assert (go_int_half min2 <= 1) as Hm1 by (apply go_int_half_le1; lia).
        rewrite (at_least_single _ _ Hm1 (at_least_ascending _ _)).
        rewrite (at_least_sem 1 min2 ks) by (pose proof (floor_min_le1 min2); lia).
        split; [|reflexivity]. split; [split; [apply sem_ascending|exact I]|]. split; reflexivity.
      + destruct (too_many o (length ts)); [discriminate|].
        assert (denote t = sem c (QDisj min2 ks) /\ wf t /\ min_of t = go_int_half min2 /\
                (forall t1, ts = [t1] -> tfr_of t = tfr_of t1 /\ denote t = at_least (go_int_half min2) [denote t1])
               ) as (H1 & H2 & H3 & H4).
        { assert (t = DisjH (go_int_half min2) ts \/ t = DisjS (go_int_half min2) ts) as Ht'
            by (destruct (heap_takeover o <? length ts)%nat; injection Ht as <-; auto).
          split; [|split; [|split]].
          - destruct Ht' as [-> | ->]; cbn [denote];
              rewrite Hd; apply at_least_sem; apply max1_go_int_half.
          - destruct Ht' as [-> | ->]; apply wf_conj; exact Hw.
          - destruct Ht' as [-> | ->]; reflexivity.
          - intros t1 ->. destruct Ht' as [-> | ->]; split; reflexivity. }
        split; [|intros _; exact H3]. split; [exact H2|]. split; [exact H1|].
        (* Optimizable only as a one-child wrapper *)
        intro Ho. destruct ks as [|k0 [|k1 ks']].
        * inversion G. subst. congruence.
        * inversion G as [|? t0 ? ? G0 G']; subst. inversion G'; subst.
          cbn in Ho. destruct G0 as (W0 & _ & T0). destruct (H4 t0 eq_refl) as [E1 E2].
          rewrite E1, E2, (T0 Ho). symmetry. apply at_least_single.
          -- apply go_int_half_le1. cbn in Hs. apply Z.leb_le in Hs. exact Hs.
          -- apply denote_ascending. exact W0.
        * cbn [map disj_opt] in Ho. cbn [map] in Eu. rewrite Eu in Ho. discriminate.
  Qed.

  (* ---------------------------------------------------------------- BooleanQuery.Searcher *)

  Definition owf (o : option stree) : Prop := match o with Some t => wf t | None => True end.

  Lemma match_all_wf : wf (match_all c).
  Proof. exact ids_ascending. Qed.

  Lemma assemble_wf m s n f : owf m -> owf s -> owf n -> owf f -> wf (assemble c m s n f).
  Proof.
    pose proof match_all_wf as Ha.
    destruct m, s, n, f; cbn; intros; repeat split; auto.
  Qed.

  (* the shortcuts of BooleanQuery.Searcher are the general form *)
  Definition must1 (m s n : option stree) : option stree :=
    match m, s, n with None, None, Some _ => Some (match_all c) | _, _, _ => m end.

  Lemma assemble_denote m s n f :
    denote (assemble c m s n f) =
    match f with
    | None => denote (Bool true (must1 m s n) s n)
    | Some f' => inter (match m, s, n with
                        | None, None, None => ids c
                        | _, _, _ => denote (Bool true (must1 m s n) s n)
                        end) (denote f')
    end.
  Proof. destruct m, s, n, f; reflexivity. Qed.

  Definition must_ok (must : list query) (m : option stree) : Prop :=
    match m with
    | None => must = []
    | Some t => must <> [] /\ denote t = sem c (QConj must)
    end.
  Definition should_ok (should : list query) (min2 : Z) (s : option stree) : Prop :=
    match s with
    | None => should = []
    | Some t => should <> [] /\ denote t = sem c (QDisj min2 should) /\ min_of t = go_int_half min2
    end.
  Definition mustnot_ok (mustnot : list query) (n : option stree) : Prop :=
    match n with
    | None => mustnot = []
    | Some t => mustnot <> [] /\ denote t = sem c (QDisj 0 mustnot)
    end.

  Lemma nonempty_true {A} (l : list A) : l <> [] -> nonempty l = true.
  Proof. destruct l; [congruence|reflexivity]. Qed.

  Lemma sem_sub_ids q x : In x (sem c q) -> In x (ids c).
  Proof. apply sem_subset_corpus. Qed.

  Lemma matches_mustnot d mustnot :
    matches d (QDisj 0 mustnot) = existsb (matches d) mustnot.
  Proof. cbn [Sem.matches]. change (Z.max 1 (floor_min 0)) with 1. apply countb_pos. Qed.

  Lemma bool_core must should min2 mustnot m s n :
    must_ok must m -> should_ok should min2 s -> mustnot_ok mustnot n ->
    owf m -> owf s -> owf n ->
    denote (Bool true (must1 m s n) s n) = sem c (QBool must should min2 mustnot None).
  Proof.
    intros Hm Hs Hn Wm Ws Wn.
    assert (wf (Bool true (must1 m s n) s n)) as W.
    { pose proof match_all_wf. destruct m, s, n; cbn; repeat split; auto. }
    apply by_docs; [apply denote_ascending; exact W| |].
    - (* inside the corpus *)
      intros x.
      destruct m as [tm|]; cbn in Hm; [destruct Hm as [_ Hm]|clear Hm];
      (destruct s as [ts|]; cbn in Hs; [destruct Hs as (_ & Hs & _)|clear Hs]);
      (destruct n as [tn|]; cbn in Hn; [destruct Hn as [_ Hn]|clear Hn]);
      cbn [must1 denote match_all]; try rewrite Hm; try rewrite Hs; try rewrite Hn;
      try destruct (min_of ts <=? 0);
      rewrite ?diff_In, ?inter_In; intros; repeat match goal with H : _ /\ _ |- _ => destruct H end;
      try (eapply sem_sub_ids; eassumption); try assumption; try contradiction.
    - intros d Hd. pose proof (countb_nonneg (matches d) should) as Hc0.
      destruct m as [tm|]; cbn in Hm; [destruct Hm as [Em Hm]; apply nonempty_true in Em|subst must];
      (destruct s as [ts|]; cbn in Hs; [destruct Hs as (Es & Hs & Hmo); apply nonempty_true in Es|subst should]);
      (destruct n as [tn|]; cbn in Hn; [destruct Hn as [En Hn]; apply nonempty_true in En|subst mustnot]);
      cbn [must1 denote match_all]; try rewrite Hm; try rewrite Hs; try rewrite Hn; try rewrite Hmo;
      cbn [Sem.matches]; rewrite ?Em, ?Es, ?En; cbn [nonempty forallb existsb orb andb negb];
      pose proof (go_int_half_le0 min2) as Hz;
      try match goal with |- context [go_int_half min2 <=? 0] =>
            destruct (go_int_half min2 <=? 0) eqn:Eq0; [apply Z.leb_le in Eq0|apply Z.leb_gt in Eq0] end;
      rewrite ?diff_In, ?inter_In, ?(In_sem_doc d _ Hd), ?matches_mustnot; cbn [Sem.matches];
      rewrite ?Em, ?Es, ?En; cbn [orb andb negb];
      repeat match goal with |- context [?a <=? ?b] =>
               let E := fresh "E" in destruct (a <=? b) eqn:E; [apply Z.leb_le in E | apply Z.leb_gt in E] end;
      repeat match goal with |- context [forallb ?f ?l] => destruct (forallb f l) end;
      repeat match goal with |- context [existsb ?f ?l] => destruct (existsb f l) end;
      cbn; try (rewrite sem_all); intuition (try congruence; try lia).
      all: try (apply in_map; exact Hd).
  Qed.

  (* ---------------------------------------------------------------- the main induction *)

  Lemma tree_of_conj o ks : tree_of o c (QConj ks) =
    match sequence (map (tree_of o c) ks) with
    | Some ts => Some (conj_tree o (map (optimizable o) ks) ts)
    | None => None
    end.
  Proof. reflexivity. Qed.

  Lemma tree_of_disj o min2 ks : tree_of o c (QDisj min2 ks) =
    match sequence (map (tree_of o c) ks) with
    | Some ts => disj_tree o min2 (map (optimizable o) ks) ts
    | None => None
    end.
  Proof. reflexivity. Qed.

  Lemma tree_of_bool o must should min2 mustnot filter :
    tree_of o c (QBool must should min2 mustnot filter) =
    match sequence (map (tree_of o c) mustnot),
          sequence (map (tree_of o c) must),
          sequence (map (tree_of o c) should) with
    | Some tn, Some tm, Some ts =>
        match clause mustnot (disj_tree o 0 (map (optimizable o) mustnot) tn),
              clause must (Some (conj_tree o (map (optimizable o) must) tm)),
              clause should (disj_tree o min2 (map (optimizable o) should) ts),
              match filter with
              | None => Some None
              | Some fq => match tree_of (filter_options o) c fq with
                           | Some t => Some (Some t)
                           | None => None
                           end
              end with
        | Some n, Some m, Some s, Some f => Some (assemble c m s n f)
        | _, _, _, _ => None
        end
    | _, _, _ => None
    end.
  Proof. reflexivity. Qed.

  Definition P_good (q : query) : Prop :=
    linkable q = true -> forall o t, tree_of o c q = Some t -> good o q t.

  Lemma kids_good ks : Forall P_good ks -> forallb linkable ks = true ->
    forall o ts, sequence (map (tree_of o c) ks) = Some ts -> goods o ks ts.
  Proof.
    intros HP Hl o ts Hs. apply sequence_Forall2 in Hs. revert HP Hl. unfold goods.
    induction Hs as [|k t ks ts Hk _ IH]; intros HP Hl; [constructor|].
    inversion HP as [|? ? Pk HP']; subst. cbn in Hl. apply andb_true_iff in Hl as [Lk Hl].
    constructor; [exact (Pk Lk o t Hk)|exact (IH HP' Hl)].
  Qed.

  Lemma single_min_ok_0 ks : single_min_ok 0 ks = true.
  Proof. destruct ks as [|k [|k' ks]]; reflexivity. Qed.

  (* what a clause of the boolean query contributes *)
  Definition clause_good (o : options) (l : list query) (q : query) (x : option stree) : Prop :=
    match x with None => l = [] | Some t => l <> [] /\ good o q t end.

  Lemma clause_disj o min2 ks ts x : goods o ks ts -> single_min_ok min2 ks = true ->
    clause ks (disj_tree o min2 (map (optimizable o) ks) ts) = Some x ->
    clause_good o ks (QDisj min2 ks) x /\
    (forall t, x = Some t -> min_of t = go_int_half min2).
  Proof.
    intros G Hs H. destruct ks as [|k ks'].
    - cbn in H. injection H as <-. split; [reflexivity|discriminate].
    - set (ks := k :: ks') in *.
      destruct (disj_tree o min2 (map (optimizable o) ks) ts) as [t|] eqn:E; cbn in H; [|discriminate].
      injection H as <-. destruct (disj_tree_good _ _ _ _ _ G Hs E) as [Hg Hm].
      split; [split; [discriminate|exact Hg]|]. intros t' Et. injection Et as <-. apply Hm. discriminate.
  Qed.

  Lemma clause_conj o ks ts x : goods o ks ts ->
    clause ks (Some (conj_tree o (map (optimizable o) ks) ts)) = Some x ->
    clause_good o ks (QConj ks) x.
  Proof.
    intros G H. destruct ks as [|k ks'].
    - cbn in H. injection H as <-. reflexivity.
    - cbn in H. injection H as <-. split; [discriminate|]. apply conj_tree_good. exact G.
  Qed.

  Lemma clause_good_wf o l q x : clause_good o l q x -> owf x.
  Proof. destruct x as [t|]; cbn; [intros [_ [H _]]; exact H|auto]. Qed.

  Lemma nonempty_clause o l q x : clause_good o l q x ->
    nonempty l = match x with Some _ => true | None => false end.
  Proof. destruct x; cbn; [intros [H _]; apply nonempty_true; exact H|intros ->; reflexivity]. Qed.

  Theorem tree_of_good : forall q, P_good q.
  Proof.
    apply query_ind'.
    - (* leaves: cursors over their own meaning *)
      intros q Hc _ o t Ht.
      assert (t = Leaf (sem c q)) as -> by (destruct q; try discriminate Hc; cbn in Ht; congruence).
      split; [apply sem_ascending|]. split; reflexivity.
    - (* conjunction *)
      intros ks IH Hl o t Ht. cbn [linkable] in Hl. rewrite tree_of_conj in Ht.
      destruct (sequence (map (tree_of o c) ks)) as [ts|] eqn:Es; [|discriminate].
      injection Ht as <-. apply conj_tree_good. eapply kids_good; eauto.
    - (* disjunction *)
      intros min2 ks IH Hl o t Ht. cbn [linkable] in Hl. apply andb_true_iff in Hl as [Hs Hl].
      rewrite tree_of_disj in Ht.
      destruct (sequence (map (tree_of o c) ks)) as [ts|] eqn:Es; [|discriminate].
      eapply disj_tree_good; eauto. eapply kids_good; eauto.
    - (* boolean *)
      intros must should min2 mustnot filter IHm IHs IHn IHf Hl o t Ht.
      cbn [linkable] in Hl.
      apply andb_true_iff in Hl as [Hl Lf]. apply andb_true_iff in Hl as [Hl Ln].
      apply andb_true_iff in Hl as [Hl Ls]. apply andb_true_iff in Hl as [Hl Lm].
      rename Hl into Hsingle.
      rewrite tree_of_bool in Ht.
      destruct (sequence (map (tree_of o c) mustnot)) as [tn|] eqn:En; [|discriminate].
      destruct (sequence (map (tree_of o c) must)) as [tm|] eqn:Em; [|discriminate].
      destruct (sequence (map (tree_of o c) should)) as [ts|] eqn:Es; [|discriminate].
      pose proof (kids_good _ IHn Ln _ _ En) as Gn.
      pose proof (kids_good _ IHm Lm _ _ Em) as Gm.
      pose proof (kids_good _ IHs Ls _ _ Es) as Gs.
      destruct (clause mustnot _) as [n|] eqn:Cn; [|discriminate].
      destruct (clause must _) as [m|] eqn:Cm; [|discriminate].
      destruct (clause should _) as [s|] eqn:Cs; [|discriminate].
      destruct (clause_disj _ _ _ _ _ Gn (single_min_ok_0 mustnot) Cn) as [Kn _].
      pose proof (clause_conj _ _ _ _ Gm Cm) as Km.
      destruct (clause_disj _ _ _ _ _ Gs Hsingle Cs) as [Ks Kmin].
      assert (exists f, t = assemble c m s n f /\
                match f with
                | None => filter = None
                | Some tf => exists fq, filter = Some fq /\ good (filter_options o) fq tf
                end) as (f & -> & Kf).
      { destruct filter as [fq|].
        - destruct (tree_of (filter_options o) c fq) as [tf|] eqn:Ef; [|discriminate].
          injection Ht as <-. exists (Some tf). split; [reflexivity|]. exists fq. split; [reflexivity|].
          apply (IHf fq eq_refl Lf). exact Ef.
        - injection Ht as <-. exists None. split; reflexivity. }
      clear Ht.
      assert (must_ok must m) as Om.
      { destruct m as [t0|]; cbn in Km |- *; [destruct Km as (H1 & _ & H2 & _); auto|exact Km]. }
      assert (should_ok should min2 s) as Os.
      { destruct s as [t0|]; cbn in Ks |- *; [destruct Ks as (H1 & _ & H2 & _); auto|exact Ks]. }
      assert (mustnot_ok mustnot n) as On.
      { destruct n as [t0|]; cbn in Kn |- *; [destruct Kn as (H1 & _ & H2 & _); auto|exact Kn]. }
      pose proof (clause_good_wf _ _ _ _ Km) as Wm. pose proof (clause_good_wf _ _ _ _ Ks) as Ws.
      pose proof (clause_good_wf _ _ _ _ Kn) as Wn.
      pose proof (bool_core must should min2 mustnot m s n Om Os On Wm Ws Wn) as Hcore.
      split; [|split].
      + apply assemble_wf; auto. destruct f as [tf|]; [|exact I].
        destruct Kf as (fq & _ & (H & _)). exact H.
      + rewrite assemble_denote. destruct f as [tf|].
        * destruct Kf as (fq & -> & (_ & Hf & _)). rewrite Hf, (bool_filter tr c) by exact Hwf.
          rewrite (nonempty_clause _ _ _ _ Km), (nonempty_clause _ _ _ _ Ks), (nonempty_clause _ _ _ _ Kn).
          rewrite <- Hcore. destruct m, s, n; reflexivity.
        * subst filter. exact Hcore.
      + (* Optimizable only through the only-must / only-should shortcuts *)
        intro Ho. cbn [optimizable] in Ho.
        pose proof (nonempty_clause _ _ _ _ Km) as Nm. pose proof (nonempty_clause _ _ _ _ Ks) as Ns.
        pose proof (nonempty_clause _ _ _ _ Kn) as Nn.
        destruct must as [|a must']; destruct should as [|b should']; destruct mustnot as [|e mustnot'];
          destruct filter as [fq|]; try discriminate Ho;
          destruct m; try discriminate Nm; destruct s; try discriminate Ns; destruct n; try discriminate Nn;
          (destruct f as [tf|]; [destruct Kf as (fq' & Ef & _); discriminate Ef|]); cbn [assemble].
        * destruct Ks as [_ (_ & _ & H)]. apply H. exact Ho.
        * destruct Km as [_ (_ & _ & H)]. apply H. exact Ho.
  Qed.
End Link.

(* ================================================================== *)
(* The link theorems                                                    *)
(* ================================================================== *)

Lemma somes_map_Some l : somes (map Some l ++ [None]) = l.
Proof. induction l as [|x l IH]; cbn; [reflexivity|]. rewrite IH. reflexivity. Qed.

Lemma map_repeat_None k : map (fun _ : call => @None Z) (repeat Next k) = repeat None k.
Proof. induction k as [|k IH]; cbn; [reflexivity|]. rewrite IH. reflexivity. Qed.

Lemma ascending_sorted l : ascending l -> StronglySorted Z.lt l.
Proof.
  induction l as [|x l IH]; intro A; constructor.
  - apply IH. eapply asc_from_ascending. exact A.
  - apply asc_from_Forall. exact A.
Qed.

Section Theorems.
  Variable tr : bool.
  Variables (o : options) (c : corpus) (q : query) (t : stree).
  Hypothesis Ht : tree_of tr o c q = Some t.
  Hypothesis Hwf : corpus_wf c.
  Hypothesis Hl : linkable q = true.

  (* the set expression of the searcher tree IS the documented meaning *)
  Theorem denote_tree_of : denote t = sem tr c q.
  Proof. exact (proj1 (proj2 (tree_of_good tr c Hwf q Hl o t Ht))). Qed.

  Theorem tree_of_wf : wf t.
  Proof. exact (proj1 (tree_of_good tr c Hwf q Hl o t Ht)). Qed.

  (* on EVERY program of Next / Advance calls the built searcher behaves like the reference
     cursor over sem tr c q *)
  Theorem search_cursor : forall prog, exists N, forall fuel, (N <= fuel)%nat ->
    run fuel (build t) prog = Some (run_spec (sem tr c q) prog).
  Proof. intro prog. rewrite <- denote_tree_of. apply program_subsequence. exact tree_of_wf. Qed.

  (* the Next-only enumeration returns exactly sem tr c q, ascending, and then nil *)
  Theorem search_correct : exists N, forall fuel, (N <= fuel)%nat ->
    run fuel (build t) (repeat Next (S (length (sem tr c q)))) = Some (map Some (sem tr c q) ++ [None]).
  Proof.
    destruct (next_only_enumeration t tree_of_wf) as [N HN]. exists N. intros fuel Hf.
    specialize (HN fuel Hf). rewrite denote_tree_of in HN. rewrite <- HN. f_equal.
    cbn [repeat]. apply repeat_cons.
  Qed.

  (* ... and stays exhausted *)
  Theorem search_exhausted k : exists N, forall fuel, (N <= fuel)%nat ->
    run fuel (build t) (repeat Next (length (sem tr c q)) ++ Next :: repeat Next k)
    = Some (map Some (sem tr c q) ++ None :: repeat None k).
  Proof.
    assert (fst (spec_step (pending_after (denote t) (repeat Next (length (denote t)))) Next) = None) as He
      by (rewrite pending_after_next_only; reflexivity).
    destruct (exhausted_stays_exhausted t tree_of_wf _ Next (repeat Next k) He) as [N HN].
    exists N. intros fuel Hf. specialize (HN fuel Hf). rewrite run_spec_next_only in HN.
    rewrite denote_tree_of in HN. rewrite HN.
    rewrite map_repeat_None. reflexivity.
  Qed.

  (* what a caller sees: no duplicate, no non-matching document, no matching document missing *)
  Corollary search_sound_complete : exists N, forall fuel, (N <= fuel)%nat ->
    exists rs, run fuel (build t) (repeat Next (S (length (sem tr c q)))) = Some rs /\
      StronglySorted Z.lt (somes rs) /\ NoDup (somes rs) /\
      (forall n, In n (somes rs) <-> exists d, In d c /\ d_num d = n /\ matches tr d q = true).
  Proof.
    destruct search_correct as [N HN]. exists N. intros fuel Hf. eexists. split; [apply HN; exact Hf|].
    rewrite somes_map_Some. destruct (sem_sorted_nodup tr c q Hwf) as [H1 H2].
    split; [exact H1|]. split; [exact H2|]. intro n. apply sem_in.
  Qed.
End Theorems.

(* the answer does not depend on the request options: whatever two settings (scoring or not,
   term vectors or not, which leaves are optimisable, heap takeover, clause limit) built the two
   searchers, they return the same results on every program *)
Theorem search_options_independent tr c q o1 o2 t1 t2 :
  corpus_wf c -> linkable q = true ->
  tree_of tr o1 c q = Some t1 -> tree_of tr o2 c q = Some t2 ->
  denote t1 = denote t2 /\
  forall prog, exists N, forall fuel, (N <= fuel)%nat ->
    run fuel (build t1) prog = run fuel (build t2) prog /\
    run fuel (build t1) prog = Some (run_spec (sem tr c q) prog).
Proof.
  intros Hwf Hl H1 H2. split.
  - rewrite (denote_tree_of tr o1 c q t1 H1 Hwf Hl), (denote_tree_of tr o2 c q t2 H2 Hwf Hl). reflexivity.
  - intro prog. destruct (search_cursor tr o1 c q t1 H1 Hwf Hl prog) as [N1 HN1].
    destruct (search_cursor tr o2 c q t2 H2 Hwf Hl prog) as [N2 HN2].
    exists (Nat.max N1 N2). intros fuel Hf. rewrite HN1, HN2 by lia. split; reflexivity.
Qed.

(* Searcher() only fails through DisjunctionMaxClauseCount: with the source's setting (0 = no
   limit) every query gets a tree — the hypothesis [tree_of ... = Some t] is satisfiable for
   every query, corpus and option setting *)
Lemma disj_tree_some o min2 bs ts : max_clauses o = 0%nat -> exists t, disj_tree o min2 bs ts = Some t.
Proof.
  intro H. destruct (list_eq_nil_dec ts) as [->|Hts]; [cbn; eauto|].
  rewrite (disj_tree_cons _ _ _ _ Hts). destruct (disj_una o min2 bs); [eauto|].
  replace (too_many o (length ts)) with false by (unfold too_many; rewrite H; reflexivity).
  destruct (heap_takeover o <? length ts)%nat; eauto.
Qed.

Lemma clause_some {A} (l : list A) x : (exists t, x = Some t) -> exists y, clause l x = Some y.
Proof. intros [t ->]. destruct l; cbn; eauto. Qed.

Theorem tree_of_total tr c q : forall o, max_clauses o = 0%nat -> exists t, tree_of tr o c q = Some t.
Proof.
  revert q. apply (query_ind' (fun q => forall o, max_clauses o = 0%nat -> exists t, tree_of tr o c q = Some t)).
  - intros q Hc o _. destruct q; try discriminate Hc; eexists; reflexivity.
  - intros ks IH o Ho. rewrite tree_of_conj.
    destruct (sequence_Some (tree_of tr o c) ks) as [ts ->]; [|eauto].
    eapply Forall_impl; [|exact IH]. cbn. auto.
  - intros m ks IH o Ho. rewrite tree_of_disj.
    destruct (sequence_Some (tree_of tr o c) ks) as [ts ->]; [|apply disj_tree_some; exact Ho].
    eapply Forall_impl; [|exact IH]. cbn. auto.
  - intros must should m mustnot filter IHm IHs IHn IHf o Ho. rewrite tree_of_bool.
    destruct (sequence_Some (tree_of tr o c) mustnot) as [tn ->]; [eapply Forall_impl; [|exact IHn]; cbn; auto|].
    destruct (sequence_Some (tree_of tr o c) must) as [tm ->]; [eapply Forall_impl; [|exact IHm]; cbn; auto|].
    destruct (sequence_Some (tree_of tr o c) should) as [ts ->]; [eapply Forall_impl; [|exact IHs]; cbn; auto|].
    destruct (clause_some mustnot _ (disj_tree_some o 0 (map (optimizable o) mustnot) tn Ho)) as [n ->].
    destruct (clause_some must (Some (conj_tree o (map (optimizable o) must) tm)) (ex_intro _ _ eq_refl)) as [m' ->].
    destruct (clause_some should _ (disj_tree_some o m (map (optimizable o) should) ts Ho)) as [s ->].
    destruct filter as [fq|]; [|eauto].
    destruct (IHf fq eq_refl (filter_options o) Ho) as [tf ->]. eauto.
Qed.

