(* Cursor engine — the LINK theorems of Cursor/LinkProofs.v on concrete values: an example that
   inhabits their hypotheses (non-trivial corpus, depth-3 query with every compound kind, both
   option settings), and the two witnesses that show why [linkable] excludes what it excludes. *)
From Coq Require Import ZArith List Bool Sorted Lia.
From Verif Require Import Common.Bytes Numeric.Model Cursor.Sem Cursor.SemProofsStr Cursor.SemProofs.
From Verif Require Import Cursor.Cursor Cursor.Machines Cursor.MachProofsBase Cursor.MachProofsTree
  Cursor.MachProofsProps Cursor.Link Cursor.LinkProofs.
Import ListNotations.
Local Open Scope Z_scope.

(* ================================================================== *)
(* The hypotheses are satisfiable on a non-trivial value, and compute   *)
(* ================================================================== *)

Definition lk_doc (n : Z) (ts : list Z) : doc :=
  mkDoc n [([102], map (fun t => mkTok [t] 1 []) ts)] [] [] [].
(* ten documents with the terms a=97 b=98 c=99 d=100 in field "f" *)
Definition lk_corpus : corpus :=
  [ lk_doc 1 [99]; lk_doc 2 [99; 97]; lk_doc 4 [97; 98]; lk_doc 5 [98; 100]; lk_doc 7 [97; 98; 99];
    lk_doc 8 [98; 99; 100]; lk_doc 9 []; lk_doc 12 [100; 97]; lk_doc 13 [97; 99; 100]; lk_doc 15 [98; 99] ].
Definition lk_term (x : Z) : query := QTerm [102] [x].
(* boolean( must: (a OR b), (c AND at-least-2-of{a,b,c,d});  should (min 1): d, NOT a;
            must-not: a AND b AND c;  filter: b OR e )  — depth 3, every compound kind *)
Definition lk_query : query :=
  QBool [QDisj 0 [lk_term 97; lk_term 98];
         QConj [lk_term 99; QDisj 4 [lk_term 97; lk_term 98; lk_term 99; lk_term 100]]]
        [lk_term 100; QBool [] [] 0 [lk_term 97] None]
        2
        [QConj [lk_term 97; lk_term 98; lk_term 99]]
        (Some (QDisj 1 [lk_term 98; lk_term 101])).

(* the searcher tree under score "none": the term-only disjunction (a OR b), the term-only
   must-not conjunction and the filter's disjunction are replaced by unadorned term searchers *)
Definition lk_tree_none : stree :=
  Filter
    (Bool true
       (Some (Conj [DisjS 0 [Leaf [2; 4; 5; 7; 8; 12; 13; 15]];
                    Conj [Leaf [1; 2; 7; 8; 13; 15];
                          DisjS 2 [Leaf [2; 4; 7; 12; 13]; Leaf [4; 5; 7; 8; 15];
                                   Leaf [1; 2; 7; 8; 13; 15]; Leaf [5; 8; 12; 13]]]]))
       (Some (DisjS 1 [Leaf [5; 8; 12; 13];
                       Bool true (Some (Leaf [1; 2; 4; 5; 7; 8; 9; 12; 13; 15])) None
                                 (Some (DisjS 0 [Leaf [2; 4; 7; 12; 13]]))]))
       (Some (DisjS 0 [Leaf [7]])))
    (DisjS 0 [Leaf [4; 5; 7; 8; 15]]).

(* ... and with scoring: slice disjunction and conjunction searchers over the term leaves (the
   filter is built with score "none" in either case) *)
Definition lk_tree_scoring : stree :=
  Filter
    (Bool true
       (Some (Conj [DisjS 0 [Leaf [2; 4; 7; 12; 13]; Leaf [4; 5; 7; 8; 15]];
                    Conj [Leaf [1; 2; 7; 8; 13; 15];
                          DisjS 2 [Leaf [2; 4; 7; 12; 13]; Leaf [4; 5; 7; 8; 15];
                                   Leaf [1; 2; 7; 8; 13; 15]; Leaf [5; 8; 12; 13]]]]))
       (Some (DisjS 1 [Leaf [5; 8; 12; 13];
                       Bool true (Some (Leaf [1; 2; 4; 5; 7; 8; 9; 12; 13; 15])) None
                                 (Some (DisjS 0 [Leaf [2; 4; 7; 12; 13]]))]))
       (Some (DisjS 0 [Conj [Leaf [2; 4; 7; 12; 13]; Leaf [4; 5; 7; 8; 15]; Leaf [1; 2; 7; 8; 13; 15]]])))
    (DisjS 0 [Leaf [4; 5; 7; 8; 15]]).

Example link_example :
  corpus_wf lk_corpus /\ linkable lk_query = true /\
  tree_of true opts_score_none lk_corpus lk_query = Some lk_tree_none /\
  tree_of true opts_scoring lk_corpus lk_query = Some lk_tree_scoring /\
  sem true lk_corpus lk_query = [8; 15] /\
  run 60 (build lk_tree_none) (repeat Next 4) = Some [Some 8; Some 15; None; None] /\
  run 60 (build lk_tree_scoring) (repeat Next 4) = Some [Some 8; Some 15; None; None] /\
  run 60 (build lk_tree_scoring) [Advance 10; Next; Next] = Some [Some 15; None; None].
Proof.
  split; [apply corpus_wfb_spec; reflexivity|]. vm_compute. repeat split; reflexivity.
Qed.

(* a disjunction with more clauses than DisjunctionHeapTakeover is built as a heap searcher *)
Example link_example_heap :
  let q := QDisj 4 (map lk_term [97; 98; 99; 100; 101; 102; 103; 104; 105; 106; 107]) in
  linkable q = true /\
  match tree_of true opts_scoring lk_corpus q with
  | Some (DisjH 2 ts as t) =>
      length ts = 11%nat /\
      run 60 (build t) (repeat Next 9) = Some (map Some (sem true lk_corpus q) ++ [None])
  | _ => False
  end /\
  sem true lk_corpus q = [2; 4; 5; 7; 8; 12; 13; 15].
Proof. vm_compute. repeat split; reflexivity. Qed.

(* ================================================================== *)
(* Negative min_should (formerly outside [linkable]) and the one shape  *)
(* still outside it                                                     *)
(* ================================================================== *)

(* 1. BooleanQuery with a must clause and min_should <= -1.  int(min) is a negative Min().
   BooleanSearcher used to test "shouldSearcher.Min() == 0" and so treated the should clause as
   REQUIRED (probe of 2026-09-23: must c, should {a, d}, SetMinShould(-1) on x1 = {c},
   x2 = {c, a} returned x2 only, SetMinShould(-0.5) returned x1 and x2), against the documented
   reading [sem] (at least floor(min) should clauses: optional).  Fixed in /repo 895ea25
   ("Min() <= 0"); Machines.v transcribes the fixed test, [linkable] no longer excludes the shape,
   and the tree now denotes what [sem] says for every option setting. *)
Definition neg_corpus : corpus := [lk_doc 1 [99]; lk_doc 2 [99; 97]].
Definition neg_query (min2 : Z) : query := QBool [lk_term 99] [lk_term 97; lk_term 100] min2 [] None.

Example link_negative_min_values :
  (forall o min2, In o [opts_scoring; opts_score_none; opts_upsidedown false; opts_upsidedown true] ->
     In min2 [-2; -4; -1; -2000000; 0; 1] ->
     linkable (neg_query min2) = true /\
     match tree_of true o neg_corpus (neg_query min2) with Some t => denote t = [1; 2] | None => False end) /\
  (forall min2, In min2 [-2; -4; -1; -2000000; 0; 1] -> sem true neg_corpus (neg_query min2) = [1; 2]) /\
  (* min_should = 1 requires a should match, in the tree and in sem *)
  (match tree_of true opts_scoring neg_corpus (neg_query 2) with Some t => denote t = [2] | None => False end) /\
  sem true neg_corpus (neg_query 2) = [2].
Proof.
  split; [|split; [|vm_compute; split; reflexivity]].
  - intros o min2 [<-|[<-|[<-|[<-|[]]]]] [<-|[<-|[<-|[<-|[<-|[<-|[]]]]]]]; vm_compute; split; reflexivity.
  - intros min2 [<-|[<-|[<-|[<-|[<-|[<-|[]]]]]]]; vm_compute; reflexivity.
Qed.

(* 2. (outside [linkable]) A disjunction with ONE clause and int(min) >= 2 (DisjunctionQuery.Validate rejects it, but
   Index.Search does not validate).  On its own it matches nothing, with every option setting.
   Inside a compound that is optimised under score "none" its slice searcher forwards Optimize to
   the child, its min is ignored, and the answer CHANGES WITH THE REQUEST OPTIONS: with scoring
   disj[ disj(min 5)[a], b ] = the b documents = [sem]; with score "none" = the a OR b documents.
   (bleve, probe of 2026-09-23 on x2 = {c,a}, x3 = {a,b}, x4 = {b}: score "" returns x3 x4,
   score "none" returns x2 x3 x4; conj[ disj(min 5)[a], b ]: nothing vs x3.) *)
Definition single_corpus : corpus := [lk_doc 1 [99]; lk_doc 2 [99; 97]; lk_doc 3 [97; 98]; lk_doc 4 [98]].
Definition single_query : query := QDisj 0 [QDisj 10 [lk_term 97]; lk_term 98].

Theorem link_single_min_refuted :
  exists c q t1 t2, corpus_wf c /\ linkable q = false /\
    tree_of true opts_scoring c q = Some t1 /\ tree_of true opts_score_none c q = Some t2 /\
    wf t1 /\ wf t2 /\
    denote t1 = sem true c q /\ denote t2 <> sem true c q.
Proof.
  exists single_corpus, single_query. eexists. eexists.
  split; [apply corpus_wfb_spec; reflexivity|]. split; [reflexivity|].
  split; [vm_compute; reflexivity|]. split; [vm_compute; reflexivity|].
  split; [cbn; repeat split; lia|]. split; [cbn; repeat split; lia|].
  split; [vm_compute; reflexivity|]. vm_compute. discriminate.
Qed.

Example link_single_min_values :
  sem true single_corpus single_query = [3; 4] /\
  (match tree_of true opts_scoring single_corpus single_query with
   | Some t => run 40 (build t) (repeat Next 4) = Some [Some 3; Some 4; None; None] | None => False end) /\
  (match tree_of true opts_score_none single_corpus single_query with
   | Some t => run 40 (build t) (repeat Next 4) = Some [Some 2; Some 3; Some 4; None] | None => False end) /\
  (match tree_of true opts_score_none single_corpus (QConj [QDisj 10 [lk_term 97]; lk_term 98]) with
   | Some t => denote t = [3] | None => False end) /\
  sem true single_corpus (QConj [QDisj 10 [lk_term 97]; lk_term 98]) = [].
Proof. vm_compute. repeat split; reflexivity. Qed.
