(* Cursor engine — the scorch readers and the unadorned bitmap replacements:
     docid_cursor       IndexSnapshotDocIDReader (doc-id and match-all searchers) is a cursor over the
                        concatenation of its segments (every program: it never re-seeks)
     hit1_cursor        the 1-hit unadorned iterator is a cursor over [d]
     unadorned_conj_eq / unadorned_disj_eq
                        the per-segment AND / OR of optimize.go (with the 1-hit, empty and nil-bitmap
                        special cases) denote the intersection / union of the inputs
     tfr_cursor         IndexSnapshotTermFieldReader is a cursor over the concatenation of its segments
                        on forward programs (a backward target restarts the reader: outside the contract) *)
From Coq Require Import ZArith List Bool Lia.
From Verif Require Import Cursor.Cursor Cursor.Machines Cursor.MachReaders Cursor.MachProofsBase Cursor.MachProofsKids
  Cursor.MachProofsConj Cursor.MachProofsDisj Cursor.MachProofsFilter Cursor.MachProofsHeap.
Import ListNotations.
Local Open Scope Z_scope.

(* ================================================================== *)
(* the 1-hit iterator                                                   *)
(* ================================================================== *)
Definition hit1_pending (st : option Z) : list Z := match st with Some d => [d] | None => [] end.

Theorem hit1_cursor st t :
  hit1_at_or_after st t =
  (fst (spec_advance t (hit1_pending st)),
   match snd (spec_advance t (hit1_pending st)) with [] => None | d :: _ => Some d end).
Proof.
  destruct st as [d|]; cbn; [|reflexivity]. unfold spec_advance. cbn. destruct (d <? t); reflexivity.
Qed.

(* Next() = nextAtOrAfter(0) on non-negative doc numbers *)
Corollary hit1_next d : 0 <= d -> hit1_at_or_after (Some d) 0 = (Some d, None).
Proof. intro H. cbn. rewrite (proj2 (Z.ltb_ge d 0) H). reflexivity. Qed.

(* ================================================================== *)
(* unadorned AND / OR                                                   *)
(* ================================================================== *)
Definition opt_is (h : option Z) (x : Z) : Prop := match h with Some d => x = d | None => True end.
Definition in_all (its : list seg_it) (x : Z) : Prop := Forall (fun it => In x (it_elems it)) its.

Lemma una_and_scan_spec : forall its hit bms,
  match una_and_scan its hit bms with
  | None => forall x, ~ (in_all its x /\ opt_is hit x)
  | Some (hit', bms') =>
      exists bs, bms' = bms ++ bs /\
        forall x, in_all its x /\ opt_is hit x <-> Forall (In x) bs /\ opt_is hit' x
  end.
Proof.
  unfold in_all. induction its as [|it its IH]; intros hit bms; cbn [una_and_scan].
  - exists []. rewrite app_nil_r. split; [reflexivity|]. intro x. split; intros [H1 H2]; split; auto.
  - destruct it as [|d| |l].
    + intros x [F _]. inversion F; subst. cbn in H1. exact H1.
    + assert (forall x, Forall (fun it => In x (it_elems it)) (It1Hit d :: its) <->
                        x = d /\ Forall (fun it => In x (it_elems it)) its) as Hc.
      { intro x. split.
        - intro F. inversion F; subst. cbn in H1. destruct H1 as [H1|[]]. auto.
        - intros [-> F]. constructor; [left; reflexivity|exact F]. }
      specialize (IH (Some d) bms).
      destruct hit as [d0|].
      * destruct (d0 =? d) eqn:E.
        -- apply Z.eqb_eq in E. subst d0. destruct (una_and_scan its (Some d) bms) as [[hit' bms']|].
           ++ destruct IH as [bs [E1 E2]]. exists bs. split; [exact E1|]. intro x. rewrite <- E2, Hc. unfold opt_is. tauto.
           ++ intros x [F Hx]. apply Hc in F. apply (IH x). unfold opt_is in *. tauto.
        -- apply Z.eqb_neq in E. intros x [F Hx]. apply Hc in F. unfold opt_is in Hx. destruct F. congruence.
      * destruct (una_and_scan its (Some d) bms) as [[hit' bms']|].
        -- destruct IH as [bs [E1 E2]]. exists bs. split; [exact E1|]. intro x. rewrite <- E2, Hc. unfold opt_is. tauto.
        -- intros x [F _]. apply Hc in F. apply (IH x). unfold opt_is. tauto.
    + intros x [F _]. inversion F; subst. cbn in H1. exact H1.
    + specialize (IH hit (bms ++ [l])). destruct (una_and_scan its hit (bms ++ [l])) as [[hit' bms']|].
      * destruct IH as [bs [E1 E2]]. exists (l :: bs). split; [rewrite E1, <- app_assoc; reflexivity|].
        intro x. split.
        -- intros [F Hx]. inversion F; subst. destruct (proj1 (E2 x) (conj H2 Hx)) as [G1 G2]. split; [constructor; assumption|exact G2].
        -- intros [F Hx]. inversion F; subst. destruct (proj2 (E2 x) (conj H2 Hx)) as [G1 G2]. split; [constructor; assumption|exact G2].
      * intros x [F Hx]. inversion F; subst. apply (IH x). tauto.
Qed.

Lemma fold_left_inter_In x : forall rest acc, In x (fold_left inter rest acc) <-> In x acc /\ Forall (In x) rest.
Proof.
  induction rest as [|l rest IH]; intro acc; cbn.
  - split; [intro H; split; [exact H|constructor]|tauto].
  - rewrite IH, inter_In. split.
    + intros [[H1 H2] H3]. split; [exact H1|constructor; assumption].
    + intros [H1 H2]. inversion H2; subst. tauto.
Qed.

Lemma una_and_scan_progress : forall its hit bms hit' bms',
  una_and_scan its hit bms = Some (hit', bms') -> its <> [] ->
  hit' <> None \/ (length bms < length bms')%nat.
Proof.
  induction its as [|it its IH]; intros hit bms hit' bms' H Hne; [congruence|].
  cbn in H. destruct it as [|d| |l]; try discriminate.
  - assert (una_and_scan its (Some d) bms = Some (hit', bms') -> hit' <> None \/ (length bms < length bms')%nat) as Hs.
    { intro H0. destruct its as [|it2 its2]; [cbn in H0; inversion H0; left; discriminate|]. eapply IH; eauto. discriminate. }
    destruct hit as [d0|]; [destruct (d0 =? d); [|discriminate]|]; apply Hs; exact H.
  - destruct its as [|it2 its2].
    + cbn in H. inversion H; subst. right. rewrite app_length. cbn. lia.
    + destruct (IH hit (bms ++ [l]) hit' bms' H ltac:(discriminate)) as [G|G]; [left; exact G|right].
      rewrite app_length in G. cbn in G. lia.
Qed.

(* membership form: the AND of at least one input holds exactly the ids present in every input *)
Theorem unadorned_conj_eq its x : its <> [] ->
  (In x (una_elems (una_and its)) <-> Forall (fun it => In x (it_elems it)) its).
Proof.
  intro Hne. unfold una_and. pose proof (una_and_scan_spec its None []) as H.
  destruct (una_and_scan its None []) as [[hit' bms']|] eqn:Es.
  - destruct H as [bs [E1 E2]]. cbn in E1. subst bms'.
    assert (Forall (fun it => In x (it_elems it)) its <-> Forall (In x) bs /\ match hit' with Some d => x = d | None => True end) as E
        by (rewrite <- (E2 x); unfold in_all, opt_is; tauto).
    rewrite E. destruct hit' as [d|].
    + destruct (forallb (memb d) bs) eqn:Eb; cbn.
      * rewrite forallb_forall in Eb. split.
        -- intros [<-|[]]. split; [|reflexivity]. apply Forall_forall. intros l Hl. apply memb_In. auto.
        -- intros [_ ->]. left. reflexivity.
      * split; [intros []|]. intros [F ->]. exfalso.
        assert (forallb (memb d) bs = true) as Ht; [|congruence].
        apply forallb_forall. intros l Hl. apply memb_In. rewrite Forall_forall in F. auto.
    + destruct bs as [|l0 [|l1 rest]]; cbn.
      * exfalso. destruct (una_and_scan_progress its None [] None [] Es Hne) as [G|G]; [congruence|cbn in G; lia].
      * split; [intro H; split; [constructor; [exact H|constructor]|exact I]|]. intros [F _]. inversion F; assumption.
      * rewrite fold_left_inter_In, inter_In. split.
        -- intros [[H1 H2] H3]. split; [constructor; [exact H1|constructor; [exact H2|exact H3]]|exact I].
        -- intros [F _]. inversion F as [|? ? G1 F']; subst. inversion F' as [|? ? G2 F'']; subst. tauto.
  - cbn. split; [intros []|]. intro F. exfalso. apply (H x). split; [exact F|exact I].
Qed.

Lemma una_or_scan_spec : forall its nums bms x,
  let r := una_or_scan its nums bms in
  (In x (fst r) \/ Exists (In x) (snd r)) <->
  (In x nums \/ Exists (In x) bms \/ Exists (fun it => In x (it_elems it)) its).
Proof.
  induction its as [|it its IH]; intros nums bms x; cbn [una_or_scan].
  - cbn. split; [tauto|]. intros [H|[H|H]]; [tauto|tauto|inversion H].
  - destruct it as [|d| |l]; cbn zeta in *.
    + rewrite IH. rewrite Exists_cons. cbn. tauto.
    + rewrite IH. rewrite Exists_cons. cbn. rewrite in_app_iff. cbn. intuition.
    + rewrite IH. rewrite Exists_cons. cbn. tauto.
    + rewrite IH. rewrite Exists_cons. cbn. rewrite Exists_app. rewrite Exists_cons, Exists_nil. tauto.
Qed.

Lemma fold_insert_In x nums base : In x (fold_right insert_asc base nums) <-> In x nums \/ In x base.
Proof.
  induction nums as [|d nums IH]; cbn; [tauto|]. rewrite insert_asc_In, IH. intuition.
Qed.

Theorem unadorned_disj_eq its x :
  In x (una_elems (una_or its)) <-> Exists (fun it => In x (it_elems it)) its.
Proof.
  unfold una_or. pose proof (una_or_scan_spec its [] [] x) as H. cbn zeta in H.
  destruct (una_or_scan its [] []) as [nums bms]. cbn [fst snd] in H.
  assert (In x nums \/ Exists (In x) bms <-> Exists (fun it => In x (it_elems it)) its) as E.
  { rewrite H. split; [intros [[]|[H0|H0]]; [inversion H0|exact H0]|tauto]. }
  rewrite <- E. destruct bms as [|b bms].
  - destruct nums as [|d [|d2 nums]]; cbn [una_elems].
    + split; [intros []|]. intros [[]|H0]; inversion H0.
    + split; [intro H0; left; exact H0|]. intros [H0|H0]; [exact H0|inversion H0].
    + rewrite fold_insert_In. split; [intros [H0|[]]; left; exact H0|]. intros [H0|H0]; [left; exact H0|inversion H0].
  - cbn [una_elems]. rewrite fold_insert_In, union_all_In. tauto.
Qed.

(* ascending results, so that the element lists are determined by membership *)
Lemma una_or_ascending its : Forall (fun it => ascending (it_elems it)) its -> ascending (una_elems (una_or its)).
Proof.
  intros _. unfold una_or. destruct (una_or_scan its [] []) as [nums bms].
  assert (forall base, ascending base -> ascending (fold_right insert_asc base nums)) as Hf.
  { intros base A. induction nums as [|d nums IH]; cbn; [exact A|]. apply insert_asc_ascending. exact IH. }
  destruct bms as [|b bms].
  - destruct nums as [|d [|d2 nums]]; cbn [una_elems]; try exact I. apply Hf. exact I.
  - cbn [una_elems]. apply Hf. apply union_all_ascending.
Qed.

Lemma una_and_ascending its : Forall (fun it => ascending (it_elems it)) its -> ascending (una_elems (una_and its)).
Proof.
  intro A. unfold una_and.
  assert (forall its hit bms hit' bms', una_and_scan its hit bms = Some (hit', bms') ->
            Forall (fun it => ascending (it_elems it)) its -> Forall ascending bms -> Forall ascending bms') as Hs.
  { clear. induction its as [|it its IH]; intros hit bms hit' bms' H A B; cbn in H.
    - inversion H; subst. exact B.
    - inversion A; subst. destruct it as [|d| |l]; try discriminate.
      + destruct hit as [d0|]; [destruct (d0 =? d); [|discriminate]|]; eapply IH; eauto.
      + eapply IH; eauto. apply Forall_app. split; [exact B|constructor; [exact H2|constructor]]. }
  destruct (una_and_scan its None []) as [[[d|] bms']|] eqn:Es; cbn; try exact I.
  - destruct (forallb (memb d) bms'); exact I.
  - pose proof (Hs _ _ _ _ _ Es A (Forall_nil _)) as B.
    destruct bms' as [|l0 [|l1 rest]]; cbn; try exact I.
    + inversion B; assumption.
    + inversion B as [|? ? B0 B']; subst.
      assert (forall rest acc, ascending acc -> ascending (fold_left inter rest acc)) as Hf.
      { clear. induction rest as [|l rest IH]; intros acc Aacc; cbn; [exact Aacc|]. apply IH. apply inter_ascending. exact Aacc. }
      apply Hf. apply inter_ascending. exact B0.
Qed.

(* list form of the two theorems *)
Corollary unadorned_conj_list its : its <> [] -> Forall (fun it => ascending (it_elems it)) its ->
  una_elems (una_and its) = inter_all (map it_elems its).
Proof.
  intros Hne A. apply ascending_ext.
  - apply una_and_ascending. exact A.
  - apply inter_all_ascending. apply Forall_map. exact A.
  - intro x. rewrite (unadorned_conj_eq its x Hne), inter_all_In. rewrite Forall_map. split.
    + intro F. split; [destruct its; cbn; congruence|exact F].
    + tauto.
Qed.

Corollary unadorned_disj_list its : Forall (fun it => ascending (it_elems it)) its ->
  una_elems (una_or its) = at_least 1 (map it_elems its).
Proof.
  intro A. apply ascending_ext.
  - apply una_or_ascending. exact A.
  - apply at_least_ascending.
  - intro x. rewrite (unadorned_disj_eq its x), at_least_In, Exists_map. split.
    + intro H. split; [exact H|]. change (Z.max 1 1) with 1.
      apply (proj2 (MachProofsHeap.count_in_pos x (map it_elems its))). apply Exists_map. exact H.
    + tauto.
Qed.

(* ================================================================== *)
(* IndexSnapshotDocIDReader                                             *)
(* ================================================================== *)
Lemma skipn_nth {A} (l : list A) n x : nth_error l n = Some x -> skipn n l = x :: skipn (S n) l.
Proof.
  revert n; induction l as [|a l IH]; intros [|n] H; cbn in *; try discriminate.
  - inversion H; reflexivity.
  - apply IH. exact H.
Qed.

Lemma skipn_none {A} (l : list A) n : nth_error l n = None -> skipn n l = [].
Proof. intro H. apply nth_error_None in H. apply skipn_all2. exact H. Qed.

Lemma skipn_replace_same {A} (l : list A) n x y : nth_error l n = Some x ->
  skipn n (replace_nth n y l) = y :: skipn (S n) l.
Proof.
  revert n; induction l as [|a l IH]; intros [|n] H; cbn in *; try discriminate; [reflexivity|].
  apply IH. exact H.
Qed.

Definition did_pending (st : did_st) : list Z :=
  tfr_global (skipn (di_seg st) (di_iters st)) (skipn (di_seg st) (di_offs st)).
Definition did_wf (st : did_st) : Prop := length (di_offs st) = length (di_iters st).

Lemma did_next_loop_ok : forall fuel st,
  did_wf st -> (length (di_iters st) - di_seg st < fuel)%nat ->
  exists st', did_next_loop fuel st = Some (hd_res (did_pending st), st') /\
              did_pending st' = tl (did_pending st) /\ did_wf st' /\
              length (di_iters st') = length (di_iters st).
Proof.
  induction fuel as [|fuel IH]; intros st Hwf Hf; [lia|].
  cbn [did_next_loop]. unfold did_pending.
  destruct (nth_error (di_iters st) (di_seg st)) as [it|] eqn:Ei.
  - assert (di_seg st < length (di_iters st))%nat as Hlt by (apply nth_error_Some; congruence).
    destruct (nth_error (di_offs st) (di_seg st)) as [off|] eqn:Eo;
      [|apply nth_error_None in Eo; unfold did_wf in Hwf; lia].
    rewrite (skipn_nth _ _ _ Ei), (skipn_nth _ _ _ Eo). cbn [tfr_global].
    destruct it as [|x it'].
    + cbn [map app].
      destruct (IH {| di_offs := di_offs st; di_iters := di_iters st; di_seg := S (di_seg st) |}) as [st' [H1 [H2 [H3 H4]]]];
        [exact Hwf|cbn; lia|].
      exists st'. unfold did_pending in *. cbn in *. auto.
    + rewrite (upd_nth_Some (fun _ => Some it') _ _ _ it' Ei eq_refl).
      eexists. split; [reflexivity|]. cbn [di_iters di_offs di_seg map app hd_res tl].
      rewrite (skipn_replace_same _ _ _ it' Ei), (skipn_nth _ _ _ Eo). cbn [tfr_global].
      split; [reflexivity|]. unfold did_wf. cbn. rewrite replace_nth_length. auto.
  - rewrite (skipn_none _ _ Ei). cbn. exists st. unfold did_pending. rewrite (skipn_none _ _ Ei). cbn. auto.
Qed.

Lemma did_next_ok st : did_wf st ->
  exists st', did_next st = Some (hd_res (did_pending st), st') /\
              did_pending st' = tl (did_pending st) /\ did_wf st' /\
              length (di_iters st') = length (di_iters st).
Proof. intro H. apply did_next_loop_ok; [exact H|lia]. Qed.

Lemma did_adv_loop_ok t : forall n st x,
  did_wf st -> (length (did_pending st) <= n)%nat ->
  forall fuel, (n + 1 < fuel)%nat ->
  exists st', did_adv_loop fuel st (Some x) t = Some (hd_res (dropwhile_lt t (x :: did_pending st)), st') /\
              did_pending st' = tl (dropwhile_lt t (x :: did_pending st)) /\ did_wf st' /\
              length (di_iters st') = length (di_iters st).
Proof.
  induction n as [|n IH]; intros st x Hwf Hn fuel Hf; (destruct fuel as [|fuel]; [lia|]); cbn [did_adv_loop dropwhile_lt];
    (destruct (x <? t) eqn:E; [|exists st; cbn; auto]);
    destruct (did_next_ok st Hwf) as [st1 [H1 [H2 [H3 H4]]]]; rewrite H1.
  - destruct (did_pending st) as [|y p]; [|cbn in Hn; lia]. cbn [hd_res].
    destruct fuel as [|fuel]; [lia|]. cbn. exists st1. cbn in H2. auto.
  - destruct (did_pending st) as [|y p] eqn:Ep; cbn [hd_res].
    + destruct fuel as [|fuel]; [lia|]. cbn. exists st1. cbn in H2. auto.
    + cbn [tl] in H2. destruct (IH st1 y H3 ltac:(rewrite H2; cbn in Hn; lia) fuel ltac:(lia)) as [st' [G1 [G2 [G3 G4]]]].
      rewrite H2 in G1, G2. exists st'. repeat split; auto. congruence.
Qed.

Definition szs (a : list (list Z)) : nat := fold_right (fun l acc => S (length l) + acc)%nat O a.
Lemma szs_cons l a : szs (l :: a) = (S (length l) + szs a)%nat.
Proof. reflexivity. Qed.

Lemma did_size_bound st : (length (did_pending st) < did_size st)%nat.
Proof.
  unfold did_pending. change (did_size st) with (S (szs (di_iters st))).
  assert (forall (a : list (list Z)) b, length (tfr_global a b) <= szs a)%nat as H1.
  { induction a as [|l a IH]; intros [|o b]; cbn [tfr_global length]; rewrite ?szs_cons; try lia.
    rewrite app_length, map_length. specialize (IH b). lia. }
  assert (forall n (a : list (list Z)), szs (skipn n a) <= szs a)%nat as H2.
  { induction n as [|n IH]; intros [|l a]; cbn [skipn]; rewrite ?szs_cons; try lia. specialize (IH a). lia. }
  specialize (H1 (skipn (di_seg st) (di_iters st)) (skipn (di_seg st) (di_offs st))).
  specialize (H2 (di_seg st) (di_iters st)). lia.
Qed.

Theorem docid_cursor_run : forall prog st, did_wf st ->
  did_run st prog = Some (run_spec (did_pending st) prog).
Proof.
  induction prog as [|c prog IH]; intros st Hwf; [reflexivity|]. cbn [did_run run_spec].
  destruct c as [|t]; cbn [spec_step].
  - destruct (did_next_ok st Hwf) as [st1 [H1 [H2 [H3 _]]]]. rewrite H1. rewrite (IH st1 H3), H2.
    unfold spec_next. rewrite uncons_hd_tl. reflexivity.
  - unfold did_adv. destruct (did_next_ok st Hwf) as [st1 [H1 [H2 [H3 H4]]]]. rewrite H1.
    unfold spec_advance. rewrite uncons_hd_tl.
    destruct (did_pending st) as [|x p] eqn:Ep; cbn [hd_res].
    + assert (did_adv_loop (did_size st) st1 None t = Some (None, st1)) as -> by (unfold did_size; reflexivity).
      rewrite (IH st1 H3), H2. reflexivity.
    + cbn [tl] in H2.
      pose proof (did_size_bound st) as Hb. rewrite Ep in Hb. cbn in Hb.
      destruct (did_adv_loop_ok t (length p) st1 x H3 ltac:(rewrite H2; lia) (did_size st) ltac:(lia)) as [st' [G1 [G2 [G3 _]]]].
      rewrite G1, H2. rewrite (IH st' G3), G2, H2. reflexivity.
Qed.

Theorem docid_cursor segs offs prog : length offs = length segs ->
  did_run (did_init segs offs) prog = Some (run_spec (tfr_global segs offs) prog).
Proof. intro H. apply (docid_cursor_run prog (did_init segs offs)). exact H. Qed.

(* ================================================================== *)
(* IndexSnapshotTermFieldReader on forward programs                     *)
(* ================================================================== *)

(* well-formed snapshot: as many offsets as segments, offsets non-decreasing, every local doc
   number of segment j is >= 0 and below the next offset (segment j holds the global numbers
   [offs j, offs (j+1)) ), per-segment postings ascending *)
Definition wf_segs (iters : list (list Z)) (offs : list Z) : Prop :=
  length iters = length offs /\
  (forall j it o, nth_error iters j = Some it -> nth_error offs j = Some o ->
     ascending it /\ Forall (fun x => 0 <= x /\ forall o', nth_error offs (S j) = Some o' -> x + o < o') it) /\
  (forall j a b, nth_error offs j = Some a -> nth_error offs (S j) = Some b -> a <= b).

Definition view_at (n : nat) (iters : list (list Z)) (offs : list Z) : list Z :=
  tfr_global (skipn n iters) (skipn n offs).

Lemma offs_mono iters offs : wf_segs iters offs ->
  forall k i a b, nth_error offs i = Some a -> nth_error offs (i + k) = Some b -> a <= b.
Proof.
  intros [_ [_ Hm]]. induction k as [|k IH]; intros i a b Ha Hb.
  - rewrite Nat.add_0_r in Hb. assert (a = b) by congruence. lia.
  - replace (i + S k)%nat with (S (i + k)) in Hb by lia.
    destruct (nth_error offs (i + k)) as [c|] eqn:Ec.
    + pose proof (IH i a c Ha Ec). pose proof (Hm _ _ _ Ec Hb). lia.
    + apply nth_error_None in Ec. assert (nth_error offs (S (i + k)) = None) by (apply nth_error_None; lia). congruence.
Qed.

Lemma view_cons n iters offs it o :
  nth_error iters n = Some it -> nth_error offs n = Some o ->
  view_at n iters offs = map (fun x => x + o) it ++ view_at (S n) iters offs.
Proof. intros Hi Ho. unfold view_at. rewrite (skipn_nth _ _ _ Hi), (skipn_nth _ _ _ Ho). reflexivity. Qed.

Lemma view_end n iters offs : nth_error iters n = None -> view_at n iters offs = [].
Proof. intro H. unfold view_at. rewrite (skipn_none _ _ H). reflexivity. Qed.

Lemma view_lower iters offs : wf_segs iters offs ->
  forall k n o, (length iters - n <= k)%nat -> nth_error offs n = Some o ->
  Forall (fun g => o <= g) (view_at n iters offs).
Proof.
  intros Hwf. pose proof Hwf as [Hlen [Hloc Hm]].
  induction k as [|k IH]; intros n o Hk Ho.
  - assert (nth_error iters n = None) as E by (apply nth_error_None; lia). rewrite (view_end _ _ _ E). constructor.
  - destruct (nth_error iters n) as [it|] eqn:Ei; [|rewrite (view_end _ _ _ Ei); constructor].
    rewrite (view_cons _ _ _ _ _ Ei Ho). apply Forall_app. split.
    + destruct (Hloc _ _ _ Ei Ho) as [_ F]. apply Forall_map. eapply Forall_impl; [|exact F]. cbn. intros x [Hx _]. lia.
    + destruct (nth_error offs (S n)) as [o'|] eqn:Eo'.
      * pose proof (Hm _ _ _ Ho Eo'). eapply Forall_impl; [|apply (IH (S n) o'); [lia|exact Eo']]. cbn. intros; lia.
      * assert (nth_error iters (S n) = None) as E by (apply nth_error_None; apply nth_error_None in Eo'; lia).
        rewrite (view_end _ _ _ E). constructor.
Qed.

(* the segments between s and si hold only ids below offs si *)
Lemma view_split iters offs : wf_segs iters offs ->
  forall k s o, nth_error offs (s + k) = Some o ->
  exists pre, view_at s iters offs = pre ++ view_at (s + k) iters offs /\ Forall (fun g => g < o) pre.
Proof.
  intros Hwf. pose proof Hwf as [Hlen [Hloc Hm]].
  induction k as [|k IH]; intros s o Ho.
  - exists []. rewrite Nat.add_0_r. split; [reflexivity|constructor].
  - replace (s + S k)%nat with (S s + k)%nat in * by lia.
    assert (S s + k < length offs)%nat as Hlt by (apply nth_error_Some; congruence).
    destruct (nth_error offs s) as [os|] eqn:Eos; [|apply nth_error_None in Eos; lia].
    destruct (nth_error iters s) as [it|] eqn:Ei; [|apply nth_error_None in Ei; lia].
    destruct (nth_error offs (S s)) as [o1|] eqn:Eo1; [|apply nth_error_None in Eo1; lia].
    destruct (IH (S s) o Ho) as [pre [E F]].
    exists (map (fun x => x + os) it ++ pre). split.
    + rewrite (view_cons _ _ _ _ _ Ei Eos), E, app_assoc. reflexivity.
    + apply Forall_app. split; [|exact F].
      destruct (Hloc _ _ _ Ei Eos) as [_ Fl]. apply Forall_map. eapply Forall_impl; [|exact Fl]. cbn. intros x [_ Hx].
      specialize (Hx o1 Eo1). pose proof (offs_mono iters offs Hwf k (S s) o1 o Eo1 Ho). lia.
Qed.

Lemma view_empties iters offs : forall k a,
  (forall j, (a <= j < a + k)%nat -> nth_error iters j = Some []) ->
  length iters = length offs ->
  view_at a iters offs = view_at (a + k) iters offs.
Proof.
  induction k as [|k IH]; intros a H Hlen.
  - rewrite Nat.add_0_r. reflexivity.
  - assert (nth_error iters a = Some []) as Ea by (apply H; lia).
    assert (a < length iters)%nat as Hlt by (apply nth_error_Some; congruence).
    destruct (nth_error offs a) as [o|] eqn:Eo; [|apply nth_error_None in Eo; lia].
    rewrite (view_cons _ _ _ _ _ Ea Eo). cbn [map app]. replace (a + S k)%nat with (S a + k)%nat by lia.
    apply IH; [|exact Hlen]. intros j Hj. apply H. lia.
Qed.

(* sort.Search part of segmentIndexAndLocalDocNumFromGlobal *)
Lemma search_gt_spec offs t :
  (forall j o, (j < search_gt offs t)%nat -> nth_error offs j = Some o -> o <= t) /\
  (forall o, nth_error offs (search_gt offs t) = Some o -> t < o) /\
  (search_gt offs t <= length offs)%nat.
Proof.
  induction offs as [|o offs [IH1 [IH2 IH3]]]; cbn.
  - split; [intros j o Hj; lia|]. split; [intros o Hn; discriminate|lia].
  - destruct (t <? o) eqn:E.
    + apply Z.ltb_lt in E. split; [intros j o0 Hj; lia|]. split; [intros o0 Hn; cbn in Hn; inversion Hn; subst; exact E|lia].
    + apply Z.ltb_ge in E. repeat split.
      * intros [|j] o0 Hj Hn; cbn in Hn; [inversion Hn; subst; exact E|]. apply (IH1 j o0); [lia|exact Hn].
      * intros o0 Hn. cbn in Hn. apply IH2. exact Hn.
      * lia.
Qed.

Lemma search_gt_mono offs t t' : t <= t' -> (search_gt offs t <= search_gt offs t')%nat.
Proof.
  intro H. induction offs as [|o offs IH]; cbn; [lia|].
  destruct (t <? o) eqn:E; [lia|]. apply Z.ltb_ge in E.
  destruct (t' <? o) eqn:E'; [apply Z.ltb_lt in E'; lia|]. lia.
Qed.

Lemma dw_app_ge t a rest : Forall (fun g => t <= g) rest -> dropwhile_lt t (a ++ rest) = dropwhile_lt t a ++ rest.
Proof.
  intro F. induction a as [|x a IH]; cbn; [apply dropwhile_lt_noop; exact F|].
  destruct (x <? t); [exact IH|reflexivity].
Qed.

Lemma dw_app_lt t pre l : Forall (fun g => g < t) pre -> dropwhile_lt t (pre ++ l) = dropwhile_lt t l.
Proof.
  induction 1 as [|x pre Hx F IH]; cbn; [reflexivity|]. rewrite (proj2 (Z.ltb_lt x t) Hx). exact IH.
Qed.

Lemma dw_shift t o it : map (fun x => x + o) (dropwhile_lt (t - o) it) = dropwhile_lt t (map (fun x => x + o) it).
Proof.
  induction it as [|x it IH]; cbn; [reflexivity|].
  destruct (x <? t - o) eqn:E1; destruct (x + o <? t) eqn:E2;
    try (apply Z.ltb_lt in E1); try (apply Z.ltb_ge in E1); try (apply Z.ltb_lt in E2); try (apply Z.ltb_ge in E2); try lia; auto.
Qed.

Lemma ascending_app_r (pre l : list Z) : ascending (pre ++ l) -> ascending l.
Proof.
  induction pre as [|x pre IH]; cbn [app]; [auto|]. intro H. apply IH. eapply asc_from_ascending. exact H.
Qed.

Lemma wf_replace_suffix iters offs j it it' pre :
  wf_segs iters offs -> nth_error iters j = Some it -> it = pre ++ it' ->
  wf_segs (replace_nth j it' iters) offs.
Proof.
  intros [Hlen [Hloc Hm]] Hj ->. split; [rewrite replace_nth_length; exact Hlen|]. split; [|exact Hm].
  intros i it0 o Hi Ho. destruct (Nat.eq_dec j i) as [->|Hne].
  - rewrite nth_error_replace_eq in Hi by (apply nth_error_Some; congruence). inversion Hi; subst it0.
    destruct (Hloc _ _ _ Hj Ho) as [A F]. split; [eapply ascending_app_r; exact A|].
    apply Forall_app in F. tauto.
  - rewrite nth_error_replace_neq in Hi by exact Hne. eapply Hloc; eauto.
Qed.

Lemma skipn_replace_before {A} (l : list A) : forall n j y, (j < n)%nat -> skipn n (replace_nth j y l) = skipn n l.
Proof.
  induction l as [|a l IH]; intros [|n] [|j] y H; cbn; try lia; try reflexivity.
  apply IH. lia.
Qed.

Lemma view_replace_before n j y iters offs : (j < n)%nat ->
  view_at n (replace_nth j y iters) offs = view_at n iters offs.
Proof. intro H. unfold view_at. rewrite skipn_replace_before by exact H. reflexivity. Qed.

Definition tview (st : tfr_st) : list Z := view_at (tf_seg st) (tf_iters st) (tf_offs st).

Lemma tfr_next_loop_ok : forall fuel st,
  wf_segs (tf_iters st) (tf_offs st) -> (length (tf_iters st) - tf_seg st < fuel)%nat ->
  exists st', tfr_next_loop fuel st = Some (hd_res (tview st), st') /\
    tview st' = tl (tview st) /\
    tf_offs st' = tf_offs st /\ tf_orig st' = tf_orig st /\ tf_unadorned st' = tf_unadorned st /\
    wf_segs (tf_iters st') (tf_offs st) /\
    tf_curr st' = match hd_res (tview st) with Some x => Some x | None => tf_curr st end /\
    (tf_seg st <= tf_seg st')%nat /\
    (forall j, (tf_seg st <= j < tf_seg st')%nat -> nth_error (tf_iters st') j = Some []) /\
    (forall j, (j < tf_seg st)%nat -> nth_error (tf_iters st') j = nth_error (tf_iters st) j).
Proof.
  induction fuel as [|fuel IH]; intros st Hwf Hf; [lia|].
  pose proof Hwf as [Hlen _]. cbn [tfr_next_loop]. unfold tview.
  destruct (nth_error (tf_iters st) (tf_seg st)) as [it|] eqn:Ei.
  - assert (tf_seg st < length (tf_iters st))%nat as Hlt by (apply nth_error_Some; congruence).
    destruct (nth_error (tf_offs st) (tf_seg st)) as [off|] eqn:Eo; [|apply nth_error_None in Eo; lia].
    rewrite (view_cons _ _ _ _ _ Ei Eo). destruct it as [|x it'].
    + cbn [map app].
      destruct (IH {| tf_orig := tf_orig st; tf_offs := tf_offs st; tf_iters := tf_iters st;
                      tf_seg := S (tf_seg st); tf_curr := tf_curr st; tf_unadorned := tf_unadorned st |})
        as [st' [H1 [H2 [H3 [H4 [H5 [H6 [H7 [H8 [H9 H10]]]]]]]]]]; [exact Hwf|cbn; lia|].
      unfold tview in *. cbn [tf_seg tf_iters tf_offs tf_curr tf_orig tf_unadorned] in *.
      exists st'. repeat (split; [assumption|]). split; [lia|]. split.
      * intros j Hj. destruct (Nat.eq_dec j (tf_seg st)) as [->|Hne].
        -- rewrite H10 by lia. exact Ei.
        -- apply H9. lia.
      * intros j Hj. apply H10. lia.
    + rewrite (upd_nth_Some (fun _ => Some it') _ _ _ it' Ei eq_refl).
      eexists. split; [reflexivity|]. cbn [tf_seg tf_iters tf_offs tf_curr tf_orig tf_unadorned map app hd_res tl].
      split.
      * rewrite (view_cons (tf_seg st) _ _ it' off); [|apply nth_error_replace_eq; exact Hlt|exact Eo].
        rewrite view_replace_before by lia. reflexivity.
      * repeat (split; [reflexivity|]). split; [eapply (wf_replace_suffix _ _ _ _ it' [x]); eauto|].
        split; [reflexivity|]. split; [lia|]. split; [intros j Hj; lia|].
        intros j Hj. apply nth_error_replace_neq. lia.
  - rewrite (view_end _ _ _ Ei). cbn [hd_res tl]. exists st. unfold tview. rewrite (view_end _ _ _ Ei).
    split; [reflexivity|]. split; [reflexivity|]. split; [reflexivity|]. split; [reflexivity|]. split; [reflexivity|].
    split; [exact Hwf|]. split; [reflexivity|]. split; [lia|]. split; [intros j Hj; lia|]. intros; reflexivity.
Qed.

Lemma tfr_next_ok st :
  wf_segs (tf_iters st) (tf_offs st) ->
  exists st', tfr_next st = Some (hd_res (tview st), st') /\
    tview st' = tl (tview st) /\
    tf_offs st' = tf_offs st /\ tf_orig st' = tf_orig st /\ tf_unadorned st' = tf_unadorned st /\
    wf_segs (tf_iters st') (tf_offs st) /\
    tf_curr st' = match hd_res (tview st) with Some x => Some x | None => tf_curr st end /\
    (tf_seg st <= tf_seg st')%nat /\
    (forall j, (tf_seg st <= j < tf_seg st')%nat -> nth_error (tf_iters st') j = Some []) /\
    (forall j, (j < tf_seg st)%nat -> nth_error (tf_iters st') j = nth_error (tf_iters st) j).
Proof. intro H. apply tfr_next_loop_ok; [exact H|lia]. Qed.

(* segment of the last Advance target (0 before any Advance) *)
Definition s0 (wm : option Z) (offs : list Z) : nat :=
  match wm with None => O | Some t => pred (search_gt offs t) end.

Record TInv (st : tfr_st) (last wm : option Z) : Prop := mkTInv {
  ti_wf : wf_segs (tf_iters st) (tf_offs st);
  ti_curr : tf_curr st = last;
  ti_hd : forall o, nth_error (tf_offs st) O = Some o -> o = 0;
  ti_seg : (tf_seg st <= length (tf_iters st))%nat;
  (* the segments scanned since the last Advance target's segment are used up *)
  ti_emp : forall j, (s0 wm (tf_offs st) <= j < tf_seg st)%nat -> nth_error (tf_iters st) j = Some [] }.

Definition call_ok (last wm : option Z) (c : call) : Prop :=
  match c with
  | Next => True
  | Advance t => 0 <= t /\ lt_opt last t = true /\ le_opt wm t = true
  end.

Lemma tfr_step_next st last wm :
  TInv st last wm ->
  exists st', tfr_next st = Some (hd_res (tview st), st') /\ tview st' = tl (tview st) /\
              TInv st' (match hd_res (tview st) with Some x => Some x | None => last end) wm.
Proof.
  intros [Hwf Hcur Hhd Hseg Hemp].
  destruct (tfr_next_ok st Hwf) as [st' [H1 [H2 [H3 [H4 [H5 [H6 [H7 [H8 [H9 H10]]]]]]]]]].
  exists st'. split; [exact H1|]. split; [exact H2|]. constructor.
  - rewrite H3. exact H6.
  - rewrite H7, Hcur. reflexivity.
  - rewrite H3. exact Hhd.
  - destruct (Nat.eq_dec (tf_seg st') (tf_seg st)) as [E|E]; [rewrite E|].
    + destruct H6 as [Hl _]. destruct Hwf as [Hl0 _]. lia.
    + assert (nth_error (tf_iters st') (pred (tf_seg st')) = Some []) as Hn by (apply H9; lia).
      assert (pred (tf_seg st') < length (tf_iters st'))%nat by (apply nth_error_Some; congruence). lia.
  - rewrite H3. intros j Hj. destruct (Nat.lt_ge_cases j (tf_seg st)) as [Hlt|Hge].
    + rewrite H10 by exact Hlt. apply Hemp. lia.
    + apply H9. lia.
Qed.

Lemma tfr_step_adv st last wm t :
  TInv st last wm -> 0 <= t -> lt_opt last t = true -> le_opt wm t = true ->
  exists st', tfr_adv st t = Some (hd_res (dropwhile_lt t (tview st)), st') /\
              tview st' = tl (dropwhile_lt t (tview st)) /\
              TInv st' (match hd_res (dropwhile_lt t (tview st)) with Some x => Some x | None => last end) (Some t).
Proof.
  intros Hinv Ht Hlast Hwm. pose proof Hinv as [Hwf Hcur Hhd Hseg Hemp].
  pose proof Hwf as [Hlen [Hloc Hmono]].
  unfold tfr_adv.
  (* no restart: the target is beyond the last returned id *)
  assert ((match tf_curr st with
           | Some c => if t <=? c then
                         if tf_unadorned st
                         then {| tf_orig := tf_orig st; tf_offs := tf_offs st; tf_iters := tf_orig st;
                                 tf_seg := tf_seg st; tf_curr := tf_curr st; tf_unadorned := true |}
                         else {| tf_orig := tf_orig st; tf_offs := tf_offs st; tf_iters := tf_orig st;
                                 tf_seg := O; tf_curr := None; tf_unadorned := false |}
                       else st
           | None => st end) = st) as ->.
  { rewrite Hcur. destruct last as [c|]; [|reflexivity]. cbn in Hlast. apply Z.ltb_lt in Hlast.
    rewrite (proj2 (Z.leb_gt t c)) by lia. reflexivity. }
  destruct (tf_offs st) as [|o0 orest] eqn:Eoffs.
  - (* no segment *)
    assert (tf_iters st = []) as Ei by (destruct (tf_iters st); [reflexivity|cbn in Hlen; lia]).
    assert (tview st = []) as Ev by (unfold tview, view_at; rewrite Ei, Eoffs; destruct (tf_seg st); reflexivity).
    rewrite Ev. cbn. exists st. split; [reflexivity|]. split; [exact Ev|].
    constructor; rewrite ?Eoffs; auto.
    + rewrite Ei in Hseg. cbn in Hseg. intros j Hj. lia.
  - rewrite <- Eoffs in *.
    assert (o0 = 0) as -> by (apply Hhd; rewrite Eoffs; reflexivity).
    destruct (search_gt_spec (tf_offs st) t) as [S1 [S2 S3]].
    assert (1 <= search_gt (tf_offs st) t)%nat as Hge1.
    { rewrite Eoffs. cbn. rewrite (proj2 (Z.ltb_ge t 0)) by lia. lia. }
    unfold seg_index_local. destruct (search_gt (tf_offs st) t) as [|si] eqn:Esg; [lia|].
    assert (si < length (tf_offs st))%nat as Hsi by lia.
    destruct (nth_error (tf_offs st) si) as [o|] eqn:Eo; [|apply nth_error_None in Eo; lia].
    destruct (nth_error (tf_iters st) si) as [it|] eqn:Ei; [|apply nth_error_None in Ei; lia].
    assert (o <= t) as Hot by (apply (S1 si o); [lia|exact Eo]).
    assert (forall o', nth_error (tf_offs st) (S si) = Some o' -> t < o') as Hnext by (intros o' H; apply S2; exact H).
    assert (s0 wm (tf_offs st) <= si)%nat as Hs0.
    { unfold s0. destruct wm as [t'|]; [|lia]. cbn in Hwm. apply Z.leb_le in Hwm.
      pose proof (search_gt_mono (tf_offs st) t' t Hwm). rewrite Esg in H. lia. }
    (* what scanning from segment si would deliver *)
    set (Rest := view_at (S si) (tf_iters st) (tf_offs st)).
    assert (view_at si (tf_iters st) (tf_offs st) = map (fun x => x + o) it ++ Rest) as EV by (apply view_cons; assumption).
    assert (Forall (fun g => t <= g) Rest) as HR.
    { unfold Rest. destruct (nth_error (tf_offs st) (S si)) as [o'|] eqn:Eo'.
      - eapply Forall_impl; [|apply (view_lower _ _ Hwf (length (tf_iters st)) (S si) o'); [lia|exact Eo']].
        cbn. intros g Hg. specialize (Hnext o' eq_refl). lia.
      - rewrite view_end; [constructor|]. apply nth_error_None. apply nth_error_None in Eo'. lia. }
    assert (dropwhile_lt t (tview st) = map (fun x => x + o) (dropwhile_lt (t - o) it) ++ Rest) as Edw.
    { rewrite dw_shift, <- (dw_app_ge t _ Rest HR), <- EV. unfold tview.
      destruct (Nat.le_gt_cases (tf_seg st) si) as [Hle|Hgt].
      - destruct (view_split _ _ Hwf (si - tf_seg st) (tf_seg st) o) as [pre [E F]];
          [replace (tf_seg st + (si - tf_seg st))%nat with si by lia; exact Eo|].
        replace (tf_seg st + (si - tf_seg st))%nat with si in E by lia. rewrite E.
        apply dw_app_lt. eapply Forall_impl; [|exact F]. cbn. intros; lia.
      - rewrite (view_empties (tf_iters st) (tf_offs st) (tf_seg st - si) si); [|intros j Hj; apply Hemp; lia|exact Hlen].
        replace (si + (tf_seg st - si))%nat with (tf_seg st) by lia. reflexivity. }
    rewrite Edw.
    destruct (dropwhile_lt_split (t - o) it) as [pre [Esplit _]].
    destruct (dropwhile_lt (t - o) it) as [|x it'] eqn:Ed.
    + (* nothing at/after the target in segment si: continue with Next *)
      rewrite (upd_nth_Some (fun _ => Some []) _ _ _ [] Ei eq_refl).
      set (st1 := {| tf_orig := tf_orig st; tf_offs := tf_offs st; tf_iters := replace_nth si [] (tf_iters st);
                     tf_seg := si; tf_curr := tf_curr st; tf_unadorned := tf_unadorned st |}).
      assert (TInv st1 last (Some t)) as Hinv1.
      { constructor; cbn.
        - eapply (wf_replace_suffix _ _ _ it [] pre); eauto.
        - exact Hcur.
        - exact Hhd.
        - rewrite replace_nth_length. lia.
        - intros j Hj. rewrite Esg in Hj. cbn in Hj. lia. }
      assert (tview st1 = Rest) as Ev1.
      { unfold tview, st1. cbn [tf_seg tf_iters tf_offs]. rewrite (view_cons si _ _ [] o); [|apply nth_error_replace_eq; lia|exact Eo].
        cbn [map app]. unfold Rest. apply view_replace_before. lia. }
      destruct (tfr_step_next st1 last (Some t) Hinv1) as [st' [G1 [G2 G3]]].
      rewrite Ev1 in G1, G2, G3. cbn [map app]. rewrite Eo. exists st'. auto.
    + (* found in segment si *)
      rewrite (upd_nth_Some (fun _ => Some it') _ _ _ it' Ei eq_refl). rewrite Eo.
      eexists. split; [reflexivity|]. cbn [map app hd_res tl]. split.
      * unfold tview. cbn [tf_seg tf_iters tf_offs]. rewrite (view_cons si _ _ it' o); [|apply nth_error_replace_eq; lia|exact Eo].
        rewrite view_replace_before by lia. reflexivity.
      * constructor; cbn.
        -- eapply (wf_replace_suffix _ _ _ it it' (pre ++ [x])); eauto. rewrite <- app_assoc. exact Esplit.
        -- reflexivity.
        -- exact Hhd.
        -- rewrite replace_nth_length. lia.
        -- intros j Hj. rewrite Esg in Hj. cbn in Hj. lia.
Qed.

Theorem tfr_cursor_run : forall prog st last wm,
  TInv st last wm ->
  Forall (fun c => match c with Advance t => 0 <= t | Next => True end) prog ->
  forward_from last wm (tview st) prog = true ->
  tfr_run st prog = Some (run_spec (tview st) prog).
Proof.
  induction prog as [|c prog IH]; intros st last wm Hinv Hnn Hfw; [reflexivity|].
  inversion Hnn as [|? ? Hc Hnn']; subst. destruct c as [|t]; cbn [tfr_run run_spec tfr_step forward_from spec_step] in *.
  - destruct (tfr_step_next st last wm Hinv) as [st' [H1 [H2 H3]]]. rewrite H1.
    unfold spec_next in *. rewrite uncons_hd_tl in *. cbn [fst snd] in *.
    rewrite (IH st' _ wm H3 Hnn'); [rewrite H2; reflexivity|]. rewrite H2. exact Hfw.
  - unfold spec_advance in *. rewrite uncons_hd_tl in *.
    apply andb_true_iff in Hfw as [Hfw Hfw']. apply andb_true_iff in Hfw as [Hl Hw].
    destruct (tfr_step_adv st last wm t Hinv Hc Hl Hw) as [st' [H1 [H2 H3]]]. rewrite H1.
    rewrite (IH st' _ (Some t) H3 Hnn'); [rewrite H2; reflexivity|]. rewrite H2. exact Hfw'.
Qed.

(* the reader over a well-formed snapshot is a cursor over the global posting list on every
   forward program (non-negative targets: ids are uint64) *)
Theorem tfr_cursor unadorned segs offs prog :
  wf_segs segs offs -> (forall o, nth_error offs O = Some o -> o = 0) ->
  Forall (fun c => match c with Advance t => 0 <= t | Next => True end) prog ->
  forward (tfr_global segs offs) prog = true ->
  tfr_run (tfr_init unadorned segs offs) prog = Some (run_spec (tfr_global segs offs) prog).
Proof.
  intros Hwf Hhd Hnn Hfw.
  apply (tfr_cursor_run prog (tfr_init unadorned segs offs) None None); [|exact Hnn|exact Hfw].
  constructor; cbn; auto; try lia; intros j Hj; lia.
Qed.

Example wf_segs_example : wf_segs [[0; 2]; [1]; []; [0; 3]] [0; 3; 5; 5].
Proof.
  split; [reflexivity|]. split.
  - intros [|[|[|[|[|j]]]]] it o Hi Ho; cbn in Hi, Ho; inversion Hi; inversion Ho; subst; cbn; repeat split; try lia;
      repeat constructor; try lia; intros o' Ho'; inversion Ho'; lia.
  - intros [|[|[|[|j]]]] a b Ha Hb; cbn in Ha, Hb; inversion Ha; inversion Hb; subst; try lia; destruct j; discriminate.
Qed.

(* the boolean layout check of the correspondence cases implies the hypotheses of [tfr_cursor] *)
From Verif Require Import Cursor.MachCorr.

Lemma wf_segsb_sound : forall segs offs, wf_segsb segs offs = true -> wf_segs segs offs.
Proof.
  induction segs as [|l segs IH]; intros [|o offs] H; cbn in H; try discriminate.
  - split; [reflexivity|]. split; intros [|j]; cbn; discriminate.
  - apply andb_true_iff in H as [H H4]. apply andb_true_iff in H as [H H3]. apply andb_true_iff in H as [H1 H2].
    destruct (IH offs H4) as [Il [Iloc Im]]. split; [cbn; congruence|]. split.
    + intros [|j] it o0 Hi Ho; cbn in Hi, Ho.
      * inversion Hi; inversion Ho; subst. split; [apply ascendingb_spec; exact H1|].
        apply Forall_forall. intros x Hx. rewrite forallb_forall in H2. specialize (H2 x Hx).
        apply andb_true_iff in H2 as [G1 G2]. split; [apply Z.leb_le; exact G1|].
        intros o' Ho'. cbn in Ho'. destruct offs as [|o1 offs']; [discriminate|]. cbn in Ho'. inversion Ho'; subst.
        apply Z.ltb_lt. exact G2.
      * destruct (Iloc j it o0 Hi Ho) as [A F]. split; [exact A|]. exact F.
    + intros [|j] a b Ha Hb; cbn in Ha, Hb.
      * inversion Ha; subst. destruct offs as [|o1 offs']; [discriminate|]. cbn in Hb. inversion Hb; subst. apply Z.leb_le. exact H3.
      * eapply Im; eauto.
Qed.

Theorem tfr_cursor_checked unadorned segs offs prog :
  snapshot_ok segs offs = true -> nonneg_targets prog = true ->
  forward (tfr_global segs offs) prog = true ->
  tfr_run (tfr_init unadorned segs offs) prog = Some (run_spec (tfr_global segs offs) prog).
Proof.
  unfold snapshot_ok, nonneg_targets. intros H1 H2 H3. apply andb_true_iff in H1 as [Hw Hh].
  apply tfr_cursor; [apply wf_segsb_sound; exact Hw| | |exact H3].
  - intros o Ho. destruct offs as [|o0 offs']; cbn in Ho; [discriminate|]. inversion Ho; subst. apply Z.eqb_eq. exact Hh.
  - apply Forall_forall. intros c Hc. rewrite forallb_forall in H2. specialize (H2 c Hc). destruct c; [exact I|apply Z.leb_le; exact H2].
Qed.
