(* Cursor engine — DisjunctionSliceSearcher is a cursor over "ids matched by at least
   max 1 min children". *)
From Coq Require Import ZArith List Bool Lia.
From Verif Require Import Cursor.Cursor Cursor.Machines Cursor.MachProofsBase Cursor.MachProofsKids
  Cursor.MachProofsConj.
Import ListNotations.
Local Open Scope Z_scope.

(* ---------- updateMatches, functionally ---------- *)
Section UpdateMatches.
  Variable C : Type.

  (* the least current match *)
  Fixpoint least (kids : list (kid C)) : option Z :=
    match kids with
    | [] => None
    | (_, None) :: r => least r
    | (_, Some c) :: r => Some (match least r with Some m => Z.min c m | None => c end)
    end.

  (* the entries (id, index) of the children whose current match is m0 *)
  Fixpoint idxs_of (m0 : Z) (kids : list (kid C)) (i : nat) : list (Z * nat) :=
    match kids with
    | [] => []
    | (_, None) :: r => idxs_of m0 r (S i)
    | (_, Some c) :: r => if c =? m0 then (c, i) :: idxs_of m0 r (S i) else idxs_of m0 r (S i)
    end.

  Definition hom (m : list (Z * nat)) : Prop :=
    match m with [] => True | (m0, _) :: _ => forall id j, In (id, j) m -> id = m0 end.

  Definition um_fun (kids : list (kid C)) (i : nat) (m : list (Z * nat)) : list (Z * nat) :=
    match m with
    | [] => match least kids with None => [] | Some l => idxs_of l kids i end
    | (m0, _) :: _ =>
        match least kids with
        | None => m
        | Some l => if l <? m0 then idxs_of l kids i else if m0 <? l then m else m ++ idxs_of m0 kids i
        end
    end.

  Lemma idxs_of_none m0 kids i : least kids = None -> idxs_of m0 kids i = [].
  Proof.
    revert i; induction kids as [|[k [c|]] r IH]; intros i H; cbn in *; auto; discriminate.
  Qed.

  Lemma idxs_of_below m0 kids i l : least kids = Some l -> m0 < l -> idxs_of m0 kids i = [].
  Proof.
    revert i l; induction kids as [|[k [c|]] r IH]; intros i l H Hl; cbn in *; try discriminate; eauto.
    inversion H; subst; clear H. destruct (least r) as [lr|] eqn:E.
    - destruct (c =? m0) eqn:Ec; [apply Z.eqb_eq in Ec; lia|]. eapply IH; [reflexivity|lia].
    - destruct (c =? m0) eqn:Ec; [apply Z.eqb_eq in Ec; lia|]. apply idxs_of_none. exact E.
  Qed.

  Lemma hom_app m c i : hom m -> (match m with [] => True | (m0, _) :: _ => c = m0 end) -> hom (m ++ [(c, i)]).
  Proof.
    destruct m as [|[m0 j0] m]; cbn; intros H Hc.
    - intros id j [E|[]]. inversion E; reflexivity.
    - intros id j [E|Hin]; [inversion E; reflexivity|]. apply in_app_or in Hin as [Hin|[E|[]]].
      + apply (H id j). right. exact Hin.
      + inversion E; subst; reflexivity.
  Qed.

  Ltac bsimp := repeat match goal with
    | |- context [Z.min ?a ?b] => first [ rewrite (Z.min_l a b) by lia | rewrite (Z.min_r a b) by lia ]
    | |- context [?a <? ?b] => first [ rewrite (proj2 (Z.ltb_lt a b)) by lia | rewrite (proj2 (Z.ltb_ge a b)) by lia ]
    | |- context [?a =? ?b] => first [ rewrite (proj2 (Z.eqb_eq a b)) by lia | rewrite (proj2 (Z.eqb_neq a b)) by lia ]
    end.

  Lemma um_spec : forall kids i m, hom m -> update_matches C kids i m = um_fun kids i m.
  Proof.
    induction kids as [|[k [c|]] r IH]; intros i m Hm.
    - destruct m as [|[m0 j0] m]; reflexivity.
    - (* a child with a current match c *)
      destruct m as [|[m0 j0] m].
      + cbn [update_matches]. rewrite IH by (cbn; intros id j [E|[]]; inversion E; reflexivity).
        unfold um_fun. cbn [least idxs_of]. destruct (least r) as [lr|] eqn:El.
        * destruct (Z.lt_trichotomy lr c) as [H|[H|H]]; bsimp; try reflexivity;
            try (subst lr; bsimp; reflexivity);
            try (rewrite (idxs_of_below c r (S i) lr El H); reflexivity).
        * bsimp. rewrite (idxs_of_none c r (S i) El). reflexivity.
      + cbn [update_matches]. cbn in Hm.
        destruct (Z.lt_trichotomy m0 c) as [H1|[H1|H1]]; bsimp.
        * (* cmp > 0: continue *)
          rewrite IH by exact Hm. unfold um_fun. cbn [least idxs_of].
          destruct (least r) as [lr|] eqn:El.
          -- destruct (Z.lt_trichotomy lr m0) as [H|[H|H]]; bsimp; try reflexivity;
               try (subst lr; bsimp; reflexivity).
          -- bsimp. reflexivity.
        * (* same id: append *)
          subst c. bsimp.
          rewrite IH by (apply (hom_app ((m0, j0) :: m)); [exact Hm|reflexivity]).
          unfold um_fun. cbn [app least idxs_of]. destruct (least r) as [lr|] eqn:El.
          -- destruct (Z.lt_trichotomy lr m0) as [H|[H|H]]; bsimp; try reflexivity;
               try (subst lr; bsimp; rewrite <- app_assoc; reflexivity);
               try (rewrite (idxs_of_below m0 r (S i) lr El H); reflexivity).
          -- bsimp. rewrite (idxs_of_none m0 r (S i) El). reflexivity.
        * (* cmp < 0: restart with this child *)
          rewrite IH by (cbn; intros id j [E|[]]; inversion E; reflexivity).
          unfold um_fun. cbn [least idxs_of]. destruct (least r) as [lr|] eqn:El.
          -- destruct (Z.lt_trichotomy lr c) as [H|[H|H]]; bsimp; try reflexivity;
               try (subst lr; bsimp; reflexivity);
               try (rewrite (idxs_of_below c r (S i) lr El H); reflexivity).
          -- bsimp. rewrite (idxs_of_none c r (S i) El). reflexivity.
    - (* a child without a current match *)
      cbn [update_matches]. rewrite IH by exact Hm. unfold um_fun. cbn [least idxs_of]. reflexivity.
  Qed.

  Lemma um0 kids : update_matches C kids 0 [] = match least kids with None => [] | Some l => idxs_of l kids 0 end.
  Proof. rewrite um_spec by exact I. reflexivity. Qed.

  Lemma least_le kids l : least kids = Some l -> forall k c, In (k, Some c) kids -> l <= c.
  Proof.
    revert l; induction kids as [|[k0 [c0|]] r IH]; intros l H k c Hin; cbn in *; try discriminate.
    - inversion H; subst; clear H. destruct Hin as [E|Hin].
      + inversion E; subst. destruct (least r); lia.
      + destruct (least r) as [lr|] eqn:El.
        * specialize (IH lr eq_refl k c Hin). lia.
        * exfalso. clear -El Hin. induction r as [|[k1 [c1|]] r IH]; cbn in *; try discriminate; [destruct Hin|].
          destruct Hin as [E|Hin]; [discriminate|auto].
    - destruct Hin as [E|Hin]; [discriminate|]. eauto.
  Qed.

  Lemma least_none kids : least kids = None -> forall k c, ~ In (k, Some c) kids.
  Proof.
    induction kids as [|[k0 [c0|]] r IH]; intros H k c Hin; cbn in *; try discriminate; [destruct Hin|].
    destruct Hin as [E|Hin]; [discriminate|]. eapply IH; eauto.
  Qed.

  Lemma idxs_of_nonempty kids l i : least kids = Some l -> idxs_of l kids i <> [].
  Proof.
    revert l i; induction kids as [|[k0 [c0|]] r IH]; intros l i H; cbn in *; try discriminate; eauto.
    inversion H; subst; clear H. destruct (least r) as [lr|] eqn:El.
    - destruct (c0 =? Z.min c0 lr) eqn:E; [discriminate|]. apply Z.eqb_neq in E.
      assert (Z.min c0 lr = lr) as -> by lia. apply IH. reflexivity.
    - rewrite Z.eqb_refl. discriminate.
  Qed.

  Lemma idxs_of_ids m0 kids i id j : In (id, j) (idxs_of m0 kids i) -> id = m0.
  Proof.
    revert i; induction kids as [|[k0 [c0|]] r IH]; intros i H; cbn in *; [destruct H| |eauto].
    destruct (c0 =? m0) eqn:E; [|eauto]. destruct H as [H|H]; [|eauto].
    inversion H; subst. apply Z.eqb_eq. exact E.
  Qed.
End UpdateMatches.

Arguments least {C}. Arguments idxs_of {C}.

(* ---------- facts about at_least under "drop everything below t" ---------- *)
Lemma memb_dropwhile_gen t x e : ascending e -> memb x (dropwhile_lt t e) = memb x e && (t <=? x).
Proof.
  intro A. destruct (memb x (dropwhile_lt t e)) eqn:E.
  - apply memb_In in E. apply dropwhile_lt_In in E as [E1 E2]; [|exact A].
    symmetry. apply andb_true_iff. split; [apply memb_In; exact E1|apply Z.leb_le; exact E2].
  - symmetry. apply andb_false_iff. destruct (memb x e) eqn:E1; [|left; reflexivity]. right.
    apply Z.leb_gt. apply memb_In in E1. apply memb_false in E.
    destruct (Z_lt_ge_dec x t) as [H|H]; [exact H|]. exfalso. apply E. apply dropwhile_lt_In; [exact A|]. split; [exact E1|lia].
Qed.

Lemma count_in_map_dw t x es :
  Forall ascending es -> count_in x (map (dropwhile_lt t) es) = if t <=? x then count_in x es else 0.
Proof.
  unfold count_in. destruct (t <=? x) eqn:E.
  - induction 1 as [|e es A F IH]; cbn; [reflexivity|].
    rewrite (memb_dropwhile_gen t x e A), E, andb_true_r. destruct (memb x e); cbn [length]; lia.
  - induction 1 as [|e es A F IH]; cbn; [reflexivity|].
    rewrite (memb_dropwhile_gen t x e A), E, andb_false_r. exact IH.
Qed.

Lemma at_least_map_dw min t es :
  Forall ascending es -> at_least min (map (dropwhile_lt t) es) = dropwhile_lt t (at_least min es).
Proof.
  intro A. apply ascending_ext; [apply at_least_ascending|apply dropwhile_lt_ascending; apply at_least_ascending|].
  intro x. rewrite dropwhile_lt_In by apply at_least_ascending. rewrite !at_least_In.
  rewrite (count_in_map_dw t x es A). rewrite Exists_map. split.
  - intros [H1 H2]. destruct (t <=? x) eqn:E; [|lia]. apply Z.leb_le in E. repeat split; auto.
    eapply Exists_impl; [|exact H1]. intros e He. eapply dropwhile_lt_incl; exact He.
  - intros [[H1 H2] H3]. rewrite (proj2 (Z.leb_le t x) H3). split; [|exact H2].
    eapply Exists_impl; [|exact H1]. intros e He. apply dropwhile_lt_keep; assumption.
Qed.

Lemma dropwhile_succ_head m l : asc_from m l -> dropwhile_lt (m + 1) (m :: l) = l.
Proof.
  intro A. cbn. rewrite (proj2 (Z.ltb_lt m (m + 1))) by lia. apply dropwhile_lt_noop.
  eapply Forall_impl; [|apply asc_from_Forall; exact A]. intros; cbn in *; lia.
Qed.

Lemma memb_head_ge_sym d h tl : asc_from h tl -> d <= h -> memb d (h :: tl) = (h =? d).
Proof.
  intros A Hd. destruct (h =? d) eqn:E.
  - apply Z.eqb_eq in E. subst. apply memb_In. left. reflexivity.
  - apply Z.eqb_neq in E. apply memb_false. intros [H|H]; [congruence|].
    pose proof (asc_from_In _ _ _ A H). lia.
Qed.

Lemma upd_nth_app {A} (f : A -> option A) pre x r :
  upd_nth (length pre) f (pre ++ x :: r) = match f x with Some y => Some (pre ++ y :: r) | None => None end.
Proof.
  induction pre as [|a pre IH]; cbn; [reflexivity|]. rewrite IH. destruct (f x); reflexivity.
Qed.

Section DisjS.
  Variable C : Type.
  Variable cnext : nat -> C -> step_res C.
  Variable cadv : nat -> C -> Z -> step_res C.
  Variable R : C -> list Z -> Prop.
  Hypothesis Hasc : asc_ok C R.
  Hypothesis Hnext : next_ok C cnext R.
  Hypothesis Hadv : adv_ok C cadv R.

  Notation KidOk := (KidOk C R).

  Definition RDisjS (st : dslice_st C) (p : list Z) : Prop :=
    exists es, p = at_least (ds_min st) es /\
      if ds_init st then Forall2 KidOk (ds_kids st) es /\ ds_match st = update_matches C (ds_kids st) 0 []
      else Forall2 (fun k e => R (fst k) e) (ds_kids st) es.

  Lemma RDisjS_asc : asc_ok _ RDisjS.
  Proof. intros st p [es [-> _]]. apply at_least_ascending. Qed.

  Lemma least_none_es kids es : Forall2 KidOk kids es -> least kids = None -> Forall (fun e => e = []) es.
  Proof.
    induction 1 as [|[k [c|]] e kids es Hk F IH]; cbn; intro H; [constructor|discriminate|].
    constructor; [|auto]. unfold MachProofsKids.KidOk in Hk. cbn in Hk. tauto.
  Qed.

  Lemma least_lower kids es l :
    Forall2 KidOk kids es -> (forall k c, In (k, Some c) kids -> l <= c) ->
    Forall (fun e => forall x, In x e -> l <= x) es.
  Proof.
    induction 1 as [|[k [c|]] e kids es Hk F IH]; intro H; constructor.
    - unfold MachProofsKids.KidOk in Hk. cbn in Hk. destruct Hk as [pk [_ [A ->]]].
      pose proof (H k c (or_introl eq_refl)). intros x [->|Hx]; [lia|]. pose proof (asc_from_In _ _ _ A Hx). lia.
    - apply IH. intros; eapply H; right; eauto.
    - unfold MachProofsKids.KidOk in Hk. cbn in Hk. destruct Hk as [_ ->]. intros x [].
    - apply IH. intros; eapply H; right; eauto.
  Qed.

  Lemma idxs_count m0 kids es i :
    Forall2 KidOk kids es -> (forall k c, In (k, Some c) kids -> m0 <= c) ->
    Z.of_nat (length (idxs_of m0 kids i)) = count_in m0 es.
  Proof.
    unfold count_in. intro F. revert i. induction F as [|[k [c|]] e kids es Hk F IH]; intros i H; cbn; [reflexivity| |].
    - unfold MachProofsKids.KidOk in Hk. cbn in Hk. destruct Hk as [pk [_ [A ->]]].
      pose proof (H k c (or_introl eq_refl)) as Hc.
      rewrite (memb_head_ge_sym m0 c pk A Hc).
      specialize (IH (S i) (fun k' c' Hin => H k' c' (or_intror Hin))).
      destruct (c =? m0); cbn [length]; lia.
    - unfold MachProofsKids.KidOk in Hk. cbn in Hk. destruct Hk as [_ ->]. cbn.
      exact (IH (S i) (fun k' c' Hin => H k' c' (or_intror Hin))).
  Qed.

  Lemma next_idxs_ok m0 : forall suf es_suf,
    Forall2 KidOk suf es_suf -> (forall k c, In (k, Some c) suf -> m0 <= c) ->
    exists suf', Forall2 KidOk suf' (map (dropwhile_lt (m0 + 1)) es_suf) /\
      forall pre, Ev (fun g => next_idxs C (cnext g) (map snd (idxs_of m0 suf (length pre))) (pre ++ suf)) (pre ++ suf').
  Proof.
    induction 1 as [|[k [c|]] e suf es Hk F IH]; intro H.
    - exists []. split; [constructor|]. intro pre. cbn. apply Ev_const.
    - destruct IH as [suf' [F' Hev']]; [intros k0 c0 Hin; exact (H k0 c0 (or_intror Hin))|].
      pose proof (H k c (or_introl eq_refl)) as Hc.
      pose proof Hk as Hk0. unfold MachProofsKids.KidOk in Hk0. cbn in Hk0. destruct Hk0 as [pk [Hpk [Apk ->]]].
      destruct (c =? m0) eqn:E.
      + apply Z.eqb_eq in E. subst c.
        destruct (next1_ok C cnext R Hasc Hnext _ _ Hk) as [k' [Hk' Hev]]. cbn [tl] in Hk'.
        exists (k' :: suf'). split.
        * cbn [map]. rewrite (dropwhile_succ_head m0 pk Apk). constructor; assumption.
        * intro pre. specialize (Hev' (pre ++ [k'])). rewrite app_length, Nat.add_1_r, <- !app_assoc in Hev'. cbn [app] in Hev'.
          eapply Ev_ext; [|exact (Ev_bind _ (fun g y => next_idxs C (cnext g) (map snd (idxs_of m0 suf (S (length pre)))) (pre ++ y :: suf)) _ _ Hev Hev')].
          intro g. cbn [idxs_of]. rewrite Z.eqb_refl. cbn [map snd next_idxs]. rewrite upd_nth_app.
          unfold next1. cbn [fst]. destruct (cnext g k) as [[? ?]|]; reflexivity.
      + apply Z.eqb_neq in E.
        exists ((k, Some c) :: suf'). split.
        * cbn [map]. rewrite dropwhile_lt_head_ge by lia. constructor; assumption.
        * intro pre. specialize (Hev' (pre ++ [(k, Some c)])). rewrite app_length, Nat.add_1_r, <- !app_assoc in Hev'. cbn [app] in Hev'.
          eapply Ev_ext; [|exact Hev']. intro g. cbn [idxs_of]. rewrite (proj2 (Z.eqb_neq c m0) E). reflexivity.
    - destruct IH as [suf' [F' Hev']]; [intros k0 c0 Hin; exact (H k0 c0 (or_intror Hin))|].
      pose proof Hk as Hk0. unfold MachProofsKids.KidOk in Hk0. cbn in Hk0. destruct Hk0 as [_ ->].
      exists ((k, None) :: suf'). split; [cbn; constructor; assumption|].
      intro pre. specialize (Hev' (pre ++ [(k, None)])). rewrite app_length, Nat.add_1_r, <- !app_assoc in Hev'. cbn [app] in Hev'.
      eapply Ev_ext; [|exact Hev']. intro g. reflexivity.
  Qed.

  Lemma dslice_loop_S cn f min kids m :
    dslice_loop C cn (S f) min kids m =
    match m with
    | [] => Some (None, kids, [])
    | (m0, _) :: _ =>
        match next_idxs C cn (map snd m) kids with
        | None => None
        | Some kids' =>
            if min <=? Z.of_nat (length m) then Some (Some m0, kids', update_matches C kids' 0 [])
            else dslice_loop C cn f min kids' (update_matches C kids' 0 [])
        end
    end.
  Proof. reflexivity. Qed.

  Lemma tot_map_dw_lt m0 kids es l i :
    Forall2 KidOk kids es -> idxs_of l kids i <> [] -> l = m0 ->
    (tot (map (dropwhile_lt (m0 + 1)) es) < tot es)%nat.
  Proof.
    intros F Hne ->. revert i Hne. induction F as [|[k [c|]] e kids es Hk F IH]; intros i Hne; cbn in *; [congruence| |].
    - unfold MachProofsKids.KidOk in Hk. cbn in Hk. destruct Hk as [pk [_ [A ->]]].
      assert (tot (map (dropwhile_lt (m0 + 1)) es) <= tot es)%nat as Hle.
      { clear. induction es as [|e es IH]; cbn; [lia|]. pose proof (dropwhile_lt_length (m0 + 1) e). lia. }
      destruct (c =? m0) eqn:E.
      + apply Z.eqb_eq in E. subst c. pose proof (dropwhile_lt_length_lt (m0 + 1) m0 pk ltac:(lia)). cbn [length] in *. lia.
      + specialize (IH (S i) Hne). pose proof (dropwhile_lt_length (m0 + 1) (c :: pk)). lia.
    - specialize (IH (S i) Hne). unfold MachProofsKids.KidOk in Hk. cbn in Hk. destruct Hk as [_ ->]. cbn. lia.
  Qed.

  Lemma dslice_loop_ok min : forall n kids es,
    (tot es <= n)%nat -> Forall2 KidOk kids es ->
    exists kids' es',
      Forall2 KidOk kids' es' /\ at_least min es' = tl (at_least min es) /\
      Ev2 (fun g f => dslice_loop C (cnext g) f min kids (update_matches C kids 0 []))
          (hd_res (at_least min es), kids', update_matches C kids' 0 []).
  Proof.
    induction n as [|n IH]; intros kids es Hn F;
      pose proof (Forall2_KidOk_asc C R _ _ F) as Aes;
      rewrite (um0 C kids); destruct (least kids) as [l|] eqn:El.
    1, 3:
      (pose proof (least_le C kids l El) as Hle;
       pose proof (idxs_of_nonempty C kids l 0 El) as Hne;
       pose proof (tot_map_dw_lt l kids es l 0 F Hne eq_refl) as Hlt).
    1: lia.
    2: { (* no child has a match *)
      pose proof (least_none_es kids es F El) as Hnil.
      assert (at_least min es = []) as Hp.
      { apply empty_char. intros x Hx. apply at_least_In in Hx as [Hx _]. apply Exists_exists in Hx as [e [He Hin]].
        rewrite Forall_forall in Hnil. rewrite (Hnil e He) in Hin. destruct Hin. }
      exists kids, es. rewrite Hp. repeat split; auto.
      rewrite (um0 C kids), El. eapply Ev2_step0; [|apply Ev2_const]. intros g f. reflexivity. }
    2: { pose proof (least_none_es kids es F El) as Hnil.
      assert (at_least min es = []) as Hp.
      { apply empty_char. intros x Hx. apply at_least_In in Hx as [Hx _]. apply Exists_exists in Hx as [e [He Hin]].
        rewrite Forall_forall in Hnil. rewrite (Hnil e He) in Hin. destruct Hin. }
      exists kids, es. rewrite Hp. repeat split; auto.
      rewrite (um0 C kids), El. eapply Ev2_step0; [|apply Ev2_const]. intros g f. reflexivity. }
    (* some child has a match; l is the least one *)
    destruct (next_idxs_ok l kids es F Hle) as [kids1 [F1 Hev1]]. specialize (Hev1 []). cbn [app length] in Hev1.
    set (es1 := map (dropwhile_lt (l + 1)) es) in *.
    pose proof (least_lower kids es l F Hle) as Hlow.
    pose proof (idxs_count l kids es 0 F Hle) as Hcnt.
    assert (at_least min es1 = dropwhile_lt (l + 1) (at_least min es)) as Hdw by (apply at_least_map_dw; exact Aes).
    assert (forall x, In x (at_least min es) -> l <= x) as Hmin.
    { intros x Hx. apply at_least_In in Hx as [Hx _]. apply Exists_exists in Hx as [e [He Hin]].
      rewrite Forall_forall in Hlow. exact (Hlow e He x Hin). }
    destruct (idxs_of l kids 0) as [|[id0 j0] mrest] eqn:Em; [congruence|].
    assert (id0 = l) as -> by (apply (idxs_of_ids C l kids 0 id0 j0); rewrite Em; left; reflexivity).
    assert (1 <= count_in l es) as Hc1 by (rewrite <- Hcnt; cbn [length]; lia).
    destruct (min <=? Z.of_nat (length ((l, j0) :: mrest))) eqn:Efound.
    - (* found: l is returned *)
      apply Z.leb_le in Efound. rewrite Hcnt in Efound.
      assert (In l (at_least min es)) as Hin.
      { apply at_least_In. split; [|lia].
        apply Exists_exists. unfold count_in in Hc1.
        destruct (filter (memb l) es) as [|e fs] eqn:Ef; [cbn in Hc1; lia|].
        assert (In e (filter (memb l) es)) as He by (rewrite Ef; left; reflexivity).
        apply filter_In in He as [He1 He2]. exists e. split; [exact He1|apply memb_In; exact He2]. }
      destruct (ascending_hd_char _ l (at_least_ascending min es) Hin Hmin) as [p' Hp].
      assert (at_least min es1 = p') as Hp'.
      { rewrite Hdw, Hp. apply dropwhile_succ_head. pose proof (at_least_ascending min es) as A. rewrite Hp in A. exact A. }
      exists kids1, es1. rewrite Hp. cbn [hd_res tl]. repeat split; auto.
      eapply Ev2_step with (Ch := fun g => next_idxs C (cnext g) (map snd ((l, j0) :: mrest)) kids)
        (G := fun g f kids' => Some (Some l, kids', update_matches C kids' 0 [])); [|exact Hev1|apply Ev2_const].
      intros g f. rewrite dslice_loop_S. rewrite (proj2 (Z.leb_le _ _)) by (rewrite Hcnt; exact Efound). reflexivity.
    - (* not enough children match l: skip it *)
      apply Z.leb_gt in Efound. rewrite Hcnt in Efound.
      assert (~ In l (at_least min es)) as Hnin by (intro Hin; apply at_least_In in Hin; lia).
      assert (at_least min es1 = at_least min es) as Hsame.
      { rewrite Hdw. apply dropwhile_lt_noop. apply Forall_forall. intros x Hx.
        pose proof (Hmin x Hx). assert (x <> l) by (intro; subst; tauto). lia. }
      destruct (IH kids1 es1 ltac:(lia) F1) as [kids' [es' [F' [Hint Hev]]]].
      rewrite Hsame in Hint, Hev.
      exists kids', es'. repeat split; auto.
      eapply Ev2_step with (Ch := fun g => next_idxs C (cnext g) (map snd ((l, j0) :: mrest)) kids)
        (G := fun g f kids' => dslice_loop C (cnext g) f min kids' (update_matches C kids' 0 [])); [|exact Hev1|exact Hev].
      intros g f. rewrite dslice_loop_S. rewrite (proj2 (Z.leb_gt _ _)) by (rewrite Hcnt; exact Efound). reflexivity.
  Qed.

  Lemma dslice_init_ok st p :
    RDisjS st p ->
    exists kids es, p = at_least (ds_min st) es /\ Forall2 KidOk kids es /\
                    Ev (fun g => dslice_init C (cnext g) st) (kids, update_matches C kids 0 []).
  Proof.
    intros [es [-> H]]. unfold dslice_init. destruct (ds_init st).
    - destruct H as [F Hm]. exists (ds_kids st), es. repeat split; auto. rewrite Hm. apply Ev_const.
    - destruct (init_all_ok C cnext R Hasc Hnext _ _ H) as [kids' [F' Hev]].
      exists kids', es. repeat split; auto.
      destruct Hev as [N HN]. exists N. intros g Hg. rewrite (HN g Hg). reflexivity.
  Qed.

  Theorem disj_slice_cursor :
    cursor_ok (dslice_st C) (fun f => dslice_next C (cnext f) f)
              (fun f => dslice_adv C (cnext f) (cadv f) f) RDisjS.
  Proof.
    split; [exact RDisjS_asc|]. split.
    - intros st p H. destruct (dslice_init_ok st p H) as [kids [es [-> [F Hev0]]]].
      destruct (dslice_loop_ok (ds_min st) (tot es) kids es (le_n _) F) as [kids' [es' [F' [Hint Hev]]]].
      exists {| ds_kids := kids'; ds_min := ds_min st; ds_match := update_matches C kids' 0 []; ds_init := true |}.
      unfold spec_next. rewrite uncons_hd_tl. cbn [fst snd]. split.
      + exists es'. cbn. split; [symmetry; exact Hint|]. split; [exact F'|reflexivity].
      + apply Ev2_diag with (F := fun g f => dslice_next C (cnext g) f st). unfold dslice_next.
        eapply Ev2_bind with (F := fun g => dslice_init C (cnext g) st)
          (G := fun g f km => let '(kids, m) := km in
                  match dslice_loop C (cnext g) f (ds_min st) kids m with
                  | Some (r, kids', m') => Some (r, {| ds_kids := kids'; ds_min := ds_min st; ds_match := m'; ds_init := true |})
                  | None => None end); [exact Hev0|].
        apply (Ev2_map _ (fun x => let '(r, kids', m') := x in (r, {| ds_kids := kids'; ds_min := ds_min st; ds_match := m'; ds_init := true |}))) in Hev.
        eapply Ev2_ext; [|exact Hev]. intros g f. cbn.
        destruct (dslice_loop C (cnext g) f (ds_min st) kids (update_matches C kids 0 [])) as [[[r k'] m']|]; reflexivity.
    - intros st p t H. destruct (dslice_init_ok st p H) as [kids [es [-> [F Hev0]]]].
      pose proof (Forall2_KidOk_asc C R _ _ F) as Aes.
      destruct (adv_lagging_ok C cadv R Hadv t kids es F) as [kids1 [F1 Hev1]].
      destruct (dslice_loop_ok (ds_min st) (tot (map (dropwhile_lt t) es)) kids1 _ (le_n _) F1) as [kids' [es' [F' [Hint Hev]]]].
      rewrite (at_least_map_dw (ds_min st) t es Aes) in Hint, Hev.
      exists {| ds_kids := kids'; ds_min := ds_min st; ds_match := update_matches C kids' 0 []; ds_init := true |}.
      unfold spec_advance. rewrite uncons_hd_tl. cbn [fst snd]. split.
      + exists es'. cbn. split; [symmetry; exact Hint|]. split; [exact F'|reflexivity].
      + apply Ev2_diag with (F := fun g f => dslice_adv C (cnext g) (cadv g) f st t). unfold dslice_adv.
        eapply Ev2_bind with (F := fun g => dslice_init C (cnext g) st)
          (G := fun g f km => let '(kids, _) := km in
                  match adv_lagging C (cadv g) t kids with
                  | None => None
                  | Some kids1 =>
                      match dslice_loop C (cnext g) f (ds_min st) kids1 (update_matches C kids1 0 []) with
                      | Some (r, kids', m') => Some (r, {| ds_kids := kids'; ds_min := ds_min st; ds_match := m'; ds_init := true |})
                      | None => None end end); [exact Hev0|].
        cbn beta iota.
        eapply Ev2_ext; [|eapply Ev2_bind with (F := fun g => adv_lagging C (cadv g) t kids)
          (G := fun g f kids1 => match dslice_loop C (cnext g) f (ds_min st) kids1 (update_matches C kids1 0 []) with
                                 | Some (r, kids', m') => Some (r, {| ds_kids := kids'; ds_min := ds_min st; ds_match := m'; ds_init := true |})
                                 | None => None end); [exact Hev1|]].
        * intros g f. cbn. destruct (adv_lagging C (cadv g) t kids); reflexivity.
        * apply (Ev2_map _ (fun x => let '(r, kids', m') := x in (r, {| ds_kids := kids'; ds_min := ds_min st; ds_match := m'; ds_init := true |}))) in Hev.
          eapply Ev2_ext; [|exact Hev]. intros g f. cbn.
          destruct (dslice_loop C (cnext g) f (ds_min st) kids1 (update_matches C kids1 0 [])) as [[[r k'] m']|]; reflexivity.
  Qed.
End DisjS.
