(* Cursor engine — C02 lemmas about the string-level parts of the spec (Cursor/Sem.v):
   the regexp / wildcard matcher is correct w.r.t. the inductive matching relations, and the
   executable "edit distance <= k" test decides the inductively defined alignment relation. *)
From Coq Require Import ZArith List Bool Lia.
From Verif Require Import Common.Bytes Cursor.Sem.
Import ListNotations.
Local Open Scope Z_scope.

(* ---------------------------------------------------------------- regular expressions *)

Lemma nullable_spec r : nullable r = true <-> rmatches r [].
Proof.
  split.
  - induction r as [| | c | | neg cs | r IHr s IHs | r IHr s IHs | r IHr]; cbn; intro H;
      try discriminate.
    + constructor.
    + apply andb_true_iff in H as [H1 H2].
      change (@nil Z) with (@nil Z ++ []). constructor; auto.
    + apply orb_true_iff in H as [H|H]; [apply MAltL|apply MAltR]; auto.
    + constructor.
  - intro H. remember (@nil Z) as w eqn:Ew.
    induction H as [| c | c | neg cs c Hx | r s u v H1 IH1 H2 IH2 | r s u H1 IH1 | r s u H1 IH1
                    | r | r u v H1 IH1 H2 IH2]; cbn; try discriminate; auto.
    + apply app_eq_nil in Ew as [-> ->]. rewrite IH1, IH2; auto.
    + rewrite IH1; auto.
    + rewrite IH1; auto. apply orb_true_r.
Qed.

Lemma deriv_sound c r : forall w, rmatches (deriv c r) w -> rmatches r (c :: w).
Proof.
  induction r as [| | c' | | neg cs | r IHr s IHs | r IHr s IHs | r IHr]; cbn; intros w H.
  - inversion H.
  - inversion H.
  - destruct (c =? c') eqn:E; inversion H; subst. apply Z.eqb_eq in E; subst. constructor.
  - inversion H; subst. constructor.
  - destruct (xorb neg (memZ c cs)) eqn:E; inversion H; subst. constructor; exact E.
  - destruct (nullable r) eqn:En.
    + inversion H as [| | | | | ? ? ? H1 | ? ? ? H1 | |]; subst.
      * inversion H1 as [| | | | ? ? u v Hu Hv | | | |]; subst.
        change (c :: u ++ v) with ((c :: u) ++ v). constructor; auto.
      * change (c :: w) with ([] ++ c :: w). constructor; auto.
        apply nullable_spec; exact En.
    + inversion H as [| | | | ? ? u v Hu Hv | | | |]; subst.
      change (c :: u ++ v) with ((c :: u) ++ v). constructor; auto.
  - inversion H; subst; [apply MAltL|apply MAltR]; auto.
  - inversion H as [| | | | ? ? u v Hu Hv | | | |]; subst.
    change (c :: u ++ v) with ((c :: u) ++ v). constructor; auto.
Qed.

Lemma deriv_complete r s : rmatches r s -> forall c w, s = c :: w -> rmatches (deriv c r) w.
Proof.
  induction 1 as [| c0 | c0 | neg cs c0 Hx | r s u v H1 IH1 H2 IH2 | r s u H1 IH1 | r s u H1 IH1
                  | r | r u v H1 IH1 H2 IH2]; intros c w E; cbn.
  - discriminate.
  - inversion E; subst. rewrite Z.eqb_refl. constructor.
  - inversion E; subst. constructor.
  - inversion E; subst. rewrite Hx. constructor.
  - destruct u as [|x u'].
    + cbn in E. subst v.
      assert (Hn : nullable r = true) by (apply nullable_spec; exact H1).
      rewrite Hn. apply MAltR. apply IH2; reflexivity.
    + cbn in E. inversion E; subst.
      destruct (nullable r).
      * apply MAltL. constructor; auto.
      * constructor; auto.
  - apply MAltL. apply IH1; exact E.
  - apply MAltR. apply IH1; exact E.
  - discriminate.
  - destruct u as [|x u'].
    + cbn in E. apply IH2 in E. cbn in E. exact E.
    + cbn in E. inversion E; subst. constructor; auto.
Qed.

Lemma deriv_spec c r w : rmatches (deriv c r) w <-> rmatches r (c :: w).
Proof. split; [apply deriv_sound | intro H; eapply deriv_complete; eauto]. Qed.

Theorem rmatch_correct r w : rmatch r w = true <-> rmatches r w.
Proof.
  revert r; induction w as [|c w IH]; intro r; cbn.
  - apply nullable_spec.
  - rewrite IH. apply deriv_spec.
Qed.

(* the derived forms mean what their names say *)
Lemma rmatches_plus r w :
  rmatches (RPlus r) w <-> exists u v, w = u ++ v /\ rmatches r u /\ rmatches (RStar r) v.
Proof.
  unfold RPlus; split.
  - intro H; inversion H; subst; eauto.
  - intros (u & v & -> & H1 & H2). constructor; auto.
Qed.

Lemma rmatches_opt r w : rmatches (ROpt r) w <-> rmatches r w \/ w = [].
Proof.
  unfold ROpt; split.
  - intro H; inversion H as [| | | | | ? ? ? H1 | ? ? ? H1 | |]; subst; auto.
    inversion H1; auto.
  - intros [H| ->]; [apply MAltL; auto | apply MAltR; constructor].
Qed.

(* ---------------------------------------------------------------- wildcards *)

Lemma star_any w : rmatches (RStar RAny) w.
Proof.
  induction w as [|c w IH]; [constructor|].
  change (c :: w) with ([c] ++ w). constructor; [constructor | exact IH].
Qed.

Lemma wmatches_regex p w : wmatches p w <-> rmatches (wild_regex p) w.
Proof.
  split.
  - induction 1 as [| c p w H IH | c p w H IH | p w H IH | c p w H IH]; cbn.
    + constructor.
    + change (c :: w) with ([c] ++ w). constructor; [constructor | exact IH].
    + change (c :: w) with ([c] ++ w). constructor; [constructor | exact IH].
    + change w with ([] ++ w). constructor; [constructor | exact IH].
    + cbn in IH. inversion IH as [| | | | ? ? u v Hu Hv | | | |]; subst.
      change (c :: u ++ v) with ((c :: u) ++ v). constructor; [apply star_any | exact Hv].
  - revert w; induction p as [|x p IH]; intros w H; cbn in H.
    + inversion H; constructor.
    + destruct x as [c | |].
      * inversion H as [| | | | ? ? u v Hu Hv | | | |]; subst. inversion Hu; subst. cbn.
        constructor; auto.
      * inversion H as [| | | | ? ? u v Hu Hv | | | |]; subst. inversion Hu; subst. cbn.
        constructor; auto.
      * inversion H as [| | | | ? ? u v Hu Hv | | | |]; subst.
        apply IH in Hv. clear H Hu.
        induction u as [|c u IHu]; cbn; [apply WMMany0; exact Hv | apply WMManyS; exact IHu].
Qed.

Theorem wildcard_correct p w : rmatch (wild_regex p) w = true <-> wmatches p w.
Proof. rewrite rmatch_correct. symmetry. apply wmatches_regex. Qed.

(* ---------------------------------------------------------------- prefixes *)

Lemma is_prefix_spec p w : is_prefix p w = true <-> exists s, w = p ++ s.
Proof.
  revert w; induction p as [|x p IH]; intros w; cbn.
  - split; eauto.
  - destruct w as [|y w]; cbn.
    + split; [discriminate | intros [s Hs]; discriminate].
    + rewrite andb_true_iff, Z.eqb_eq, IH. split.
      * intros [-> [s ->]]. eauto.
      * intros [s Hs]. inversion Hs; subst. eauto.
Qed.

Lemma is_prefix_firstn n t : is_prefix (firstn n t) t = true.
Proof.
  apply is_prefix_spec. exists (skipn n t). symmetry. apply firstn_skipn.
Qed.

(* ---------------------------------------------------------------- edit distance *)

Definition le_edits (tr : bool) (k : nat) (a b : bytes) : Prop :=
  exists n, (n <= k)%nat /\ edits tr n a b.

Lemma edits_refl tr a : edits tr 0 a a.
Proof. induction a; constructor; auto. Qed.

Lemma edits_zero tr n a b : edits tr n a b -> n = 0%nat -> a = b.
Proof.
  induction 1; intro E; try discriminate; auto.
  rewrite IHedits; auto.
Qed.

Lemma edits_sym tr n a b : edits tr n a b -> edits tr n b a.
Proof.
  induction 1 as [| n x a b H IH | n x y a b H IH | n x a b H IH | n y a b H IH | n x y a b Ht H IH].
  - constructor.
  - constructor; auto.
  - constructor; auto.
  - apply EIns; auto.
  - apply EDel; auto.
  - apply ESwap; auto.
Qed.

Lemma chain_false_eq a b : chain (fun _ _ => false) a b = true <-> a = b.
Proof.
  revert b; induction a as [|x a IH]; intros [|y b]; cbn; split; intro H; try discriminate; auto.
  - apply andb_true_iff in H as [H1 H2]. apply Z.eqb_eq in H1. apply IH in H2. congruence.
  - inversion H; subst. rewrite Z.eqb_refl. cbn. apply IH; reflexivity.
Qed.

Section Within.
  Variable tr : bool.

  Lemma one_edit_sound k (w : bytes -> bytes -> bool)
        (Hw : forall a b, w a b = true -> le_edits tr k a b) a b :
    one_edit tr w a b = true -> le_edits tr (S k) a b.
  Proof.
    unfold one_edit. intro H.
    repeat (apply orb_true_iff in H as [H|H]).
    - destruct a as [|x a']; [discriminate|]. apply Hw in H as (n & Hn & He).
      exists (S n); split; [lia | constructor; auto].
    - destruct b as [|y b']; [discriminate|]. apply Hw in H as (n & Hn & He).
      exists (S n); split; [lia | apply EIns; auto].
    - destruct a as [|x a']; [discriminate|]. destruct b as [|y b']; [discriminate|].
      apply Hw in H as (n & Hn & He). exists (S n); split; [lia | apply ESub; auto].
    - apply andb_true_iff in H as [Ht H].
      destruct a as [|x [|x2 a'']]; try discriminate.
      destruct b as [|y [|y2 b'']]; try discriminate.
      apply andb_true_iff in H as [H H3]. apply andb_true_iff in H as [H1 H2].
      apply Z.eqb_eq in H1, H2. subst y2 x2.
      apply Hw in H3 as (n & Hn & He). exists (S n); split; [lia | apply ESwap; auto].
  Qed.

  Lemma chain_sound k (e : bytes -> bytes -> bool)
        (He : forall a b, e a b = true -> le_edits tr k a b) :
    forall a b, chain e a b = true -> le_edits tr k a b.
  Proof.
    induction a as [|x a IH]; intros b H; cbn in H; apply orb_true_iff in H as [H|H]; auto.
    - destruct b; [|discriminate]. exists 0%nat; split; [lia | constructor].
    - destruct b as [|y b]; [discriminate|].
      apply andb_true_iff in H as [H1 H2]. apply Z.eqb_eq in H1; subst y.
      apply IH in H2 as (n & Hn & H2). exists n; split; [exact Hn | constructor; auto].
  Qed.

  Lemma chain_e (e : bytes -> bytes -> bool) a b : e a b = true -> chain e a b = true.
  Proof. intro H. destruct a; cbn; rewrite H; reflexivity. Qed.

  Lemma within_sound k : forall a b, within tr k a b = true -> le_edits tr k a b.
  Proof.
    induction k as [|k IH]; intros a b H; cbn in H.
    - apply chain_false_eq in H; subst. exists 0%nat; split; [lia | apply edits_refl].
    - revert a b H. apply chain_sound. intros a b. apply one_edit_sound. exact IH.
  Qed.

  Lemma within_complete n a b :
    edits tr n a b -> forall k, (n <= k)%nat -> within tr k a b = true.
  Proof.
    induction 1 as [| n x a b H IH | n x y a b H IH | n x a b H IH | n y a b H IH | n x y a b Ht H IH];
      intros k Hk.
    - destruct k; cbn; [reflexivity | apply orb_true_r].
    - specialize (IH k Hk). destruct k as [|k]; cbn in *.
      + rewrite Z.eqb_refl, IH. reflexivity.
      + rewrite Z.eqb_refl, IH. cbn. apply orb_true_r.
    - destruct k as [|k]; [lia|]. cbn [within]. apply chain_e. unfold one_edit.
      rewrite (IH k) by lia. rewrite !orb_true_r. reflexivity.
    - destruct k as [|k]; [lia|]. cbn [within]. apply chain_e. unfold one_edit.
      rewrite (IH k) by lia. reflexivity.
    - destruct k as [|k]; [lia|]. cbn [within]. apply chain_e. unfold one_edit.
      rewrite (IH k) by lia. destruct a; rewrite ?orb_true_r; reflexivity.
    - destruct k as [|k]; [lia|]. cbn [within]. apply chain_e. unfold one_edit.
      rewrite (IH k) by lia. rewrite Ht, !Z.eqb_refl. cbn. apply orb_true_r.
  Qed.

  (* the executable test decides "b is reachable from a by an alignment with at most k edits" *)
  Theorem within_spec k a b : within tr k a b = true <-> le_edits tr k a b.
  Proof.
    split; [apply within_sound|]. intros (n & Hn & He). eapply within_complete; eauto.
  Qed.

  Theorem within_refl k a : within tr k a a = true.
  Proof. apply within_spec. exists 0%nat; split; [lia | apply edits_refl]. Qed.

  Theorem within_sym k a b : within tr k a b = within tr k b a.
  Proof.
    apply eq_true_iff_eq. rewrite !within_spec.
    split; intros (n & Hn & He); exists n; split; auto; apply edits_sym; auto.
  Qed.

  Theorem within_zero a b : within tr 0 a b = true <-> a = b.
  Proof.
    rewrite within_spec. split.
    - intros (n & Hn & He). eapply edits_zero; eauto. lia.
    - intros ->. exists 0%nat; split; [lia | apply edits_refl].
  Qed.

  Theorem within_mono k k' a b : (k <= k')%nat -> within tr k a b = true -> within tr k' a b = true.
  Proof.
    intros Hk H. apply within_spec in H as (n & Hn & He). apply within_spec. exists n; split; [lia|auto].
  Qed.
End Within.

(* an edit script never changes the length by more than its cost *)
Lemma edits_length tr n a b :
  edits tr n a b -> (length a <= length b + n /\ length b <= length a + n)%nat.
Proof. induction 1; cbn; lia. Qed.

(* plain Levenshtein alignments are also alignments with transpositions *)
Lemma edits_tr_weaken n a b : edits false n a b -> edits true n a b.
Proof. induction 1; try (constructor; auto; fail). Qed.

(* the two metrics on the examples that tell them apart (and OSA from Damerau-Levenshtein) *)
Example within_ab_ba :
  within true 1 [97;98] [98;97] = true /\ within false 1 [97;98] [98;97] = false /\
  within false 2 [97;98] [98;97] = true.
Proof. vm_compute. auto. Qed.

Example within_ca_abc :
  within true 2 [99;97] [97;98;99] = false /\ within true 3 [99;97] [97;98;99] = true.
Proof. vm_compute. auto. Qed.

(* exact-term special case used by match / phrase with fuzziness 0 *)
Lemma fuzzy_ok_zero tr t pre w : fuzzy_ok tr t pre (Some 0) w = beqb t w.
Proof.
  unfold fuzzy_ok, fuzz_k. cbn [Z.to_nat].
  destruct (beqb t w) eqn:E.
  - apply beqb_eq in E; subst w. rewrite is_prefix_firstn.
    change (within tr 0 t t) with (within tr 0%nat t t). rewrite within_refl. reflexivity.
  - apply andb_false_iff; right. apply not_true_iff_false. intro H.
    apply within_zero in H. subst w. rewrite (proj2 (beqb_eq t t) eq_refl) in E. discriminate.
Qed.
