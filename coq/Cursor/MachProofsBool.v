(* Cursor engine — BooleanSearcher.
   With the should-cursor guard in Advance ([bl_guard] = true) the machine is a cursor over
       (must, or should when there is no must)  minus must-not,
       restricted to should when there is a must and should.Min() <> 0;
   without the guard it loses matches ([boolean_cursor_refuted], in MachProofsTree.v). *)
From Coq Require Import ZArith List Bool Lia.
From Verif Require Import Cursor.Cursor Cursor.Machines Cursor.MachProofsBase Cursor.MachProofsKids
  Cursor.MachProofsConj Cursor.MachProofsDisj Cursor.MachProofsFilter.
Import ListNotations.
Local Open Scope Z_scope.

Lemma filter_ext_in' {A} (f g : A -> bool) l : (forall x, In x l -> f x = g x) -> filter f l = filter g l.
Proof.
  induction l as [|a l IH]; intro H; cbn; [reflexivity|].
  rewrite (H a (or_introl eq_refl)). rewrite IH by (intros; apply H; right; assumption). reflexivity.
Qed.

Lemma filter_dropwhile (f : Z -> bool) t l : ascending l -> dropwhile_lt t (filter f l) = filter f (dropwhile_lt t l).
Proof.
  intro A. apply ascending_ext.
  - apply dropwhile_lt_ascending. apply filter_ascending. exact A.
  - apply filter_ascending. apply dropwhile_lt_ascending. exact A.
  - intro x. rewrite dropwhile_lt_In by (apply filter_ascending; exact A).
    rewrite !filter_In. rewrite dropwhile_lt_In by exact A. tauto.
Qed.

Section Boolean.
  Variable C : Type.
  Variable cnext : nat -> C -> step_res C.
  Variable cadv : nat -> C -> Z -> step_res C.
  Variable cmin : C -> Z.
  Variable R : C -> list Z -> Prop.
  Hypothesis Hasc : asc_ok C R.
  Hypothesis Hnext : next_ok C cnext R.
  Hypothesis Hadv : adv_ok C cadv R.
  (* Min() of a searcher does not change while it runs *)
  Hypothesis Hmin_next : forall f k r k', cnext f k = Some (r, k') -> cmin k' = cmin k.
  Hypothesis Hmin_adv : forall f k t r k', cadv f k t = Some (r, k') -> cmin k' = cmin k.

  Notation KidOk := (KidOk C R).

  (* an optional clause searcher with its current match stands for the list e *)
  Definition OptOk (o : option C) (c : res) (e : list Z) : Prop :=
    match o with Some k => KidOk (k, c) e | None => c = None /\ e = [] end.
  Definition OptR (o : option C) (e : list Z) : Prop :=
    match o with Some k => R k e | None => e = [] end.
  (* same clause: present or absent alike, same Min() *)
  Definition same (o o' : option C) : Prop :=
    match o, o' with Some k, Some k' => cmin k' = cmin k | None, None => True | _, _ => False end.

  Lemma OptOk_asc o c e : OptOk o c e -> ascending e.
  Proof. destruct o; cbn; [apply KidOk_asc|intros [_ ->]; exact I]. Qed.

  Lemma OptOk_hd o c e : OptOk o c e -> hd_res e = c.
  Proof. destruct o; cbn; [intro H; apply (KidOk_hd C R _ _ H)|intros [-> ->]; reflexivity]. Qed.

  Lemma same_refl o : same o o.
  Proof. destruct o; cbn; auto. Qed.

  Lemma same_trans a b c : same a b -> same b c -> same a c.
  Proof. destruct a, b, c; cbn; try tauto; congruence. Qed.

  Lemma opt_next_init o e :
    OptR o e -> exists o' c', OptOk o' c' e /\ same o o' /\
                              Ev (fun g => opt_next C (cnext g) o None) (o', c').
  Proof.
    destruct o as [k|]; cbn; intro H.
    - destruct (init1_ok C cnext R Hasc Hnext k None e H) as [[k' c'] [Hk' Hev]].
      exists (Some k'), c'. split; [exact Hk'|]. destruct Hev as [N HN].
      assert (forall g, (N <= g)%nat -> cnext g k = Some (c', k')) as HN'.
      { intros g Hg. specialize (HN g Hg). unfold next1 in HN. cbn in HN.
        destruct (cnext g k) as [[r s']|]; [|discriminate]. inversion HN; subst. reflexivity. }
      split; [cbn; eapply Hmin_next; apply (HN' N (le_n _))|].
      exists N. intros g Hg. unfold opt_next. rewrite (HN' g Hg). reflexivity.
    - subst e. exists None, None. cbn. repeat split; auto. apply Ev_const.
  Qed.

  Lemma opt_next_ok k c e :
    OptOk (Some k) c e -> exists k' c', OptOk (Some k') c' (tl e) /\ cmin k' = cmin k /\
                              Ev (fun g => cnext g k) (c', k').
  Proof.
    cbn. intro H. destruct (next1_ok C cnext R Hasc Hnext _ _ H) as [[k' c'] [Hk' Hev]].
    exists k', c'. split; [exact Hk'|]. destruct Hev as [N HN].
    assert (forall g, (N <= g)%nat -> cnext g k = Some (c', k')) as HN'.
    { intros g Hg. specialize (HN g Hg). unfold next1 in HN. cbn in HN.
      destruct (cnext g k) as [[r s']|]; [|discriminate]. inversion HN; subst. reflexivity. }
    split; [eapply Hmin_next; apply (HN' N (le_n _))|]. exists N. exact HN'.
  Qed.

  Lemma opt_adv_ok o c e t :
    OptOk o c e -> (match c with Some x => x < t | None => True end) ->
    exists o' c', OptOk o' c' (dropwhile_lt t e) /\ same o o' /\
                  Ev (fun g => opt_adv C (cadv g) o c t) (o', c').
  Proof.
    destruct o as [k|]; cbn; intros H Hc.
    - destruct (adv1_ok C cadv R Hadv t _ _ H Hc) as [[k' c'] [Hk' Hev]].
      exists (Some k'), c'. split; [exact Hk'|]. destruct Hev as [N HN].
      assert (forall g, (N <= g)%nat -> cadv g k t = Some (c', k')) as HN'.
      { intros g Hg. specialize (HN g Hg). unfold adv1 in HN. cbn in HN.
        destruct (cadv g k t) as [[r s']|]; [|discriminate]. inversion HN; subst. reflexivity. }
      split; [cbn; eapply Hmin_adv; apply (HN' N (le_n _))|].
      exists N. intros g Hg. unfold opt_adv. rewrite (HN' g Hg). reflexivity.
    - destruct H as [-> ->]. exists None, None. cbn. repeat split; auto. apply Ev_const.
  Qed.

  (* ---------- the invariant of an initialised, not yet done searcher ---------- *)
  Definition drv (st : bool_st C) (em es : list Z) : list Z :=
    match bl_must st with Some _ => em | None => es end.
  Definition need (st : bool_st C) : bool :=
    match bl_must st, bl_should st with Some _, Some s => negb (cmin s <=? 0) | _, _ => false end.
  Definition okb (nd : bool) (es en : list Z) (x : Z) : bool :=
    negb (memb x en) && (if nd then memb x es else true).
  Definition pend (st : bool_st C) (em es en : list Z) : list Z :=
    filter (okb (need st) es en) (drv st em es).

  Definition BInv (st : bool_st C) (em es en : list Z) : Prop :=
    bl_init st = true /\ bl_done st = false /\
    OptOk (bl_must st) (bl_cm st) em /\ OptOk (bl_should st) (bl_cs st) es /\
    OptOk (bl_mustnot st) (bl_cmn st) en /\
    bl_cur st = bool_current C (bl_must st) (bl_cm st) (bl_cs st).

  (* static part of a state *)
  Definition sameshape (st st' : bool_st C) : Prop :=
    bl_guard st' = bl_guard st /\ same (bl_must st) (bl_must st') /\
    same (bl_should st) (bl_should st') /\ same (bl_mustnot st) (bl_mustnot st').

  Lemma sameshape_refl st : sameshape st st.
  Proof. repeat split; apply same_refl. Qed.

  Lemma sameshape_trans a b c : sameshape a b -> sameshape b c -> sameshape a c.
  Proof.
    intros [H1 [H2 [H3 H4]]] [G1 [G2 [G3 G4]]]. repeat split; try congruence; eapply same_trans; eauto.
  Qed.

  Lemma sameshape_need st st' : sameshape st st' -> need st' = need st.
  Proof.
    intros [_ [H2 [H3 _]]]. unfold need. destruct (bl_must st), (bl_must st'); cbn in H2; try tauto;
      destruct (bl_should st), (bl_should st'); cbn in H3; try tauto. rewrite H3. reflexivity.
  Qed.

  Lemma sameshape_drv st st' em es : sameshape st st' -> drv st' em es = drv st em es.
  Proof.
    intros [_ [H2 _]]. unfold drv. destruct (bl_must st), (bl_must st'); cbn in H2; tauto.
  Qed.

  Lemma BInv_cur st em es en : BInv st em es en -> bl_cur st = hd_res (drv st em es).
  Proof.
    intros [_ [_ [Hm [Hs [_ Hc]]]]]. rewrite Hc. unfold bool_current, drv.
    destruct (bl_must st); [symmetry; eapply OptOk_hd; eauto|symmetry; eapply OptOk_hd; eauto].
  Qed.

  Lemma BInv_asc_drv st em es en : BInv st em es en -> ascending (drv st em es).
  Proof.
    intros [_ [_ [Hm [Hs _]]]]. unfold drv. destruct (bl_must st); eapply OptOk_asc; eauto.
  Qed.

  (* advanceNextMust moves the driving clause one step *)
  Lemma advance_next_must_ok st em es en c :
    BInv st em es en -> bl_cur st = Some c ->
    exists st' em' es',
      BInv st' em' es' en /\ sameshape st st' /\
      drv st' em' es' = tl (drv st em es) /\
      (forall x, In x (tl (drv st em es)) -> okb (need st') es' en x = okb (need st) es en x) /\
      Ev (fun g => bool_advance_next_must C (cnext g) st) st'.
  Proof.
    intros [Hi [Hd [Hm [Hs [Hn Hc]]]]] Hcur. unfold bool_advance_next_must, drv.
    destruct (bl_must st) as [km|] eqn:Em.
    - destruct (opt_next_ok km _ _ Hm) as [k' [c' [Hk' [Hmin Hev]]]].
      exists {| bl_guard := bl_guard st; bl_must := Some k'; bl_should := bl_should st; bl_mustnot := bl_mustnot st;
                bl_cm := c'; bl_cs := bl_cs st; bl_cmn := bl_cmn st; bl_cur := c';
                bl_init := bl_init st; bl_done := bl_done st |}, (tl em), es.
      split; [unfold BInv; cbn; rewrite ?Em; repeat split; auto|]. split; [|split; [reflexivity|split]].
      + repeat split; cbn; try apply same_refl. rewrite Em. cbn. exact Hmin.
      + intros x _. unfold need; cbn. rewrite Em. reflexivity.
      + destruct Hev as [N HN]. exists N. intros g Hg. rewrite (HN g Hg). reflexivity.
    - destruct (bl_should st) as [ks|] eqn:Es.
      + destruct (opt_next_ok ks _ _ Hs) as [k' [c' [Hk' [Hmin Hev]]]].
        exists {| bl_guard := bl_guard st; bl_must := None; bl_should := Some k'; bl_mustnot := bl_mustnot st;
                  bl_cm := bl_cm st; bl_cs := c'; bl_cmn := bl_cmn st; bl_cur := c';
                  bl_init := bl_init st; bl_done := bl_done st |}, em, (tl es).
        split; [unfold BInv; cbn; cbn in Hm; destruct Hm as [Hcm Hem]; repeat split; auto|]. split; [|split; [reflexivity|split]].
        * repeat split; cbn; try apply same_refl; try rewrite Em; try rewrite Es; cbn; auto.
        * intros x _. unfold need; cbn. rewrite Em. reflexivity.
        * destruct Hev as [N HN]. exists N. intros g Hg. rewrite (HN g Hg). reflexivity.
      + (* no must, no should: currentID is nil *)
        exfalso. rewrite Hc in Hcur. cbn in Hcur. cbn in Hs. destruct Hs as [Hs _]. congruence.
  Qed.

  (* ---------- one iteration of the Next loop, factored: decide whether the candidate is
     emitted (moving the must-not and should cursors up to it), then advanceNextMust ---------- *)
  Definition decide (ca : C -> Z -> step_res C) (st : bool_st C) (cur : Z) : option (bool * bool_st C) :=
    match (match bl_cmn st with
           | None => Some (false, st)
           | Some mn =>
               if mn <? cur then
                 match opt_adv C ca (bl_mustnot st) (bl_cmn st) cur with
                 | None => None
                 | Some (n', c') =>
                     let st1 := set_cmn C st n' c' in
                     match c' with Some mn' => Some (mn' =? cur, st1) | None => Some (false, st1) end
                 end
               else if mn =? cur then Some (true, st) else Some (false, st)
           end) with
    | None => None
    | Some (true, st1) => Some (false, st1)
    | Some (false, st1) =>
        match bl_cs st1 with
        | Some sc =>
            if sc <? cur then
              match opt_adv C ca (bl_should st1) (bl_cs st1) cur with
              | None => None
              | Some (s', c') =>
                  let st2 := set_cs C st1 s' c' in
                  if (match c' with Some sc' => sc' =? cur | None => false end) then Some (true, st2)
                  else if should_min_is_zero C cmin st2 then Some (true, st2) else Some (false, st2)
              end
            else if sc =? cur then Some (true, st1)
            else if (match bl_should st1 with None => true | Some _ => should_min_is_zero C cmin st1 end)
                 then Some (true, st1) else Some (false, st1)
        | None =>
            if (match bl_should st1 with None => true | Some _ => should_min_is_zero C cmin st1 end)
            then Some (true, st1) else Some (false, st1)
        end
    end.

  Lemma bool_loop_S cn ca f st :
    bool_loop C cn ca cmin (S f) st =
    match bl_cur st with
    | None => Some (None, st)
    | Some cur =>
        match decide ca st cur with
        | None => None
        | Some (emit, st2) =>
            match bool_advance_next_must C cn st2 with
            | None => None
            | Some st3 => if emit then Some (Some cur, st3) else bool_loop C cn ca cmin f st3
            end
        end
    end.
  Proof.
    cbn [bool_loop]. unfold decide, bool_emit. destruct (bl_cur st) as [cur|]; [|reflexivity].
    destruct (bl_cmn st) as [mn|].
    - destruct (mn <? cur).
      + destruct (opt_adv C ca (bl_mustnot st) (Some mn) cur) as [[n' [mn'|]]|]; [| |reflexivity].
        * destruct (mn' =? cur); [reflexivity|].
          set (st1 := set_cmn C st n' (Some mn')).
          destruct (bl_cs st1) as [sc|].
          -- destruct (sc <? cur).
             ++ destruct (opt_adv C ca (bl_should st1) (Some sc) cur) as [[s' c']|]; [|reflexivity].
                destruct (match c' with Some sc' => sc' =? cur | None => false end); [reflexivity|].
                destruct (should_min_is_zero C cmin (set_cs C st1 s' c')); reflexivity.
             ++ destruct (sc =? cur); [reflexivity|].
                destruct (match bl_should st1 with None => true | Some _ => should_min_is_zero C cmin st1 end); reflexivity.
          -- destruct (match bl_should st1 with None => true | Some _ => should_min_is_zero C cmin st1 end); reflexivity.
        * set (st1 := set_cmn C st n' None).
          destruct (bl_cs st1) as [sc|].
          -- destruct (sc <? cur).
             ++ destruct (opt_adv C ca (bl_should st1) (Some sc) cur) as [[s' c']|]; [|reflexivity].
                destruct (match c' with Some sc' => sc' =? cur | None => false end); [reflexivity|].
                destruct (should_min_is_zero C cmin (set_cs C st1 s' c')); reflexivity.
             ++ destruct (sc =? cur); [reflexivity|].
                destruct (match bl_should st1 with None => true | Some _ => should_min_is_zero C cmin st1 end); reflexivity.
          -- destruct (match bl_should st1 with None => true | Some _ => should_min_is_zero C cmin st1 end); reflexivity.
      + destruct (mn =? cur); [reflexivity|].
        destruct (bl_cs st) as [sc|].
        * destruct (sc <? cur).
          -- destruct (opt_adv C ca (bl_should st) (Some sc) cur) as [[s' c']|]; [|reflexivity].
             destruct (match c' with Some sc' => sc' =? cur | None => false end); [reflexivity|].
             destruct (should_min_is_zero C cmin (set_cs C st s' c')); reflexivity.
          -- destruct (sc =? cur); [reflexivity|].
             destruct (match bl_should st with None => true | Some _ => should_min_is_zero C cmin st end); reflexivity.
        * destruct (match bl_should st with None => true | Some _ => should_min_is_zero C cmin st end); reflexivity.
    - destruct (bl_cs st) as [sc|].
      + destruct (sc <? cur).
        * destruct (opt_adv C ca (bl_should st) (Some sc) cur) as [[s' c']|]; [|reflexivity].
          destruct (match c' with Some sc' => sc' =? cur | None => false end); [reflexivity|].
          destruct (should_min_is_zero C cmin (set_cs C st s' c')); reflexivity.
        * destruct (sc =? cur); [reflexivity|].
          destruct (match bl_should st with None => true | Some _ => should_min_is_zero C cmin st end); reflexivity.
      + destruct (match bl_should st with None => true | Some _ => should_min_is_zero C cmin st end); reflexivity.
  Qed.

  Definition mustnot_part (ca : C -> Z -> step_res C) (st : bool_st C) (cur : Z) : option (bool * bool_st C) :=
    match bl_cmn st with
    | None => Some (false, st)
    | Some mn =>
        if mn <? cur then
          match opt_adv C ca (bl_mustnot st) (bl_cmn st) cur with
          | None => None
          | Some (n', c') =>
              let st1 := set_cmn C st n' c' in
              match c' with Some mn' => Some (mn' =? cur, st1) | None => Some (false, st1) end
          end
        else if mn =? cur then Some (true, st) else Some (false, st)
    end.

  Definition should_part (ca : C -> Z -> step_res C) (st1 : bool_st C) (cur : Z) : option (bool * bool_st C) :=
    match bl_cs st1 with
    | Some sc =>
        if sc <? cur then
          match opt_adv C ca (bl_should st1) (bl_cs st1) cur with
          | None => None
          | Some (s', c') =>
              let st2 := set_cs C st1 s' c' in
              if (match c' with Some sc' => sc' =? cur | None => false end) then Some (true, st2)
              else if should_min_is_zero C cmin st2 then Some (true, st2) else Some (false, st2)
          end
        else if sc =? cur then Some (true, st1)
        else if (match bl_should st1 with None => true | Some _ => should_min_is_zero C cmin st1 end)
             then Some (true, st1) else Some (false, st1)
    | None =>
        if (match bl_should st1 with None => true | Some _ => should_min_is_zero C cmin st1 end)
        then Some (true, st1) else Some (false, st1)
    end.

  Lemma decide_parts ca st cur :
    decide ca st cur =
    match mustnot_part ca st cur with
    | None => None
    | Some (true, st1) => Some (false, st1)
    | Some (false, st1) => should_part ca st1 cur
    end.
  Proof. reflexivity. Qed.

  Definition agree (c : Z) (l' l : list Z) : Prop := forall x, c <= x -> memb x l' = memb x l.

  Lemma agree_refl c l : agree c l l.
  Proof. intros x _. reflexivity. Qed.

  Lemma agree_dw c l : ascending l -> agree c (dropwhile_lt c l) l.
  Proof.
    intros A x Hx. rewrite (memb_dropwhile_gen c x l A). rewrite (proj2 (Z.leb_le c x) Hx). apply andb_true_r.
  Qed.

  (* the head of [dropwhile c e] tells whether c is in e *)
  Lemma memb_via_dw c e : ascending e -> memb c e = match hd_res (dropwhile_lt c e) with Some h => h =? c | None => false end.
  Proof.
    intro A. rewrite <- (memb_dropwhile c e A).
    pose proof (dropwhile_lt_ascending c e A) as A'.
    destruct (dropwhile_lt c e) as [|h l] eqn:E; cbn [hd_res]; [reflexivity|].
    apply memb_head_ge_sym; [exact A'|eapply dropwhile_lt_hd; exact E].
  Qed.

  Lemma mustnot_phase st em es en c :
    BInv st em es en -> bl_cur st = Some c ->
    exists st1 en1,
      BInv st1 em es en1 /\ sameshape st st1 /\ bl_cur st1 = Some c /\ agree c en1 en /\
      bl_cs st1 = bl_cs st /\ bl_should st1 = bl_should st /\ bl_must st1 = bl_must st /\
      Ev (fun g => mustnot_part (cadv g) st c) (memb c en, st1).
  Proof.
    intros Hinv Hcur. pose proof Hinv as [Hi [Hd [Hm [Hs [Hn Hc]]]]].
    pose proof (OptOk_asc _ _ _ Hn) as Aen. pose proof (OptOk_hd _ _ _ Hn) as Hhd.
    unfold mustnot_part. destruct (bl_cmn st) as [mn|] eqn:Ecmn.
    - destruct en as [|h pn]; cbn in Hhd; [discriminate|]. inversion Hhd; subst h.
      destruct (mn <? c) eqn:E1; [|destruct (mn =? c) eqn:E2].
      + apply Z.ltb_lt in E1.
        destruct (opt_adv_ok _ _ _ c Hn E1) as [o' [c' [Ho' [Hsame Hev]]]].
        exists (set_cmn C st o' c'), (dropwhile_lt c (mn :: pn)).
        split; [unfold BInv; cbn; repeat split; auto|].
        split; [unfold sameshape; cbn; repeat split; auto; apply same_refl|].
        split; [exact Hcur|]. split; [apply agree_dw; exact Aen|]. repeat (split; [reflexivity|]).
        rewrite (memb_via_dw c (mn :: pn) Aen). rewrite (OptOk_hd _ _ _ Ho').
        eapply Ev_ext; [|exact (Ev_bind _ (fun g x => let '(n', c') := x in
                             match c' with Some mn' => Some (mn' =? c, set_cmn C st n' c') | None => Some (false, set_cmn C st n' c') end)
                             _ _ Hev (match c' as c0 return Ev (fun _ => match c0 with Some mn' => Some (mn' =? c, set_cmn C st o' c0) | None => Some (false, set_cmn C st o' c0) end)
                                                              (match c0 with Some h => h =? c | None => false end, set_cmn C st o' c0)
                                      with Some _ => Ev_const _ | None => Ev_const _ end))].
        intro g. cbn. destruct (opt_adv C (cadv g) (bl_mustnot st) (Some mn) c) as [[n' [mn'|]]|]; reflexivity.
      + apply Z.eqb_eq in E2. subst mn. exists st, (c :: pn). split; [exact Hinv|]. split; [apply sameshape_refl|]. split; [exact Hcur|]. split; [apply agree_refl|]. repeat (split; [reflexivity|]).
        replace (memb c (c :: pn)) with true by (symmetry; apply memb_In; left; reflexivity). apply Ev_const.
      + apply Z.ltb_ge in E1. apply Z.eqb_neq in E2. exists st, (mn :: pn). split; [exact Hinv|]. split; [apply sameshape_refl|]. split; [exact Hcur|]. split; [apply agree_refl|]. repeat (split; [reflexivity|]).
        rewrite (memb_head_ge_sym c mn pn Aen E1). rewrite (proj2 (Z.eqb_neq mn c) E2). apply Ev_const.
    - destruct en as [|h pn]; cbn in Hhd; [|discriminate].
      exists st, []. split; [exact Hinv|]. split; [apply sameshape_refl|]. split; [exact Hcur|]. split; [apply agree_refl|]. repeat (split; [reflexivity|]). apply Ev_const.
  Qed.

  Lemma should_phase st1 em es en1 c :
    BInv st1 em es en1 -> bl_cur st1 = Some c ->
    exists st2 es2,
      BInv st2 em es2 en1 /\ sameshape st1 st2 /\ bl_cur st2 = Some c /\ agree c es2 es /\
      (bl_must st1 = None -> es2 = es) /\
      Ev (fun g => should_part (cadv g) st1 c) ((if need st1 then memb c es else true), st2).
  Proof.
    intros Hinv Hcur. pose proof Hinv as [Hi [Hd [Hm [Hs [Hn Hc]]]]].
    pose proof (OptOk_asc _ _ _ Hs) as Aes. pose proof (OptOk_hd _ _ _ Hs) as Hhd.
    rewrite Hcur in Hc. unfold bool_current in Hc.
    assert (forall st2, st2 = st1 -> BInv st2 em es en1 /\ sameshape st1 st2 /\ bl_cur st2 = Some c /\ agree c es es /\
                                      (bl_must st1 = None -> es = es)) as Hsame.
    { intros st2 ->. split; [exact Hinv|]. split; [apply sameshape_refl|]. split; [exact Hcur|]. split; [apply agree_refl|]. reflexivity. }
    unfold should_part, need, should_min_is_zero.
    destruct (bl_cs st1) as [sc|] eqn:Ecs.
    - destruct es as [|h ps]; cbn in Hhd; [discriminate|]. inversion Hhd; subst h.
      destruct (bl_should st1) as [ks|] eqn:Esh; [|cbn in Hs; destruct Hs; discriminate].
      destruct (sc <? c) eqn:E1; [|destruct (sc =? c) eqn:E2].
      + apply Z.ltb_lt in E1.
        destruct (bl_must st1) as [km|] eqn:Emu; [|inversion Hc; lia].
        destruct (opt_adv_ok _ _ _ c Hs E1) as [o' [c' [Ho' [Hsm Hev]]]].
        destruct o' as [k''|]; [|cbn in Hsm; destruct Hsm]. cbn in Hsm.
        exists (set_cs C st1 (Some k'') c'), (dropwhile_lt c (sc :: ps)).
        split; [unfold BInv; cbn; rewrite ?Emu; repeat split; auto; cbn; congruence|].
        split; [unfold sameshape; cbn; rewrite ?Esh; repeat split; auto; try apply same_refl|].
        split; [exact Hcur|]. split; [apply agree_dw; exact Aes|]. split; [discriminate|].
        rewrite (memb_via_dw c (sc :: ps) Aes). rewrite (OptOk_hd _ _ _ Ho').
        set (cond1 := match c' with Some sc' => sc' =? c | None => false end).
        assert ((if negb (cmin ks <=? 0) then cond1 else true)
                = (if cond1 then true else if cmin k'' <=? 0 then true else false)) as Hb.
        { rewrite Hsm. destruct cond1, (cmin ks <=? 0); reflexivity. }
        rewrite Hb.
        pose (G := fun (g : nat) (x : option C * res) => let '(s', c'0) := x in
               if (match c'0 with Some sc' => sc' =? c | None => false end) then Some (true, set_cs C st1 s' c'0)
               else if (match bl_should (set_cs C st1 s' c'0) with Some k => cmin k <=? 0 | None => false end)
                    then Some (true, set_cs C st1 s' c'0) else Some (false, set_cs C st1 s' c'0)).
        assert (Ev (fun g => G g (Some k'', c')) ((if cond1 then true else if cmin k'' <=? 0 then true else false), set_cs C st1 (Some k'') c')) as Hev2.
        { unfold G. cbn. fold cond1. destruct cond1; [apply Ev_const|]. destruct (cmin k'' <=? 0); apply Ev_const. }
        eapply Ev_ext; [|exact (Ev_bind _ G _ _ Hev Hev2)].
        intro g. unfold G. cbn. destruct (opt_adv C (cadv g) (Some ks) (Some sc) c) as [[s' c'0]|]; reflexivity.
      + apply Z.eqb_eq in E2. subst sc. exists st1, (c :: ps). split; [apply (Hsame st1 eq_refl)|]. repeat (split; [apply (Hsame st1 eq_refl)|]).
        replace (memb c (c :: ps)) with true by (symmetry; apply memb_In; left; reflexivity).
        destruct (match bl_must st1 with Some _ => negb (cmin ks <=? 0) | None => false end); apply Ev_const.
      + apply Z.ltb_ge in E1. apply Z.eqb_neq in E2.
        destruct (bl_must st1) as [km|] eqn:Emu; [|inversion Hc; lia].
        exists st1, (sc :: ps). split; [apply (Hsame st1 eq_refl)|]. repeat (split; [apply (Hsame st1 eq_refl)|]).
        rewrite (memb_head_ge_sym c sc ps Aes E1). rewrite (proj2 (Z.eqb_neq sc c) E2).
        destruct (cmin ks <=? 0); apply Ev_const.
    - destruct es as [|h ps]; cbn in Hhd; [|discriminate].
      exists st1, []. split; [apply (Hsame st1 eq_refl)|]. repeat (split; [apply (Hsame st1 eq_refl)|]).
      destruct (bl_should st1) as [ks|] eqn:Esh.
      + destruct (bl_must st1) as [km|] eqn:Emu; [|discriminate].
        cbn. destruct (cmin ks <=? 0); apply Ev_const.
      + destruct (bl_must st1); apply Ev_const.
  Qed.

  Lemma okb_agree nd c es2 es en2 en x :
    agree c es2 es -> agree c en2 en -> c <= x -> okb nd es2 en2 x = okb nd es en x.
  Proof. intros H1 H2 Hx. unfold okb. rewrite (H1 x Hx), (H2 x Hx). reflexivity. Qed.

  Lemma decide_ok st em es en c :
    BInv st em es en -> bl_cur st = Some c ->
    exists st2 es2 en2,
      BInv st2 em es2 en2 /\ sameshape st st2 /\ bl_cur st2 = Some c /\
      agree c es2 es /\ agree c en2 en /\ (bl_must st = None -> es2 = es) /\
      Ev (fun g => decide (cadv g) st c) (okb (need st) es en c, st2).
  Proof.
    intros Hinv Hcur.
    destruct (mustnot_phase st em es en c Hinv Hcur) as [st1 [en1 [Hinv1 [Hsh1 [Hcur1 [Hag1 [Hcs1 [Hsh1' [Hmu1 Hev1]]]]]]]]].
    unfold okb. destruct (memb c en) eqn:Eex; cbn [negb andb].
    - exists st1, es, en1. split; [exact Hinv1|]. split; [exact Hsh1|]. split; [exact Hcur1|].
      split; [apply agree_refl|]. split; [exact Hag1|]. split; [reflexivity|].
      eapply Ev_ext; [|exact (Ev_bind _ (fun g x => match x with (true, s1) => Some (false, s1) | (false, s1) => should_part (cadv g) s1 c end)
                                 _ _ Hev1 (Ev_const _))].
      intro g. rewrite decide_parts. destruct (mustnot_part (cadv g) st c) as [[[|] s1]|]; reflexivity.
    - destruct (should_phase st1 em es en1 c Hinv1 Hcur1) as [st2 [es2 [Hinv2 [Hsh2 [Hcur2 [Hag2 [Hmu2 Hev2]]]]]]].
      exists st2, es2, en1. split; [exact Hinv2|]. split; [eapply sameshape_trans; eauto|]. split; [exact Hcur2|].
      split; [exact Hag2|]. split; [exact Hag1|]. split; [intro E; apply Hmu2; congruence|].
      rewrite <- (sameshape_need _ _ Hsh1).
      eapply Ev_ext; [|exact (Ev_bind _ (fun g x => match x with (true, s1) => Some (false, s1) | (false, s1) => should_part (cadv g) s1 c end)
                                 _ _ Hev1 Hev2)].
      intro g. rewrite decide_parts. destruct (mustnot_part (cadv g) st c) as [[[|] s1]|]; reflexivity.
  Qed.

  Lemma bool_loop_ok : forall n st em es en,
    (length (drv st em es) <= n)%nat -> BInv st em es en ->
    exists st',
      Ev2 (fun g f => bool_loop C (cnext g) (cadv g) cmin f st) (hd_res (pend st em es en), st') /\
      sameshape st st' /\
      match hd_res (pend st em es en) with
      | None => True
      | Some _ => exists em' es' en', BInv st' em' es' en' /\ pend st' em' es' en' = tl (pend st em es en)
      end.
  Proof.
    induction n as [|n IH]; intros st em es en Hlen Hinv;
      pose proof (BInv_cur _ _ _ _ Hinv) as Hcur; pose proof (BInv_asc_drv _ _ _ _ Hinv) as Adrv;
      unfold pend; destruct (drv st em es) as [|c d'] eqn:Edrv; cbn [hd_res] in Hcur.
    1, 3: (exists st; cbn [filter hd_res]; split; [|split; [apply sameshape_refl|exact I]];
           eapply Ev2_step0; [|apply Ev2_const]; intros g f; rewrite bool_loop_S, Hcur; reflexivity).
    - cbn in Hlen. lia.
    - destruct (decide_ok st em es en c Hinv Hcur) as [st2 [es2 [en2 [Hinv2 [Hsh2 [Hcur2 [Hag_s [Hag_n [Hmu2 Hev2]]]]]]]]].
      destruct (advance_next_must_ok st2 em es2 en2 c Hinv2 Hcur2) as [st3 [em3 [es3 [Hinv3 [Hsh3 [Hdrv3 [Hokb3 Hev3]]]]]]].
      assert (drv st2 em es2 = c :: d') as Edrv2.
      { rewrite (sameshape_drv _ _ em es2 Hsh2). unfold drv in *. destruct (bl_must st); [exact Edrv|]. rewrite (Hmu2 eq_refl). exact Edrv. }
      rewrite Edrv2 in Hdrv3, Hokb3. cbn [tl] in Hdrv3, Hokb3.
      assert (pend st3 em3 es3 en2 = filter (okb (need st) es en) d') as Hpend3.
      { unfold pend. rewrite Hdrv3. apply filter_ext_in'. intros x Hx. rewrite (Hokb3 x Hx).
        rewrite (sameshape_need _ _ Hsh2). apply (okb_agree (need st) c); auto. cbn in Adrv. pose proof (asc_from_In _ _ _ Adrv Hx). lia. }
      assert (forall g f, bool_loop C (cnext g) (cadv g) cmin (S f) st =
                match decide (cadv g) st c with
                | Some x => (fun (g f : nat) (x : bool * bool_st C) => let '(emit, s2) := x in
                               match bool_advance_next_must C (cnext g) s2 with
                               | None => None
                               | Some s3 => if emit then Some (Some c, s3) else bool_loop C (cnext g) (cadv g) cmin f s3
                               end) g f x
                | None => None end) as Eunf.
      { intros g f. rewrite bool_loop_S, Hcur. destruct (decide (cadv g) st c) as [[emit s2]|]; reflexivity. }
      cbn [filter]. destruct (okb (need st) es en c) eqn:Eemit.
      + (* emitted *)
        exists st3. cbn [hd_res tl]. split; [|split; [eapply sameshape_trans; eauto|]].
        * eapply Ev2_step; [exact Eunf|exact Hev2|]. cbn beta iota.
          apply (Ev2_of_Ev (fun g => match bool_advance_next_must C (cnext g) st2 with None => None | Some s3 => Some (Some c, s3) end)).
          eapply Ev_ext; [|exact (Ev_bind _ (fun _ s3 => Some (Some c, s3)) _ _ Hev3 (Ev_const _))]. reflexivity.
        * exists em3, es3, en2. split; [exact Hinv3|exact Hpend3].
      + (* skipped *)
        assert (length (drv st3 em3 es3) <= n)%nat as Hlen3 by (rewrite Hdrv3; cbn in Hlen; lia).
        destruct (IH st3 em3 es3 en2 Hlen3 Hinv3) as [st' [Hev' [Hsh' Hres]]].
        rewrite Hpend3 in Hev', Hres.
        exists st'. split; [|split; [eapply sameshape_trans; [eapply sameshape_trans|]; eauto|exact Hres]].
        eapply Ev2_step; [exact Eunf|exact Hev2|]. cbn beta iota.
        exact (Ev2_bind _ (fun g f s3 => bool_loop C (cnext g) (cadv g) cmin f s3) _ _ Hev3 Hev').
  Qed.

  (* ---------- the abstraction relation ---------- *)
  Definition RBool (st : bool_st C) (p : list Z) : Prop :=
    (bl_done st = true /\ p = []) \/
    (bl_done st = false /\ bl_guard st = true /\
     exists em es en, p = pend st em es en /\
       if bl_init st then BInv st em es en
       else OptR (bl_must st) em /\ OptR (bl_should st) es /\ OptR (bl_mustnot st) en /\
            bl_cm st = None /\ bl_cs st = None /\ bl_cmn st = None).

  Lemma pend_asc st em es en : ascending (drv st em es) -> ascending (pend st em es en).
  Proof. apply filter_ascending. Qed.

  Lemma RBool_asc : asc_ok _ RBool.
  Proof.
    intros st p [[_ ->]|[_ [_ [em [es [en [-> H]]]]]]]; [exact I|]. apply pend_asc.
    destruct (bl_init st).
    - eapply BInv_asc_drv; eauto.
    - destruct H as [H1 [H2 _]]. unfold drv. destruct (bl_must st); cbn in *.
      + eapply Hasc; eauto.
      + destruct (bl_should st); cbn in *; [eapply Hasc; eauto|subst; exact I].
  Qed.

  Lemma bool_init_ok st p :
    bl_done st = false ->
    (exists em es en, p = pend st em es en /\
       if bl_init st then BInv st em es en
       else OptR (bl_must st) em /\ OptR (bl_should st) es /\ OptR (bl_mustnot st) en /\
            bl_cm st = None /\ bl_cs st = None /\ bl_cmn st = None) ->
    exists st0 em es en, BInv st0 em es en /\ sameshape st st0 /\ p = pend st0 em es en /\
                         Ev (fun g => bool_init C (cnext g) st) st0.
  Proof.
    intros Hd [em [es [en [-> H]]]]. unfold bool_init. destruct (bl_init st) eqn:Ei.
    - exists st, em, es, en. split; [exact H|]. split; [apply sameshape_refl|]. split; [reflexivity|apply Ev_const].
    - destruct H as [Hm [Hs [Hn [Ecm [Ecs Ecmn]]]]]. rewrite Ecm, Ecs, Ecmn.
      destruct (opt_next_init _ _ Hm) as [m' [cm' [Hm' [Sm Evm]]]].
      destruct (opt_next_init _ _ Hs) as [s' [cs' [Hs' [Ss Evs]]]].
      destruct (opt_next_init _ _ Hn) as [n' [cmn' [Hn' [Sn Evn]]]].
      set (st0 := {| bl_guard := bl_guard st; bl_must := m'; bl_should := s'; bl_mustnot := n';
                     bl_cm := cm'; bl_cs := cs'; bl_cmn := cmn'; bl_cur := bool_current C m' cm' cs';
                     bl_init := true; bl_done := bl_done st |}).
      assert (sameshape st st0) as Hsh by (unfold sameshape, st0; cbn; auto).
      exists st0, em, es, en. split; [unfold BInv, st0; cbn; repeat split; auto|]. split; [exact Hsh|]. split.
      + unfold pend. rewrite (sameshape_need _ _ Hsh), (sameshape_drv _ _ em es Hsh). reflexivity.
      + eapply Ev_ext; [|exact (Ev_bind _ (fun g x => let '(m1, c1) := x in
              match opt_next C (cnext g) (bl_should st) None with
              | None => None
              | Some (s1, c2) =>
                  match opt_next C (cnext g) (bl_mustnot st) None with
                  | None => None
                  | Some (n1, c3) =>
                      Some {| bl_guard := bl_guard st; bl_must := m1; bl_should := s1; bl_mustnot := n1;
                              bl_cm := c1; bl_cs := c2; bl_cmn := c3; bl_cur := bool_current C m1 c1 c2;
                              bl_init := true; bl_done := bl_done st |}
                  end
              end) _ _ Evm
              (Ev_bind _ (fun g x => let '(s1, c2) := x in
                  match opt_next C (cnext g) (bl_mustnot st) None with
                  | None => None
                  | Some (n1, c3) =>
                      Some {| bl_guard := bl_guard st; bl_must := m'; bl_should := s1; bl_mustnot := n1;
                              bl_cm := cm'; bl_cs := c2; bl_cmn := c3; bl_cur := bool_current C m' cm' c2;
                              bl_init := true; bl_done := bl_done st |}
                  end) _ _ Evs
                (Ev_bind _ (fun g x => let '(n1, c3) := x in
                      Some {| bl_guard := bl_guard st; bl_must := m'; bl_should := s'; bl_mustnot := n1;
                              bl_cm := cm'; bl_cs := cs'; bl_cmn := c3; bl_cur := bool_current C m' cm' cs';
                              bl_init := true; bl_done := bl_done st |}) _ _ Evn (Ev_const _))))].
        intro g. cbn.
        destruct (opt_next C (cnext g) (bl_must st) None) as [[m1 c1]|]; [|reflexivity].
        destruct (opt_next C (cnext g) (bl_should st) None) as [[s1 c2]|]; [|reflexivity].
        destruct (opt_next C (cnext g) (bl_mustnot st) None) as [[n1 c3]|]; reflexivity.
  Qed.

  (* the body shared by Next and Advance: run the loop, set done when nothing was found *)
  Lemma bool_body_ok st em es en :
    BInv st em es en -> bl_guard st = true ->
    exists st', RBool st' (tl (pend st em es en)) /\
      Ev2 (fun g f => bool_next_body C (cnext g) (cadv g) cmin f st) (hd_res (pend st em es en), st').
  Proof.
    intros Hinv Hg.
    destruct (bool_loop_ok (length (drv st em es)) st em es en (le_n _) Hinv) as [st' [Hev [Hsh Hres]]].
    destruct (hd_res (pend st em es en)) as [x|] eqn:Ehd.
    - destruct Hres as [em' [es' [en' [Hinv' Hp']]]].
      exists st'. split.
      + right. pose proof Hinv' as [Hi' [Hd' _]]. split; [exact Hd'|]. split; [destruct Hsh as [-> _]; exact Hg|].
        exists em', es', en'. rewrite Hi'. split; [symmetry; exact Hp'|exact Hinv'].
      + unfold bool_next_body.
        apply (Ev2_map _ (fun x0 => match x0 with (Some id, s') => (Some id, s') | (None, s') => (None, set_done C s') end)) in Hev.
        eapply Ev2_ext; [|exact Hev]. intros g f. cbn.
        destruct (bool_loop C (cnext g) (cadv g) cmin f st) as [[[id|] s']|]; reflexivity.
    - exists (set_done C st'). split.
      + left. split; [reflexivity|]. destruct (pend st em es en); [reflexivity|discriminate].
      + unfold bool_next_body.
        apply (Ev2_map _ (fun x0 => match x0 with (Some id, s') => (Some id, s') | (None, s') => (None, set_done C s') end)) in Hev.
        eapply Ev2_ext; [|exact Hev]. intros g f. cbn.
        destruct (bool_loop C (cnext g) (cadv g) cmin f st) as [[[id|] s']|]; reflexivity.
  Qed.

  (* advancing a clause cursor unless it is already at/after the target *)
  Lemma opt_adv_guarded o c e t (b : bool) :
    OptOk o c e ->
    (b = true -> match c with Some x => t <= x | None => False end) ->
    (b = false -> match c with Some x => x < t | None => True end) ->
    exists o' c', OptOk o' c' (dropwhile_lt t e) /\ same o o' /\
                  Ev (fun g => if b then Some (o, c) else opt_adv C (cadv g) o c t) (o', c').
  Proof.
    intros H Ht Hf. destruct b.
    - specialize (Ht eq_refl). destruct c as [x|]; [|destruct Ht].
      exists o, (Some x). split; [|split; [apply same_refl|apply Ev_const]].
      destruct o as [k|]; cbn in H; [|destruct H; discriminate].
      pose proof H as H0. unfold MachProofsKids.KidOk in H0. cbn in H0. destruct H0 as [pk [_ [_ ->]]].
      rewrite dropwhile_lt_head_ge by exact Ht. exact H.
    - apply opt_adv_ok; [exact H|apply Hf; reflexivity].
  Qed.

  Lemma pend_dw st0 st1 em es en t :
    sameshape st0 st1 -> ascending (drv st0 em es) -> ascending es -> ascending en ->
    pend st1 (dropwhile_lt t em) (dropwhile_lt t es) (dropwhile_lt t en) = dropwhile_lt t (pend st0 em es en).
  Proof.
    intros Hsh Ad Aes Aen. unfold pend. rewrite (sameshape_need _ _ Hsh), (sameshape_drv _ _ _ _ Hsh).
    assert (drv st0 (dropwhile_lt t em) (dropwhile_lt t es) = dropwhile_lt t (drv st0 em es)) as -> by (unfold drv; destruct (bl_must st0); reflexivity).
    rewrite (filter_dropwhile _ t _ Ad). apply filter_ext_in'. intros x Hx.
    apply dropwhile_lt_In in Hx as [_ Hx]; [|exact Ad].
    unfold okb. rewrite (memb_dropwhile_gen t x en Aen), (memb_dropwhile_gen t x es Aes).
    rewrite (proj2 (Z.leb_le t x) Hx), !andb_true_r. reflexivity.
  Qed.

  Theorem boolean_cursor :
    cursor_ok (bool_st C) (fun f => bool_next C (cnext f) (cadv f) cmin f)
              (fun f => bool_adv C (cnext f) (cadv f) cmin f) RBool.
  Proof.
    split; [exact RBool_asc|]. split.
    - (* Next *)
      intros st p [[Hd ->]|[Hd [Hg Hex]]].
      + exists st. split; [left; auto|]. unfold bool_next. rewrite Hd. cbn. apply Ev_const.
      + destruct (bool_init_ok st p Hd Hex) as [st0 [em [es [en [Hinv [Hsh [-> Hev0]]]]]]].
        assert (bl_guard st0 = true) as Hg0 by (destruct Hsh as [-> _]; exact Hg).
        destruct (bool_body_ok st0 em es en Hinv Hg0) as [st' [HR Hev]].
        exists st'. unfold spec_next. rewrite uncons_hd_tl. cbn [fst snd]. split; [exact HR|].
        apply Ev2_diag with (F := fun g f => bool_next C (cnext g) (cadv g) cmin f st). unfold bool_next. rewrite Hd.
        exact (Ev2_bind _ (fun g f s0 => bool_next_body C (cnext g) (cadv g) cmin f s0) _ _ Hev0 Hev).
    - (* Advance *)
      intros st p t [[Hd ->]|[Hd [Hg Hex]]].
      + exists st. split; [left; auto|]. unfold bool_adv. rewrite Hd. cbn. apply Ev_const.
      + destruct (bool_init_ok st p Hd Hex) as [st0 [em [es [en [Hinv [Hsh [-> Hev0]]]]]]].
        assert (bl_guard st0 = true) as Hg0 by (destruct Hsh as [-> _]; exact Hg).
        pose proof (BInv_cur _ _ _ _ Hinv) as Hcur. pose proof (BInv_asc_drv _ _ _ _ Hinv) as Adrv.
        pose proof Hinv as [Hi0 [Hd0 [Hm [Hs [Hn Hc]]]]].
        unfold spec_advance. rewrite uncons_hd_tl. cbn [fst snd].
        destruct (match bl_cur st0 with None => true | Some cur => cur <? t end) eqn:Econd.
        * (* the cursor trails the target: advance the three clauses *)
          assert (match bl_cm st0 with Some x => x < t | None => True end) as Pm.
          { destruct (bl_must st0) as [km|] eqn:Emu.
            - unfold bool_current in Hc. rewrite <- Hc. destruct (bl_cur st0); [apply Z.ltb_lt; exact Econd|exact I].
            - cbn in Hm. destruct Hm as [-> _]. exact I. }
          destruct (opt_adv_ok _ _ _ t Hm Pm) as [m' [cm' [Hm' [Sm Evm]]]].
          destruct (opt_adv_guarded _ _ _ t (bl_guard st0 && negb (match bl_cs st0 with None => true | Some sc => sc <? t end)) Hs)
            as [s' [cs' [Hs' [Ss Evs]]]].
          { rewrite Hg0. cbn. destruct (bl_cs st0) as [sc|]; cbn; [|discriminate]. intro E. apply negb_true_iff in E. apply Z.ltb_ge. exact E. }
          { rewrite Hg0. cbn. destruct (bl_cs st0) as [sc|]; cbn; [|auto]. intro E. apply negb_false_iff in E. apply Z.ltb_lt. exact E. }
          destruct (opt_adv_guarded _ _ _ t (negb (match bl_cmn st0 with None => true | Some mn => mn <? t end)) Hn)
            as [n' [cmn' [Hn' [Sn Evn]]]].
          { destruct (bl_cmn st0) as [mn|]; cbn; [|discriminate]. intro E. apply negb_true_iff in E. apply Z.ltb_ge. exact E. }
          { destruct (bl_cmn st0) as [mn|]; cbn; [|auto]. intro E. apply negb_false_iff in E. apply Z.ltb_lt. exact E. }
          set (st1 := {| bl_guard := bl_guard st0; bl_must := m'; bl_should := s'; bl_mustnot := n';
                         bl_cm := cm'; bl_cs := cs'; bl_cmn := cmn'; bl_cur := bool_current C m' cm' cs';
                         bl_init := true; bl_done := false |}).
          assert (sameshape st0 st1) as Hsh1 by (unfold sameshape, st1; cbn; auto).
          assert (BInv st1 (dropwhile_lt t em) (dropwhile_lt t es) (dropwhile_lt t en)) as Hinv1
              by (unfold BInv, st1; cbn; repeat split; auto).
          destruct (bool_body_ok st1 _ _ _ Hinv1 Hg0) as [st' [HR Hev]].
          rewrite (pend_dw st0 st1 em es en t Hsh1 Adrv (OptOk_asc _ _ _ Hs) (OptOk_asc _ _ _ Hn)) in HR, Hev.
          exists st'. split; [exact HR|].
          apply Ev2_diag with (F := fun g f => bool_adv C (cnext g) (cadv g) cmin f st t). unfold bool_adv. rewrite Hd.
          eapply Ev2_ext; [|eapply (Ev2_bind _ (fun g f s0 =>
              if (match bl_cur s0 with None => true | Some cur => cur <? t end) then
                match opt_adv C (cadv g) (bl_must s0) (bl_cm s0) t with
                | None => None
                | Some (m1, c1) =>
                    match (if bl_guard s0 && negb (match bl_cs s0 with None => true | Some sc => sc <? t end)
                           then Some (bl_should s0, bl_cs s0) else opt_adv C (cadv g) (bl_should s0) (bl_cs s0) t) with
                    | None => None
                    | Some (s1, c2) =>
                        match (if (match bl_cmn s0 with None => true | Some mn => mn <? t end)
                               then opt_adv C (cadv g) (bl_mustnot s0) (bl_cmn s0) t else Some (bl_mustnot s0, bl_cmn s0)) with
                        | None => None
                        | Some (n1, c3) =>
                            bool_next_body C (cnext g) (cadv g) cmin f
                              {| bl_guard := bl_guard s0; bl_must := m1; bl_should := s1; bl_mustnot := n1;
                                 bl_cm := c1; bl_cs := c2; bl_cmn := c3; bl_cur := bool_current C m1 c1 c2;
                                 bl_init := true; bl_done := false |}
                        end
                    end
                end
              else bool_next_body C (cnext g) (cadv g) cmin f s0) _ _ Hev0)].
          { intros g f. cbn. destruct (bool_init C (cnext g) st); reflexivity. }
          cbn beta. rewrite Econd.
          eapply Ev2_ext; [|eapply (Ev2_bind _ (fun g f x => let '(m1, c1) := x in
                    match (if bl_guard st0 && negb (match bl_cs st0 with None => true | Some sc => sc <? t end)
                           then Some (bl_should st0, bl_cs st0) else opt_adv C (cadv g) (bl_should st0) (bl_cs st0) t) with
                    | None => None
                    | Some (s1, c2) =>
                        match (if (match bl_cmn st0 with None => true | Some mn => mn <? t end)
                               then opt_adv C (cadv g) (bl_mustnot st0) (bl_cmn st0) t else Some (bl_mustnot st0, bl_cmn st0)) with
                        | None => None
                        | Some (n1, c3) =>
                            bool_next_body C (cnext g) (cadv g) cmin f
                              {| bl_guard := bl_guard st0; bl_must := m1; bl_should := s1; bl_mustnot := n1;
                                 bl_cm := c1; bl_cs := c2; bl_cmn := c3; bl_cur := bool_current C m1 c1 c2;
                                 bl_init := true; bl_done := false |}
                        end
                    end) _ _ Evm)].
          { intros g f. cbn. destruct (opt_adv C (cadv g) (bl_must st0) (bl_cm st0) t) as [[m1 c1]|]; reflexivity. }
          cbn beta iota.
          eapply Ev2_ext; [|eapply (Ev2_bind _ (fun g f x => let '(s1, c2) := x in
                        match (if (match bl_cmn st0 with None => true | Some mn => mn <? t end)
                               then opt_adv C (cadv g) (bl_mustnot st0) (bl_cmn st0) t else Some (bl_mustnot st0, bl_cmn st0)) with
                        | None => None
                        | Some (n1, c3) =>
                            bool_next_body C (cnext g) (cadv g) cmin f
                              {| bl_guard := bl_guard st0; bl_must := m'; bl_should := s1; bl_mustnot := n1;
                                 bl_cm := cm'; bl_cs := c2; bl_cmn := c3; bl_cur := bool_current C m' cm' c2;
                                 bl_init := true; bl_done := false |}
                        end) _ _ Evs)].
          { intros g f. cbn.
            destruct (if bl_guard st0 && negb (match bl_cs st0 with None => true | Some sc => sc <? t end)
                      then Some (bl_should st0, bl_cs st0) else opt_adv C (cadv g) (bl_should st0) (bl_cs st0) t) as [[s1 c2]|]; reflexivity. }
          cbn beta iota.
          eapply Ev2_ext; [|exact (Ev2_bind _ (fun g f x => let '(n1, c3) := x in
                            bool_next_body C (cnext g) (cadv g) cmin f
                              {| bl_guard := bl_guard st0; bl_must := m'; bl_should := s'; bl_mustnot := n1;
                                 bl_cm := cm'; bl_cs := cs'; bl_cmn := c3; bl_cur := bool_current C m' cm' cs';
                                 bl_init := true; bl_done := false |}) _ _ Evn Hev)].
          intros g f. cbn.
          destruct (match bl_cmn st0 with None => true | Some mn => mn <? t end); cbn;
            destruct (opt_adv C (cadv g) (bl_mustnot st0) (bl_cmn st0) t) as [[n1 c3]|]; reflexivity.
        * (* already at or past the target: plain Next *)
          destruct (bl_cur st0) as [c|] eqn:Ecur; [|discriminate]. apply Z.ltb_ge in Econd.
          destruct (bool_body_ok st0 em es en Hinv Hg0) as [st' [HR Hev]].
          assert (dropwhile_lt t (pend st0 em es en) = pend st0 em es en) as ->.
          { apply dropwhile_lt_noop. apply Forall_forall. intros x Hx. unfold pend in Hx. apply filter_In in Hx as [Hx _].
            destruct (drv st0 em es) as [|h d'] eqn:Ed; [destruct Hx|]. cbn in Hcur. inversion Hcur; subst h.
            destruct Hx as [->|Hx]; [lia|]. cbn in Adrv. pose proof (asc_from_In _ _ _ Adrv Hx). lia. }
          exists st'. split; [exact HR|].
          apply Ev2_diag with (F := fun g f => bool_adv C (cnext g) (cadv g) cmin f st t). unfold bool_adv. rewrite Hd.
          eapply Ev2_ext; [|eapply (Ev2_bind _ (fun g f s0 =>
              if (match bl_cur s0 with None => true | Some cur => cur <? t end) then
                match opt_adv C (cadv g) (bl_must s0) (bl_cm s0) t with
                | None => None
                | Some (m1, c1) =>
                    match (if bl_guard s0 && negb (match bl_cs s0 with None => true | Some sc => sc <? t end)
                           then Some (bl_should s0, bl_cs s0) else opt_adv C (cadv g) (bl_should s0) (bl_cs s0) t) with
                    | None => None
                    | Some (s1, c2) =>
                        match (if (match bl_cmn s0 with None => true | Some mn => mn <? t end)
                               then opt_adv C (cadv g) (bl_mustnot s0) (bl_cmn s0) t else Some (bl_mustnot s0, bl_cmn s0)) with
                        | None => None
                        | Some (n1, c3) =>
                            bool_next_body C (cnext g) (cadv g) cmin f
                              {| bl_guard := bl_guard s0; bl_must := m1; bl_should := s1; bl_mustnot := n1;
                                 bl_cm := c1; bl_cs := c2; bl_cmn := c3; bl_cur := bool_current C m1 c1 c2;
                                 bl_init := true; bl_done := false |}
                        end
                    end
                end
              else bool_next_body C (cnext g) (cadv g) cmin f s0) _ _ Hev0)].
          { intros g f. cbn. destruct (bool_init C (cnext g) st); reflexivity. }
          cbn beta. rewrite Ecur. rewrite (proj2 (Z.ltb_ge c t) Econd). exact Hev.
  Qed.
End Boolean.
