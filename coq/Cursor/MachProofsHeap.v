(* Cursor engine — DisjunctionHeapSearcher is a cursor over "ids matched by at least
   max 1 min children" (same set expression as the slice variant). *)
From Coq Require Import ZArith List Bool Lia.
From Verif Require Import Cursor.Cursor Cursor.Machines Cursor.MachProofsBase Cursor.MachProofsKids
  Cursor.MachProofsConj Cursor.MachProofsDisj.
Import ListNotations.
Local Open Scope Z_scope.

(* ---------- at_least only depends on how many lists contain each id ---------- *)
Definition ceq (es es' : list (list Z)) : Prop := forall x, count_in x es = count_in x es'.

Lemma count_in_app x a b : count_in x (a ++ b) = count_in x a + count_in x b.
Proof. unfold count_in. rewrite filter_app, app_length. lia. Qed.

Lemma count_in_nonneg x es : 0 <= count_in x es.
Proof. unfold count_in. lia. Qed.

Lemma count_in_pos x es : 1 <= count_in x es <-> Exists (In x) es.
Proof.
  unfold count_in. induction es as [|e es IH]; cbn.
  - split; [lia|intro H; inversion H].
  - destruct (memb x e) eqn:E; cbn [length].
    + split; [intros _; left; apply memb_In; exact E|lia].
    + rewrite IH. split; [intro H; right; exact H|]. intro H. inversion H; subst; [|assumption].
      apply memb_In in H1. congruence.
Qed.

Lemma at_least_ceq min es es' : ceq es es' -> at_least min es = at_least min es'.
Proof.
  intro H. apply ascending_ext; try apply at_least_ascending.
  intro x. rewrite !at_least_In, <- !count_in_pos, (H x). tauto.
Qed.

Lemma ceq_refl es : ceq es es. Proof. intro; reflexivity. Qed.
Lemma ceq_sym a b : ceq a b -> ceq b a. Proof. intros H x; symmetry; apply H. Qed.
Lemma ceq_trans a b c : ceq a b -> ceq b c -> ceq a c. Proof. intros H1 H2 x; rewrite H1; apply H2. Qed.
Lemma ceq_app_comm a b : ceq (a ++ b) (b ++ a). Proof. intro x. rewrite !count_in_app. lia. Qed.
Lemma ceq_app a a' b b' : ceq a a' -> ceq b b' -> ceq (a ++ b) (a' ++ b').
Proof. intros H1 H2 x. rewrite !count_in_app, H1, H2. reflexivity. Qed.
Lemma ceq_nil_cons es : ceq ([] :: es) es. Proof. intro x. reflexivity. Qed.
Lemma ceq_cons e a b : ceq a b -> ceq (e :: a) (e :: b).
Proof. intros H x. change (e :: a) with ([e] ++ a). change (e :: b) with ([e] ++ b). rewrite !count_in_app, H. reflexivity. Qed.
Lemma ceq_rev a : ceq (rev a) a.
Proof.
  intro x. induction a as [|e a IH]; [reflexivity|]. cbn [rev]. rewrite count_in_app, IH.
  change (e :: a) with ([e] ++ a). rewrite count_in_app. lia.
Qed.
Lemma ceq_middle e a b : ceq (a ++ e :: b) (e :: a ++ b).
Proof.
  intro x. change (e :: a ++ b) with ([e] ++ a ++ b). change (e :: b) with ([e] ++ b). rewrite !count_in_app. lia.
Qed.

Lemma tot_app a b : tot (a ++ b) = (tot a + tot b)%nat.
Proof. induction a as [|e a IH]; cbn; [reflexivity|]. rewrite IH. lia. Qed.

Section Heap.
  Variable C : Type.
  Variable cnext : nat -> C -> step_res C.
  Variable cadv : nat -> C -> Z -> step_res C.
  Variable R : C -> list Z -> Prop.
  Hypothesis Hasc : asc_ok C R.
  Hypothesis Hnext : next_ok C cnext R.
  Hypothesis Hadv : adv_ok C cadv R.

  Notation hentry := (hentry C).
  Definition EntOk (x : hentry) (e : list Z) : Prop :=
    exists pk, R (fst x) pk /\ asc_from (snd x) pk /\ e = snd x :: pk.

  Lemma EntOk_asc x e : EntOk x e -> ascending e.
  Proof. intros [pk [_ [A ->]]]. exact A. Qed.

  Lemma Forall2_EntOk_asc h es : Forall2 EntOk h es -> Forall ascending es.
  Proof. induction 1; constructor; auto. eapply EntOk_asc; eauto. Qed.

  (* ---------- the abstract heap ---------- *)
  Lemma heap_least_none (h : list hentry) : heap_least C h = None -> h = [].
  Proof. destruct h as [|[k c] h]; cbn; [reflexivity|]. destruct (heap_least C h); discriminate. Qed.

  Lemma heap_least_le (h : list hentry) l : heap_least C h = Some l -> Forall (fun e => l <= snd e) h.
  Proof.
    revert l; induction h as [|[k c] h IH]; intros l H; cbn in H; [constructor|].
    destruct (heap_least C h) as [m|] eqn:E; inversion H; subst; constructor; cbn; try lia.
    - eapply Forall_impl; [|apply (IH m eq_refl)]. cbn. intros; lia.
    - apply heap_least_none in E. subst. constructor.
  Qed.

  Lemma heap_least_in (h : list hentry) l : heap_least C h = Some l -> Exists (fun e => snd e = l) h.
  Proof.
    revert l; induction h as [|[k c] h IH]; intros l H; cbn in H; [discriminate|].
    destruct (heap_least C h) as [m|] eqn:E; inversion H; subst.
    - destruct (Z.le_gt_cases c m) as [Hc|Hc].
      + left. cbn. lia.
      + right. rewrite Z.min_r by lia. apply IH. reflexivity.
    - left. reflexivity.
  Qed.

  Definition is_l (l : Z) (e : hentry) : bool := snd e =? l.

  Lemma heap_remove_spec l (h : list hentry) :
    Exists (fun e => snd e = l) h ->
    exists e h', heap_remove C l h = Some (e, h') /\ snd e = l /\
                 filter (is_l l) h = e :: filter (is_l l) h' /\
                 filter (fun e => negb (is_l l e)) h = filter (fun e => negb (is_l l e)) h' /\
                 length h = S (length h').
  Proof.
    induction h as [|[k c] h IH]; intro H; [inversion H|].
    cbn [heap_remove filter]. change (is_l l (k, c)) with (c =? l).
    destruct (c =? l) eqn:E.
    - apply Z.eqb_eq in E. subst c. exists (k, l), h. cbn [negb]. repeat split; auto.
    - assert (Exists (fun e : hentry => snd e = l) h) as H1.
      { apply Exists_cons in H as [H0|H0]; [apply Z.eqb_neq in E; cbn in H0; congruence|exact H0]. }
      destruct (IH H1) as [e [h' [Hr [He [Hf1 [Hf2 Hl]]]]]]. rewrite Hr.
      exists e, ((k, c) :: h'). cbn [filter negb]. change (is_l l (k, c)) with (c =? l). rewrite E. cbn [negb].
      rewrite Hf1, Hf2. cbn [length]. rewrite Hl. repeat split; auto.
  Qed.

  Lemma pop_equal_spec : forall n l (h acc : list hentry),
    (length h <= n)%nat -> Forall (fun e => l <= snd e) h ->
    pop_equal C n l h acc = (filter (fun e => negb (is_l l e)) h, acc ++ filter (is_l l) h).
  Proof.
    induction n as [|n IH]; intros l h acc Hn Hle.
    - destruct h; [|cbn in Hn; lia]. cbn. rewrite app_nil_r. reflexivity.
    - cbn [pop_equal]. unfold heap_pop. destruct (heap_least C h) as [l'|] eqn:El.
      + pose proof (heap_least_in h l' El) as Hex. pose proof (heap_least_le h l' El) as Hle'.
        destruct (heap_remove_spec l' h Hex) as [[k c] [h' [Hr [He [Hf1 [Hf2 Hl]]]]]]. rewrite Hr. cbn in He. subst c.
        destruct (l' =? l) eqn:E.
        * apply Z.eqb_eq in E. subst l'. rewrite IH.
          -- rewrite Hf1, Hf2, <- app_assoc. reflexivity.
          -- lia.
          -- (* h' is h without one entry *)
             clear -Hr Hle. revert h' Hr. induction h as [|[k1 c1] h IHh]; intros h' Hr; cbn in Hr; [discriminate|].
             inversion Hle; subst. destruct (c1 =? l); [inversion Hr; subst; assumption|].
             destruct (heap_remove C l h) as [[e0 h0]|]; [|discriminate]. inversion Hr; subst. constructor; auto.
        * (* the least id is greater than l: no entry with id l *)
          apply Z.eqb_neq in E.
          assert (l < l') as Hlt.
          { apply Exists_exists in Hex as [e [He1 He2]]. rewrite Forall_forall in Hle. pose proof (Hle e He1). lia. }
          assert (forall e, In e h -> is_l l e = false) as Hno.
          { intros e He. unfold is_l. apply Z.eqb_neq. rewrite Forall_forall in Hle'. pose proof (Hle' e He). lia. }
          f_equal.
          -- symmetry. clear -Hno. induction h as [|a h IH]; cbn; [reflexivity|].
             rewrite (Hno a (or_introl eq_refl)). cbn. f_equal. apply IH. intros; apply Hno; right; assumption.
          -- assert (filter (is_l l) h = []) as ->; [|rewrite app_nil_r; reflexivity].
             clear -Hno. induction h as [|a h IH]; cbn; [reflexivity|].
             rewrite (Hno a (or_introl eq_refl)). apply IH. intros; apply Hno; right; assumption.
      + apply heap_least_none in El. subst h. cbn. rewrite app_nil_r. reflexivity.
  Qed.

  Lemma hum_spec (h : list hentry) :
    heap_update_matches C h =
    match heap_least C h with
    | None => ([], [])
    | Some l => (filter (fun e => negb (is_l l e)) h, filter (is_l l) h)
    end.
  Proof.
    unfold heap_update_matches, heap_pop. destruct (heap_least C h) as [l|] eqn:El.
    - pose proof (heap_least_in h l El) as Hex. pose proof (heap_least_le h l El) as Hle.
      destruct (heap_remove_spec l h Hex) as [[k c] [h' [Hr [He [Hf1 [Hf2 Hl]]]]]]. rewrite Hr. cbn in He. subst c.
      rewrite pop_equal_spec; [|lia|].
      + rewrite Hf1, Hf2. reflexivity.
      + clear -Hr Hle. revert h' Hr. induction h as [|[k1 c1] h IHh]; intros h' Hr; cbn in Hr; [discriminate|].
        inversion Hle; subst. destruct (c1 =? l); [inversion Hr; subst; assumption|].
        destruct (heap_remove C l h) as [[e0 h0]|]; [|discriminate]. inversion Hr; subst. constructor; auto.
    - apply heap_least_none in El. subst. reflexivity.
  Qed.

  (* the state after updateMatches: matching = all entries of least id *)
  Definition UM (h m : list hentry) : Prop :=
    match m with
    | [] => h = []
    | (_, m0) :: _ => Forall (fun e => snd e = m0) m /\ Forall (fun e => m0 < snd e) h
    end.

  Lemma split_filter (P : hentry -> bool) h es :
    Forall2 EntOk h es ->
    exists e1 e2, Forall2 EntOk (filter (fun e => negb (P e)) h) e1 /\ Forall2 EntOk (filter P h) e2 /\
                  ceq (e1 ++ e2) es.
  Proof.
    induction 1 as [|x e h es Hx F [e1 [e2 [F1 [F2 Hc]]]]]; cbn.
    - exists [], []. split; [constructor|]. split; [constructor|]. apply ceq_refl.
    - destruct (P x); cbn.
      + exists e1, (e :: e2). split; [exact F1|]. split; [constructor; assumption|].
        eapply ceq_trans; [apply ceq_middle|]. apply ceq_cons. exact Hc.
      + exists (e :: e1), e2. split; [constructor; assumption|]. split; [exact F2|]. cbn. apply ceq_cons. exact Hc.
  Qed.

  Lemma hum_ok h es :
    Forall2 EntOk h es ->
    exists es_h es_m,
      Forall2 EntOk (fst (heap_update_matches C h)) es_h /\ Forall2 EntOk (snd (heap_update_matches C h)) es_m /\
      UM (fst (heap_update_matches C h)) (snd (heap_update_matches C h)) /\ ceq (es_h ++ es_m) es.
  Proof.
    intro F. rewrite hum_spec. destruct (heap_least C h) as [l|] eqn:El.
    - destruct (split_filter (is_l l) h es F) as [e1 [e2 [F1 [F2 Hc]]]].
      exists e1, e2. cbn [fst snd]. split; [exact F1|]. split; [exact F2|]. split; [|exact Hc].
      unfold UM. pose proof (heap_least_in h l El) as Hex. pose proof (heap_least_le h l El) as Hle.
      assert (Forall (fun e : hentry => snd e = l) (filter (is_l l) h)) as Hall.
      { apply Forall_forall. intros e He. apply filter_In in He as [_ He]. unfold is_l in He. apply Z.eqb_eq. exact He. }
      assert (filter (is_l l) h <> []) as Hne.
      { apply Exists_exists in Hex as [e [He1 He2]]. intro E.
        assert (In e (filter (is_l l) h)) as Hin by (apply filter_In; split; [exact He1|unfold is_l; apply Z.eqb_eq; exact He2]).
        rewrite E in Hin. destruct Hin. }
      destruct (filter (is_l l) h) as [|[k0 m0] mrest]; [congruence|].
      + assert (m0 = l) as -> by (inversion Hall; subst; reflexivity).
        split; [exact Hall|]. apply Forall_forall. intros e He. apply filter_In in He as [He1 He2].
        rewrite Forall_forall in Hle. pose proof (Hle e He1). unfold is_l in He2. apply negb_true_iff, Z.eqb_neq in He2. lia.
    - apply heap_least_none in El. subst. inversion F; subst. exists [], []. cbn.
      split; [constructor|]. split; [constructor|]. split; [reflexivity|apply ceq_refl].
  Qed.

  (* ---------- child calls ---------- *)
  Lemma push_next_ok (k : C) pk h es :
    R k pk -> Forall2 EntOk h es ->
    exists h' es', Forall2 EntOk h' es' /\ ceq es' (pk :: es) /\
      Ev (fun g => match cnext g k with
                   | None => None
                   | Some (r, k') => Some (match r with Some c => (k', c) :: h | None => h end)
                   end) h'.
  Proof.
    intros Hk F. destruct (Hnext _ _ Hk) as [k' [Hk' Hev]]. pose proof (Hasc _ _ Hk) as A.
    destruct pk as [|c pk']; cbn in Hk', Hev.
    - exists h, es. split; [exact F|]. split; [apply ceq_sym, ceq_nil_cons|].
      destruct Hev as [N HN]. exists N. intros g Hg. rewrite (HN g Hg). reflexivity.
    - exists ((k', c) :: h), ((c :: pk') :: es). split; [constructor; [exists pk'; auto|exact F]|]. split; [apply ceq_refl|].
      destruct Hev as [N HN]. exists N. intros g Hg. rewrite (HN g Hg). reflexivity.
  Qed.

  Lemma init_kids_ok : forall kids ps h es,
    Forall2 R kids ps -> Forall2 EntOk h es ->
    exists h' es', Forall2 EntOk h' es' /\ ceq es' (ps ++ es) /\
                   Ev (fun g => dheap_init_kids C (cnext g) kids h) h'.
  Proof.
    induction kids as [|k kids IH]; intros ps h es Fk F; inversion Fk; subst.
    - exists h, es. split; [exact F|]. split; [apply ceq_refl|apply Ev_const].
    - destruct (push_next_ok k _ h es H1 F) as [h1 [es1 [F1 [Hc1 Hev1]]]].
      destruct (IH _ h1 es1 H3 F1) as [h' [es' [F' [Hc' Hev']]]].
      exists h', es'. split; [exact F'|]. split.
      + eapply ceq_trans; [exact Hc'|]. eapply ceq_trans; [apply ceq_app; [apply ceq_refl|exact Hc1]|].
        cbn. eapply ceq_trans; [apply ceq_middle|]. apply ceq_refl.
      + eapply Ev_ext; [|exact (Ev_bind _ (fun g h1 => dheap_init_kids C (cnext g) kids h1) _ _ Hev1 Hev')].
        intro g. cbn. destruct (cnext g k) as [[r k']|]; reflexivity.
  Qed.

  Lemma next_matching_ok : forall m es_m h es,
    Forall2 EntOk m es_m -> Forall2 EntOk h es ->
    exists h' es', Forall2 EntOk h' es' /\ ceq es' (map (@tl Z) es_m ++ es) /\
                   Ev (fun g => dheap_next_matching C (cnext g) m h) h'.
  Proof.
    induction m as [|[k c] m IH]; intros es_m h es Fm F; inversion Fm; subst.
    - exists h, es. split; [exact F|]. split; [apply ceq_refl|apply Ev_const].
    - destruct H1 as [pk [Hk [A ->]]]. cbn in Hk.
      destruct (push_next_ok k pk h es Hk F) as [h1 [es1 [F1 [Hc1 Hev1]]]].
      destruct (IH _ h1 es1 H3 F1) as [h' [es' [F' [Hc' Hev']]]].
      exists h', es'. split; [exact F'|]. split.
      + eapply ceq_trans; [exact Hc'|]. eapply ceq_trans; [apply ceq_app; [apply ceq_refl|exact Hc1]|].
        cbn. eapply ceq_trans; [apply ceq_middle|]. apply ceq_refl.
      + eapply Ev_ext; [|exact (Ev_bind _ (fun g h1 => dheap_next_matching C (cnext g) m h1) _ _ Hev1 Hev')].
        intro g. cbn. destruct (cnext g k) as [[r k']|]; reflexivity.
  Qed.

  Lemma dheap_loop_S cn f min h m :
    dheap_loop C cn (S f) min h m =
    match m with
    | [] => Some (None, h, [])
    | (_, m0) :: _ =>
        match dheap_next_matching C cn m h with
        | None => None
        | Some h1 =>
            if min <=? Z.of_nat (length m)
            then Some (Some m0, fst (heap_update_matches C h1), snd (heap_update_matches C h1))
            else dheap_loop C cn f min (fst (heap_update_matches C h1)) (snd (heap_update_matches C h1))
        end
    end.
  Proof.
    destruct m as [|[k0 m0] mr]; [reflexivity|].
    change (dheap_loop C cn (S f) min h ((k0, m0) :: mr)) with
      (match dheap_next_matching C cn (@cons hentry (k0, m0) mr) h with
       | None => None
       | Some h1 => let '(h2, m') := heap_update_matches C h1 in
                    if min <=? Z.of_nat (length (@cons hentry (k0, m0) mr)) then Some (Some m0, h2, m')
                    else dheap_loop C cn f min h2 m'
       end).
    destruct (dheap_next_matching C cn (@cons hentry (k0, m0) mr) h) as [h1|]; [|reflexivity].
    destruct (heap_update_matches C h1) as [h2 m']. reflexivity.
  Qed.

  Lemma dheap_loop_found cn f min h (m : list hentry) k0 m0 mr :
    m = (k0, m0) :: mr -> (min <=? Z.of_nat (length m)) = true ->
    dheap_loop C cn (S f) min h m =
    match dheap_next_matching C cn m h with
    | None => None
    | Some h1 => Some (Some m0, fst (heap_update_matches C h1), snd (heap_update_matches C h1))
    end.
  Proof. intros E H. rewrite dheap_loop_S. rewrite H. subst m. reflexivity. Qed.

  Lemma dheap_loop_skip cn f min h (m : list hentry) k0 m0 mr :
    m = (k0, m0) :: mr -> (min <=? Z.of_nat (length m)) = false ->
    dheap_loop C cn (S f) min h m =
    match dheap_next_matching C cn m h with
    | None => None
    | Some h1 => dheap_loop C cn f min (fst (heap_update_matches C h1)) (snd (heap_update_matches C h1))
    end.
  Proof. intros E H. rewrite dheap_loop_S. rewrite H. subst m. reflexivity. Qed.

  Lemma ceq_map_dw t a b : Forall ascending a -> Forall ascending b -> ceq a b ->
    ceq (map (dropwhile_lt t) a) (map (dropwhile_lt t) b).
  Proof. intros A B H x. rewrite !count_in_map_dw by assumption. rewrite (H x). reflexivity. Qed.

  Lemma map_dw_noop t (h : list hentry) es :
    Forall2 EntOk h es -> Forall (fun e => t <= snd e) h -> map (dropwhile_lt t) es = es.
  Proof.
    induction 1 as [|x e h es Hx F IH]; intro Hle; cbn; [reflexivity|]. inversion Hle; subst.
    destruct Hx as [pk [_ [A ->]]]. rewrite dropwhile_lt_head_ge by assumption. f_equal. auto.
  Qed.

  Lemma map_dw_succ m0 (m : list hentry) es :
    Forall2 EntOk m es -> Forall (fun e => snd e = m0) m -> map (dropwhile_lt (m0 + 1)) es = map (@tl Z) es.
  Proof.
    induction 1 as [|x e h es Hx F IH]; intro Hall; cbn; [reflexivity|]. inversion Hall; subst.
    destruct Hx as [pk [_ [A ->]]]. rewrite dropwhile_succ_head by exact A. cbn. f_equal. auto.
  Qed.

  Lemma count_zero_above m0 (h : list hentry) es :
    Forall2 EntOk h es -> Forall (fun e => m0 < snd e) h -> count_in m0 es = 0.
  Proof.
    unfold count_in. induction 1 as [|x e h es Hx F IH]; intro Hlt; cbn; [reflexivity|]. inversion Hlt; subst.
    destruct Hx as [pk [_ [A ->]]].
    rewrite (memb_head_ge_sym m0 (snd x) pk A ltac:(lia)). rewrite (proj2 (Z.eqb_neq (snd x) m0)) by lia. auto.
  Qed.

  Lemma count_all_eq m0 (m : list hentry) es :
    Forall2 EntOk m es -> Forall (fun e => snd e = m0) m -> count_in m0 es = Z.of_nat (length m).
  Proof.
    unfold count_in. induction 1 as [|x e h es Hx F IH]; intro Hall; cbn [filter length]; [reflexivity|]. inversion Hall; subst.
    destruct Hx as [pk [_ [A ->]]].
    rewrite (memb_head_ge_sym (snd x) (snd x) pk A ltac:(lia)). rewrite Z.eqb_refl. cbn [length]. rewrite !Nat2Z.inj_succ. rewrite IH by assumption. reflexivity.
  Qed.

  Lemma ents_lower m0 (h : list hentry) es :
    Forall2 EntOk h es -> Forall (fun e => m0 <= snd e) h -> Forall (fun e => forall x, In x e -> m0 <= x) es.
  Proof.
    induction 1 as [|x e h es Hx F IH]; intro Hle; constructor; inversion Hle; subst; auto.
    destruct Hx as [pk [_ [A ->]]]. intros y [<-|Hy]; [assumption|]. pose proof (asc_from_In _ _ _ A Hy). lia.
  Qed.

  Lemma dheap_loop_ok min : forall n h m es_h es_m,
    (length (at_least 0 (es_h ++ es_m)) <= n)%nat ->
    Forall2 EntOk h es_h -> Forall2 EntOk m es_m -> UM h m ->
    exists h' m' es_h' es_m',
      Forall2 EntOk h' es_h' /\ Forall2 EntOk m' es_m' /\ UM h' m' /\
      at_least min (es_h' ++ es_m') = tl (at_least min (es_h ++ es_m)) /\
      Ev2 (fun g f => dheap_loop C (cnext g) f min h m) (hd_res (at_least min (es_h ++ es_m)), h', m').
  Proof.
    induction n as [|n IH]; intros h m es_h es_m Hn Fh Fm Hum;
      (destruct m as [|[k0 m0] mr];
       [ cbn in Hum; subst h; inversion Fh; subst; inversion Fm; subst;
         exists [], [], [], []; cbn [app]; split; [constructor|]; split; [constructor|]; split; [reflexivity|]; split; [reflexivity|];
         eapply Ev2_step0; [|apply Ev2_const]; intros g f; reflexivity | ]).
    all: destruct Hum as [Hall Hgt];
      set (m := (k0, m0) :: mr) in *; set (es := es_h ++ es_m) in *;
      pose proof (Forall2_EntOk_asc _ _ Fh) as Ah; pose proof (Forall2_EntOk_asc _ _ Fm) as Am;
      (assert (Forall ascending es) as Aes by (apply Forall_app; split; assumption));
      (assert (Forall (fun e => forall x, In x e -> m0 <= x) es) as Hlow
         by (apply Forall_app; split;
             [apply (ents_lower m0 h es_h Fh); eapply Forall_impl; [|exact Hgt]; cbn; intros; lia
             |apply (ents_lower m0 m es_m Fm); eapply Forall_impl; [|exact Hall]; cbn; intros; lia]));
      (assert (count_in m0 es = Z.of_nat (length m)) as Hcnt
         by (unfold es; rewrite count_in_app, (count_zero_above m0 h es_h Fh Hgt), (count_all_eq m0 m es_m Fm Hall); reflexivity));
      (assert (1 <= count_in m0 es) as Hc1 by (rewrite Hcnt; unfold m; cbn [length]; lia));
      (assert (forall mn x, In x (at_least mn es) -> m0 <= x) as Hmin
         by (intros mn x Hx; apply at_least_In in Hx as [Hx _]; apply Exists_exists in Hx as [e [He Hin]];
             rewrite Forall_forall in Hlow; exact (Hlow e He x Hin)));
      (assert (In m0 (at_least 0 es)) as Hin0
         by (apply at_least_In; split; [apply count_in_pos; exact Hc1|lia]));
      destruct (ascending_hd_char _ m0 (at_least_ascending 0 es) Hin0 (Hmin 0)) as [u' Hu].
    - rewrite Hu in Hn. cbn in Hn. lia.
    - destruct (next_matching_ok m es_m h es_h Fm Fh) as [h1 [es1 [F1 [Hc1' Hev1]]]].
      destruct (hum_ok h1 es1 F1) as [es_h2 [es_m2 [Fh2 [Fm2 [Hum2 Hc2]]]]].
      set (h2 := fst (heap_update_matches C h1)) in *. set (m2 := snd (heap_update_matches C h1)) in *.
      assert (ceq (es_h2 ++ es_m2) (map (dropwhile_lt (m0 + 1)) es)) as Hceq.
      { eapply ceq_trans; [exact Hc2|]. eapply ceq_trans; [exact Hc1'|].
        unfold es. rewrite map_app.
        rewrite (map_dw_noop (m0 + 1) h es_h Fh) by (eapply Forall_impl; [|exact Hgt]; cbn; intros; lia).
        rewrite (map_dw_succ m0 m es_m Fm Hall). apply ceq_app_comm. }
      assert (forall mn, at_least mn (es_h2 ++ es_m2) = dropwhile_lt (m0 + 1) (at_least mn es)) as Hdw.
      { intro mn. rewrite (at_least_ceq mn _ _ Hceq). apply at_least_map_dw. exact Aes. }
      assert (length (at_least 0 (es_h2 ++ es_m2)) <= n)%nat as Hn2.
      { rewrite Hdw, Hu. rewrite dropwhile_succ_head.
        - rewrite Hu in Hn. cbn in Hn. lia.
        - pose proof (at_least_ascending 0 es) as A. rewrite Hu in A. exact A. }
      destruct (min <=? Z.of_nat (length m)) eqn:Efound.
      + (* found *)
        pose proof Efound as Eb. apply Z.leb_le in Efound. rewrite <- Hcnt in Efound.
        assert (In m0 (at_least min es)) as Hin by (apply at_least_In; split; [apply count_in_pos; exact Hc1|lia]).
        destruct (ascending_hd_char _ m0 (at_least_ascending min es) Hin (Hmin min)) as [p' Hp].
        exists h2, m2, es_h2, es_m2. split; [exact Fh2|]. split; [exact Fm2|]. split; [exact Hum2|].
        rewrite Hp. cbn [hd_res tl]. split.
        * rewrite Hdw, Hp. apply dropwhile_succ_head. pose proof (at_least_ascending min es) as A. rewrite Hp in A. exact A.
        * eapply Ev2_step with (Ch := fun g => dheap_next_matching C (cnext g) m h)
            (G := fun g f h1 => Some (Some m0, fst (heap_update_matches C h1), snd (heap_update_matches C h1)));
            [|exact Hev1|apply Ev2_const].
          intros g f. exact (dheap_loop_found (cnext g) f min h m k0 m0 mr eq_refl Eb).
      + (* skipped *)
        pose proof Efound as Eb. apply Z.leb_gt in Efound. rewrite <- Hcnt in Efound.
        assert (~ In m0 (at_least min es)) as Hnin by (intro Hin; apply at_least_In in Hin; lia).
        assert (at_least min (es_h2 ++ es_m2) = at_least min es) as Hsame.
        { rewrite Hdw. apply dropwhile_lt_noop. apply Forall_forall. intros x Hx.
          pose proof (Hmin min x Hx). assert (x <> m0) by (intro; subst; tauto). lia. }
        destruct (IH h2 m2 es_h2 es_m2 Hn2 Fh2 Fm2 Hum2) as [h' [m' [es_h' [es_m' [Fh' [Fm' [Hum' [Hint Hev]]]]]]]].
        rewrite Hsame in Hint, Hev.
        exists h', m', es_h', es_m'. repeat (split; [assumption|]).
        eapply Ev2_step with (Ch := fun g => dheap_next_matching C (cnext g) m h)
          (G := fun g f h1 => dheap_loop C (cnext g) f min (fst (heap_update_matches C h1)) (snd (heap_update_matches C h1)));
          [|exact Hev1|exact Hev].
        intros g f. exact (dheap_loop_skip (cnext g) f min h m k0 m0 mr eq_refl Eb).
  Qed.

  (* removing the popped entry from the abstract heap *)
  Lemma heap_remove_F2 l : forall (h : list hentry) es x h',
    Forall2 EntOk h es -> heap_remove C l h = Some (x, h') ->
    exists e es', EntOk x e /\ Forall2 EntOk h' es' /\ ceq (e :: es') es /\ length h = S (length h') /\ snd x = l.
  Proof.
    induction h as [|[k c] h IH]; intros es x h' F Hr; cbn in Hr; [discriminate|].
    inversion F as [|? e0 ? es0 Hx F0]; subst.
    destruct (c =? l) eqn:E.
    - inversion Hr; subst. exists e0, es0. split; [exact Hx|]. split; [exact F0|]. split; [apply ceq_refl|]. split; [reflexivity|cbn; apply Z.eqb_eq; exact E].
    - destruct (heap_remove C l h) as [[x0 h0]|] eqn:Er; [|discriminate]. inversion Hr; subst.
      destruct (IH es0 x h0 F0 eq_refl) as [e [es' [Hxe [F' [Hc [Hl Hs]]]]]].
      exists e, (e0 :: es'). split; [exact Hxe|]. split; [constructor; assumption|]. split; [|split; [cbn; lia|exact Hs]].
      eapply ceq_trans; [apply ceq_sym; apply (ceq_middle e [e0] es')|]. cbn. apply ceq_cons. exact Hc.
  Qed.

  Lemma dheap_adv_loop_S ca f t h tmp :
    dheap_adv_loop C ca (S f) t h tmp =
    match heap_pop C h with
    | None => Some (h, tmp)
    | Some ((k, c), h') =>
        if c <? t then
          match ca k t with
          | None => None
          | Some (r, k') => dheap_adv_loop C ca f t h' (match r with Some c' => tmp ++ [(k', c')] | None => tmp end)
          end
        else Some (h, tmp)
    end.
  Proof. reflexivity. Qed.

  Lemma Forall2_app' {A B} (P : A -> B -> Prop) a a' b b' : Forall2 P a a' -> Forall2 P b b' -> Forall2 P (a ++ b) (a' ++ b').
  Proof. induction 1; cbn; auto. Qed.

  Lemma Forall2_rev' {A B} (P : A -> B -> Prop) a a' : Forall2 P a a' -> Forall2 P (rev a) (rev a').
  Proof. induction 1; cbn; [constructor|]. apply Forall2_app'; [assumption|constructor; [assumption|constructor]]. Qed.

  Lemma dheap_adv_loop_ok t : forall n h es tmp es_t,
    (length h <= n)%nat -> Forall2 EntOk h es -> Forall2 EntOk tmp es_t ->
    exists h' tmp' es' es_t',
      Forall2 EntOk h' es' /\ Forall2 EntOk tmp' es_t' /\
      ceq (es' ++ es_t') (map (dropwhile_lt t) es ++ es_t) /\
      Ev2 (fun g f => dheap_adv_loop C (cadv g) f t h tmp) (h', tmp').
  Proof.
    induction n as [|n IH]; intros h es tmp es_t Hn Fh Ft.
    - destruct h; [|cbn in Hn; lia]. inversion Fh; subst.
      exists [], tmp, [], es_t. split; [constructor|]. split; [exact Ft|]. split; [apply ceq_refl|].
      eapply Ev2_step0; [|apply Ev2_const]. intros g f. reflexivity.
    - unfold heap_pop in *. destruct (heap_least C h) as [l|] eqn:El.
      + pose proof (heap_least_in h l El) as Hex. pose proof (heap_least_le h l El) as Hle.
        destruct (heap_remove_spec l h Hex) as [[k c] [h1 [Hr _]]].
        destruct (heap_remove_F2 l h es (k, c) h1 Fh Hr) as [e [es1 [Hxe [F1 [Hc [Hl Hs]]]]]]. cbn in Hs. subst c.
        destruct (l <? t) eqn:E.
        * apply Z.ltb_lt in E. destruct Hxe as [pk [Hk [A ->]]]. cbn in Hk, A.
          destruct (Hadv _ _ t Hk) as [k' [Hk' Hevk]]. unfold spec_advance in *.
          pose proof (dropwhile_lt_ascending t pk (asc_from_ascending _ _ A)) as Adw.
          set (tmp1 := match fst (uncons (dropwhile_lt t pk)) with Some c' => tmp ++ [(k', c')] | None => tmp end).
          assert (exists es_t1, Forall2 EntOk tmp1 es_t1 /\ ceq es_t1 (dropwhile_lt t pk :: es_t)) as [es_t1 [Ft1 Hct1]].
          { unfold tmp1. destruct (dropwhile_lt t pk) as [|c' pk'] eqn:Ed; cbn [uncons fst snd] in *.
            - exists es_t. split; [exact Ft|apply ceq_sym, ceq_nil_cons].
            - exists (es_t ++ [c' :: pk']). split.
              + apply Forall2_app'; [exact Ft|constructor; [exists pk'; auto|constructor]].
              + eapply ceq_trans; [apply ceq_app_comm|]. apply ceq_refl. }
          destruct (IH h1 es1 tmp1 es_t1 ltac:(lia) F1 Ft1) as [h' [tmp' [es' [es_t' [Fh' [Ft' [Hc' Hev']]]]]]].
          exists h', tmp', es', es_t'. split; [exact Fh'|]. split; [exact Ft'|]. split.
          -- eapply ceq_trans; [exact Hc'|].
             pose proof (Forall2_EntOk_asc _ _ F1) as A1. pose proof (Forall2_EntOk_asc _ _ Fh) as Ah.
             assert (ceq (map (dropwhile_lt t) ((l :: pk) :: es1)) (map (dropwhile_lt t) es)) as Hm.
             { apply ceq_map_dw; [constructor; [exact A|exact A1]|exact Ah|exact Hc]. }
             eapply ceq_trans; [|apply ceq_app; [exact Hm|apply ceq_refl]].
             cbn [map]. assert (dropwhile_lt t (l :: pk) = dropwhile_lt t pk) as -> by (cbn; rewrite (proj2 (Z.ltb_lt l t) E); reflexivity).
             eapply ceq_trans; [apply ceq_app; [apply ceq_refl|exact Hct1]|].
             eapply ceq_trans; [apply ceq_middle|]. apply ceq_refl.
          -- eapply Ev2_step with (Ch := fun g => cadv g k t)
               (G := fun g f x => let '(r, k') := x in
                       dheap_adv_loop C (cadv g) f t h1 (match r with Some c' => tmp ++ [(k', c')] | None => tmp end));
               [|exact Hevk|exact Hev'].
             intros g f. rewrite dheap_adv_loop_S. unfold heap_pop. rewrite El, Hr. rewrite (proj2 (Z.ltb_lt l t) E).
             destruct (cadv g k t) as [[r k'']|]; reflexivity.
        * (* the least entry is at or after the target *)
          apply Z.ltb_ge in E. exists h, tmp, es, es_t. split; [exact Fh|]. split; [exact Ft|]. split.
          -- rewrite (map_dw_noop t h es Fh). apply ceq_refl. eapply Forall_impl; [|exact Hle]. cbn. intros; lia.
          -- eapply Ev2_step0; [|apply Ev2_const]. intros g f. rewrite dheap_adv_loop_S. unfold heap_pop. rewrite El, Hr.
             rewrite (proj2 (Z.ltb_ge l t) E). reflexivity.
      + apply heap_least_none in El. subst h. inversion Fh; subst.
        exists [], tmp, [], es_t. split; [constructor|]. split; [exact Ft|]. split; [apply ceq_refl|].
        eapply Ev2_step0; [|apply Ev2_const]. intros g f. reflexivity.
  Qed.

  (* ---------- the abstraction relation ---------- *)
  Definition RDisjH (st : dheap_st C) (p : list Z) : Prop :=
    exists es, p = at_least (dh_min st) es /\
      if dh_init st then
        exists es_h es_m, ceq es (es_h ++ es_m) /\ Forall2 EntOk (dh_heap st) es_h /\
                          Forall2 EntOk (dh_match st) es_m /\ UM (dh_heap st) (dh_match st)
      else Forall2 R (dh_searchers st) es.

  Lemma RDisjH_asc : asc_ok _ RDisjH.
  Proof. intros st p [es [-> _]]. apply at_least_ascending. Qed.

  Lemma dheap_initialise_ok st p :
    RDisjH st p ->
    exists h m es_h es_m, p = at_least (dh_min st) (es_h ++ es_m) /\
      Forall2 EntOk h es_h /\ Forall2 EntOk m es_m /\ UM h m /\
      Ev (fun g => dheap_initialise C (cnext g) st) (h, m).
  Proof.
    intros [es [-> H]]. unfold dheap_initialise. destruct (dh_init st).
    - destruct H as [es_h [es_m [Hc [Fh [Fm Hum]]]]].
      exists (dh_heap st), (dh_match st), es_h, es_m. split; [apply at_least_ceq; exact Hc|]. repeat (split; [assumption|]). apply Ev_const.
    - destruct (init_kids_ok _ es [] [] H (Forall2_nil _)) as [h1 [es1 [F1 [Hc1 Hev1]]]].
      destruct (hum_ok h1 es1 F1) as [es_h [es_m [Fh [Fm [Hum Hc2]]]]].
      exists (fst (heap_update_matches C h1)), (snd (heap_update_matches C h1)), es_h, es_m.
      split; [apply at_least_ceq; apply ceq_sym; eapply ceq_trans; [exact Hc2|]; rewrite app_nil_r in Hc1; exact Hc1|].
      repeat (split; [assumption|]).
      destruct Hev1 as [N HN]. exists N. intros g Hg. rewrite (HN g Hg). destruct (heap_update_matches C h1); reflexivity.
  Qed.

  Theorem disj_heap_cursor :
    cursor_ok (dheap_st C) (fun f => dheap_next C (cnext f) f)
              (fun f => dheap_adv C (cnext f) (cadv f) f) RDisjH.
  Proof.
    split; [exact RDisjH_asc|]. split.
    - intros st p H. destruct (dheap_initialise_ok st p H) as [h [m [es_h [es_m [-> [Fh [Fm [Hum Hev0]]]]]]]].
      destruct (dheap_loop_ok (dh_min st) _ h m es_h es_m (le_n _) Fh Fm Hum)
        as [h' [m' [es_h' [es_m' [Fh' [Fm' [Hum' [Hint Hev]]]]]]]].
      exists {| dh_searchers := dh_searchers st; dh_min := dh_min st; dh_heap := h'; dh_match := m'; dh_init := true |}.
      unfold spec_next. rewrite uncons_hd_tl. cbn [fst snd]. split.
      + exists (es_h' ++ es_m'). cbn. split; [symmetry; exact Hint|]. exists es_h', es_m'. repeat (split; [try apply ceq_refl; assumption|]). exact Hum'.
      + apply Ev2_diag with (F := fun g f => dheap_next C (cnext g) f st). unfold dheap_next.
        eapply Ev2_bind with (F := fun g => dheap_initialise C (cnext g) st)
          (G := fun g f hm => let '(h, m) := hm in
                  match dheap_loop C (cnext g) f (dh_min st) h m with
                  | Some (r, h', m') => Some (r, {| dh_searchers := dh_searchers st; dh_min := dh_min st; dh_heap := h'; dh_match := m'; dh_init := true |})
                  | None => None end); [exact Hev0|].
        apply (Ev2_map _ (fun x => let '(r, h', m') := x in (r, {| dh_searchers := dh_searchers st; dh_min := dh_min st; dh_heap := h'; dh_match := m'; dh_init := true |}))) in Hev.
        eapply Ev2_ext; [|exact Hev]. intros g f. cbn.
        destruct (dheap_loop C (cnext g) f (dh_min st) h m) as [[[r k'] m'']|]; reflexivity.
    - intros st p t H. destruct (dheap_initialise_ok st p H) as [h [m [es_h [es_m [-> [Fh [Fm [Hum Hev0]]]]]]]].
      pose proof (Forall2_EntOk_asc _ _ Fh) as Ah. pose proof (Forall2_EntOk_asc _ _ Fm) as Am.
      assert (Forall2 EntOk (rev m ++ h) (rev es_m ++ es_h)) as F0 by (apply Forall2_app'; [apply Forall2_rev'; exact Fm|exact Fh]).
      destruct (dheap_adv_loop_ok t (length (rev m ++ h)) (rev m ++ h) _ [] [] (le_n _) F0 (Forall2_nil _))
        as [h1 [tmp [es1 [es_t [F1 [Ft [Hc1 Hev1]]]]]]].
      assert (Forall2 EntOk (rev tmp ++ h1) (rev es_t ++ es1)) as F2 by (apply Forall2_app'; [apply Forall2_rev'; exact Ft|exact F1]).
      destruct (hum_ok _ _ F2) as [es_h2 [es_m2 [Fh2 [Fm2 [Hum2 Hc2]]]]].
      set (h2 := fst (heap_update_matches C (rev tmp ++ h1))) in *. set (m2 := snd (heap_update_matches C (rev tmp ++ h1))) in *.
      assert (ceq (es_h2 ++ es_m2) (map (dropwhile_lt t) (es_h ++ es_m))) as Hceq.
      { eapply ceq_trans; [exact Hc2|]. eapply ceq_trans; [apply ceq_app; [apply ceq_rev|apply ceq_refl]|].
        eapply ceq_trans; [apply ceq_app_comm|]. eapply ceq_trans; [exact Hc1|]. rewrite app_nil_r.
        apply ceq_map_dw.
        - apply Forall_app. split; [apply Forall_rev; exact Am|exact Ah].
        - apply Forall_app. split; assumption.
        - eapply ceq_trans; [apply ceq_app; [apply ceq_rev|apply ceq_refl]|]. apply ceq_app_comm. }
      assert (at_least (dh_min st) (es_h2 ++ es_m2) = dropwhile_lt t (at_least (dh_min st) (es_h ++ es_m))) as Hdw.
      { rewrite (at_least_ceq _ _ _ Hceq). apply at_least_map_dw. apply Forall_app. split; assumption. }
      destruct (dheap_loop_ok (dh_min st) _ h2 m2 es_h2 es_m2 (le_n _) Fh2 Fm2 Hum2)
        as [h' [m' [es_h' [es_m' [Fh' [Fm' [Hum' [Hint Hev]]]]]]]].
      rewrite Hdw in Hint, Hev.
      exists {| dh_searchers := dh_searchers st; dh_min := dh_min st; dh_heap := h'; dh_match := m'; dh_init := true |}.
      unfold spec_advance. rewrite uncons_hd_tl. cbn [fst snd]. split.
      + exists (es_h' ++ es_m'). cbn. split; [symmetry; exact Hint|]. exists es_h', es_m'. repeat (split; [try apply ceq_refl; assumption|]). exact Hum'.
      + apply Ev2_diag with (F := fun g f => dheap_adv C (cnext g) (cadv g) f st t). unfold dheap_adv.
        eapply Ev2_bind with (F := fun g => dheap_initialise C (cnext g) st)
          (G := fun g f hm => let '(h, m) := hm in
                  match dheap_adv_loop C (cadv g) f t (rev m ++ h) [] with
                  | None => None
                  | Some (h1, tmp) =>
                      let '(h2, m2) := heap_update_matches C (rev tmp ++ h1) in
                      match dheap_loop C (cnext g) f (dh_min st) h2 m2 with
                      | Some (r, h', m') => Some (r, {| dh_searchers := dh_searchers st; dh_min := dh_min st; dh_heap := h'; dh_match := m'; dh_init := true |})
                      | None => None end end); [exact Hev0|].
        cbn beta iota.
        eapply Ev2_ext; [|eapply Ev2_bind2 with (F := fun g f => dheap_adv_loop C (cadv g) f t (rev m ++ h) [])
          (G := fun g f x => let '(h1, tmp) := x in
                  match dheap_loop C (cnext g) f (dh_min st) (fst (heap_update_matches C (rev tmp ++ h1))) (snd (heap_update_matches C (rev tmp ++ h1))) with
                  | Some (r, h', m') => Some (r, {| dh_searchers := dh_searchers st; dh_min := dh_min st; dh_heap := h'; dh_match := m'; dh_init := true |})
                  | None => None end); [exact Hev1|]].
        * intros g f. cbn. destruct (dheap_adv_loop C (cadv g) f t (rev m ++ h) []) as [[h1' tmp']|]; [|reflexivity].
          destruct (heap_update_matches C (rev tmp' ++ h1')); reflexivity.
        * cbn beta iota. fold h2 m2.
          apply (Ev2_map _ (fun x => let '(r, h', m') := x in (r, {| dh_searchers := dh_searchers st; dh_min := dh_min st; dh_heap := h'; dh_match := m'; dh_init := true |}))) in Hev.
          eapply Ev2_ext; [|exact Hev]. intros g f. cbn.
          destruct (dheap_loop C (cnext g) f (dh_min st) h2 m2) as [[[r k'] m'']|]; reflexivity.
  Qed.
End Heap.
