(* Cursor engine — DisjunctionHeapSearcher is a cursor over "ids matched by at least
   max 1 min children" (same set expression as the slice variant). *)
From Coq Require Import ZArith List Bool Lia.
From Verif Require Import Cursor.Cursor Cursor.Machines Cursor.MachProofsBase Cursor.MachProofsKids
  Cursor.MachProofsConj Cursor.MachProofsDisj.
Import ListNotations.
Local Open Scope Z_scope.

(* ---------- at_least only depends on how many lists contain each id ---------- *)
Definition ceq (es es' : list (list Z)) : Prop := forall x, count_in x es = count_in x es'.

Lemma count_in_app x a b : count_in x (a ++ b) = count_in x a + count_in x b.
Proof. unfold count_in. rewrite filter_app, app_length. lia. Qed.

Lemma count_in_nonneg x es : 0 <= count_in x es.
Proof. unfold count_in. lia. Qed.

Lemma count_in_pos x es : 1 <= count_in x es <-> Exists (In x) es.
Proof.
  unfold count_in. induction es as [|e es IH]; cbn.
  - split; [lia|intro H; inversion H].
  - destruct (memb x e) eqn:E; cbn [length].
    + split; [intros _; left; apply memb_In; exact E|lia].
    + rewrite IH. split; [intro H; right; exact H|]. intro H. inversion H; subst; [|assumption].
      apply memb_In in H1. congruence.
Qed.

Lemma at_least_ceq min es es' : ceq es es' -> at_least min es = at_least min es'.
Proof.
  intro H. apply ascending_ext; try apply at_least_ascending.
  intro x. rewrite !at_least_In, <- !count_in_pos, (H x). tauto.
Qed.

Lemma ceq_refl es : ceq es es. Proof. intro; reflexivity. Qed.
Lemma ceq_sym a b : ceq a b -> ceq b a. Proof. intros H x; symmetry; apply H. Qed.
Lemma ceq_trans a b c : ceq a b -> ceq b c -> ceq a c. Proof. intros H1 H2 x; rewrite H1; apply H2. Qed.
Lemma ceq_app_comm a b : ceq (a ++ b) (b ++ a). Proof. intro x. rewrite !count_in_app. lia. Qed.
Lemma ceq_app a a' b b' : ceq a a' -> ceq b b' -> ceq (a ++ b) (a' ++ b').
Proof. intros H1 H2 x. rewrite !count_in_app, H1, H2. reflexivity. Qed.
Lemma ceq_nil_cons es : ceq ([] :: es) es. Proof. intro x. reflexivity. Qed.
Lemma ceq_cons e a b : ceq a b -> ceq (e :: a) (e :: b).
Proof. intros H x. change (e :: a) with ([e] ++ a). change (e :: b) with ([e] ++ b). rewrite !count_in_app, H. reflexivity. Qed.
Lemma ceq_rev a : ceq (rev a) a.
Proof.
  intro x. induction a as [|e a IH]; [reflexivity|]. cbn [rev]. rewrite count_in_app, IH.
  change (e :: a) with ([e] ++ a). rewrite count_in_app. lia.
Qed.
Lemma ceq_middle e a b : ceq (a ++ e :: b) (e :: a ++ b).
Proof.
  intro x. change (e :: a ++ b) with ([e] ++ a ++ b). change (e :: b) with ([e] ++ b). rewrite !count_in_app. lia.
Qed.

Lemma tot_app a b : tot (a ++ b) = (tot a + tot b)%nat.
Proof. induction a as [|e a IH]; cbn; [reflexivity|]. rewrite IH. lia. Qed.

Section Heap.
  Variable C : Type.
  Variable cnext : nat -> C -> step_res C.
  Variable cadv : nat -> C -> Z -> step_res C.
  Variable R : C -> list Z -> Prop.
  Hypothesis Hasc : asc_ok C R.
  Hypothesis Hnext : next_ok C cnext R.
  Hypothesis Hadv : adv_ok C cadv R.

  Notation hentry := (hentry C).
  Definition EntOk (x : hentry) (e : list Z) : Prop :=
    exists pk, R (fst x) pk /\ asc_from (snd x) pk /\ e = snd x :: pk.

  Lemma EntOk_asc x e : EntOk x e -> ascending e.
  Proof. intros [pk [_ [A ->]]]. exact A. Qed.

  Lemma Forall2_EntOk_asc h es : Forall2 EntOk h es -> Forall ascending es.
  Proof. induction 1; constructor; auto. eapply EntOk_asc; eauto. Qed.

  (* ---------- the abstract heap ---------- *)
  Lemma heap_least_none (h : list hentry) : heap_least C h = None -> h = [].
  Proof. destruct h as [|[k c] h]; cbn; [reflexivity|]. destruct (heap_least C h); discriminate. Qed.

  Lemma heap_least_le (h : list hentry) l : heap_least C h = Some l -> Forall (fun e => l <= snd e) h.
  Proof.
    revert l; induction h as [|[k c] h IH]; intros l H; cbn in H; [constructor|].
    destruct (heap_least C h) as [m|] eqn:E; inversion H; subst; constructor; cbn; try lia.
    - eapply Forall_impl; [|apply (IH m eq_refl)]. cbn. intros; lia.
    - apply heap_least_none in E. subst. constructor.
  Qed.

  Lemma heap_least_in (h : list hentry) l : heap_least C h = Some l -> Exists (fun e => snd e = l) h.
  Proof.
    revert l; induction h as [|[k c] h IH]; intros l H; cbn in H; [discriminate|].
    destruct (heap_least C h) as [m|] eqn:E; inversion H; subst.
    - destruct (Z.le_gt_cases c m) as [Hc|Hc].
      + left. cbn. lia.
      + right. rewrite Z.min_r by lia. apply IH. reflexivity.
    - left. reflexivity.
  Qed.

  Definition is_l (l : Z) (e : hentry) : bool := snd e =? l.

  Lemma heap_remove_spec l (h : list hentry) :
    Exists (fun e => snd e = l) h ->
    exists e h', heap_remove C l h = Some (e, h') /\ snd e = l /\
                 filter (is_l l) h = e :: filter (is_l l) h' /\
                 filter (fun e => negb (is_l l e)) h = filter (fun e => negb (is_l l e)) h' /\
                 length h = S (length h').
  Proof.
    induction h as [|[k c] h IH]; intro H; [inversion H|].
    cbn [heap_remove filter]. change (is_l l (k, c)) with (c =? l).
    destruct (c =? l) eqn:E.
    - apply Z.eqb_eq in E. subst c. exists (k, l), h. cbn [negb]. repeat split; auto.
    - assert (Exists (fun e : hentry => snd e = l) h) as H1.
      { apply Exists_cons in H as [H0|H0]; [apply Z.eqb_neq in E; cbn in H0; congruence|exact H0]. }
      destruct (IH H1) as [e [h' [Hr [He [Hf1 [Hf2 Hl]]]]]]. rewrite Hr.
      exists e, ((k, c) :: h'). cbn [filter negb]. change (is_l l (k, c)) with (c =? l). rewrite E. cbn [negb].
      rewrite Hf1, Hf2. cbn [length]. rewrite Hl. repeat split; auto.
  Qed.

  Lemma pop_equal_spec : forall n l (h acc : list hentry),
    (length h <= n)%nat -> Forall (fun e => l <= snd e) h ->
    pop_equal C n l h acc = (filter (fun e => negb (is_l l e)) h, acc ++ filter (is_l l) h).
  Proof.
    induction n as [|n IH]; intros l h acc Hn Hle.
    - destruct h; [|cbn in Hn; lia]. cbn. rewrite app_nil_r. reflexivity.
    - cbn [pop_equal]. unfold heap_pop. destruct (heap_least C h) as [l'|] eqn:El.
      + pose proof (heap_least_in h l' El) as Hex. pose proof (heap_least_le h l' El) as Hle'.
        destruct (heap_remove_spec l' h Hex) as [[k c] [h' [Hr [He [Hf1 [Hf2 Hl]]]]]]. rewrite Hr. cbn in He. subst c.
        destruct (l' =? l) eqn:E.
        * apply Z.eqb_eq in E. subst l'. rewrite IH.
          -- rewrite Hf1, Hf2, <- app_assoc. reflexivity.
          -- lia.
          -- (* h' is h without one entry *)
             clear -Hr Hle. revert h' Hr. induction h as [|[k1 c1] h IHh]; intros h' Hr; cbn in Hr; [discriminate|].
             inversion Hle; subst. destruct (c1 =? l); [inversion Hr; subst; assumption|].
             destruct (heap_remove C l h) as [[e0 h0]|]; [|discriminate]. inversion Hr; subst. constructor; auto.
        * (* the least id is greater than l: no entry with id l *)
          apply Z.eqb_neq in E.
          assert (l < l') as Hlt.
          { apply Exists_exists in Hex as [e [He1 He2]]. rewrite Forall_forall in Hle. pose proof (Hle e He1). lia. }
          assert (forall e, In e h -> is_l l e = false) as Hno.
          { intros e He. unfold is_l. apply Z.eqb_neq. rewrite Forall_forall in Hle'. pose proof (Hle' e He). lia. }
          f_equal.
          -- symmetry. clear -Hno. induction h as [|a h IH]; cbn; [reflexivity|].
             rewrite (Hno a (or_introl eq_refl)). cbn. f_equal. apply IH. intros; apply Hno; right; assumption.
          -- assert (filter (is_l l) h = []) as ->; [|rewrite app_nil_r; reflexivity].
             clear -Hno. induction h as [|a h IH]; cbn; [reflexivity|].
             rewrite (Hno a (or_introl eq_refl)). apply IH. intros; apply Hno; right; assumption.
      + apply heap_least_none in El. subst h. cbn. rewrite app_nil_r. reflexivity.
  Qed.

  Lemma hum_spec (h : list hentry) :
    heap_update_matches C h =
    match heap_least C h with
    | None => ([], [])
    | Some l => (filter (fun e => negb (is_l l e)) h, filter (is_l l) h)
    end.
  Proof.
    unfold heap_update_matches, heap_pop. destruct (heap_least C h) as [l|] eqn:El.
    - pose proof (heap_least_in h l El) as Hex. pose proof (heap_least_le h l El) as Hle.
      destruct (heap_remove_spec l h Hex) as [[k c] [h' [Hr [He [Hf1 [Hf2 Hl]]]]]]. rewrite Hr. cbn in He. subst c.
      rewrite pop_equal_spec; [|lia|].
      + rewrite Hf1, Hf2. reflexivity.
      + clear -Hr Hle. revert h' Hr. induction h as [|[k1 c1] h IHh]; intros h' Hr; cbn in Hr; [discriminate|].
        inversion Hle; subst. destruct (c1 =? l); [inversion Hr; subst; assumption|].
        destruct (heap_remove C l h) as [[e0 h0]|]; [|discriminate]. inversion Hr; subst. constructor; auto.
    - apply heap_least_none in El. subst. reflexivity.
  Qed.

  (* the state after updateMatches: matching = all entries of least id *)
  Definition UM (h m : list hentry) : Prop :=
    match m with
    | [] => h = []
    | (_, m0) :: _ => Forall (fun e => snd e = m0) m /\ Forall (fun e => m0 < snd e) h
    end.

  Lemma split_filter (P : hentry -> bool) h es :
    Forall2 EntOk h es ->
    exists e1 e2, Forall2 EntOk (filter (fun e => negb (P e)) h) e1 /\ Forall2 EntOk (filter P h) e2 /\
                  ceq (e1 ++ e2) es.
  Proof.
    induction 1 as [|x e h es Hx F [e1 [e2 [F1 [F2 Hc]]]]]; cbn.
    - exists [], []. split; [constructor|]. split; [constructor|]. apply ceq_refl.
    - destruct (P x); cbn.
      + exists e1, (e :: e2). split; [exact F1|]. split; [constructor; assumption|].
        eapply ceq_trans; [apply ceq_middle|]. apply ceq_cons. exact Hc.
      + exists (e :: e1), e2. split; [constructor; assumption|]. split; [exact F2|]. cbn. apply ceq_cons. exact Hc.
  Qed.

  Lemma hum_ok h es :
    Forall2 EntOk h es ->
    exists es_h es_m,
      Forall2 EntOk (fst (heap_update_matches C h)) es_h /\ Forall2 EntOk (snd (heap_update_matches C h)) es_m /\
      UM (fst (heap_update_matches C h)) (snd (heap_update_matches C h)) /\ ceq (es_h ++ es_m) es.
  Proof.
    intro F. rewrite hum_spec. destruct (heap_least C h) as [l|] eqn:El.
    - destruct (split_filter (is_l l) h es F) as [e1 [e2 [F1 [F2 Hc]]]].
      exists e1, e2. cbn [fst snd]. split; [exact F1|]. split; [exact F2|]. split; [|exact Hc].
      unfold UM. pose proof (heap_least_in h l El) as Hex. pose proof (heap_least_le h l El) as Hle.
      assert (Forall (fun e : hentry => snd e = l) (filter (is_l l) h)) as Hall.
      { apply Forall_forall. intros e He. apply filter_In in He as [_ He]. unfold is_l in He. apply Z.eqb_eq. exact He. }
      assert (filter (is_l l) h <> []) as Hne.
      { apply Exists_exists in Hex as [e [He1 He2]]. intro E.
        assert (In e (filter (is_l l) h)) as Hin by (apply filter_In; split; [exact He1|unfold is_l; apply Z.eqb_eq; exact He2]).
        rewrite E in Hin. destruct Hin. }
      destruct (filter (is_l l) h) as [|[k0 m0] mrest]; [congruence|].
      + assert (m0 = l) as -> by (inversion Hall; subst; reflexivity).
        split; [exact Hall|]. apply Forall_forall. intros e He. apply filter_In in He as [He1 He2].
        rewrite Forall_forall in Hle. pose proof (Hle e He1). unfold is_l in He2. apply negb_true_iff, Z.eqb_neq in He2. lia.
    - apply heap_least_none in El. subst. inversion F; subst. exists [], []. cbn.
      split; [constructor|]. split; [constructor|]. split; [reflexivity|apply ceq_refl].
  Qed.

  (* ---------- child calls ---------- *)
  Lemma push_next_ok (k : C) pk h es :
    R k pk -> Forall2 EntOk h es ->
    exists h' es', Forall2 EntOk h' es' /\ ceq es' (pk :: es) /\
      Ev (fun g => match cnext g k with
                   | None => None
                   | Some (r, k') => Some (match r with Some c => (k', c) :: h | None => h end)
                   end) h'.
  Proof.
    intros Hk F. destruct (Hnext _ _ Hk) as [k' [Hk' Hev]]. pose proof (Hasc _ _ Hk) as A.
    destruct pk as [|c pk']; cbn in Hk', Hev.
    - exists h, es. split; [exact F|]. split; [apply ceq_sym, ceq_nil_cons|].
      destruct Hev as [N HN]. exists N. intros g Hg. rewrite (HN g Hg). reflexivity.
    - exists ((k', c) :: h), ((c :: pk') :: es). split; [constructor; [exists pk'; auto|exact F]|]. split; [apply ceq_refl|].
      destruct Hev as [N HN]. exists N. intros g Hg. rewrite (HN g Hg). reflexivity.
  Qed.

  Lemma init_kids_ok : forall kids ps h es,
    Forall2 R kids ps -> Forall2 EntOk h es ->
    exists h' es', Forall2 EntOk h' es' /\ ceq es' (ps ++ es) /\
                   Ev (fun g => dheap_init_kids C (cnext g) kids h) h'.
  Proof.
    induction kids as [|k kids IH]; intros ps h es Fk F; inversion Fk; subst.
    - exists h, es. split; [exact F|]. split; [apply ceq_refl|apply Ev_const].
    - destruct (push_next_ok k _ h es H1 F) as [h1 [es1 [F1 [Hc1 Hev1]]]].
      destruct (IH _ h1 es1 H3 F1) as [h' [es' [F' [Hc' Hev']]]].
      exists h', es'. split; [exact F'|]. split.
      + eapply ceq_trans; [exact Hc'|]. eapply ceq_trans; [apply ceq_app; [apply ceq_refl|exact Hc1]|].
        cbn. eapply ceq_trans; [apply ceq_middle|]. apply ceq_refl.
      + eapply Ev_ext; [|exact (Ev_bind _ (fun g h1 => dheap_init_kids C (cnext g) kids h1) _ _ Hev1 Hev')].
        intro g. cbn. destruct (cnext g k) as [[r k']|]; reflexivity.
  Qed.

  Lemma next_matching_ok : forall m es_m h es,
    Forall2 EntOk m es_m -> Forall2 EntOk h es ->
    exists h' es', Forall2 EntOk h' es' /\ ceq es' (map (@tl Z) es_m ++ es) /\
                   Ev (fun g => dheap_next_matching C (cnext g) m h) h'.
  Proof.
    induction m as [|[k c] m IH]; intros es_m h es Fm F; inversion Fm; subst.
    - exists h, es. split; [exact F|]. split; [apply ceq_refl|apply Ev_const].
    - destruct H1 as [pk [Hk [A ->]]]. cbn in Hk.
      destruct (push_next_ok k pk h es Hk F) as [h1 [es1 [F1 [Hc1 Hev1]]]].
      destruct (IH _ h1 es1 H3 F1) as [h' [es' [F' [Hc' Hev']]]].
      exists h', es'. split; [exact F'|]. split.
      + eapply ceq_trans; [exact Hc'|]. eapply ceq_trans; [apply ceq_app; [apply ceq_refl|exact Hc1]|].
        cbn. eapply ceq_trans; [apply ceq_middle|]. apply ceq_refl.
      + eapply Ev_ext; [|exact (Ev_bind _ (fun g h1 => dheap_next_matching C (cnext g) m h1) _ _ Hev1 Hev')].
        intro g. cbn. destruct (cnext g k) as [[r k']|]; reflexivity.
  Qed.
End Heap.
