(* Cursor engine — LINK between the C02 specification [sem] (Cursor/Sem.v) and the C08 searcher
   machines (Cursor/Machines.v): the transcription of the Searcher() methods that turn a compound
   query into a tree of searchers.  DEFINITIONS ONLY (proofs: Cursor/LinkProofs.v).

   What is transcribed from where (all with queryStringMode = false, no nested mode, no kNN):
     ConjunctionQuery.Searcher   search/query/conjunction.go   every conjunct's searcher is kept (a
                                 MatchNone child is only skipped in query-string mode); no conjunct
                                 -> MatchNoneSearcher; else searcher.NewConjunctionSearcher
     NewConjunctionSearcher      search/searcher/search_conjunction.go   > 1 children, Score "none",
                                 no term vectors and every child Optimizable -> the "conjunction:unadorned"
                                 replacement (one TermSearcher over the AND of the children's readers)
     DisjunctionQuery.Searcher   search/query/disjunction.go   as for the conjunction; q.Min is passed on
     newDisjunctionSearcher      search/searcher/search_disjunction.go   > 1 children, min <= 1 and
                                 optionsDisjunctionOptimizable -> "disjunction:unadorned" replacement (a
                                 TermSearcher whose min field is int(min)); otherwise the heap searcher
                                 when len > DisjunctionHeapTakeover, else the slice searcher, each with
                                 min = int(min), each refusing more than DisjunctionMaxClauseCount clauses
     BooleanQuery.Searcher       search/query/boolean.go   must-not / must / should searchers that are a
                                 MatchNoneSearcher are reset to nil; the filter searcher is built with
                                 {Score "none", no term vectors}; all four nil -> MatchNone; only must ->
                                 the must searcher itself; only should -> the should searcher itself;
                                 only filter -> FilteringSearcher(MatchAll); only must-not (with or
                                 without filter) -> must := MatchAll; then NewBooleanSearcher, wrapped in a
                                 FilteringSearcher when there is a filter
     Optimize                    search/searcher/search_term.go (a TermSearcher hands over its reader),
                                 search_disjunction_slice.go / _heap.go (a disjunction around exactly ONE
                                 child forwards Optimize to that child — its own min is not consulted)

   A leaf query (anything but conjunction / disjunction / boolean) becomes [Leaf (sem tr c q)]: a
   cursor over its own documented meaning, which is what C08's reader theorems (tfr_cursor,
   docid_cursor) and the T2 correspondence establish for the leaf searchers.

   Not modelled (invisible in the id stream): the order in which NewConjunctionSearcher /
   newDisjunctionSliceSearcher sort their children by Count(); the "conjunction" push-down
   (OptimizeTFRConjunction.Finish), which narrows the bitmaps INSIDE term leaves of a scoring
   conjunction to their common intersection without changing the conjunction's answer; scores. *)
From Coq Require Import ZArith List Bool.
From Verif Require Import Common.Bytes Numeric.Model Cursor.Sem Cursor.Cursor Cursor.Machines.
Import ListNotations.
Local Open Scope Z_scope.

(* ---------- search.SearcherOptions and the compile-time settings that steer the construction ---------- *)
Record options := mkOpts {
  score_none : bool;          (* SearcherOptions.Score == "none" *)
  term_vectors : bool;        (* SearcherOptions.IncludeTermVectors *)
  opt_leaf : query -> bool;   (* which LEAF queries build a searcher that implements index.Optimizable and
                                 whose Optimize succeeds: scorch term searchers; nothing on upsidedown *)
  heap_takeover : nat;        (* searcher.DisjunctionHeapTakeover (10 in the source) *)
  max_clauses : nat }.        (* searcher.DisjunctionMaxClauseCount (0 = no limit, the source's value) *)

(* optionsDisjunctionOptimizable, and the same test in NewConjunctionSearcher *)
Definition unadorned_ok (o : options) : bool := score_none o && negb (term_vectors o).

(* filterOptions of BooleanQuery.Searcher *)
Definition filter_options (o : options) : options :=
  {| score_none := true; term_vectors := false; opt_leaf := opt_leaf o;
     heap_takeover := heap_takeover o; max_clauses := max_clauses o |}.

(* tooManyClauses *)
Definition too_many (o : options) (n : nat) : bool :=
  negb (max_clauses o =? 0)%nat && (max_clauses o <? n)%nat.

(* int(min) for min = min2 / 2 : Go's float -> int conversion truncates towards zero *)
Definition go_int_half (min2 : Z) : Z := Z.quot min2 2.

Definition is_compound (q : query) : bool :=
  match q with QConj _ | QDisj _ _ | QBool _ _ _ _ _ => true | _ => false end.

Definition all_true (bs : list bool) : bool := forallb (fun b => b) bs.

(* does the unadorned replacement happen, given which children are Optimizable *)
Definition conj_una (o : options) (bs : list bool) : bool :=
  unadorned_ok o && (1 <? length bs)%nat && all_true bs.
Definition disj_una (o : options) (min2 : Z) (bs : list bool) : bool :=
  unadorned_ok o && (1 <? length bs)%nat && (min2 <=? 2) && all_true bs.      (* min <= 1 *)

(* is the searcher built for a conjunction / disjunction Optimizable itself?  The unadorned
   replacement is a TermSearcher over an unadorned reader (whose iterators are
   OptimizablePostingsIterators again); a slice/heap disjunction around one child forwards. *)
Definition conj_opt (o : options) (bs : list bool) : bool := conj_una o bs.
Definition disj_opt (o : options) (min2 : Z) (bs : list bool) : bool :=
  match bs with [b] => b | _ => disj_una o min2 bs end.

Fixpoint optimizable (o : options) (q : query) {struct q} : bool :=
  match q with
  | QConj ks => conj_opt o (map (optimizable o) ks)
  | QDisj min2 ks => disj_opt o min2 (map (optimizable o) ks)
  | QBool must should min2 mustnot filter =>
      match must, should, mustnot, filter with
      | _ :: _, [], [], None => conj_opt o (map (optimizable o) must)          (* "only must searcher" *)
      | [], _ :: _, [], None => disj_opt o min2 (map (optimizable o) should)   (* "only should searcher" *)
      | _, _, _, _ => false               (* MatchNone / Boolean / Filtering searchers are not Optimizable *)
      end
  | _ => opt_leaf o q
  end.

(* the posting list of the reader that Optimize hands to the optimiser: a leaf's own list; a
   one-child disjunction forwards to its child WITHOUT looking at its min *)
Fixpoint tfr_of (t : stree) : list Z :=
  match t with
  | Leaf l => l
  | DisjS _ [c] => tfr_of c
  | DisjH _ [c] => tfr_of c
  | _ => []
  end.

(* A TermSearcher with ts.min = m over the posting list L (the stand-in for an optimised
   disjunction since fix 818594a).  [stree] has no leaf with a non-zero Min() — [umin (SLeaf _) = 0]
   is fixed in Machines.v — so it is represented by the one-child slice disjunction with minimum m
   around the leaf: its Min() is m and, for m <= 1, it is a cursor over exactly L
   (LinkProofs.denote_term_with_min); Optimize on it forwards to the leaf, as tfr_of says. *)
Definition term_with_min (m : Z) (L : list Z) : stree := DisjS m [Leaf L].

(* NewConjunctionSearcher on the children's searchers (C08_unadorned_conj_list: the unadorned AND
   enumerates inter_all of the readers' lists) *)
Definition conj_tree (o : options) (bs : list bool) (ts : list stree) : stree :=
  match ts with
  | [] => Leaf []                                                     (* MatchNoneSearcher *)
  | _ => if conj_una o bs then Leaf (inter_all (map tfr_of ts)) else Conj ts
  end.

(* newDisjunctionSearcher (C08_unadorned_disj_list: the unadorned OR enumerates at_least 1) *)
Definition disj_tree (o : options) (min2 : Z) (bs : list bool) (ts : list stree) : option stree :=
  match ts with
  | [] => Some (Leaf [])                                              (* MatchNoneSearcher *)
  | _ =>
      if disj_una o min2 bs then Some (term_with_min (go_int_half min2) (at_least 1 (map tfr_of ts)))
      else if too_many o (length ts) then None                        (* tooManyClausesErr *)
      else if (heap_takeover o <? length ts)%nat then Some (DisjH (go_int_half min2) ts)
      else Some (DisjS (go_int_half min2) ts)
  end.

Fixpoint sequence {A : Type} (l : list (option A)) : option (list A) :=
  match l with
  | [] => Some []
  | None :: _ => None
  | Some x :: l' => match sequence l' with Some r => Some (x :: r) | None => None end
  end.

(* a clause of a boolean query: absent / empty (its searcher would be a MatchNoneSearcher, which
   is reset to nil) or the searcher built for it; an error is passed on *)
Definition clause {A : Type} (l : list A) (t : option stree) : option (option stree) :=
  match l with
  | [] => Some None
  | _ => match t with Some t' => Some (Some t') | None => None end
  end.

(* MatchAllSearcher *)
Definition match_all (c : corpus) : stree := Leaf (ids c).

(* the tail of BooleanQuery.Searcher.  The Boolean node carries the should-cursor guard of
   BooleanSearcher.Advance (fix ce48e6e; T1 obligation ob_boolean_should_guard of C08). *)
Definition assemble (c : corpus) (m s n f : option stree) : stree :=
  match m, s, n, f with
  | None, None, None, None => Leaf []                                 (* all 4 nil: MatchNone *)
  | Some m', None, None, None => m'                                   (* only must *)
  | None, Some s', None, None => s'                                   (* only should *)
  | None, None, None, Some f' => Filter (match_all c) f'              (* only filter *)
  | _, _, _, _ =>
      let m1 := match m, s, n with
                | None, None, Some _ => Some (match_all c)            (* only must-not: start with MatchAll *)
                | _, _, _ => m
                end in
      let bs := Bool true m1 s n in
      match f with Some f' => Filter bs f' | None => bs end
  end.

Section TreeOf.
  Variable tr : bool.      (* the engine's fuzzy metric (a parameter of the leaves' meaning only) *)

  (* None = Searcher() returned an error (only DisjunctionMaxClauseCount can cause one here) *)
  Fixpoint tree_of (o : options) (c : corpus) (q : query) {struct q} : option stree :=
    match q with
    | QConj ks =>
        match sequence (map (tree_of o c) ks) with
        | Some ts => Some (conj_tree o (map (optimizable o) ks) ts)
        | None => None
        end
    | QDisj min2 ks =>
        match sequence (map (tree_of o c) ks) with
        | Some ts => disj_tree o min2 (map (optimizable o) ks) ts
        | None => None
        end
    | QBool must should min2 mustnot filter =>
        match sequence (map (tree_of o c) mustnot),
              sequence (map (tree_of o c) must),
              sequence (map (tree_of o c) should) with
        | Some tn, Some tm, Some ts =>
            (* MustNot = disjunction with min 0, Must = conjunction, Should = disjunction with min *)
            match clause mustnot (disj_tree o 0 (map (optimizable o) mustnot) tn),
                  clause must (Some (conj_tree o (map (optimizable o) must) tm)),
                  clause should (disj_tree o min2 (map (optimizable o) should) ts),
                  match filter with
                  | None => Some None
                  | Some fq => match tree_of (filter_options o) c fq with
                               | Some t => Some (Some t)
                               | None => None
                               end
                  end with
            | Some n, Some m, Some s, Some f => Some (assemble c m s n f)
            | _, _, _, _ => None
            end
        | _, _, _ => None
        end
    | _ => Some (Leaf (sem tr c q))
    end.
End TreeOf.

(* ---------- which queries the link covers ----------
   One feature of bleve's construction has no counterpart in [sem]; queries that exercise it
   are excluded here and shown to be a genuine discrepancy in LinkExamples.v:
     - (no longer excluded) a boolean query with BOTH must and should clauses and min_should <= -1:
       int(min) is then a negative Min(); BooleanSearcher used to compare Min() with 0 exactly and
       so treated should as required, while [sem] (floor min <= count) treats it as optional.
       Fixed in /repo 895ea25 ("Min() <= 0"); Machines.v says the same and the link covers it
       (LinkExamples.link_negative_min_values);
     - a disjunction / should list with exactly ONE clause and int(min) >= 2 (rejected by
       DisjunctionQuery.Validate, which Index.Search does not call): alone it matches nothing, but
       under score "none" an enclosing compound takes the child's reader and ignores the min.
   Half-integer minima are covered (int(min) = floor min for min >= 0). *)
Definition single_min_ok (min2 : Z) (ks : list query) : bool :=
  match ks with [_] => min2 <=? 3 | _ => true end.

Fixpoint linkable (q : query) {struct q} : bool :=
  match q with
  | QConj ks => forallb linkable ks
  | QDisj min2 ks => single_min_ok min2 ks && forallb linkable ks
  | QBool must should min2 mustnot filter =>
      single_min_ok min2 should
      && forallb linkable must && forallb linkable should && forallb linkable mustnot
      && match filter with Some fq => linkable fq | None => true end
  | _ => true
  end.

(* the two request settings the C02 harness varies, on scorch and on upsidedown *)
Definition is_term (q : query) : bool := match q with QTerm _ _ => true | _ => false end.
Definition opts_scoring : options :=
  {| score_none := false; term_vectors := false; opt_leaf := is_term; heap_takeover := 10; max_clauses := 0 |}.
Definition opts_score_none : options :=
  {| score_none := true; term_vectors := false; opt_leaf := is_term; heap_takeover := 10; max_clauses := 0 |}.
Definition opts_upsidedown (sn : bool) : options :=
  {| score_none := sn; term_vectors := false; opt_leaf := fun _ => false; heap_takeover := 10; max_clauses := 0 |}.
