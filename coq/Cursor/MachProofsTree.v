(* Cursor engine — the tree theorem: the machine built for a searcher tree behaves, on EVERY
   program of Next/Advance calls, exactly like the reference cursor over the tree's set
   expression ([program_subsequence]); and the witness that the unguarded BooleanSearcher.Advance
   does not ([boolean_cursor_refuted]). *)
From Coq Require Import ZArith List Bool Lia.
From Verif Require Import Cursor.Cursor Cursor.Machines Cursor.MachProofsBase Cursor.MachProofsKids
  Cursor.MachProofsConj Cursor.MachProofsDisj Cursor.MachProofsFilter Cursor.MachProofsBool
  Cursor.MachProofsHeap.
Import ListNotations.
Local Open Scope Z_scope.

(* ---------- the abstraction relation of the universal state, by depth ---------- *)
Fixpoint Rep (d : nat) (s : state) (p : list Z) : Prop :=
  match d with
  | O => False
  | S d' =>
      match s with
      | SLeaf p' => p' = p /\ ascending p
      | SConj st => RConj state (Rep d') st p
      | SDisjS st => RDisjS state (Rep d') st p
      | SDisjH st => RDisjH state (Rep d') st p
      | SBool st => RBool state umin (Rep d') st p
      | SFilter st => RFilt state (Rep d') st p
      end
  end.

(* ---------- Min() is constant along a run ---------- *)
Lemma filt_loop_child_min cn ca :
  (forall k r k', cn k = Some (r, k') -> umin k' = umin k) ->
  forall f st cur r st', filt_loop state cn ca f st cur = Some (r, st') -> umin (fl_child st') = umin (fl_child st).
Proof.
  intros Hcn. induction f as [|f IH]; intros st cur r st' H; cbn in H; [discriminate|].
  destruct cur as [d|]; [|inversion H; reflexivity].
  assert (forall b s1, filt_accept state cn ca st d = Some (b, s1) -> fl_child s1 = fl_child st) as Hacc.
  { intros b s1. unfold filt_accept.
    destruct (fl_finit st).
    - destruct (fl_ref st) as [rf|]; [|intro E; inversion E; reflexivity].
      destruct (rf <? d).
      + destruct (ca (fl_filter st) d) as [[r0 f']|]; [|discriminate]. destruct r0; intro E; inversion E; reflexivity.
      + intro E; inversion E; reflexivity.
    - destruct (cn (fl_filter st)) as [[r0 f']|]; [|discriminate]. cbn.
      destruct r0 as [rf|]; [|intro E; inversion E; reflexivity].
      destruct (rf <? d).
      + destruct (ca f' d) as [[r1 f'']|]; [|discriminate]. destruct r1; intro E; inversion E; reflexivity.
      + intro E; inversion E; reflexivity. }
  destruct (filt_accept state cn ca st d) as [[[|] s1]|] eqn:Ea; [| |discriminate].
  - inversion H; subst. rewrite (Hacc _ _ eq_refl). reflexivity.
  - destruct (cn (fl_child s1)) as [[r1 c']|] eqn:Ec; [|discriminate].
    apply IH in H. cbn in H. rewrite H. rewrite (Hcn _ _ _ Ec). rewrite (Hacc _ _ eq_refl). reflexivity.
Qed.

Lemma umin_step : forall f s,
  (forall r s', unext f s = Some (r, s') -> umin s' = umin s) /\
  (forall t r s', uadv f s t = Some (r, s') -> umin s' = umin s).
Proof.
  induction f as [|f IH]; intro s; [split; intros; discriminate|].
  assert (forall k r k', unext f k = Some (r, k') -> umin k' = umin k) as Hn by (intros k; apply (proj1 (IH k))).
  assert (forall k t r k', uadv f k t = Some (r, k') -> umin k' = umin k) as Ha by (intros k; apply (proj2 (IH k))).
  destruct s as [p|st|st|st|st|st]; cbn [unext uadv]; split.
  - intros r s' H. destruct (spec_next p); inversion H; reflexivity.
  - intros t r s' H. destruct (spec_advance t p); inversion H; reflexivity.
  - intros r s' H. destruct (conj_next state (unext f) (uadv f) f st) as [[r0 a]|]; inversion H; reflexivity.
  - intros t r s' H. destruct (conj_adv state (unext f) (uadv f) f st t) as [[r0 a]|]; inversion H; reflexivity.
  - intros r s' H. unfold dslice_next in H. destruct (dslice_init state (unext f) st) as [[k m]|]; [|discriminate].
    destruct (dslice_loop state (unext f) f (ds_min st) k m) as [[[r0 k'] m']|]; inversion H; reflexivity.
  - intros t r s' H. unfold dslice_adv in H. destruct (dslice_init state (unext f) st) as [[k m]|]; [|discriminate].
    destruct (adv_lagging state (uadv f) t k) as [k1|]; [|discriminate].
    destruct (dslice_loop state (unext f) f (ds_min st) k1 (update_matches state k1 0 [])) as [[[r0 k'] m']|]; inversion H; reflexivity.
  - intros r s' H. unfold dheap_next in H. destruct (dheap_initialise state (unext f) st) as [[h m]|]; [|discriminate].
    destruct (dheap_loop state (unext f) f (dh_min st) h m) as [[[r0 h'] m']|]; inversion H; reflexivity.
  - intros t r s' H. unfold dheap_adv in H. destruct (dheap_initialise state (unext f) st) as [[h m]|]; [|discriminate].
    destruct (dheap_adv_loop state (uadv f) f t (rev m ++ h) []) as [[h1 tmp]|]; [|discriminate].
    destruct (heap_update_matches state (rev tmp ++ h1)) as [h2 m2].
    destruct (dheap_loop state (unext f) f (dh_min st) h2 m2) as [[[r0 h'] m']|]; inversion H; reflexivity.
  - intros r s' H. destruct (bool_next state (unext f) (uadv f) umin f st) as [[r0 a]|]; inversion H; reflexivity.
  - intros t r s' H. destruct (bool_adv state (unext f) (uadv f) umin f st t) as [[r0 a]|]; inversion H; reflexivity.
  - intros r s' H. destruct (filt_next state (unext f) (uadv f) f st) as [[r0 a]|] eqn:E; inversion H; subst.
    unfold filt_next in E. destruct (unext f (fl_child st)) as [[r1 c']|] eqn:Ec; [|discriminate].
    apply (filt_loop_child_min _ _ Hn) in E. cbn in E. destruct a, st; cbn in *. rewrite E. eapply Hn; eauto.
  - intros t r s' H. destruct (filt_adv state (unext f) (uadv f) f st t) as [[r0 a]|] eqn:E; inversion H; subst.
    unfold filt_adv in E. destruct (uadv f (fl_child st) t) as [[r1 c']|] eqn:Ec; [|discriminate].
    apply (filt_loop_child_min _ _ Hn) in E. cbn in E. destruct a, st; cbn in *. rewrite E. eapply Ha; eauto.
Qed.

(* ---------- the knot: every represented state steps like the spec ---------- *)
Lemma Ev_lift {A B} (F : nat -> step_res A) (h : A -> B) r a :
  Ev F (r, a) -> Ev (fun f => match f with O => None | S f' => lift h (F f') end) (r, h a).
Proof.
  intros [N H]. exists (S N). intros [|f] Hf; [lia|]. rewrite H by lia. reflexivity.
Qed.

Theorem ustep_ok : forall d, cursor_ok state unext uadv (Rep d).
Proof.
  induction d as [|d [IHa [IHn IHv]]].
  - split; [intros k p []|split; [intros k p []|intros k p t []]].
  - assert (forall f k r k', unext f k = Some (r, k') -> umin k' = umin k) as Hmn by (intros f k; apply (proj1 (umin_step f k))).
    assert (forall f k t r k', uadv f k t = Some (r, k') -> umin k' = umin k) as Hma by (intros f k; apply (proj2 (umin_step f k))).
    pose proof (conj_cursor state unext uadv (Rep d) IHa IHn IHv) as [Ca [Cn Cv]].
    pose proof (disj_slice_cursor state unext uadv (Rep d) IHa IHn IHv) as [Da [Dn Dv]].
    pose proof (disj_heap_cursor state unext uadv (Rep d) IHa IHn IHv) as [Ha [Hn Hv]].
    pose proof (boolean_cursor state unext uadv umin (Rep d) IHa IHn IHv Hmn Hma) as [Ba [Bn Bv]].
    pose proof (filter_cursor state unext uadv (Rep d) IHa IHn IHv) as [Fa [Fn Fv]].
    split; [|split].
    + intros [p'|st|st|st|st|st] p H; cbn in H; [tauto|eapply Ca|eapply Da|eapply Ha|eapply Ba|eapply Fa]; eauto.
    + intros [p'|st|st|st|st|st] p H; cbn in H.
      * destruct H as [-> A]. exists (SLeaf (snd (spec_next p))). split.
        -- cbn. split; [reflexivity|]. apply (spec_step_ascending p Next A).
        -- exists 1%nat. intros [|f] Hf; [lia|]. cbn. destruct (spec_next p); reflexivity.
      * destruct (Cn st p H) as [st' [H' Hev]]. exists (SConj st'). split; [exact H'|].
        eapply Ev_ext; [|exact (Ev_lift _ SConj _ _ Hev)]. intros [|f]; reflexivity.
      * destruct (Dn st p H) as [st' [H' Hev]]. exists (SDisjS st'). split; [exact H'|].
        eapply Ev_ext; [|exact (Ev_lift _ SDisjS _ _ Hev)]. intros [|f]; reflexivity.
      * destruct (Hn st p H) as [st' [H' Hev]]. exists (SDisjH st'). split; [exact H'|].
        eapply Ev_ext; [|exact (Ev_lift _ SDisjH _ _ Hev)]. intros [|f]; reflexivity.
      * destruct (Bn st p H) as [st' [H' Hev]]. exists (SBool st'). split; [exact H'|].
        eapply Ev_ext; [|exact (Ev_lift _ SBool _ _ Hev)]. intros [|f]; reflexivity.
      * destruct (Fn st p H) as [st' [H' Hev]]. exists (SFilter st'). split; [exact H'|].
        eapply Ev_ext; [|exact (Ev_lift _ SFilter _ _ Hev)]. intros [|f]; reflexivity.
    + intros [p'|st|st|st|st|st] p t H; cbn in H.
      * destruct H as [-> A]. exists (SLeaf (snd (spec_advance t p))). split.
        -- cbn. split; [reflexivity|]. apply (spec_step_ascending p (Advance t) A).
        -- exists 1%nat. intros [|f] Hf; [lia|]. cbn. destruct (spec_advance t p); reflexivity.
      * destruct (Cv st p t H) as [st' [H' Hev]]. exists (SConj st'). split; [exact H'|].
        eapply Ev_ext; [|exact (Ev_lift _ SConj _ _ Hev)]. intros [|f]; reflexivity.
      * destruct (Dv st p t H) as [st' [H' Hev]]. exists (SDisjS st'). split; [exact H'|].
        eapply Ev_ext; [|exact (Ev_lift _ SDisjS _ _ Hev)]. intros [|f]; reflexivity.
      * destruct (Hv st p t H) as [st' [H' Hev]]. exists (SDisjH st'). split; [exact H'|].
        eapply Ev_ext; [|exact (Ev_lift _ SDisjH _ _ Hev)]. intros [|f]; reflexivity.
      * destruct (Bv st p t H) as [st' [H' Hev]]. exists (SBool st'). split; [exact H'|].
        eapply Ev_ext; [|exact (Ev_lift _ SBool _ _ Hev)]. intros [|f]; reflexivity.
      * destruct (Fv st p t H) as [st' [H' Hev]]. exists (SFilter st'). split; [exact H'|].
        eapply Ev_ext; [|exact (Ev_lift _ SFilter _ _ Hev)]. intros [|f]; reflexivity.
Qed.

(* a whole program *)
Theorem run_ok : forall prog d s p, Rep d s p ->
  exists N, forall fuel, (N <= fuel)%nat -> run fuel s prog = Some (run_spec p prog).
Proof.
  induction prog as [|c prog IH]; intros d s p H.
  - exists O. reflexivity.
  - destruct (ustep_ok d) as [_ [Hn Hv]].
    assert (exists s', Rep d s' (snd (spec_step p c)) /\ Ev (fun f => ustep f s c) (fst (spec_step p c), s')) as [s' [H' [N1 HN1]]].
    { destruct c as [|t]; cbn; [apply Hn|apply Hv]; exact H. }
    destruct (IH d s' _ H') as [N2 HN2].
    exists (Nat.max N1 N2). intros fuel Hf. cbn [run run_spec].
    rewrite HN1 by lia. rewrite HN2 by lia. destruct (spec_step p c); reflexivity.
Qed.

(* ---------- the initial state of a tree represents its set expression ---------- *)
Fixpoint depth (t : stree) : nat :=
  match t with
  | Leaf _ => 1
  | Conj ts => S (fold_right (fun c a => Nat.max (depth c) a) O ts)
  | DisjS _ ts => S (fold_right (fun c a => Nat.max (depth c) a) O ts)
  | DisjH _ ts => S (fold_right (fun c a => Nat.max (depth c) a) O ts)
  | Bool _ m s n =>
      S (Nat.max (match m with Some c => depth c | None => O end)
           (Nat.max (match s with Some c => depth c | None => O end)
                    (match n with Some c => depth c | None => O end)))
  | Filter c f => S (Nat.max (depth c) (depth f))
  end.

(* well-formed trees: ascending leaves; every Boolean node carries the should-cursor guard *)
Fixpoint wf (t : stree) : Prop :=
  match t with
  | Leaf l => ascending l
  | Conj ts => (fix all ts := match ts with [] => True | c :: r => wf c /\ all r end) ts
  | DisjS _ ts => (fix all ts := match ts with [] => True | c :: r => wf c /\ all r end) ts
  | DisjH _ ts => (fix all ts := match ts with [] => True | c :: r => wf c /\ all r end) ts
  | Bool g m s n =>
      g = true /\
      (match m with Some c => wf c | None => True end) /\
      (match s with Some c => wf c | None => True end) /\
      (match n with Some c => wf c | None => True end)
  | Filter c f => wf c /\ wf f
  end.

Lemma umin_build t : umin (build t) = min_of t.
Proof. induction t; cbn; auto. Qed.

Lemma filter_filter {A} (f g : A -> bool) l : filter f (filter g l) = filter (fun x => g x && f x) l.
Proof.
  induction l as [|a l IH]; cbn; [reflexivity|]. destruct (g a); cbn; [destruct (f a); rewrite IH; reflexivity|exact IH].
Qed.

Section BuildRep.
  (* nested induction over the tree *)
  Fixpoint build_rep (t : stree) : forall d, (depth t <= d)%nat -> wf t -> Rep d (build t) (denote t).
  Proof.
    destruct t as [l|ts|mn ts|mn ts|g m s n|c f]; intros d Hd Hwf; (destruct d as [|d]; [cbn in Hd; lia|]); cbn [build denote Rep].
    - cbn in Hwf. auto.
    - (* Conj *)
      split; [cbn; destruct ts; [left; reflexivity|right; cbn; lia]|].
      exists (map denote ts). split; [reflexivity|]. cbn [cj_init cj_kids].
      cbn [depth] in Hd. apply le_S_n in Hd. cbn [wf] in Hwf.
      induction ts as [|c r IHr]; cbn; constructor.
      + cbn in Hd, Hwf. apply build_rep; [lia|tauto].
      + apply IHr; cbn in Hd, Hwf; [lia|tauto].
    - (* DisjS *)
      exists (map denote ts). split; [reflexivity|]. cbn [ds_init ds_kids].
      cbn [depth] in Hd. apply le_S_n in Hd. cbn [wf] in Hwf.
      induction ts as [|c r IHr]; cbn; constructor.
      + cbn in Hd, Hwf. apply build_rep; [lia|tauto].
      + apply IHr; cbn in Hd, Hwf; [lia|tauto].
    - (* DisjH *)
      exists (map denote ts). split; [reflexivity|]. cbn [dh_init dh_searchers].
      cbn [depth] in Hd. apply le_S_n in Hd. cbn [wf] in Hwf.
      induction ts as [|c r IHr]; cbn; constructor.
      + cbn in Hd, Hwf. apply build_rep; [lia|tauto].
      + apply IHr; cbn in Hd, Hwf; [lia|tauto].
    - (* Bool *)
      cbn [depth] in Hd. apply le_S_n in Hd. cbn [wf] in Hwf. destruct Hwf as [-> [Wm [Ws Wn]]].
      right. cbn. split; [reflexivity|]. split; [reflexivity|].
      exists (match m with Some c => denote c | None => [] end),
             (match s with Some c => denote c | None => [] end),
             (match n with Some c => denote c | None => [] end).
      split.
      + unfold pend, drv, need, okb. cbn.
        destruct m as [m'|], s as [s'|], n as [n'|]; cbn; rewrite ?umin_build;
          try reflexivity; unfold diff, inter; try (destruct (min_of s' <=? 0); cbn);
          rewrite ?filter_filter; try (apply filter_ext_in'; intros x _; cbn; destruct (memb x (denote n')); destruct (memb x (denote s')); reflexivity);
          try (apply filter_ext_in'; intros x _; cbn; destruct (memb x (denote n')); reflexivity);
          try (apply filter_ext_in'; intros x _; cbn; destruct (memb x (denote s')); reflexivity);
          try (symmetry; induction (denote m') as [|a l IH]; cbn; [reflexivity|f_equal; exact IH]);
          try (symmetry; induction (denote s') as [|a l IH]; cbn; [reflexivity|f_equal; exact IH]).
      + repeat split; try reflexivity.
        * destruct m as [m'|]; cbn; [apply build_rep; [lia|exact Wm]|reflexivity].
        * destruct s as [s'|]; cbn; [apply build_rep; [lia|exact Ws]|reflexivity].
        * destruct n as [n'|]; cbn; [apply build_rep; [lia|exact Wn]|reflexivity].
    - (* Filter *)
      cbn [depth] in Hd. apply le_S_n in Hd. cbn [wf] in Hwf. destruct Hwf as [Wc Wf].
      exists (denote c), (denote f). cbn. split; [apply build_rep; [lia|exact Wc]|].
      split; [unfold FiltOk; cbn; apply build_rep; [lia|exact Wf]|reflexivity].
  Qed.
End BuildRep.

(* ================================================================== *)
(* program_subsequence                                                  *)
(* ================================================================== *)

Theorem program_subsequence : forall t, wf t -> forall prog,
  exists N, forall fuel, (N <= fuel)%nat ->
    run fuel (build t) prog = Some (run_spec (denote t) prog).
Proof.
  intros t Hwf prog. eapply run_ok. apply (build_rep t (depth t) (le_n _) Hwf).
Qed.

Lemma denote_ascending t : wf t -> ascending (denote t).
Proof.
  intro Hwf. pose proof (build_rep t (depth t) (le_n _) Hwf) as H.
  destruct (ustep_ok (depth t)) as [Ha _]. eapply Ha; eauto.
Qed.

(* ---------- the unguarded BooleanSearcher.Advance is not a cursor ---------- *)
Definition refuting_tree (g : bool) : stree :=
  Bool g (Some (Conj [Leaf [0; 3]])) (Some (DisjS 1 [Leaf [3; 5]; Leaf []])) None.

Theorem boolean_cursor_refuted :
  let t := refuting_tree false in
  denote t = [3] /\
  forward (denote t) [Advance 1] = true /\
  run (default_fuel t) (build t) [Advance 1] = Some [None] /\
  run_spec (denote t) [Advance 1] = [Some 3] /\
  (* the Next-only enumeration is right, and so is the guarded machine *)
  run (default_fuel t) (build t) [Next; Next] = Some [Some 3; None] /\
  run (default_fuel t) (build (refuting_tree true)) [Advance 1] = Some [Some 3].
Proof. vm_compute. repeat split; reflexivity. Qed.

Theorem program_subsequence_unguarded_refuted :
  exists t prog, forward (denote t) prog = true /\
    forall fuel, run fuel (build t) prog <> Some (run_spec (denote t) prog).
Proof.
  exists (refuting_tree false), [Advance 1]. split; [reflexivity|].
  intros fuel H.
  (* whatever the fuel, the machine cannot return Some 3: with enough fuel it returns None *)
  assert (forall f, (30 <= f)%nat -> run f (build (refuting_tree false)) [Advance 1] = Some [None]) as Hbig.
  { intros f Hf. do 30 (destruct f as [|f]; [lia|]). vm_compute. reflexivity. }
  destruct (le_lt_dec 30 fuel) as [Hle|Hlt].
  - rewrite (Hbig fuel Hle) in H. vm_compute in H. discriminate.
  - revert H. do 30 (destruct fuel as [|fuel]; [vm_compute; discriminate|]). lia.
Qed.
