(* Cursor engine — the key table of a [MachCorr.CKeyed] case: on an index whose internal ids are
   byte strings (upsidedown) the correspondence harness names every id by its index in a table of
   byte strings.  If the table passes [keys_ascb] the naming is order preserving and injective:
   comparing two indexes is comparing the two ids with bytes.Compare, which is the order the
   searchers of such an index work in (index.IndexInternalID.Compare). *)
From Coq Require Import ZArith List Bool Lia.
From Verif Require Import Common.Bytes Cursor.Cursor Cursor.Machines Cursor.MachReaders Cursor.MachCorr.
Import ListNotations.
Local Open Scope Z_scope.

Lemma bltb_Lt a b : bltb a b = true <-> bcompare a b = Lt.
Proof. unfold bltb. destruct (bcompare a b); split; congruence. Qed.

Lemma keys_ascb_tail a ks : keys_ascb (a :: ks) = true -> keys_ascb ks = true.
Proof.
  destruct ks as [|b ks]; [reflexivity|]. cbn [keys_ascb].
  intro H. apply andb_true_iff in H. apply H.
Qed.

(* the head is below every later entry *)
Lemma keys_ascb_head_lt : forall ks a, keys_ascb (a :: ks) = true ->
  forall j b, nth_error ks j = Some b -> bcompare a b = Lt.
Proof.
  induction ks as [|c ks IH]; intros a H j b Hj.
  - destruct j; discriminate.
  - cbn [keys_ascb] in H. apply andb_true_iff in H as [H1 H2].
    apply bltb_Lt in H1. destruct j as [|j].
    + cbn in Hj. inversion Hj; subst. exact H1.
    + cbn in Hj. eapply bcompare_trans_lt; [exact H1|]. eapply IH; eauto.
Qed.

Lemma keys_ascb_lt : forall ks, keys_ascb ks = true ->
  forall i j a b, nth_error ks i = Some a -> nth_error ks j = Some b ->
  (i < j)%nat -> bcompare a b = Lt.
Proof.
  induction ks as [|c ks IH]; intros H i j a b Hi Hj Hlt.
  - destruct i; discriminate.
  - destruct j as [|j]; [lia|]. destruct i as [|i].
    + cbn in Hi. inversion Hi; subst. cbn in Hj. eapply keys_ascb_head_lt; eauto.
    + cbn in Hi, Hj. eapply (IH (keys_ascb_tail _ _ H) i j); eauto. lia.
Qed.

Lemma bcompare_lt_irrefl_ a : bcompare a a <> Lt.
Proof. rewrite bcompare_refl. discriminate. Qed.

Lemma bcompare_lt_asym_ a b : bcompare a b = Lt -> bcompare b a <> Lt.
Proof. intros H. rewrite bcompare_antisym, H. cbn. discriminate. Qed.

(* index order = byte order, and the naming is injective *)
Lemma keys_ascb_order : forall ks, keys_ascb ks = true ->
  forall i j a b, nth_error ks i = Some a -> nth_error ks j = Some b ->
  ((i < j)%nat <-> bcompare a b = Lt) /\ (i = j <-> a = b).
Proof.
  intros ks H i j a b Hi Hj. split; split.
  - intro Hlt. eapply keys_ascb_lt; eauto.
  - intro Hc. destruct (Nat.lt_trichotomy i j) as [Hl|[He|Hg]]; [exact Hl| |].
    + subst j. assert (a = b) by congruence. subst b. exfalso. exact (bcompare_lt_irrefl_ a Hc).
    + exfalso. exact (bcompare_lt_asym_ a b Hc (keys_ascb_lt ks H j i b a Hj Hi Hg)).
  - intro He. subst j. rewrite Hi in Hj. congruence.
  - intro He. subst b. destruct (Nat.lt_trichotomy i j) as [Hl|[He|Hg]]; [|exact He|].
    + exfalso. exact (bcompare_lt_irrefl_ a (keys_ascb_lt ks H i j a a Hi Hj Hl)).
    + exfalso. exact (bcompare_lt_irrefl_ a (keys_ascb_lt ks H j i a a Hj Hi Hg)).
Qed.

(* reading a key back: [key_bytes] inverts [key_num] on byte strings of up to 63 bytes *)
Lemma key_num_app bs b z :
  fold_left (fun a b => a * 256 + b) (bs ++ [b]) z = fold_left (fun a b => a * 256 + b) bs z * 256 + b.
Proof. rewrite fold_left_app. reflexivity. Qed.

Lemma key_num_pos : forall bs z, 1 <= z -> forallb is_byte bs = true ->
  1 <= fold_left (fun a b => a * 256 + b) bs z.
Proof.
  induction bs as [|b bs IH]; intros z Hz Hv; cbn [fold_left]; [exact Hz|].
  cbn [forallb] in Hv. apply andb_true_iff in Hv as [Hb Hv]. apply IH; [|exact Hv].
  unfold is_byte in Hb. apply andb_true_iff in Hb as [H1 H2]. lia.
Qed.

Lemma key_bytes_fuel_num : forall bs, forallb is_byte bs = true ->
  forall fuel acc, (length bs < fuel)%nat ->
  key_bytes_fuel fuel (key_num bs) acc = Some (bs ++ acc).
Proof.
  unfold key_num. induction bs as [|b bs IH] using rev_ind; intros Hv fuel acc Hf.
  - destruct fuel; [cbn in Hf; lia|]. reflexivity.
  - rewrite forallb_app in Hv. apply andb_true_iff in Hv as [Hv Hb].
    cbn [forallb] in Hb. rewrite andb_true_r in Hb.
    rewrite app_length in Hf. cbn [length] in Hf.
    destruct fuel as [|fuel]; [lia|].
    rewrite key_num_app.
    pose proof (key_num_pos bs 1 ltac:(lia) Hv) as Hp.
    unfold is_byte in Hb. apply andb_true_iff in Hb as [H1 H2].
    apply Z.leb_le in H1. apply Z.ltb_lt in H2.
    set (X := fold_left (fun a b0 : Z => a * 256 + b0) bs 1) in *.
    cbn [key_bytes_fuel].
    replace (X * 256 + b <=? 0) with false by (symmetry; apply Z.leb_gt; lia).
    replace (X * 256 + b =? 1) with false by (symmetry; apply Z.eqb_neq; lia).
    replace ((X * 256 + b) / 256) with X
      by (rewrite Z.add_comm, Z.div_add by lia; rewrite Z.div_small by lia; lia).
    replace ((X * 256 + b) mod 256) with b
      by (rewrite Z.add_comm, Z.mod_add by lia; rewrite Z.mod_small by lia; reflexivity).
    rewrite (IH Hv fuel (b :: acc)) by lia. rewrite <- app_assoc. reflexivity.
Qed.

Lemma key_bytes_num : forall bs, valid_bytes bs = true -> (length bs < 64)%nat ->
  key_bytes (key_num bs) = Some bs.
Proof.
  intros bs Hv Hl. unfold key_bytes. rewrite key_bytes_fuel_num by assumption.
  rewrite app_nil_r. reflexivity.
Qed.

Lemma decode_keys_length : forall ks tbl, decode_keys ks = Some tbl -> length tbl = length ks.
Proof.
  induction ks as [|k ks IH]; intros tbl H; cbn [decode_keys] in H.
  - inversion H. reflexivity.
  - destruct (key_bytes k); [|discriminate]. destruct (decode_keys ks) eqn:E; [|discriminate].
    inversion H; subst. cbn [length]. f_equal. apply IH. reflexivity.
Qed.

(* a CKeyed case that passes the check has a table that reads back as strictly ascending byte
   strings, every id it mentions is in the table, and the inner case passes the check of its own kind *)
Lemma check_keyed : forall keys c, check (CKeyed keys c) = true ->
  exists tbl, decode_keys keys = Some tbl /\ length tbl = length keys /\
    keys_ascb tbl = true /\ forallb valid_bytes tbl = true /\
    Forall (fun x => 0 <= x < Z.of_nat (length tbl)) (case_ids c) /\ check c = true.
Proof.
  intros keys c H. cbn [check] in H.
  apply andb_true_iff in H as [H Hc]. apply andb_true_iff in H as [Hk Hi].
  unfold keys_ok in Hk. destruct (decode_keys keys) as [tbl|] eqn:E; [|discriminate].
  unfold table_ok in Hk. apply andb_true_iff in Hk as [Hv Ha].
  pose proof (decode_keys_length _ _ E) as Hl.
  exists tbl. repeat split; auto.
  unfold ids_in_table in Hi. rewrite forallb_forall in Hi. apply Forall_forall.
  intros x Hx. specialize (Hi x Hx). apply andb_true_iff in Hi as [H1 H2]. lia.
Qed.

(* the hypotheses are satisfiable on a non-trivial table: ids of different lengths, one a prefix of
   the other, with 0x00 and 0xff bytes *)
Example keys_ascb_example :
  keys_ok (map key_num [[]; [0]; [0; 0]; [97]; [97; 0]; [97; 49]; [97; 49; 48]; [97; 50]; [97; 255]; [98]]) = true.
Proof. vm_compute. reflexivity. Qed.
