(* Cursor engine — common lemmas for the machine proofs: "eventually Some" (fuel sufficiency),
   list surgery, set operations on ascending lists, the cursor contract of a child. *)
From Coq Require Import ZArith List Bool Lia.
From Verif Require Import Cursor.Cursor Cursor.Machines.
Import ListNotations.
Local Open Scope Z_scope.

(* ---------- fuel: a computation indexed by fuel that is eventually [Some v] ---------- *)
Definition Ev {A : Type} (F : nat -> option A) (v : A) : Prop :=
  exists N, forall f, (N <= f)%nat -> F f = Some v.

Lemma Ev_const {A} (v : A) : Ev (fun _ => Some v) v.
Proof. exists O. reflexivity. Qed.

Lemma Ev_ext {A} (F G : nat -> option A) v : (forall f, F f = G f) -> Ev F v -> Ev G v.
Proof. intros E [N H]. exists N. intros f Hf. rewrite <- E. auto. Qed.

Lemma Ev_bind {A B} (F : nat -> option A) (G : nat -> A -> option B) a b :
  Ev F a -> Ev (fun f => G f a) b ->
  Ev (fun f => match F f with Some x => G f x | None => None end) b.
Proof.
  intros [N1 H1] [N2 H2]. exists (Nat.max N1 N2). intros f Hf.
  rewrite H1 by lia. apply H2. lia.
Qed.

Lemma Ev_S {A} (F : nat -> option A) v :
  Ev F v -> Ev (fun f => match f with O => None | S f' => F f' end) v.
Proof.
  intros [N H]. exists (S N). intros [|f] Hf; [lia|]. apply H. lia.
Qed.

Lemma Ev_and {A B} (F : nat -> option A) (G : nat -> option B) a b :
  Ev F a -> Ev G b -> exists N, forall f, (N <= f)%nat -> F f = Some a /\ G f = Some b.
Proof.
  intros [N1 H1] [N2 H2]. exists (Nat.max N1 N2). intros f Hf. split; [apply H1|apply H2]; lia.
Qed.

Lemma Ev_mono_intro {A} (F : nat -> option A) v N :
  (forall f, (N <= f)%nat -> F f = Some v) -> Ev F v.
Proof. intro H. exists N. exact H. Qed.

(* ---------- the cursor contract of a (fuel-indexed) child ---------- *)
Section Contract.
  Variable C : Type.
  Variable cnext : nat -> C -> step_res C.
  Variable cadv : nat -> C -> Z -> step_res C.
  Variable R : C -> list Z -> Prop.

  Definition asc_ok := forall k p, R k p -> ascending p.
  Definition next_ok := forall k p, R k p ->
    exists k', R k' (snd (spec_next p)) /\ Ev (fun f => cnext f k) (fst (spec_next p), k').
  Definition adv_ok := forall k p t, R k p ->
    exists k', R k' (snd (spec_advance t p)) /\ Ev (fun f => cadv f k t) (fst (spec_advance t p), k').
  Definition cursor_ok := asc_ok /\ next_ok /\ adv_ok.
End Contract.

(* ---------- list surgery ---------- *)
Fixpoint replace_nth {A} (i : nat) (y : A) (l : list A) : list A :=
  match l, i with
  | [], _ => []
  | _ :: l', O => y :: l'
  | x :: l', S i' => x :: replace_nth i' y l'
  end.

Lemma upd_nth_Some {A} (f : A -> option A) : forall i l x y,
  nth_error l i = Some x -> f x = Some y -> upd_nth i f l = Some (replace_nth i y l).
Proof.
  induction i as [|i IH]; intros [|z l] x y Hn Hf; cbn in *; try discriminate.
  - inversion Hn; subst. rewrite Hf. reflexivity.
  - rewrite (IH _ _ _ Hn Hf). reflexivity.
Qed.

Lemma replace_nth_length {A} i (y : A) l : length (replace_nth i y l) = length l.
Proof. revert i; induction l as [|x l IH]; intros [|i]; cbn; auto. Qed.

Lemma nth_error_replace_eq {A} i (y : A) l : (i < length l)%nat -> nth_error (replace_nth i y l) i = Some y.
Proof. revert i; induction l as [|x l IH]; intros [|i] H; cbn in *; try lia; auto. apply IH. lia. Qed.

Lemma nth_error_replace_neq {A} i j (y : A) l : i <> j -> nth_error (replace_nth i y l) j = nth_error l j.
Proof.
  revert i j; induction l as [|x l IH]; intros [|i] [|j] H; cbn; auto; try congruence.
Qed.

Lemma Forall2_nth_l {A B} (P : A -> B -> Prop) l1 l2 i x :
  Forall2 P l1 l2 -> nth_error l1 i = Some x -> exists y, nth_error l2 i = Some y /\ P x y.
Proof.
  intro F. revert i. induction F as [|a b l1 l2 H F IH]; intros [|i] Hn; cbn in *; try discriminate.
  - inversion Hn; subst. eauto.
  - auto.
Qed.

Lemma Forall2_nth_r {A B} (P : A -> B -> Prop) l1 l2 i y :
  Forall2 P l1 l2 -> nth_error l2 i = Some y -> exists x, nth_error l1 i = Some x /\ P x y.
Proof.
  intro F. revert i. induction F as [|a b l1 l2 H F IH]; intros [|i] Hn; cbn in *; try discriminate.
  - inversion Hn; subst. eauto.
  - auto.
Qed.

Lemma Forall2_length' {A B} (P : A -> B -> Prop) l1 l2 : Forall2 P l1 l2 -> length l1 = length l2.
Proof. induction 1; cbn; auto. Qed.

Lemma Forall2_replace {A B} (P : A -> B -> Prop) l1 l2 i x y :
  Forall2 P l1 l2 -> P x y -> Forall2 P (replace_nth i x l1) (replace_nth i y l2).
Proof.
  intro F. revert i. induction F as [|a b l1 l2 H F IH]; intros [|i] Hp; cbn; constructor; auto.
Qed.

Lemma nth_error_None_len {A} (l : list A) i : nth_error l i = None <-> (length l <= i)%nat.
Proof. apply nth_error_None. Qed.

(* ---------- membership in the set operations ---------- *)
Lemma memb_In x l : memb x l = true <-> In x l.
Proof.
  unfold memb. rewrite existsb_exists. split.
  - intros [y [H1 H2]]. apply Z.eqb_eq in H2. subst. exact H1.
  - intro H. exists x. split; [exact H|apply Z.eqb_refl].
Qed.

Lemma memb_false x l : memb x l = false <-> ~ In x l.
Proof. rewrite <- memb_In. destruct (memb x l); split; congruence. Qed.

Lemma filter_asc_from (f : Z -> bool) lo l : asc_from lo l -> asc_from lo (filter f l).
Proof.
  revert lo; induction l as [|x l IH]; intros lo H; cbn; [exact I|].
  destruct H as [H1 H2]. destruct (f x).
  - split; [exact H1|apply IH; exact H2].
  - apply IH. eapply asc_from_weaken; [|exact H2]. lia.
Qed.

Lemma filter_ascending (f : Z -> bool) l : ascending l -> ascending (filter f l).
Proof.
  destruct l as [|x l]; cbn; [tauto|]. intro H. destruct (f x).
  - apply filter_asc_from. exact H.
  - eapply asc_from_ascending. apply filter_asc_from. exact H.
Qed.

Lemma inter_all_In x ls :
  In x (inter_all ls) <-> ls <> [] /\ Forall (In x) ls.
Proof.
  destruct ls as [|l rest]; cbn; [split; [tauto|intros [H _]; congruence]|].
  rewrite filter_In, forallb_forall. split.
  - intros [H1 H2]. split; [discriminate|]. constructor; [exact H1|].
    apply Forall_forall. intros l' Hl'. apply memb_In. auto.
  - intros [_ F]. inversion F; subst. split; [assumption|].
    intros l' Hl'. apply memb_In. rewrite Forall_forall in H2. auto.
Qed.

Lemma inter_all_ascending ls : Forall ascending ls -> ascending (inter_all ls).
Proof.
  destruct ls as [|l rest]; cbn; [tauto|]. intro F. inversion F; subst. apply filter_ascending. assumption.
Qed.

Lemma inter_In x a b : In x (inter a b) <-> In x a /\ In x b.
Proof. unfold inter. rewrite filter_In, memb_In. tauto. Qed.

Lemma inter_ascending a b : ascending a -> ascending (inter a b).
Proof. apply filter_ascending. Qed.

Lemma diff_In x a b : In x (diff a b) <-> In x a /\ ~ In x b.
Proof.
  unfold diff. rewrite filter_In, negb_true_iff, memb_false. tauto.
Qed.

Lemma diff_ascending a b : ascending a -> ascending (diff a b).
Proof. apply filter_ascending. Qed.

Lemma insert_asc_In x y l : In y (insert_asc x l) <-> y = x \/ In y l.
Proof.
  induction l as [|z l IH]; cbn; [intuition|].
  destruct (x <? z) eqn:E1; [cbn; intuition|].
  destruct (x =? z) eqn:E2.
  - apply Z.eqb_eq in E2. subst. cbn. intuition.
  - cbn. rewrite IH. intuition.
Qed.

Lemma insert_asc_asc_from lo x l : lo < x -> asc_from lo l -> asc_from lo (insert_asc x l).
Proof.
  revert lo; induction l as [|z l IH]; intros lo Hx H; cbn; [tauto|].
  destruct H as [H1 H2].
  destruct (x <? z) eqn:E1.
  - apply Z.ltb_lt in E1. cbn. tauto.
  - destruct (x =? z) eqn:E2; [cbn; tauto|].
    apply Z.ltb_ge in E1. apply Z.eqb_neq in E2. cbn. split; [exact H1|]. apply IH; [lia|exact H2].
Qed.

Lemma insert_asc_ascending x l : ascending l -> ascending (insert_asc x l).
Proof.
  intro A. destruct l as [|z l]; cbn; [exact I|].
  destruct (x <? z) eqn:E1.
  - apply Z.ltb_lt in E1. cbn. split; [exact E1|exact A].
  - destruct (x =? z) eqn:E2; [exact A|].
    apply Z.ltb_ge in E1. apply Z.eqb_neq in E2. cbn in A |- *.
    apply insert_asc_asc_from; [lia|exact A].
Qed.

Lemma union_In x a b : In x (union a b) <-> In x a \/ In x b.
Proof.
  unfold union. induction a as [|y a IH]; cbn; [tauto|]. rewrite insert_asc_In, IH. intuition.
Qed.

Lemma union_ascending a b : ascending b -> ascending (union a b).
Proof. unfold union. induction a as [|y a IH]; cbn; intro A; [exact A|]. apply insert_asc_ascending. auto. Qed.

Lemma union_all_In x ls : In x (union_all ls) <-> Exists (In x) ls.
Proof.
  unfold union_all. induction ls as [|l ls IH]; cbn.
  - split; [tauto|]. intro H; inversion H.
  - rewrite union_In, IH. split.
    + intros [H|H]; [left|right]; assumption.
    + intro H. inversion H; subst; tauto.
Qed.

Lemma union_all_ascending ls : ascending (union_all ls).
Proof. unfold union_all. induction ls as [|l ls IH]; cbn; [exact I|]. apply union_ascending. exact IH. Qed.

Lemma at_least_In min x ls :
  In x (at_least min ls) <-> Exists (In x) ls /\ Z.max 1 min <= count_in x ls.
Proof. unfold at_least. rewrite filter_In, union_all_In, Z.leb_le. tauto. Qed.

Lemma at_least_ascending min ls : ascending (at_least min ls).
Proof. apply filter_ascending. apply union_all_ascending. Qed.

(* the head / tail of an ascending list, semantically *)
Lemma hd_tl_char p m p' :
  ascending p -> ascending p' -> In m p -> (forall x, In x p -> m <= x) ->
  (forall x, In x p' <-> In x p /\ m < x) -> p = m :: p'.
Proof.
  intros A A' Hin Hmin Hp'. destruct (ascending_hd_char p m A Hin Hmin) as [l ->].
  f_equal. apply ascending_ext; [eapply asc_from_ascending; exact A|exact A'|].
  intro x. rewrite Hp'. cbn. split.
  - intro H. split; [tauto|]. eapply asc_from_In; eassumption.
  - intros [[->|H] H2]; [lia|exact H].
Qed.

Lemma empty_char (p : list Z) : (forall x, ~ In x p) -> p = [].
Proof. destruct p as [|y p]; [reflexivity|]. intro H. exfalso. apply (H y). left. reflexivity. Qed.

(* ---------- two fuels: [g] feeds the children's step functions, [f] counts loop iterations ---------- *)
Definition Ev2 {A : Type} (F : nat -> nat -> option A) (v : A) : Prop :=
  exists N, forall g f, (N <= g)%nat -> (N <= f)%nat -> F g f = Some v.

Lemma Ev2_const {A} (v : A) : Ev2 (fun _ _ => Some v) v.
Proof. exists O. reflexivity. Qed.

Lemma Ev2_ext {A} (F G : nat -> nat -> option A) v : (forall g f, F g f = G g f) -> Ev2 F v -> Ev2 G v.
Proof. intros E [N H]. exists N. intros g f Hg Hf. rewrite <- E. auto. Qed.

Lemma Ev2_diag {A} (F : nat -> nat -> option A) v : Ev2 F v -> Ev (fun f => F f f) v.
Proof. intros [N H]. exists N. intros f Hf. apply H; exact Hf. Qed.

Lemma Ev2_of_Ev {A} (F : nat -> option A) v : Ev F v -> Ev2 (fun g _ => F g) v.
Proof. intros [N H]. exists N. intros g f Hg _. apply H. exact Hg. Qed.

Lemma Ev2_bind {A B} (F : nat -> option A) (G : nat -> nat -> A -> option B) a b :
  Ev F a -> Ev2 (fun g f => G g f a) b ->
  Ev2 (fun g f => match F g with Some x => G g f x | None => None end) b.
Proof.
  intros [N1 H1] [N2 H2]. exists (Nat.max N1 N2). intros g f Hg Hf.
  rewrite H1 by lia. apply H2; lia.
Qed.

Lemma Ev2_bind2 {A B} (F : nat -> nat -> option A) (G : nat -> nat -> A -> option B) a b :
  Ev2 F a -> Ev2 (fun g f => G g f a) b ->
  Ev2 (fun g f => match F g f with Some x => G g f x | None => None end) b.
Proof.
  intros [N1 H1] [N2 H2]. exists (Nat.max N1 N2). intros g f Hg Hf.
  rewrite H1 by lia. apply H2; lia.
Qed.

(* one loop iteration that starts with a child call *)
Lemma Ev2_step {A B} (F : nat -> nat -> option B) (Ch : nat -> option A) (G : nat -> nat -> A -> option B) a b :
  (forall g f, F g (S f) = match Ch g with Some x => G g f x | None => None end) ->
  Ev Ch a -> Ev2 (fun g f => G g f a) b -> Ev2 F b.
Proof.
  intros E [N1 H1] [N2 H2]. exists (S (Nat.max N1 N2)). intros g [|f] Hg Hf; [lia|].
  rewrite E, H1 by lia. apply H2; lia.
Qed.

(* one loop iteration without a child call *)
Lemma Ev2_step0 {B} (F G : nat -> nat -> option B) b :
  (forall g f, F g (S f) = G g f) -> Ev2 G b -> Ev2 F b.
Proof.
  intros E [N H]. exists (S N). intros g [|f] Hg Hf; [lia|]. rewrite E. apply H; lia.
Qed.

Lemma Ev2_bind_pair {A B D} (Ch : nat -> option (A * B)) (K : nat -> nat -> A -> B -> option D) r c b :
  Ev Ch (r, c) -> Ev2 (fun g f => K g f r c) b ->
  Ev2 (fun g f => match Ch g with None => None | Some (r', c') => K g f r' c' end) b.
Proof.
  intros [N1 H1] [N2 H2]. exists (Nat.max N1 N2). intros g f Hg Hf.
  rewrite H1 by lia. apply H2; lia.
Qed.
