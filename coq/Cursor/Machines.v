(* Cursor engine — the compound searchers of /repo/search/searcher as state machines over
   abstract children (DEFINITIONS ONLY; lemmas are in Cursor/MachProofs*.v).

   A child is given by its state type S and two step functions
       cnext : S -> option (res * S)          child.Next(ctx)
       cadv  : S -> Z -> option (res * S)     child.Advance(ctx, ID)
   (outer [None] = out of fuel / ill-formed state, never produced with sufficient fuel) and
   [cmin : S -> Z] = child.Min().  A child's *search.DocumentMatch is represented by its id
   ([res] = option Z, None = nil); scores, locations and the DocumentMatchPool are not modelled
   (C08 is about ids only).  Parallel Go slices searchers[i] / currs[i] are one list of pairs.

   What is transcribed from where:
     ConjunctionSearcher        search_conjunction.go        initSearchers, Next (OUTER/inner loops,
                                                             maxIDIdx), Advance, advanceChild
     DisjunctionSliceSearcher   search_disjunction_slice.go  initSearchers, updateMatches, Next, Advance
     DisjunctionHeapSearcher    search_disjunction_heap.go   same; container/heap is ABSTRACTED: the heap
                                                             is a list, Pop removes an entry of least id
     BooleanSearcher            search_boolean.go            initSearchers, advanceNextMust, Next, Advance
     FilteringSearcher          search_filter.go             Next, Advance; the accept function is the
                                                             closure built by BooleanQuery.Searcher
                                                             (search/query/boolean.go) around a filter searcher
     TermSearcher / MatchAll / MatchNone / DocID             thin wrappers around index readers
     scorch readers             index/scorch/snapshot_index_tfr.go (Next, Advance with restart),
                                snapshot_index_doc.go (Next, Advance), snapshot_index.go
                                (segmentIndexAndLocalDocNumFromGlobal; sort.Search abstracted to a scan)
     unadorned AND / OR         index/scorch/optimize.go (Finish of OptimizeTFRConjunctionUnadorned /
                                OptimizeTFRDisjunctionUnadorned), unadorned.go (1-hit iterator)
   The sort of the children by Count() in NewConjunctionSearcher / newDisjunctionSliceSearcher only
   permutes the children; the machines take them in the given order.  *)
From Coq Require Import ZArith List Bool Lia.
From Verif Require Import Cursor.Cursor.
Import ListNotations.
Local Open Scope Z_scope.

Definition step_res (S : Type) := option (res * S).

Definition lift {A B : Type} (f : A -> B) (x : step_res A) : step_res B :=
  match x with Some (r, a) => Some (r, f a) | None => None end.

(* apply a partial update at index i *)
Fixpoint upd_nth {A : Type} (i : nat) (f : A -> option A) (l : list A) : option (list A) :=
  match l, i with
  | [], _ => None
  | x :: l', O => match f x with Some y => Some (y :: l') | None => None end
  | x :: l', S i' => match upd_nth i' f l' with Some l'' => Some (x :: l'') | None => None end
  end.

(* ---------- set operations on ascending lists (used by [denote] and the bitmap models) ---------- *)
Definition memb (x : Z) (l : list Z) : bool := existsb (Z.eqb x) l.

Fixpoint insert_asc (x : Z) (l : list Z) : list Z :=
  match l with
  | [] => [x]
  | y :: l' => if x <? y then x :: l else if x =? y then l else y :: insert_asc x l'
  end.
Definition union (a b : list Z) : list Z := fold_right insert_asc b a.
Definition union_all (ls : list (list Z)) : list Z := fold_right union [] ls.
Definition inter (a b : list Z) : list Z := filter (fun x => memb x b) a.
Definition inter_all (ls : list (list Z)) : list Z :=
  match ls with [] => [] | l :: rest => filter (fun x => forallb (memb x) rest) l end.
Definition diff (a b : list Z) : list Z := filter (fun x => negb (memb x b)) a.
Definition count_in (x : Z) (ls : list (list Z)) : Z :=
  Z.of_nat (length (filter (memb x) ls)).
(* ids that occur in at least [max 1 min] of the lists *)
Definition at_least (min : Z) (ls : list (list Z)) : list Z :=
  filter (fun x => Z.max 1 min <=? count_in x ls) (union_all ls).

Section Combinators.
  Variable C : Type.
  Variable cnext : C -> step_res C.
  Variable cadv : C -> Z -> step_res C.
  Variable cmin : C -> Z.

  Definition kid := (C * res)%type.

  (* currs[i], err = searchers[i].Next(ctx) *)
  Definition next1 (k : kid) : option kid :=
    match cnext (fst k) with Some (r, s') => Some (s', r) | None => None end.
  (* currs[i], err = searchers[i].Advance(ctx, ID) *)
  Definition adv1 (t : Z) (k : kid) : option kid :=
    match cadv (fst k) t with Some (r, s') => Some (s', r) | None => None end.

  (* for i, searcher := range s.searchers { s.currs[i], err = searcher.Next(ctx) } *)
  Fixpoint next_all (kids : list kid) : option (list kid) :=
    match kids with
    | [] => Some []
    | k :: rest =>
        match next1 k with
        | None => None
        | Some k' => match next_all rest with Some rest' => Some (k' :: rest') | None => None end
        end
    end.

  (* Advance of conjunction / disjunction-slice: children whose current match is non-nil and
     >= ID are left alone, every other child is advanced to ID *)
  Fixpoint adv_lagging (t : Z) (kids : list kid) : option (list kid) :=
    match kids with
    | [] => Some []
    | k :: rest =>
        match (match snd k with
               | Some c => if t <=? c then Some k else adv1 t k
               | None => adv1 t k
               end) with
        | None => None
        | Some k' => match adv_lagging t rest with Some rest' => Some (k' :: rest') | None => None end
        end
    end.

  (* ================= ConjunctionSearcher ================= *)
  Record conj_st := { cj_kids : list kid; cj_max : nat; cj_init : bool }.

  (* for x := 0; x < i; x++ { s.advanceChild(ctx, x, maxID) } *)
  Fixpoint adv_prefix (n : nat) (t : Z) (kids : list kid) : option (list kid) :=
    match n, kids with
    | O, _ => Some kids
    | S n', k :: rest =>
        match adv1 t k with
        | None => None
        | Some k' => match adv_prefix n' t rest with Some rest' => Some (k' :: rest') | None => None end
        end
    | S _, [] => Some []
    end.

  (* The OUTER loop of Next and its inner loop over i (one unit of fuel per iteration). *)
  Fixpoint conj_outer (fuel : nat) (kids : list kid) (mx : nat) {struct fuel}
    : option (res * list kid * nat) :=
    match fuel with
    | O => None
    | S f =>
        match nth_error kids mx with
        | Some (_, Some maxID) => conj_inner f kids mx maxID 0
        | _ => Some (None, kids, mx)      (* loop guard false: rv stays nil *)
        end
    end
  with conj_inner (fuel : nat) (kids : list kid) (mx : nat) (maxID : Z) (i : nat) {struct fuel}
    : option (res * list kid * nat) :=
    match fuel with
    | O => None
    | S f =>
        match nth_error kids i with
        | None =>
            (* i = len(currs): a doc matched all readers; bump every child *)
            match next_all kids with
            | Some kids' => Some (Some maxID, kids', mx)
            | None => None
            end
        | Some (_, None) => Some (None, kids, mx)            (* if s.currs[i] == nil { return nil, nil } *)
        | Some (_, Some ci) =>
            if (i =? mx)%nat then conj_inner f kids mx maxID (S i)
            else if maxID =? ci then conj_inner f kids mx maxID (S i)
            else if maxID <? ci then
              (* new maxIDIdx = i; advance [0, i) to the new maxID; continue OUTER *)
              match adv_prefix i ci kids with
              | Some kids' => conj_outer f kids' i
              | None => None
              end
            else
              (* maxID > currs[i]: advance searchers[i], do not bump i *)
              match upd_nth i (adv1 maxID) kids with
              | Some kids' => conj_inner f kids' mx maxID i
              | None => None
              end
        end
    end.

  Definition conj_init (st : conj_st) : option (list kid) :=
    if cj_init st then Some (cj_kids st) else next_all (cj_kids st).

  Definition conj_next (fuel : nat) (st : conj_st) : step_res conj_st :=
    match conj_init st with
    | None => None
    | Some kids =>
        match conj_outer fuel kids (cj_max st) with
        | Some (r, kids', mx') => Some (r, {| cj_kids := kids'; cj_max := mx'; cj_init := true |})
        | None => None
        end
    end.

  Definition conj_adv (fuel : nat) (st : conj_st) (t : Z) : step_res conj_st :=
    match conj_init st with
    | None => None
    | Some kids =>
        match adv_lagging t kids with
        | None => None
        | Some kids1 =>
            match conj_outer fuel kids1 (cj_max st) with
            | Some (r, kids', mx') => Some (r, {| cj_kids := kids'; cj_max := mx'; cj_init := true |})
            | None => None
            end
        end
    end.

  (* ================= DisjunctionSliceSearcher ================= *)
  (* matching / matchingIdxs are kept as one list of (id, index) *)
  Record dslice_st := { ds_kids : list kid; ds_min : Z; ds_match : list (Z * nat); ds_init : bool }.

  (* updateMatches: one pass over currs keeping the entries of least id *)
  Fixpoint update_matches (kids : list kid) (i : nat) (m : list (Z * nat)) : list (Z * nat) :=
    match kids with
    | [] => m
    | (_, None) :: rest => update_matches rest (S i) m
    | (_, Some c) :: rest =>
        match m with
        | [] => update_matches rest (S i) [(c, i)]
        | (m0, _) :: _ =>
            if m0 <? c then update_matches rest (S i) m              (* cmp > 0: continue *)
            else if c <? m0 then update_matches rest (S i) [(c, i)]  (* cmp < 0: restart *)
            else update_matches rest (S i) (m ++ [(c, i)])
        end
    end.

  (* for _, i := range s.matchingIdxs { s.currs[i], err = s.searchers[i].Next(ctx) } *)
  Fixpoint next_idxs (idxs : list nat) (kids : list kid) : option (list kid) :=
    match idxs with
    | [] => Some kids
    | i :: rest =>
        match upd_nth i next1 kids with
        | Some kids' => next_idxs rest kids'
        | None => None
        end
    end.

  (* for !found && len(s.matching) > 0 { ... } *)
  Fixpoint dslice_loop (fuel : nat) (min : Z) (kids : list kid) (m : list (Z * nat))
    : option (res * list kid * list (Z * nat)) :=
    match fuel with
    | O => None
    | S f =>
        match m with
        | [] => Some (None, kids, [])
        | (m0, _) :: _ =>
            let found := min <=? Z.of_nat (length m) in
            match next_idxs (map snd m) kids with
            | None => None
            | Some kids' =>
                let m' := update_matches kids' 0 [] in
                if found then Some (Some m0, kids', m') else dslice_loop f min kids' m'
            end
        end
    end.

  Definition dslice_init (st : dslice_st) : option (list kid * list (Z * nat)) :=
    if ds_init st then Some (ds_kids st, ds_match st)
    else match next_all (ds_kids st) with
         | Some kids => Some (kids, update_matches kids 0 [])
         | None => None
         end.

  Definition dslice_next (fuel : nat) (st : dslice_st) : step_res dslice_st :=
    match dslice_init st with
    | None => None
    | Some (kids, m) =>
        match dslice_loop fuel (ds_min st) kids m with
        | Some (r, kids', m') =>
            Some (r, {| ds_kids := kids'; ds_min := ds_min st; ds_match := m'; ds_init := true |})
        | None => None
        end
    end.

  Definition dslice_adv (fuel : nat) (st : dslice_st) (t : Z) : step_res dslice_st :=
    match dslice_init st with
    | None => None
    | Some (kids, _) =>
        match adv_lagging t kids with
        | None => None
        | Some kids1 =>
            match dslice_loop fuel (ds_min st) kids1 (update_matches kids1 0 []) with
            | Some (r, kids', m') =>
                Some (r, {| ds_kids := kids'; ds_min := ds_min st; ds_match := m'; ds_init := true |})
            | None => None
            end
        end
    end.

  (* ================= DisjunctionHeapSearcher ================= *)
  (* A SearcherCurr {searcher, curr, matchingIdx} is an entry (searcher state, curr id): the Go
     code reaches a child only through the SearcherCurr that holds it (matchingCurr.searcher.Next,
     searcherCurr.searcher.Advance), and a child whose Next/Advance returned nil is never pushed
     back, i.e. it is dropped.  matchingIdx is used for scoring only and is not modelled.
     container/heap is abstracted: [dh_heap] is a list, heap.Push is cons, heap.Pop removes the
     first entry of least id (Less compares ids only, so which of several equal entries comes out
     first is not determined by the Go code either).  [dh_searchers] is s.searchers, used by
     initSearchers only. *)
  Definition hentry := (C * Z)%type.
  Record dheap_st := { dh_searchers : list C; dh_min : Z; dh_heap : list hentry;
                       dh_match : list hentry; dh_init : bool }.

  Fixpoint heap_least (h : list hentry) : option Z :=
    match h with
    | [] => None
    | (_, c) :: h' => match heap_least h' with Some m => Some (Z.min c m) | None => Some c end
    end.
  Fixpoint heap_remove (m : Z) (h : list hentry) : option (hentry * list hentry) :=
    match h with
    | [] => None
    | (k, c) :: h' =>
        if c =? m then Some ((k, c), h')
        else match heap_remove m h' with Some (e, h'') => Some (e, (k, c) :: h'') | None => None end
    end.
  Definition heap_pop (h : list hentry) : option (hentry * list hentry) :=
    match heap_least h with Some m => heap_remove m h | None => None end.

  (* for len(s.heap) > 0 && next.curr.ID == s.heap[0].curr.ID { pop, append } ; n bounds len(heap) *)
  Fixpoint pop_equal (n : nat) (id : Z) (h m : list hentry) : list hentry * list hentry :=
    match n with
    | O => (h, m)
    | S n' =>
        match heap_pop h with
        | Some ((k, c), h') => if c =? id then pop_equal n' id h' (m ++ [(k, c)]) else (h, m)
        | None => (h, m)
        end
    end.

  (* updateMatches: (heap, matching) *)
  Definition heap_update_matches (h : list hentry) : list hentry * list hentry :=
    match heap_pop h with
    | Some ((k, c), h') => pop_equal (length h') c h' [(k, c)]
    | None => (h, [])
    end.

  (* initSearchers: Next on every child, push those with a match *)
  Fixpoint dheap_init_kids (kids : list C) (h : list hentry) : option (list hentry) :=
    match kids with
    | [] => Some h
    | k :: rest =>
        match cnext k with
        | None => None
        | Some (r, k') => dheap_init_kids rest (match r with Some c => (k', c) :: h | None => h end)
        end
    end.

  (* for _, matchingCurr := range s.matchingCurrs { curr = matchingCurr.searcher.Next(); if curr != nil { push } } *)
  Fixpoint dheap_next_matching (m : list hentry) (h : list hentry) : option (list hentry) :=
    match m with
    | [] => Some h
    | (k, _) :: rest =>
        match cnext k with
        | None => None
        | Some (r, k') => dheap_next_matching rest (match r with Some c => (k', c) :: h | None => h end)
        end
    end.

  Fixpoint dheap_loop (fuel : nat) (min : Z) (h m : list hentry)
    : option (res * list hentry * list hentry) :=
    match fuel with
    | O => None
    | S f =>
        match m with
        | [] => Some (None, h, [])
        | (_, m0) :: _ =>
            let found := min <=? Z.of_nat (length m) in
            match dheap_next_matching m h with
            | None => None
            | Some h1 =>
                let '(h2, m') := heap_update_matches h1 in
                if found then Some (Some m0, h2, m') else dheap_loop f min h2 m'
            end
        end
    end.

  Definition dheap_initialise (st : dheap_st) : option (list hentry * list hentry) :=
    if dh_init st then Some (dh_heap st, dh_match st)
    else match dheap_init_kids (dh_searchers st) [] with
         | Some h => Some (heap_update_matches h)
         | None => None
         end.

  Definition dheap_next (fuel : nat) (st : dheap_st) : step_res dheap_st :=
    match dheap_initialise st with
    | None => None
    | Some (h, m) =>
        match dheap_loop fuel (dh_min st) h m with
        | Some (r, h', m') =>
            Some (r, {| dh_searchers := dh_searchers st; dh_min := dh_min st; dh_heap := h'; dh_match := m'; dh_init := true |})
        | None => None
        end
    end.

  (* for len(s.heap) > 0 && s.heap[0].curr.ID < ID { pop; curr = searcher.Advance(ID); if curr != nil { tmp = append(tmp, it) } } *)
  Fixpoint dheap_adv_loop (fuel : nat) (t : Z) (h tmp : list hentry) : option (list hentry * list hentry) :=
    match fuel with
    | O => None
    | S f =>
        match heap_pop h with
        | None => Some (h, tmp)
        | Some ((k, c), h') =>
            if c <? t then
              match cadv k t with
              | None => None
              | Some (r, k') => dheap_adv_loop f t h' (match r with Some c' => tmp ++ [(k', c')] | None => tmp end)
              end
            else Some (h, tmp)
        end
    end.

  Definition dheap_adv (fuel : nat) (st : dheap_st) (t : Z) : step_res dheap_st :=
    match dheap_initialise st with
    | None => None
    | Some (h, m) =>
        (* toss matching back onto the heap *)
        let h0 := rev m ++ h in
        match dheap_adv_loop fuel t h0 [] with
        | None => None
        | Some (h1, tmp) =>
            let '(h2, m2) := heap_update_matches (rev tmp ++ h1) in
            match dheap_loop fuel (dh_min st) h2 m2 with
            | Some (r, h', m') =>
                Some (r, {| dh_searchers := dh_searchers st; dh_min := dh_min st; dh_heap := h'; dh_match := m'; dh_init := true |})
            | None => None
            end
        end
    end.

  (* ================= BooleanSearcher ================= *)
  (* [bl_guard]: whether Advance re-advances the should cursor only when it trails the target
     (T1 fact XCursor.boolean_should_guard, read off the AST of BooleanSearcher.Advance). *)
  Record bool_st := { bl_guard : bool;
                      bl_must : option C; bl_should : option C; bl_mustnot : option C;
                      bl_cm : res; bl_cs : res; bl_cmn : res; bl_cur : res;
                      bl_init : bool; bl_done : bool }.

  Definition opt_next (o : option C) (c : res) : option (option C * res) :=
    match o with
    | None => Some (None, c)
    | Some k => match cnext k with Some (r, k') => Some (Some k', r) | None => None end
    end.
  Definition opt_adv (o : option C) (c : res) (t : Z) : option (option C * res) :=
    match o with
    | None => Some (None, c)
    | Some k => match cadv k t with Some (r, k') => Some (Some k', r) | None => None end
    end.

  (* the currentID rule shared by initSearchers, advanceNextMust and Advance *)
  Definition bool_current (must : option C) (cm cs : res) : res :=
    match must with
    | Some _ => cm      (* mustSearcher != nil && currMust != nil -> currMust.ID ; else nil *)
    | None => cs        (* mustSearcher == nil && currShould != nil -> currShould.ID ; else nil *)
    end.

  Definition bool_init (st : bool_st) : option bool_st :=
    if bl_init st then Some st
    else
      match opt_next (bl_must st) (bl_cm st) with
      | None => None
      | Some (m', cm') =>
          match opt_next (bl_should st) (bl_cs st) with
          | None => None
          | Some (s', cs') =>
              match opt_next (bl_mustnot st) (bl_cmn st) with
              | None => None
              | Some (n', cmn') =>
                  Some {| bl_guard := bl_guard st; bl_must := m'; bl_should := s'; bl_mustnot := n';
                          bl_cm := cm'; bl_cs := cs'; bl_cmn := cmn'; bl_cur := bool_current m' cm' cs';
                          bl_init := true; bl_done := bl_done st |}
              end
          end
      end.

  (* advanceNextMust *)
  Definition bool_advance_next_must (st : bool_st) : option bool_st :=
    match bl_must st with
    | Some k =>
        match cnext k with
        | None => None
        | Some (r, k') =>
            Some {| bl_guard := bl_guard st; bl_must := Some k'; bl_should := bl_should st; bl_mustnot := bl_mustnot st;
                    bl_cm := r; bl_cs := bl_cs st; bl_cmn := bl_cmn st; bl_cur := r;
                    bl_init := bl_init st; bl_done := bl_done st |}
        end
    | None =>
        match bl_should st with
        | None => None       (* nil shouldSearcher dereferenced: not reachable (currentID would be nil) *)
        | Some k =>
            match cnext k with
            | None => None
            | Some (r, k') =>
                Some {| bl_guard := bl_guard st; bl_must := None; bl_should := Some k'; bl_mustnot := bl_mustnot st;
                        bl_cm := bl_cm st; bl_cs := r; bl_cmn := bl_cmn st; bl_cur := r;
                        bl_init := bl_init st; bl_done := bl_done st |}
            end
        end
    end.

  Definition set_cmn (st : bool_st) (n : option C) (c : res) : bool_st :=
    {| bl_guard := bl_guard st; bl_must := bl_must st; bl_should := bl_should st; bl_mustnot := n;
       bl_cm := bl_cm st; bl_cs := bl_cs st; bl_cmn := c; bl_cur := bl_cur st;
       bl_init := bl_init st; bl_done := bl_done st |}.
  Definition set_cs (st : bool_st) (s : option C) (c : res) : bool_st :=
    {| bl_guard := bl_guard st; bl_must := bl_must st; bl_should := s; bl_mustnot := bl_mustnot st;
       bl_cm := bl_cm st; bl_cs := c; bl_cmn := bl_cmn st; bl_cur := bl_cur st;
       bl_init := bl_init st; bl_done := bl_done st |}.

  (* "s.shouldSearcher.Min() <= 0" (search_boolean.go; the comparison was "== 0" before /repo
     895ea25: a negative minimum makes the should clause optional, not required) *)
  Definition should_min_is_zero (st : bool_st) : bool :=
    match bl_should st with Some k => cmin k <=? 0 | None => false end.

  (* "rv = score(...); advanceNextMust(rv); break" *)
  Definition bool_emit (st : bool_st) (id : Z) : option (res * bool_st) :=
    match bool_advance_next_must st with Some st' => Some (Some id, st') | None => None end.

  (* for s.currentID != nil { ... } ; the result is rv and the state after the loop *)
  Fixpoint bool_loop (fuel : nat) (st : bool_st) : option (res * bool_st) :=
    match fuel with
    | O => None
    | S f =>
        match bl_cur st with
        | None => Some (None, st)
        | Some cur =>
            (* ---- must-not ---- *)
            let after_mustnot : option (bool * bool_st) :=     (* (excluded?, state) *)
              match bl_cmn st with
              | None => Some (false, st)
              | Some mn =>
                  if mn <? cur then
                    match opt_adv (bl_mustnot st) (bl_cmn st) cur with
                    | None => None
                    | Some (n', c') =>
                        let st1 := set_cmn st n' c' in
                        match c' with
                        | Some mn' => Some (mn' =? cur, st1)
                        | None => Some (false, st1)
                        end
                    end
                  else if mn =? cur then Some (true, st)
                  else Some (false, st)
              end in
            match after_mustnot with
            | None => None
            | Some (true, st1) =>
                match bool_advance_next_must st1 with Some st2 => bool_loop f st2 | None => None end
            | Some (false, st1) =>
                (* ---- should ---- *)
                match bl_cs st1 with
                | Some sc =>
                    if sc <? cur then
                      match opt_adv (bl_should st1) (bl_cs st1) cur with
                      | None => None
                      | Some (s', c') =>
                          let st2 := set_cs st1 s' c' in
                          if (match c' with Some sc' => sc' =? cur | None => false end) then bool_emit st2 cur
                          else if should_min_is_zero st2 then bool_emit st2 cur
                          else match bool_advance_next_must st2 with Some st3 => bool_loop f st3 | None => None end
                      end
                    else if sc =? cur then bool_emit st1 cur
                    else if (match bl_should st1 with None => true | Some _ => should_min_is_zero st1 end)
                    then bool_emit st1 cur
                    else match bool_advance_next_must st1 with Some st3 => bool_loop f st3 | None => None end
                | None =>
                    (* shouldCmpOrNil = 1 *)
                    if (match bl_should st1 with None => true | Some _ => should_min_is_zero st1 end)
                    then bool_emit st1 cur
                    else match bool_advance_next_must st1 with Some st3 => bool_loop f st3 | None => None end
                end
            end
        end
    end.

  Definition set_done (st : bool_st) : bool_st :=
    {| bl_guard := bl_guard st; bl_must := bl_must st; bl_should := bl_should st; bl_mustnot := bl_mustnot st;
       bl_cm := bl_cm st; bl_cs := bl_cs st; bl_cmn := bl_cmn st; bl_cur := bl_cur st;
       bl_init := bl_init st; bl_done := true |}.

  Definition bool_next_body (fuel : nat) (st : bool_st) : step_res bool_st :=
    match bool_loop fuel st with
    | None => None
    | Some (Some id, st') => Some (Some id, st')
    | Some (None, st') => Some (None, set_done st')
    end.

  Definition bool_next (fuel : nat) (st : bool_st) : step_res bool_st :=
    if bl_done st then Some (None, st)
    else match bool_init st with
         | None => None
         | Some st0 => bool_next_body fuel st0
         end.

  Definition bool_adv (fuel : nat) (st : bool_st) (t : Z) : step_res bool_st :=
    if bl_done st then Some (None, st)
    else
      match bool_init st with
      | None => None
      | Some st0 =>
          if (match bl_cur st0 with None => true | Some cur => cur <? t end) then
            match opt_adv (bl_must st0) (bl_cm st0) t with
            | None => None
            | Some (m', cm') =>
                match (if bl_guard st0 && negb (match bl_cs st0 with None => true | Some sc => sc <? t end)
                       then Some (bl_should st0, bl_cs st0)
                       else opt_adv (bl_should st0) (bl_cs st0) t) with
                | None => None
                | Some (s', cs') =>
                    match (if (match bl_cmn st0 with None => true | Some mn => mn <? t end)
                           then opt_adv (bl_mustnot st0) (bl_cmn st0) t
                           else Some (bl_mustnot st0, bl_cmn st0)) with
                    | None => None
                    | Some (n', cmn') =>
                        bool_next_body fuel
                          {| bl_guard := bl_guard st0; bl_must := m'; bl_should := s'; bl_mustnot := n';
                             bl_cm := cm'; bl_cs := cs'; bl_cmn := cmn'; bl_cur := bool_current m' cm' cs';
                             bl_init := true; bl_done := false |}
                    end
                end
            end
          else bool_next_body fuel st0
      end.

  (* ================= FilteringSearcher + the filter closure of BooleanQuery.Searcher ================= *)
  Record filt_st := { fl_child : C; fl_filter : C; fl_finit : bool; fl_ref : res }.

  (* filterFunc(sctx, d): (accepted?, new closure state) *)
  Definition filt_accept (st : filt_st) (d : Z) : option (bool * filt_st) :=
    let st0 : option filt_st :=
      if fl_finit st then Some st
      else match cnext (fl_filter st) with
           | Some (r, f') => Some {| fl_child := fl_child st; fl_filter := f'; fl_finit := true; fl_ref := r |}
           | None => None
           end in
    match st0 with
    | None => None
    | Some st1 =>
        match fl_ref st1 with
        | None => Some (false, st1)
        | Some rf =>
            if rf <? d then
              match cadv (fl_filter st1) d with
              | None => None
              | Some (r, f') =>
                  let st2 := {| fl_child := fl_child st1; fl_filter := f'; fl_finit := true; fl_ref := r |} in
                  match r with
                  | None => Some (false, st2)
                  | Some rf' => Some (rf' =? d, st2)
                  end
              end
            else Some (rf =? d, st1)
        end
    end.

  Definition set_child (st : filt_st) (c : C) : filt_st :=
    {| fl_child := c; fl_filter := fl_filter st; fl_finit := fl_finit st; fl_ref := fl_ref st |}.

  (* for next != nil { if accept(next) { return next }; next = child.Next() } *)
  Fixpoint filt_loop (fuel : nat) (st : filt_st) (cur : res) : step_res filt_st :=
    match fuel with
    | O => None
    | S f =>
        match cur with
        | None => Some (None, st)
        | Some d =>
            match filt_accept st d with
            | None => None
            | Some (true, st1) => Some (Some d, st1)
            | Some (false, st1) =>
                match cnext (fl_child st1) with
                | None => None
                | Some (r, c') => filt_loop f (set_child st1 c') r
                end
            end
        end
    end.

  Definition filt_next (fuel : nat) (st : filt_st) : step_res filt_st :=
    match cnext (fl_child st) with
    | None => None
    | Some (r, c') => filt_loop fuel (set_child st c') r
    end.

  (* Advance: adv = child.Advance(ID); nil -> nil; accept -> adv; else f.Next() — which is the
     same loop entered with cur = adv *)
  Definition filt_adv (fuel : nat) (st : filt_st) (t : Z) : step_res filt_st :=
    match cadv (fl_child st) t with
    | None => None
    | Some (r, c') => filt_loop fuel (set_child st c') r
    end.

End Combinators.

Arguments cj_kids {C}. Arguments cj_max {C}. Arguments cj_init {C}.
Arguments ds_kids {C}. Arguments ds_min {C}. Arguments ds_match {C}. Arguments ds_init {C}.
Arguments dh_searchers {C}. Arguments dh_min {C}. Arguments dh_heap {C}. Arguments dh_match {C}. Arguments dh_init {C}.
Arguments bl_guard {C}. Arguments bl_must {C}. Arguments bl_should {C}. Arguments bl_mustnot {C}.
Arguments bl_cm {C}. Arguments bl_cs {C}. Arguments bl_cmn {C}. Arguments bl_cur {C}.
Arguments bl_init {C}. Arguments bl_done {C}.
Arguments fl_child {C}. Arguments fl_filter {C}. Arguments fl_finit {C}. Arguments fl_ref {C}.

(* ================================================================== *)
(* The universal state, the tree of searchers and its construction      *)
(* ================================================================== *)

Inductive state :=
| SLeaf (p : list Z)                 (* TermSearcher / DocIDSearcher / MatchAll / MatchNone: a reader over p *)
| SConj (st : conj_st state)
| SDisjS (st : dslice_st state)
| SDisjH (st : dheap_st state)
| SBool (st : bool_st state)
| SFilter (st : filt_st state).

(* Searcher.Min() *)
Fixpoint umin (s : state) : Z :=
  match s with
  | SLeaf _ => 0
  | SConj _ => 0
  | SDisjS st => ds_min st
  | SDisjH st => dh_min st
  | SBool _ => 0
  | SFilter (Build_filt_st _ c _ _ _) => umin c
  end.

Fixpoint unext (fuel : nat) (s : state) {struct fuel} : step_res state :=
  match fuel with
  | O => None
  | S f =>
      match s with
      | SLeaf p => let '(r, p') := spec_next p in Some (r, SLeaf p')
      | SConj st => lift SConj (conj_next state (unext f) (uadv f) f st)
      | SDisjS st => lift SDisjS (dslice_next state (unext f) f st)
      | SDisjH st => lift SDisjH (dheap_next state (unext f) f st)
      | SBool st => lift SBool (bool_next state (unext f) (uadv f) umin f st)
      | SFilter st => lift SFilter (filt_next state (unext f) (uadv f) f st)
      end
  end
with uadv (fuel : nat) (s : state) (t : Z) {struct fuel} : step_res state :=
  match fuel with
  | O => None
  | S f =>
      match s with
      | SLeaf p => let '(r, p') := spec_advance t p in Some (r, SLeaf p')
      | SConj st => lift SConj (conj_adv state (unext f) (uadv f) f st t)
      | SDisjS st => lift SDisjS (dslice_adv state (unext f) (uadv f) f st t)
      | SDisjH st => lift SDisjH (dheap_adv state (unext f) (uadv f) f st t)
      | SBool st => lift SBool (bool_adv state (unext f) (uadv f) umin f st t)
      | SFilter st => lift SFilter (filt_adv state (unext f) (uadv f) f st t)
      end
  end.

(* the tree of searchers a query builds *)
Inductive stree :=
| Leaf (l : list Z)
| Conj (ts : list stree)
| DisjS (min : Z) (ts : list stree)
| DisjH (min : Z) (ts : list stree)
| Bool (guard : bool) (must should mustnot : option stree)
| Filter (c f : stree).

Definition build_opt (b : stree -> state) (o : option stree) : option state :=
  match o with Some t => Some (b t) | None => None end.

Fixpoint build (t : stree) : state :=
  match t with
  | Leaf l => SLeaf l
  | Conj ts => SConj {| cj_kids := map (fun c => (build c, None)) ts; cj_max := 0; cj_init := false |}
  | DisjS min ts =>
      SDisjS {| ds_kids := map (fun c => (build c, None)) ts; ds_min := min; ds_match := []; ds_init := false |}
  | DisjH min ts =>
      SDisjH {| dh_searchers := map build ts; dh_min := min; dh_heap := []; dh_match := []; dh_init := false |}
  | Bool g m s n =>
      SBool {| bl_guard := g;
               bl_must := match m with Some c => Some (build c) | None => None end;
               bl_should := match s with Some c => Some (build c) | None => None end;
               bl_mustnot := match n with Some c => Some (build c) | None => None end;
               bl_cm := None; bl_cs := None; bl_cmn := None; bl_cur := None;
               bl_init := false; bl_done := false |}
  | Filter c f => SFilter {| fl_child := build c; fl_filter := build f; fl_finit := false; fl_ref := None |}
  end.

(* Min() of the searcher built for a tree *)
Fixpoint min_of (t : stree) : Z :=
  match t with
  | Leaf _ => 0 | Conj _ => 0 | DisjS m _ => m | DisjH m _ => m | Bool _ _ _ _ => 0
  | Filter c _ => min_of c
  end.

(* SPEC: the set expression of a tree (ascending list of ids) *)
Fixpoint denote (t : stree) : list Z :=
  match t with
  | Leaf l => l
  | Conj ts => inter_all (map denote ts)
  | DisjS min ts => at_least min (map denote ts)
  | DisjH min ts => at_least min (map denote ts)
  | Bool _ m s n =>
      let base :=
        match m, s with
        | Some m', Some s' => if min_of s' <=? 0 then denote m' else inter (denote m') (denote s')
        | Some m', None => denote m'
        | None, Some s' => denote s'
        | None, None => []
        end in
      match n with Some n' => diff base (denote n') | None => base end
  | Filter c f => inter (denote c) (denote f)
  end.

(* size of a tree: the default fuel of [run] is derived from it *)
Fixpoint tsize (t : stree) : nat :=
  match t with
  | Leaf l => S (length l)
  | Conj ts => S (fold_right (fun c a => tsize c + a)%nat O ts)
  | DisjS _ ts => S (fold_right (fun c a => tsize c + a)%nat O ts)
  | DisjH _ ts => S (fold_right (fun c a => tsize c + a)%nat O ts)
  | Bool _ m s n =>
      S ((match m with Some c => tsize c | None => O end) +
                   (match s with Some c => tsize c | None => O end) +
                   (match n with Some c => tsize c | None => O end))
  | Filter c f => S (tsize c + tsize f)
  end.

(* run a program on a machine state *)
Definition ustep (fuel : nat) (s : state) (c : call) : step_res state :=
  match c with Next => unext fuel s | Advance t => uadv fuel s t end.

Fixpoint run (fuel : nat) (s : state) (prog : list call) : option (list res) :=
  match prog with
  | [] => Some []
  | c :: prog' =>
      match ustep fuel s c with
      | None => None
      | Some (r, s') => match run fuel s' prog' with Some rs => Some (r :: rs) | None => None end
      end
  end.

Definition default_fuel (t : stree) : nat := (tsize t + 4) * (tsize t + 4).
