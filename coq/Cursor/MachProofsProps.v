(* Cursor engine — the C08 statements about searcher trees, derived from [program_subsequence]
   and the spec lemmas of Cursor.v. *)
From Coq Require Import ZArith List Bool Lia.
From Verif Require Import Cursor.Cursor Cursor.Machines Cursor.MachProofsBase Cursor.MachProofsTree.
Import ListNotations.
Local Open Scope Z_scope.

Lemma run_spec_next_only L : run_spec L (repeat Next (length L)) = map Some L.
Proof. induction L as [|x L IH]; cbn; [reflexivity|]. f_equal. exact IH. Qed.

Lemma pending_after_next_only L : pending_after L (repeat Next (length L)) = [].
Proof. induction L as [|x L IH]; cbn; [reflexivity|exact IH]. Qed.

Lemma run_spec_app L p1 p2 : run_spec L (p1 ++ p2) = run_spec L p1 ++ run_spec (pending_after L p1) p2.
Proof.
  revert L; induction p1 as [|c p1 IH]; intro L; cbn; [reflexivity|].
  destruct (spec_step L c) as [r p'] eqn:E. cbn. f_equal. apply IH.
Qed.

Lemma pending_after_ascending L prog : ascending L -> ascending (pending_after L prog).
Proof.
  revert L; induction prog as [|c prog IH]; intros L A; cbn; [exact A|]. apply IH. apply spec_step_ascending. exact A.
Qed.

(* what is still pending after a program: the matches greater than every id returned so far
   and not smaller than any Advance target so far *)
Lemma pending_after_In L prog x : ascending L ->
  (In x (pending_after L prog) <->
   In x L /\ Forall (fun r => r < x) (somes (run_spec L prog)) /\
   Forall (fun c => match c with Advance t => t <= x | Next => True end) prog).
Proof.
  revert L; induction prog as [|c prog IH]; intros L A; cbn [pending_after run_spec].
  - cbn. split; [intro H; repeat split; auto|tauto].
  - pose proof (spec_step_pending L c x A) as Hp. pose proof (spec_step_ascending L c A) as A'.
    destruct (spec_step L c) as [r p'] eqn:E. cbn [fst snd] in *. rewrite (IH p' A'), Hp.
    destruct r as [r|]; cbn [somes]; split.
    + intros [[H1 [H2 H3]] [H4 H5]]. repeat split; auto.
    + intros [H1 [H2 H3]]. inversion H2; subst. inversion H3; subst. repeat split; auto.
    + intros [[H1 [H2 []]] _].
    + intros [H1 [H2 H3]]. exfalso.
      (* nothing returned: the pending list is empty, so x cannot be ... *)
      pose proof (spec_step_None L c) as Hn. rewrite E in Hn. cbn in Hn. specialize (Hn eq_refl). subst p'.
      inversion H3; subst.
      destruct c as [|t]; cbn in E; unfold spec_next, spec_advance in E.
      * destruct L; cbn in E; [destruct H1|discriminate].
      * pose proof (proj2 (dropwhile_lt_In t L x A) (conj H1 H4)) as Hin.
        destruct (dropwhile_lt t L); [destruct Hin|discriminate].
Qed.

Section Facts.
  Variable t : stree.
  Hypothesis Hwf : wf t.

  (* the machine's results on any program have every property of the reference cursor *)
  Theorem program_subsequence_facts prog :
    exists N, forall fuel, (N <= fuel)%nat ->
      exists rs, run fuel (build t) prog = Some rs /\
        rs = run_spec (denote t) prog /\
        ascending (somes rs) /\                     (* strictly increasing ids *)
        subseq (somes rs) (denote t) /\             (* a subsequence of the set expression *)
        check_cursor_trace prog rs = true.
  Proof.
    destruct (program_subsequence t Hwf prog) as [N HN]. exists N. intros fuel Hf.
    exists (run_spec (denote t) prog). split; [apply HN; exact Hf|]. split; [reflexivity|].
    pose proof (denote_ascending t Hwf) as A. split; [apply run_spec_ascending; exact A|].
    split; [apply run_spec_subseq|]. apply check_cursor_trace_sound. exists (denote t). auto.
  Qed.

  (* the set expression is exactly the Next-only enumeration *)
  Theorem next_only_enumeration :
    exists N, forall fuel, (N <= fuel)%nat ->
      run fuel (build t) (repeat Next (length (denote t)) ++ [Next]) = Some (map Some (denote t) ++ [None]).
  Proof.
    destruct (program_subsequence t Hwf (repeat Next (length (denote t)) ++ [Next])) as [N HN].
    exists N. intros fuel Hf. rewrite (HN fuel Hf). f_equal.
    rewrite run_spec_app, run_spec_next_only. f_equal.
    rewrite pending_after_next_only. reflexivity.
  Qed.

  (* Advance(tgt) after any program prog1: returns the least pending match >= tgt *)
  Theorem advance_least prog1 tgt prog2 :
    exists N, forall fuel, (N <= fuel)%nat ->
      exists rs1 r rs2,
        run fuel (build t) (prog1 ++ Advance tgt :: prog2) = Some (rs1 ++ r :: rs2) /\
        length rs1 = length prog1 /\
        let p := pending_after (denote t) prog1 in
        match r with
        | Some x => In x p /\ tgt <= x /\ forall y, In y p -> tgt <= y -> x <= y
        | None => forall y, In y p -> y < tgt
        end.
  Proof.
    destruct (program_subsequence t Hwf (prog1 ++ Advance tgt :: prog2)) as [N HN].
    exists N. intros fuel Hf. rewrite (HN fuel Hf), run_spec_app. cbn [run_spec].
    pose proof (pending_after_ascending (denote t) prog1 (denote_ascending t Hwf)) as A.
    pose proof (spec_advance_least (pending_after (denote t) prog1) tgt A) as Hl.
    cbn [spec_step]. destruct (spec_advance tgt (pending_after (denote t) prog1)) as [r p'].
    exists (run_spec (denote t) prog1), r, (run_spec p' prog2). split; [reflexivity|]. split; [apply run_spec_length|exact Hl].
  Qed.

  Theorem exhausted_stays_exhausted prog1 c prog2 :
    fst (spec_step (pending_after (denote t) prog1) c) = None ->
    exists N, forall fuel, (N <= fuel)%nat ->
      run fuel (build t) (prog1 ++ c :: prog2) =
      Some (run_spec (denote t) prog1 ++ None :: map (fun _ => None) prog2).
  Proof.
    intro H. destruct (program_subsequence t Hwf (prog1 ++ c :: prog2)) as [N HN].
    exists N. intros fuel Hf. rewrite (HN fuel Hf). f_equal. apply spec_exhausted_stays. exact H.
  Qed.

  Theorem advance_first_call tgt prog :
    exists N, forall fuel, (N <= fuel)%nat ->
      match run fuel (build t) (Advance tgt :: prog) with
      | Some (Some x :: _) => In x (denote t) /\ tgt <= x /\ forall y, In y (denote t) -> tgt <= y -> x <= y
      | Some (None :: _) => forall y, In y (denote t) -> y < tgt
      | _ => False
      end.
  Proof.
    destruct (program_subsequence t Hwf (Advance tgt :: prog)) as [N HN].
    exists N. intros fuel Hf. rewrite (HN fuel Hf).
    exact (advance_first_call_spec (denote t) tgt prog (denote_ascending t Hwf)).
  Qed.

  Theorem advance_past_end tgt prog :
    (forall y, In y (denote t) -> y < tgt) ->
    exists N, forall fuel, (N <= fuel)%nat ->
      run fuel (build t) (Advance tgt :: prog) = Some (None :: map (fun _ => None) prog).
  Proof.
    intro H. destruct (program_subsequence t Hwf (Advance tgt :: prog)) as [N HN].
    exists N. intros fuel Hf. rewrite (HN fuel Hf). cbn [run_spec spec_step].
    rewrite (advance_past_end_spec (denote t) tgt H). rewrite run_spec_nil. reflexivity.
  Qed.
End Facts.

(* the hypotheses are satisfiable on a non-trivial tree *)
Example wf_example :
  wf (Bool true (Some (Conj [Leaf [1; 3; 5; 7]; DisjH 1 [Leaf [3; 5]; Leaf [7; 9]]]))
               (Some (DisjS 1 [Leaf [5]; Filter (Leaf [1; 7]) (Leaf [7])]))
               (Some (Leaf [3]))).
Proof. cbn. repeat split; lia. Qed.
