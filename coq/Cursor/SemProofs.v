(* Cursor engine — C02 theorems about the specification [sem] (Cursor/Sem.v):
   structural facts (sorted, duplicate free, inside the corpus, locality / partition
   independence) and the algebraic laws that tie the compound rules down. *)
From Coq Require Import ZArith List Bool Sorted Lia.
From Verif Require Import Common.Bytes Numeric.Model Cursor.Sem Cursor.SemProofsStr.
Import ListNotations.
Local Open Scope Z_scope.

(* ---------------------------------------------------------------- list helpers *)

Definition inter (a b : list Z) : list Z := filter (fun x => memZ x b) a.
Definition diff (a b : list Z) : list Z := filter (fun x => negb (memZ x b)) a.

Lemma memZ_In x l : memZ x l = true <-> In x l.
Proof.
  unfold memZ. rewrite existsb_exists. split.
  - intros (y & Hy & E). apply Z.eqb_eq in E. subst; auto.
  - intro H. exists x; split; auto. apply Z.eqb_refl.
Qed.

Lemma filter_map_comm {A B} (f : A -> B) (p : B -> bool) l :
  filter p (map f l) = map f (filter (fun x => p (f x)) l).
Proof.
  induction l as [|x l IH]; cbn; [reflexivity|]. destruct (p (f x)); cbn; rewrite IH; reflexivity.
Qed.

Lemma filter_filter {A} (p q : A -> bool) l :
  filter q (filter p l) = filter (fun x => p x && q x) l.
Proof.
  induction l as [|x l IH]; cbn; [reflexivity|].
  destruct (p x); cbn; [destruct (q x); cbn; rewrite IH; reflexivity | exact IH].
Qed.

Lemma sorted_map_filter {A} (f : A -> Z) (p : A -> bool) l :
  StronglySorted Z.lt (map f l) -> StronglySorted Z.lt (map f (filter p l)).
Proof.
  induction l as [|x l IH]; cbn; intro H; [constructor|].
  inversion H as [|? ? Hs Hf]; subst. destruct (p x); cbn; auto.
  constructor; auto.
  rewrite Forall_forall in *. intros y Hy. apply Hf.
  apply in_map_iff in Hy as (z & <- & Hz). apply filter_In in Hz as [Hz _]. apply in_map; exact Hz.
Qed.

Lemma sorted_lt_NoDup l : StronglySorted Z.lt l -> NoDup l.
Proof.
  induction 1 as [|x l Hs IH Hf]; constructor; auto.
  intro Hin. rewrite Forall_forall in Hf. specialize (Hf x Hin). lia.
Qed.

Lemma NoDup_map_inj {A} (f : A -> Z) l x y :
  NoDup (map f l) -> In x l -> In y l -> f x = f y -> x = y.
Proof.
  induction l as [|z l IH]; cbn; intros Hnd Hx Hy E; [contradiction|].
  inversion Hnd as [|? ? Hni Hnd']; subst.
  destruct Hx as [<-|Hx], Hy as [<-|Hy]; auto.
  - exfalso. apply Hni. rewrite E. apply in_map; exact Hy.
  - exfalso. apply Hni. rewrite <- E. apply in_map; exact Hx.
Qed.

Lemma ascendingb_sorted l : ascendingb l = true <-> StronglySorted Z.lt l.
Proof.
  induction l as [|x l IH]; [split; [constructor|reflexivity]|].
  cbn [ascendingb]. destruct l as [|y l'].
  - split; [repeat constructor | reflexivity].
  - rewrite andb_true_iff, IH, Z.ltb_lt. split.
    + intros [Hxy Hs]. constructor; auto. constructor; auto.
      inversion Hs as [|? ? _ Hf]; subst. rewrite Forall_forall in *. intros z Hz.
      specialize (Hf z Hz). lia.
    + intro Hs. inversion Hs as [|? ? Hs' Hf]; subst. split; auto.
      inversion Hf; auto.
Qed.

Lemma corpus_wfb_spec c : corpus_wfb c = true <-> corpus_wf c.
Proof. apply ascendingb_sorted. Qed.

Lemma countb_nonneg {A} (p : A -> bool) l : 0 <= countb p l.
Proof. unfold countb. lia. Qed.

Lemma countb_pos {A} (p : A -> bool) l : 1 <=? countb p l = existsb p l.
Proof.
  unfold countb. induction l as [|x l IH]; cbn; [reflexivity|].
  destruct (p x); cbn; [|exact IH]. apply Z.leb_le. lia.
Qed.

Lemma countb_ext_in {A} (p q : A -> bool) l :
  (forall x, In x l -> p x = q x) -> countb p l = countb q l.
Proof. intro H. unfold countb. rewrite (filter_ext_in p q l H). reflexivity. Qed.

Lemma countb_map {A B} (f : A -> B) (p : B -> bool) l : countb p (map f l) = countb (fun x => p (f x)) l.
Proof. unfold countb. rewrite filter_map_comm, map_length. reflexivity. Qed.

Lemma existsb_map {A B} (f : A -> B) (p : B -> bool) l : existsb p (map f l) = existsb (fun x => p (f x)) l.
Proof. induction l as [|x l IH]; cbn; [reflexivity | rewrite IH; reflexivity]. Qed.

Lemma forallb_map {A B} (f : A -> B) (p : B -> bool) l : forallb p (map f l) = forallb (fun x => p (f x)) l.
Proof. induction l as [|x l IH]; cbn; [reflexivity | rewrite IH; reflexivity]. Qed.

Lemma existsb_ext {A} (p q : A -> bool) l : (forall x, p x = q x) -> existsb p l = existsb q l.
Proof. intro H. induction l as [|x l IH]; cbn; [reflexivity | rewrite H, IH; reflexivity]. Qed.

Lemma forallb_ext {A} (p q : A -> bool) l : (forall x, p x = q x) -> forallb p l = forallb q l.
Proof. intro H. induction l as [|x l IH]; cbn; [reflexivity | rewrite H, IH; reflexivity]. Qed.

(* ---------------------------------------------------------------- structure of sem *)

Section Laws.
  Variable tr : bool.
  Notation sem := (sem tr).
  Notation matches := (matches tr).

  Lemma sem_in c q n : In n (sem c q) <-> exists d, In d c /\ d_num d = n /\ matches d q = true.
  Proof.
    unfold Sem.sem. rewrite in_map_iff. split; intros (d & H); exists d; rewrite filter_In in *; tauto.
  Qed.

  (* only documents of the corpus — hence never a deleted one *)
  Theorem sem_subset_corpus c q n : In n (sem c q) -> In n (ids c).
  Proof. intro H. apply sem_in in H as (d & Hd & <- & _). apply in_map; exact Hd. Qed.

  (* strictly ascending: no document twice *)
  Theorem sem_sorted c q : corpus_wf c -> StronglySorted Z.lt (sem c q).
  Proof. apply sorted_map_filter. Qed.

  Theorem sem_sorted_nodup c q : corpus_wf c -> StronglySorted Z.lt (sem c q) /\ NoDup (sem c q).
  Proof. intro H. split; [|apply sorted_lt_NoDup]; apply sem_sorted; exact H. Qed.

  (* layout independence: the corpus may be cut anywhere (segments) *)
  Theorem sem_app c1 c2 q : sem (c1 ++ c2) q = sem c1 q ++ sem c2 q.
  Proof. unfold Sem.sem. rewrite filter_app, map_app. reflexivity. Qed.

  Theorem sem_concat cs q : sem (concat cs) q = concat (map (fun c => sem c q) cs).
  Proof. induction cs as [|c cs IH]; cbn [concat map]; [reflexivity|]. rewrite sem_app, IH. reflexivity. Qed.

  Lemma wf_inj c d d' : corpus_wf c -> In d c -> In d' c -> d_num d = d_num d' -> d = d'.
  Proof. intro H. apply NoDup_map_inj. apply sorted_lt_NoDup. exact H. Qed.

  (* locality: whether a document is returned depends on that document alone *)
  Theorem sem_local c q d : corpus_wf c -> In d c -> (In (d_num d) (sem c q) <-> matches d q = true).
  Proof.
    intros Hwf Hd. rewrite sem_in. split.
    - intros (d' & Hd' & E & Hm). rewrite <- (wf_inj c d' d Hwf Hd' Hd E). exact Hm.
    - intro Hm. exists d; auto.
  Qed.

  Corollary sem_local2 c1 c2 q d :
    corpus_wf c1 -> corpus_wf c2 -> In d c1 -> In d c2 ->
    (In (d_num d) (sem c1 q) <-> In (d_num d) (sem c2 q)).
  Proof. intros H1 H2 I1 I2. rewrite (sem_local c1), (sem_local c2); tauto. Qed.

  (* adding (or deleting) a document leaves the verdict on every other document unchanged *)
  Corollary sem_insert c1 c2 d0 q n :
    n <> d_num d0 -> (In n (sem (c1 ++ d0 :: c2) q) <-> In n (sem (c1 ++ c2) q)).
  Proof.
    intro Hn. change (d0 :: c2) with ([d0] ++ c2). rewrite !sem_app, !in_app_iff.
    unfold Sem.sem at 2. cbn. destruct (matches d0 q); cbn; intuition congruence.
  Qed.

  Lemma memZ_sem c q d : corpus_wf c -> In d c -> memZ (d_num d) (sem c q) = matches d q.
  Proof.
    intros Hwf Hd. apply eq_true_iff_eq. rewrite memZ_In. apply sem_local; auto.
  Qed.

  Lemma sem_filter_ext c q (p : doc -> bool) :
    (forall d, In d c -> matches d q = p d) -> sem c q = map d_num (filter p c).
  Proof. intro H. unfold Sem.sem. rewrite (filter_ext_in _ p c H). reflexivity. Qed.

  Lemma sem_pointwise c q1 q2 : (forall d, matches d q1 = matches d q2) -> sem c q1 = sem c q2.
  Proof. intro H. apply sem_filter_ext. intros; apply H. Qed.

  (* intersecting any filtered slice of the corpus with a query result *)
  Lemma inter_sem c (p : doc -> bool) q : corpus_wf c ->
    inter (map d_num (filter p c)) (sem c q) = map d_num (filter (fun d => p d && matches d q) c).
  Proof.
    intro Hwf. unfold inter. rewrite filter_map_comm, filter_filter. f_equal.
    apply filter_ext_in. intros d Hd. rewrite memZ_sem; auto.
  Qed.

  Lemma diff_sem c (p : doc -> bool) q : corpus_wf c ->
    diff (map d_num (filter p c)) (sem c q) = map d_num (filter (fun d => p d && negb (matches d q)) c).
  Proof.
    intro Hwf. unfold diff. rewrite filter_map_comm, filter_filter. f_equal.
    apply filter_ext_in. intros d Hd. rewrite memZ_sem; auto.
  Qed.

  Lemma ids_filter c : ids c = map d_num (filter (fun _ => true) c).
  Proof. unfold ids. f_equal. induction c; cbn; congruence. Qed.

  (* ---------------------------------------------------------------- leaves *)

  Theorem sem_all c : sem c QAll = ids c.
  Proof. rewrite ids_filter. reflexivity. Qed.

  Theorem sem_none c : sem c QNone = [].
  Proof. unfold Sem.sem. cbn. induction c; cbn; auto. Qed.

  Theorem sem_docids c ns : sem c (QDocIds ns) = inter (ids c) ns.
  Proof. unfold inter, ids. rewrite filter_map_comm. reflexivity. Qed.

  (* ---------------------------------------------------------------- conjunction *)

  Theorem sem_conj_nil c : sem c (QConj []) = [].
  Proof. apply sem_none. Qed.

  Lemma fold_inter c (p : doc -> bool) ks : corpus_wf c ->
    fold_left inter (map (sem c) ks) (map d_num (filter p c))
    = map d_num (filter (fun d => p d && forallb (matches d) ks) c).
  Proof.
    intro Hwf. revert p; induction ks as [|k ks IH]; intro p; cbn.
    - f_equal. apply filter_ext. intro d. rewrite andb_true_r. reflexivity.
    - rewrite inter_sem by exact Hwf. rewrite IH. f_equal. apply filter_ext. intro d.
      rewrite andb_assoc. reflexivity.
  Qed.

  (* conjunction = fold of intersection over the children's results *)
  Theorem sem_conj_inter c k ks : corpus_wf c ->
    sem c (QConj (k :: ks)) = fold_left inter (map (sem c) ks) (sem c k).
  Proof.
    intro Hwf. change (sem c k) with (map d_num (filter (fun d => matches d k) c)).
    rewrite fold_inter by exact Hwf. reflexivity.
  Qed.

  Theorem sem_conj_in c ks n : corpus_wf c ->
    (In n (sem c (QConj ks)) <-> ks <> [] /\ In n (ids c) /\ forall k, In k ks -> In n (sem c k)).
  Proof.
    intro Hwf. rewrite sem_in. split.
    - intros (d & Hd & <- & Hm). cbn in Hm. apply andb_true_iff in Hm as [Hne Hall].
      split; [destruct ks; [discriminate|congruence]|]. split; [apply in_map; exact Hd|].
      intros k Hk. apply sem_local; auto. rewrite forallb_forall in Hall. auto.
    - intros (Hne & Hn & Hall). apply in_map_iff in Hn as (d & <- & Hd). exists d. repeat split; auto.
      cbn. apply andb_true_iff; split; [destruct ks; [congruence|reflexivity]|].
      apply forallb_forall. intros k Hk. apply (sem_local c k d Hwf Hd). auto.
  Qed.

  (* ---------------------------------------------------------------- disjunction *)

  (* a document is returned iff it is in at least  max 1 (floor min)  of the children's results *)
  Theorem sem_disj_count c min2 ks : corpus_wf c ->
    sem c (QDisj min2 ks)
    = filter (fun n => Z.max 1 (floor_min min2) <=? countb (memZ n) (map (sem c) ks)) (ids c).
  Proof.
    intro Hwf. unfold ids. rewrite filter_map_comm. unfold Sem.sem at 1. f_equal.
    apply filter_ext_in. intros d Hd. cbn [Sem.matches]. f_equal.
    rewrite countb_map. apply countb_ext_in. intros k _. symmetry. apply memZ_sem; auto.
  Qed.

  (* min <= 1: plain union *)
  Theorem sem_disj_union c min2 ks : corpus_wf c -> floor_min min2 <= 1 ->
    sem c (QDisj min2 ks) = filter (fun n => existsb (memZ n) (map (sem c) ks)) (ids c).
  Proof.
    intros Hwf Hm. rewrite sem_disj_count by exact Hwf. apply filter_ext. intro n.
    replace (Z.max 1 (floor_min min2)) with 1 by lia. apply countb_pos.
  Qed.

  Theorem sem_disj_in c min2 ks n : corpus_wf c -> floor_min min2 <= 1 ->
    (In n (sem c (QDisj min2 ks)) <-> exists k, In k ks /\ In n (sem c k)).
  Proof.
    intros Hwf Hm. rewrite sem_disj_union, filter_In, existsb_exists by assumption. split.
    - intros (_ & l & Hl & Hn). apply in_map_iff in Hl as (k & <- & Hk). apply memZ_In in Hn. eauto.
    - intros (k & Hk & Hn). split; [eapply sem_subset_corpus; eauto|].
      exists (sem c k). split; [apply in_map; auto | apply memZ_In; auto].
  Qed.

  Theorem sem_disj_nil c min2 : sem c (QDisj min2 []) = [].
  Proof.
    rewrite <- (sem_none c). apply sem_pointwise. intro d. cbn [Sem.matches].
    apply Z.leb_gt. unfold countb. cbn. lia.
  Qed.

  (* a disjunction is monotone in its minimum *)
  Theorem sem_disj_min_mono c m1 m2 ks n :
    floor_min m1 <= floor_min m2 -> In n (sem c (QDisj m2 ks)) -> In n (sem c (QDisj m1 ks)).
  Proof.
    intros Hm. rewrite !sem_in. intros (d & Hd & E & H). exists d. repeat split; auto.
    cbn in *. apply Z.leb_le in H. apply Z.leb_le. lia.
  Qed.

  (* ---------------------------------------------------------------- boolean *)

  (* no clause at all: nothing *)
  Theorem bool_empty c min2 : sem c (QBool [] [] min2 [] None) = [].
  Proof. apply sem_none. Qed.

  (* only must: the conjunction of the must clauses *)
  Theorem bool_must_only c must min2 : sem c (QBool must [] min2 [] None) = sem c (QConj must).
  Proof.
    apply sem_pointwise. intro d. cbn. rewrite !orb_false_r, !andb_true_r. reflexivity.
  Qed.

  (* only should: the disjunction with that minimum *)
  Theorem bool_should_only c should min2 :
    sem c (QBool [] should min2 [] None) = sem c (QDisj min2 should).
  Proof.
    apply sem_pointwise. intro d. cbn. destruct should as [|k ks]; cbn [nonempty].
    - cbn. symmetry. apply Z.leb_gt. lia.
    - cbn [orb andb negb]. rewrite andb_true_r. reflexivity.
  Qed.

  (* must and should: should is optional when floor min = 0, else required min times *)
  Theorem bool_must_should c must should min2 : corpus_wf c -> must <> [] -> should <> [] ->
    sem c (QBool must should min2 [] None)
    = if floor_min min2 <=? 0 then sem c (QConj must)
      else inter (sem c (QConj must)) (sem c (QDisj min2 should)).
  Proof.
    intros Hwf Hm Hs. destruct (floor_min min2 <=? 0) eqn:E.
    - apply sem_pointwise. intro d. cbn.
      destruct must; [congruence|]. destruct should; [congruence|]. cbn [nonempty orb andb negb].
      rewrite !andb_true_r. replace (floor_min min2 <=? _) with true; [rewrite andb_true_r; reflexivity|].
      symmetry. apply Z.leb_le. apply Z.leb_le in E. pose proof (countb_nonneg (matches d) (q0 :: should)). lia.
    - unfold Sem.sem at 2. rewrite inter_sem by exact Hwf. apply sem_filter_ext. intros d _. cbn.
      destruct must; [congruence|]. destruct should; [congruence|]. cbn [nonempty orb andb negb].
      rewrite !andb_true_r. f_equal. f_equal. apply Z.leb_gt in E. lia.
  Qed.

  (* must-not removes exactly the documents matching one of the must-not clauses *)
  Theorem bool_mustnot c must should min2 mustnot filter : corpus_wf c ->
    (must <> [] \/ should <> [] \/ filter <> None) ->
    sem c (QBool must should min2 mustnot filter)
    = diff (sem c (QBool must should min2 [] filter)) (sem c (QDisj 2 mustnot)).
  Proof.
    intros Hwf Hne.
    change (sem c (QBool must should min2 [] filter))
      with (map d_num (List.filter (fun d => matches d (QBool must should min2 [] filter)) c)).
    rewrite diff_sem by exact Hwf. apply sem_filter_ext.
    intros d _. cbn [Sem.matches].
    replace (floor_min 2) with 1 by reflexivity. replace (Z.max 1 1) with 1 by reflexivity.
    rewrite countb_pos. cbn [nonempty existsb].
    assert (Hb : nonempty must || nonempty should
                 || match filter with Some _ => true | None => false end = true).
    { destruct must; [|reflexivity]. destruct should; [|reflexivity].
      destruct filter; [reflexivity|]. destruct Hne as [H|[H|H]]; congruence. }
    destruct filter as [fq|];
      set (hm := nonempty must) in *; set (hs := nonempty should) in *;
      set (hn := nonempty mustnot); set (A := forallb (matches d) must);
      set (N := existsb (matches d) mustnot);
      set (S := if hs then _ else true);
      try set (F := matches d fq);
      clearbody hm hs hn A N S; try clearbody F;
      destruct hm, hs, hn, A, N, S; try destruct F; cbn in *; congruence.
  Qed.

  (* De Morgan: must-not only = every document not in the union of the must-not clauses *)
  Theorem bool_mustnot_spec c min2 mustnot : corpus_wf c -> mustnot <> [] ->
    sem c (QBool [] [] min2 mustnot None) = diff (ids c) (sem c (QDisj 2 mustnot)).
  Proof.
    intros Hwf Hne. rewrite ids_filter, diff_sem by exact Hwf. apply sem_filter_ext.
    intros d _. cbn [Sem.matches].
    replace (floor_min 2) with 1 by reflexivity. replace (Z.max 1 1) with 1 by reflexivity.
    rewrite countb_pos. destruct mustnot; [congruence|]. cbn [nonempty forallb orb andb].
    rewrite !andb_true_r. reflexivity.
  Qed.

  Theorem bool_mustnot_in c min2 mustnot n : corpus_wf c -> mustnot <> [] ->
    (In n (sem c (QBool [] [] min2 mustnot None))
     <-> In n (ids c) /\ forall k, In k mustnot -> ~ In n (sem c k)).
  Proof.
    intros Hwf Hne. rewrite bool_mustnot_spec by assumption. unfold diff.
    rewrite filter_In, negb_true_iff. split; intros [Hn H]; split; auto.
    - intros k Hk Hin. apply not_true_iff_false in H. apply H. apply memZ_In.
      apply sem_disj_in; auto; [cbn; lia | eauto].
    - apply not_true_iff_false. intro Hm. apply memZ_In in Hm.
      apply sem_disj_in in Hm as (k & Hk & Hin); auto; [eapply H; eauto | cbn; lia].
  Qed.

  (* filter is a plain restriction (of all documents when there is no other clause) *)
  Theorem bool_filter c must should min2 mustnot fq : corpus_wf c ->
    sem c (QBool must should min2 mustnot (Some fq))
    = inter (if nonempty must || nonempty should || nonempty mustnot
             then sem c (QBool must should min2 mustnot None) else ids c)
            (sem c fq).
  Proof.
    intro Hwf. destruct (nonempty must || nonempty should || nonempty mustnot) eqn:E.
    - unfold Sem.sem at 2. rewrite inter_sem by exact Hwf. apply sem_filter_ext. intros d _.
      cbn [Sem.matches]. rewrite E. cbn [orb andb]. rewrite !andb_true_r. reflexivity.
    - rewrite ids_filter, inter_sem by exact Hwf. apply sem_filter_ext. intros d _.
      apply orb_false_iff in E as [E E3]. apply orb_false_iff in E as [E1 E2].
      destruct must; [|discriminate]. destruct should; [|discriminate]. destruct mustnot; [|discriminate].
      reflexivity.
  Qed.

  (* the complete boolean rule, pointwise *)
  Theorem bool_in c must should min2 mustnot filter n : corpus_wf c ->
    (In n (sem c (QBool must should min2 mustnot filter)) <->
       In n (ids c)
       /\ (must <> [] \/ should <> [] \/ mustnot <> [] \/ filter <> None)
       /\ (forall k, In k must -> In n (sem c k))
       /\ (forall k, In k mustnot -> ~ In n (sem c k))
       /\ (should <> [] ->
           (if nonempty must then floor_min min2 else Z.max 1 (floor_min min2))
           <= countb (memZ n) (map (sem c) should))
       /\ (forall fq, filter = Some fq -> In n (sem c fq))).
  Proof.
    intro Hwf. rewrite sem_in. split.
    - intros (d & Hd & <- & Hm). cbn [Sem.matches] in Hm.
      repeat (apply andb_true_iff in Hm as [Hm ?]).
      split; [apply in_map; exact Hd|].
      split. { destruct must; [|left; congruence]. destruct should; [|right; left; congruence].
               destruct mustnot; [|right; right; left; congruence]. destruct filter; [|discriminate].
               right; right; right; congruence. }
      split. { intros k Hk. apply sem_local; auto.
               match goal with H : forallb _ must = true |- _ => rewrite forallb_forall in H; auto end. }
      split. { intros k Hk Hin. apply sem_local in Hin; auto.
               match goal with H : negb _ = true |- _ => apply negb_true_iff in H;
                 apply not_true_iff_false in H; apply H; apply existsb_exists; eauto end. }
      split. { intro Hs. destruct should as [|s0 ss]; [congruence|]. cbn [nonempty] in *.
               match goal with H : (_ <=? _) = true |- _ => apply Z.leb_le in H end.
               rewrite countb_map. erewrite countb_ext_in; [eassumption|].
               intros k _. apply memZ_sem; auto. }
      intros fq ->. apply sem_local; auto.
    - intros (Hn & Hne & Hmust & Hnot & Hshould & Hf).
      apply in_map_iff in Hn as (d & <- & Hd). exists d. repeat split; auto.
      cbn [Sem.matches]. repeat (apply andb_true_iff; split).
      + destruct must; [|reflexivity]. destruct should; [|reflexivity]. destruct mustnot; [|reflexivity].
        destruct filter; [reflexivity|]. destruct Hne as [H|[H|[H|H]]]; congruence.
      + apply forallb_forall. intros k Hk. apply (sem_local c k d Hwf Hd). auto.
      + apply negb_true_iff. apply not_true_iff_false. intro H. apply existsb_exists in H as (k & Hk & Hm).
        apply (Hnot k Hk). apply sem_local; auto.
      + destruct should as [|s0 ss]; [reflexivity|]. cbn [nonempty]. apply Z.leb_le.
        assert (Hs : s0 :: ss <> []) by congruence. specialize (Hshould Hs).
        rewrite countb_map in Hshould. erewrite countb_ext_in in Hshould; [eassumption|].
        intros k _. apply memZ_sem; auto.
      + destruct filter as [fq|]; [|reflexivity]. apply (sem_local c fq d Hwf Hd). auto.
  Qed.

  (* ---------------------------------------------------------------- match / phrase vs term *)

  Theorem match_or_terms c f ts pre :
    sem c (QMatch f ts false (Some 0) pre) = sem c (QDisj 2 (map (QTerm f) ts)).
  Proof.
    apply sem_pointwise. intro d. cbn [Sem.matches].
    replace (floor_min 2) with 1 by reflexivity. replace (Z.max 1 1) with 1 by reflexivity.
    rewrite countb_pos, existsb_map.
    destruct ts as [|t ts]; [reflexivity|]. cbn [nonempty andb].
    apply existsb_ext. intro x. unfold has_term. apply existsb_ext. intro tok. apply fuzzy_ok_zero.
  Qed.

  Theorem match_and_terms c f ts pre :
    sem c (QMatch f ts true (Some 0) pre) = sem c (QConj (map (QTerm f) ts)).
  Proof.
    apply sem_pointwise. intro d. cbn [Sem.matches]. rewrite forallb_map.
    destruct ts as [|t ts]; [reflexivity|]. cbn [nonempty map andb].
    apply forallb_ext. intro x. unfold has_term. apply existsb_ext. intro tok. apply fuzzy_ok_zero.
  Qed.

  Theorem phrase_single_term c f t : t <> [] ->
    sem c (QPhrase f [[t]] (Some 0)) = sem c (QTerm f t).
  Proof.
    intro Ht. apply sem_pointwise. intro d. cbn [Sem.matches phrase_match slot_is_hole].
    destruct t as [|b t]; [congruence|]. cbn [is_empty]. unfold has_term. apply existsb_ext. intro tok.
    cbn [phrase_follow]. rewrite andb_true_r. unfold slot_ok. cbn [existsb is_empty negb andb].
    rewrite orb_false_r. unfold fuzz_k. cbn [Z.to_nat].
    apply eq_true_iff_eq. rewrite within_zero. symmetry. apply beqb_eq.
  Qed.
End Laws.

(* the hypotheses are satisfiable on a non-trivial value, and the laws compute *)
Definition ex_tok (s : bytes) (p : Z) : token := mkTok s p [].
Definition ex_corpus : corpus :=
  [ mkDoc 1 [([102], [ex_tok [99] 1])] [] [] [];
    mkDoc 2 [([102], [ex_tok [99] 1; ex_tok [97] 2])] [] [] [];
    mkDoc 5 [([102], [ex_tok [97] 1; ex_tok [98] 2])] [] [] [] ].

Example ex_corpus_wf : corpus_wf ex_corpus.
Proof. apply corpus_wfb_spec. reflexivity. Qed.

(* the query of DESIGN.md section 8 item 5: must c, should {a, d} with min 1 -> only document 2 *)
Example ex_minshould :
  sem true ex_corpus (QBool [QTerm [102] [99]] [QTerm [102] [97]; QTerm [102] [100]] 2 [] None) = [2]
  /\ sem true ex_corpus (QBool [QTerm [102] [99]] [QTerm [102] [97]; QTerm [102] [100]] 0 [] None) = [1; 2]
  /\ sem true ex_corpus (QBool [] [] 0 [QTerm [102] [99]] None) = [5]
  /\ sem true ex_corpus (QPhrase [102] [[[97]]; [[98]]] (Some 0)) = [5].
Proof. vm_compute. auto. Qed.
