(* Cursor engine — C02 correspondence cases: what Index.Search returned for one query on one
   corpus under the 8 request-option combinations, checked against the spec [Sem.sem].

   A case is API level, so the comparison is impl = spec (there is no separate executable model
   on this side: the searcher machines of Cursor/Machines*.v are tied to the implementation by
   C08's own cases and to [sem] by the theorem search_correct, see Props_C02.v). *)
From Coq Require Import ZArith List Bool.
From Verif Require Import Common.Bytes Numeric.Model Cursor.Sem.
Import ListNotations.
Local Open Scope Z_scope.

(* one observation: hit document numbers (sorted ascending by the harness, duplicates kept) and
   SearchResult.Total *)
Definition obs := (list Z * Z)%type.

(* the fuzzy metric of each engine (Extracted/Obligations_C02.v ties [scorch_metric] to the flag
   scorch passes to its Levenshtein automaton builders) *)
Definition scorch_metric : bool := true.
Definition upsidedown_metric : bool := false.

(* [tr]: the engine's fuzzy metric ([scorch_metric] or [upsidedown_metric]).
   [c]: the live documents with their tokens, ascending document numbers.
   [o]: the observations for (score, IncludeLocations, Explain) =
        (default,f,f) (default,f,t) (default,t,f) (default,t,t) (none,f,f) (none,f,t) (none,t,f) (none,t,t). *)
Inductive case :=
| Case (tr : bool) (c : corpus) (q : query) (o : list obs)
(* several queries searched repeatedly (in rounds: q1 q2 .. qn, q1 q2 .. qn, ...; every search under
   the 8 option combinations) on ONE index without any write in between - reader recycling and
   other per-snapshot caches must not change an answer.  For every query: all its observations,
   in the order they were made (a multiple of 8).  Each one is judged by [sem] on its own. *)
| CaseMulti (tr : bool) (c : corpus) (qs : list (query * list obs)).

Definition Z_list_eqb := list_eqb Z.eqb.

Definition obs_ok (expected : list Z) (o : obs) : bool :=
  Z_list_eqb (fst o) expected && (snd o =? Z.of_nat (length expected)).

Definition check (x : case) : bool :=
  match x with
  | Case tr c q o =>
      corpus_wfb c && (Nat.eqb (length o) 8) && forallb (obs_ok (sem tr c q)) o
  | CaseMulti tr c qs =>
      corpus_wfb c && negb (Nat.eqb (length qs) 0) &&
      forallb (fun qo => Nat.leb 8 (length (snd qo)) && Nat.eqb (Nat.modulo (length (snd qo)) 8) 0 &&
                         forallb (obs_ok (sem tr c (fst qo))) (snd qo)) qs
  end.

(* for replay files: the expected hit list and, per option combination, whether the
   implementation agreed *)
Definition explain (x : case) : list (list Z * list bool) :=
  match x with
  | Case tr c q o => [(sem tr c q, map (obs_ok (sem tr c q)) o)]
  | CaseMulti tr c qs => map (fun qo => (sem tr c (fst qo), map (obs_ok (sem tr c (fst qo))) (snd qo))) qs
  end.
