(* Cursor engine — SPEC for C02: the documented meaning of a query over a corpus.
   Definitions only (theorems: Cursor/SemProofs.v; correspondence cases: Cursor/SemCorr.v).

   This file is written from the documentation of the query constructors in
   /repo/search/query/*.go (the doc comments of NewTermQuery, NewMatchQuery, NewPhraseQuery,
   NewMultiPhraseQuery, NewPrefixQuery, NewWildcardQuery, NewRegexpQuery, NewFuzzyQuery,
   NewTermRangeInclusiveQuery, NewNumericRangeInclusiveQuery, NewDateRangeInclusiveQuery,
   NewBoolFieldQuery, NewDocIDQuery, NewConjunctionQuery, NewDisjunctionQuery/SetMin,
   NewBooleanQuery/SetMinShould/AddFilter), NOT from the searcher code.  Where the documentation
   is silent the choice made here is stated, with the probe that pinned it down (DESIGN.md C02):

     - an empty conjunction / disjunction matches nothing;
     - a disjunction needs  max 1 (floor min)  matching children;
     - boolean: an empty clause list counts as absent; with no must/should/filter but a must-not
       the candidates are all documents; should is required  max 1 (floor min)  times when there
       is no must clause and  floor min  times when there is one; filter is a plain restriction;
       a boolean query with no clause at all matches nothing;
     - phrase: the terms occupy consecutive positions of ONE field value (same array positions);
       an empty-string term is a "don't care" slot that only advances the position; leading
       don't-care slots constrain nothing; a phrase without any real term matches nothing;
       fuzziness in a phrase widens each term to the terms within that edit distance (prefix
       length 0), positions stay exact (search_phrase.go passes slop 0);
     - fuzzy: edit distance <= k AND the candidate shares the first [prefix] characters of the
       query term.  The metric is a parameter ([tr]): scorch builds its automata with
       transpositions (optimal string alignment, "ab" ~1 "ba" but "ca" ~3 "abc"), upsidedown uses
       plain Levenshtein.  Auto fuzziness: 0 for length <= 2, 1 for length <= 5, else 2;
     - term range: minimum inclusive, maximum exclusive unless the flags say otherwise; order is
       bytes.Compare;
     - numeric range: C07's [range_matches_spec] on IEEE bit patterns; date range: integer
       nanoseconds since the epoch, same default flags.

   Analysis is NOT modelled: a document arrives as the token lists the analysers produced
   (the harness applies the keyword analyser and its whitespace+lowercase analyser itself, to
   the documents and to the text of match / match-phrase queries).  Characters are bytes; the
   harness only uses ASCII letters, for which bytes, runes and UTF-8 sequences coincide.
   Deleted documents are simply absent from the corpus. *)
From Coq Require Import ZArith List Bool Sorted.
From Verif Require Import Common.Bytes Numeric.Model.
Import ListNotations.
Local Open Scope Z_scope.

(* ---------- corpus ---------- *)

Record token := mkTok { t_term : bytes; t_pos : Z; t_ap : list Z }.

Record doc := mkDoc {
  d_num : Z;                              (* external document number chosen by the harness *)
  d_text : list (bytes * list token);     (* text fields: field name -> analysed tokens *)
  d_nums : list (bytes * list Z);         (* numeric fields: float64 bit patterns *)
  d_dates : list (bytes * list Z);        (* datetime fields: unix nanoseconds *)
  d_bools : list (bytes * list bool) }.   (* boolean fields *)

Definition corpus := list doc.

Fixpoint lookup {A : Type} (f : bytes) (l : list (bytes * list A)) : list A :=
  match l with
  | [] => []
  | (g, v) :: l' => if beqb f g then v else lookup f l'
  end.

Definition memZ (x : Z) (l : list Z) : bool := existsb (Z.eqb x) l.

Definition ids (c : corpus) : list Z := map d_num c.

(* the corpus lists every live document once, by ascending number *)
Definition corpus_wf (c : corpus) : Prop := StronglySorted Z.lt (ids c).

Fixpoint ascendingb (l : list Z) : bool :=
  match l with
  | [] => true
  | x :: l' => match l' with [] => true | y :: _ => (x <? y) && ascendingb l' end
  end.
Definition corpus_wfb (c : corpus) : bool := ascendingb (ids c).

(* ---------- strings ---------- *)

Definition is_empty (b : bytes) : bool := match b with [] => true | _ => false end.

Fixpoint is_prefix (p w : bytes) : bool :=
  match p, w with
  | [], _ => true
  | x :: p', y :: w' => (x =? y) && is_prefix p' w'
  | _ :: _, [] => false
  end.

(* ---------- regular expressions (regexp and wildcard queries) ----------
   The class the harness generates: literals, '.', character classes of letters (possibly
   negated), concatenation, '|', '*', '+', '?', grouping.  [RNone] only arises inside the
   matcher. A term matches when the WHOLE term is in the language ("the search will only match
   entire terms"). *)
Inductive regex :=
| RNone
| REps
| RChr (c : Z)
| RAny
| RSet (neg : bool) (cs : list Z)
| RCat (r s : regex)
| RAlt (r s : regex)
| RStar (r : regex).

Definition RPlus (r : regex) : regex := RCat r (RStar r).
Definition ROpt (r : regex) : regex := RAlt r REps.

(* the meaning: an inductive matching relation *)
Inductive rmatches : regex -> bytes -> Prop :=
| MEps : rmatches REps []
| MChr c : rmatches (RChr c) [c]
| MAny c : rmatches RAny [c]
| MSet neg cs c : xorb neg (memZ c cs) = true -> rmatches (RSet neg cs) [c]
| MCat r s u v : rmatches r u -> rmatches s v -> rmatches (RCat r s) (u ++ v)
| MAltL r s u : rmatches r u -> rmatches (RAlt r s) u
| MAltR r s u : rmatches s u -> rmatches (RAlt r s) u
| MStar0 r : rmatches (RStar r) []
| MStarS r u v : rmatches r u -> rmatches (RStar r) v -> rmatches (RStar r) (u ++ v).

(* executable matcher (Brzozowski derivatives); [rmatch_correct] in SemProofs.v *)
Fixpoint nullable (r : regex) : bool :=
  match r with
  | RNone => false
  | REps => true
  | RChr _ => false
  | RAny => false
  | RSet _ _ => false
  | RCat r s => nullable r && nullable s
  | RAlt r s => nullable r || nullable s
  | RStar _ => true
  end.

Fixpoint deriv (c : Z) (r : regex) : regex :=
  match r with
  | RNone => RNone
  | REps => RNone
  | RChr c' => if c =? c' then REps else RNone
  | RAny => REps
  | RSet neg cs => if xorb neg (memZ c cs) then REps else RNone
  | RCat r s =>
      if nullable r then RAlt (RCat (deriv c r) s) (deriv c s) else RCat (deriv c r) s
  | RAlt r s => RAlt (deriv c r) (deriv c s)
  | RStar r => RCat (deriv c r) (RStar r)
  end.

Fixpoint rmatch (r : regex) (w : bytes) : bool :=
  match w with
  | [] => nullable r
  | c :: w' => rmatch (deriv c r) w'
  end.

(* wildcard patterns: '?' one character, '*' any sequence of characters *)
Inductive wild := WChr (c : Z) | WOne | WMany.

Inductive wmatches : list wild -> bytes -> Prop :=
| WMNil : wmatches [] []
| WMChr c p w : wmatches p w -> wmatches (WChr c :: p) (c :: w)
| WMOne c p w : wmatches p w -> wmatches (WOne :: p) (c :: w)
| WMMany0 p w : wmatches p w -> wmatches (WMany :: p) w
| WMManyS c p w : wmatches (WMany :: p) w -> wmatches (WMany :: p) (c :: w).

Fixpoint wild_regex (p : list wild) : regex :=
  match p with
  | [] => REps
  | WChr c :: p' => RCat (RChr c) (wild_regex p')
  | WOne :: p' => RCat RAny (wild_regex p')
  | WMany :: p' => RCat (RStar RAny) (wild_regex p')
  end.

(* ---------- edit distance (fuzzy queries) ----------
   [edits tr n a b]: b is obtained from a by an alignment with n unit-cost edits
   (substitution, deletion, insertion and, when [tr], transposition of two adjacent
   characters that are not edited again — optimal string alignment). *)
Inductive edits (tr : bool) : nat -> bytes -> bytes -> Prop :=
| ENil : edits tr 0 [] []
| EKeep n x a b : edits tr n a b -> edits tr n (x :: a) (x :: b)
| ESub n x y a b : edits tr n a b -> edits tr (S n) (x :: a) (y :: b)
| EDel n x a b : edits tr n a b -> edits tr (S n) (x :: a) b
| EIns n y a b : edits tr n a b -> edits tr (S n) a (y :: b)
| ESwap n x y a b : tr = true -> edits tr n a b -> edits tr (S n) (x :: y :: a) (y :: x :: b).

(* executable test "distance <= k" ([within_spec] in SemProofs.v): walk the common part,
   and at any point spend one unit of the budget on one edit. *)
Definition one_edit (tr : bool) (w : bytes -> bytes -> bool) (a b : bytes) : bool :=
  (match a with _ :: a' => w a' b | [] => false end)
  || (match b with _ :: b' => w a b' | [] => false end)
  || (match a, b with _ :: a', _ :: b' => w a' b' | _, _ => false end)
  || (tr && match a, b with
            | x :: x2 :: a'', y :: y2 :: b'' => (x =? y2) && (x2 =? y) && w a'' b''
            | _, _ => false
            end).

Fixpoint chain (e : bytes -> bytes -> bool) (a b : bytes) {struct a} : bool :=
  e a b ||
  match a, b with
  | [], [] => true
  | x :: a', y :: b' => (x =? y) && chain e a' b'
  | _, _ => false
  end.

Fixpoint within (tr : bool) (k : nat) : bytes -> bytes -> bool :=
  match k with
  | O => chain (fun _ _ => false)
  | S k' => chain (one_edit tr (within tr k'))
  end.

Definition blen (b : bytes) : Z := Z.of_nat (length b).

(* fuzziness: [Some k] explicit, [None] = "auto" (search_fuzzy.go GetAutoFuzziness doc) *)
Definition fuzz_k (fz : option Z) (t : bytes) : nat :=
  match fz with
  | Some k => Z.to_nat k
  | None => if blen t >? 5 then 2%nat else if blen t >? 2 then 1%nat else 0%nat
  end.

(* candidate term [w] is within the fuzziness of query term [t] and shares its first [pre]
   characters *)
Definition fuzzy_ok (tr : bool) (t : bytes) (pre : Z) (fz : option Z) (w : bytes) : bool :=
  is_prefix (firstn (Z.to_nat pre) t) w && within tr (fuzz_k fz t) t w.

(* ---------- ranges ---------- *)

Definition flag (o : option bool) (dflt : bool) : bool := match o with Some b => b | None => dflt end.

Definition term_in_range (lo hi : option bytes) (ilo ihi : option bool) (w : bytes) : bool :=
  (match lo with
   | None => true
   | Some l => if flag ilo true then bleb l w else bltb l w
   end) &&
  (match hi with
   | None => true
   | Some h => if flag ihi false then bleb w h else bltb w h
   end).

Definition date_in_range (lo hi : option Z) (ilo ihi : option bool) (v : Z) : bool :=
  (match lo with
   | None => true
   | Some l => if flag ilo true then l <=? v else l <? v
   end) &&
  (match hi with
   | None => true
   | Some h => if flag ihi false then v <=? h else v <? h
   end).

(* ---------- phrases ----------
   A slot is the list of alternative terms for one position ([][]string of MultiPhraseQuery;
   PhraseQuery / MatchPhraseQuery give one term per slot).  [] and [""] are don't-care slots. *)
Definition slot_is_hole (s : list bytes) : bool :=
  match s with
  | [] => true
  | [t] => is_empty t
  | _ => false
  end.

Definition slot_ok (tr : bool) (fz : option Z) (s : list bytes) (w : bytes) : bool :=
  existsb (fun t => negb (is_empty t) && within tr (fuzz_k fz t) t w) s.

(* the remaining slots continue right after position [prev] in array element [ap] *)
Fixpoint phrase_follow (tr : bool) (fz : option Z) (toks : list token) (ap : list Z) (prev : Z)
    (slots : list (list bytes)) : bool :=
  match slots with
  | [] => true
  | s :: rest =>
      if slot_is_hole s then phrase_follow tr fz toks ap (prev + 1) rest
      else existsb (fun t =>
             slot_ok tr fz s (t_term t) && list_eqb Z.eqb (t_ap t) ap && (t_pos t =? prev + 1)
             && phrase_follow tr fz toks ap (t_pos t) rest) toks
  end.

Fixpoint phrase_match (tr : bool) (fz : option Z) (toks : list token) (slots : list (list bytes)) : bool :=
  match slots with
  | [] => false
  | s :: rest =>
      if slot_is_hole s then phrase_match tr fz toks rest
      else existsb (fun t =>
             slot_ok tr fz s (t_term t) && phrase_follow tr fz toks (t_ap t) (t_pos t) rest) toks
  end.

(* ---------- queries ---------- *)

Inductive query :=
| QTerm (f t : bytes)
| QMatch (f : bytes) (terms : list bytes) (op_and : bool) (fz : option Z) (pre : Z)
      (* [terms] = the analysed text of the match query *)
| QPhrase (f : bytes) (slots : list (list bytes)) (fz : option Z)
      (* phrase, multi-phrase and (analysed) match-phrase *)
| QPrefix (f p : bytes)
| QWildcard (f : bytes) (p : list wild)
| QRegexp (f : bytes) (r : regex)
| QFuzzy (f t : bytes) (pre : Z) (fz : option Z)
| QTermRange (f : bytes) (lo hi : option bytes) (ilo ihi : option bool)
| QNumRange (f : bytes) (mn mx : option Z) (imin imax : option bool)   (* bit patterns *)
| QDateRange (f : bytes) (lo hi : option Z) (ilo ihi : option bool)    (* nanoseconds *)
| QBoolField (f : bytes) (v : bool)
| QDocIds (ns : list Z)
| QAll
| QNone
| QConj (ks : list query)
| QDisj (min2 : Z) (ks : list query)                   (* min = min2 / 2 (halves allowed) *)
| QBool (must should : list query) (min2 : Z) (mustnot : list query) (filter : option query).

Definition countb {A : Type} (p : A -> bool) (l : list A) : Z := Z.of_nat (length (filter p l)).

Definition floor_min (min2 : Z) : Z := min2 / 2.

Definition nonempty {A : Type} (l : list A) : bool := match l with [] => false | _ => true end.

Section Matches.
  Variable tr : bool.      (* fuzzy metric: true = with transpositions *)

  Definition has_term (d : doc) (f : bytes) (p : bytes -> bool) : bool :=
    existsb (fun t => p (t_term t)) (lookup f (d_text d)).

  (* does document [d] satisfy query [q]? *)
  Fixpoint matches (d : doc) (q : query) : bool :=
    match q with
    | QTerm f t => has_term d f (beqb t)
    | QMatch f terms op_and fz pre =>
        let one t := has_term d f (fuzzy_ok tr t pre fz) in
        nonempty terms && (if op_and then forallb one terms else existsb one terms)
    | QPhrase f slots fz => phrase_match tr fz (lookup f (d_text d)) slots
    | QPrefix f p => has_term d f (is_prefix p)
    | QWildcard f p => has_term d f (rmatch (wild_regex p))
    | QRegexp f r => has_term d f (rmatch r)
    | QFuzzy f t pre fz => has_term d f (fuzzy_ok tr t pre fz)
    | QTermRange f lo hi ilo ihi => has_term d f (term_in_range lo hi ilo ihi)
    | QNumRange f mn mx imin imax =>
        existsb (range_matches_spec mn mx imin imax) (lookup f (d_nums d))
    | QDateRange f lo hi ilo ihi =>
        existsb (date_in_range lo hi ilo ihi) (lookup f (d_dates d))
    | QBoolField f v => existsb (Bool.eqb v) (lookup f (d_bools d))
    | QDocIds ns => memZ (d_num d) ns
    | QAll => true
    | QNone => false
    | QConj ks => nonempty ks && forallb (matches d) ks
    | QDisj min2 ks => Z.max 1 (floor_min min2) <=? countb (matches d) ks
    | QBool must should min2 mustnot filter =>
        let hm := nonempty must in
        let hs := nonempty should in
        let hn := nonempty mustnot in
        let hf := match filter with Some _ => true | None => false end in
        (hm || hs || hn || hf)
        && forallb (matches d) must
        && negb (existsb (matches d) mustnot)
        && (if hs
            then (if hm then floor_min min2 else Z.max 1 (floor_min min2)) <=? countb (matches d) should
            else true)
        && match filter with Some fq => matches d fq | None => true end
    end.

  (* THE SPEC: the numbers of the corpus documents that satisfy the query, in corpus order
     (ascending for a well-formed corpus) *)
  Definition sem (c : corpus) (q : query) : list Z :=
    map d_num (filter (fun d => matches d q) c).
End Matches.
