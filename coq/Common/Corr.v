(* Generic driver of the correspondence check: a cases file lists, for every generated
   input, what the implementation returned; [mismatches chk start cs] evaluates the model's
   verdict on each case and returns the (global) indices of those on which model and
   implementation disagree. *)
From Coq Require Import ZArith List.
Import ListNotations.
Local Open Scope Z_scope.

Fixpoint mismatches {A : Type} (chk : A -> bool) (start : Z) (cs : list A) : list Z :=
  match cs with
  | [] => []
  | c :: cs' =>
      if chk c then mismatches chk (start + 1) cs'
      else start :: mismatches chk (start + 1) cs'
  end.

Lemma mismatches_nil_all {A} (chk : A -> bool) start cs :
  mismatches chk start cs = [] -> forall c, In c cs -> chk c = true.
Proof.
  revert start; induction cs as [|c cs IH]; intros start H x Hin; [destruct Hin|].
  cbn in H. destruct (chk c) eqn:E; [|discriminate].
  destruct Hin as [<-|Hin]; [exact E|]. eapply IH; eauto.
Qed.
