(* Byte strings as lists of Z (each 0..255), with the lexicographic order Go's
   bytes.Compare implements. *)
From Coq Require Import ZArith List Lia Bool.
Import ListNotations.
Local Open Scope Z_scope.

Definition bytes := list Z.

Definition is_byte (b : Z) : bool := (0 <=? b) && (b <? 256).
Definition valid_bytes (bs : bytes) : bool := forallb is_byte bs.

Fixpoint bcompare (a b : bytes) : comparison :=
  match a, b with
  | [], [] => Eq
  | [], _ :: _ => Lt
  | _ :: _, [] => Gt
  | x :: a', y :: b' =>
      match x ?= y with
      | Eq => bcompare a' b'
      | c => c
      end
  end.

Definition bleb (a b : bytes) : bool :=
  match bcompare a b with Gt => false | _ => true end.
Definition bltb (a b : bytes) : bool :=
  match bcompare a b with Lt => true | _ => false end.

Fixpoint beqb (a b : bytes) : bool :=
  match a, b with
  | [], [] => true
  | x :: a', y :: b' => (x =? y) && beqb a' b'
  | _, _ => false
  end.

Lemma beqb_eq a b : beqb a b = true <-> a = b.
Proof.
  revert b; induction a as [|x a IH]; destruct b as [|y b]; cbn; split; intro H;
    try discriminate; try reflexivity.
  - apply andb_true_iff in H as [H1 H2]. apply Z.eqb_eq in H1. apply IH in H2. congruence.
  - inversion H; subst. apply andb_true_iff; split; [apply Z.eqb_refl|apply IH; reflexivity].
Qed.

Lemma bcompare_refl a : bcompare a a = Eq.
Proof. induction a as [|x a IH]; cbn; [reflexivity|]. rewrite Z.compare_refl. exact IH. Qed.

Lemma bcompare_eq a b : bcompare a b = Eq <-> a = b.
Proof.
  revert b; induction a as [|x a IH]; destruct b as [|y b]; cbn; split; intro H;
    try discriminate; try reflexivity.
  - destruct (x ?= y) eqn:E; try discriminate. apply Z.compare_eq in E. apply IH in H. congruence.
  - inversion H; subst. rewrite Z.compare_refl. apply bcompare_refl.
Qed.

Lemma bcompare_antisym a b : bcompare b a = CompOpp (bcompare a b).
Proof.
  revert b; induction a as [|x a IH]; destruct b as [|y b]; cbn; try reflexivity.
  rewrite (Z.compare_antisym x y). destruct (x ?= y); cbn; auto.
Qed.

Lemma bcompare_trans_lt a b c : bcompare a b = Lt -> bcompare b c = Lt -> bcompare a c = Lt.
Proof.
  revert b c; induction a as [|x a IH]; intros [|y b] [|z c]; cbn; intros H1 H2;
    try discriminate; try reflexivity.
  destruct (x ?= y) eqn:E1; try discriminate.
  - apply Z.compare_eq in E1; subst y. destruct (x ?= z) eqn:E2; try discriminate; auto.
    eapply IH; eauto.
  - destruct (y ?= z) eqn:E2; try discriminate.
    + apply Z.compare_eq in E2; subst z. rewrite E1. reflexivity.
    + assert (x < z) by (rewrite Z.compare_lt_iff in *; lia).
      rewrite (proj2 (Z.compare_lt_iff x z)); auto.
Qed.

Fixpoint list_eqb {A} (eqb : A -> A -> bool) (a b : list A) : bool :=
  match a, b with
  | [], [] => true
  | x :: a', y :: b' => eqb x y && list_eqb eqb a' b'
  | _, _ => false
  end.

Lemma list_eqb_eq {A} (eqb : A -> A -> bool)
  (Heq : forall x y, eqb x y = true <-> x = y) a b : list_eqb eqb a b = true <-> a = b.
Proof.
  revert b; induction a as [|x a IH]; destruct b as [|y b]; cbn; split; intro H;
    try discriminate; try reflexivity.
  - apply andb_true_iff in H as [H1 H2]. apply Heq in H1. apply IH in H2. congruence.
  - inversion H; subst. apply andb_true_iff; split; [apply Heq; reflexivity|apply IH; reflexivity].
Qed.

Definition option_eqb {A} (eqb : A -> A -> bool) (a b : option A) : bool :=
  match a, b with
  | None, None => true
  | Some x, Some y => eqb x y
  | _, _ => false
  end.
