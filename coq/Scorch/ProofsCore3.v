(* Scorch engine — proofs, part 3: the reachable-state invariant [Inv], its preservation by
   every event accepted by [step], and the central refinement theorem
   [scorch_refines_replay]. *)
From Coq Require Import ZArith List Bool Arith Lia Permutation.
From Verif Require Import Scorch.Model Scorch.ProofsCore1 Scorch.ProofsCore2.
Import ListNotations.
Local Open Scope Z_scope.

(* ---------- the invariant ---------- *)

Definition all_tnew (ms : list merge) : list Z := flat_map (fun m => map t_new (m_tasks m)) ms.
Definition all_caps (ms : list merge) : list Z := flat_map captured_ids ms.

Record Inv (s : st) : Prop := mkInv {
  (* (a) segment ids *)
  inv_sids_nodup : NoDup (map sid (root s));
  inv_sids_used : forall x, In x (map sid (root s)) -> In x (used_sids s);
  inv_tnew_nodup : NoDup (all_tnew (inflight s));
  inv_tnew_used : forall x, In x (all_tnew (inflight s)) -> In x (used_sids s);
  inv_tnew_root : forall x, In x (all_tnew (inflight s)) -> ~ In x (map sid (root s));
  (* (c) captured segments *)
  inv_caps_nodup : NoDup (all_caps (inflight s));
  inv_caps_used : forall x, In x (all_caps (inflight s)) -> In x (used_sids s);
  inv_caps_tnew : forall x, In x (all_caps (inflight s)) -> ~ In x (all_tnew (inflight s));
  inv_cap_ok : forall m t c, In m (inflight s) -> In t (m_tasks m) -> In c (t_caps t) ->
                             cap_ok (root s) c;
  (* (b) I1 *)
  inv_I1 : NoDup (map fst (root_live (root s)));
  (* internal store has distinct keys *)
  inv_internal : NoDup (map fst (internal s))
}.

Lemma Inv_init : Inv init.
Proof.
  constructor; cbn [init root internal inflight used_sids map all_tnew all_caps flat_map root_live];
    try (intros m t c []); try (intros x []); try constructor.
Qed.

(* ---------- helper facts ---------- *)

Lemma In_captured_ids : forall m t c, In t (m_tasks m) -> In c (t_caps t) -> In (sid c) (captured_ids m).
Proof.
  intros m t c Ht Hc. unfold captured_ids. apply in_flat_map. exists t. split; [exact Ht|].
  apply in_map. exact Hc.
Qed.

Lemma In_all_caps : forall ms m x, In m ms -> In x (captured_ids m) -> In x (all_caps ms).
Proof. intros ms m x Hm Hx. unfold all_caps. apply in_flat_map. exists m. split; assumption. Qed.

Lemma In_all_tnew : forall ms m x, In m ms -> In x (map t_new (m_tasks m)) -> In x (all_tnew ms).
Proof. intros ms m x Hm Hx. unfold all_tnew. apply in_flat_map. exists m. split; assumption. Qed.

Lemma NoDup_remove_mid : forall {A} (a b c : list A), NoDup (a ++ b ++ c) -> NoDup (a ++ c).
Proof.
  intros A a b c H. apply NoDup_app_intro.
  - exact (NoDup_app_l _ _ H).
  - exact (NoDup_app_r _ _ (NoDup_app_r _ _ H)).
  - intros x Ha Hc. apply (NoDup_app_disj _ _ x H Ha). apply in_or_app. right. exact Hc.
Qed.

Lemma NoDup_mid_disj : forall {A} (a b c : list A) x,
  NoDup (a ++ b ++ c) -> In x (a ++ c) -> In x b -> False.
Proof.
  intros A a b c x H Hac Hb. apply in_app_or in Hac. destruct Hac as [Ha|Hc].
  - apply (NoDup_app_disj _ _ x H Ha). apply in_or_app. left. exact Hb.
  - apply NoDup_app_r in H. exact (NoDup_app_disj _ _ x H Hb Hc).
Qed.

Lemma remove_nth_split : forall {A} (l : list A) k m,
  nth_error l k = Some m -> exists l1 l2, l = l1 ++ m :: l2 /\ remove_nth k l = l1 ++ l2.
Proof.
  intros A. induction l as [|x l IH]; intros k m H.
  - destruct k; discriminate.
  - destruct k as [|k]; cbn [nth_error remove_nth] in *.
    + injection H as H. subst x. exists [], l. split; reflexivity.
    + destruct (IH k m H) as [l1 [l2 [H1 H2]]]. exists (x :: l1), l2. cbn [app].
      rewrite <- H1, H2. split; reflexivity.
Qed.

(* ---------- introduceSegment and the invariant ---------- *)

Lemma map_sid_obsolete : forall ids r, map sid (map (obsolete ids) r) = map sid r.
Proof. intros. rewrite map_map. apply map_ext. reflexivity. Qed.

Lemma In_introduce_root : forall newsid b r x,
  In x (introduce_root newsid b r) ->
  (batch_updates b <> [] /\ x = mkSeg newsid (batch_updates b) [] false) \/
  (exists cur, In cur r /\ x = obsolete (map fst b) cur).
Proof.
  intros newsid b r x. unfold introduce_root.
  assert (H : In x (filter has_live (map (obsolete (map fst b)) r)) ->
              exists cur, In cur r /\ x = obsolete (map fst b) cur).
  { intros Hin. apply filter_In in Hin. destruct Hin as [Hin _].
    apply in_map_iff in Hin. destruct Hin as [cur [He Hin]]. exists cur. split; [exact Hin | symmetry; exact He]. }
  destruct (batch_updates b) as [|u upd] eqn:E.
  - intros Hin. right. exact (H Hin).
  - intros Hin. apply in_app_or in Hin. destruct Hin as [Hin|Hin].
    + right. exact (H Hin).
    + destruct Hin as [He|[]]. left. split; [discriminate | symmetry; exact He].
Qed.

Lemma introduce_root_sids : forall newsid b r x,
  In x (map sid (introduce_root newsid b r)) ->
  (batch_updates b <> [] /\ x = newsid) \/ In x (map sid r).
Proof.
  intros newsid b r x Hin. apply in_map_iff in Hin. destruct Hin as [s [Hs Hin]].
  apply In_introduce_root in Hin. destruct Hin as [[Hne He]|[cur [Hcur He]]].
  - left. split; [exact Hne|]. subst s. cbn [sid] in Hs. symmetry. exact Hs.
  - right. subst s. cbn [obsolete sid] in Hs. subst x. apply in_map. exact Hcur.
Qed.

Lemma introduce_root_sids_NoDup : forall newsid b r,
  NoDup (map sid r) ->
  (batch_updates b <> [] -> ~ In newsid (map sid r)) ->
  NoDup (map sid (introduce_root newsid b r)).
Proof.
  intros newsid b r Hnd Hfresh. unfold introduce_root.
  assert (H : NoDup (map sid (filter has_live (map (obsolete (map fst b)) r)))).
  { apply NoDup_map_filter. rewrite map_sid_obsolete. exact Hnd. }
  destruct (batch_updates b) as [|u upd] eqn:E; [exact H|].
  rewrite map_app. apply NoDup_app_intro; [exact H | |].
  - cbn [map sid]. constructor; [intros [] | constructor].
  - intros x Hx [He|[]]. cbn [sid] in He. subst x.
    apply (Hfresh ltac:(discriminate)).
    apply in_map_iff in Hx. destruct Hx as [s [Hs Hin]]. apply filter_In in Hin.
    destruct Hin as [Hin _]. rewrite <- Hs, <- (map_sid_obsolete (map fst b) r).
    apply in_map. exact Hin.
Qed.

Lemma cap_ok_introduce : forall newsid b r c,
  NoDup (map sid r) ->
  (batch_updates b <> [] -> sid c <> newsid) ->
  cap_ok r c -> cap_ok (introduce_root newsid b r) c.
Proof.
  intros newsid b r c Hnd Hfresh Hok cur' Hfind.
  apply find_seg_Some in Hfind. destruct Hfind as [Hin Hs].
  apply In_introduce_root in Hin. destruct Hin as [[Hne He]|[cur [Hcur He]]].
  - exfalso. apply (Hfresh Hne). subst cur'. cbn [sid] in Hs. symmetry. exact Hs.
  - subst cur'. cbn [obsolete sid sdocs sdel] in *.
    assert (Hf : find_seg (sid c) r = Some cur).
    { rewrite <- Hs. apply find_seg_In_nodup; assumption. }
    destruct (Hok cur Hf) as [Hd Hsub]. split; [exact Hd|].
    intros i Hi. rewrite is_del_union, (Hsub i Hi). reflexivity.
Qed.

(* ---------- merge start ---------- *)

Lemma In_capture : forall r g c, In c (capture r g) -> In (sid c) g /\ find_seg (sid c) r = Some c.
Proof.
  intros r g c Hin. unfold capture in Hin. apply filter_In in Hin. destruct Hin as [Hin _].
  apply in_flat_map in Hin. destruct Hin as [id [Hid Hin]].
  destruct (find_seg id r) as [s|] eqn:E; [|destruct Hin].
  destruct Hin as [He|[]]. subst s. apply find_seg_Some in E as E'. destruct E' as [_ Hs].
  rewrite Hs. split; [exact Hid | exact E].
Qed.

Definition cap_keep (r : list seg) (id : Z) : bool :=
  match find_seg id r with Some s => has_live s | None => false end.

Lemma map_sid_capture : forall r g, map sid (capture r g) = filter (cap_keep r) g.
Proof.
  intros r. unfold capture. induction g as [|id g IH]; cbn [flat_map filter map].
  - reflexivity.
  - unfold cap_keep at 1. destruct (find_seg id r) as [s|] eqn:E; cbn [app filter].
    + apply find_seg_Some in E. destruct E as [_ Hs].
      destruct (has_live s); cbn [map]; rewrite IH; [rewrite Hs|]; reflexivity.
    + exact IH.
Qed.

Lemma captured_ids_mk_tasks : forall r groups file,
  captured_ids (mkMerge (mk_tasks r groups) file) = filter (cap_keep r) (flat_map snd groups).
Proof.
  intros r groups file. unfold captured_ids, mk_tasks. cbn [m_tasks].
  rewrite flat_map_map, filter_flat_map. apply flat_map_ext. intros g. cbn [t_caps].
  apply map_sid_capture.
Qed.

Lemma map_tnew_mk_tasks : forall r groups, map t_new (mk_tasks r groups) = map fst groups.
Proof. intros. unfold mk_tasks. rewrite map_map. apply map_ext. reflexivity. Qed.

Lemma forallb_notin : forall (l busy : list Z),
  forallb (fun id => negb (mem_id id busy)) l = true -> forall x, In x l -> ~ In x busy.
Proof.
  intros l busy H x Hx. rewrite forallb_forall in H. specialize (H x Hx).
  apply negb_true_iff in H. apply mem_id_false in H. exact H.
Qed.

(* ---------- merge finish ---------- *)

Lemma task_news_cases : forall f r t,
  task_news f r t = [] \/ exists nd del, task_news f r t = [mkSeg (t_new t) nd del f].
Proof.
  intros f r t. unfold task_news. destruct (t_caps t); [left; reflexivity|].
  match goal with |- context [if ?b then _ else _] => destruct b end.
  - right. eexists. eexists. reflexivity.
  - left. reflexivity.
Qed.

Definition task_kept (f : bool) (r : list seg) (t : task) : bool :=
  match task_news f r t with [] => false | _ => true end.

Lemma map_sid_news : forall f r ts,
  map sid (flat_map (task_news f r) ts) = map t_new (filter (task_kept f r) ts).
Proof.
  intros f r. induction ts as [|t ts IH]; cbn [flat_map filter map].
  - reflexivity.
  - rewrite map_app, IH. unfold task_kept at 2.
    destruct (task_news_cases f r t) as [H|[nd [del H]]]; rewrite H; reflexivity.
Qed.

Lemma In_merge_root : forall m r x,
  In x (introduce_merge_root m r) ->
  In x r \/ In (sid x) (map t_new (m_tasks m)).
Proof.
  intros m r x Hin. rewrite introduce_merge_root_news in Hin. apply in_app_or in Hin.
  destruct Hin as [Hin|Hin].
  - left. apply filter_In in Hin. exact (proj1 Hin).
  - right. apply (in_map sid) in Hin. rewrite map_sid_news in Hin.
    apply in_map_iff in Hin. destruct Hin as [t [Ht Hin]]. apply filter_In in Hin.
    rewrite <- Ht. apply in_map. exact (proj1 Hin).
Qed.

Lemma merge_root_sids_NoDup : forall m r,
  NoDup (map sid r) -> NoDup (map t_new (m_tasks m)) ->
  (forall x, In x (map t_new (m_tasks m)) -> ~ In x (map sid r)) ->
  NoDup (map sid (introduce_merge_root m r)).
Proof.
  intros m r Hr Ht Hd. rewrite introduce_merge_root_news, map_app.
  apply NoDup_app_intro.
  - apply NoDup_map_filter. exact Hr.
  - rewrite map_sid_news. apply NoDup_map_filter. exact Ht.
  - intros x Hx Hx'. rewrite map_sid_news in Hx'.
    apply in_map_iff in Hx'. destruct Hx' as [t [Ht' Hin]]. apply filter_In in Hin.
    apply (Hd x).
    + rewrite <- Ht'. apply in_map. exact (proj1 Hin).
    + apply in_map_iff in Hx. destruct Hx as [s [Hs Hin']]. apply filter_In in Hin'.
      rewrite <- Hs. apply in_map. exact (proj1 Hin').
Qed.

(* ---------- persist ---------- *)

Definition persist_seg (ids : list Z) (s : seg) : seg :=
  if mem_id (sid s) ids then mkSeg (sid s) (sdocs s) (sdel s) true else s.

Lemma persist_seg_fields : forall ids s,
  sid (persist_seg ids s) = sid s /\ sdocs (persist_seg ids s) = sdocs s /\
  sdel (persist_seg ids s) = sdel s.
Proof. intros. unfold persist_seg. destruct (mem_id (sid s) ids); repeat split; reflexivity. Qed.

Lemma map_sid_persist : forall ids r, map sid (introduce_persist_root ids r) = map sid r.
Proof.
  intros. unfold introduce_persist_root. rewrite map_map. apply map_ext.
  intros s. exact (proj1 (persist_seg_fields ids s)).
Qed.

Lemma find_seg_persist : forall ids id r,
  find_seg id (introduce_persist_root ids r) = option_map (persist_seg ids) (find_seg id r).
Proof.
  intros ids id. induction r as [|s r IH]; cbn [introduce_persist_root map find_seg].
  - reflexivity.
  - fold (persist_seg ids s). fold (introduce_persist_root ids r).
    rewrite (proj1 (persist_seg_fields ids s)).
    destruct (sid s =? id); [reflexivity | exact IH].
Qed.

Lemma cap_ok_persist : forall ids r c, cap_ok r c -> cap_ok (introduce_persist_root ids r) c.
Proof.
  intros ids r c Hok cur' Hfind. rewrite find_seg_persist in Hfind.
  destruct (find_seg (sid c) r) as [cur|] eqn:E; [|discriminate].
  cbn [option_map] in Hfind. injection Hfind as Hfind. subst cur'.
  destruct (persist_seg_fields ids cur) as [_ [Hd Hdel]]. rewrite Hd, Hdel.
  exact (Hok cur E).
Qed.

(* ---------- preservation ---------- *)

Lemma has_upd_true : forall (b : batch),
  match batch_updates b with [] => false | _ => true end = true <-> batch_updates b <> [].
Proof. intros b. destruct (batch_updates b); split; congruence. Qed.

Lemma Inv_step : forall s e s', Inv s -> step s e = Some s' -> Inv s'.
Proof.
  intros s e s' I Hstep. destruct e as [newsid b iops | file groups | k | ids]; cbn [step] in Hstep.
  - (* EIntroduce *)
    destruct (nodupZ (map fst b)) eqn:Hnd; cbn [andb] in Hstep; [|discriminate].
    apply nodupZ_NoDup in Hnd.
    set (has_upd := match batch_updates b with [] => false | _ => true end) in *.
    destruct (negb has_upd || negb (mem_id newsid (used_sids s))) eqn:Hfresh; [|discriminate].
    injection Hstep as Hstep. subst s'.
    assert (Hnew : batch_updates b <> [] -> ~ In newsid (used_sids s)).
    { intros Hne. apply has_upd_true in Hne. fold has_upd in Hne. rewrite Hne in Hfresh.
      cbn [negb orb] in Hfresh. apply negb_true_iff in Hfresh. apply mem_id_false. exact Hfresh. }
    assert (Hused : forall x, In x (used_sids s) -> In x (if has_upd then newsid :: used_sids s else used_sids s)).
    { intros x Hx. destruct has_upd; [right|]; exact Hx. }
    constructor; cbn [root internal inflight used_sids].
    + apply introduce_root_sids_NoDup; [exact (inv_sids_nodup s I)|].
      intros Hne Hin. apply (Hnew Hne). exact (inv_sids_used s I _ Hin).
    + intros x Hx. apply introduce_root_sids in Hx. destruct Hx as [[Hne He]|Hx].
      * apply has_upd_true in Hne. fold has_upd in Hne. rewrite Hne. left. symmetry. exact He.
      * apply Hused. exact (inv_sids_used s I _ Hx).
    + exact (inv_tnew_nodup s I).
    + intros x Hx. apply Hused. exact (inv_tnew_used s I _ Hx).
    + intros x Hx Hin. apply introduce_root_sids in Hin. destruct Hin as [[Hne He]|Hin].
      * subst x. apply (Hnew Hne). exact (inv_tnew_used s I _ Hx).
      * exact (inv_tnew_root s I _ Hx Hin).
    + exact (inv_caps_nodup s I).
    + intros x Hx. apply Hused. exact (inv_caps_used s I _ Hx).
    + exact (inv_caps_tnew s I).
    + intros m t c Hm Ht Hc. apply cap_ok_introduce.
      * exact (inv_sids_nodup s I).
      * intros Hne He. apply (Hnew Hne). rewrite <- He. apply (inv_caps_used s I).
        apply (In_all_caps _ m); [exact Hm|]. exact (In_captured_ids m t c Ht Hc).
      * exact (inv_cap_ok s I m t c Hm Ht Hc).
    + apply introduce_keys_NoDup; [exact Hnd | exact (inv_I1 s I)].
    + exact (proj1 (int_apply_spec iops (internal s) (inv_internal s I))).
  - (* EMergeStart *)
    match type of Hstep with (if ?c then _ else _) = _ => destruct c eqn:Hc end; [|discriminate].
    injection Hstep as Hstep. subst s'.
    repeat rewrite andb_true_iff in Hc.
    destruct Hc as [[[[Hall Hfound] Hbusy] Hnews] Hunused].
    apply nodupZ_NoDup in Hall. apply nodupZ_NoDup in Hnews.
    assert (Hbusy' := forallb_notin _ _ Hbusy). assert (Hunused' := forallb_notin _ _ Hunused).
    clear Hbusy Hunused.
    set (m := mkMerge (mk_tasks (root s) groups) file).
    assert (Htn : all_tnew (inflight s ++ [m]) = all_tnew (inflight s) ++ map fst groups).
    { unfold all_tnew. rewrite flat_map_app. cbn [flat_map m m_tasks].
      rewrite app_nil_r, map_tnew_mk_tasks. reflexivity. }
    assert (Hcp : all_caps (inflight s ++ [m]) =
                  all_caps (inflight s) ++ filter (cap_keep (root s)) (flat_map snd groups)).
    { unfold all_caps. rewrite flat_map_app. cbn [flat_map]. rewrite app_nil_r.
      unfold m. rewrite captured_ids_mk_tasks. reflexivity. }
    assert (Hcaproot : forall x, In x (filter (cap_keep (root s)) (flat_map snd groups)) ->
                                 In x (map sid (root s))).
    { intros x Hx. apply filter_In in Hx. destruct Hx as [_ Hk]. unfold cap_keep in Hk.
      destruct (find_seg x (root s)) as [sg|] eqn:E; [|discriminate].
      apply find_seg_Some in E. destruct E as [Hin Hs]. rewrite <- Hs. apply in_map. exact Hin. }
    constructor; cbn [root internal inflight used_sids]; try rewrite Htn; try rewrite Hcp.
    + exact (inv_sids_nodup s I).
    + intros x Hx. apply in_or_app. right. exact (inv_sids_used s I _ Hx).
    + apply NoDup_app_intro; [exact (inv_tnew_nodup s I) | exact Hnews |].
      intros x Hx Hx'. apply (Hunused' x Hx'). exact (inv_tnew_used s I _ Hx).
    + intros x Hx. apply in_app_or in Hx. apply in_or_app. destruct Hx as [Hx|Hx].
      * right. exact (inv_tnew_used s I _ Hx).
      * left. exact Hx.
    + intros x Hx Hin. apply in_app_or in Hx. destruct Hx as [Hx|Hx].
      * exact (inv_tnew_root s I _ Hx Hin).
      * apply (Hunused' x Hx). exact (inv_sids_used s I _ Hin).
    + apply NoDup_app_intro; [exact (inv_caps_nodup s I) | apply NoDup_filter; exact Hall |].
      intros x Hx Hx'. apply filter_In in Hx'. exact (Hbusy' x (proj1 Hx') Hx).
    + intros x Hx. apply in_app_or in Hx. apply in_or_app. right. destruct Hx as [Hx|Hx].
      * exact (inv_caps_used s I _ Hx).
      * apply (inv_sids_used s I). exact (Hcaproot x Hx).
    + intros x Hx Hx'. apply in_app_or in Hx'. apply in_app_or in Hx.
      destruct Hx as [Hx|Hx]; destruct Hx' as [Hx'|Hx'].
      * exact (inv_caps_tnew s I _ Hx Hx').
      * apply (Hunused' x Hx'). exact (inv_caps_used s I _ Hx).
      * exact (inv_tnew_root s I _ Hx' (Hcaproot x Hx)).
      * apply (Hunused' x Hx'). apply (inv_sids_used s I). exact (Hcaproot x Hx).
    + intros m' t c Hm' Ht Hcin. apply in_app_or in Hm'. destruct Hm' as [Hm'|[Hm'|[]]].
      * exact (inv_cap_ok s I m' t c Hm' Ht Hcin).
      * subst m'. unfold m in Ht. cbn [m_tasks] in Ht. unfold mk_tasks in Ht.
        apply in_map_iff in Ht. destruct Ht as [g [Hg _]]. subst t. cbn [t_caps] in Hcin.
        apply In_capture in Hcin. destruct Hcin as [_ Hf].
        intros cur Hcur. rewrite Hf in Hcur. injection Hcur as Hcur. subst cur.
        split; [reflexivity | intros i Hi; exact Hi].
    + exact (inv_I1 s I).
    + exact (inv_internal s I).
  - (* EMergeFinish *)
    destruct (nth_error (inflight s) k) as [m|] eqn:Hk; [|discriminate].
    injection Hstep as Hstep. subst s'.
    destruct (remove_nth_split (inflight s) k m Hk) as [l1 [l2 [Hl Hrm]]].
    assert (Hm : In m (inflight s)) by (rewrite Hl; apply in_or_app; right; left; reflexivity).
    assert (Hsub : forall m', In m' (l1 ++ l2) -> In m' (inflight s)).
    { intros m' Hm'. rewrite Hl. apply in_app_or in Hm'. apply in_or_app.
      destruct Hm' as [H|H]; [left; exact H | right; right; exact H]. }
    assert (Htn : all_tnew (inflight s) = all_tnew l1 ++ map t_new (m_tasks m) ++ all_tnew l2).
    { rewrite Hl. unfold all_tnew. rewrite flat_map_app. reflexivity. }
    assert (Hcp : all_caps (inflight s) = all_caps l1 ++ captured_ids m ++ all_caps l2).
    { rewrite Hl. unfold all_caps. rewrite flat_map_app. reflexivity. }
    assert (Htn' : all_tnew (l1 ++ l2) = all_tnew l1 ++ all_tnew l2).
    { unfold all_tnew. apply flat_map_app. }
    assert (Hcp' : all_caps (l1 ++ l2) = all_caps l1 ++ all_caps l2).
    { unfold all_caps. apply flat_map_app. }
    assert (Htn_sub : forall x, In x (all_tnew (l1 ++ l2)) -> In x (all_tnew (inflight s))).
    { intros x Hx. rewrite Htn' in Hx. rewrite Htn. apply in_app_or in Hx. apply in_or_app.
      destruct Hx as [H|H]; [left; exact H | right; apply in_or_app; right; exact H]. }
    assert (Hcp_sub : forall x, In x (all_caps (l1 ++ l2)) -> In x (all_caps (inflight s))).
    { intros x Hx. rewrite Hcp' in Hx. rewrite Hcp. apply in_app_or in Hx. apply in_or_app.
      destruct Hx as [H|H]; [left; exact H | right; apply in_or_app; right; exact H]. }
    assert (Hm_tn : forall x, In x (map t_new (m_tasks m)) -> In x (all_tnew (inflight s))).
    { intros x Hx. exact (In_all_tnew _ m x Hm Hx). }
    assert (Hnd_tn := inv_tnew_nodup s I). rewrite Htn in Hnd_tn.
    assert (Hnd_cp := inv_caps_nodup s I). rewrite Hcp in Hnd_cp.
    constructor; cbn [root internal inflight used_sids]; rewrite ?Hrm.
    + apply merge_root_sids_NoDup.
      * exact (inv_sids_nodup s I).
      * exact (NoDup_app_l _ _ (NoDup_app_r _ _ Hnd_tn)).
      * intros x Hx. exact (inv_tnew_root s I x (Hm_tn x Hx)).
    + intros x Hx. apply in_map_iff in Hx. destruct Hx as [sg [Hs Hin]].
      apply In_merge_root in Hin. destruct Hin as [Hin|Hin].
      * apply (inv_sids_used s I). rewrite <- Hs. apply in_map. exact Hin.
      * apply (inv_tnew_used s I). apply Hm_tn. rewrite <- Hs. exact Hin.
    + rewrite Htn'. exact (NoDup_remove_mid _ _ _ Hnd_tn).
    + intros x Hx. exact (inv_tnew_used s I x (Htn_sub x Hx)).
    + intros x Hx Hin. apply in_map_iff in Hin. destruct Hin as [sg [Hs Hin]].
      apply In_merge_root in Hin. destruct Hin as [Hin|Hin].
      * apply (inv_tnew_root s I x (Htn_sub x Hx)). rewrite <- Hs. apply in_map. exact Hin.
      * rewrite Htn' in Hx. rewrite Hs in Hin. exact (NoDup_mid_disj _ _ _ x Hnd_tn Hx Hin).
    + rewrite Hcp'. exact (NoDup_remove_mid _ _ _ Hnd_cp).
    + intros x Hx. exact (inv_caps_used s I x (Hcp_sub x Hx)).
    + intros x Hx Hx'. exact (inv_caps_tnew s I x (Hcp_sub x Hx) (Htn_sub x Hx')).
    + intros m' t c Hm' Ht Hc cur' Hfind.
      assert (Hcs : In (sid c) (all_caps (inflight s))).
      { apply (In_all_caps _ m' _ (Hsub m' Hm')). exact (In_captured_ids m' t c Ht Hc). }
      apply find_seg_Some in Hfind. destruct Hfind as [Hin Hs].
      apply In_merge_root in Hin. destruct Hin as [Hin|Hin].
      * apply (inv_cap_ok s I m' t c (Hsub m' Hm') Ht Hc).
        rewrite <- Hs. apply find_seg_In_nodup; [exact (inv_sids_nodup s I) | exact Hin].
      * exfalso. apply (inv_caps_tnew s I (sid c) Hcs). apply Hm_tn. rewrite <- Hs. exact Hin.
    + eapply Permutation_NoDup.
      * apply Permutation_map. apply Permutation_sym. apply merge_root_live_perm.
        -- exact (inv_sids_nodup s I).
        -- exact (NoDup_app_l _ _ (NoDup_app_r _ _ Hnd_cp)).
        -- intros t c Ht Hc. exact (inv_cap_ok s I m t c Hm Ht Hc).
      * exact (inv_I1 s I).
    + exact (inv_internal s I).
  - (* EPersist *)
    injection Hstep as Hstep. subst s'.
    constructor; cbn [root internal inflight used_sids]; rewrite ?map_sid_persist, ?root_live_persist.
    + exact (inv_sids_nodup s I).
    + exact (inv_sids_used s I).
    + exact (inv_tnew_nodup s I).
    + exact (inv_tnew_used s I).
    + exact (inv_tnew_root s I).
    + exact (inv_caps_nodup s I).
    + exact (inv_caps_used s I).
    + exact (inv_caps_tnew s I).
    + intros m t c Hm Ht Hc. apply cap_ok_persist. exact (inv_cap_ok s I m t c Hm Ht Hc).
    + exact (inv_I1 s I).
    + exact (inv_internal s I).
Qed.

(* ---------- contents: introduce applies the batch, merge and persist change nothing ---------- *)

(* DESIGN.md: merge_reapplies_deletes / I3 for introduceMerge *)
Lemma merge_preserves_lookup : forall s k m,
  Inv s -> nth_error (inflight s) k = Some m ->
  forall d, root_lookup (introduce_merge_root m (root s)) d = root_lookup (root s) d.
Proof.
  intros s k m I Hk d.
  assert (Hm : In m (inflight s)) by (eapply nth_error_In; exact Hk).
  assert (Hp : Permutation (root_live (introduce_merge_root m (root s))) (root_live (root s))).
  { apply merge_root_live_perm.
    - exact (inv_sids_nodup s I).
    - exact (NoDup_flat_map_in captured_ids (inflight s) m (inv_caps_nodup s I) Hm).
    - intros t c Ht Hc. exact (inv_cap_ok s I m t c Hm Ht Hc). }
  rewrite !root_lookup_live. symmetry. apply assoc_first_perm.
  - apply Permutation_sym. exact Hp.
  - exact (inv_I1 s I).
Qed.

Lemma merge_preserves_live_count : forall s k m,
  Inv s -> nth_error (inflight s) k = Some m ->
  root_live_count (introduce_merge_root m (root s)) = root_live_count (root s).
Proof.
  intros s k m I Hk.
  assert (Hm : In m (inflight s)) by (eapply nth_error_In; exact Hk).
  rewrite !root_live_count_live. apply Permutation_length. apply merge_root_live_perm.
  - exact (inv_sids_nodup s I).
  - exact (NoDup_flat_map_in captured_ids (inflight s) m (inv_caps_nodup s I) Hm).
  - intros t c Ht Hc. exact (inv_cap_ok s I m t c Hm Ht Hc).
Qed.

Lemma persist_preserves_lookup : forall ids r d,
  root_lookup (introduce_persist_root ids r) d = root_lookup r d.
Proof. intros. rewrite !root_lookup_live, root_live_persist. reflexivity. Qed.

Definition step_batches (e : event) : list batch :=
  match e with EIntroduce _ b _ => [b] | _ => [] end.
Definition step_iops (e : event) : list (Z * option Z) :=
  match e with EIntroduce _ _ io => io | _ => [] end.

Definition apply_batches (bs : list batch) (m : Z -> option Z) : Z -> option Z :=
  fold_left (fun m b => spec_apply_batch b m) bs m.

Lemma apply_batches_ext : forall bs m1 m2,
  (forall d, m1 d = m2 d) -> forall d, apply_batches bs m1 d = apply_batches bs m2 d.
Proof.
  unfold apply_batches. induction bs as [|b bs IH]; intros m1 m2 H d; cbn [fold_left].
  - apply H.
  - apply IH. intros x. unfold spec_apply_batch. rewrite H. reflexivity.
Qed.

Lemma spec_apply_ops_ext : forall ops m1 m2,
  (forall d, m1 d = m2 d) -> forall d, spec_apply_ops ops m1 d = spec_apply_ops ops m2 d.
Proof.
  unfold spec_apply_ops. induction ops as [|p ops IH]; intros m1 m2 H d; cbn [fold_left].
  - apply H.
  - apply IH. intros x. rewrite H. reflexivity.
Qed.

Lemma spec_apply_ops_app : forall a b m d,
  spec_apply_ops (a ++ b) m d = spec_apply_ops b (spec_apply_ops a m) d.
Proof. intros. unfold spec_apply_ops. rewrite fold_left_app. reflexivity. Qed.

Lemma apply_batches_app : forall a b m d,
  apply_batches (a ++ b) m d = apply_batches b (apply_batches a m) d.
Proof. intros. unfold apply_batches. rewrite fold_left_app. reflexivity. Qed.

Lemma batches_of_cons : forall e evs, batches_of (e :: evs) = step_batches e ++ batches_of evs.
Proof. intros [ | | | ] evs; reflexivity. Qed.

Lemma iops_of_cons : forall e evs, iops_of (e :: evs) = step_iops e ++ iops_of evs.
Proof. intros [ | | | ] evs; reflexivity. Qed.

Lemma step_lookup : forall s e s',
  Inv s -> step s e = Some s' ->
  forall d, root_lookup (root s') d = apply_batches (step_batches e) (root_lookup (root s)) d.
Proof.
  intros s e s' I Hstep d. destruct e as [newsid b iops | file groups | k | ids]; cbn [step] in Hstep.
  - destruct (nodupZ (map fst b)) eqn:Hnd; cbn [andb] in Hstep; [|discriminate].
    match type of Hstep with (if ?c then _ else _) = _ => destruct c end; [|discriminate].
    injection Hstep as Hstep. subst s'. cbn [root step_batches apply_batches fold_left].
    apply introduce_lookup. apply nodupZ_NoDup. exact Hnd.
  - match type of Hstep with (if ?c then _ else _) = _ => destruct c end; [|discriminate].
    injection Hstep as Hstep. subst s'. reflexivity.
  - destruct (nth_error (inflight s) k) as [m|] eqn:Hk; [|discriminate].
    injection Hstep as Hstep. subst s'. cbn [root step_batches apply_batches fold_left].
    exact (merge_preserves_lookup s k m I Hk d).
  - injection Hstep as Hstep. subst s'. cbn [root step_batches apply_batches fold_left].
    apply persist_preserves_lookup.
Qed.

Lemma step_internal : forall s e s',
  Inv s -> step s e = Some s' ->
  forall k, assoc_first k (internal s') =
            spec_apply_ops (step_iops e) (fun y => assoc_first y (internal s)) k.
Proof.
  intros s e s' I Hstep x. destruct e as [newsid b iops | file groups | k | ids]; cbn [step] in Hstep.
  - match type of Hstep with (if ?c then _ else _) = _ => destruct c end; [|discriminate].
    injection Hstep as Hstep. subst s'. cbn [internal step_iops].
    exact (proj2 (int_apply_spec iops (internal s) (inv_internal s I)) x).
  - match type of Hstep with (if ?c then _ else _) = _ => destruct c end; [|discriminate].
    injection Hstep as Hstep. subst s'. reflexivity.
  - destruct (nth_error (inflight s) k) as [m|]; [|discriminate].
    injection Hstep as Hstep. subst s'. reflexivity.
  - injection Hstep as Hstep. subst s'. reflexivity.
Qed.

(* ---------- runs ---------- *)

Lemma run_gen : forall evs s s',
  Inv s -> run s evs = Some s' ->
  Inv s' /\
  (forall d, root_lookup (root s') d = apply_batches (batches_of evs) (root_lookup (root s)) d) /\
  (forall k, assoc_first k (internal s') =
             spec_apply_ops (iops_of evs) (fun y => assoc_first y (internal s)) k).
Proof.
  induction evs as [|e evs IH]; intros s s' I Hrun; cbn [run] in Hrun.
  - injection Hrun as Hrun. subst s'. split; [exact I|]. split; intros; reflexivity.
  - destruct (step s e) as [s1|] eqn:Hstep; [|discriminate].
    assert (I1 := Inv_step s e s1 I Hstep).
    destruct (IH s1 s' I1 Hrun) as [I' [Hl Hi]]. split; [exact I'|]. split.
    + intros d. rewrite batches_of_cons, apply_batches_app, Hl.
      apply apply_batches_ext. intros x. exact (step_lookup s e s1 I Hstep x).
    + intros k. rewrite iops_of_cons, spec_apply_ops_app, Hi.
      apply spec_apply_ops_ext. intros x. exact (step_internal s e s1 I Hstep x).
Qed.

Lemma run_Inv : forall evs s, run init evs = Some s -> Inv s.
Proof. intros evs s H. exact (proj1 (run_gen evs init s Inv_init H)). Qed.

(* ---------- the central refinement theorem ---------- *)

Theorem scorch_refines_replay : forall evs s,
  run init evs = Some s ->
  (forall d, root_lookup (root s) d = replay (batches_of evs) d)
  /\ (forall d, (root_live_copies (root s) d <= 1)%nat)
  /\ (forall k, assoc_first k (internal s) = spec_internal (iops_of evs) k).
Proof.
  intros evs s Hrun. destruct (run_gen evs init s Inv_init Hrun) as [I [Hl Hi]].
  split; [|split].
  - intros d. rewrite Hl. unfold replay. apply apply_batches_ext. reflexivity.
  - intros d. rewrite root_live_copies_live. apply nodup_keys_count. exact (inv_I1 s I).
  - intros k. rewrite Hi. unfold spec_internal. apply spec_apply_ops_ext. reflexivity.
Qed.
