(* Scorch snapshot-epoch key codec — executable model (definitions only).

   Transcribes /repo/index/scorch/int.go (a port of cockroach's util/encoding):
     encodeUvarintAscending(b []byte, v uint64) []byte            -> [encode_to], [encode]
     decodeUvarintAscending(b []byte) ([]byte, uint64, error)     -> [decode]
   Scorch uses the encoding of a snapshot's epoch as the name of its bucket inside root.bolt's
   snapshots bucket (persister.go prepareBoltSnapshot / removeOldBoltSnapshots, rollback.go
   RollbackPoints / Rollback, persister.go loadFromRootBolt "newest = cursor.Last()"), and bolt
   orders bucket keys with bytes.Compare -> [bcmp].

   Bytes are [N] values below 256, uint64 values are [N] values below 2^64; Go's [byte(x)]
   conversion, [>>], [<<] and [|] on uint64 are written with N.land / N.shiftr / N.shiftl /
   N.lor, the 64-bit wrap-around of [<<] and of [uint64(int)] is explicit.  The decoder's
   [length] is a signed Go [int], modelled in Z.  Every error return of the decoder is [None]. *)
From Coq Require Import NArith ZArith List Bool.
Import ListNotations.
Local Open Scope N_scope.

(* int.go const block *)
Definition intMin : N := 128.                                  (* 0x80 *)
Definition intMaxWidth : N := 8.
Definition intMax : N := 253.                                  (* 0xfd *)
Definition intZero : N := intMin + intMaxWidth.                (* 136 *)
Definition intSmall : N := intMax - intZero - intMaxWidth.     (* 109 *)

Definition two64 : N := 2 ^ 64.

(* Go: byte(x) for an unsigned x keeps the low 8 bits *)
Definition byte (v : N) : N := N.land v 255.

(* Go: byte-typed addition [intZero+byte(v)] wraps at 256 *)
Definition badd (a b : N) : N := (a + b) mod 256.

(* encodeUvarintAscending, the bytes appended for v (switch cases in source order) *)
Definition encode (v : N) : list N :=
  if v <=? intSmall then [badd intZero (byte v)]
  else if v <=? 0xff then [intMax - 7; byte v]
  else if v <=? 0xffff then [intMax - 6; byte (N.shiftr v 8); byte v]
  else if v <=? 0xffffff then [intMax - 5; byte (N.shiftr v 16); byte (N.shiftr v 8); byte v]
  else if v <=? 0xffffffff then
    [intMax - 4; byte (N.shiftr v 24); byte (N.shiftr v 16); byte (N.shiftr v 8); byte v]
  else if v <=? 0xffffffffff then
    [intMax - 3; byte (N.shiftr v 32); byte (N.shiftr v 24); byte (N.shiftr v 16);
     byte (N.shiftr v 8); byte v]
  else if v <=? 0xffffffffffff then
    [intMax - 2; byte (N.shiftr v 40); byte (N.shiftr v 32); byte (N.shiftr v 24);
     byte (N.shiftr v 16); byte (N.shiftr v 8); byte v]
  else if v <=? 0xffffffffffffff then
    [intMax - 1; byte (N.shiftr v 48); byte (N.shiftr v 40); byte (N.shiftr v 32);
     byte (N.shiftr v 24); byte (N.shiftr v 16); byte (N.shiftr v 8); byte v]
  else
    [intMax; byte (N.shiftr v 56); byte (N.shiftr v 48); byte (N.shiftr v 40);
     byte (N.shiftr v 32); byte (N.shiftr v 24); byte (N.shiftr v 16); byte (N.shiftr v 8);
     byte v].

(* encodeUvarintAscending(b, v) = append(b, ...) *)
Definition encode_to (b : list N) (v : N) : list N := b ++ encode v.

(* Go: uint64(x) of a signed int x (two's complement) *)
Definition uint64_of_int (z : Z) : N := Z.to_N (z mod 2 ^ 64).

(* the loop body  v = (v << 8) | uint64(t)  on a uint64 v *)
Definition dec_step (v t : N) : N := N.lor (N.shiftl v 8 mod two64) t.

(* decodeUvarintAscending: Some (remainder, value), None = any of its three error returns *)
Definition decode (b : list N) : option (list N * N) :=
  match b with
  | [] => None                                         (* insufficient bytes *)
  | b0 :: r =>                                         (* b = b[1:] *)
      let length : Z := (Z.of_N b0 - Z.of_N intZero)%Z in
      if (length <=? Z.of_N intSmall)%Z then Some (r, uint64_of_int length)
      else
        let length := (length - Z.of_N intSmall)%Z in
        if ((length <? 0) || (length >? 8))%Z then None            (* invalid uvarint length *)
        else if (Z.of_nat (List.length r) <? length)%Z then None   (* insufficient bytes *)
        else Some (skipn (Z.to_nat length) r,
                   fold_left dec_step (firstn (Z.to_nat length) r) 0)
  end.

(* bytes.Compare, the order of bolt keys *)
Fixpoint bcmp (a b : list N) : comparison :=
  match a, b with
  | [], [] => Eq
  | [], _ :: _ => Lt
  | _ :: _, [] => Gt
  | x :: a', y :: b' =>
      match x ?= y with
      | Eq => bcmp a' b'
      | c => c
      end
  end.

Definition lex_lt (a b : list N) : Prop := bcmp a b = Lt.

Definition bytes_ok (l : list N) : Prop := Forall (fun t => t < 256) l.

(* ---- vocabulary of the statements (not part of the transcription) ---- *)

(* n bytes, big endian, of v (its low 8n bits) *)
Fixpoint be (n : nat) (v : N) : list N :=
  match n with
  | O => []
  | S n' => be n' (N.shiftr v 8) ++ [byte v]
  end.

(* big-endian value of a byte string *)
Definition be_val (l : list N) : N := fold_left (fun v t => v * 256 + t) l 0.

(* the length-prefixed form with n payload bytes (n = 1..8); canonical iff n is minimal and
   v > intSmall *)
Definition encode_w (n : nat) (v : N) : list N := (intMax - 8 + N.of_nat n) :: be n v.

(* number of payload bytes the encoder chooses (0 = single-byte form) *)
Definition width (v : N) : nat :=
  if v <=? intSmall then 0
  else if v <=? 0xff then 1
  else if v <=? 0xffff then 2
  else if v <=? 0xffffff then 3
  else if v <=? 0xffffffff then 4
  else if v <=? 0xffffffffff then 5
  else if v <=? 0xffffffffffff then 6
  else if v <=? 0xffffffffffffff then 7
  else 8.

(* the last key a bolt cursor reports among k :: ks (cursor.Last()), and the largest epoch *)
Fixpoint max_key (k : list N) (ks : list (list N)) : list N :=
  match ks with
  | [] => k
  | k' :: ks' => max_key (match bcmp k k' with Lt => k' | _ => k end) ks'
  end.

Fixpoint max_epoch (e : N) (es : list N) : N :=
  match es with
  | [] => e
  | e' :: es' => max_epoch (N.max e e') es'
  end.
