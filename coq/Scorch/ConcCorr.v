(* C04 — correspondence cases of the concurrent-writer harness (harness/cmd/c04):
   CBase: the cases shared with the other scorch properties (Corr.v: observations of writers with
          disjoint document families judged as prefix vectors, event traces judged by the model);
   CSer : writers whose batches touch the SAME documents, on any index type: the observations must
          be explained by one serial order of the batches (Ser.v; decided by [ser_check], which
          ProofsSer.v proves equivalent to the spec [serialisable]). *)
From Coq Require Import ZArith List Bool Arith.
From Verif Require Import Common.Bytes Scorch.Model Scorch.Corr Scorch.Ser.
Import ListNotations.

Inductive case :=
| CBase (c : Corr.case)
| CSer (nids : nat) (writers : list (list sbatch)) (clients : list (list sobs))
| CAll (cs : list case).

Fixpoint check (c : case) : bool :=
  match c with
  | CBase b => Corr.check b
  | CSer nids ws clients => ser_check nids ws clients
  | CAll cs => forallb check cs
  end.

(* for replay files: how many search nodes were alive after 0, 1, 2, ... batches (the search died
   where this reaches 0) and up to three of the last nodes alive (prefix vector, state, per client
   the number of observations explained so far: the next one of some client has no explanation) *)
Inductive expl :=
| EBase (e : Corr.expl)
| ESer (ok : bool) (alive_per_level : list nat) (last_alive_nodes : list (list nat * state * list nat))
| EAll (l : list (bool * expl)).

Fixpoint explain (c : case) : expl :=
  match c with
  | CBase b => EBase (Corr.explain b)
  | CSer nids ws clients =>
      ESer (ser_check nids ws clients)
           (level_sizes ws clients (total_batches ws) [node0 nids ws clients])
           (map (fun nd => (fst (nd_pt nd), snd (nd_pt nd), nd_ptrs nd))
                (firstn 3 (last_alive ws clients (total_batches ws) [node0 nids ws clients])))
  | CAll cs => EAll (map (fun c' => (check c', explain c')) cs)
  end.
