(* C04 — serialisability of concurrent writers whose batches touch the SAME document ids.

   Several goroutines each issue a sequence of batches; reader clients take observations, each
   from one snapshot.  The statement of C04 asks that everything observed is explained by ONE
   serial order of all the batches that respects every goroutine's own order: each observation is
   the state after some prefix of that order, the prefix contains every batch whose call had
   returned before the read began and no batch that had not yet been submitted when the read ended,
   and the prefixes seen by one client never go backwards.  (The state after all batches is
   observed by one more client whose single observation was taken after every call had returned.)

   This file holds the SPEC ([serialisable], a Prop quantifying over schedules) and a CHECKER
   ([ser_check], a level-by-level search over the lattice of per-writer prefix vectors); they are
   proved equivalent in ProofsSer.v.  Nothing here depends on the index type: a state is the map
   document -> version, a batch is applied with its last operation per document winning. *)
From Coq Require Import ZArith List Bool Arith.
From Verif Require Import Common.Bytes.
Import ListNotations.

(* ---------- states, batches, schedules ---------- *)

Definition state := list (option Z).          (* document number -> live version *)
Definition sop := (nat * option Z)%type.      (* (document, Some version) = Index, (document, None) = Delete *)
Definition sbatch := list sop.

Fixpoint set_nth {A} (n : nat) (x : A) (l : list A) : list A :=
  match l, n with
  | [], _ => []
  | _ :: l', O => x :: l'
  | y :: l', S n' => y :: set_nth n' x l'
  end.

(* operations in call order: the last one on a document wins *)
Definition apply_batch (b : sbatch) (s : state) : state :=
  fold_left (fun s o => set_nth (fst o) (snd o) s) b s.

(* a point of an execution: how many batches of each writer have been applied, and the state *)
Definition point := (list nat * state)%type.

Definition p0 (nids : nat) (ws : list (list sbatch)) : point := (repeat 0 (length ws), repeat None nids).

(* writer [w] applies its next batch *)
Definition step_writer (ws : list (list sbatch)) (w : nat) (p : point) : option point :=
  match nth_error (fst p) w, nth_error ws w with
  | Some kw, Some bs =>
      match nth_error bs kw with
      | Some b => Some (set_nth w (S kw) (fst p), apply_batch b (snd p))
      | None => None
      end
  | _, _ => None
  end.

(* the points visited after [p] when the writers take turns as [sch] says *)
Fixpoint run_sched (ws : list (list sbatch)) (sch : list nat) (p : point) : option (list point) :=
  match sch with
  | [] => Some []
  | w :: sch' =>
      match step_writer ws w p with
      | Some q => match run_sched ws sch' q with Some r => Some (q :: r) | None => None end
      | None => None
      end
  end.

Definition complete (ws : list (list sbatch)) (p : point) : Prop := fst p = map (@length sbatch) ws.

(* ---------- observations ---------- *)

Record sobs := mkSObs {
  so_acked : list nat;            (* per writer: batches whose call had returned before the read began *)
  so_sub : list nat;              (* per writer: batches submitted when the read ended *)
  so_count : option Z;            (* DocCount as answered by this snapshot; None = not part of the observation *)
  so_docs : list (option Z);      (* Document(d) for every document number: stored version *)
  so_found : list (nat * Z)       (* (document, version) pairs reachable through the term index, ascending *)
}.

Fixpoint live_from (i : nat) (s : state) : list (nat * Z) :=
  match s with
  | [] => []
  | Some v :: s' => (i, v) :: live_from (S i) s'
  | None :: s' => live_from (S i) s'
  end.

Definition optZ_eqb := option_eqb Z.eqb.
Definition natZ_eqb (a b : nat * Z) : bool := Nat.eqb (fst a) (fst b) && Z.eqb (snd a) (snd b).

(* what a snapshot holding state [s] must answer *)
Definition view_ok (o : sobs) (s : state) : bool :=
  match so_count o with Some c => Z.eqb c (Z.of_nat (length (live_from 0 s))) | None => true end &&
  list_eqb optZ_eqb (so_docs o) s &&
  list_eqb natZ_eqb (so_found o) (live_from 0 s).

Fixpoint nvec_le (a b : list nat) : bool :=
  match a, b with
  | [], [] => true
  | x :: a', y :: b' => Nat.leb x y && nvec_le a' b'
  | _, _ => false
  end.

Definition matches (o : sobs) (p : point) : bool :=
  nvec_le (so_acked o) (fst p) && nvec_le (fst p) (so_sub o) && view_ok o (snd p).

(* ---------- the spec ---------- *)

(* one client's observations, in the order taken, can be assigned to the points of the execution
   in order (several to one point, none to others), each to a point it matches *)
Fixpoint explained (pts : list point) (os : list sobs) : Prop :=
  match pts with
  | [] => os = []
  | p :: pts' => exists n, (forall o, In o (firstn n os) -> matches o p = true) /\ explained pts' (skipn n os)
  end.

Definition serialisable (nids : nat) (ws : list (list sbatch)) (clients : list (list sobs)) : Prop :=
  exists sch pts,
    run_sched ws sch (p0 nids ws) = Some pts /\
    complete ws (last pts (p0 nids ws)) /\
    forall os, In os clients -> explained (p0 nids ws :: pts) os.

(* ---------- the checker ---------- *)

Fixpoint count_while {A} (f : A -> bool) (l : list A) : nat :=
  match l with
  | [] => 0
  | x :: l' => if f x then S (count_while f l') else 0
  end.

(* greedy: at point [p] a client consumes as many of its next observations as match *)
Definition adv (p : point) (os : list sobs) (ptr : nat) : nat :=
  ptr + count_while (fun o => matches o p) (skipn ptr os).

(* a search node: a point and, per client, how many observations are consumed *)
Record node := mkNode { nd_pt : point; nd_ptrs : list nat }.

Fixpoint map2 {A B C} (f : A -> B -> C) (la : list A) (lb : list B) : list C :=
  match la, lb with
  | a :: la', b :: lb' => f a b :: map2 f la' lb'
  | _, _ => []
  end.

Fixpoint forallb2 {A B} (f : A -> B -> bool) (la : list A) (lb : list B) : bool :=
  match la, lb with
  | [], [] => true
  | a :: la', b :: lb' => f a b && forallb2 f la' lb'
  | _, _ => false
  end.

Definition expand (ws : list (list sbatch)) (clients : list (list sobs)) (nd : node) : list node :=
  flat_map (fun w => match step_writer ws w (nd_pt nd) with
                     | Some q => [mkNode q (map2 (adv q) clients (nd_ptrs nd))]
                     | None => []
                     end) (seq 0 (length ws)).

(* pruning: if a client's next observation ended before this many batches had been submitted,
   no later point (whose vector is only larger) can match it either *)
Definition head_viable (k : list nat) (os : list sobs) (ptr : nat) : bool :=
  match nth_error os ptr with
  | Some o => nvec_le k (so_sub o)
  | None => true
  end.

Definition viable (clients : list (list sobs)) (nd : node) : bool :=
  forallb2 (head_viable (fst (nd_pt nd))) clients (nd_ptrs nd).

Definition node_eqb (a b : node) : bool :=
  list_eqb Nat.eqb (fst (nd_pt a)) (fst (nd_pt b)) &&
  list_eqb optZ_eqb (snd (nd_pt a)) (snd (nd_pt b)) &&
  list_eqb Nat.eqb (nd_ptrs a) (nd_ptrs b).

Fixpoint dedupe (l : list node) : list node :=
  match l with
  | [] => []
  | x :: l' => if existsb (node_eqb x) l' then dedupe l' else x :: dedupe l'
  end.

Definition next_level ws clients (fr : list node) : list node :=
  dedupe (filter (viable clients) (flat_map (expand ws clients) fr)).

Fixpoint levels ws clients (n : nat) (fr : list node) : list node :=
  match n with
  | O => fr
  | S n' => levels ws clients n' (next_level ws clients fr)
  end.

Definition node0 nids ws (clients : list (list sobs)) : node :=
  mkNode (p0 nids ws) (map (fun os => adv (p0 nids ws) os 0) clients).

Definition total_batches (ws : list (list sbatch)) : nat := fold_right (fun bs acc => length bs + acc) 0 ws.

Definition node_done ws (clients : list (list sobs)) (nd : node) : bool :=
  list_eqb Nat.eqb (fst (nd_pt nd)) (map (@length sbatch) ws) &&
  list_eqb Nat.eqb (nd_ptrs nd) (map (@length sobs) clients).

Definition ser_check (nids : nat) (ws : list (list sbatch)) (clients : list (list sobs)) : bool :=
  existsb (node_done ws clients) (levels ws clients (total_batches ws) [node0 nids ws clients]).

(* for replay files: the number of search nodes alive after 0, 1, 2, ... batches (the search
   failed where this drops to 0), and at the last level the nodes themselves *)
Fixpoint level_sizes ws clients (n : nat) (fr : list node) : list nat :=
  length fr :: match n with
               | O => []
               | S n' => level_sizes ws clients n' (next_level ws clients fr)
               end.

Fixpoint last_alive ws clients (n : nat) (fr : list node) : list node :=
  match n with
  | O => fr
  | S n' => match next_level ws clients fr with
            | [] => fr
            | fr' => last_alive ws clients n' fr'
            end
  end.
