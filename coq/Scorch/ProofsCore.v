(* Scorch engine — core proofs (umbrella).  The development is split for parallel builds:
     ProofsCore1  list library, flattened view [root_live], introduceSegment / introducePersist
     ProofsCore2  introduceMerge: merge_root_live_perm (merge_reapplies_deletes)
     ProofsCore3  invariant [Inv], preservation, scorch_refines_replay
     ProofsCore4  doc_count_spec, batch_collapse, batch_partition_irrelevant,
                  layout_irrelevant, reader_view_is_prefix, trace_monotone, Examples *)
From Verif Require Export Scorch.ProofsCore1 Scorch.ProofsCore2 Scorch.ProofsCore3 Scorch.ProofsCore4.
