(* Scorch retention arithmetic — lemmas over Scorch/Retention.v (C13). *)
From Coq Require Import ZArith List Bool Lia ZifyBool Permutation Sorted.
From Verif Require Import Scorch.Retention.
Import ListNotations.
Local Open Scope Z_scope.

(* ------------------------------------------------------------------ membership by epoch *)
Lemma mem_epoch_In : forall e m, mem_epoch e m = true <-> In e (map s_epoch m).
Proof.
  intros e m. unfold mem_epoch. rewrite existsb_exists. split.
  - intros [s [Hin He]]. apply Z.eqb_eq in He. subst e. apply in_map. exact Hin.
  - intros Hin. apply in_map_iff in Hin. destruct Hin as [s [He Hin]].
    exists s. split; [exact Hin|]. apply Z.eqb_eq. exact He.
Qed.

Lemma mem_epoch_false : forall e m, mem_epoch e m = false <-> ~ In e (map s_epoch m).
Proof.
  intros e m. rewrite <- mem_epoch_In. destruct (mem_epoch e m); split; intros H; congruence.
Qed.

Lemma in_Z_In : forall e l, in_Z e l = true <-> In e l.
Proof.
  intros e l. unfold in_Z. rewrite existsb_exists. split.
  - intros [x [Hin He]]. apply Z.eqb_eq in He. subst x. exact Hin.
  - intros Hin. exists e. split; [exact Hin|apply Z.eqb_refl].
Qed.

Lemma mem_epoch_in_Z : forall e m, mem_epoch e m = in_Z e (map s_epoch m).
Proof.
  intros e m. destruct (in_Z e (map s_epoch m)) eqn:E.
  - apply mem_epoch_In. apply in_Z_In. exact E.
  - apply mem_epoch_false. intros H. apply in_Z_In in H. congruence.
Qed.

Lemma NoDup_snoc : forall (A : Type) (l : list A) (x : A), NoDup l -> ~ In x l -> NoDup (l ++ [x]).
Proof.
  intros A l x Hnd Hx. induction Hnd as [|y l Hy Hnd IH]; cbn.
  - constructor; [intros []|constructor].
  - constructor.
    + intros Hin. apply in_app_or in Hin. destruct Hin as [Hin|[Heq|[]]]; [exact (Hy Hin)|].
      apply Hx. left. symmetry. exact Heq.
    + apply IH. intros Hin. apply Hx. right. exact Hin.
Qed.

(* a well-formed protected map: distinct epochs, entries drawn from [src] *)
Definition pm_ok (src : list snap) (p : pmap) : Prop :=
  NoDup (map s_epoch p) /\ incl p src.

Lemma pm_ok_nil : forall src, pm_ok src [].
Proof. intros src. split; [constructor|intros x []]. Qed.

Lemma pm_ok_add : forall src p s,
  pm_ok src p -> In s src -> mem_epoch (s_epoch s) p = false -> pm_ok src (p ++ [s]).
Proof.
  intros src p s [Hnd Hin] Hs Hm. apply mem_epoch_false in Hm. split.
  - rewrite map_app. cbn [map]. apply NoDup_snoc; assumption.
  - intros x Hx. apply in_app_or in Hx. destruct Hx as [Hx|[<-|[]]]; [apply Hin; exact Hx|exact Hs].
Qed.

(* ------------------------------------------------------------------ getTimeSeriesSnapshots *)
Lemma nth_snap_In : forall l i, (i < length l)%nat -> In (nth_snap l i) l.
Proof. intros l i H. unfold nth_snap. apply nth_In. exact H. Qed.

Lemma ts_loop_ok : forall maxp interval snaps k rv ptr cnt,
  (k < length snaps)%nat -> pm_ok snaps rv ->
  pm_ok snaps (ts_loop maxp interval snaps k rv ptr cnt).
Proof.
  intros maxp interval snaps k. induction k as [|i IH]; intros rv ptr cnt Hk Hok; cbn [ts_loop].
  - exact Hok.
  - destruct (cnt <? maxp); [|exact Hok].
    destruct (interval <=? _); [|apply IH; [lia|exact Hok]].
    match goal with |- context [mem_epoch ?e rv] => destruct (mem_epoch e rv) eqn:Hm end.
    + apply IH; [lia|exact Hok].
    + apply IH; [lia|]. apply pm_ok_add; [exact Hok| |exact Hm].
      apply nth_snap_In. destruct (interval <? _); lia.
Qed.

(* the loop only appends *)
Lemma ts_loop_app : forall maxp interval snaps k rv ptr cnt,
  exists ext, ts_loop maxp interval snaps k rv ptr cnt = rv ++ ext.
Proof.
  intros maxp interval snaps k. induction k as [|i IH]; intros rv ptr cnt; cbn [ts_loop].
  - exists []. symmetry. apply app_nil_r.
  - destruct (cnt <? maxp); [|exists []; symmetry; apply app_nil_r].
    destruct (interval <=? _); [|apply IH].
    match goal with |- context [mem_epoch ?e rv] => destruct (mem_epoch e rv) end; [apply IH|].
    match goal with |- context [ts_loop _ _ _ i (rv ++ [?c]) ?idx ?n] =>
      destruct (IH (rv ++ [c]) idx n) as [ext Hext]; exists (c :: ext); rewrite Hext, <- app_assoc; reflexivity end.
Qed.

Lemma ts_loop_len : forall maxp interval snaps k rv ptr cnt,
  cnt = Z.of_nat (length rv) ->
  Z.of_nat (length (ts_loop maxp interval snaps k rv ptr cnt)) <= Z.max cnt maxp.
Proof.
  intros maxp interval snaps k. induction k as [|i IH]; intros rv ptr cnt Hc; cbn [ts_loop].
  - lia.
  - destruct (cnt <? maxp) eqn:Hlt; [|lia].
    destruct (interval <=? _); [|apply IH; exact Hc].
    match goal with |- context [mem_epoch ?e rv] => destruct (mem_epoch e rv) end; [apply IH; exact Hc|].
    match goal with |- context [ts_loop _ _ _ i (rv ++ [?c]) ?idx ?n] =>
      pose proof (IH (rv ++ [c]) idx n) as H end.
    rewrite app_length in H. cbn [length] in H. lia.
Qed.

Lemma time_series_ok : forall maxp interval snaps, pm_ok snaps (time_series maxp interval snaps).
Proof.
  intros maxp interval snaps. unfold time_series.
  destruct (_ || _ || _) eqn:Hc; [apply pm_ok_nil|].
  assert (Hlen : (length snaps <> 0)%nat).
  { intros H. rewrite H in Hc. cbn in Hc. rewrite orb_true_r in Hc. discriminate. }
  apply ts_loop_ok; [lia|].
  split.
  - cbn. constructor; [intros []|constructor].
  - intros x [<-|[]]. apply nth_snap_In. lia.
Qed.

Lemma time_series_len : forall maxp interval snaps,
  Z.of_nat (length (time_series maxp interval snaps)) <= Z.max 0 maxp.
Proof.
  intros maxp interval snaps. unfold time_series.
  destruct (_ || _ || _) eqn:Hc; [cbn; lia|].
  assert (0 < maxp) by lia.
  match goal with |- context [ts_loop ?a ?b ?c ?d ?e ?f ?g] => pose proof (ts_loop_len a b c d e f g) as H1 end.
  cbn [length] in H1. lia.
Qed.

Lemma time_series_interval0 : forall maxp snaps, time_series maxp 0 snaps = [].
Proof. reflexivity. Qed.

(* ------------------------------------------------------------------ fill *)
Lemma fill_app : forall N l p cnt, exists ext, fill N l p cnt = p ++ ext.
Proof.
  intros N l. induction l as [|s l IH]; intros p cnt; cbn [fill].
  - exists []. symmetry. apply app_nil_r.
  - destruct (cnt <? N); [|exists []; symmetry; apply app_nil_r].
    destruct (mem_epoch (s_epoch s) p); [apply IH|].
    destruct (IH (p ++ [s]) (cnt + 1)) as [ext Hext]. exists (s :: ext).
    rewrite Hext, <- app_assoc. reflexivity.
Qed.

Lemma fill_ok : forall src N l p cnt, incl l src -> pm_ok src p -> pm_ok src (fill N l p cnt).
Proof.
  intros src N l. induction l as [|s l IH]; intros p cnt Hl Hok; cbn [fill].
  - exact Hok.
  - destruct (cnt <? N); [|exact Hok].
    assert (Hl' : incl l src) by (intros x Hx; apply Hl; right; exact Hx).
    destruct (mem_epoch (s_epoch s) p) eqn:Hm; [apply IH; assumption|].
    apply IH; [exact Hl'|]. apply pm_ok_add; [exact Hok|apply Hl; left; reflexivity|exact Hm].
Qed.

Lemma fill_len : forall N l p cnt, cnt = Z.of_nat (length p) ->
  Z.of_nat (length (fill N l p cnt)) <= Z.max cnt N.
Proof.
  intros N l. induction l as [|s l IH]; intros p cnt Hc; cbn [fill].
  - lia.
  - destruct (cnt <? N) eqn:Hlt; [|lia].
    destruct (mem_epoch (s_epoch s) p); [apply IH; exact Hc|].
    pose proof (IH (p ++ [s]) (cnt + 1)) as H. rewrite app_length in H. cbn [length] in H. lia.
Qed.

(* either the count N is reached, or every epoch of l ends up in the map *)
Lemma fill_complete : forall N l p cnt, cnt = Z.of_nat (length p) ->
  N <= Z.of_nat (length (fill N l p cnt)) \/
  (forall s, In s l -> In (s_epoch s) (map s_epoch (fill N l p cnt))).
Proof.
  intros N l. induction l as [|s l IH]; intros p cnt Hc; cbn [fill].
  - right. intros s [].
  - destruct (cnt <? N) eqn:Hlt; [|left; lia].
    destruct (mem_epoch (s_epoch s) p) eqn:Hm.
    + destruct (IH p cnt Hc) as [H|H]; [left; exact H|right].
      intros x [<-|Hx]; [|apply H; exact Hx].
      destruct (fill_app N l p cnt) as [ext Hext]. rewrite Hext, map_app. apply in_or_app. left.
      apply mem_epoch_In. exact Hm.
    + assert (Hc' : cnt + 1 = Z.of_nat (length (p ++ [s]))) by (rewrite app_length; cbn [length]; lia).
      destruct (IH (p ++ [s]) (cnt + 1) Hc') as [H|H]; [left; exact H|right].
      intros x [<-|Hx]; [|apply H; exact Hx].
      destruct (fill_app N l (p ++ [s]) (cnt + 1)) as [ext Hext]. rewrite Hext, !map_app.
      apply in_or_app. left. apply in_or_app. right. left. reflexivity.
Qed.

(* ------------------------------------------------------------------ getProtectedSnapshots *)
Lemma mem_epoch_app : forall e p q, mem_epoch e (p ++ q) = mem_epoch e p || mem_epoch e q.
Proof. intros e p q. unfold mem_epoch. apply existsb_app. Qed.

Definition prot_p1 (N interval : Z) (latest : snap) (rest : list snap) : pmap :=
  let p0 := time_series (N - 1) interval (latest :: rest) in
  if mem_epoch (s_epoch latest) p0 then p0 else p0 ++ [latest].

Lemma get_protected_cons : forall N interval latest rest,
  get_protected N interval (latest :: rest) =
  Some (fill N rest (prot_p1 N interval latest rest)
             (Z.of_nat (length (prot_p1 N interval latest rest)))).
Proof. reflexivity. Qed.

Lemma prot_p1_ok : forall N interval latest rest,
  pm_ok (latest :: rest) (prot_p1 N interval latest rest).
Proof.
  intros N interval latest rest. unfold prot_p1.
  pose proof (time_series_ok (N - 1) interval (latest :: rest)) as Hok.
  destruct (mem_epoch _ _) eqn:Hm; [exact Hok|].
  apply pm_ok_add; [exact Hok|left; reflexivity|exact Hm].
Qed.

Lemma prot_p1_latest : forall N interval latest rest,
  In (s_epoch latest) (map s_epoch (prot_p1 N interval latest rest)).
Proof.
  intros N interval latest rest. unfold prot_p1.
  destruct (mem_epoch _ _) eqn:Hm; [apply mem_epoch_In; exact Hm|].
  rewrite map_app. apply in_or_app. right. left. reflexivity.
Qed.

Lemma prot_p1_len : forall N interval latest rest,
  1 <= Z.of_nat (length (prot_p1 N interval latest rest)) <= Z.max 1 N.
Proof.
  intros N interval latest rest.
  pose proof (prot_p1_latest N interval latest rest) as Hl.
  unfold prot_p1 in *.
  pose proof (time_series_len (N - 1) interval (latest :: rest)) as Hlen.
  destruct (mem_epoch _ _) eqn:Hm.
  - split; [|lia]. destruct (time_series _ _ _); [destruct Hl|cbn [length]; lia].
  - rewrite app_length. cbn [length]. lia.
Qed.

Lemma get_protected_nil : forall N interval, get_protected N interval [] = None.
Proof. reflexivity. Qed.

(* the newest live snapshot is always protected (for every N, even N <= 0) *)
Lemma latest_protected : forall N interval latest rest p,
  get_protected N interval (latest :: rest) = Some p ->
  In (s_epoch latest) (map s_epoch p).
Proof.
  intros N interval latest rest p H. rewrite get_protected_cons in H. injection H as <-.
  destruct (fill_app N rest (prot_p1 N interval latest rest)
                     (Z.of_nat (length (prot_p1 N interval latest rest)))) as [ext Hext].
  rewrite Hext, map_app. apply in_or_app. left. apply prot_p1_latest.
Qed.

Lemma protected_ok : forall N interval live p,
  get_protected N interval live = Some p -> pm_ok live p.
Proof.
  intros N interval [|latest rest] p H; [discriminate|].
  rewrite get_protected_cons in H. injection H as <-.
  apply fill_ok; [intros x Hx; right; exact Hx|apply prot_p1_ok].
Qed.

Lemma protected_subset_live : forall N interval live p,
  get_protected N interval live = Some p -> incl p live.
Proof. intros N interval live p H. apply (protected_ok _ _ _ _ H). Qed.

Lemma protected_epochs_distinct : forall N interval live p,
  get_protected N interval live = Some p -> NoDup (map s_epoch p).
Proof. intros N interval live p H. apply (protected_ok _ _ _ _ H). Qed.

Lemma NoDup_map_inj : forall (A B : Type) (f : A -> B) (l : list A) a b,
  NoDup (map f l) -> In a l -> In b l -> f a = f b -> a = b.
Proof.
  intros A B f l a b. induction l as [|x l IH]; intros Hnd Ha Hb Hf; [destruct Ha|].
  cbn in Hnd. inversion Hnd as [|y l' Hx Hnd']; subst.
  destruct Ha as [<-|Ha], Hb as [<-|Hb].
  - reflexivity.
  - exfalso. apply Hx. rewrite Hf. apply in_map. exact Hb.
  - exfalso. apply Hx. rewrite <- Hf. apply in_map. exact Ha.
  - apply IH; assumption.
Qed.

(* with distinct epochs (bolt keys), the latest snapshot itself — epoch and time stamp — is kept *)
Lemma latest_protected_entry : forall N interval latest rest p,
  NoDup (map s_epoch (latest :: rest)) ->
  get_protected N interval (latest :: rest) = Some p -> In latest p.
Proof.
  intros N interval latest rest p Hnd H.
  pose proof (latest_protected _ _ _ _ _ H) as Hl. apply in_map_iff in Hl. destruct Hl as [s [He Hs]].
  assert (s = latest); [|subst; exact Hs].
  apply (NoDup_map_inj _ _ s_epoch (latest :: rest)); [exact Hnd| |left; reflexivity|exact He].
  apply (protected_subset_live _ _ _ _ H). exact Hs.
Qed.

(* never more than N protected (one when N <= 0: the latest) *)
Lemma protected_card_le : forall N interval live p,
  get_protected N interval live = Some p -> Z.of_nat (length p) <= Z.max 1 N.
Proof.
  intros N interval [|latest rest] p H; [discriminate|].
  rewrite get_protected_cons in H. injection H as <-.
  pose proof (prot_p1_len N interval latest rest) as Hp1.
  pose proof (fill_len N rest (prot_p1 N interval latest rest) _ eq_refl) as Hf. lia.
Qed.

Lemma NoDup_of_map : forall (A B : Type) (f : A -> B) (l : list A), NoDup (map f l) -> NoDup l.
Proof.
  intros A B f l. induction l as [|x l IH]; intros H; [constructor|].
  cbn in H. inversion H as [|y l' Hx Hnd]; subst. constructor; [|apply IH; exact Hnd].
  intros Hin. apply Hx. apply in_map. exact Hin.
Qed.

(* exactly the configured number, as far as live snapshots are available *)
Lemma protected_card_eq : forall N interval live p,
  NoDup (map s_epoch live) ->
  get_protected N interval live = Some p -> length p = wanted N (length live).
Proof.
  intros N interval live p Hnd H.
  pose proof (protected_card_le _ _ _ _ H) as Hle.
  pose proof (protected_ok _ _ _ _ H) as [Hpn Hincl].
  assert (Hlive : (length p <= length live)%nat).
  { apply NoDup_incl_length; [eapply NoDup_of_map; exact Hpn|exact Hincl]. }
  destruct live as [|latest rest]; [discriminate|].
  pose proof (latest_protected _ _ _ _ _ H) as Hlat.
  rewrite get_protected_cons in H. injection H as Hp.
  pose proof (prot_p1_len N interval latest rest) as Hp1.
  assert (Hge1 : (1 <= length p)%nat).
  { destruct p; [destruct Hlat|cbn; lia]. }
  destruct (fill_complete N rest (prot_p1 N interval latest rest) _ eq_refl) as [Hc|Hc];
    rewrite Hp in Hc; unfold wanted.
  - lia.
  - assert (Hall : (length (map s_epoch (latest :: rest)) <= length (map s_epoch p))%nat).
    { apply NoDup_incl_length; [exact Hnd|].
      intros e He. cbn [map] in He. destruct He as [<-|He]; [exact Hlat|].
      apply in_map_iff in He. destruct He as [s [<- Hs]]. apply Hc. exact Hs. }
    rewrite !map_length in Hall. lia.
Qed.

(* on a list without repeated epochs, fill takes the next (N - cnt) entries *)
Lemma fill_firstn : forall N l p cnt,
  cnt = Z.of_nat (length p) ->
  (forall s, In s l -> mem_epoch (s_epoch s) p = false) ->
  NoDup (map s_epoch l) ->
  fill N l p cnt = p ++ firstn (Z.to_nat (N - cnt)) l.
Proof.
  intros N l. induction l as [|s l IH]; intros p cnt Hc Hm Hnd; cbn [fill].
  - rewrite firstn_nil. symmetry. apply app_nil_r.
  - destruct (cnt <? N) eqn:Hlt.
    + rewrite (Hm s (or_introl eq_refl)).
      cbn [map] in Hnd. inversion Hnd as [|e l' Hs Hnd']; subst.
      rewrite IH; [| rewrite app_length; cbn [length]; lia | | exact Hnd'].
      * replace (Z.to_nat (N - Z.of_nat (length p))) with (S (Z.to_nat (N - (Z.of_nat (length p) + 1)))) by lia.
        cbn [firstn]. rewrite <- app_assoc. reflexivity.
      * intros x Hx. rewrite mem_epoch_app, (Hm x (or_intror Hx)). cbn.
        rewrite orb_false_r. apply Z.eqb_neq. intros He. apply Hs. rewrite He. apply in_map. exact Hx.
    + replace (Z.to_nat (N - cnt)) with O by lia. cbn [firstn]. symmetry. apply app_nil_r.
Qed.

(* sampling interval 0: exactly the newest (max 1 N) live snapshots, in order *)
Lemma interval0_keeps_latest_n : forall N live,
  live <> [] -> NoDup (map s_epoch live) ->
  get_protected N 0 live = Some (newest_n (Z.max 1 N) live).
Proof.
  intros N [|latest rest] Hne Hnd; [congruence|].
  rewrite get_protected_cons. unfold prot_p1. rewrite time_series_interval0. cbn [mem_epoch existsb app length].
  cbn [map] in Hnd. inversion Hnd as [|e l' Hs Hnd']; subst.
  rewrite fill_firstn; [| reflexivity | | exact Hnd'].
  - unfold newest_n. replace (Z.to_nat (Z.max 1 N)) with (S (Z.to_nat (N - Z.of_nat 1))) by lia.
    reflexivity.
  - intros x Hx. cbn. rewrite orb_false_r. apply Z.eqb_neq. intros He. apply Hs. rewrite He.
    apply in_map. exact Hx.
Qed.

(* ------------------------------------------------------------------ removeOldBoltSnapshots *)
Lemma partition_eligible_acc : forall prot el a b,
  fold_left (fun acc e =>
               if mem_epoch e prot then (fst acc, snd acc ++ [e])
               else (fst acc ++ [e], snd acc)) el (a, b)
  = (a ++ spec_to_remove (map s_epoch prot) el, b ++ spec_new_eligible (map s_epoch prot) el).
Proof.
  intros prot el. induction el as [|e el IH]; intros a b; cbn [fold_left spec_to_remove spec_new_eligible filter].
  - rewrite !app_nil_r. reflexivity.
  - rewrite <- mem_epoch_in_Z. destruct (mem_epoch e prot); cbn [fst snd negb].
    + rewrite IH. unfold spec_new_eligible. rewrite <- app_assoc. reflexivity.
    + rewrite IH. unfold spec_to_remove. rewrite <- app_assoc. reflexivity.
Qed.

(* removeOldBoltSnapshots' choice: epochsToRemove = eligible \ protected, newEligible =
   eligible /\ protected, both in the order of the eligible list *)
Lemma purge_only_unprotected_eligible : forall prot eligible,
  partition_eligible prot eligible =
  (spec_to_remove (map s_epoch prot) eligible, spec_new_eligible (map s_epoch prot) eligible).
Proof. intros prot eligible. unfold partition_eligible. apply partition_eligible_acc. Qed.

Lemma spec_to_remove_In : forall pe el e,
  In e (spec_to_remove pe el) <-> In e el /\ ~ In e pe.
Proof.
  intros pe el e. unfold spec_to_remove. rewrite filter_In. split; intros [H1 H2]; split; try exact H1.
  - intros Hin. apply in_Z_In in Hin. rewrite Hin in H2. discriminate.
  - destruct (in_Z e pe) eqn:E; [|reflexivity]. exfalso. apply H2. apply in_Z_In. exact E.
Qed.

Lemma spec_new_eligible_In : forall pe el e,
  In e (spec_new_eligible pe el) <-> In e el /\ In e pe.
Proof.
  intros pe el e. unfold spec_new_eligible. rewrite filter_In, in_Z_In. reflexivity.
Qed.

(* ------------------------------------------------------------------ getLiveSnapshots *)
Lemma NoDup_map_filter : forall (A B : Type) (f : A -> B) g (l : list A),
  NoDup (map f l) -> NoDup (map f (filter g l)).
Proof.
  intros A B f g l. induction l as [|x l IH]; intros H; [constructor|].
  cbn in H. inversion H as [|y l' Hx Hnd]; subst. cbn [filter].
  destruct (g x); [|apply IH; exact Hnd]. cbn [map]. constructor; [|apply IH; exact Hnd].
  intros Hin. apply Hx. apply in_map_iff in Hin. destruct Hin as [z [Hz Hin]].
  apply filter_In in Hin. rewrite <- Hz. apply in_map. apply Hin.
Qed.

Lemma NoDup_map_firstn : forall (A B : Type) (f : A -> B) n (l : list A),
  NoDup (map f l) -> NoDup (map f (firstn n l)).
Proof.
  intros A B f n l. revert n. induction l as [|x l IH]; intros n H; [rewrite firstn_nil; constructor|].
  destruct n as [|n]; [constructor|]. cbn [firstn map] in *.
  inversion H as [|y l' Hx Hnd]; subst. constructor; [|apply IH; exact Hnd].
  intros Hin. apply Hx. apply in_map_iff in Hin. destruct Hin as [z [Hz Hin]]. rewrite <- Hz.
  apply in_map. rewrite <- (firstn_skipn n l). apply in_or_app. left. exact Hin.
Qed.

Lemma incl_firstn : forall (A : Type) n (l : list A), incl (firstn n l) l.
Proof.
  intros A n l x Hx. rewrite <- (firstn_skipn n l). apply in_or_app. left. exact Hx.
Qed.

(* the live list is a sub-list of the persisted ones that starts with the newest *)
Lemma get_live_shape : forall N interval fbits cps now m0 rest live,
  get_live N interval fbits cps now (m0 :: rest) = Some live ->
  (live = [] /\ interval <= 0 /\ N = 0) \/
  (exists l', live = m0 :: l' /\ incl l' rest /\
              (NoDup (map s_epoch rest) -> NoDup (map s_epoch l'))).
Proof.
  intros N interval fbits cps now m0 rest live H. unfold get_live in H.
  destruct (interval <=? 0) eqn:Hi.
  - destruct (Z.of_nat (length (m0 :: rest)) <=? N) eqn:Hn.
    + injection H as <-. right. exists rest. split; [reflexivity|]. split; [apply incl_refl|auto].
    + destruct (N <? 0) eqn:Hneg; [discriminate|]. injection H as <-.
      destruct (Z.to_nat N) as [|n] eqn:En.
      * left. cbn. repeat split; lia.
      * right. cbn [firstn]. exists (firstn n rest). split; [reflexivity|].
        split; [apply incl_firstn|apply NoDup_map_firstn].
  - right. destruct (N - 1 <=? 0).
    + injection H as <-. exists []. split; [reflexivity|]. split; [intros x []|intros _; constructor].
    + injection H as <-. eexists. split; [reflexivity|]. split.
      * intros x Hx. apply filter_In in Hx. apply Hx.
      * apply NoDup_map_filter.
Qed.

Lemma get_live_nil : forall N interval fbits cps now, get_live N interval fbits cps now [] = Some [].
Proof. reflexivity. Qed.

Lemma get_live_ok : forall N interval fbits cps now meta live,
  get_live N interval fbits cps now meta = Some live ->
  incl live meta /\ (NoDup (map s_epoch meta) -> NoDup (map s_epoch live)).
Proof.
  intros N interval fbits cps now [|m0 rest] live H.
  - cbn in H. injection H as <-. split; [apply incl_refl|auto].
  - destruct (get_live_shape _ _ _ _ _ _ _ _ H) as [[-> _]|[l' [-> [Hincl Hnd]]]].
    + split; [intros x []|intros _; constructor].
    + split.
      * intros x [<-|Hx]; [left; reflexivity|right; apply Hincl; exact Hx].
      * intros Hm. cbn [map] in *. inversion Hm as [|e l Hx Hm']; subst. constructor; [|apply Hnd; exact Hm'].
        intros Hin. apply Hx. apply in_map_iff in Hin. destruct Hin as [z [Hz Hin]]. rewrite <- Hz.
        apply in_map. apply Hincl. exact Hin.
Qed.

(* sampling interval <= 0 and N >= 1: live = the newest N persisted snapshots *)
Lemma get_live_interval0 : forall N interval fbits cps now meta,
  interval <= 0 -> 0 <= N ->
  get_live N interval fbits cps now meta = Some (newest_n N meta).
Proof.
  intros N interval fbits cps now [|m0 rest] Hi HN; unfold newest_n.
  - rewrite firstn_nil. reflexivity.
  - unfold get_live. replace (interval <=? 0) with true by lia.
    destruct (_ <=? N) eqn:Hn.
    + rewrite firstn_all2; [reflexivity|lia].
    + replace (N <? 0) with false by lia. reflexivity.
Qed.

(* ------------------------------------------------------------------ one purge *)
Lemma remove_old_inv : forall N interval fbits now st st' n,
  remove_old N interval fbits now st = Some (st', n) ->
  (get_live N interval fbits (r_cps st) now (r_bolt st) = Some [] /\ st' = st /\ n = 0) \/
  (exists live prot,
      live <> [] /\
      get_live N interval fbits (r_cps st) now (r_bolt st) = Some live /\
      get_protected N interval live = Some prot /\
      let rm := spec_to_remove (map s_epoch prot) (r_eligible st) in
      st' = mkR (filter (fun s => negb (in_Z (s_epoch s) rm)) (r_bolt st))
                (spec_new_eligible (map s_epoch prot) (r_eligible st))
                (new_checkpoints prot) /\
      n = Z.of_nat (length rm)).
Proof.
  intros N interval fbits now st st' n H. unfold remove_old in H.
  destruct (get_live _ _ _ _ _ _) as [[|l0 live]|] eqn:Hl; [|(right)|discriminate].
  - left. injection H as <- <-. auto.
  - destruct (get_protected N interval (l0 :: live)) as [prot|] eqn:Hp; [|discriminate].
    rewrite purge_only_unprotected_eligible in H. injection H as <- <-.
    exists (l0 :: live), prot. repeat split; [congruence|exact Hp].
Qed.

(* the most recent persisted state is never purged, whatever the eligible list says *)
Lemma purge_keeps_newest : forall N interval fbits now st st' n m0 rest,
  remove_old N interval fbits now st = Some (st', n) ->
  r_bolt st = m0 :: rest -> In m0 (r_bolt st').
Proof.
  intros N interval fbits now st st' n m0 rest H Hb.
  destruct (remove_old_inv _ _ _ _ _ _ _ H) as [[_ [-> _]]|[live [prot [Hne [Hl [Hp [Hst _]]]]]]].
  - rewrite Hb. left. reflexivity.
  - cbv zeta in Hst. subst st'. cbn [r_bolt]. rewrite Hb in *. apply filter_In. split; [left; reflexivity|].
    destruct (get_live_shape _ _ _ _ _ _ _ _ Hl) as [[-> _]|[l' [-> _]]]; [congruence|].
    pose proof (latest_protected _ _ _ _ _ Hp) as Hlat.
    destruct (in_Z (s_epoch m0) _) eqn:E; [|reflexivity]. exfalso.
    apply in_Z_In, spec_to_remove_In in E. apply E. exact Hlat.
Qed.

(* what leaves the bolt was eligible and not protected; protected snapshots stay *)
Lemma purge_removes_only_eligible : forall N interval fbits now st st' n s,
  remove_old N interval fbits now st = Some (st', n) ->
  In s (r_bolt st) -> ~ In s (r_bolt st') -> In (s_epoch s) (r_eligible st).
Proof.
  intros N interval fbits now st st' n s H Hin Hout.
  destruct (remove_old_inv _ _ _ _ _ _ _ H) as [[_ [-> _]]|[live [prot [Hne [Hl [Hp [Hst _]]]]]]].
  - contradiction.
  - cbv zeta in Hst. subst st'. cbn [r_bolt] in Hout.
    destruct (in_Z (s_epoch s) (spec_to_remove (map s_epoch prot) (r_eligible st))) eqn:E.
    + apply in_Z_In, spec_to_remove_In in E. apply E.
    + exfalso. apply Hout. apply filter_In. split; [exact Hin|]. rewrite E. reflexivity.
Qed.

(* honours numSnapshotsToKeep: after a purge at least min (max 1 N) |live| rollback points
   remain (the protected ones), provided bolt keys are distinct *)
Lemma purge_keeps_wanted : forall N interval fbits now st st' n,
  NoDup (map s_epoch (r_bolt st)) ->
  remove_old N interval fbits now st = Some (st', n) ->
  exists live, get_live N interval fbits (r_cps st) now (r_bolt st) = Some live /\
    (live = [] \/ (wanted N (length live) <= length (r_bolt st'))%nat).
Proof.
  intros N interval fbits now st st' n Hnd H.
  destruct (remove_old_inv _ _ _ _ _ _ _ H) as [[Hl _]|[live [prot [Hne [Hl [Hp [Hst _]]]]]]].
  - exists []. split; [exact Hl|left; reflexivity].
  - exists live. split; [exact Hl|right].
    destruct (get_live_ok _ _ _ _ _ _ _ Hl) as [Hincl Hlnd].
    rewrite <- (protected_card_eq _ _ _ _ (Hlnd Hnd) Hp).
    pose proof (protected_ok _ _ _ _ Hp) as [Hpn Hpin].
    apply NoDup_incl_length; [eapply NoDup_of_map; exact Hpn|].
    intros s Hs. cbv zeta in Hst. subst st'. cbn [r_bolt]. apply filter_In.
    split; [apply Hincl, Hpin, Hs|].
    destruct (in_Z (s_epoch s) _) eqn:E; [|reflexivity]. exfalso.
    apply in_Z_In, spec_to_remove_In in E. apply E. apply in_map. exact Hs.
Qed.
