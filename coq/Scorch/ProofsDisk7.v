(* Scorch engine — persistence proofs, part 7: worked examples (the hypotheses of every theorem
   are satisfiable on a non-trivial trace) and regression examples: three traces an earlier
   [dstep] accepted although they break I4 / recovery / copy protection; [dstep] now rejects
   them. *)
From Coq Require Import ZArith List Bool Arith Lia.
From Verif Require Import Scorch.Model Scorch.ProofsCore1 Scorch.ProofsCore3 Scorch.Disk
  Scorch.ProofsDisk1 Scorch.ProofsDisk4 Scorch.ProofsDisk5 Scorch.ProofsDisk6
  Scorch.ProofsDisk8 Scorch.ProofsDisk9.
Import ListNotations.
Local Open Scope Z_scope.

(* ---------- a worked history ---------- *)

Definition ex_b1 : batch := [(1, Some 10); (2, Some 11)].
Definition ex_b2 : batch := [(2, Some 12); (3, Some 13)].
Definition ex_b3 : batch := [(1, None)].

(* batch 1 written, persisted, committed and acknowledged; batch 2 introduced and its file
   written, nothing committed for it yet *)
Definition ex_pre : list devent :=
  [ DCore (EIntroduce 1 ex_b1 []); DFileWritten 1; DPrepare (mkBrec 1 [(1, [])] []);
    DCore (EPersist [1]); DCommit; DAck 1;
    DCore (EIntroduce 2 ex_b2 []); DFileWritten 2 ].

(* ... then batch 2 committed as well (second rollback point) and a third batch introduced *)
Definition ex_long : list devent :=
  ex_pre ++ [ DPrepare (mkBrec 3 [(1, [1%nat]); (2, [])] []); DCore (EPersist [2]); DCommit; DAck 2;
              DCore (EIntroduce 3 ex_b3 []) ].

Example ex_pre_accepted :
  eff ex_pre = [ex_b1; ex_b2]
  /\ option_map (fun d => (map br_epoch (d_bolt d), d_files d, d_acked d, covered d, d_up d))
                (drun dinit ex_pre)
     = Some ([1], [2; 1], [1%nat], 1%nat, true).
Proof. vm_compute. repeat split; reflexivity. Qed.

(* crash_recovers_prefix / recover_succeeds / acked_survive: batch 2 is lost as a whole, batch 1
   (acknowledged) survives; file 2, which no committed record names, is cleaned up *)
Example ex_crash_recover :
  exists d d1 d2,
    drun dinit ex_pre = Some d
    /\ d_bolt d <> [] /\ dstep d DCrash = Some d1 /\ dstep d1 DRecover = Some d2
    /\ covered d = 1%nat /\ firstn (covered d) (eff ex_pre) = [ex_b1]
    /\ map (root_lookup (root (d_core d2))) [1; 2; 3] = [Some 10; Some 11; None]
    /\ d_files d2 = [1] /\ d_acked d2 = [1%nat].
Proof.
  destruct (drun dinit ex_pre) as [d|] eqn:Hd; [|vm_compute in Hd; discriminate].
  destruct (dstep d DCrash) as [d1|] eqn:H1; [|vm_compute in Hd; injection Hd as Hd; subst d; discriminate].
  destruct (dstep d1 DRecover) as [d2|] eqn:H2.
  - exists d, d1, d2. vm_compute in Hd. injection Hd as Hd. subst d.
    vm_compute in H1. injection H1 as H1. subst d1. vm_compute in H2. injection H2 as H2. subst d2.
    vm_compute. repeat split; try reflexivity. discriminate.
  - vm_compute in Hd. injection Hd as Hd. subst d. vm_compute in H1. injection H1 as H1. subst d1.
    vm_compute in H2. discriminate.
Qed.

(* garbage_tolerant: the same crash, but at reopen file 2 is gone and garbage (98, 99) has
   appeared: the recovered root is the same *)
Example ex_garbage :
  exists d d1 d2 d2',
    drun dinit ex_pre = Some d /\ dstep d DCrash = Some d1 /\ dstep d1 DRecover = Some d2
    /\ (forall id, (exists b, In b (d_bolt d1) /\ In id (named_by b)) ->
                   (In id [99; 1; 98] <-> In id (d_files d1)))
    /\ dstep (with_files d1 [99; 1; 98]) DRecover = Some d2'
    /\ root (d_core d2') = root (d_core d2) /\ d_files d2' = [1].
Proof.
  eexists. eexists. eexists. eexists.
  split; [vm_compute; reflexivity|]. split; [vm_compute; reflexivity|].
  split; [vm_compute; reflexivity|]. split.
  - intros id [b [Hb Hid]]. cbn in Hb. destruct Hb as [Hb|[]]. subst b. cbn in Hid.
    destruct Hid as [Hid|[]]. subst id. cbn. split; intros _; tauto.
  - split; [vm_compute; reflexivity|]. split; vm_compute; reflexivity.
Qed.

Example ex_long_accepted :
  eff ex_long = [ex_b1; ex_b2; ex_b3]
  /\ option_map (fun d => (map br_epoch (d_bolt d), d_files d, d_acked d, covered d,
                           map (root_lookup (root (d_core d))) [1; 2; 3]))
                (drun dinit ex_long)
     = Some ([1; 3], [2; 1], [2%nat; 1%nat], 2%nat, [None; Some 12; Some 13]).
Proof. vm_compute. repeat split; reflexivity. Qed.

(* recover_then_continue: crash, recover (batch 3 lost), then index a fourth batch: the
   effective history is b1 b2 b4 and the root is its replay *)
Example ex_continue :
  let evs := ex_long ++ [DCrash; DRecover; DCore (EIntroduce 4 [(9, Some 90)] [])] in
  eff evs = [ex_b1; ex_b2; [(9, Some 90)]]
  /\ option_map (fun d => (d_up d, map (root_lookup (root (d_core d))) [1; 2; 3; 9])) (drun dinit evs)
     = Some (true, [Some 10; Some 12; Some 13; Some 90])
  /\ map (replay (eff evs)) [1; 2; 3; 9] = [Some 10; Some 12; Some 13; Some 90].
Proof. vm_compute. repeat split; reflexivity. Qed.

(* rollback_restores: roll back to the first rollback point (epoch 1 = one batch) *)
Example ex_rollback :
  let evs := ex_long ++ [DCrash] in
  exists d d1 d2,
    drun dinit evs = Some d
    /\ dstep d (DRollback 1) = Some d1 /\ dstep d1 DRecover = Some d2
    /\ assocZ 1 (d_nb d) = Some 1%nat
    /\ map (root_lookup (root (d_core d2))) [1; 2; 3] = [Some 10; Some 11; None]
    /\ map br_epoch (d_bolt d) = [1; 3] /\ map br_epoch (d_bolt d2) = [1].
Proof.
  cbv zeta. eexists. eexists. eexists.
  split; [vm_compute; reflexivity|].
  split; [vm_compute; reflexivity|]. split; [vm_compute; reflexivity|].
  vm_compute. repeat split; reflexivity.
Qed.

(* newest_never_purged / purge: after a third commit (the root is now segment 2 alone) the two
   older rollback points can be purged, the newest cannot; then file 1 is named by nobody and can
   be removed, file 2 cannot *)
Definition ex_purge_tr : list devent :=
  ex_long ++ [DPrepare (mkBrec 5 [(2, [])] []); DCommit; DPurgeBolt [1; 3]].

Example ex_purge :
  option_map (fun d => (map br_epoch (d_bolt d), d_files d)) (drun dinit (ex_purge_tr ++ [DRemoveZap 1]))
    = Some ([5], [2])
  /\ drun dinit (ex_purge_tr ++ [DPurgeBolt [5]]) = None
  /\ drun dinit (ex_purge_tr ++ [DRemoveZap 2]) = None
  /\ drun dinit (ex_long ++ [DRemoveZap 1]) = None.
Proof. vm_compute. repeat split; reflexivity. Qed.

(* copy_sources_survive: a copy is started while segment 1 is in the root; the next batch
   empties segment 1, so its file is needed by nobody but the copy: it cannot be removed until
   the copy ends *)
Definition ex_copy_pre : list devent := [ DCore (EIntroduce 1 ex_b1 []); DFileWritten 1 ].
Definition ex_copy_mid : list devent := [ DCore (EIntroduce 2 [(1, None); (2, None)] []) ].

Example ex_copy :
  exists d d0 d',
    drun dinit ex_copy_pre = Some d
    /\ dstep d DCopyStart = Some d0 /\ drun d0 ex_copy_mid = Some d'
    /\ forallb keeps_copy ex_copy_mid = true
    /\ map sid (root (d_core d)) = [1] /\ root (d_core d') = []
    /\ dstep d' (DRemoveZap 1) = None
    /\ option_map d_files (drun d' [DCopyEnd [1]; DRemoveZap 1]) = Some [].
Proof.
  eexists. eexists. eexists.
  split; [vm_compute; reflexivity|].
  split; [vm_compute; reflexivity|]. split; [vm_compute; reflexivity|].
  vm_compute. repeat split; reflexivity.
Qed.

(* acked_survive / acked_since_rollback_survive: a rollback to the first point discards batch 2
   together with its acknowledgement; the history goes on — recover, a new second batch,
   persisted, committed, acknowledged, crash, recover — and the new acknowledgement is covered *)
Definition ex_rb_pre : list devent := ex_long ++ [DCrash; DRollback 1].
Definition ex_rb_post : list devent :=
  [ DRecover; DCore (EIntroduce 5 [(7, Some 70)] []); DFileWritten 5;
    DPrepare (mkBrec 2 [(1, []); (5, [])] []); DCore (EPersist [5]); DCommit; DAck 2;
    DCrash; DRecover ].

Example ex_acks_since_rollback :
  exists d0 d,
    drun dinit ex_rb_pre = Some d0 /\ no_rollback ex_rb_post = true /\ drun d0 ex_rb_post = Some d
    /\ d_acked d0 = [1%nat] /\ covered d0 = 1%nat
    /\ d_acked d = [2%nat] ++ d_acked d0 /\ covered d = 2%nat
    /\ eff (ex_rb_pre ++ ex_rb_post) = [ex_b1; [(7, Some 70)]]
    /\ map (root_lookup (root (d_core d))) [1; 2; 3; 7] = [Some 10; Some 11; None; Some 70].
Proof.
  eexists. eexists. split; [vm_compute; reflexivity|]. split; [vm_compute; reflexivity|].
  split; [vm_compute; reflexivity|]. vm_compute. repeat split; reflexivity.
Qed.

(* no_name_reuse / prepare_current_root_enabled on the state after [ex_long] *)
Example ex_fresh_id_and_prepare :
  exists d d',
    drun dinit ex_long = Some d /\ d_up d = true /\ d_tx d = None
    /\ dstep d (DCore (EIntroduce 9 [(4, Some 40)] [])) = Some d'
    /\ batch_updates [(4, Some 40)] <> []
    /\ map fst (d_segdocs d) = [2; 1] /\ d_files d = [2; 1]
    /\ option_map d_tx (dstep d (DPrepare (mkBrec (epoch (d_core d))
                            (map (fun s => (sid s, sdel s)) (root (d_core d)))
                            (internal (d_core d)))))
       = Some (Some (mkBrec 5 [(2, [])] [])).
Proof.
  eexists. eexists. split; [vm_compute; reflexivity|]. split; [vm_compute; reflexivity|].
  split; [vm_compute; reflexivity|]. split; [vm_compute; reflexivity|].
  split; [vm_compute; discriminate|]. vm_compute. repeat split; reflexivity.
Qed.

(* clean_close: the persister has caught up with both batches; reopening changes nothing *)
Example ex_clean_close :
  let evs := firstn 12 ex_long in
  exists d d1 d2,
    drun dinit evs = Some d /\ d_up d = true /\ covered d = d_batches d /\ d_batches d = 2%nat
    /\ dstep d DCrash = Some d1 /\ dstep d1 DRecover = Some d2
    /\ map (root_lookup (root (d_core d2))) [1; 2; 3] = [Some 10; Some 12; Some 13]
    /\ map (root_lookup (root (d_core d))) [1; 2; 3] = [Some 10; Some 12; Some 13].
Proof.
  cbv zeta. eexists. eexists. eexists.
  split; [vm_compute; reflexivity|]. split; [vm_compute; reflexivity|].
  split; [vm_compute; reflexivity|]. split; [vm_compute; reflexivity|].
  split; [vm_compute; reflexivity|]. split; [vm_compute; reflexivity|].
  vm_compute. split; reflexivity.
Qed.

(* protected files and DMergeAbort: the output of a merge in flight cannot be removed; once the
   merge is abandoned its file is garbage and can be *)
Definition ex_abort : list devent :=
  [ DCore (EIntroduce 1 ex_b1 []); DFileWritten 1; DCore (EPersist [1]);
    DCore (EMergeStart true [(7, [1])]); DFileWritten 7 ].

Example ex_merge_abort :
  exists d,
    drun dinit ex_abort = Some d /\ protected d 7 /\ In 7 (d_files d)
    /\ dstep d (DRemoveZap 7) = None
    /\ option_map (fun d' => (d_files d', inflight (d_core d'), used_sids (d_core d')))
                   (drun d [DMergeAbort 7; DRemoveZap 7])
       = Some ([1], [], [7; 1]).
Proof.
  eexists. split; [vm_compute; reflexivity|].
  split; [right; right; right; left; vm_compute; left; reflexivity|].
  split; [vm_compute; left; reflexivity|]. split; vm_compute; reflexivity.
Qed.

(* ---------- regression examples: traces an earlier [dstep] accepted ---------- *)

(* (1) a record prepared for a stale epoch.  After a recovery at epoch 1 the ghost table
   [d_pub] still holds the root published at epoch 3 in the previous life (empty: batch 2 had
   deleted document 1).  A bucket for it, prepared while the current root epoch is 2, would
   become the newest record, "cover" two batches of the NEW history, and the next recovery would
   yield an empty index although b1 and b3 are in effect (I4 and crash_recovers_prefix broken).
   [DPrepare] now demands [br_epoch r <= epoch (d_core d)]. *)
Definition cex_stale : list devent :=
  [ DCore (EIntroduce 1 [(1, Some 10)] []); DFileWritten 1; DPrepare (mkBrec 1 [(1, [])] []);
    DCore (EPersist [1]); DCommit;
    DCore (EIntroduce 2 [(1, None)] []); DCrash; DRecover;
    DCore (EIntroduce 3 [(5, Some 50)] []); DPrepare (mkBrec 3 [] []); DCommit ].

Example cex_stale_rejected :
  drun dinit cex_stale = None
  /\ option_map (fun d => (epoch (d_core d), assocZ 3 (d_pub d))) (drun dinit (firstn 9 cex_stale))
     = Some (2, Some ([], [])).
Proof. vm_compute. split; reflexivity. Qed.

(* (2) a record naming the same segment twice (with complementary deleted sets, so that its
   contents equal the published root).  The recovered root would have two segments with id 1
   (core invariant [Inv] broken) and a merge of "segment 1" would lose document 1.
   [DPrepare] now demands [nodupZ (named_by r)]. *)
Definition cex_dup : list devent :=
  [ DCore (EIntroduce 1 [(1, Some 10); (2, Some 11)] []); DFileWritten 1;
    DPrepare (mkBrec 1 [(1, [0%nat]); (1, [1%nat])] []); DCore (EPersist [1]); DCommit;
    DCrash; DRecover;
    DCore (EMergeStart true [(7, [1])]); DFileWritten 7; DCore (EMergeFinish 0) ].

Example cex_dup_rejected :
  drun dinit cex_dup = None /\ drun dinit (firstn 3 cex_dup) = None
  /\ drun dinit (firstn 2 cex_dup) <> None.
Proof. vm_compute. repeat split; try reflexivity. discriminate. Qed.

(* (3) overlapping copies: two copies hold segment 1, one ends; the file of segment 1 (needed by
   nobody else: the segment was emptied and dropped from the root) must stay until the second
   copy ends.  [DCopyEnd] now releases one reference per id. *)
Definition cex_copy : list devent :=
  [ DCore (EIntroduce 1 [(1, Some 10)] []); DCopyStart; DCopyStart; DFileWritten 1;
    DCore (EIntroduce 2 [(1, None)] []); DCopyEnd [1]; DRemoveZap 1 ].

Example cex_copy_rejected :
  drun dinit cex_copy = None
  /\ option_map (fun d => (d_files d, d_copy d, root (d_core d))) (drun dinit (firstn 6 cex_copy))
     = Some ([1], [1], [])
  /\ option_map d_files (drun dinit (firstn 6 cex_copy ++ [DCopyEnd [1]; DRemoveZap 1])) = Some [].
Proof. vm_compute. repeat split; reflexivity. Qed.

(* (4) a file written under an id that was never allocated: the "complete" file would pre-exist
   segment 1 and satisfy the files check of DCommit although the segment was never written.
   [DFileWritten] now demands an allocated id. *)
Definition cex_unalloc : list devent :=
  [ DFileWritten 1; DCore (EIntroduce 1 [(1, Some 10)] []); DPrepare (mkBrec 1 [(1, [])] []);
    DCore (EPersist [1]); DCommit ].

Example cex_unalloc_rejected :
  drun dinit cex_unalloc = None /\ drun dinit (firstn 1 cex_unalloc) = None
  /\ drun dinit (skipn 1 cex_unalloc) = None          (* without the file: EPersist is refused *)
  /\ drun dinit (firstn 2 (skipn 1 cex_unalloc)) <> None.
Proof. vm_compute. repeat split; try reflexivity. discriminate. Qed.

(* copy_sources_survive_overlapping on that trace: copy B starts when one reference is held (by
   copy A); in the window one reference is released (A ends): segment 1 is still protected *)
Example ex_copy_overlap :
  exists d d0 d',
    drun dinit (firstn 2 cex_copy) = Some d /\ dstep d DCopyStart = Some d0
    /\ drun d0 (firstn 3 (skipn 3 cex_copy)) = Some d'
    /\ forallb no_death (firstn 3 (skipn 3 cex_copy)) = true
    /\ In (mkSeg 1 [(1, 10)] [] false) (root (d_core d))
    /\ released 1 (firstn 3 (skipn 3 cex_copy)) = 1%nat
    /\ count_occ Z.eq_dec (d_copy d) 1 = 1%nat
    /\ In 1 (d_files d') /\ dstep d' (DRemoveZap 1) = None.
Proof.
  eexists. eexists. eexists.
  split; [vm_compute; reflexivity|]. split; [vm_compute; reflexivity|].
  split; [vm_compute; reflexivity|]. split; [vm_compute; reflexivity|].
  split; [vm_compute; left; reflexivity|]. split; [vm_compute; reflexivity|].
  split; [vm_compute; reflexivity|]. split; [vm_compute; left; reflexivity|].
  vm_compute. reflexivity.
Qed.
