(* Scorch engine — proofs, part 2: introduceMerge re-applies the deletions that arrived
   while the merge was running ("merge_reapplies_deletes" of DESIGN.md):

     merge_root_live_perm :
       the live (doc id, version) pairs of the root after introduceMerge are a permutation
       of those before, provided segment ids are distinct, the captured ids of the merge are
       distinct, and every captured segment that is still in the root has the same documents
       there and a deleted set that only grew.

   Nothing is assumed about captured segments that are no longer in the root: they
   contribute nothing before (they are gone) and nothing after (all their captured-live
   documents are mapped into the merged segment's deleted set). *)
From Coq Require Import ZArith List Bool Arith Lia Permutation.
From Verif Require Import Scorch.Model Scorch.ProofsCore1.
Import ListNotations.
Local Open Scope Z_scope.

(* ---------- small facts ---------- *)

Lemma is_del_filter : forall (g : nat -> bool) a i,
  is_del (filter g a) i = is_del a i && g i.
Proof.
  intros g. induction a as [|x a IH]; intros i; cbn [filter].
  - reflexivity.
  - destruct (g x) eqn:E.
    + rewrite !is_del_cons, IH. destruct (Nat.eqb_spec i x) as [He|Hne].
      * subst i. rewrite E. reflexivity.
      * reflexivity.
    + rewrite is_del_cons, IH. destruct (Nat.eqb_spec i x) as [He|Hne].
      * subst i. rewrite E, andb_false_r. reflexivity.
      * reflexivity.
Qed.

Lemma is_del_diff : forall a b i, is_del (diff_nat a b) i = is_del a i && negb (is_del b i).
Proof. intros. unfold diff_nat. apply is_del_filter. Qed.

Lemma fold_dedupe_union : forall l a,
  fold_left (fun acc x => if is_del acc x then acc else acc ++ [x]) l a = union_nat a l.
Proof.
  induction l as [|x l IH]; intros a; cbn [fold_left union_nat].
  - reflexivity.
  - rewrite IH. destruct (is_del a x); reflexivity.
Qed.

Lemma union_nat_NoDup : forall b a, NoDup a -> NoDup (union_nat a b).
Proof.
  induction b as [|x b IH]; intros a Ha; cbn [union_nat].
  - exact Ha.
  - destruct (is_del a x) eqn:E.
    + apply IH. exact Ha.
    + apply IH. apply NoDup_app_intro.
      * exact Ha.
      * constructor; [intros [] | constructor].
      * intros y Hy [He|[]]. subst y. apply is_del_false in E. exact (E Hy).
Qed.

Lemma filter_all_false : forall {A} (f : A -> bool) (l : list A),
  (forall x, In x l -> f x = false) -> filter f l = [].
Proof.
  intros A f l. induction l as [|x l IH]; intros H; cbn [filter].
  - reflexivity.
  - rewrite (H x (or_introl eq_refl)). apply IH. intros y Hy. apply H. right. exact Hy.
Qed.

Lemma live_from_all_del : forall docs i dl,
  (forall j, (i <= j < i + length docs)%nat -> is_del dl j = true) -> live_from i docs dl = [].
Proof.
  induction docs as [|d ds IH]; intros i dl H; cbn [live_from].
  - reflexivity.
  - rewrite (H i) by (cbn [length]; lia). apply IH.
    intros j Hj. apply H. cbn [length]. lia.
Qed.

Lemma NoDup_map_inj_In : forall {A B} (f : A -> B) (l : list A) a b,
  NoDup (map f l) -> In a l -> In b l -> f a = f b -> a = b.
Proof.
  intros A B f l a b. induction l as [|x l IH]; cbn [map In]; intros Hnd Ha Hb Hf.
  - destruct Ha.
  - inversion Hnd as [|y ys Hn Hnd']; subst.
    destruct Ha as [Ha|Ha]; destruct Hb as [Hb|Hb].
    + congruence.
    + subst x. exfalso. apply Hn. rewrite Hf. apply in_map. exact Hb.
    + subst x. exfalso. apply Hn. rewrite <- Hf. apply in_map. exact Ha.
    + exact (IH Hnd' Ha Hb Hf).
Qed.

Lemma NoDup_flat_map_in : forall {A B} (f : A -> list B) (l : list A) x,
  NoDup (flat_map f l) -> In x l -> NoDup (f x).
Proof.
  intros A B f l x. induction l as [|y l IH]; cbn [flat_map In]; intros Hnd Hin.
  - destruct Hin.
  - destruct Hin as [He|Hin].
    + subst y. exact (NoDup_app_l _ _ Hnd).
    + exact (IH (NoDup_app_r _ _ Hnd) Hin).
Qed.

Lemma flat_map_flat_map : forall {A B C} (f : B -> list C) (g : A -> list B) (l : list A),
  flat_map f (flat_map g l) = flat_map (fun x => flat_map f (g x)) l.
Proof.
  intros A B C f g l. induction l as [|x l IH]; cbn [flat_map].
  - reflexivity.
  - rewrite flat_map_app, IH. reflexivity.
Qed.

Lemma flat_map_map : forall {A B C} (f : B -> list C) (g : A -> B) (l : list A),
  flat_map f (map g l) = flat_map (fun x => f (g x)) l.
Proof.
  intros A B C f g l. induction l as [|x l IH]; cbn [flat_map map].
  - reflexivity.
  - rewrite IH. reflexivity.
Qed.

Lemma flat_map_ext_in : forall {A B} (f g : A -> list B) (l : list A),
  (forall x, In x l -> f x = g x) -> flat_map f l = flat_map g l.
Proof.
  intros A B f g l. induction l as [|x l IH]; intros H; cbn [flat_map].
  - reflexivity.
  - rewrite (H x (or_introl eq_refl)), IH; [reflexivity|].
    intros y Hy. apply H. right. exact Hy.
Qed.

(* ---------- index_of_nat ---------- *)

Lemma index_of_nat_Some : forall l x i n,
  index_of_nat x l i = Some n -> (i <= n)%nat /\ nth_error l (n - i) = Some x.
Proof.
  induction l as [|y l IH]; intros x i n; cbn [index_of_nat].
  - discriminate.
  - destruct (Nat.eqb_spec x y) as [He|Hne].
    + intros H. injection H as H. subst. split; [lia|]. rewrite Nat.sub_diag. reflexivity.
    + intros H. apply IH in H. destruct H as [Hle Hn]. split; [lia|].
      replace (n - i)%nat with (S (n - S i))%nat by lia. exact Hn.
Qed.

Lemma index_of_nat_nth : forall l x i k,
  NoDup l -> nth_error l k = Some x -> index_of_nat x l i = Some (i + k)%nat.
Proof.
  induction l as [|y l IH]; intros x i k Hnd Hk.
  - destruct k; discriminate.
  - inversion Hnd as [|z zs Hn Hnd']; subst. cbn [index_of_nat].
    destruct k as [|k]; cbn [nth_error] in Hk.
    + injection Hk as Hk. subst y. rewrite Nat.eqb_refl, Nat.add_0_r. reflexivity.
    + destruct (Nat.eqb_spec x y) as [He|Hne].
      * subst y. exfalso. apply Hn. eapply nth_error_In. exact Hk.
      * rewrite (IH x (S i) k Hnd' Hk). f_equal. lia.
Qed.

(* ---------- positions in the merged segment ---------- *)

Fixpoint live_total (caps : list seg) : nat :=
  match caps with [] => 0%nat | c :: cs => (live_count c + live_total cs)%nat end.

(* origin (captured segment id, old doc number) of every document of the merged segment *)
Definition tagged (caps : list seg) : list (Z * nat) :=
  flat_map (fun c => map (fun p => (sid c, fst p)) (live_docs c)) caps.

Lemma tagged_length : forall caps, length (tagged caps) = live_total caps.
Proof.
  induction caps as [|c cs IH]; cbn [tagged flat_map live_total length].
  - reflexivity.
  - fold (tagged cs). rewrite app_length, map_length, IH. reflexivity.
Qed.

Lemma merged_docs_length : forall caps, length (merged_docs caps) = live_total caps.
Proof.
  induction caps as [|c cs IH]; cbn [merged_docs flat_map live_total length].
  - reflexivity.
  - fold (merged_docs cs). rewrite app_length, map_length, IH. reflexivity.
Qed.

Lemma live_total_app : forall a b, live_total (a ++ b) = (live_total a + live_total b)%nat.
Proof.
  induction a as [|c a IH]; intros b; cbn [live_total app].
  - reflexivity.
  - rewrite IH. lia.
Qed.

Lemma tagged_app : forall a b, tagged (a ++ b) = tagged a ++ tagged b.
Proof. intros. unfold tagged. apply flat_map_app. Qed.

Lemma new_docnum_tagged : forall caps id old off n,
  new_docnum caps id old off = Some n ->
  exists k, n = (off + k)%nat /\ nth_error (tagged caps) k = Some (id, old).
Proof.
  induction caps as [|c cs IH]; intros id old off n; cbn [new_docnum].
  - discriminate.
  - cbn [tagged flat_map]. fold (tagged cs). destruct (Z.eqb_spec (sid c) id) as [He|Hne].
    + destruct (index_of_nat old (map fst (live_docs c)) 0) as [k|] eqn:E; [|discriminate].
      intros H. injection H as H. subst n. exists k. split; [reflexivity|].
      apply index_of_nat_Some in E. destruct E as [_ E]. rewrite Nat.sub_0_r in E.
      assert (Hlt : (k < length (live_docs c))%nat).
      { rewrite <- (map_length fst). apply nth_error_Some. congruence. }
      rewrite nth_error_app1 by (rewrite map_length; exact Hlt).
      rewrite nth_error_map in E. rewrite nth_error_map.
      destruct (nth_error (live_docs c) k) as [[i dv]|]; cbn [option_map fst] in *; [|discriminate].
      injection E as E. subst. reflexivity.
    + intros H. apply IH in H. destruct H as [k [Hn Hk]].
      exists (live_count c + k)%nat. split; [lia|].
      rewrite nth_error_app2 by (rewrite map_length; unfold live_count; lia).
      rewrite map_length. unfold live_count.
      replace (length (live_docs c) + k - length (live_docs c))%nat with k by lia. exact Hk.
Qed.

Lemma new_docnum_at : forall pre c post i k off,
  ~ In (sid c) (map sid pre) ->
  nth_error (map fst (live_docs c)) k = Some i ->
  new_docnum (pre ++ c :: post) (sid c) i off = Some (off + live_total pre + k)%nat.
Proof.
  induction pre as [|p pre IH]; intros c post i k off Hn Hk; cbn [app new_docnum live_total].
  - rewrite Z.eqb_refl.
    rewrite (index_of_nat_nth (map fst (live_docs c)) i 0 k).
    + f_equal. lia.
    + apply live_from_fst_NoDup.
    + exact Hk.
  - destruct (Z.eqb_spec (sid p) (sid c)) as [He|Hne].
    + exfalso. apply Hn. left. exact He.
    + rewrite (IH c post i k (off + live_count p)%nat).
      * f_equal. lia.
      * intros Hin. apply Hn. right. exact Hin.
      * exact Hk.
Qed.

Lemma tagged_at : forall pre c post i k,
  nth_error (map fst (live_docs c)) k = Some i ->
  nth_error (tagged (pre ++ c :: post)) (live_total pre + k) = Some (sid c, i).
Proof.
  intros pre c post i k Hk. rewrite tagged_app.
  rewrite nth_error_app2 by (rewrite tagged_length; lia).
  rewrite tagged_length. replace (live_total pre + k - live_total pre)%nat with k by lia.
  cbn [tagged flat_map].
  assert (Hlt : (k < length (live_docs c))%nat).
  { rewrite <- (map_length fst). apply nth_error_Some. congruence. }
  rewrite nth_error_app1 by (rewrite map_length; exact Hlt).
  rewrite nth_error_map in Hk. rewrite nth_error_map.
  destruct (nth_error (live_docs c) k) as [[j dv]|]; cbn [option_map fst] in *; [|discriminate].
  injection Hk as Hk. subst. reflexivity.
Qed.

(* ---------- the deletions a merged segment receives ---------- *)

(* old doc numbers of captured segment [c] that are mapped into the new deleted set *)
Definition olds (r : list seg) (c : seg) : list nat :=
  match find_seg (sid c) r with
  | Some cur => diff_nat (sdel cur) (sdel c)
  | None => map fst (live_docs c)
  end.

Definition caps_new_deleted (r : list seg) (caps : list seg) : list nat :=
  flat_map (fun c => map_docnums caps (sid c) (olds r c)) caps.

Lemma task_new_deleted_olds : forall r t,
  task_new_deleted r t = caps_new_deleted r (t_caps t).
Proof.
  intros r t. unfold task_new_deleted, caps_new_deleted. apply flat_map_ext.
  intros c. unfold olds. destruct (find_seg (sid c) r); reflexivity.
Qed.

Lemma in_map_docnums : forall caps id os n,
  In n (map_docnums caps id os) <-> exists o, In o os /\ new_docnum caps id o 0 = Some n.
Proof.
  intros caps id os n. unfold map_docnums. rewrite in_flat_map. split.
  - intros [o [Ho Hin]]. exists o. split; [exact Ho|].
    destruct (new_docnum caps id o 0) as [n'|]; [|destruct Hin].
    destruct Hin as [He|[]]. subst. reflexivity.
  - intros [o [Ho He]]. exists o. split; [exact Ho|]. rewrite He. left. reflexivity.
Qed.

Lemma caps_new_deleted_lt : forall r caps n,
  In n (caps_new_deleted r caps) -> (n < live_total caps)%nat.
Proof.
  intros r caps n H. unfold caps_new_deleted in H. apply in_flat_map in H.
  destruct H as [c [_ H]]. apply in_map_docnums in H. destruct H as [o [_ H]].
  apply new_docnum_tagged in H. destruct H as [k [Hn Hk]]. subst n.
  rewrite <- tagged_length. apply nth_error_Some. cbn [Nat.add]. congruence.
Qed.

(* the position of the k-th live document of [c] is deleted iff its old number is in olds *)
Lemma caps_new_deleted_at : forall r pre c post i k,
  NoDup (map sid (pre ++ c :: post)) ->
  nth_error (map fst (live_docs c)) k = Some i ->
  is_del (caps_new_deleted r (pre ++ c :: post)) (live_total pre + k) = is_del (olds r c) i.
Proof.
  intros r pre c post i k Hnd Hk.
  set (caps := pre ++ c :: post) in *.
  assert (Hc : In c caps) by (apply in_or_app; right; left; reflexivity).
  assert (Hpre : ~ In (sid c) (map sid pre)).
  { unfold caps in Hnd. rewrite map_app in Hnd. cbn [map] in Hnd. intros Hin.
    apply (NoDup_app_disj _ _ (sid c) Hnd Hin). left. reflexivity. }
  destruct (is_del (olds r c) i) eqn:E.
  - apply is_del_In. apply is_del_In in E. unfold caps_new_deleted.
    apply in_flat_map. exists c. split; [exact Hc|]. apply in_map_docnums.
    exists i. split; [exact E|].
    unfold caps. rewrite (new_docnum_at pre c post i k 0 Hpre Hk). reflexivity.
  - apply is_del_false. apply is_del_false in E. intros Hin. apply E. clear E.
    unfold caps_new_deleted in Hin. apply in_flat_map in Hin.
    destruct Hin as [c' [Hc' Hin]]. apply in_map_docnums in Hin.
    destruct Hin as [o [Ho Hnew]]. apply new_docnum_tagged in Hnew.
    destruct Hnew as [k' [Hk' Hnth]]. cbn [Nat.add] in Hk'. subst k'.
    unfold caps in Hnth. rewrite (tagged_at pre c post i k Hk) in Hnth.
    injection Hnth as Hs Ho'. subst o.
    assert (c = c').
    { apply (NoDup_map_inj_In sid caps c c' Hnd Hc Hc' Hs). }
    subst c'. exact Ho.
Qed.

(* ---------- what a captured segment contributes to the new root ---------- *)

Definition cap_ok (r : list seg) (c : seg) : Prop :=
  forall cur, find_seg (sid c) r = Some cur ->
    sdocs cur = sdocs c /\ (forall i, is_del (sdel c) i = true -> is_del (sdel cur) i = true).

Definition cap_now (r : list seg) (c : seg) : list (Z * Z) :=
  match find_seg (sid c) r with Some cur => seg_live cur | None => [] end.

Lemma cap_block : forall r c off D,
  cap_ok r c ->
  (forall k i, nth_error (map fst (live_docs c)) k = Some i ->
               is_del D (off + k) = is_del (olds r c) i) ->
  map snd (live_from off (seg_live c) D) = cap_now r c.
Proof.
  intros r c off D Hok HD. unfold seg_live.
  rewrite (live_from_positions (live_docs c) off D (fun i => is_del (olds r c) i)).
  - unfold cap_now, olds. destruct (find_seg (sid c) r) as [cur|] eqn:Ef.
    + destruct (Hok cur Ef) as [Hdocs Hsub].
      unfold seg_live, live_docs. rewrite Hdocs.
      rewrite (live_from_grow (sdocs c) 0 (sdel c) (sdel cur) Hsub).
      f_equal. apply filter_ext_in. intros [j dv] Hin. cbn [fst].
      apply live_from_In in Hin. destruct Hin as [_ [_ Hd]].
      rewrite is_del_diff, Hd, andb_true_r. reflexivity.
    + rewrite filter_all_false; [reflexivity|].
      intros [j dv] Hin. cbn [fst]. apply negb_false_iff. apply is_del_In.
      apply (in_map fst) in Hin. exact Hin.
  - intros k i dv Hk. apply HD. rewrite nth_error_map, Hk. reflexivity.
Qed.

Lemma merged_live_gen : forall r rest pre caps,
  caps = pre ++ rest ->
  NoDup (map sid caps) ->
  (forall c, In c caps -> cap_ok r c) ->
  map snd (live_from (live_total pre) (merged_docs rest) (caps_new_deleted r caps)) =
  flat_map (cap_now r) rest.
Proof.
  intros r. induction rest as [|c rest IH]; intros pre caps Hcaps Hnd Hok.
  - reflexivity.
  - cbn [merged_docs flat_map]. fold (merged_docs rest). fold (seg_live c).
    rewrite live_from_app, map_app. f_equal.
    + apply cap_block.
      * apply Hok. rewrite Hcaps. apply in_or_app. right. left. reflexivity.
      * intros k i Hk. rewrite Hcaps. apply caps_new_deleted_at; [|exact Hk].
        rewrite <- Hcaps. exact Hnd.
    + replace (live_total pre + length (seg_live c))%nat with (live_total (pre ++ [c])).
      * apply IH; [|exact Hnd|exact Hok]. rewrite <- app_assoc. exact Hcaps.
      * rewrite live_total_app. cbn [live_total]. unfold seg_live, live_count.
        rewrite map_length. lia.
Qed.

(* live documents of the merged segment of one task, whether it is kept or skipped *)
Definition task_news (file : bool) (r : list seg) (t : task) : list seg :=
  match t_caps t with
  | [] => []
  | _ =>
    let nd := merged_docs (t_caps t) in
    let del := fold_left (fun acc x => if is_del acc x then acc else acc ++ [x])
                         (task_new_deleted r t) [] in
    if (length del <? length nd)%nat then [mkSeg (t_new t) nd del file] else []
  end.

Lemma introduce_merge_root_news : forall m r,
  introduce_merge_root m r =
  filter (fun s => negb (mem_id (sid s) (captured_ids m)) && has_live s) r ++
  flat_map (task_news true r) (m_tasks m).
Proof. reflexivity. Qed.

Lemma task_news_live : forall f r t,
  NoDup (map sid (t_caps t)) ->
  (forall c, In c (t_caps t) -> cap_ok r c) ->
  root_live (task_news f r t) = flat_map (cap_now r) (t_caps t).
Proof.
  intros f r t Hnd Hok. unfold task_news.
  destruct (t_caps t) as [|c0 cs] eqn:Ecaps; [reflexivity|].
  rewrite <- Ecaps in *. clear Ecaps c0 cs.
  rewrite fold_dedupe_union, task_new_deleted_olds.
  set (caps := t_caps t) in *.
  set (D := caps_new_deleted r caps).
  assert (Hlive : map snd (live_from 0 (merged_docs caps) (union_nat [] D)) =
                  flat_map (cap_now r) caps).
  { rewrite (live_from_ext (merged_docs caps) 0 (union_nat [] D) D).
    - exact (merged_live_gen r caps [] caps eq_refl Hnd Hok).
    - intros j. rewrite is_del_union. reflexivity. }
  destruct (length (union_nat [] D) <? length (merged_docs caps))%nat eqn:Elt.
  - cbn [root_live flat_map]. rewrite app_nil_r. unfold seg_live, live_docs.
    cbn [sdocs sdel]. exact Hlive.
  - cbn [root_live flat_map]. rewrite <- Hlive.
    apply Nat.ltb_ge in Elt.
    rewrite live_from_all_del; [reflexivity|].
    intros j Hj. apply is_del_In.
    assert (Hincl : incl (seq 0 (length (merged_docs caps))) (union_nat [] D)).
    { apply NoDup_length_incl.
      - apply union_nat_NoDup. constructor.
      - rewrite seq_length. exact Elt.
      - intros n Hn. apply is_del_In in Hn. rewrite is_del_union in Hn.
        cbn [is_del existsb orb] in Hn. apply is_del_In in Hn.
        apply caps_new_deleted_lt in Hn. apply in_seq.
        rewrite merged_docs_length. lia. }
    apply Hincl. apply in_seq. lia.
Qed.

(* ---------- find_seg ---------- *)

Lemma find_seg_Some : forall id l s, find_seg id l = Some s -> In s l /\ sid s = id.
Proof.
  intros id. induction l as [|x l IH]; intros s; cbn [find_seg].
  - discriminate.
  - destruct (Z.eqb_spec (sid x) id) as [He|Hne].
    + intros H. injection H as H. subst. split; [left; reflexivity | reflexivity].
    + intros H. apply IH in H. destruct H as [Hin Hs]. split; [right; exact Hin | exact Hs].
Qed.

Lemma find_seg_None : forall id l, find_seg id l = None <-> ~ In id (map sid l).
Proof.
  intros id. induction l as [|x l IH]; cbn [find_seg map In].
  - split; [intros _ H; exact H | reflexivity].
  - destruct (Z.eqb_spec (sid x) id) as [He|Hne].
    + split; [discriminate | intros H; exfalso; apply H; left; exact He].
    + rewrite IH. split.
      * intros H [H'|H']; [exact (Hne H') | exact (H H')].
      * intros H H'. apply H. right. exact H'.
Qed.

Lemma find_seg_In_nodup : forall l s, NoDup (map sid l) -> In s l -> find_seg (sid s) l = Some s.
Proof.
  induction l as [|x l IH]; intros s Hnd Hin; cbn [find_seg].
  - destruct Hin.
  - inversion Hnd as [|y ys Hn Hnd']; subst. destruct Hin as [He|Hin].
    + subst x. rewrite Z.eqb_refl. reflexivity.
    + destruct (Z.eqb_spec (sid x) (sid s)) as [He|Hne].
      * exfalso. apply Hn. rewrite He. apply in_map. exact Hin.
      * exact (IH s Hnd' Hin).
Qed.

(* ---------- the permutation ---------- *)

Definition id_now (r : list seg) (id : Z) : list (Z * Z) :=
  match find_seg id r with Some cur => seg_live cur | None => [] end.

Lemma flat_map_id_now_cons_notin : forall s r ids,
  ~ In (sid s) ids -> flat_map (id_now (s :: r)) ids = flat_map (id_now r) ids.
Proof.
  intros s r ids Hn. apply flat_map_ext_in. intros id Hin. unfold id_now. cbn [find_seg].
  destruct (Z.eqb_spec (sid s) id) as [He|Hne]; [|reflexivity].
  exfalso. apply Hn. rewrite He. exact Hin.
Qed.

Lemma flat_map_id_now_cons_in : forall s r ids,
  NoDup ids -> In (sid s) ids -> ~ In (sid s) (map sid r) ->
  Permutation (flat_map (id_now (s :: r)) ids) (seg_live s ++ flat_map (id_now r) ids).
Proof.
  intros s r. induction ids as [|id ids IH]; intros Hnd Hin Hr.
  - destruct Hin.
  - inversion Hnd as [|y ys Hn Hnd']; subst. cbn [flat_map].
    destruct (Z.eq_dec id (sid s)) as [He|Hne].
    + subst id. rewrite (flat_map_id_now_cons_notin s r ids Hn).
      assert (H1 : id_now (s :: r) (sid s) = seg_live s).
      { unfold id_now. cbn [find_seg]. rewrite Z.eqb_refl. reflexivity. }
      assert (H2 : id_now r (sid s) = []).
      { unfold id_now. apply find_seg_None in Hr. rewrite Hr. reflexivity. }
      rewrite H1, H2. cbn [app]. apply Permutation_refl.
    + destruct Hin as [He|Hin]; [congruence|].
      assert (H1 : id_now (s :: r) id = id_now r id).
      { unfold id_now. cbn [find_seg]. destruct (Z.eqb_spec (sid s) id); [congruence | reflexivity]. }
      rewrite H1.
      eapply Permutation_trans.
      * apply Permutation_app_head. exact (IH Hnd' Hin Hr).
      * rewrite !app_assoc. apply Permutation_app_tail. apply Permutation_app_comm.
Qed.

Lemma root_live_split_ids : forall r ids,
  NoDup ids -> NoDup (map sid r) ->
  Permutation (root_live r)
    (root_live (filter (fun s => negb (mem_id (sid s) ids)) r) ++ flat_map (id_now r) ids).
Proof.
  induction r as [|s r IH]; intros ids Hids Hnd.
  - cbn [filter root_live flat_map app].
    assert (H : flat_map (id_now []) ids = []).
    { clear. induction ids as [|id ids IH]; [reflexivity | exact IH]. }
    rewrite H. constructor.
  - inversion Hnd as [|y ys Hn Hnd']; subst. cbn [filter].
    destruct (mem_id (sid s) ids) eqn:E; cbn [negb].
    + apply mem_id_In in E. cbn [root_live flat_map]. fold (root_live r).
      eapply Permutation_trans; [apply Permutation_app_head; exact (IH ids Hids Hnd')|].
      eapply Permutation_trans; [|apply Permutation_app_head; apply Permutation_sym;
                                  exact (flat_map_id_now_cons_in s r ids Hids E Hn)].
      rewrite !app_assoc. apply Permutation_app_tail. apply Permutation_app_comm.
    + apply mem_id_false in E. cbn [root_live flat_map].
      fold (root_live r). fold (root_live (filter (fun s0 => negb (mem_id (sid s0) ids)) r)).
      rewrite (flat_map_id_now_cons_notin s r ids E), <- app_assoc.
      apply Permutation_app_head. exact (IH ids Hids Hnd').
Qed.

(* ---------- merge_reapplies_deletes ---------- *)

Theorem merge_root_live_perm : forall m r,
  NoDup (map sid r) ->
  NoDup (captured_ids m) ->
  (forall t c, In t (m_tasks m) -> In c (t_caps t) -> cap_ok r c) ->
  Permutation (root_live (introduce_merge_root m r)) (root_live r).
Proof.
  intros m r Hr Hcap Hok.
  rewrite introduce_merge_root_news, root_live_app.
  rewrite (root_live_filter_and_has_live (fun s => negb (mem_id (sid s) (captured_ids m))) r).
  apply Permutation_sym.
  eapply Permutation_trans; [exact (root_live_split_ids r (captured_ids m) Hcap Hr)|].
  apply Permutation_app_head.
  assert (H : root_live (flat_map (task_news true r) (m_tasks m)) =
              flat_map (id_now r) (captured_ids m)).
  { unfold root_live, captured_ids. rewrite !flat_map_flat_map.
    apply flat_map_ext_in. intros t Ht. fold (root_live (task_news true r t)).
    rewrite task_news_live.
    - rewrite flat_map_map. reflexivity.
    - exact (NoDup_flat_map_in (fun t => map sid (t_caps t)) (m_tasks m) t Hcap Ht).
    - intros c Hc. exact (Hok t c Ht Hc). }
  rewrite H. apply Permutation_refl.
Qed.
