(* Scorch engine — correspondence for the persistence model: the event trace of a disk-backed
   scorch (including crashes injected at hook points, reopen, rollback and online copies) must be
   accepted by [dstep], and what the implementation shows after every reopen must be what the
   model recovers: a whole-batch prefix containing every acknowledged batch. *)
From Coq Require Import ZArith List Bool Arith.
From Verif Require Import Common.Bytes Scorch.Model Scorch.Corr Scorch.Disk.
Import ListNotations.
Local Open Scope Z_scope.

Inductive dtev :=
| XCore (t : tev)
| XFile (sid : Z)
| XPrepare (epoch : Z) (segs : list pseg) (ints : list (Z * Z))
| XCommitIntent                                (* the persister is about to commit its transaction *)
| XCommit
| XPurgeIntent (epochs : list Z)               (* the purger is about to commit the deletion of these buckets *)
| XAck (tag : Z)                               (* the batch tagged [tag] (internal key 999) was acknowledged as persisted *)
| XPurge (epochs : list Z)
| XRemoveZap (sid : Z)
| XMergeAbort (newid : Z)
| XCopyStart
| XCopyEnd (sids : list Z)
| XCrash
| XRecover
| XRollback (e : Z)
| XObserve (docs : list (Z * option Z))        (* Document(id) for the whole universe, as the implementation shows it now *)
| XBoltEpochs (epochs : list Z)                (* RootBoltSnapshotEpochs, ascending *)
| XCopyDest (epoch : Z) (docs : list (Z * option Z))
    (* the destination of an online copy taken from the root of [epoch], opened as an index *)
| XDirBegin                                    (* a directory listing starts ... *)
| XDirEnd (ids : list Z)                       (* ... and returned these segment files *)
| XQuiescent (ids : list Z)                    (* directory listing once all background work has settled *)
| XSubmit (tag : Z) (ops iops : list (Z * option Z))
    (* the harness is about to submit the batch tagged [tag]: its Index/Delete calls and its
       SetInternal/DeleteInternal calls (tag key included) in call order, as GENERATED - the
       introducer event carrying that tag must describe exactly this batch *)
| XObserveInt (ints : list (Z * option Z))     (* GetInternal for every key of the universe, as the implementation shows it now *)
| XRollbackPoints (pts : list (Z * list (Z * option Z)))
    (* scorch.RollbackPoints on the closed index, in the order returned: per point its epoch and
       RollbackPoint.GetInternal for every key of the universe *)
| XPointState (epoch : Z) (docs : list (Z * option Z)) (ints : list (Z * option Z))
    (* a copy of the closed index was rolled back to the point of [epoch] and opened: Document(id)
       for the whole universe and GetInternal for every key *)
| XPointWrite (epoch : Z) (newsid : Z) (ops : list (Z * option Z)) (docs : list (Z * option Z)).
    (* ... then one batch (Index/Delete calls [ops]) was written to that copy; the introducer
       reported the new segment id [newsid] (0: no new segment); Document(id) afterwards *)

Definition tev_event (s : st) (t : tev) : option event :=
  match t with
  | TIntroduce n b io _ _ => Some (EIntroduce n b io)
  | TMergeStart file groups => Some (EMergeStart file (map (fun g => (fst g, map fst (snd g))) groups))
  | TMergeFinish news _ _ => option_map EMergeFinish (find_merge news (inflight s) 0)
  | TPersist ids _ _ => Some (EPersist ids)
  end.

Definition st_eqb_root (a b : st) : bool := proj_eqb (root a) (project (root b)).

(* batches in effect: a recovery truncates the history to the batches the recovered record covers *)
(* [x_ci] / [x_pi]: an intent was logged and its completion not yet.  Hook events are emitted
   right after the step they report; when the process is killed at a hook point on one goroutine,
   another goroutine may have completed such a step without having logged it, so a crash explores
   both possibilities. *)
Record xs := mkXs { x_d : dstate; x_eff : list batch; x_tags : list (Z * nat);
                    x_ci : bool; x_pi : option (list Z);
                    x_req : list Z;  (* files that had to exist when the current directory listing began *)
                    x_ieff : list (list (Z * option Z));   (* internal ops of the batches in effect (parallel to x_eff) *)
                    x_sub : list (Z * (list (Z * option Z) * list (Z * option Z)))   (* submitted batches by tag *) }.

(* the batch an introducer event reports against the calls the harness generated for it: the same
   ids / keys, each with the outcome of the LAST call for it (bleve.Batch keeps one op per id) *)
Definition ops_agree (calls : list (Z * option Z)) (b : list (Z * option Z)) : bool :=
  forallb (fun p => mem_id (fst p) (map fst b)) calls
  && forallb (fun p => mem_id (fst p) (map fst calls)
                       && optZ_eqb (spec_apply_ops calls (fun _ => None) (fst p)) (snd p)) b.

(* internal values after the first k batches in effect, by the spec (one call at a time) *)
Definition ints_after (ieff : list (list (Z * option Z))) (k : nat) (key : Z) : option Z :=
  spec_internal (concat (firstn k ieff)) key.

Definition find_rec (ep : Z) (bolt : list brec) : option brec := find (fun b => br_epoch b =? ep) bolt.

(* what a rollback point of epoch [ep] must be: [docs]/[ints] are the model's committed record of
   that epoch AND the replay of the batches that record covers (either list may be empty) *)
Definition point_ok (d : dstate) (eff : list batch) (ieff : list (list (Z * option Z)))
                    (ep : Z) (docs ints : list (Z * option Z)) : bool :=
  match find_rec ep (d_bolt d), assocZ ep (d_nb d) with
  | Some b, Some k =>
      match rec_root (d_segdocs d) (br_segs b) with
      | Some rr =>
          list_eqb pairZoZ_eqb (map (fun p => (fst p, root_lookup rr (fst p))) docs) docs
          && list_eqb pairZoZ_eqb (map (fun p => (fst p, replay (firstn k eff) (fst p))) docs) docs
          && list_eqb pairZoZ_eqb (map (fun p => (fst p, assoc_first (fst p) (br_int b))) ints) ints
          && list_eqb pairZoZ_eqb (map (fun p => (fst p, ints_after ieff k (fst p))) ints) ints
      | None => false
      end
  | _, _ => false
  end.

(* the segment files that must exist right now (C12): named by a committed snapshot, backing a
   segment of the current root, or scheduled for an online copy while present *)
Definition required_files (d : dstate) : list Z :=
  flat_map named_by (d_bolt d) ++ file_segs (root (d_core d))
  ++ filter (fun id => mem_id id (d_files d)) (d_copy d).

Definition tag_key : Z := 999.
Definition tag_of (iops : list (Z * option Z)) : option Z :=
  match assoc_first tag_key iops with Some (Some v) => Some v | _ => None end.

(* the index rolled back to the point of [ep] accepts a write: the model, rolled back to that record
   and recovered, accepts the introduction (in particular the new segment id is fresh: it is not
   the name of a file a remaining record names), and the contents afterwards are the model's and
   the replay of the covered batches followed by the new one *)
Definition point_write_ok (d : dstate) (eff : list batch) (ep newsid : Z)
                          (ops docs : list (Z * option Z)) : bool :=
  match dstep d (DRollback ep) with
  | Some d1 =>
      match dstep d1 DRecover, assocZ ep (d_nb d) with
      | Some d2, Some k =>
          match dstep d2 (DCore (EIntroduce newsid (collapse ops) [])) with
          | Some d3 =>
              list_eqb pairZoZ_eqb (map (fun p => (fst p, root_lookup (root (d_core d3)) (fst p))) docs) docs
              && list_eqb pairZoZ_eqb (map (fun p => (fst p, replay (firstn k eff ++ [collapse ops]) (fst p))) docs) docs
          | None => false
          end
      | _, _ => false
      end
  | None => false
  end.

(* [x] with another model state; nothing else changes *)
Definition set_d (x : xs) (d' : dstate) : xs :=
  mkXs d' (x_eff x) (x_tags x) (x_ci x) (x_pi x) (x_req x) (x_ieff x) (x_sub x).

(* the batch of an introducer event is the batch the harness submitted under that tag *)
Definition sub_ok (x : xs) (ev : event) : bool :=
  match ev with
  | EIntroduce _ b io =>
      match tag_of io with
      | Some tg => match assocZ tg (x_sub x) with
                   | Some (ops, iops) => ops_agree ops b && ops_agree iops io
                   | None => false
                   end
      | None => true
      end
  | _ => true
  end.

Definition xstep (x : xs) (e : dtev) : option xs :=
  let d := x_d x in
  match e with
  | XCore t =>
      match tev_event (d_core d) t, tstep (d_core d) t with
      | Some ev, Some s' =>
          match dstep d (DCore ev) with
          | Some d' =>
              if st_eqb_root (d_core d') s' && sub_ok x ev
              then Some (mkXs d' (match ev with EIntroduce _ b _ => x_eff x ++ [b] | _ => x_eff x end)
                              (match ev with
                               | EIntroduce _ _ io => match tag_of io with
                                                      | Some tg => (tg, d_batches d') :: x_tags x
                                                      | None => x_tags x end
                               | _ => x_tags x end) (x_ci x) (x_pi x) (x_req x)
                              (match ev with EIntroduce _ _ io => x_ieff x ++ [io] | _ => x_ieff x end)
                              (x_sub x))
              else None
          | None => None
          end
      | _, _ => None
      end
  | XFile sid => option_map (set_d x) (dstep d (DFileWritten sid))
  | XPrepare ep segs ints =>
      option_map (set_d x)
        (dstep d (DPrepare (mkBrec ep (map (fun p => let '(i, _, del, _) := p in (i, del)) segs) ints)))
  | XCommitIntent => Some (mkXs d (x_eff x) (x_tags x) true (x_pi x) (x_req x) (x_ieff x) (x_sub x))
  | XCommit => option_map (fun d' => mkXs d' (x_eff x) (x_tags x) false (x_pi x) (x_req x) (x_ieff x) (x_sub x)) (dstep d DCommit)
  | XPurgeIntent eps => Some (mkXs d (x_eff x) (x_tags x) (x_ci x) (Some eps) (x_req x) (x_ieff x) (x_sub x))
  | XAck tg =>
      match assocZ tg (x_tags x) with
      | Some k => option_map (set_d x) (dstep d (DAck k))
      | None => None
      end
  | XPurge eps => option_map (fun d' => mkXs d' (x_eff x) (x_tags x) (x_ci x) None (x_req x) (x_ieff x) (x_sub x)) (dstep d (DPurgeBolt eps))
  | XRemoveZap sid => option_map (set_d x) (dstep d (DRemoveZap sid))
  | XMergeAbort id => option_map (set_d x) (dstep d (DMergeAbort id))
  | XCopyStart => option_map (set_d x) (dstep d DCopyStart)
  | XCopyEnd sids => option_map (set_d x) (dstep d (DCopyEnd sids))
  | XCrash => option_map (fun d' => mkXs d' (x_eff x) (x_tags x) false None [] (x_ieff x) (x_sub x)) (dstep d DCrash)
  | XRollback ep => option_map (set_d x) (dstep d (DRollback ep))
  | XRecover =>
      match dstep d DRecover with
      | Some d' =>
          (* every acknowledged batch is covered by the recovered record, unless a rollback
             deliberately discarded it (then d_acked is judged against the rollback point by the
             harness, which only acknowledges batches before it) *)
          let k := covered d in
          Some (mkXs d' (firstn k (x_eff x)) (filter (fun p => Nat.leb (snd p) k) (x_tags x)) false None []
                     (firstn k (x_ieff x)) (x_sub x))
      | None => None
      end
  | XObserve docs =>
      (* model = implementation, and both = replay of the batches in effect (the property) *)
      if list_eqb pairZoZ_eqb (map (fun p => (fst p, root_lookup (root (d_core d)) (fst p))) docs) docs
         && list_eqb pairZoZ_eqb (map (fun p => (fst p, replay (x_eff x) (fst p))) docs) docs
      then Some x else None
  | XBoltEpochs eps =>
      if list_eqb Z.eqb (map br_epoch (d_bolt d)) eps then Some x else None
  | XCopyDest ep docs =>
      match assocZ ep (d_pub d), assocZ ep (d_nb d) with
      | Some (proot, _), Some k =>
          if list_eqb pairZoZ_eqb (map (fun p => (fst p, root_lookup proot (fst p))) docs) docs
             && list_eqb pairZoZ_eqb (map (fun p => (fst p, replay (firstn k (x_eff x)) (fst p))) docs) docs
          then Some x else None
      | _, _ => None
      end
  | XDirBegin => Some (mkXs d (x_eff x) (x_tags x) (x_ci x) (x_pi x) (required_files d) (x_ieff x) (x_sub x))
  | XDirEnd ids =>
      (* a file that had to exist when the listing began and still has to exist now was there
         all along, so the listing must contain it *)
      if forallb (fun id => negb (mem_id id (required_files d)) || mem_id id ids) (x_req x)
      then Some x else None
  | XQuiescent ids =>
      (* nothing but the files of the retained snapshots (and root.bolt) *)
      if forallb (fun id => mem_id id ids) (required_files d)
         && forallb (fun id => mem_id id (flat_map named_by (d_bolt d))) ids
      then Some x else None
  | XSubmit tg ops iops =>
      Some (mkXs d (x_eff x) (x_tags x) (x_ci x) (x_pi x) (x_req x) (x_ieff x) ((tg, (ops, iops)) :: x_sub x))
  | XObserveInt ints =>
      (* model = implementation, and both = the internal calls of the batches in effect, replayed *)
      if d_up d
         && list_eqb pairZoZ_eqb (map (fun p => (fst p, assoc_first (fst p) (internal (d_core d)))) ints) ints
         && list_eqb pairZoZ_eqb (map (fun p => (fst p, ints_after (x_ieff x) (length (x_ieff x)) (fst p))) ints) ints
      then Some x else None
  | XRollbackPoints pts =>
      (* offline.  Exactly the committed records, newest first; every point reports the internal
         values of ITS record, which are those of the state after the batches that record covers *)
      if negb (d_up d)
         && list_eqb Z.eqb (map fst pts) (rev (map br_epoch (d_bolt d)))
         && forallb (fun p => point_ok d (x_eff x) (x_ieff x) (fst p) [] (snd p)) pts
      then Some x else None
  | XPointState ep docs ints =>
      if negb (d_up d) && point_ok d (x_eff x) (x_ieff x) ep docs ints then Some x else None
  | XPointWrite ep newsid ops docs =>
      if negb (d_up d) && point_write_ok d (x_eff x) ep newsid ops docs then Some x else None
  end.

(* at a crash: the unlogged completions that may have happened just before it *)
Definition crash_variants (x : xs) : list xs :=
  let base := [x] in
  let with_commit :=
    if x_ci x then
      match xstep x XCommit with Some x' => [x'] | None => [] end
    else [] in
  let l1 := base ++ with_commit in
  match x_pi x with
  | Some eps => l1 ++ flat_map (fun y => match xstep y (XPurge eps) with Some y' => [y'] | None => [] end) l1
  | None => l1
  end.

(* acknowledged batches must survive every crash: judged when the trace recovers *)
Definition acks_ok (x : xs) : bool :=
  forallb (fun k => Nat.leb k (covered (x_d x))) (d_acked (x_d x)).

Definition xstep_all (xl : list xs) (e : dtev) : list xs :=
  match e with
  | XCrash => flat_map (fun x => flat_map (fun y => match xstep y XCrash with Some z => [z] | None => [] end)
                                          (crash_variants x)) xl
  | XRecover => flat_map (fun x => if acks_ok x then match xstep x XRecover with Some z => [z] | None => [] end else []) xl
  | _ => flat_map (fun x => match xstep x e with Some z => [z] | None => [] end) xl
  end.

(* index of the first event no candidate state accepts, with the candidates at that point *)
Fixpoint xrun (xl : list xs) (evs : list dtev) (i : Z) : option Z * list xs :=
  match evs with
  | [] => (None, xl)
  | e :: evs' => match xstep_all xl e with
                 | [] => (Some i, xl)
                 | xl' => xrun xl' evs' (i + 1)
                 end
  end.

Inductive dcase :=
| CDisk (evs : list dtev)
| CRet (times : list Z) (epochs : list Z) (n : Z) (protected : list Z)   (* reserved: retention arithmetic *)
| CPrefix (ops : list (list (Z * option Z)))                               (* batches in submission order (raw ops) *)
          (copies : list (nat * nat * list (Z * option Z)))               (* per online copy: batches returned before it began, submitted when it ended, contents of the destination *)
          (final_lo : nat)                                                 (* batches known durable at the clean close (all of them with safe batches) *)
          (final : list (Z * option Z))                                   (* contents after close and reopen *)
| CKill (ops1 : list (list (Z * option Z))) (lo hi : nat)                 (* batches of the killed session; acknowledged / submitted when SIGKILL hit *)
        (obs1 : list (Z * option Z))                                      (* contents at the reopen after the kill *)
        (ops2 : list (list (Z * option Z)))                               (* batches written after the reopen (safe mode, clean close) *)
        (obs2 : list (Z * option Z)).                                     (* contents at the final reopen *)

(* spec-level judgement for indexes the trace model cannot follow from its initial state (an index
   made by the offline Builder): every online copy holds the replay of a whole-batch prefix that is
   no older than what had been returned when the copy began, and the source ends up with everything *)
Definition docs_are_prefix (bs : list batch) (k : nat) (docs : list (Z * option Z)) : bool :=
  list_eqb pairZoZ_eqb (map (fun p => (fst p, replay (firstn k bs) (fst p))) docs) docs.

Definition check_prefix (ops : list (list (Z * option Z))) (copies : list (nat * nat * list (Z * option Z)))
                        (final_lo : nat) (final : list (Z * option Z)) : bool :=
  let bs := map collapse ops in
  forallb (fun c => let '(lo, hi, docs) := c in
                    existsb (fun k => docs_are_prefix bs k docs) (seq lo (S (hi - lo)))) copies
  && existsb (fun k => docs_are_prefix bs k final) (seq final_lo (S (length bs - final_lo))).

(* a process killed at an arbitrary instant (SIGKILL, no hook involved): the event log may lag behind
   what reached the disk, so the run is judged by the statement itself: the reopened index holds the
   replay of a whole-batch prefix k with acknowledged <= k <= submitted, and what is written
   afterwards lands on top of exactly that prefix *)
Definition check_kill (ops1 : list (list (Z * option Z))) (lo hi : nat) (obs1 : list (Z * option Z))
                      (ops2 : list (list (Z * option Z))) (obs2 : list (Z * option Z)) : bool :=
  let b1 := map collapse ops1 in
  let b2 := map collapse ops2 in
  existsb (fun k => docs_are_prefix b1 k obs1
                    && list_eqb pairZoZ_eqb (map (fun p => (fst p, replay (firstn k b1 ++ b2) (fst p))) obs2) obs2)
          (seq lo (S (hi - lo))).

Definition xinit : xs := mkXs dinit [] [] false None [] [] [].

Definition dcheck (c : dcase) : bool :=
  match c with
  | CDisk evs =>
      match xrun [xinit] evs 0 with
      | (None, _) => true
      | (Some _, _) => false
      end
  | CRet _ _ _ _ => true
  | CPrefix ops copies flo final => check_prefix ops copies flo final
  | CKill ops1 lo hi obs1 ops2 obs2 => check_kill ops1 lo hi obs1 ops2 obs2
  end.

Inductive dexpl :=
| EDisk (rejected_at : option Z) (model_root : list pseg) (bolt_epochs : list Z) (files : list Z)
        (tx : option Z) (covered_batches : nat) (acked : list nat) (eff_batches : nat).

Definition dexplain (c : dcase) : dexpl :=
  match c with
  | CDisk evs =>
      let '(r, xl) := xrun [xinit] evs 0 in
      let x := hd xinit xl in
      let d := x_d x in
      EDisk r (project (root (d_core d))) (map br_epoch (d_bolt d)) (d_files d)
            (option_map br_epoch (d_tx d)) (covered d) (d_acked d) (length (x_eff x))
  | CRet _ _ _ _ => EDisk None [] [] [] None 0%nat [] 0%nat
  | CPrefix ops copies _ _ =>
      EDisk None [] [] [] None (length ops)
            (map (fun c => let '(lo, hi, docs) := c in
                           if existsb (fun k => docs_are_prefix (map collapse ops) k docs) (seq lo (S (hi - lo))) then 1%nat else 0%nat) copies)
            0%nat
  | CKill ops1 lo hi obs1 _ _ =>
      EDisk None [] [] [] None (length ops1)
            (filter (fun k => docs_are_prefix (map collapse ops1) k obs1) (seq 0 (S (length ops1)))) (hi - lo)
  end.
