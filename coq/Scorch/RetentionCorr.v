(* Scorch retention arithmetic — correspondence cases: what the Go functions returned (through
   /repo/index/scorch/verif_export_retention.go) on an input, checked against Scorch/Retention.v. *)
From Coq Require Import ZArith List Bool.
From Verif Require Import Common.Bytes Scorch.Retention.
Import ListNotations.
Local Open Scope Z_scope.

Definition snaps_eqb := list_eqb snap_eqb.
Definition Zs_eqb := list_eqb Z.eqb.

(* a Go map has no order: it is compared as the list of its entries sorted by epoch (keys are
   distinct) *)
Fixpoint insert_epoch (x : snap) (l : list snap) : list snap :=
  match l with
  | [] => [x]
  | y :: l' => if s_epoch x <=? s_epoch y then x :: l else y :: insert_epoch x l'
  end.
Definition by_epoch (l : list snap) : list snap := fold_right insert_epoch [] l.

(* checkpoints: same time-stamp sequence, same entries (the order among equal time stamps is
   Go's map iteration order, see Retention.v) *)
Definition cps_agree (model impl : list snap) : bool :=
  Zs_eqb (map s_ts model) (map s_ts impl) && snaps_eqb (by_epoch model) (by_epoch impl).

(* printing aid of the harness: a snapshot list written as a base and (epoch, stamp - base) pairs *)
Definition rb (b : Z) (l : list (Z * Z)) : list snap := map (fun p => mkSnap (fst p) (b + snd p)) l.

Inductive case :=
(* getTimeSeriesSnapshots(maxp, interval, snaps); impl = the map sorted by epoch *)
| CTimeSeries (maxp interval : Z) (snaps : list snap) (impl : list snap)
(* getProtectedSnapshots with numSnapshotsToKeep = N, then newCheckPoints of it;
   impl = None if it panicked, else (map sorted by epoch, checkpoints as returned) *)
| CProtected (N interval : Z) (live : list snap) (impl : option (list snap * list snap))
(* getBoundaryCheckPoint(ts) with the given factor (float64 bits) and s.checkPoints *)
| CBoundary (fbits : Z) (cps : list snap) (ts : Z) (impl : Z)
(* a real root.bolt holding [meta] (newest epoch first): getLiveSnapshots, then
   removeOldBoltSnapshots; the wall clock read before / between / after the two calls *)
| CPurge (N interval fbits : Z) (cps meta : list snap) (eligible : list Z)
         (now0 now1 now2 : Z)
         (impl_live : list snap) (impl_removed : Z) (impl_bolt : list Z)
         (impl_eligible : list Z) (impl_cps : list snap).

Definition subset_Z (a b : list Z) : bool := forallb (fun x => in_Z x b) a.

Definition purge_agrees (m : option (rstate * Z)) (impl_removed : Z) (impl_bolt impl_eligible : list Z)
           (impl_cps : list snap) : bool :=
  match m with
  | Some (st, n) =>
      (n =? impl_removed) && Zs_eqb (map s_epoch (r_bolt st)) impl_bolt &&
      Zs_eqb (r_eligible st) impl_eligible && cps_agree (r_cps st) impl_cps
  | None => false
  end.

Definition check (c : case) : bool :=
  match c with
  | CTimeSeries maxp interval snaps impl =>
      snaps_eqb (by_epoch (time_series maxp interval snaps)) impl
  | CProtected N interval live impl =>
      match get_protected N interval live, impl with
      | None, None => true
      | Some p, Some (ip, icps) =>
          snaps_eqb (by_epoch p) ip && cps_agree (new_checkpoints p) icps &&
          (* spec: protected entries are live ones, the latest is among them, at most max 1 N *)
          forallb (fun s => existsb (snap_eqb s) live) ip &&
          (Z.of_nat (length ip) <=? Z.max 1 N) &&
          match live with l0 :: _ => mem_epoch (s_epoch l0) ip | [] => false end
      | _, _ => false
      end
  | CBoundary fbits cps ts impl => get_boundary fbits cps ts =? impl
  | CPurge N interval fbits cps meta eligible now0 now1 now2 il irem ibolt ielig icps =>
      (* the implementation read the clock somewhere in [now0,now1] resp. [now1,now2] *)
      (option_eqb snaps_eqb (get_live N interval fbits cps now0 meta) (Some il) ||
       option_eqb snaps_eqb (get_live N interval fbits cps now1 meta) (Some il)) &&
      (purge_agrees (remove_old N interval fbits now1 (mkR meta eligible cps)) irem ibolt ielig icps ||
       purge_agrees (remove_old N interval fbits now2 (mkR meta eligible cps)) irem ibolt ielig icps) &&
      (* spec: the newest persisted snapshot survives; only eligible epochs leave the bolt or
         the eligible list; at least min N |live| rollback points remain *)
      match meta with m0 :: _ => in_Z (s_epoch m0) ibolt | [] => true end &&
      forallb (fun s => in_Z (s_epoch s) ibolt || in_Z (s_epoch s) eligible) meta &&
      subset_Z ibolt (map s_epoch meta) && subset_Z ielig eligible &&
      (Z.min N (Z.of_nat (length il)) <=? Z.of_nat (length ibolt))
  end.

(* what the model expects, for replay files *)
Inductive expl :=
| ESnaps (l : list snap)
| EProt (o : option (list snap * list snap))
| EZ (z : Z)
| EPurge (live_a live_b : option (list snap)) (purge_a purge_b : option (rstate * Z)).

Definition explain (c : case) : expl :=
  match c with
  | CTimeSeries maxp interval snaps _ => ESnaps (by_epoch (time_series maxp interval snaps))
  | CProtected N interval live _ =>
      EProt (option_map (fun p => (by_epoch p, new_checkpoints p)) (get_protected N interval live))
  | CBoundary fbits cps ts _ => EZ (get_boundary fbits cps ts)
  | CPurge N interval fbits cps meta eligible now0 now1 now2 _ _ _ _ _ =>
      EPurge (get_live N interval fbits cps now0 meta) (get_live N interval fbits cps now1 meta)
             (remove_old N interval fbits now1 (mkR meta eligible cps))
             (remove_old N interval fbits now2 (mkR meta eligible cps))
  end.
