(* Scorch engine — executable model of persistence on top of Scorch/Model.v
   (definitions only; proofs in Scorch/ProofsDisk*.v).

   Transcribed from /repo/index/scorch:
     persister.go   persisterLoop (pick root, release waiters), persistSnapshotDirect /
                    prepareBoltSnapshot (segment files written, bucket filled in an open bolt tx,
                    introducePersist, tx.Commit, Sync), persistSnapshotMaybeMerge (the "equiv"
                    snapshot persisted under the captured epoch), removeOldBoltSnapshots,
                    removeOldZapFiles, loadFromBolt (newest loadable bucket wins)
     merge.go       merged segment files are written before the merge is introduced
     rollback.go    Rollback = delete every bucket newer than the chosen one
     scorch.go / snapshot_index.go   CopyReader / CopyTo / CloseCopyReader

   The file system is abstracted to "which segment files are complete"; a crash keeps exactly
   the complete files and the committed bolt records (bbolt's atomic commit and the OS's
   durability are trusted, see DESIGN.md C03 limits).  Files that are not complete may exist as
   arbitrary garbage: recovery never looks at a file that no committed record names. *)
From Coq Require Import ZArith List Bool Arith.
From Verif Require Import Scorch.Model.
Import ListNotations.
Local Open Scope Z_scope.

(* a persisted snapshot record: one bolt bucket *)
Record brec := mkBrec {
  br_epoch : Z;
  br_segs : list (Z * list nat);        (* segment id (= file name), deleted doc numbers *)
  br_int : list (Z * Z)
}.

Record dstate := mkD {
  d_core : st;                                        (* volatile state *)
  d_pub : list (Z * (list seg * list (Z * Z)));       (* ghost: every published root, by epoch *)
  d_nb : list (Z * nat);                              (* ghost: epoch -> number of batches introduced so far *)
  d_batches : nat;                                    (* ghost: batches introduced so far *)
  d_segdocs : list (Z * list (Z * Z));                (* ghost: documents of every segment ever built *)
  d_bolt : list brec;                                 (* committed records, oldest first *)
  d_tx : option brec;                                 (* bucket filled in the persister's open tx *)
  d_files : list Z;                                   (* complete segment files, by segment id *)
  d_copy : list Z;                                    (* segment ids scheduled for an online copy *)
  d_acked : list nat;                                 (* batches (by introduction index, from 1) acknowledged as persisted *)
  d_up : bool                                         (* process running? *)
}.

Definition dinit : dstate :=
  mkD init [(0, ([], []))] [(0, 0%nat)] 0 [] [] None [] [] [] true.

Inductive devent :=
| DCore (e : event)
| DFileWritten (sid : Z)                 (* a segment file (persisted or merged) is complete *)
| DPrepare (r : brec)                    (* bucket for epoch filled, not yet committed *)
| DCommit
| DAck (k : nat)                         (* batch number k acknowledged as persisted *)
| DPurgeBolt (epochs : list Z)
| DRemoveZap (sid : Z)
| DMergeAbort (newid : Z)              (* a merge that wrote segment [newid] failed or was interrupted by
                                          Close before it was handed to the introducer: it is dropped *)
| DCopyStart | DCopyEnd (sids : list Z)
| DCrash
| DRecover
| DRollback (e : Z).                     (* offline: only when the process is down *)

Fixpoint assocZ {A} (k : Z) (l : list (Z * A)) : option A :=
  match l with
  | [] => None
  | (k', v) :: l' => if k' =? k then Some v else assocZ k l'
  end.

Definition root_live (r : list seg) : list (Z * Z) := flat_map (fun s => map snd (live_docs s)) r.

(* canonical form of a live-document list: sorted by (id, version) *)
Fixpoint ins_pair (p : Z * Z) (l : list (Z * Z)) : list (Z * Z) :=
  match l with
  | [] => [p]
  | q :: l' =>
      if (fst p <? fst q) || ((fst p =? fst q) && (snd p <=? snd q)) then p :: l else q :: ins_pair p l'
  end.
Definition canon (l : list (Z * Z)) : list (Z * Z) := fold_right ins_pair [] l.

Fixpoint pairs_eqb (a b : list (Z * Z)) : bool :=
  match a, b with
  | [], [] => true
  | (x1, y1) :: a', (x2, y2) :: b' => (x1 =? x2) && (y1 =? y2) && pairs_eqb a' b'
  | _, _ => false
  end.

(* the root a record stands for, given the segment-document registry; None if a segment is unknown *)
Fixpoint rec_root (segdocs : list (Z * list (Z * Z))) (segs : list (Z * list nat)) : option (list seg) :=
  match segs with
  | [] => Some []
  | (sid, del) :: rest =>
      match assocZ sid segdocs, rec_root segdocs rest with
      | Some docs, Some r => Some (mkSeg sid docs del true :: r)
      | _, _ => None
      end
  end.

Definition same_contents (a b : list seg) : bool := pairs_eqb (canon (root_live a)) (canon (root_live b)).

Definition register_segs (r : list seg) (segdocs : list (Z * list (Z * Z))) : list (Z * list (Z * Z)) :=
  fold_left (fun acc s => match assocZ (sid s) acc with
                          | Some _ => acc
                          | None => (sid s, sdocs s) :: acc
                          end) r segdocs.

Definition named_by (r : brec) : list Z := map fst (br_segs r).
Definition newest (b : list brec) : option brec := last (map Some b) None.

Definition is_introduce (e : event) : bool := match e with EIntroduce _ _ _ => true | _ => false end.
Definition swaps_root (e : event) : bool := match e with EMergeStart _ _ => false | _ => true end.

Definition file_segs (r : list seg) : list Z := map sid (filter sfile r).
Definition inflight_news (s : st) : list Z := flat_map (fun m => map t_new (m_tasks m)) (inflight s).

Fixpoint ins_seg (p : Z * list nat) (l : list (Z * list nat)) : list (Z * list nat) :=
  match l with
  | [] => [p]
  | q :: l' => if fst p <=? fst q then p :: l else q :: ins_seg p l'
  end.
Definition sort_segs (l : list (Z * list nat)) : list (Z * list nat) := fold_right ins_seg [] l.

(* copyScheduled is a counter per file name: ending one copy releases one reference *)
Fixpoint remove_one (x : Z) (l : list Z) : list Z :=
  match l with
  | [] => []
  | y :: l' => if y =? x then l' else y :: remove_one x l'
  end.

Definition dstep (d : dstate) (ev : devent) : option dstate :=
  match ev with
  | DCore e =>
      if negb (d_up d) then None else
      match step (d_core d) e with
      | None => None
      | Some s' =>
          let nb := if is_introduce e then S (d_batches d) else d_batches d in
          (* file-backed segments of a root must have their file (I5) *)
          if forallb (fun id => mem_id id (d_files d)) (file_segs (root s')) then
            Some (mkD s'
                    (if swaps_root e then (epoch s', (root s', internal s')) :: d_pub d else d_pub d)
                    (if swaps_root e then (epoch s', nb) :: d_nb d else d_nb d)
                    nb
                    (register_segs (root s') (d_segdocs d))
                    (d_bolt d) (d_tx d) (d_files d) (d_copy d) (d_acked d) true)
          else None
      end
  | DFileWritten sid =>
      (* only a segment id that has been allocated (a root segment being persisted, or the output
         of an in-flight merge) is ever written: fresh ids are never on disk beforehand (I6) *)
      if negb (d_up d) || negb (mem_id sid (used_sids (d_core d))) then None else
      Some (mkD (d_core d) (d_pub d) (d_nb d) (d_batches d) (d_segdocs d) (d_bolt d) (d_tx d)
                (if mem_id sid (d_files d) then d_files d else sid :: d_files d) (d_copy d) (d_acked d) true)
  | DPrepare r =>
      if negb (d_up d) then None else
      match d_tx d, assocZ (br_epoch r) (d_pub d), rec_root (d_segdocs d) (br_segs r) with
      | None, Some (proot, pint), Some rr =>
          (* the bucket must describe exactly the contents of the root published at that epoch
             (for the in-memory-merge path this is the "equiv" snapshot) *)
          (* ... and it is a snapshot of this life of the process (not a stale epoch left over from
             before a crash), naming each segment once *)
          if same_contents rr proot && pairs_eqb (canon (br_int r)) (canon pint)
             && (br_epoch r <=? epoch (d_core d)) && nodupZ (named_by r)
          then Some (mkD (d_core d) (d_pub d) (d_nb d) (d_batches d) (d_segdocs d) (d_bolt d) (Some r)
                         (d_files d) (d_copy d) (d_acked d) true)
          else None
      | _, _, _ => None
      end
  | DCommit =>
      if negb (d_up d) then None else
      match d_tx d with
      | Some r =>
          (* every file the record names is complete; epochs of records increase *)
          if forallb (fun id => mem_id id (d_files d)) (named_by r)
             && match newest (d_bolt d) with Some n => br_epoch n <=? br_epoch r | None => true end
          then Some (mkD (d_core d) (d_pub d) (d_nb d) (d_batches d) (d_segdocs d)
                         (filter (fun b => negb (br_epoch b =? br_epoch r)) (d_bolt d) ++ [r]) None
                         (d_files d) (d_copy d) (d_acked d) true)
          else None
      | None => None
      end
  | DAck k =>
      if negb (d_up d) then None else
      (* acknowledged only once some committed record covers batch k *)
      if existsb (fun b => match assocZ (br_epoch b) (d_nb d) with
                           | Some n => Nat.leb k n | None => false end) (d_bolt d)
      then Some (mkD (d_core d) (d_pub d) (d_nb d) (d_batches d) (d_segdocs d) (d_bolt d) (d_tx d)
                     (d_files d) (d_copy d) (k :: d_acked d) true)
      else None
  | DPurgeBolt epochs =>
      if negb (d_up d) then None else
      match newest (d_bolt d) with
      | Some n =>
          if mem_id (br_epoch n) epochs then None          (* the newest record is never purged *)
          else Some (mkD (d_core d) (d_pub d) (d_nb d) (d_batches d) (d_segdocs d)
                         (filter (fun b => negb (mem_id (br_epoch b) epochs)) (d_bolt d)) (d_tx d)
                         (d_files d) (d_copy d) (d_acked d) true)
      | None => None
      end
  | DRemoveZap sid =>
      if negb (d_up d) then None else
      if existsb (fun b => mem_id sid (named_by b)) (d_bolt d)
         || match d_tx d with Some r => mem_id sid (named_by r) | None => false end
         || mem_id sid (file_segs (root (d_core d)))
         || mem_id sid (inflight_news (d_core d))
         || mem_id sid (d_copy d)
      then None
      else Some (mkD (d_core d) (d_pub d) (d_nb d) (d_batches d) (d_segdocs d) (d_bolt d) (d_tx d)
                     (filter (fun f => negb (f =? sid)) (d_files d)) (d_copy d) (d_acked d) true)
  | DMergeAbort newid =>
      if negb (d_up d) then None else
      let c := d_core d in
      Some (mkD (mkSt (root c) (internal c)
                      (filter (fun m => negb (mem_id newid (map t_new (m_tasks m)))) (inflight c))
                      (used_sids c) (epoch c))
                (d_pub d) (d_nb d) (d_batches d) (d_segdocs d) (d_bolt d) (d_tx d) (d_files d)
                (d_copy d) (d_acked d) true)
  | DCopyStart =>
      if negb (d_up d) then None else
      Some (mkD (d_core d) (d_pub d) (d_nb d) (d_batches d) (d_segdocs d) (d_bolt d) (d_tx d)
                (d_files d) (map sid (root (d_core d)) ++ d_copy d) (d_acked d) true)
  | DCopyEnd sids =>
      if negb (d_up d) then None else
      Some (mkD (d_core d) (d_pub d) (d_nb d) (d_batches d) (d_segdocs d) (d_bolt d) (d_tx d)
                (d_files d) (fold_left (fun acc x => remove_one x acc) sids (d_copy d))
                (d_acked d) true)
  | DCrash =>
      (* volatile state is gone: root, in-flight merges, the open transaction *)
      Some (mkD (mkSt [] [] [] (used_sids (d_core d)) (epoch (d_core d)))
                (d_pub d) (d_nb d) (d_batches d) (d_segdocs d) (d_bolt d) None (d_files d) [] (d_acked d) false)
  | DRecover =>
      if d_up d then None else
      match newest (d_bolt d) with
      | None => None
      | Some n =>
          (* loadSnapshot walks the bucket's segment sub-buckets in key order, i.e. by ascending
             segment id: the root's original segment order is not preserved across a reopen *)
          match rec_root (d_segdocs d) (sort_segs (br_segs n)) with
          | Some r =>
              if forallb (fun id => mem_id id (d_files d)) (named_by n) then
                (* files no committed record names are deleted at open; segment ids restart above
                   the largest id on disk, so ids that never reached the disk may be reused *)
                let files' := filter (fun f => existsb (fun b => mem_id f (named_by b)) (d_bolt d)) (d_files d) in
                let k := match assocZ (br_epoch n) (d_nb d) with Some k => k | None => 0%nat end in
                Some (mkD (mkSt r (br_int n) [] files' (br_epoch n))
                          ((br_epoch n, (r, br_int n)) :: d_pub d)
                          ((br_epoch n, k) :: d_nb d)
                          k
                          (filter (fun p => mem_id (fst p) files') (d_segdocs d)) (d_bolt d) None
                          files' [] (d_acked d) true)
              else None
          | None => None
          end
      end
  | DRollback e =>
      if d_up d then None else
      if existsb (fun b => br_epoch b =? e) (d_bolt d)
      then
        (* batches after the rollback point are deliberately discarded, with their acknowledgements *)
        let k := match assocZ e (d_nb d) with Some k => k | None => 0%nat end in
        Some (mkD (d_core d) (d_pub d) (d_nb d) (d_batches d) (d_segdocs d)
                  (filter (fun b => br_epoch b <=? e) (d_bolt d)) None (d_files d) []
                  (filter (fun a => Nat.leb a k) (d_acked d)) false)
      else None
  end.

Fixpoint drun (d : dstate) (evs : list devent) : option dstate :=
  match evs with
  | [] => Some d
  | e :: evs' => match dstep d e with Some d' => drun d' evs' | None => None end
  end.

(* batches introduced by the core events of a trace, in introduction order *)
Fixpoint dbatches (evs : list devent) : list batch :=
  match evs with
  | [] => []
  | DCore (EIntroduce _ b _) :: evs' => b :: dbatches evs'
  | _ :: evs' => dbatches evs'
  end.

(* number of batches the newest committed record covers *)
Definition covered (d : dstate) : nat :=
  match newest (d_bolt d) with
  | Some n => match assocZ (br_epoch n) (d_nb d) with Some k => k | None => 0%nat end
  | None => 0%nat
  end.
