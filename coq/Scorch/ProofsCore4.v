(* Scorch engine — proofs, part 4: consequences of [scorch_refines_replay]
     doc_count_spec, batch_collapse / batch_partition_irrelevant (C01),
     layout_irrelevant (C05), run_trace / reader_view_is_prefix / trace_monotone (C04),
   and the Examples showing the hypotheses are satisfiable on a non-trivial event list. *)
From Coq Require Import ZArith List Bool Arith Lia Permutation.
From Verif Require Import Scorch.Model Scorch.ProofsCore1 Scorch.ProofsCore2 Scorch.ProofsCore3.
Import ListNotations.
Local Open Scope Z_scope.

(* ---------- DocCount ---------- *)

Lemma live_keys_spec : forall (l : list (Z * Z)) d, In d (map fst l) <-> assoc_first d l <> None.
Proof.
  intros l d. split.
  - intros Hin H. apply assoc_first_None in H. exact (H Hin).
  - intros H. destruct (in_dec Z.eq_dec d (map fst l)) as [Hin|Hn]; [exact Hin|].
    exfalso. apply H. apply assoc_first_None. exact Hn.
Qed.

Theorem doc_count_spec : forall evs s,
  run init evs = Some s ->
  exists l, NoDup l /\ (forall d, In d l <-> replay (batches_of evs) d <> None)
            /\ length l = root_live_count (root s).
Proof.
  intros evs s Hrun. destruct (scorch_refines_replay evs s Hrun) as [Hl _].
  exists (map fst (root_live (root s))). split; [|split].
  - exact (inv_I1 s (run_Inv evs s Hrun)).
  - intros d. rewrite <- Hl, root_lookup_live. apply live_keys_spec.
  - rewrite map_length, root_live_count_live. reflexivity.
Qed.

(* ---------- introduceMerge on reachable states (DESIGN.md: merge_reapplies_deletes) ---------- *)

Theorem merge_reapplies_deletes : forall evs s k m,
  run init evs = Some s -> nth_error (inflight s) k = Some m ->
  (forall d, root_lookup (introduce_merge_root m (root s)) d = root_lookup (root s) d)
  /\ root_live_count (introduce_merge_root m (root s)) = root_live_count (root s).
Proof.
  intros evs s k m Hrun Hk. split.
  - exact (merge_preserves_lookup s k m (run_Inv evs s Hrun) Hk).
  - exact (merge_preserves_live_count s k m (run_Inv evs s Hrun) Hk).
Qed.

(* ---------- batches: collapse and partition ---------- *)

Lemma collapse_keys_incl : forall ops x, In x (map fst (collapse ops)) -> In x (map fst ops).
Proof.
  induction ops as [|[k ov] ops IH]; intros x; cbn [collapse map fst].
  - intros [].
  - destruct (mem_id k (map fst ops)); cbn [map fst In].
    + intros H. right. exact (IH x H).
    + intros [H|H]; [left; exact H | right; exact (IH x H)].
Qed.

Lemma collapse_nodup : forall ops, nodupZ (map fst (collapse ops)) = true.
Proof.
  intros ops. apply nodupZ_NoDup. induction ops as [|[k ov] ops IH]; cbn [collapse map fst].
  - constructor.
  - destruct (mem_id k (map fst ops)) eqn:E; [exact IH|]. cbn [map fst].
    constructor; [|exact IH]. apply mem_id_false in E. intros Hin. apply E.
    exact (collapse_keys_incl ops k Hin).
Qed.

(* the last operation on [d] in [ops] = the first one in the reversed list *)
Definition last_op (d : Z) (ops : list (Z * option Z)) : option (option Z) :=
  assoc_first d (rev ops).

Lemma collapse_last_op : forall ops d, assoc_first d (collapse ops) = last_op d ops.
Proof.
  unfold last_op. induction ops as [|[k ov] ops IH]; intros d; cbn [collapse rev].
  - reflexivity.
  - rewrite assoc_first_app. cbn [assoc_first].
    destruct (mem_id k (map fst ops)) eqn:E.
    + rewrite IH. destruct (assoc_first d (rev ops)) as [v|] eqn:E'; [reflexivity|].
      destruct (Z.eqb_spec k d) as [He|Hne]; [|reflexivity].
      exfalso. subst k. apply assoc_first_None in E'. apply E'.
      rewrite map_rev. apply -> in_rev. apply mem_id_In. exact E.
    + cbn [assoc_first]. destruct (Z.eqb_spec k d) as [He|Hne].
      * subst k. apply mem_id_false in E.
        assert (H : assoc_first d (rev ops) = None).
        { apply assoc_first_None. rewrite map_rev. intros Hin. apply in_rev in Hin. exact (E Hin). }
        rewrite H. reflexivity.
      * rewrite IH. destruct (assoc_first d (rev ops)); reflexivity.
Qed.

Lemma spec_apply_ops_last : forall ops m d,
  spec_apply_ops ops m d = match last_op d ops with Some ov => ov | None => m d end.
Proof.
  unfold spec_apply_ops, last_op. induction ops as [|[k ov] ops IH]; intros m d; cbn [fold_left rev].
  - reflexivity.
  - rewrite IH, assoc_first_app. cbn [assoc_first fst snd].
    destruct (assoc_first d (rev ops)); [reflexivity|].
    destruct (k =? d); reflexivity.
Qed.

Lemma collapse_apply : forall ops m d,
  spec_apply_batch (collapse ops) m d = spec_apply_ops ops m d.
Proof.
  intros ops m d. unfold spec_apply_batch. rewrite collapse_last_op, spec_apply_ops_last.
  reflexivity.
Qed.

(* batch_collapse: collapsing keeps exactly the last op of every id, ids become distinct,
   and applying the collapsed batch is applying the ops one at a time *)
Theorem batch_collapse : forall ops,
  (forall d, assoc_first d (collapse ops) = last_op d ops)
  /\ nodupZ (map fst (collapse ops)) = true
  /\ (forall m d, spec_apply_batch (collapse ops) m d = spec_apply_ops ops m d).
Proof.
  intros ops. split; [|split].
  - exact (collapse_last_op ops).
  - exact (collapse_nodup ops).
  - exact (collapse_apply ops).
Qed.

Lemma partition_gen : forall (parts : list (list (Z * option Z))) m d,
  apply_batches (map collapse parts) m d = spec_apply_ops (concat parts) m d.
Proof.
  induction parts as [|p parts IH]; intros m d; cbn [map concat].
  - reflexivity.
  - rewrite spec_apply_ops_app. change (apply_batches (collapse p :: map collapse parts) m d)
      with (apply_batches (map collapse parts) (spec_apply_batch (collapse p) m) d).
    rewrite IH. apply spec_apply_ops_ext. intros x. apply collapse_apply.
Qed.

Theorem batch_partition_irrelevant : forall (parts : list (list (Z * option Z))) d,
  replay (map collapse parts) d = spec_apply_ops (concat parts) (fun _ => None) d.
Proof. intros parts d. exact (partition_gen parts (fun _ => None) d). Qed.

(* ---------- C05: layout irrelevance ---------- *)

Lemma nodup_same_keys_length : forall (l1 l2 : list Z),
  NoDup l1 -> NoDup l2 -> (forall d, In d l1 <-> In d l2) -> length l1 = length l2.
Proof.
  intros l1 l2 H1 H2 H. apply Nat.le_antisymm.
  - apply NoDup_incl_length; [exact H1|]. intros d Hd. apply H. exact Hd.
  - apply NoDup_incl_length; [exact H2|]. intros d Hd. apply H. exact Hd.
Qed.

Theorem layout_irrelevant : forall evs1 evs2 s1 s2,
  run init evs1 = Some s1 -> run init evs2 = Some s2 ->
  (forall d, replay (batches_of evs1) d = replay (batches_of evs2) d) ->
  (forall d, root_lookup (root s1) d = root_lookup (root s2) d)
  /\ root_live_count (root s1) = root_live_count (root s2).
Proof.
  intros evs1 evs2 s1 s2 H1 H2 Heq.
  destruct (scorch_refines_replay evs1 s1 H1) as [Hl1 _].
  destruct (scorch_refines_replay evs2 s2 H2) as [Hl2 _].
  assert (Hlook : forall d, root_lookup (root s1) d = root_lookup (root s2) d).
  { intros d. rewrite Hl1, Hl2. apply Heq. }
  split; [exact Hlook|].
  rewrite !root_live_count_live, <- !(map_length fst).
  apply nodup_same_keys_length.
  - exact (inv_I1 s1 (run_Inv evs1 s1 H1)).
  - exact (inv_I1 s2 (run_Inv evs2 s2 H2)).
  - intros d. rewrite !live_keys_spec, <- !root_lookup_live, Hlook. reflexivity.
Qed.

(* merges and persists alone (no introduction in between) change neither contents nor count *)
Theorem merge_persist_invisible : forall evs s evs' s',
  run init evs = Some s -> run s evs' = Some s' -> batches_of evs' = [] ->
  (forall d, root_lookup (root s') d = root_lookup (root s) d)
  /\ root_live_count (root s') = root_live_count (root s).
Proof.
  intros evs s evs' s' H1 H2 Hb.
  assert (Hrun : run init (evs ++ evs') = Some s').
  { clear Hb. revert H1. generalize init. induction evs as [|e evs IH]; intros s0 H1; cbn [run app] in *.
    - injection H1 as H1. subst s0. exact H2.
    - destruct (step s0 e) as [s1|]; [|discriminate]. exact (IH s1 H1). }
  apply (layout_irrelevant (evs ++ evs') evs s' s Hrun H1).
  intros d. f_equal. clear -Hb. induction evs as [|e evs IH]; cbn [app].
  - exact Hb.
  - rewrite !batches_of_cons, IH. reflexivity.
Qed.

(* ---------- C04: published roots ---------- *)

(* introductions so far *)
Definition bump (n : nat) (e : event) : nat :=
  match e with EIntroduce _ _ _ => S n | _ => n end.

(* every root swap publishes a new root; EMergeStart does not swap the root *)
Definition publishes (e : event) : bool :=
  match e with EMergeStart _ _ => false | _ => true end.

(* [run] that also returns the roots published on the way, each with the number of
   EIntroduce events that preceded its publication ([n] = number before this run) *)
Fixpoint run_trace (s : st) (n : nat) (evs : list event) : option (st * list (list seg * nat)) :=
  match evs with
  | [] => Some (s, [])
  | e :: evs' =>
      match step s e with
      | Some s' =>
          match run_trace s' (bump n e) evs' with
          | Some (sf, tr) =>
              Some (sf, if publishes e then (root s', bump n e) :: tr else tr)
          | None => None
          end
      | None => None
      end
  end.

(* all roots a reader can hold after [evs]: the initial empty root and every published one *)
Definition published (evs : list event) : option (list (list seg * nat)) :=
  match run_trace init 0 evs with
  | Some (_, tr) => Some ((root init, 0%nat) :: tr)
  | None => None
  end.

Lemma run_trace_run : forall evs s n,
  match run_trace s n evs with
  | Some (sf, _) => run s evs = Some sf
  | None => run s evs = None
  end.
Proof.
  induction evs as [|e evs IH]; intros s n; cbn [run_trace run].
  - reflexivity.
  - destruct (step s e) as [s1|]; [|reflexivity].
    specialize (IH s1 (bump n e)). destruct (run_trace s1 (bump n e) evs) as [[sf tr]|]; exact IH.
Qed.

Lemma firstn_length_app : forall {A} (a b : list A), firstn (length a) (a ++ b) = a.
Proof.
  intros A a b. rewrite <- (Nat.add_0_r (length a)), firstn_app_2. cbn [firstn]. apply app_nil_r.
Qed.

Lemma step_batches_bump : forall e (pre : list batch),
  length (pre ++ step_batches e) = bump (length pre) e.
Proof.
  intros e pre. rewrite app_length. destruct e; cbn [step_batches bump length]; lia.
Qed.

Lemma run_trace_prefix : forall evs s n (pre : list batch) sf tr,
  Inv s -> n = length pre ->
  (forall d, root_lookup (root s) d = replay pre d) ->
  run_trace s n evs = Some (sf, tr) ->
  forall r k, In (r, k) tr ->
    (n <= k)%nat /\
    forall d, root_lookup r d = replay (firstn k (pre ++ batches_of evs)) d.
Proof.
  induction evs as [|e evs IH]; intros s n pre sf tr I Hn Hl Htr r k Hin; cbn [run_trace] in Htr.
  - injection Htr as _ Htr. subst tr. destruct Hin.
  - destruct (step s e) as [s1|] eqn:Hstep; [|discriminate].
    destruct (run_trace s1 (bump n e) evs) as [[sf' tr']|] eqn:Htr'; [|discriminate].
    injection Htr as Hsf Htr. subst sf'.
    assert (I1 := Inv_step s e s1 I Hstep).
    assert (Hn1 : bump n e = length (pre ++ step_batches e)).
    { rewrite step_batches_bump, Hn. reflexivity. }
    assert (Hl1 : forall d, root_lookup (root s1) d = replay (pre ++ step_batches e) d).
    { intros d. rewrite (step_lookup s e s1 I Hstep d). unfold replay.
      fold (apply_batches (pre ++ step_batches e) (fun _ => None)).
      rewrite apply_batches_app. apply apply_batches_ext. exact Hl. }
    assert (Happ : pre ++ batches_of (e :: evs) = (pre ++ step_batches e) ++ batches_of evs).
    { rewrite batches_of_cons, app_assoc. reflexivity. }
    assert (Hle : (n <= bump n e)%nat) by (destruct e; cbn [bump]; lia).
    assert (Hrest : In (r, k) tr' ->
                    (n <= k)%nat /\
                    forall d, root_lookup r d = replay (firstn k (pre ++ batches_of (e :: evs))) d).
    { intros Hin'. rewrite Happ.
      destruct (IH s1 (bump n e) (pre ++ step_batches e) sf tr' I1 Hn1 Hl1 Htr' r k Hin') as [Hk Hd].
      split; [lia | exact Hd]. }
    destruct (publishes e); [|subst tr; exact (Hrest Hin)].
    subst tr. destruct Hin as [He|Hin]; [|exact (Hrest Hin)].
    injection He as Hr Hk. subst r k. split; [exact Hle|].
    intros d. rewrite Happ, Hn1, firstn_length_app. exact (Hl1 d).
Qed.

(* C04 reader_view_is_prefix: whatever published root a reader holds, it sees exactly the
   first k batches, whole, for the k recorded at publication *)
Theorem reader_view_is_prefix : forall evs pub,
  published evs = Some pub ->
  forall r k, In (r, k) pub ->
    forall d, root_lookup r d = replay (firstn k (batches_of evs)) d.
Proof.
  intros evs pub Hpub r k Hin d. unfold published in Hpub.
  destruct (run_trace init 0 evs) as [[sf tr]|] eqn:Htr; [|discriminate].
  injection Hpub as Hpub. subst pub. destruct Hin as [He|Hin].
  - injection He as Hr Hk. subst r k. reflexivity.
  - exact (proj2 (run_trace_prefix evs init 0 [] sf tr Inv_init eq_refl
                    (fun _ => eq_refl) Htr r k Hin) d).
Qed.

Lemma run_trace_ge : forall evs s n sf tr,
  run_trace s n evs = Some (sf, tr) -> forall r k, In (r, k) tr -> (n <= k)%nat.
Proof.
  induction evs as [|e evs IH]; intros s n sf tr Htr r k Hin; cbn [run_trace] in Htr.
  - injection Htr as _ Htr. subst tr. destruct Hin.
  - destruct (step s e) as [s1|]; [|discriminate].
    destruct (run_trace s1 (bump n e) evs) as [[sf' tr']|] eqn:Htr'; [|discriminate].
    injection Htr as _ Htr.
    assert (Hle : (n <= bump n e)%nat) by (destruct e; cbn [bump]; lia).
    assert (Hrest : In (r, k) tr' -> (n <= k)%nat).
    { intros Hin'. specialize (IH s1 (bump n e) sf' tr' Htr' r k Hin'). lia. }
    destruct (publishes e); subst tr; [|exact (Hrest Hin)].
    destruct Hin as [He|Hin]; [|exact (Hrest Hin)].
    injection He as _ Hk. subst k. exact Hle.
Qed.

Lemma run_trace_sorted : forall evs s n sf tr,
  run_trace s n evs = Some (sf, tr) ->
  forall i j r1 k1 r2 k2, (i <= j)%nat ->
    nth_error tr i = Some (r1, k1) -> nth_error tr j = Some (r2, k2) -> (k1 <= k2)%nat.
Proof.
  induction evs as [|e evs IH]; intros s n sf tr Htr i j r1 k1 r2 k2 Hij Hi Hj; cbn [run_trace] in Htr.
  - injection Htr as _ Htr. subst tr. destruct i; discriminate.
  - destruct (step s e) as [s1|]; [|discriminate].
    destruct (run_trace s1 (bump n e) evs) as [[sf' tr']|] eqn:Htr'; [|discriminate].
    injection Htr as _ Htr.
    destruct (publishes e); subst tr; [|exact (IH s1 (bump n e) sf' tr' Htr' i j r1 k1 r2 k2 Hij Hi Hj)].
    destruct i as [|i]; destruct j as [|j]; cbn [nth_error] in Hi, Hj.
    + injection Hi as _ Hi. injection Hj as _ Hj. lia.
    + injection Hi as _ Hi. subst k1. apply nth_error_In in Hj.
      exact (run_trace_ge evs s1 (bump n e) sf' tr' Htr' r2 k2 Hj).
    + lia.
    + apply (IH s1 (bump n e) sf' tr' Htr' i j r1 k1 r2 k2); [lia | exact Hi | exact Hj].
Qed.

(* C04 monotone: a root published later reflects at least as many batches *)
Theorem trace_monotone : forall evs pub,
  published evs = Some pub ->
  forall i j r1 k1 r2 k2, (i <= j)%nat ->
    nth_error pub i = Some (r1, k1) -> nth_error pub j = Some (r2, k2) -> (k1 <= k2)%nat.
Proof.
  intros evs pub Hpub i j r1 k1 r2 k2 Hij Hi Hj. unfold published in Hpub.
  destruct (run_trace init 0 evs) as [[sf tr]|] eqn:Htr; [|discriminate].
  injection Hpub as Hpub. subst pub.
  destruct i as [|i]; destruct j as [|j]; cbn [nth_error] in Hi, Hj.
  - injection Hi as _ Hi. injection Hj as _ Hj. lia.
  - injection Hi as _ Hi. subst k1. lia.
  - lia.
  - apply (run_trace_sorted evs init 0%nat sf tr Htr i j r1 k1 r2 k2); [lia | exact Hi | exact Hj].
Qed.

(* the last published root is the final root, with all batches *)
Lemma published_accepts : forall evs s, run init evs = Some s -> exists pub, published evs = Some pub.
Proof.
  intros evs s Hrun. unfold published. assert (H := run_trace_run evs init 0%nat).
  destruct (run_trace init 0 evs) as [[sf tr]|].
  - eexists. reflexivity.
  - congruence.
Qed.

(* ---------- Examples: the hypotheses are satisfiable on a non-trivial event list ---------- *)

(* two introductions (id 2 updated, internal op), a merge of both segments started, a third
   introduction deleting id 1 and updating id 3 while the merge runs, the merge finishing
   (its deletions re-applied through the history), then a persist *)
Definition ex_evs : list event :=
  [ EIntroduce 1 [(1, Some 10); (2, Some 11)] [];
    EIntroduce 2 [(2, Some 12); (3, Some 13)] [(7, Some 1)];
    EMergeStart false [(3, [1; 2])];
    EIntroduce 4 [(1, None); (3, Some 14)] [];
    EMergeFinish 0;
    EPersist [3; 4] ].

Definition ex_final : st :=
  mkSt [ mkSeg 4 [(3, 14)] [] true;
         mkSeg 3 [(1, 10); (2, 12); (3, 13)] [0%nat; 2%nat] true ]
       [(7, 1)] [] [4; 3; 2; 1] 5.

Example ex_runs : run init ex_evs = Some ex_final.
Proof. vm_compute. reflexivity. Qed.

Example ex_contents :
  map (root_lookup (root ex_final)) [1; 2; 3; 4] = [None; Some 12; Some 14; None]
  /\ root_live_count (root ex_final) = 2%nat.
Proof. vm_compute. split; reflexivity. Qed.

(* a second layout of the same history: one segment per batch, no merge, no persist *)
Definition ex_evs2 : list event :=
  [ EIntroduce 1 [(1, Some 10); (2, Some 11)] [];
    EIntroduce 2 [(2, Some 12); (3, Some 13)] [(7, Some 1)];
    EIntroduce 3 [(1, None); (3, Some 14)] [] ].

Example ex_layouts :
  exists s1 s2, run init ex_evs = Some s1 /\ run init ex_evs2 = Some s2
    /\ (forall d, replay (batches_of ex_evs) d = replay (batches_of ex_evs2) d)
    /\ root s1 <> root s2.
Proof.
  eexists. eexists. split; [vm_compute; reflexivity|]. split; [vm_compute; reflexivity|].
  split; [intros d; reflexivity | discriminate].
Qed.

(* merge + persist after a prefix, with no introduction in between *)
Example ex_merge_persist_invisible :
  exists s s', run init (firstn 4 ex_evs) = Some s /\ run s (skipn 4 ex_evs) = Some s'
    /\ batches_of (skipn 4 ex_evs) = [] /\ root s <> root s'.
Proof.
  eexists. eexists. split; [vm_compute; reflexivity|]. split; [vm_compute; reflexivity|].
  split; [reflexivity | discriminate].
Qed.

(* a reachable state with a merge in flight: captured segment 1 has since lost its last live
   document and is gone from the root; captured segment 2 is still there with one more
   deletion than at capture time *)
Example ex_merge_in_flight :
  exists s m, run init (firstn 4 ex_evs) = Some s /\ nth_error (inflight s) 0 = Some m
    /\ map (fun c => (sid c, sdel c)) (flat_map t_caps (m_tasks m)) = [(1, [1%nat]); (2, [])]
    /\ map (fun c => (sid c, sdel c)) (root s) = [(2, [1%nat]); (4, [])].
Proof.
  eexists. eexists. split; [vm_compute; reflexivity|]. split; [reflexivity|].
  split; reflexivity.
Qed.

Example ex_published :
  option_map (map snd) (published ex_evs) = Some [0; 1; 2; 3; 3; 3]%nat.
Proof. vm_compute. reflexivity. Qed.

(* two merges in flight at once over disjoint segments, one of whose captured segments is
   fully obsoleted (and dropped from the root) before its merge finishes, and a merge whose
   result is skipped because nothing live remains *)
Definition ex_evs3 : list event :=
  [ EIntroduce 1 [(1, Some 1)] [];
    EIntroduce 2 [(2, Some 2)] [];
    EIntroduce 3 [(3, Some 3)] [];
    EIntroduce 4 [(4, Some 4)] [];
    EMergeStart false [(5, [1; 2])];
    EMergeStart false [(6, [3; 4])];
    EIntroduce 7 [(1, Some 5)] [];          (* segment 1 fully obsoleted: dropped from root *)
    EIntroduce 8 [(3, None); (4, None)] []; (* segments 3 and 4 both dropped *)
    EMergeFinish 1;                         (* merged segment 6 skipped: nothing live *)
    EMergeFinish 0 ].                       (* segment 5 = [1;2] with doc 0 deleted *)

Example ex3_runs :
  option_map (fun s => (map sid (root s), map (root_lookup (root s)) [1; 2; 3; 4]))
             (run init ex_evs3)
  = Some ([7; 5], [Some 5; Some 2; None; None]).
Proof. vm_compute. reflexivity. Qed.

(* batch partition: one op list, two partitions *)
Example ex_partition :
  let ops := [(1, Some 1); (2, Some 2); (1, None); (1, Some 3); (2, None)] in
  map (replay (map collapse [[(1, Some 1); (2, Some 2); (1, None)]; [(1, Some 3); (2, None)]])) [1; 2]
  = map (spec_apply_ops ops (fun _ => None)) [1; 2]
  /\ collapse ops = [(1, Some 3); (2, None)].
Proof. vm_compute. split; reflexivity. Qed.
