(* Scorch engine — persistence proofs, part 8: the segment registry.  In every reachable state
   [d_segdocs] records, for every segment of the root, exactly its documents; a registered id is
   an allocated id; ids of merges in flight are not registered yet.  Consequences: the documents
   of a registered id never change while it stays registered (so a committed record keeps
   denoting the same root), and a freshly allocated segment id is never an id named by a
   committed record or by the open transaction. *)
From Coq Require Import ZArith List Bool Arith Lia Permutation.
From Verif Require Import Scorch.Model Scorch.ProofsCore1 Scorch.ProofsCore2 Scorch.ProofsCore3
  Scorch.Disk Scorch.ProofsDisk1 Scorch.ProofsDisk3 Scorch.ProofsDisk4 Scorch.ProofsDisk5.
Import ListNotations.
Local Open Scope Z_scope.

Record SDInv (d : dstate) : Prop := mkSDInv {
  sd_root : forall s, In s (root (d_core d)) -> assocZ (sid s) (d_segdocs d) = Some (sdocs s);
  sd_used : forall k, In k (map fst (d_segdocs d)) -> In k (used_sids (d_core d));
  sd_tnew : forall x, In x (all_tnew (inflight (d_core d))) -> ~ In x (map fst (d_segdocs d));
  sd_files : forall f, In f (d_files d) -> In f (used_sids (d_core d))
}.

Lemma SDInv_init : SDInv dinit.
Proof. constructor; cbn; intros; tauto. Qed.

(* ---------- assocZ / register_segs ---------- *)

Lemma assocZ_notin_None : forall {A} k (l : list (Z * A)), ~ In k (map fst l) -> assocZ k l = None.
Proof.
  intros A k l H. destruct (assocZ k l) as [v|] eqn:E; [|reflexivity].
  exfalso. apply H. exact (assocZ_In_keys k v l E).
Qed.

Lemma register_segs_keys : forall r sd k,
  In k (map fst (register_segs r sd)) -> In k (map fst sd) \/ In k (map sid r).
Proof.
  unfold register_segs. induction r as [|s r IH]; intros sd k H; cbn [fold_left map] in *.
  - left. exact H.
  - apply IH in H. destruct H as [H|H]; [|right; right; exact H].
    destruct (assocZ (sid s) sd); [left; exact H|].
    cbn [map fst] in H. destruct H as [H|H]; [right; left; exact H | left; exact H].
Qed.

Lemma register_segs_consistent : forall r sd,
  NoDup (map sid r) ->
  (forall s, In s r -> assocZ (sid s) sd = None \/ assocZ (sid s) sd = Some (sdocs s)) ->
  forall s, In s r -> assocZ (sid s) (register_segs r sd) = Some (sdocs s).
Proof.
  induction r as [|s0 r IH]; intros sd Hnd Hc s Hs.
  - destruct Hs.
  - cbn [map] in Hnd. apply NoDup_cons_iff in Hnd. destruct Hnd as [Hn0 Hnd].
    change (register_segs (s0 :: r) sd)
      with (register_segs r (match assocZ (sid s0) sd with Some _ => sd | None => (sid s0, sdocs s0) :: sd end)).
    set (sd1 := match assocZ (sid s0) sd with Some _ => sd | None => (sid s0, sdocs s0) :: sd end).
    assert (H0 : assocZ (sid s0) sd1 = Some (sdocs s0)).
    { unfold sd1. destruct (Hc s0 (or_introl eq_refl)) as [H|H]; rewrite H.
      - apply assocZ_cons_eq.
      - exact H. }
    destruct Hs as [Hs|Hs].
    + subst s. apply register_segs_keep. exact H0.
    + apply IH; [exact Hnd | | exact Hs].
      intros s' Hs'. assert (Hne : sid s0 <> sid s').
      { intros He. apply Hn0. rewrite He. apply in_map. exact Hs'. }
      unfold sd1. destruct (assocZ (sid s0) sd).
      * exact (Hc s' (or_intror Hs')).
      * rewrite assocZ_cons_ne by exact Hne. exact (Hc s' (or_intror Hs')).
Qed.

(* ---------- what a core step does to ids ---------- *)

Lemma step_used_mono : forall s e s', step s e = Some s' ->
  forall x, In x (used_sids s) -> In x (used_sids s').
Proof.
  intros s e s' H x Hx. destruct e as [newsid b iops | file groups | k | ids]; cbn [step] in H.
  - match type of H with (if ?c then _ else _) = _ => destruct c end; [|discriminate].
    injection H as H. subst s'. cbn [used_sids].
    destruct (match batch_updates b with [] => false | _ => true end); [right|]; exact Hx.
  - match type of H with (if ?c then _ else _) = _ => destruct c end; [|discriminate].
    injection H as H. subst s'. cbn [used_sids]. apply in_or_app. right. exact Hx.
  - destruct (nth_error (inflight s) k); [|discriminate]. injection H as H. subst s'. exact Hx.
  - injection H as H. subst s'. exact Hx.
Qed.

Lemma step_root_cases : forall s e s', step s e = Some s' ->
  forall x, In x (root s') ->
    (exists cur, In cur (root s) /\ sid x = sid cur /\ sdocs x = sdocs cur)
    \/ ~ In (sid x) (used_sids s)
    \/ In (sid x) (all_tnew (inflight s)).
Proof.
  intros s e s' H x Hx. destruct e as [newsid b iops | file groups | k | ids]; cbn [step] in H.
  - destruct (nodupZ (map fst b)); cbn [andb] in H; [|discriminate].
    set (has_upd := match batch_updates b with [] => false | _ => true end) in *.
    destruct (negb has_upd || negb (mem_id newsid (used_sids s))) eqn:Hfresh; [|discriminate].
    injection H as H. subst s'. cbn [root] in Hx.
    apply In_introduce_root in Hx. destruct Hx as [[Hne He]|[cur [Hcur He]]].
    + right. left. subst x. cbn [sid]. apply has_upd_true in Hne. fold has_upd in Hne.
      rewrite Hne in Hfresh. cbn [negb orb] in Hfresh. apply negb_true_iff in Hfresh.
      apply mem_id_false. exact Hfresh.
    + left. exists cur. subst x. split; [exact Hcur|]. split; reflexivity.
  - match type of H with (if ?c then _ else _) = _ => destruct c end; [|discriminate].
    injection H as H. subst s'. left. exists x. split; [exact Hx|]. split; reflexivity.
  - destruct (nth_error (inflight s) k) as [m|] eqn:Hk; [|discriminate].
    injection H as H. subst s'. cbn [root] in Hx. apply In_merge_root in Hx.
    destruct Hx as [Hx|Hx].
    + left. exists x. split; [exact Hx|]. split; reflexivity.
    + right. right. exact (In_all_tnew _ m _ (nth_error_In _ _ Hk) Hx).
  - injection H as H. subst s'. cbn [root] in Hx. unfold introduce_persist_root in Hx.
    apply in_map_iff in Hx. destruct Hx as [cur [He Hcur]]. left. exists cur.
    split; [exact Hcur|]. subst x. destruct (mem_id (sid cur) ids); split; reflexivity.
Qed.

Lemma step_tnew_cases : forall s e s', step s e = Some s' ->
  forall x, In x (all_tnew (inflight s')) ->
    In x (all_tnew (inflight s)) \/ ~ In x (used_sids s).
Proof.
  intros s e s' H x Hx. destruct e as [newsid b iops | file groups | k | ids]; cbn [step] in H.
  - match type of H with (if ?c then _ else _) = _ => destruct c end; [|discriminate].
    injection H as H. subst s'. left. exact Hx.
  - match type of H with (if ?c then _ else _) = _ => destruct c eqn:Hc end; [|discriminate].
    injection H as H. subst s'. cbn [inflight] in Hx. unfold all_tnew in Hx.
    rewrite flat_map_app in Hx. apply in_app_or in Hx. destruct Hx as [Hx|Hx]; [left; exact Hx|].
    right. cbn [flat_map m_tasks] in Hx. rewrite app_nil_r, map_tnew_mk_tasks in Hx.
    apply andb_true_iff in Hc. destruct Hc as [_ Hunused].
    exact (forallb_notin _ _ Hunused x Hx).
  - destruct (nth_error (inflight s) k) as [m|] eqn:Hk; [|discriminate].
    injection H as H. subst s'. cbn [inflight] in Hx. left.
    destruct (remove_nth_split (inflight s) k m Hk) as [l1 [l2 [Hl Hrm]]].
    rewrite Hrm in Hx. rewrite Hl. unfold all_tnew in *. rewrite flat_map_app in *.
    apply in_app_or in Hx. apply in_or_app. destruct Hx as [Hx|Hx]; [left; exact Hx|].
    right. cbn [flat_map]. apply in_or_app. right. exact Hx.
  - injection H as H. subst s'. left. exact Hx.
Qed.

(* ---------- preservation ---------- *)

Lemma SDInv_frame : forall d d',
  SDInv d -> d_segdocs d' = d_segdocs d ->
  (d_core d' = d_core d \/
   (root (d_core d') = [] /\ inflight (d_core d') = [] /\ used_sids (d_core d') = used_sids (d_core d))) ->
  (forall f, In f (d_files d') -> In f (d_files d) \/ In f (used_sids (d_core d))) ->
  SDInv d'.
Proof.
  intros d d' S Hsd [Hc|[Hr [Hi Hu]]] Hf; constructor; rewrite ?Hsd.
  - rewrite Hc. exact (sd_root d S).
  - rewrite Hc. exact (sd_used d S).
  - rewrite Hc. exact (sd_tnew d S).
  - rewrite Hc. intros f Hin. destruct (Hf f Hin) as [H|H]; [exact (sd_files d S f H) | exact H].
  - rewrite Hr. intros s [].
  - rewrite Hu. exact (sd_used d S).
  - rewrite Hi. intros x [].
  - rewrite Hu. intros f Hin. destruct (Hf f Hin) as [H|H]; [exact (sd_files d S f H) | exact H].
Qed.

Lemma SDInv_core : forall ef d e d',
  DInv ef d -> SDInv d -> dstep d (DCore e) = Some d' -> SDInv d'.
Proof.
  intros ef d e d' I S H. cbn [dstep] in H.
  destruct (d_up d) eqn:Hup; cbn [negb] in H; [|discriminate].
  destruct (step (d_core d) e) as [s'|] eqn:Hs; [|discriminate].
  match type of H with (if ?c then _ else _) = _ => destruct c end; [|discriminate].
  injection H as H. subst d'.
  assert (Ic' := Inv_step _ _ _ (di_core ef d I Hup) Hs).
  constructor; cbn [d_core d_segdocs d_files].
  - apply register_segs_consistent; [exact (inv_sids_nodup _ Ic')|].
    intros s Hin. destruct (step_root_cases _ _ _ Hs s Hin) as [[cur [Hcur [H1 H2]]]|[Hn|Ht]].
    + right. rewrite H1, H2. exact (sd_root d S cur Hcur).
    + left. apply assocZ_notin_None. intros Hk. exact (Hn (sd_used d S _ Hk)).
    + left. apply assocZ_notin_None. exact (sd_tnew d S _ Ht).
  - intros k Hk. apply register_segs_keys in Hk. destruct Hk as [Hk|Hk].
    + exact (step_used_mono _ _ _ Hs k (sd_used d S k Hk)).
    + exact (inv_sids_used _ Ic' k Hk).
  - intros x Hx Hk. apply register_segs_keys in Hk. destruct Hk as [Hk|Hk].
    + destruct (step_tnew_cases _ _ _ Hs x Hx) as [Ht|Hn].
      * exact (sd_tnew d S x Ht Hk).
      * exact (Hn (sd_used d S x Hk)).
    + exact (inv_tnew_root _ Ic' x Hx Hk).
  - intros f Hf. exact (step_used_mono _ _ _ Hs f (sd_files d S f Hf)).
Qed.

Lemma rec_root_In : forall sd segs rr s, rec_root sd segs = Some rr -> In s rr ->
  assocZ (sid s) sd = Some (sdocs s) /\ In (sid s) (map fst segs).
Proof.
  intros sd. induction segs as [|[x del] segs IH]; intros rr s Hr Hs; cbn [rec_root] in Hr.
  - injection Hr as Hr. subst rr. destruct Hs.
  - destruct (assocZ x sd) as [docs|] eqn:E; [|discriminate].
    destruct (rec_root sd segs) as [r|]; [|discriminate].
    injection Hr as Hr. subst rr. destruct Hs as [Hs|Hs].
    + subst s. cbn [sid sdocs map fst]. split; [exact E | left; reflexivity].
    + destruct (IH r s eq_refl Hs) as [H1 H2]. split; [exact H1 | right; exact H2].
Qed.

Lemma In_filter_keys : forall {A} (f : Z -> bool) k (l : list (Z * A)),
  In k (map fst (filter (fun p => f (fst p)) l)) -> f k = true /\ In k (map fst l).
Proof.
  intros A f k l H. apply in_map_iff in H. destruct H as [p [Hp Hin]]. apply filter_In in Hin.
  destruct Hin as [Hin Hf]. subst k. split; [exact Hf | apply in_map; exact Hin].
Qed.

Lemma SDInv_recover : forall ef d d',
  DInv ef d -> SDInv d -> dstep d DRecover = Some d' -> SDInv d'.
Proof.
  intros ef d d' I S H.
  destruct (recover_shape d d' H) as [n [r [Hup [En [Hr [Hfiles Hd]]]]]]. subst d'.
  assert (Hn := newest_In _ _ En).
  unfold recovered. constructor; cbn [d_core d_segdocs d_files root inflight used_sids all_tnew flat_map].
  - intros s Hs. destruct (rec_root_In _ _ _ s Hr Hs) as [H1 H2].
    apply (Permutation_in _ (sort_segs_named (br_segs n))) in H2. fold (named_by n) in H2.
    rewrite (assocZ_filter_keep (fun z => mem_id z (named_files d))); [exact H1|].
    apply mem_id_In. apply In_named_files. split; [exact (Hfiles _ H2)|].
    exists n. split; [exact Hn | exact H2].
  - intros k Hk. apply (In_filter_keys (fun z => mem_id z (named_files d))) in Hk.
    apply mem_id_In. exact (proj1 Hk).
  - intros x [].
  - intros f Hf. exact Hf.
Qed.

Lemma SDInv_step : forall ef d ev d',
  DInv ef d -> SDInv d -> dstep d ev = Some d' -> SDInv d'.
Proof.
  intros ef d ev d' I S H. destruct ev.
  - exact (SDInv_core ef d e d' I S H).
  - need_up H Hup. injection H as H. subst d'.
    apply (SDInv_frame d); [exact S | reflexivity | left; reflexivity |].
    cbn [d_files]. intros f Hf. destruct (mem_id sid (d_files d)); [left; exact Hf|].
    destruct Hf as [Hf|Hf]; [right; subst f; apply mem_id_In; exact Halloc | left; exact Hf].
  - need_up H Hup. destruct (d_tx d); [discriminate|].
    destruct (assocZ (br_epoch r) (d_pub d)) as [[? ?]|]; [|discriminate].
    destruct (rec_root (d_segdocs d) (br_segs r)); [|discriminate].
    match type of H with (if ?c then _ else _) = _ => destruct c end; [|discriminate].
    injection H as H. subst d'.
    apply (SDInv_frame d); [exact S | reflexivity | left; reflexivity | intros f Hf; left; exact Hf].
  - need_up H Hup. destruct (d_tx d); [|discriminate].
    match type of H with (if ?c then _ else _) = _ => destruct c end; [|discriminate].
    injection H as H. subst d'.
    apply (SDInv_frame d); [exact S | reflexivity | left; reflexivity | intros f Hf; left; exact Hf].
  - need_up H Hup.
    match type of H with (if ?c then _ else _) = _ => destruct c end; [|discriminate].
    injection H as H. subst d'.
    apply (SDInv_frame d); [exact S | reflexivity | left; reflexivity | intros f Hf; left; exact Hf].
  - need_up H Hup. destruct (newest (d_bolt d)); [|discriminate].
    match type of H with (if ?c then _ else _) = _ => destruct c end; [discriminate|].
    injection H as H. subst d'.
    apply (SDInv_frame d); [exact S | reflexivity | left; reflexivity | intros f Hf; left; exact Hf].
  - need_up H Hup.
    match type of H with (if ?c then _ else _) = _ => destruct c end; [discriminate|].
    injection H as H. subst d'.
    apply (SDInv_frame d); [exact S | reflexivity | left; reflexivity |].
    cbn [d_files]. intros f Hf. apply filter_In in Hf. left. exact (proj1 Hf).
  - (* DMergeAbort *)
    need_up H Hup. injection H as H. subst d'.
    constructor; cbn [d_core d_segdocs d_files root inflight used_sids].
    + exact (sd_root d S).
    + exact (sd_used d S).
    + intros x Hx. apply (sd_tnew d S). unfold all_tnew in *. exact (In_flat_map_filter _ _ _ x Hx).
    + exact (sd_files d S).
  - need_up H Hup. injection H as H. subst d'.
    apply (SDInv_frame d); [exact S | reflexivity | left; reflexivity | intros f Hf; left; exact Hf].
  - need_up H Hup. injection H as H. subst d'.
    apply (SDInv_frame d); [exact S | reflexivity | left; reflexivity | intros f Hf; left; exact Hf].
  - cbn [dstep] in H. injection H as H. subst d'.
    apply (SDInv_frame d); [exact S | reflexivity | right; repeat split; reflexivity
                           | intros f Hf; left; exact Hf].
  - exact (SDInv_recover ef d d' I S H).
  - cbn [dstep] in H. destruct (d_up d); [discriminate|].
    match type of H with (if ?c then _ else _) = _ => destruct c end; [|discriminate].
    injection H as H. subst d'.
    apply (SDInv_frame d); [exact S | reflexivity | left; reflexivity | intros f Hf; left; exact Hf].
Qed.

Lemma SDInv_run : forall evs ef d d',
  DInv ef d -> SDInv d -> drun d evs = Some d' -> SDInv d'.
Proof.
  induction evs as [|ev evs IH]; intros ef d d' I S Hrun; cbn [drun] in Hrun.
  - injection Hrun as Hrun. subst d'. exact S.
  - destruct (dstep d ev) as [d1|] eqn:Hs; [|discriminate].
    exact (IH _ d1 d' (DInv_step ef d ev d1 I Hs) (SDInv_step ef d ev d1 I S Hs) Hrun).
Qed.

Theorem reachable_SDInv : forall evs d, drun dinit evs = Some d -> SDInv d.
Proof. intros evs d Hrun. exact (SDInv_run evs [] dinit d DInv_init SDInv_init Hrun). Qed.

(* ---------- consequences ---------- *)

(* the registry agrees with every segment of the running root *)
Theorem segdocs_consistent : forall evs d,
  drun dinit evs = Some d ->
  forall s, In s (root (d_core d)) -> assocZ (sid s) (d_segdocs d) = Some (sdocs s).
Proof. intros evs d Hrun. exact (sd_root d (reachable_SDInv evs d Hrun)). Qed.

(* the bucket the persister writes for the current root — its segments with their deleted sets —
   denotes a root with exactly the current live documents *)
Lemma rec_root_of_root : forall sd r,
  (forall s, In s r -> assocZ (sid s) sd = Some (sdocs s)) ->
  rec_root sd (map (fun s => (sid s, sdel s)) r)
  = Some (map (fun s => mkSeg (sid s) (sdocs s) (sdel s) true) r).
Proof.
  intros sd. induction r as [|s r IH]; intros H; cbn [map rec_root].
  - reflexivity.
  - rewrite (H s (or_introl eq_refl)), IH; [reflexivity|].
    intros s' Hs'. apply H. right. exact Hs'.
Qed.

Lemma root_live_refile : forall r,
  ProofsCore1.root_live (map (fun s => mkSeg (sid s) (sdocs s) (sdel s) true) r) = ProofsCore1.root_live r.
Proof.
  induction r as [|s r IH]; cbn [map ProofsCore1.root_live flat_map].
  - reflexivity.
  - fold (ProofsCore1.root_live r).
    fold (ProofsCore1.root_live (map (fun s => mkSeg (sid s) (sdocs s) (sdel s) true) r)).
    rewrite IH. reflexivity.
Qed.

Lemma pairs_eqb_refl : forall l, pairs_eqb l l = true.
Proof.
  induction l as [|[x y] l IH]; cbn [pairs_eqb]; [reflexivity|].
  rewrite !Z.eqb_refl, IH. reflexivity.
Qed.

Theorem root_record_denotes_root : forall evs d,
  drun dinit evs = Some d ->
  exists rr, rec_root (d_segdocs d) (map (fun s => (sid s, sdel s)) (root (d_core d))) = Some rr
    /\ ProofsCore1.root_live rr = ProofsCore1.root_live (root (d_core d))
    /\ same_contents rr (root (d_core d)) = true.
Proof.
  intros evs d Hrun. eexists. split.
  - apply rec_root_of_root. exact (segdocs_consistent evs d Hrun).
  - split; [apply root_live_refile|].
    unfold same_contents.
    assert (Hrl : Disk.root_live (map (fun s => mkSeg (sid s) (sdocs s) (sdel s) true) (root (d_core d)))
                  = Disk.root_live (root (d_core d))) by exact (root_live_refile _).
    rewrite Hrl. apply pairs_eqb_refl.
Qed.

(* no_name_reuse (I6): a freshly allocated segment id is not the name of any file on disk, is not
   registered, hence not named by a committed record or by the open transaction, and is not the
   id of a root segment or of a merge in flight.  (The first clause needs the enabling condition
   of [DFileWritten]: only allocated ids are ever written.) *)
Theorem no_name_reuse : forall evs d newsid b io d',
  drun dinit evs = Some d ->
  dstep d (DCore (EIntroduce newsid b io)) = Some d' -> batch_updates b <> [] ->
  ~ In newsid (d_files d)
  /\ ~ In newsid (map fst (d_segdocs d))
  /\ (forall r, In r (d_bolt d) -> ~ In newsid (named_by r))
  /\ (forall r, d_tx d = Some r -> ~ In newsid (named_by r))
  /\ ~ In newsid (map sid (root (d_core d)))
  /\ ~ In newsid (inflight_news (d_core d)).
Proof.
  intros evs d newsid b io d' Hrun H Hne.
  assert (I := reachable_DInv evs d Hrun). assert (S := reachable_SDInv evs d Hrun).
  cbn [dstep] in H. destruct (d_up d) eqn:Hup; cbn [negb] in H; [|discriminate].
  destruct (step (d_core d) (EIntroduce newsid b io)) as [s'|] eqn:Hs; [|discriminate].
  assert (Ic := di_core _ d I Hup).
  assert (Hfresh : ~ In newsid (used_sids (d_core d))).
  { cbn [step] in Hs. destruct (nodupZ (map fst b)); cbn [andb] in Hs; [|discriminate].
    set (has_upd := match batch_updates b with [] => false | _ => true end) in *.
    destruct (negb has_upd || negb (mem_id newsid (used_sids (d_core d)))) eqn:Hf; [|discriminate].
    apply has_upd_true in Hne. fold has_upd in Hne. rewrite Hne in Hf. cbn [negb orb] in Hf.
    apply negb_true_iff in Hf. apply mem_id_false. exact Hf. }
  assert (Hreg : ~ In newsid (map fst (d_segdocs d))).
  { intros Hk. exact (Hfresh (sd_used d S _ Hk)). }
  assert (Hnamed : forall r rr, rec_root (d_segdocs d) (br_segs r) = Some rr -> ~ In newsid (named_by r)).
  { intros r rr Hrr Hin. apply Hreg. unfold named_by in Hin.
    clear - Hrr Hin. revert rr Hrr Hin. induction (br_segs r) as [|[x del] segs IH]; intros rr Hrr Hin.
    - destruct Hin.
    - cbn [rec_root] in Hrr. destruct (assocZ x (d_segdocs d)) as [docs|] eqn:E; [|discriminate].
      destruct (rec_root (d_segdocs d) segs) as [r0|]; [|discriminate].
      cbn [map fst] in Hin. destruct Hin as [Hin|Hin].
      + subst x. exact (assocZ_In_keys _ _ _ E).
      + exact (IH r0 eq_refl Hin). }
  split; [intros Hf; exact (Hfresh (sd_files d S _ Hf))|].
  split; [exact Hreg|]. split; [|split; [|split]].
  - intros r Hr. destruct (di_bolt _ d I r Hr) as [_ [_ [_ [rr [k [Hrr _]]]]]]. exact (Hnamed r rr Hrr).
  - intros r Hr. destruct (di_tx _ d I r Hr) as [_ [_ [_ [rr [k [Hrr _]]]]]]. exact (Hnamed r rr Hrr).
  - intros Hin. exact (Hfresh (inv_sids_used _ Ic _ Hin)).
  - intros Hin. exact (Hfresh (inv_tnew_used _ Ic _ Hin)).
Qed.
