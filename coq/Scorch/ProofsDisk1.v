(* Scorch engine — persistence proofs, part 1: definitions for the proofs about Scorch/Disk.v
   (effective batch list, the invariant [DInv]) and the list library.

   History: an earlier [dstep] accepted a [DPrepare] for a STALE epoch (one larger than the
   current root epoch, left in the ghost [d_pub] from before a recovery) and a record naming the
   same segment twice, and [DCopyEnd] released all references of a segment at once; each broke a
   theorem below.  The three witnesses are kept in ProofsDisk7.v as regression examples (now
   rejected by [dstep]). *)
From Coq Require Import ZArith List Bool Arith Lia Permutation.
From Verif Require Import Scorch.Model Scorch.ProofsCore1 Scorch.ProofsCore2 Scorch.ProofsCore3
  Scorch.Disk.
Import ListNotations.
Local Open Scope Z_scope.

(* [Disk.root_live] and [ProofsCore1.root_live] are the same function *)
Lemma root_live_bridge : forall r, Disk.root_live r = ProofsCore1.root_live r.
Proof. reflexivity. Qed.

(* ---------- the batches in effect (mirrors DiskCorr.x_eff) ---------- *)

Definition eff_step (d : dstate) (acc : list batch) (ev : devent) : list batch :=
  match ev with
  | DCore (EIntroduce _ b _) => acc ++ [b]
  | DRecover => firstn (covered d) acc
  | _ => acc
  end.

Fixpoint eff_from (d : dstate) (acc : list batch) (evs : list devent) : list batch :=
  match evs with
  | [] => acc
  | ev :: evs' =>
      match dstep d ev with
      | Some d' => eff_from d' (eff_step d acc ev) evs'
      | None => eff_step d acc ev
      end
  end.

Definition eff (evs : list devent) : list batch := eff_from dinit [] evs.

(* ---------- the invariant ---------- *)

Fixpoint bsorted (l : list brec) : Prop :=
  match l with
  | [] => True
  | x :: l' => (forall y, In y l' -> br_epoch x < br_epoch y) /\ bsorted l'
  end.

Definition pub_ok (ef : list batch) (nb : list (Z * nat)) (e : Z)
                  (ri : list seg * list (Z * Z)) : Prop :=
  exists k, assocZ e nb = Some k
    /\ (forall id, root_lookup (fst ri) id = replay (firstn k ef) id)
    /\ NoDup (map fst (ProofsCore1.root_live (fst ri)))
    /\ NoDup (map fst (snd ri)).

Definition rec_ok (ef : list batch) (ep : Z) (nb : list (Z * nat))
                  (sd : list (Z * list (Z * Z))) (r : brec) : Prop :=
  br_epoch r <= ep /\ NoDup (named_by r) /\ NoDup (map fst (br_int r)) /\
  exists rr k, rec_root sd (br_segs r) = Some rr
    /\ assocZ (br_epoch r) nb = Some k
    /\ (forall id, root_lookup rr id = replay (firstn k ef) id)
    /\ NoDup (map fst (ProofsCore1.root_live rr)).

Record DInv (ef : list batch) (d : dstate) : Prop := mkDInv {
  di_batches : d_batches d = length ef;
  di_core : d_up d = true -> Inv (d_core d);
  di_root : d_up d = true -> forall id, root_lookup (root (d_core d)) id = replay ef id;
  di_i5 : d_up d = true -> forall id, In id (file_segs (root (d_core d))) -> In id (d_files d);
  di_pub : forall e ri, e <= epoch (d_core d) -> assocZ e (d_pub d) = Some ri ->
                        pub_ok ef (d_nb d) e ri;
  di_mono : forall e1 e2 k1 k2, e1 <= e2 -> e2 <= epoch (d_core d) ->
              assocZ e1 (d_nb d) = Some k1 -> assocZ e2 (d_nb d) = Some k2 -> (k1 <= k2)%nat;
  di_nble : forall e k, e <= epoch (d_core d) -> assocZ e (d_nb d) = Some k -> (k <= length ef)%nat;
  di_bolt : forall r, In r (d_bolt d) -> rec_ok ef (epoch (d_core d)) (d_nb d) (d_segdocs d) r;
  di_named : forall r id, In r (d_bolt d) -> In id (named_by r) -> In id (d_files d);
  di_tx : forall r, d_tx d = Some r -> rec_ok ef (epoch (d_core d)) (d_nb d) (d_segdocs d) r;
  di_sorted : bsorted (d_bolt d)
}.

(* ---------- assocZ ---------- *)

Lemma assocZ_cons : forall {A} k k' (v : A) l,
  assocZ k ((k', v) :: l) = if k' =? k then Some v else assocZ k l.
Proof. reflexivity. Qed.

Lemma assocZ_cons_ne : forall {A} k k' (v : A) l, k' <> k -> assocZ k ((k', v) :: l) = assocZ k l.
Proof.
  intros A k k' v l H. cbn [assocZ]. destruct (k' =? k) eqn:E; [|reflexivity].
  apply Z.eqb_eq in E. contradiction.
Qed.

Lemma assocZ_cons_eq : forall {A} k (v : A) l, assocZ k ((k, v) :: l) = Some v.
Proof. intros. cbn [assocZ]. rewrite Z.eqb_refl. reflexivity. Qed.

Lemma assocZ_filter_keep : forall {A} (f : Z -> bool) k (l : list (Z * A)),
  f k = true -> assocZ k (filter (fun p => f (fst p)) l) = assocZ k l.
Proof.
  intros A f k l Hk. induction l as [|[k' v] l IH]; cbn [filter fst assocZ].
  - reflexivity.
  - destruct (k' =? k) eqn:E.
    + apply Z.eqb_eq in E. subst k'. rewrite Hk. cbn [assocZ]. rewrite Z.eqb_refl. reflexivity.
    + destruct (f k'); [cbn [assocZ]; rewrite E|]; exact IH.
Qed.

Lemma assocZ_In_keys : forall {A} k (v : A) l, assocZ k l = Some v -> In k (map fst l).
Proof.
  intros A k v l. induction l as [|[k' w] l IH]; cbn [assocZ map fst In].
  - discriminate.
  - destruct (k' =? k) eqn:E.
    + intros _. left. apply Z.eqb_eq. exact E.
    + intros H. right. exact (IH H).
Qed.

Lemma assocZ_None_keys : forall {A} k (l : list (Z * A)), assocZ k l = None -> ~ In k (map fst l).
Proof.
  intros A k l. induction l as [|[k' w] l IH]; cbn [assocZ map fst In].
  - intros _ [].
  - destruct (k' =? k) eqn:E; [discriminate|].
    intros H [He|Hin]; [subst k'; rewrite Z.eqb_refl in E; discriminate | exact (IH H Hin)].
Qed.

(* ---------- register_segs / rec_root ---------- *)

Lemma register_segs_keep : forall r sd k v,
  assocZ k sd = Some v -> assocZ k (register_segs r sd) = Some v.
Proof.
  unfold register_segs. induction r as [|s r IH]; intros sd k v H; cbn [fold_left].
  - exact H.
  - apply IH. destruct (assocZ (sid s) sd) eqn:E; [exact H|].
    cbn [assocZ]. destruct (sid s =? k) eqn:Ek; [|exact H].
    apply Z.eqb_eq in Ek. rewrite Ek in E. rewrite E in H. discriminate.
Qed.

Lemma rec_root_ext : forall sd sd' segs,
  (forall x, In x (map fst segs) -> assocZ x sd' = assocZ x sd) ->
  rec_root sd' segs = rec_root sd segs.
Proof.
  intros sd sd'. induction segs as [|[x del] segs IH]; intros H; cbn [rec_root].
  - reflexivity.
  - rewrite (H x (or_introl eq_refl)), IH; [reflexivity|].
    intros y Hy. apply H. right. exact Hy.
Qed.

Lemma rec_root_mono : forall sd sd' segs rr,
  (forall k v, assocZ k sd = Some v -> assocZ k sd' = Some v) ->
  rec_root sd segs = Some rr -> rec_root sd' segs = Some rr.
Proof.
  intros sd sd' segs. induction segs as [|[x del] segs IH]; intros rr H Hr; cbn [rec_root] in *.
  - exact Hr.
  - destruct (assocZ x sd) as [docs|] eqn:E; [|discriminate].
    destruct (rec_root sd segs) as [r|] eqn:Er; [|discriminate].
    rewrite (H x docs E), (IH r H eq_refl). exact Hr.
Qed.

Lemma rec_root_sids : forall sd segs rr, rec_root sd segs = Some rr -> map sid rr = map fst segs.
Proof.
  intros sd. induction segs as [|[x del] segs IH]; intros rr Hr; cbn [rec_root] in Hr.
  - injection Hr as Hr. subst rr. reflexivity.
  - destruct (assocZ x sd) as [docs|]; [|discriminate].
    destruct (rec_root sd segs) as [r|]; [|discriminate].
    injection Hr as Hr. subst rr. cbn [map sid fst]. rewrite (IH r eq_refl). reflexivity.
Qed.

Lemma rec_root_file_segs : forall sd segs rr, rec_root sd segs = Some rr -> file_segs rr = map fst segs.
Proof.
  intros sd. unfold file_segs. induction segs as [|[x del] segs IH]; intros rr Hr; cbn [rec_root] in Hr.
  - injection Hr as Hr. subst rr. reflexivity.
  - destruct (assocZ x sd) as [docs|]; [|discriminate].
    destruct (rec_root sd segs) as [r|]; [|discriminate].
    injection Hr as Hr. subst rr. cbn [filter sfile map sid fst]. rewrite (IH r eq_refl). reflexivity.
Qed.

(* ---------- recovery loads the segments of a record in ascending id order ---------- *)

Lemma ins_seg_perm : forall p l, Permutation (ins_seg p l) (p :: l).
Proof.
  intros p. induction l as [|q l IH]; cbn [ins_seg].
  - apply Permutation_refl.
  - destruct (fst p <=? fst q).
    + apply Permutation_refl.
    + apply perm_trans with (q :: p :: l); [apply perm_skip; exact IH | apply perm_swap].
Qed.

Lemma sort_segs_perm : forall l, Permutation (sort_segs l) l.
Proof.
  unfold sort_segs. induction l as [|p l IH]; cbn [fold_right].
  - apply Permutation_refl.
  - apply perm_trans with (p :: fold_right ins_seg [] l); [apply ins_seg_perm | apply perm_skip; exact IH].
Qed.

Lemma rec_root_perm : forall sd segs segs',
  Permutation segs segs' ->
  forall rr, rec_root sd segs = Some rr -> exists rr', rec_root sd segs' = Some rr' /\ Permutation rr rr'.
Proof.
  intros sd segs segs' Hp. induction Hp as [| [x del] l l' Hp IH | [x dx] [y dy] l | l l' l'' Hp1 IH1 Hp2 IH2];
    intros rr Hr.
  - exists rr. split; [exact Hr | apply Permutation_refl].
  - cbn [rec_root] in *. destruct (assocZ x sd) as [docs|]; [|discriminate].
    destruct (rec_root sd l) as [r|]; [|discriminate]. injection Hr as Hr. subst rr.
    destruct (IH r eq_refl) as [r' [Hr' Hpr]]. rewrite Hr'. eexists. split; [reflexivity|].
    apply perm_skip. exact Hpr.
  - cbn [rec_root] in *. destruct (assocZ y sd) as [dy'|]; [|discriminate].
    destruct (assocZ x sd) as [dx'|]; [|destruct (rec_root sd l); discriminate].
    destruct (rec_root sd l) as [r|]; [|discriminate]. injection Hr as Hr. subst rr.
    eexists. split; [reflexivity|]. apply perm_swap.
  - destruct (IH1 rr Hr) as [r1 [Hr1 Hp1']]. destruct (IH2 r1 Hr1) as [r2 [Hr2 Hp2']].
    exists r2. split; [exact Hr2|]. exact (perm_trans Hp1' Hp2').
Qed.

Lemma root_live_perm : forall a b, Permutation a b ->
  Permutation (ProofsCore1.root_live a) (ProofsCore1.root_live b).
Proof. intros a b H. unfold ProofsCore1.root_live. apply Permutation_flat_map. exact H. Qed.

(* what recovery builds from a record denotes the same contents as the record itself *)
Lemma rec_root_sorted : forall sd segs rr,
  rec_root sd segs = Some rr -> NoDup (map fst (ProofsCore1.root_live rr)) ->
  exists rs, rec_root sd (sort_segs segs) = Some rs
    /\ Permutation rr rs
    /\ NoDup (map fst (ProofsCore1.root_live rs))
    /\ (forall id, root_lookup rs id = root_lookup rr id).
Proof.
  intros sd segs rr Hr Hnd.
  destruct (rec_root_perm sd segs (sort_segs segs) (Permutation_sym (sort_segs_perm segs)) rr Hr)
    as [rs [Hrs Hp]].
  exists rs. split; [exact Hrs|]. split; [exact Hp|].
  assert (Hpl := root_live_perm rs rr (Permutation_sym Hp)).
  split.
  - eapply Permutation_NoDup; [apply Permutation_map; apply Permutation_sym; exact Hpl | exact Hnd].
  - intros id. rewrite !root_lookup_live. symmetry. apply assoc_first_perm; [|exact Hnd].
    apply Permutation_sym. exact Hpl.
Qed.

Lemma sort_segs_named : forall segs, Permutation (map fst (sort_segs segs)) (map fst segs).
Proof. intros segs. apply Permutation_map. apply sort_segs_perm. Qed.

(* ---------- canonical forms ---------- *)

Lemma ins_pair_perm : forall p l, Permutation (ins_pair p l) (p :: l).
Proof.
  intros p. induction l as [|q l IH]; cbn [ins_pair].
  - apply Permutation_refl.
  - destruct ((fst p <? fst q) || ((fst p =? fst q) && (snd p <=? snd q))).
    + apply Permutation_refl.
    + apply perm_trans with (q :: p :: l); [apply perm_skip; exact IH | apply perm_swap].
Qed.

Lemma canon_perm : forall l, Permutation (canon l) l.
Proof.
  unfold canon. induction l as [|p l IH]; cbn [fold_right].
  - apply Permutation_refl.
  - apply perm_trans with (p :: fold_right ins_pair [] l); [apply ins_pair_perm | apply perm_skip; exact IH].
Qed.

Lemma pairs_eqb_eq : forall a b, pairs_eqb a b = true -> a = b.
Proof.
  induction a as [|[x1 y1] a IH]; intros [|[x2 y2] b] H; cbn [pairs_eqb] in H; try discriminate.
  - reflexivity.
  - apply andb_true_iff in H. destruct H as [H Hr]. apply andb_true_iff in H. destruct H as [Hx Hy].
    apply Z.eqb_eq in Hx. apply Z.eqb_eq in Hy. subst. rewrite (IH b Hr). reflexivity.
Qed.

Lemma canon_eq_perm : forall a b, pairs_eqb (canon a) (canon b) = true -> Permutation a b.
Proof.
  intros a b H. apply pairs_eqb_eq in H.
  apply perm_trans with (canon a); [apply Permutation_sym; apply canon_perm|].
  rewrite H. apply canon_perm.
Qed.

Lemma same_contents_perm : forall a b,
  same_contents a b = true -> Permutation (ProofsCore1.root_live a) (ProofsCore1.root_live b).
Proof. intros a b H. unfold same_contents in H. exact (canon_eq_perm _ _ H). Qed.

Lemma perm_lookup : forall a b,
  Permutation (ProofsCore1.root_live a) (ProofsCore1.root_live b) ->
  NoDup (map fst (ProofsCore1.root_live b)) ->
  NoDup (map fst (ProofsCore1.root_live a)) /\ forall id, root_lookup a id = root_lookup b id.
Proof.
  intros a b Hp Hnd.
  assert (Hnda : NoDup (map fst (ProofsCore1.root_live a))).
  { eapply Permutation_NoDup; [apply Permutation_map; apply Permutation_sym; exact Hp | exact Hnd]. }
  split; [exact Hnda|]. intros id. rewrite !root_lookup_live. apply assoc_first_perm; assumption.
Qed.

(* ---------- newest / sorted ---------- *)

Lemma newest_nil : newest [] = None.
Proof. reflexivity. Qed.

Lemma newest_cons : forall x l, newest (x :: l) = match l with [] => Some x | _ => newest l end.
Proof. intros x [|y l]; reflexivity. Qed.

Lemma newest_app_one : forall l r, newest (l ++ [r]) = Some r.
Proof.
  intros l r. unfold newest. rewrite map_app. cbn [map]. apply last_last.
Qed.

Lemma newest_In : forall l n, newest l = Some n -> In n l.
Proof.
  induction l as [|x l IH]; intros n H.
  - discriminate.
  - rewrite newest_cons in H. destruct l as [|y l].
    + injection H as H. left. exact H.
    + right. exact (IH n H).
Qed.

Lemma newest_None : forall l, newest l = None -> l = [].
Proof.
  induction l as [|x l IH]; intros H; [reflexivity|].
  rewrite newest_cons in H. destruct l as [|y l]; [discriminate|].
  specialize (IH H). discriminate.
Qed.

Lemma newest_Some : forall l, l <> [] -> exists n, newest l = Some n.
Proof.
  intros l H. destruct (newest l) as [n|] eqn:E; [exists n; reflexivity|].
  apply newest_None in E. contradiction.
Qed.

Lemma newest_split : forall l n, newest l = Some n -> exists l1, l = l1 ++ [n].
Proof.
  induction l as [|x l IH]; intros n H.
  - discriminate.
  - rewrite newest_cons in H. destruct l as [|y l].
    + injection H as H. subst x. exists []. reflexivity.
    + destruct (IH n H) as [l1 Hl]. exists (x :: l1). cbn [app]. rewrite <- Hl. reflexivity.
Qed.

Lemma newest_filter_keep : forall (f : brec -> bool) l n,
  newest l = Some n -> f n = true -> newest (filter f l) = Some n.
Proof.
  intros f l n H Hf. destruct (newest_split l n H) as [l1 Hl]. subst l.
  rewrite filter_app. cbn [filter]. rewrite Hf. apply newest_app_one.
Qed.

Lemma bsorted_max : forall l n, bsorted l -> newest l = Some n ->
  forall y, In y l -> br_epoch y <= br_epoch n.
Proof.
  induction l as [|x l IH]; intros n Hs Hn y Hy.
  - destruct Hy.
  - cbn [bsorted] in Hs. destruct Hs as [Hx Hs]. rewrite newest_cons in Hn. destruct l as [|z l].
    + injection Hn as Hn. subst x. destruct Hy as [Hy|[]]. subst y. lia.
    + destruct Hy as [Hy|Hy].
      * subst y. assert (H := Hx n (newest_In _ _ Hn)). lia.
      * exact (IH n Hs Hn y Hy).
Qed.

Lemma bsorted_filter : forall (f : brec -> bool) l, bsorted l -> bsorted (filter f l).
Proof.
  intros f. induction l as [|x l IH]; intros Hs; cbn [filter].
  - exact I.
  - cbn [bsorted] in Hs. destruct Hs as [Hx Hs]. destruct (f x); [|exact (IH Hs)].
    cbn [bsorted]. split; [|exact (IH Hs)].
    intros y Hy. apply filter_In in Hy. exact (Hx y (proj1 Hy)).
Qed.

Lemma bsorted_app_one : forall l r, bsorted l -> (forall y, In y l -> br_epoch y < br_epoch r) ->
  bsorted (l ++ [r]).
Proof.
  induction l as [|x l IH]; intros r Hs Hr; cbn [app bsorted].
  - split; [intros y []|exact I].
  - cbn [bsorted] in Hs. destruct Hs as [Hx Hs]. split.
    + intros y Hy. apply in_app_or in Hy. destruct Hy as [Hy|[Hy|[]]].
      * exact (Hx y Hy).
      * subst y. apply Hr. left. reflexivity.
    + apply IH; [exact Hs|]. intros y Hy. apply Hr. right. exact Hy.
Qed.

(* ---------- replay / firstn ---------- *)

Lemma replay_app : forall a bs d, replay (a ++ bs) d = apply_batches bs (replay a) d.
Proof. intros. unfold replay. exact (apply_batches_app a bs (fun _ => None) d). Qed.

Lemma firstn_app_le : forall {A} k (a b : list A), (k <= length a)%nat -> firstn k (a ++ b) = firstn k a.
Proof.
  intros A k a b H. rewrite firstn_app. replace (k - length a)%nat with 0%nat by lia.
  cbn [firstn]. apply app_nil_r.
Qed.

Lemma firstn_firstn_le : forall {A} i j (l : list A), (i <= j)%nat -> firstn i (firstn j l) = firstn i l.
Proof. intros A i j l H. rewrite firstn_firstn. rewrite Nat.min_l; [reflexivity | exact H]. Qed.

(* ---------- core step facts ---------- *)

Lemma step_epoch : forall s e s', step s e = Some s' ->
  epoch s' = if swaps_root e then epoch s + 1 else epoch s.
Proof.
  intros s e s' H. destruct e as [newsid b iops | file groups | k | ids]; cbn [step swaps_root] in *.
  - match type of H with (if ?c then _ else _) = _ => destruct c end; [|discriminate].
    injection H as H. subst s'. reflexivity.
  - match type of H with (if ?c then _ else _) = _ => destruct c end; [|discriminate].
    injection H as H. subst s'. reflexivity.
  - destruct (nth_error (inflight s) k); [|discriminate]. injection H as H. subst s'. reflexivity.
  - injection H as H. subst s'. reflexivity.
Qed.

Lemma step_root_noswap : forall s e s', step s e = Some s' -> swaps_root e = false ->
  root s' = root s /\ internal s' = internal s.
Proof.
  intros s e s' H Hs. destruct e; cbn [swaps_root] in Hs; try discriminate. cbn [step] in H.
  match type of H with (if ?c then _ else _) = _ => destruct c end; [|discriminate].
  injection H as H. subst s'. split; reflexivity.
Qed.

Lemma forallb_mem_In : forall (l fs : list Z),
  forallb (fun id => mem_id id fs) l = true -> forall id, In id l -> In id fs.
Proof.
  intros l fs H id Hid. rewrite forallb_forall in H. apply mem_id_In. exact (H id Hid).
Qed.

(* ---------- the initial state ---------- *)

Lemma replay_nil : forall id, replay [] id = None.
Proof. reflexivity. Qed.

Lemma DInv_init : DInv [] dinit.
Proof.
  constructor; cbn [dinit d_batches d_up d_core d_files d_pub d_nb d_bolt d_tx d_segdocs root epoch init].
  - reflexivity.
  - intros _. exact Inv_init.
  - intros _ id. reflexivity.
  - intros _ id [].
  - intros e ri He H. cbn [assocZ] in H. destruct (0 =? e) eqn:E; [|discriminate].
    injection H as H. subst ri. exists 0%nat. cbn [assocZ]. rewrite E.
    split; [reflexivity|]. split; [intros id; reflexivity|]. split; constructor.
  - intros e1 e2 k1 k2 _ _ H1 H2. cbn [assocZ] in H1, H2.
    destruct (0 =? e1); [|discriminate]. destruct (0 =? e2); [|discriminate].
    injection H1 as H1. injection H2 as H2. subst. lia.
  - intros e k _ H. cbn [assocZ] in H. destruct (0 =? e); [|discriminate].
    injection H as H. subst k. cbn [length]. lia.
  - intros r [].
  - intros r id [].
  - intros r H. discriminate.
  - exact I.
Qed.

(* ---------- frame lemma: events that leave the core, the ghost history and the registry alone ---------- *)

Lemma DInv_frame : forall ef d d',
  DInv ef d ->
  epoch (d_core d') = epoch (d_core d) ->
  (d_up d' = true -> d_up d = true /\ d_core d' = d_core d) ->
  d_pub d' = d_pub d -> d_nb d' = d_nb d -> d_batches d' = d_batches d -> d_segdocs d' = d_segdocs d ->
  (forall r, In r (d_bolt d') -> rec_ok ef (epoch (d_core d)) (d_nb d) (d_segdocs d) r) ->
  (forall r id, In r (d_bolt d') -> In id (named_by r) -> In id (d_files d')) ->
  (forall r, d_tx d' = Some r -> rec_ok ef (epoch (d_core d)) (d_nb d) (d_segdocs d) r) ->
  bsorted (d_bolt d') ->
  (d_up d' = true -> forall id, In id (file_segs (root (d_core d))) -> In id (d_files d')) ->
  DInv ef d'.
Proof.
  intros ef d d' I Hep Hup Hpub Hnb Hb Hsd Hbolt Hnamed Htx Hsorted Hi5.
  constructor; rewrite ?Hep, ?Hpub, ?Hnb, ?Hb, ?Hsd.
  - exact (di_batches ef d I).
  - intros Hu. destruct (Hup Hu) as [Hu' Hc]. rewrite Hc. exact (di_core ef d I Hu').
  - intros Hu. destruct (Hup Hu) as [Hu' Hc]. rewrite Hc. exact (di_root ef d I Hu').
  - intros Hu. destruct (Hup Hu) as [Hu' Hc]. rewrite Hc. exact (Hi5 Hu).
  - exact (di_pub ef d I).
  - exact (di_mono ef d I).
  - exact (di_nble ef d I).
  - exact Hbolt.
  - exact Hnamed.
  - exact Htx.
  - exact Hsorted.
Qed.

(* ---------- transport of the per-record / per-published-root facts ---------- *)

Lemma pub_ok_transport : forall ef ef' nb nb' e ri,
  pub_ok ef nb e ri ->
  assocZ e nb' = assocZ e nb ->
  (forall k, assocZ e nb = Some k -> firstn k ef' = firstn k ef) ->
  pub_ok ef' nb' e ri.
Proof.
  intros ef ef' nb nb' e ri [k [Hk [Hc [Hn1 Hn2]]]] Hnb Hf. exists k.
  split; [rewrite Hnb; exact Hk|]. split; [|split; assumption].
  intros id. rewrite (Hf k Hk). apply Hc.
Qed.

Lemma rec_ok_transport : forall ef ef' ep ep' nb nb' sd sd' r,
  rec_ok ef ep nb sd r ->
  ep <= ep' ->
  assocZ (br_epoch r) nb' = assocZ (br_epoch r) nb ->
  (forall rr, rec_root sd (br_segs r) = Some rr -> rec_root sd' (br_segs r) = Some rr) ->
  (forall k, assocZ (br_epoch r) nb = Some k -> firstn k ef' = firstn k ef) ->
  rec_ok ef' ep' nb' sd' r.
Proof.
  intros ef ef' ep ep' nb nb' sd sd' r [He [Hnd [Hni [rr [k [Hr [Hk [Hc Hn]]]]]]]] Hep Hnb Hsd Hf.
  split; [lia|]. split; [exact Hnd|]. split; [exact Hni|]. exists rr, k.
  split; [exact (Hsd rr Hr)|]. split; [rewrite Hnb; exact Hk|]. split; [|exact Hn].
  intros id. rewrite (Hf k Hk). apply Hc.
Qed.

Lemma eff_step_core : forall d ef e, eff_step d ef (DCore e) = ef ++ step_batches e.
Proof. intros d ef [ | | | ]; cbn [eff_step step_batches]; try reflexivity; symmetry; apply app_nil_r. Qed.
